#!/usr/bin/env python3
"""vcheck.py - build, run, filter known findings, write evidence.

  vcheck.py setup
  vcheck.py run C02 [--tier quick|thorough]
  vcheck.py replay <file>
"""
import fcntl, json, os, re, shlex, subprocess, sys, time, glob, shutil

V = os.path.dirname(os.path.abspath(__file__))
REPO = os.environ.get("VERIF_REPO", "/repo")
B = os.path.join(V, "build")
ASAN = os.path.join(B, "asan")
CC = "clang"
SAN = "-fsanitize=address,undefined -fno-sanitize=nonnull-attribute -fno-sanitize-recover=undefined -fno-omit-frame-pointer"

WRAPS = ("pthread_mutex_lock pthread_mutex_unlock pthread_cond_wait pthread_cond_timedwait "
         "pthread_cond_signal pthread_cond_broadcast pthread_create pthread_join clock_gettime "
         "nanosleep epoll_wait nni_random sendmsg send writev readv getaddrinfo "
         "nni_atomic_flag_test_and_set nni_atomic_dec_nv nni_atomic_inc nni_atomic_dec "
         "nni_atomic_cas nni_atomic_swap_bool nni_atomic_get_bool nni_atomic_get "
         "nni_alloc nni_zalloc nni_free nni_plat_pipe_raise nni_plat_pipe_clear").split()

# thorough tiers that need more than the default 1500 s wall clock to complete their bounds
THOROUGH_DEADLINE_S = {"C02": 3000, "C03": 2700, "C05": 2700, "C10": 3000, "C14": 2400}

# property -> (harness source, engine kind, level, rule text)
CHECKS = {}


def reg(pid, src, kind, level, rule, technique):
    CHECKS[pid] = dict(src=src, kind=kind, level=level, rule=rule, technique=technique)


reg("C01", "c01_integrity.c", "sched", "fault_enumeration",
    "enumeration of message-size sequences x every cut position of the wire byte stream (receive side), "
    "every write/read call x clamp length (library side), ws fragment sizes, inproc header/body sizes; "
    "non-trivial = the cut/clamp fell strictly inside a frame and was consumed by the library",
    "exhaustive segmentation enumeration on the real transports under a cooperative scheduler")
reg("C02", "c02_aio.c", "sched", "model_checking",
    "", "stateless model checking: preemption-bounded DFS of thread schedules of the real aio core (link-time interposed scheduler, virtual clock)")
reg("C03", "c03_ownership.c", "sched", "model_checking",
    "", "bounded-exhaustive API perturbation sequences under an accounting allocator + ASan")
reg("C04", "c04_reqrep.c", "sched", "model_checking",
    "", "explicit enumeration of all op/peer-answer sequences to depth d against a reference state machine, real req.c/rep.c")
reg("C05", "c05_pubsub.c", "sched", "model_checking",
    "", "explicit enumeration of all subscribe/publish/recv sequences to depth d against a reference model, real sub.c/pub.c")
reg("C06", "c06_pipeline.c", "sched", "model_checking",
    "", "all op sequences to depth d + preemption-bounded schedules; conservation oracle")
reg("C07", "c07_survey.c", "sched", "model_checking",
    "", "all op/response/time-advance sequences to depth d on a virtual clock against a reference model")
reg("C08", "c08_pair.c", "sched", "model_checking",
    "", "all op sequences to depth d + exhaustive hop-header boundary classes x ttl")
reg("C09", "c09_bus.c", "sched", "model_checking",
    "", "all send/recv sequences to depth d on a 3-node mesh + raw forwarding cases")
reg("C10", "c10_close.c", "sched", "model_checking",
    "", "preemption-bounded DFS of close vs pending-operation schedules; deadlock/livelock verdicts")
reg("C11", "c11_hostile.c", "sched", "fault_enumeration",
    "every truncation offset, every byte value at every handshake/header offset, length boundary values x RECVMAXSZ, "
    "protocol header shapes; non-trivial = the hostile bytes were read by the library (connection reached nego/recv)",
    "bounded-exhaustive hostile byte-stream enumeration against real listeners/dialers")
reg("C12", "c12_retry.c", "sched", "model_checking",
    "", "all fault sequences (<=k faults at every position) on a virtual clock, liveness within a computed bound")
reg("C13", "c13_device.c", "sched", "model_checking",
    "", "all chain lengths x ttl, all backtrace shapes; exact routing oracle")
reg("C14", "c14_pipe_events.c", "sched", "model_checking",
    "", "preemption-bounded DFS of connect/reject/close schedules; event-order ledger; virtual-time redial bound")
reg("C15", "c15_nonblock.c", "sched", "model_checking",
    "", "all op sequences to depth d per protocol; poll-fd vs non-blocking result at every quiescent state")
reg("C16", "c16_codec.c", "sched", "fault_enumeration",
    "every 0/1/2-cut segmentation of a corpus of valid and single-rule-violation HTTP/WS streams; "
    "non-trivial = the cut fell strictly inside the stream / the violating frame reached the decoder",
    "bounded-exhaustive frame-rule and segmentation enumeration")
reg("C17", "c17_msg.c", "bfs", "model_checking",
    "", "explicit-state BFS over the real message.c with full-state dedup against a two-string reference model")
reg("C18", "c18_queues.c", "bfs", "model_checking",
    "", "explicit-state BFS over the real lmq.c/idhash.c/msgqueue.c with full-state dedup against list/map reference models")
reg("C19", "c19_url.c", "bfs", "model_checking",
    "", "exhaustive input enumeration over a forced-collision alphabet against an independent reference (RFC 3629 table, exact scheme match)")
reg("C20", "c20_alloc.c", "sched", "fault_enumeration",
    "fail the k-th allocation for every k of every corpus program under the deterministic default schedule; "
    "non-trivial = the failing allocation was reached (k <= allocations of the fault-free run) and returned NULL to the library",
    "exhaustive single-allocation-failure enumeration (k = 1..N) on real API programs")


def sh(cmd, **kw):
    return subprocess.run(cmd, shell=True, **kw)


def lib_flags():
    cc = json.load(open(os.path.join(ASAN, "compile_commands.json")))
    for e in cc:
        if e["file"].endswith("core/lmq.c") and "nng_testing" not in e["command"]:
            toks = shlex.split(e["command"])
            return " ".join(shlex.quote(t) for t in toks if t.startswith("-D") or t.startswith("-I"))
    raise SystemExit("compile_commands: lmq.c not found")


def configure():
    os.makedirs(B, exist_ok=True)
    stamp = os.path.join(B, "flags.stamp")
    want = SAN + "|" + REPO
    if os.path.exists(stamp) and open(stamp).read() != want:
        shutil.rmtree(ASAN, ignore_errors=True)
    if not os.path.exists(os.path.join(ASAN, "build.ninja")):
        open(stamp, "w").write(want)
        r = sh(f"cmake -G Ninja -S {REPO} -B {ASAN} -DCMAKE_C_COMPILER=clang -DCMAKE_CXX_COMPILER=clang++ "
               f"-DCMAKE_BUILD_TYPE=RelWithDebInfo -DCMAKE_C_FLAGS='{SAN}' -DBUILD_SHARED_LIBS=OFF "
               f"-DNNG_TESTS=OFF -DNNG_TOOLS=OFF -DCMAKE_EXPORT_COMPILE_COMMANDS=ON > {B}/cfg.log 2>&1")
        if r.returncode:
            print(open(f"{B}/cfg.log").read()[-3000:])
            raise SystemExit(2)


def build_lib():
    configure()
    r = sh(f"ninja -C {ASAN} nng > {B}/ninja.log 2>&1")
    if r.returncode:
        sys.stdout.write(open(f"{B}/ninja.log").read()[-4000:])
        print("BUILD FAILED (library does not compile)")
        raise SystemExit(2)


def build_harness(pid):
    c = CHECKS[pid]
    src = os.path.join(V, "harness", c["src"])
    out = os.path.join(B, "bin", pid)
    os.makedirs(os.path.dirname(out), exist_ok=True)
    flags = lib_flags()
    wraps = ",".join("--wrap=" + w for w in WRAPS)
    eng = f"{V}/engine/vs.c {V}/engine/vpeer.c {V}/engine/valloc.c"
    cmd = (f"{CC} -O1 -g {SAN} -std=gnu11 -Wall -Wno-unused-function -Wno-unused-variable {flags} -I{V}/engine "
           f"-DVERIF_REPO='\"{REPO}\"' {src} {eng} {ASAN}/libnng.a -Wl,{wraps} -lpthread -o {out} > {B}/cc_{pid}.log 2>&1")
    r = sh(cmd)
    if r.returncode:
        sys.stdout.write(open(f"{B}/cc_{pid}.log").read()[-6000:])
        print("HARNESS BUILD FAILED")
        raise SystemExit(2)
    return out


def load_known():
    p = os.path.join(V, "known_findings.json")
    if not os.path.exists(p):
        return []
    return json.load(open(p)).get("findings", [])


def cmd_setup():
    os.makedirs(B, exist_ok=True)
    with open(os.path.join(B, ".lock"), "w") as lk:
        fcntl.flock(lk, fcntl.LOCK_EX)
        build_lib()
    print("setup ok")


def cmd_run(pid, tier):
    t0 = time.time()
    os.makedirs(B, exist_ok=True)
    os.makedirs(os.path.join(V, "evidence"), exist_ok=True)
    c = CHECKS[pid]
    lk = open(os.path.join(B, ".lock"), "w")
    fcntl.flock(lk, fcntl.LOCK_EX)
    build_lib()
    exe = build_harness(pid)
    fcntl.flock(lk, fcntl.LOCK_UN)
    res = os.path.join(B, f"result_{pid}.json")
    if os.path.exists(res):
        os.unlink(res)
    env = dict(os.environ)
    env["ASAN_SYMBOLIZER_PATH"] = shutil.which("llvm-symbolizer") or ""
    extra = []
    if tier == "thorough" and pid in THOROUGH_DEADLINE_S and "VERIF_DEADLINE_S" not in os.environ:
        extra = ["--deadline", str(THOROUGH_DEADLINE_S[pid])]
    Rq = None
    if tier == "thorough" and not os.environ.get("VERIF_NO_QUICK_PASS"):
        # first pass: the complete quick tier, so that whatever the thorough budgets and the global
        # deadline leave unexplored on a slow day, the thorough tier never covers less than the quick one
        resq = os.path.join(B, f"result_{pid}_quickpass.json")
        if os.path.exists(resq):
            os.unlink(resq)
        rq = subprocess.run([exe, "--tier", "quick", "--out", resq], cwd=V, env=env)
        if not os.path.exists(resq):
            print(f"MACHINERY-ERROR: harness {pid} produced no result in the quick pass (rc={rq.returncode})")
            return 2
        Rq = json.load(open(resq))
    r = subprocess.run([exe, "--tier", tier, "--out", res] + extra, cwd=V, env=env)
    if not os.path.exists(res):
        print(f"MACHINERY-ERROR: harness {pid} produced no result (rc={r.returncode})")
        return 2
    R = json.load(open(res))
    if Rq is not None:
        for k in ("executions", "choice_nodes", "sched_steps", "switches", "nontrivial", "cases", "hangs", "bfs_states",
                  "bfs_transitions", "traces", "fault_evaluations", "fault_nontrivial", "scenarios",
                  "vacuous_scenarios", "machinery_errors"):
            R[k] = R.get(k, 0) + Rq.get(k, 0)
        for st in Rq["scenario_stats"]:
            st["scenario"] = "[quick pass] " + st["scenario"]
        R["scenario_stats"] = Rq["scenario_stats"] + R["scenario_stats"]
        sigs = {v["signature"] for v in R["violations"]}
        R["violations"] += [v for v in Rq["violations"] if v["signature"] not in sigs]
        R["unreproduced"] = (R.get("unreproduced") or []) + (Rq.get("unreproduced") or [])
        R["samples"] = (R.get("samples") or []) + (Rq.get("samples") or [])[:4]
        R["determinism_ok"] = bool(R["determinism_ok"]) and bool(Rq["determinism_ok"])
        R["exhaustive"] = bool(R["exhaustive"]) and bool(Rq["exhaustive"])
        R.setdefault("notes", {})["quick_pass"] = (
            f"the thorough tier starts with the complete quick tier ({Rq['executions']} executions, "
            f"{len(Rq['scenario_stats'])} scenarios, {Rq['wall_s']} s; rows marked [quick pass]), then runs the "
            "thorough budgets; counts are the sums of both passes")
    known = [k for k in load_known() if k.get("property") == pid and k.get("status") == "known"]
    rc = 0
    nknown = 0
    nviol = 0
    seen_known = set()
    for v in R["violations"]:
        sig = v["signature"]
        hit = None
        for k in known:
            if re.fullmatch(k["signature"], sig):
                hit = k
                break
        if hit:
            nknown += 1
            if hit["signature"] not in seen_known:
                seen_known.add(hit["signature"])
                print(f"KNOWN-FINDING: property={pid} {hit['what']} [signature {sig}]")
        else:
            nviol += 1
            print(f"VIOLATION property={pid} replay={os.path.join(V, v['replay'])}")
            print(f"  signature: {sig}")
            print(f"  message: {v['message'][:600]}")
            rc = 1
    for u in R.get("unreproduced") or []:
        print(f"NOTE: failure observed once but not reproduced when its choice list was replayed alone (3 attempts), not reported: {u}")
    if R.get("machinery_errors"):
        print(f"MACHINERY-ERROR: {R['machinery_errors']} (nondeterminism / replay divergence); see stderr")
        if rc == 0:
            rc = 2
    # evidence
    level = c["level"]
    cov = {}
    samples = R.get("samples") or ["(none)"]
    if level == "model_checking":
        states = R["choice_nodes"] + R["bfs_states"] + R["executions"]
        trans = R["sched_steps"] + R["bfs_transitions"]
        cov = dict(states=states, transitions=trans,
                   traces_validated_against_impl=R["executions"] + R["traces"],
                   samples=samples)
        cov["explanation"] = ("states = choice-tree nodes visited (every choice point of every execution) plus BFS states; "
                              "transitions = scheduling steps executed plus BFS edges; every trace is an execution of the real code")
    else:
        ev = R.get("cases", R["executions"]) + R["fault_evaluations"]
        nt = R["nontrivial"] + R["fault_nontrivial"]
        cov = dict(evaluations=ev, distinct_nontrivial=nt, rule=c["rule"], samples=samples)
    cov.update(executions=R["executions"], choice_nodes=R["choice_nodes"], sched_steps=R["sched_steps"],
               thread_switches=R["switches"], scenarios=R["scenario_stats"], exhaustive=bool(R["exhaustive"]),
               determinism_replay_ok=bool(R["determinism_ok"]), vacuous_scenarios=R["vacuous_scenarios"],
               notes=R.get("notes", {}), known_findings_matched=nknown, technique=c["technique"],
               unreproduced_observations=R.get("unreproduced") or [])
    evd = dict(property_id=pid, tier=tier, seed=int(os.environ.get("VERIF_SEED", "0") or 0), level=level,
               coverage=cov,
               assumptions=[
                   "scheduling points are lock/cond/thread/epoll/sleep operations and unlocks that make another thread runnable (plus atomics where stated); code between two points is atomic; "
                   "sequentially consistent memory",
                   "virtual clock; AF_UNIX delivery synchronous with write(); bounds and alphabets as listed per scenario",
                   "library built from /repo working tree with clang ASan+UBSan, RelWithDebInfo, -DNDEBUG",
               ],
               wall_s=round(time.time() - t0, 2), violations=nviol)
    with open(os.path.join(V, "evidence", f"{pid}.json"), "w") as f:
        json.dump(evd, f, indent=1)
    # compact per-tier summary (kept for both tiers; RESULTS.md is generated from these)
    os.makedirs(os.path.join(V, "results"), exist_ok=True)
    # (runs against a seeded change - tools/seedtest.sh, seedmatrix.sh - do not record results)
    with open(os.devnull if os.environ.get("VERIF_SEEDED") else os.path.join(V, "results", f"{pid}_{tier}.json"), "w") as f:
        json.dump(dict(property_id=pid, tier=tier, repo=subprocess.run(f"git -C {REPO} rev-parse --short HEAD", shell=True,
                       capture_output=True, text=True).stdout.strip(),
                       executions=R["executions"], choice_nodes=R["choice_nodes"], sched_steps=R["sched_steps"],
                       bfs_states=R["bfs_states"], bfs_transitions=R["bfs_transitions"],
                       fault_evaluations=R["fault_evaluations"], cases=R.get("cases", 0),
                       exhaustive=bool(R["exhaustive"]), known=nknown, violations=nviol,
                       wall_s=round(time.time() - t0, 1), scenarios=R["scenario_stats"]), f, indent=0)
    print(f"{pid} {tier}: executions={R['executions']} nodes={R['choice_nodes']} bfs_states={R['bfs_states']} "
          f"fault_evals={R['fault_evaluations']} exhaustive={R['exhaustive']} known={nknown} violations={nviol} "
          f"wall={time.time() - t0:.1f}s")
    return rc


def cmd_replay(path):
    R = json.load(open(path))
    pid = R["property"]
    build_lib()
    exe = build_harness(pid)
    env = dict(os.environ)
    env["ASAN_SYMBOLIZER_PATH"] = shutil.which("llvm-symbolizer") or ""
    if "choices" not in R:
        print(json.dumps(R, indent=1))
        print(f"VIOLATION property={pid} replay={path}")
        return 1
    r = subprocess.run([exe, "--tier", R.get("tier", "quick"), "--replay", path], cwd=V, env=env)
    return r.returncode


TSAN = os.path.join(B, "tsan")
SAN_T = "-fsanitize=thread -fno-omit-frame-pointer"


def cmd_tsan(pid, extra):
    """free-running ThreadSanitizer pass over the scenario bodies of one harness (assumption
    validator, not a deciding check): vcheck.py tsan CNN [--tier t] [--only s]"""
    os.makedirs(B, exist_ok=True)
    lk = open(os.path.join(B, ".lock_tsan"), "w")
    fcntl.flock(lk, fcntl.LOCK_EX)
    if not os.path.exists(os.path.join(TSAN, "build.ninja")):
        r = sh(f"cmake -G Ninja -S {REPO} -B {TSAN} -DCMAKE_C_COMPILER=clang -DCMAKE_CXX_COMPILER=clang++ "
               f"-DCMAKE_BUILD_TYPE=RelWithDebInfo -DCMAKE_C_FLAGS='{SAN_T}' -DBUILD_SHARED_LIBS=OFF "
               f"-DNNG_TESTS=OFF -DNNG_TOOLS=OFF > {B}/cfg_tsan.log 2>&1")
        if r.returncode:
            print(open(f"{B}/cfg_tsan.log").read()[-3000:])
            return 2
    if sh(f"ninja -C {TSAN} nng > {B}/ninja_tsan.log 2>&1").returncode:
        print(open(f"{B}/ninja_tsan.log").read()[-3000:])
        return 2
    configure()
    c = CHECKS[pid]
    src = os.path.join(V, "harness", c["src"])
    out = os.path.join(B, "bin", pid + "_tsan")
    os.makedirs(os.path.dirname(out), exist_ok=True)
    eng = f"{V}/engine/vs_free.c {V}/engine/vpeer.c {V}/engine/valloc.c"
    cmd = (f"{CC} -O1 -g {SAN_T} -std=gnu11 -Wno-unused-function -Wno-unused-variable {lib_flags()} -I{V}/engine "
           f"-DVERIF_REPO='\"{REPO}\"' {src} {eng} {TSAN}/libnng.a -lpthread -o {out} > {B}/cc_{pid}_tsan.log 2>&1")
    if sh(cmd).returncode:
        sys.stdout.write(open(f"{B}/cc_{pid}_tsan.log").read()[-4000:])
        print("TSAN HARNESS BUILD FAILED")
        return 2
    os.makedirs(os.path.join(V, "tsan"), exist_ok=True)
    res = os.path.join(V, "tsan", pid + ".json")
    env = dict(os.environ, TSAN_OPTIONS="halt_on_error=0 exitcode=0 report_signal_unsafe=0 history_size=4")
    r = subprocess.run([out, "--out", res] + extra, cwd=V, env=env)
    return 0 if r.returncode == 0 else 2


def main():
    a = sys.argv[1:]
    if not a:
        print(__doc__)
        return 2
    if a[0] == "setup":
        cmd_setup()
        return 0
    if a[0] == "run":
        tier = os.environ.get("VERIF_TIER", "quick")
        if "--tier" in a:
            tier = a[a.index("--tier") + 1]
        return cmd_run(a[1], tier)
    if a[0] == "replay":
        return cmd_replay(a[1])
    if a[0] == "tsan":
        return cmd_tsan(a[1], a[2:])
    return 2


if __name__ == "__main__":
    sys.exit(main())
