#!/usr/bin/env python3
"""tools/mkprompt3.py <prop> <tag>  -> prints the round-3 mutation prompt for a sub-agent.

The prompt contains only the property text, a focus clause (a quotation of part of that text,
used to spread the agents over the statement) and the path of the agent's scratch worktree.
Nothing from /verif goes into it."""
import json, sys

FOCUS = {
    "C01": "partial reads and partial writes on ipc, tcp and socket-fd connections with messages of unusual sizes (empty, very large, header-only), and websocket connections",
    "C02": "'once nng_aio_stop or nng_aio_free has returned no callback for that aio is running or will ever run', 'a timeout never fires before the configured duration', and closing of the underlying object (socket, context, stream, pipe) while an operation is pending",
    "C03": "'setting options, closing objects or cancelling operations at any moment never causes a use-after-free, double free, out-of-bounds access or leak' and 'by the application after a failed send (the message is still attached to the aio)'",
    "C04": "the REP side ('sends its reply only to the connection, and with the routing backtrace, of the request it most recently received') and 'duplicates and unsolicited replies are discarded without disturbing other contexts'",
    "C05": "'contexts filter independently', 'when a receive buffer is full exactly one message is dropped per arrival - the oldest if NNG_OPT_SUB_PREFNEW is true, otherwise the new one', 'a PUB send never blocks'",
    "C06": "'PUSH send applies back-pressure ... leaving the message with the caller, instead of silently discarding it' and 'none is lost while connections stay up' with several pipes and buffer sizes",
    "C07": "the RESPONDENT side ('a respondent's response is sent only to the surveyor whose survey it most recently received') and 'a receive still pending at the deadline fails with NNG_ETIMEDOUT'",
    "C08": "'further connections are refused while the first is alive', 'send blocking rather than discarding when the peer is not reading', and the PAIRv1 hop count rules",
    "C09": "'in raw mode a message whose header names the pipe it arrived on is forwarded to every connected peer except that pipe', 'messages from one peer arrive in that peer's send order', 'dropped whole rather than duplicated'",
    "C10": "nng_ctx_close, nng_dialer_close, nng_listener_close and nng_pipe_close (rather than nng_socket_close), and 'the handle and every handle derived from it ... are invalid'",
    "C11": "ipc, websocket and udp connections, and 'messages with malformed protocol headers are never delivered to the application'; 'the listener and all other connections keep working'",
    "C12": "several contexts on one REQ socket, replies arriving around the resend moment, and 'with resending disabled ... the request is put on the wire at most once and losing its connection makes the receive fail with NNG_ECONNRESET'",
    "C13": "SURVEYOR/RESPONDENT devices, 'forwards each message it accepts with an unchanged body', and 'backtraces that are malformed or longer than the header capacity are dropped or disconnect their sender without memory corruption'",
    "C14": "'dials again after a randomised delay no longer than the larger configured reconnect time, until it is closed', 'a dialer owns at most one pipe at a time', 'a listener keeps accepting further connections whatever happens to individual pipes'",
    "C15": "the poll descriptors ('no missed wake-up', 'no busy loop') of cooked and raw sockets of the less common protocols (surveyor, respondent, bus, pub, push, pull, pair1) and contexts",
    "C16": "HTTP request/response parsing and chunked bodies split across reads, 'control frames interleaved' in fragmented WebSocket messages, and 'everything they emit is well-formed for a conforming peer'",
    "C17": "the u16/u32/u64 forms, nng_msg_realloc, nng_msg_reserve, nng_msg_clear, nng_msg_dup, and the header operations with their fixed capacity",
    "C18": "identifiers ('unique among live objects, lie within their documented range and are not reissued before the range wraps'; nng_id_map set/get/remove/visit) and resizing a buffer while it holds messages",
    "C19": "ports, percent-escapes, IPv6 literals, userinfo, query and fragment handling, dot-segment and duplicate-slash removal, and 'formatting with nng_url_sprintf and parsing again yields the same' components",
    "C20": "allocation failures during connection establishment, background activity (accept, redial, receive paths of transports, websocket/http), statistics, and 'does not leave the object in a state where later calls misbehave'",
}

FOCUS4 = {
    "C02": "closing of the underlying object (byte streams, HTTP connections and servers, websocket streams, dialers and listeners) while operations are pending, and nng_aio_free / nng_aio_wait",
    "C10": "nng_listener_close and nng_dialer_close while connections are being established or negotiated, and 'whatever operations are pending or being issued concurrently from other threads'",
    "C11": "tcp and socket-fd connections: 'wrong protocol ids, oversized or inconsistent length fields', and 'the process does not ... hang or spin'",
    "C12": "'until a reply arrives, the request is cancelled or replaced, or the receive times out', with several repliers / connections to choose from",
    "C14": "'never ADD_POST or REM_POST without ADD_PRE', 'every pipe that reached ADD_POST receives REM_POST no later than the return of its socket's close', 'a pipe closed inside ADD_PRE never carries application messages'",
    "C15": "the send side: 'if the socket can accept (send) ... a message at that moment the call does so instead of returning NNG_EAGAIN', send poll descriptors, raw sockets",
    "C20": "'does not ... deadlock or leak', in contexts, option calls, devices, dialers that redial, and the per-pipe setup of every protocol",
    "C04": "the REQ side: 'replies to cancelled, superseded or unknown requests ... are discarded', several contexts sharing connections",
    "C06": "several pullers and several pushers: 'delivered to at most one PULL peer', 'messages carried by the same connection arrive in send order'",
    "C13": "REQ/REP devices and NNG_OPT_MAXTTL: 'a message that has already crossed more hops than the receiving socket's NNG_OPT_MAXTTL is discarded instead of delivered or forwarded'",
    "C05": "'unsubscribing also removes already queued messages that no longer match', topics that are prefixes of one another, empty topics and empty bodies",
    "C09": "'BUS send never blocks', 'when queues are full messages are dropped whole rather than duplicated, reordered or corrupted', several peers",
}
FOCUS5 = {
    "C01": "inproc and socket-fd connections, raw sockets ('the protocol header bytes travel in front of the body and are re-parsed by the receiving protocol, never lost or mixed into another message'), and 'messages that travel over the same connection arrive in the order they were sent'",
    "C03": "contexts and aio objects ('each message is released exactly once ... by the application after a failed send (the message is still attached to the aio) or after a successful receive'), devices, and pipe close at any moment",
    "C07": "the SURVEYOR side with several respondents and several contexts: 'responses to earlier surveys or to other contexts' surveys and late responses are discarded', 'receive with no live survey fails with NNG_ESTATE'",
    "C08": "'between the two peers messages are delivered in send order, each at most once and none lost while the connection stays up, with send blocking rather than discarding when the peer is not reading', buffers and reconnects",
    "C16": "the WebSocket framing rules ('client frames masked and server frames unmasked, no reserved opcodes or bits, minimal length encodings, control frames at most 125 bytes, no continuation without a start') and the opening handshake in both roles",
    "C17": "append / insert / trim / chop with lengths around the internal head room and capacity growth, 'fail with NNG_EINVAL and no change when asked to remove more than is present', 'a duplicate is independent of its original'",
    "C18": "'they never hold more than their configured depth plus the documented in-flight slot, never reorder, duplicate or corrupt queued messages', the protocols' own queues (pair, push, pub, bus, sub) and request / survey ids",
    "C19": "'a well-formed authority and port', IPv6 literals, userinfo, upper-case schemes and hosts, 'it never crashes or reads out of bounds on any input', 'nng_url_clone yields an equal, independent URL whatever its length'",
}
FOCUS6 = {
    "C04": "'the state machines reject out-of-order use: receive before send on REQ, send before receive on REP and a second concurrent receive fail with NNG_ESTATE', REP contexts served concurrently over several connections, and raw-mode REQ/REP sockets",
    "C05": "'messages from one publisher are never duplicated, altered or reordered', several publishers and several subscribers, subscriptions changed while messages arrive, raw XSUB/XPUB sockets and NNG_OPT_RECVBUF changes",
    "C06": "'with no peer ready and the send buffer full it blocks, or fails with NNG_EAGAIN or NNG_ETIMEDOUT leaving the message with the caller', pipes that come and go while senders wait, 'never duplicated', raw XPUSH/XPULL",
    "C09": "'offered to every currently connected peer at most once each and is never delivered back to the socket that sent it', peers that join and leave while messages are in flight, and receive-side queues",
    "C12": "'is retransmitted whenever the connection it was sent on is lost', a request that is still queued (no connection yet / all connections busy) when connections appear and disappear, and 'the requester's receive eventually succeeds with a reply to that request'",
    "C13": "'every reply or response returns to exactly the original requester or surveyor through any chain of devices', several requesters / surveyors behind one device at the same time, and devices for PAIR, BUS, PUB/SUB and PUSH/PULL ('forwards each message it accepts with an unchanged body')",
    "C14": "'every pipe that reached ADD_POST receives REM_POST no later than the return of its socket's close', notification callbacks that call back into the library (close the pipe, send, set options), and listeners under accept errors",
    "C10": "'every operation pending on the closed object then completes with NNG_ECLOSED or another terminal result, so nothing stays pending forever' for contexts, blocking calls (nng_recvmsg, nng_sendmsg, nng_dial) in other threads, and devices",
}
FOCUS7 = {
    "C01": "large messages (tens of KiB up to a few MiB) and several messages queued back to back on ipc / tcp / websocket, the send side's gather lists (header and body written by one call that is only partially accepted), 'a receiver never observes a truncated, merged, altered or duplicated message', and inproc with messages shared between several receivers",
    "C03": "'After all sockets are closed and nng_fini returns, every block the library obtained from the (pluggable) allocator has been returned to it, with the size it was allocated with': dialers and listeners, option strings, statistics, stream and HTTP objects, and messages still held in protocol queues (pending retries, surveys, subscriptions, unread receive buffers) when the socket is closed",
    "C07": "NNG_OPT_SURVEYOR_SURVEYTIME changed on the socket and on contexts between surveys, several surveys in a row with responses still in flight, raw XSURVEYOR / XRESPONDENT sockets, and 'sending a response with no pending survey fails with NNG_ESTATE'",
    "C08": "'PAIRv1 adds one to a hop count on every traversal', raw PAIR sockets, 'a message with a malformed hop header disconnects its sender and is never delivered', and reconnects: after the first peer has gone a new peer is accepted and the exchange with it is again ordered and lossless",
    "C17": "sequences that mix header and body operations, nng_msg_dup of messages that were trimmed / grown / carry a header, nng_msg_realloc shrinking and growing around powers of two, nng_msg_reserve and nng_msg_capacity, 'capacity never falls below length'",
    "C19": "'a known scheme followed by ://' for every scheme of the table (tcp4/tcp6, tls+tcp, ws/wss and their 4/6 forms, ipc / unix / abstract, inproc, socket, udp), paths of ipc / inproc / abstract URLs, 'valid percent-escapes' (%00, %2f vs %2F, truncated escapes, escapes in host, query and fragment), default ports and nng_url_resolve_port",
    "C02": "operations that complete at submission (data already available, immediate errors, zero or already expired timeouts), 'a cancel, stop or timeout code is reported only if the operation had not already completed', nng_sleep_aio, nng_aio_set_expire, one aio object reused for different operations and objects",
    "C11": "'malformed or truncated handshakes' (the 8-byte SP header: wrong magic, version, reserved bytes, sent slowly or partially), peers that connect and then stay silent, many hostile connections at once, 'the listener and all other connections keep working'",
    "C15": "'whenever the library is quiescent, a descriptor polls readable if the corresponding non-blocking operation would succeed (no missed wake-up)' after pipes come and go, after NNG_OPT_SENDBUF / NNG_OPT_RECVBUF changes, and through the REQ/REP and SURVEYOR state machines",
    "C16": "the HTTP server and client: request and response bodies with Content-Length, 'chunked body ... however it is split across reads', several requests on one connection, header and line length limits, 'returning an HTTP error status rather than delivering data'",
    "C18": "'nng_id_map set/get/remove/visit behave as a finite map' (growth, shrink, collisions, wrap of dynamic ids, NNG_MAP_RANDOM), 'not reissued before the range wraps', and the message queues of raw sockets (SENDBUF / RECVBUF of REQ, REP, SURVEYOR, RESPONDENT raw sockets and contexts)",
    "C20": "'during any public API call': nng_msg operations, URL parsing and cloning, option setters with strings, nng_stream dial / listen / accept, HTTP client and server objects, statistics snapshots, 'does not leave the object in a state where later calls misbehave'",
}
FOCUS8 = {
    "C04": "raw-mode REQ/REP sockets and requests relayed through devices (request id and multi-hop backtrace pass through unchanged), a request whose connection closes before the reply is sent ('sends its reply only to the connection ... of the request it most recently received': the reply is discarded, not sent to anybody else), and more than two contexts on one socket",
    "C05": "the PUB side: 'a PUB send never blocks' with slow or stalled subscribers and NNG_OPT_SENDBUF changes, subscribers that connect and disconnect while messages are published, 'messages from one publisher are never duplicated, altered or reordered' for each subscriber independently, NNG_OPT_RECVBUF of SUB contexts",
    "C06": "pullers that connect, disconnect and reconnect while messages wait in the PUSH send buffer or in blocked senders, NNG_OPT_SENDBUF / NNG_OPT_RECVBUF changes at that time, several pushers feeding one puller, and sends with timeouts ('fails with NNG_EAGAIN or NNG_ETIMEDOUT leaving the message with the caller')",
    "C09": "raw-mode BUS: header handling on send and receive ('a message whose header names the pipe it arrived on is forwarded to every connected peer except that pipe', headers of the wrong size), the per-peer send queues and the receive queue resized while they hold messages, 'dropped whole rather than duplicated, reordered or corrupted'",
    "C10": "nng_pipe_close and nng_ctx_close, handles derived from a closed object (the socket / dialer / listener of a pipe, ids, option calls on dead handles: 'fail with NNG_ECLOSED or NNG_ENOENT instead of acting on released state'), and nng_socket_close called twice or from several threads at once",
    "C12": "NNG_OPT_REQ_RESENDTIME and NNG_OPT_REQ_RESENDTICK values (very small, changed while a request is outstanding, different per context), 'the request is cancelled or replaced' (a new send on the same context replaces the old request: only the new one is retransmitted and answered), 'or the receive times out'",
    "C13": "devices with traffic in both directions at the same time and large messages, nng_device with a single socket (reflector), stopping a device with nng_aio_cancel and starting another on the same sockets, and 'backtraces that are malformed or longer than the header capacity' arriving at raw sockets (replies at XREQ, responses at XSURVEYOR as well as requests at XREP / XRESPONDENT)",
    "C14": "'dials again after a randomised delay no longer than the larger configured reconnect time': NNG_OPT_RECONNMINT / NNG_OPT_RECONNMAXT on the socket versus on the dialer, growth of the back-off and its reset after a successful connection, NNG_FLAG_NONBLOCK dials of an unreachable address, 'a dialer owns at most one pipe at a time' when the peer accepts and closes at once",
}
FOCUS9 = {
    "C02": "nng_aio_wait and nng_aio_busy, several aios on one object completing in one batch, nng_aio_abort with a caller-supplied error code, user-defined providers built on nng_aio_start / nng_aio_finish, and the synchronous wrappers (nng_recvmsg, nng_sendmsg, blocking nng_dial) that use the skip-callback form: 'its skip-callback flag is set exactly once'",
    "C03": "messages attached to an aio when it is freed or reused, message ownership on the error paths of nng_ctx_send / nng_ctx_recv / nng_socket_send, pipes closed while messages sit in per-pipe or per-context queues, and 'with the size it was allocated with' for every variable-size object (URLs, strings, id maps, option values, message bodies)",
    "C11": "websocket and udp: malformed HTTP upgrade requests and responses, websocket frames that violate the SP mapping after a good upgrade, udp datagrams with inconsistent lengths, unknown opcodes or from unexpected addresses, 'only the offending connection is dropped' and 'the listener and all other connections keep working'",
    "C16": "the websocket close handshake and ping / pong ('reassemble fragmented WebSocket messages exactly even when control frames are interleaved'), frames and messages at exactly the configured maxima and one byte above, Sec-WebSocket-Protocol negotiation, and chunked HTTP responses read by the client ('chunk sizes')",
    "C20": "allocation failures inside the receive paths of transports (tcp, ipc, websocket, udp reassembly), inside protocol receive callbacks (duplicating a message for several contexts or subscribers, moving headers), in nng_ctx_open / nng_ctx_send / nng_ctx_recv, and when a further peer connects to a listener that already serves others: 'the documented best-effort loss of one message or one connection' and nothing else",
    "C01": "zero-length messages interleaved with large ones, messages of exactly the transports' internal buffer or frame sizes and one byte around them, several senders (contexts or threads) sharing one connection ('messages that travel over the same connection arrive in the order they were sent'), ipc and socket-fd transports",
}
FOCUS10 = {
    "C16": "the HTTP client reading responses (status line, headers, Content-Length and chunked bodies split across reads, 1xx / 204 / 304 responses without a body, several responses on one connection) and the websocket opening handshake as seen by a conforming peer ('everything they emit is well-formed')",
    "C20": "objects created and destroyed repeatedly after one failure (contexts, dialers, listeners, aios, messages): 'does not leave the object in a state where later calls misbehave', and failures inside nng_listen / nng_dial of the ipc, tcp and websocket transports before any peer exists",
    "C14": "'never ADD_POST or REM_POST without ADD_PRE', 'each at most once', callbacks registered or changed while pipes exist, and pipes that are closed by the peer during ADD_PRE / ADD_POST callbacks",
}
prop, tag = sys.argv[1], sys.argv[2]
if len(sys.argv) > 3 and sys.argv[3] == "10":
    FOCUS = FOCUS10
if len(sys.argv) > 3 and sys.argv[3] == "9":
    FOCUS = FOCUS9
if len(sys.argv) > 3 and sys.argv[3] == "8":
    FOCUS = FOCUS8
if len(sys.argv) > 3 and sys.argv[3] == "7":
    FOCUS = FOCUS7
if len(sys.argv) > 3 and sys.argv[3] == "6":
    FOCUS = FOCUS6
if len(sys.argv) > 3 and sys.argv[3] == "5":
    FOCUS = FOCUS5
if len(sys.argv) > 3 and sys.argv[3] == "4":
    FOCUS = FOCUS4
text = None
for l in open("/verif/properties.jsonl"):
    p = json.loads(l)
    if p["id"] == prop:
        text = p["title"] + "\n" + p["statement"]
tmpl = open("/verif/tools/mutation_prompt.txt").read()
tmpl = tmpl.replace("---\n@TEXT@\n---", "---\n@TEXT@\n---\n\nTo spread several engineers over the statement, concentrate on this part of it (other parts are covered by colleagues): " + FOCUS[prop])
print(tmpl.replace("@ID@", tag).replace("@TEXT@", text))
