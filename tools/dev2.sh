#!/bin/sh
# tools/dev2.sh <tier> CNN... : run checks in the second workspace (/root/w2/verif, with whatever edits its
# working tree has) against the unpatched /repo HEAD, without touching /verif (a sweep may be using it).
# Edit harnesses THERE while a sweep runs, then copy the finished file to /verif/harness and commit.
export VERIF_SEEDED=1
T=$1; shift
W=/root/w2
git -C $W/repo checkout -q -- . ; git -C $W/repo checkout -q --detach $(git -C /repo rev-parse HEAD) || exit 2
export VERIF_REPO=$W/repo
cd $W/verif || exit 2
for c in "$@"; do
  timeout 3000 python3 vcheck.py run $c --tier $T > build/dev_$c.log 2>&1; rc=$?
  echo "== $c rc=$rc: $(grep -c '^VIOLATION' build/dev_$c.log) violation line(s), $(grep -c '^KNOWN-FINDING' build/dev_$c.log) known | $(tail -1 build/dev_$c.log | cut -c1-200)"
  grep -A2 '^VIOLATION' build/dev_$c.log | grep 'signature\|message' | cut -c1-400 | head -6
  grep 'error:\|BUILD FAILED\|MACHINERY' build/dev_$c.log | head -5
done
