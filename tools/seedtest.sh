#!/bin/sh
export VERIF_SEEDED=1
# tools/seedtest.sh <patch.diff> <tier> <CNN> [CNN...]
# applies a seeded change to /repo, runs the given checks, always reverts.
P=$1; T=$2; shift 2
cd /repo || exit 2
git diff --quiet -- src || { echo "/repo has local changes"; exit 2; }
git apply "$P" || { echo "patch does not apply"; exit 2; }
cd /verif
for c in "$@"; do
  timeout 1800 python3 vcheck.py run $c --tier $T > build/seed_$c.log 2>&1
  rc=$?
  echo "== $c rc=$rc: $(grep -c '^VIOLATION' build/seed_$c.log) violation line(s), $(grep -c '^KNOWN-FINDING' build/seed_$c.log) known"
  grep -A2 '^VIOLATION' build/seed_$c.log | grep 'signature\|message' | cut -c1-220 | head -6
  grep 'BUILD FAILED\|MACHINERY' build/seed_$c.log | head -3
done
git -C /repo checkout -- .
# restore evidence files touched by the seeded run
git -C /verif checkout -- evidence 2>/dev/null
echo reverted
