#!/bin/bash
# tools/lane.sh <logname> <tier> CNN... : run checks one after the other, one summary line each
L=$1; T=$2; shift 2
cd "$(dirname "$0")/.."
for c in "$@"; do
  s=$(date +%s)
  python3 vcheck.py run $c --tier $T > build/t_$c.log 2>&1; rc=$?
  echo "$c exit=$rc $(( $(date +%s)-s ))s $(grep -c '^VIOLATION' build/t_$c.log) viol $(grep -c '^KNOWN-FINDING' build/t_$c.log) known $(grep -c '^NOTE' build/t_$c.log) notes | $(tail -1 build/t_$c.log | cut -c1-170)" >> build/$L.log
done
echo LANE-DONE >> build/$L.log
