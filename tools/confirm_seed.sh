#!/bin/bash
# tools/confirm_seed.sh <worktree> <mutation-dir> : confirm a seeded change in a scratch worktree:
#  - unmodified tree builds, demo passes; with the patch: builds, the 71 tests pass, demo fails.
W=$1; M=$2; B=$W/_cb
cd $W || exit 2
git checkout -q -- src
[ -f $B/build.ninja ] || cmake -G Ninja -S $W -B $B -DCMAKE_BUILD_TYPE=Debug > /dev/null || exit 2
cmake --build $B -j8 > $B/build.log 2>&1 || { echo "BASE BUILD FAILED"; exit 2; }
demo=$(ls $M/*.c | head -1)
SAN=""; grep -q "fsanitize=address" $demo && SAN="-fsanitize=address -g"
bd() { cc $SAN -I$W/include -I$W/src $demo -L$B -lnng -lpthread -Wl,-rpath,$B -o $B/demo 2> $B/demo_cc.log; }
bd || { echo "DEMO BUILD FAILED"; tail -5 $B/demo_cc.log; exit 2; }
rundemo() { local ok=0 fail=0; for i in 1 2 3; do if (cd $M && timeout 120 $B/demo > $B/demo_out.$1.$i 2>&1); then ok=$((ok+1)); else fail=$((fail+1)); fi; done; echo "$ok pass / $fail fail"; }
echo "demo on unmodified tree: $(rundemo base)"
git apply $M/patch.diff || { echo "PATCH DOES NOT APPLY"; exit 2; }
cmake --build $B -j8 > $B/build_m.log 2>&1 || { echo "MUTANT BUILD FAILED"; git checkout -q -- src; exit 2; }
grep -c "warning:" $B/build_m.log | sed 's/^/new build warnings: /'
bd
echo "demo on mutated tree:    $(rundemo mut)"
ctest --test-dir $B -j6 --timeout 900 -E 'resolver_test|multistress' > $B/ctest_m.log 2>&1
failed=$(grep -E "^\s+[0-9]+ - " $B/ctest_m.log | sed 's/^\s*[0-9]* - //; s/ (.*//')
real=""
for t in $failed; do
  ok=0; for i in 1 2 3; do ctest --test-dir $B -R "^$t\$" --timeout 900 > $B/rerun.log 2>&1 && { ok=1; break; }; done
  [ $ok = 1 ] || real="$real $t"
done
echo "ctest with mutation: $(grep 'tests passed' $B/ctest_m.log); parallel-run failures: [$(echo $failed)] still failing alone: [$real]"
git checkout -q -- src
