#!/bin/bash
# tools/r7.sh <tag> <prop> <k> [checks...] : confirm a proposal of a round-7 agent in its own worktree and run the
# check(s) of its property against it in the second workspace; one log per proposal under build/r7/
TAG=$1; P=$2; K=$3; shift 3; CH=${@:-$P}
mkdir -p /verif/build/r7
L=/verif/build/r7/$P-$TAG-m$K.log
{
echo "== confirm"; /verif/tools/confirm_seed.sh /tmp/mw_$TAG /tmp/mw_$TAG/out/m$K
echo "== checks"; flock /root/w2/lock /verif/tools/seedtest2.sh /tmp/mw_$TAG/out/m$K/patch.diff quick $CH
} > $L 2>&1
echo "done $L"
