#!/bin/sh
# dev helper: tools/dev.sh CNN [harness args...]  (builds, runs binary directly, prints signature summary)
P=$1; shift
cd /verif && python3 - "$P" <<'PY' || exit 2
import sys, vcheck
vcheck.build_lib(); vcheck.build_harness(sys.argv[1])
PY
ASAN_SYMBOLIZER_PATH=$(which llvm-symbolizer) timeout 1700 build/bin/$P --out build/dev_$P.json "$@" 2>&1 | grep -v "^    #" | grep "^\[v" 
python3 - "$P" <<'PY'
import json,sys
R=json.load(open(f"/verif/build/dev_{sys.argv[1]}.json"))
for v in R["violations"]:
    print("VIOL", v["count"], v["signature"], "::", v["message"][:300].replace("\n"," | "), v["replay"])
print("executions", R["executions"], "machinery_errors", R["machinery_errors"])
PY
