#!/bin/sh
# tools/seedtest2.sh <patch.diff> <tier> CNN [CNN...]
# like seedtest.sh, but in a second workspace (/root/w2: worktrees of /verif and /repo at their
# current HEADs) so that it can run while other checks are using /repo and /verif/build.
export VERIF_SEEDED=1
P=$1; T=$2; shift 2
W=/root/w2
git -C $W/verif checkout -q --detach $(git -C /verif rev-parse HEAD) || exit 2
git -C $W/repo checkout -q -- . ; git -C $W/repo checkout -q --detach $(git -C /repo rev-parse HEAD) || exit 2
export VERIF_REPO=$W/repo
cd $W/verif || exit 2
[ -f build/asan/build.ninja ] || python3 vcheck.py setup > /dev/null
git -C $W/repo apply "$P" || { echo "patch does not apply"; exit 2; }
for c in "$@"; do
  timeout 1800 python3 vcheck.py run $c --tier $T > build/seed_$c.log 2>&1
  rc=$?
  echo "== $c rc=$rc: $(grep -c '^VIOLATION' build/seed_$c.log) violation line(s), $(grep -c '^KNOWN-FINDING' build/seed_$c.log) known"
  grep -A2 '^VIOLATION' build/seed_$c.log | grep 'signature\|message' | cut -c1-220 | head -6
  grep 'BUILD FAILED\|MACHINERY' build/seed_$c.log | head -3
done
git -C $W/repo checkout -- .
git -C $W/verif checkout -- evidence results 2>/dev/null
echo reverted
