#!/bin/bash
export VERIF_SEEDED=1
# tools/seedmatrix.sh [tier] : run every kept seeded change against the check(s) of its property
# (meta.json caught_by) and write seeded/MATRIX.md.  The repository is restored after each run.
# Works on $VERIF_REPO (default /repo) and on the /verif tree this script lives in, so that it can
# run in the background on snapshots:  vp run --with-repo -- bash -c 'VERIF_REPO=$VP_RUN_REPO tools/seedmatrix.sh quick'
T=${1:-quick}
V=$(cd "$(dirname "$0")/.." && pwd)
R=${VERIF_REPO:-/repo}
export VERIF_REPO=$R
OUT=$V/seeded/MATRIX.md
# SEEDS="C01-m5 C02-m6 ..." restricts the run to these seeds and APPENDS their rows (replacing older rows
# of the same seeds) instead of rewriting the file
if [ -n "$SEEDS" ] && [ -f $OUT ]; then
  for s in $SEEDS; do grep -v "^| $s |" $OUT > $OUT.tmp; mv $OUT.tmp $OUT; done
  echo "| _(rows below: $T tier, $(git -C $R rev-parse --short HEAD), verif $(git -C $V rev-parse --short HEAD))_ | | | |" >> $OUT
else
echo "# Seeded changes vs checks ($T tier, $(git -C $R rev-parse --short HEAD))" > $OUT
echo >> $OUT
echo "| seed | check | result | first signature |" >> $OUT
echo "|---|---|---|---|" >> $OUT
fi
cd $R; git diff --quiet -- src || { echo "$R has local changes"; exit 2; }
mkdir -p $V/build
[ -f $V/build/asan/build.ninja ] || (cd $V && python3 vcheck.py setup > /dev/null)
for d in $V/seeded/C*/; do
  s=$(basename $d)
  if [ -n "$SEEDS" ]; then case " $SEEDS " in *" $s "*) ;; *) continue;; esac; fi
  checks=$(python3 -c "import json;print(' '.join(json.load(open('$d/meta.json'))['caught_by']))")
  git -C $R apply $d/patch.diff 2>/dev/null || { echo "| $s | - | PATCH DOES NOT APPLY | |" >> $OUT; echo "$s PATCH DOES NOT APPLY"; continue; }
  for c in $checks; do
    (cd $V && timeout 2400 python3 vcheck.py run $c --tier $T > build/mx_${s}_$c.log 2>&1); rc=$?
    sig=$(grep -A1 '^VIOLATION' $V/build/mx_${s}_$c.log | grep signature | head -1 | sed 's/.*signature: //' | cut -c1-110)
    n=$(grep -c '^VIOLATION' $V/build/mx_${s}_$c.log)
    if [ $rc = 1 ] && [ $n -gt 0 ]; then r="caught ($n)"; elif [ $rc = 0 ]; then r="MISSED"; else r="rc=$rc"; fi
    echo "| $s | $c | $r | \`$sig\` |" >> $OUT
    echo "$s $c $r $sig"
  done
  git -C $R checkout -- .
done
git -C $V checkout -- evidence 2>/dev/null
echo MATRIX-DONE
