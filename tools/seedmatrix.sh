#!/bin/bash
export VERIF_SEEDED=1
# tools/seedmatrix.sh [tier] : run every kept seeded change against the check(s) of its property
# (meta.json caught_by) and write seeded/MATRIX.md.  /repo is restored after each run.
T=${1:-quick}
OUT=/verif/seeded/MATRIX.md
echo "# Seeded changes vs checks ($T tier, $(git -C /repo rev-parse --short HEAD))" > $OUT
echo >> $OUT
echo "| seed | check | result | first signature |" >> $OUT
echo "|---|---|---|---|" >> $OUT
cd /repo; git diff --quiet -- src || { echo "/repo has local changes"; exit 2; }
for d in /verif/seeded/C*/; do
  s=$(basename $d)
  checks=$(python3 -c "import json;print(' '.join(json.load(open('$d/meta.json'))['caught_by']))")
  git -C /repo apply $d/patch.diff 2>/dev/null || { echo "| $s | - | PATCH DOES NOT APPLY | |" >> $OUT; continue; }
  for c in $checks; do
    (cd /verif && timeout 2400 python3 vcheck.py run $c --tier $T > build/mx_${s}_$c.log 2>&1); rc=$?
    sig=$(grep -A1 '^VIOLATION' /verif/build/mx_${s}_$c.log | grep signature | head -1 | sed 's/.*signature: //' | cut -c1-110)
    n=$(grep -c '^VIOLATION' /verif/build/mx_${s}_$c.log)
    if [ $rc = 1 ] && [ $n -gt 0 ]; then r="caught ($n)"; elif [ $rc = 0 ]; then r="MISSED"; else r="rc=$rc"; fi
    echo "| $s | $c | $r | \`$sig\` |" >> $OUT
    echo "$s $c $r $sig"
  done
  git -C /repo checkout -- .
done
git -C /verif checkout -- evidence 2>/dev/null
