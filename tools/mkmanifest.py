#!/usr/bin/env python3
# regenerates /verif/MANIFEST.json from vcheck.CHECKS and the claimed list
import json, os, sys
sys.path.insert(0, os.path.dirname(os.path.dirname(os.path.abspath(__file__))))
import vcheck
V = os.path.dirname(os.path.dirname(os.path.abspath(__file__)))
claimed = json.load(open(os.path.join(V, "claimed.json")))
props = [json.loads(l) for l in open(os.path.join(V, "properties.jsonl"))]
checks = []
na = []
for p in props:
    pid = p["id"]
    if pid in claimed["claimed"]:
        c = vcheck.CHECKS[pid]
        info = claimed["claimed"][pid]
        checks.append(dict(
            property_id=pid,
            quick_cmd=f"python3 vcheck.py run {pid} --tier quick",
            thorough_cmd=f"python3 vcheck.py run {pid} --tier thorough",
            evidence_file=f"/verif/evidence/{pid}.json",
            replay_cmd_template="python3 vcheck.py replay {path}",
            engine=info.get("engine", "vsched+vexplore"),
            level_claimed=dict(category=c["level"], text=info["text"], design_ref=info.get("design_ref", "DESIGN.md §4 " + pid)),
            level_note=info["note"],
            technique=c["technique"]))
    else:
        na.append(dict(property_id=pid, reason=claimed["not_applicable"].get(pid, "check not built yet in this session; no claim is made")))
m = dict(
    version=1,
    setup_cmd="python3 vcheck.py setup",
    hooks=dict(guard="NNG_VERIF", enable="no source hooks: checks interpose at link time (-Wl,--wrap=...) on a static ASan+UBSan build of /repo made by vcheck.py; the guard name is reserved but unused",
               baseline_off_cmd="cmake --build /repo/_build -j16 && ctest --test-dir /repo/_build -j8 --timeout 900",
               source_commits=[], add_only=True),
    engines=[
        dict(name="vsched+vexplore", path="engine/vs.c", serves_properties=[p for p in claimed["claimed"] if vcheck.CHECKS[p]["kind"] == "sched"],
             kind_free_text="cooperative scheduler + virtual clock interposed at link time under the unmodified library (scheduling points: lock, every unlock, cond, thread, epoll, sleep, optionally atomics and allocator calls); deviation-bounded DFS over choice prefixes, fork per execution, 16 workers, replay before report"),
        dict(name="vbfs", path="engine/vbfs.h", serves_properties=["C17", "C18"], kind_free_text="crash-tolerant explicit-state BFS over real source files compiled into the harness, structural-state dedup"),
        dict(name="venum", path="engine/venum.h", serves_properties=["C19", "C16"], kind_free_text="crash-tolerant parallel exhaustive enumeration of an indexed input space"),
        dict(name="vpeer", path="engine/vpeer.c", serves_properties=[], kind_free_text="raw wire peers over socket:// + socketpair"),
        dict(name="valloc", path="engine/valloc.c", serves_properties=[], kind_free_text="accounting allocator via nng_init_params; fail chosen allocation")],
    checks=checks,
    notes="All checks decide by exhaustive enumeration within stated bounds on the real code (see DESIGN.md; build report in section 13, last results in RESULTS.md). known_findings.json lists fixed and known genuine defects; seeded/ holds the confirmed property-breaking changes and seeded/MATRIX.md which check catches which; vcheck.py tsan CNN is a free-running ThreadSanitizer pass over the same harness bodies (assumption validator, not a deciding check).",
    not_applicable=na)
json.dump(m, open(os.path.join(V, "MANIFEST.json"), "w"), indent=1)
print("MANIFEST.json:", len(checks), "checks,", len(na), "not claimed")
