#!/bin/sh
# builds /repo/_build (guard off: there are no hooks) and runs the pinned suite
set -e
cmake --build /repo/_build -j16 > /verif/build/baseline_build.log 2>&1 || { tail -30 /verif/build/baseline_build.log; echo BUILD-FAILED; exit 2; }
ctest --test-dir /repo/_build -j8 --timeout 900 -E 'resolver_test|multistress' 2>&1 | tail -15
