#!/bin/bash
# tools/baseline2.sh : the pinned suite, and every test that failed in the parallel run again alone (up to 3 times) -
# other worktrees on this machine run the same suite on the same fixed ports and ipc paths
cmake --build /repo/_build -j16 > /verif/build/baseline_build.log 2>&1 || { tail -30 /verif/build/baseline_build.log; echo BUILD-FAILED; exit 2; }
ctest --test-dir /repo/_build -j8 --timeout 900 -E 'resolver_test|multistress' > /verif/build/baseline_ctest.log 2>&1
grep "tests passed" /verif/build/baseline_ctest.log
failed=$(grep -E "^\s+[0-9]+ - " /verif/build/baseline_ctest.log | sed 's/^\s*[0-9]* - //; s/ (.*//')
real=""
for t in $failed; do
  ok=0; for i in 1 2 3; do ctest --test-dir /repo/_build -R "^$t\$" --timeout 900 > /verif/build/baseline_rerun.log 2>&1 && { ok=1; break; }; sleep 3; done
  [ $ok = 1 ] || real="$real $t"
done
echo "failed in the parallel run: [$(echo $failed)]  still failing alone: [$real]"
[ -z "$real" ]
