#!/usr/bin/env python3
"""tools/keep_seed.py <prop> <name> <srcdir> "<needs>" "<caught_by>" "<confirmed>"  -> /verif/seeded/<prop>-<name>/"""
import json, os, shutil, sys
prop, name, src, needs, caught, confirmed = sys.argv[1:7]
dst = f"/verif/seeded/{prop}-{name}"
os.makedirs(dst, exist_ok=True)
for f in os.listdir(src):
    if f.endswith(('.c', '.diff', '.txt', '.h')) and os.path.getsize(os.path.join(src, f)) < 200000:
        shutil.copy(os.path.join(src, f), dst)
meta = dict(property=prop, name=name, breaks=open(os.path.join(src, 'notes.txt')).read()[:1500] if os.path.exists(os.path.join(src, 'notes.txt')) else "",
            needs_to_manifest=needs, caught_by=caught.split(','), confirmed=confirmed,
            apply="git -C /repo apply /verif/seeded/%s-%s/patch.diff ; ... ; git -C /repo checkout -- ." % (prop, name))
json.dump(meta, open(os.path.join(dst, 'meta.json'), 'w'), indent=1)
print("kept", dst)
