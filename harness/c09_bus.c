// C09 - BUS: fan-out to every other peer at most once, never echoed to the
// origin, send never blocks, per-sender order, whole-message drops only.
//
// Scenario "mesh-*": three cooked BUS sockets in a full mesh over inproc; all
// send_i / recv_j sequences to depth d for queue depths 1, 2, 16, with the
// blocking and the NNG_FLAG_NONBLOCK form of send.  Invariant oracle over the
// whole history with a final drain (DESIGN Appendix A, second style).
// Scenario "raw-*" / "cooked-*": one BUS socket (raw / cooked) with three raw
// wire peers; all sequences of peer writes, receive+forward and fresh sends;
// exact prediction of what appears on each raw fd.
#define _GNU_SOURCE
#include "valloc.h"
#include "vpeer.h"
#include "vs.h"
#include "orderrace.h"
#include <stdlib.h>
#include <string.h>
#include <unistd.h>

static int  g_depth;
static char seq[400];

// =============================================================================
// Scenario 1: cooked mesh
// =============================================================================
typedef struct mesh_arg {
	int qd; // NNG_OPT_RECVBUF = NNG_OPT_SENDBUF
	int nb; // send with NNG_FLAG_NONBLOCK
} mesh_arg;

enum { OUT_NONE = 0, OUT_MUST, OUT_MAY, RECEIVED, DROPPED };
#define MAXMSG 16

static nng_socket N[3];
static int        npipes[3];
static int        sent[3];
static uint8_t    state[3][3][MAXMSG]; // [sender][receiver][seq]
static int        last_recv[3][3];
static int        out[3]; // upper bound of messages queued towards node j
static uint8_t    fl_s[3][3 * MAXMSG], fl_n[3][3 * MAXMSG]; // sent to j since
static int        nfl[3];                                   // the last settle
static int        n_deliv, n_drop;

static void
pipe_cb(nng_pipe p, nng_pipe_ev ev, void *arg)
{
	(void) p;
	if (ev == NNG_PIPE_EV_ADD_POST)
		(*(int *) arg)++;
}

static void
mesh_body(uint8_t *b, int i, int n)
{
	b[0] = 'B';
	b[1] = (uint8_t) i;
	b[2] = (uint8_t) n;
	b[3] = (uint8_t) ~i;
	b[4] = (uint8_t) ~n;
	b[5] = 0x42;
	b[6] = (uint8_t) (i * 16 + n);
	b[7] = 0xbd;
}

static void
mesh_send(int i, const mesh_arg *a)
{
	uint8_t  b[8];
	nng_msg *m;
	int      n = sent[i]++;
	mesh_body(b, i, n);
	VH_OK(nng_msg_alloc(&m, 0));
	VH_OK(nng_msg_append(m, b, sizeof(b)));
	int64_t t0 = vs_now();
	int     rv = nng_sendmsg(N[i], m, a->nb ? NNG_FLAG_NONBLOCK : 0);
	int64_t t1 = vs_now();
	if (rv != 0)
		nng_msg_free(m);
	if (t1 != t0)
		vs_fail("C09:send-blocked",
		    "[%s] send on N%d (%s) took %lld virtual ms (result %d)", seq, i,
		    a->nb ? "NNG_FLAG_NONBLOCK" : "blocking", (long long) (t1 - t0),
		    rv);
	if (rv == NNG_EAGAIN || rv == NNG_ETIMEDOUT)
		vs_fail("C09:send-eagain",
		    "[%s] send on N%d (%s) -> %s although BUS send never blocks "
		    "(2 peers connected, at most %d message(s) outstanding per "
		    "peer, queue depth %d)",
		    seq, i, a->nb ? "NNG_FLAG_NONBLOCK" : "blocking",
		    nng_strerror(rv), out[(i + 1) % 3] > out[(i + 2) % 3]
		        ? out[(i + 1) % 3]
		        : out[(i + 2) % 3],
		    a->qd);
	if (rv != 0)
		vs_fail("C09:send-result", "[%s] send on N%d -> %d (%s)", seq, i, rv,
		    nng_strerror(rv));
	for (int j = 0; j < 3; j++) {
		if (j == i)
			continue;
		// While a message travels (from its send to the next quiescent
		// point) messages of other senders may overtake it.  If during
		// that window never more than `depth` messages are outstanding
		// towards j, every queue it is put into holds fewer than
		// `depth` others => not full => the message may not be dropped.
		state[i][j][n]                  = OUT_MUST;
		fl_s[j][nfl[j]]                 = (uint8_t) i;
		fl_n[j][nfl[j]++]               = (uint8_t) n;
		if (++out[j] > a->qd)
			for (int k = 0; k < nfl[j]; k++)
				state[fl_s[j][k]][j][fl_n[j][k]] = OUT_MAY;
	}
}

// returns 0 when the node had nothing
static int
mesh_recv(int j)
{
	nng_msg *m = NULL;
	vs_settle(); // everything sent so far has reached its destination queue
	nfl[0] = nfl[1] = nfl[2] = 0;
	int rv = nng_recvmsg(N[j], &m, NNG_FLAG_NONBLOCK);
	if (rv == NNG_EAGAIN) {
		for (int i = 0; i < 3; i++)
			for (int n = 0; n < sent[i]; n++) {
				if (state[i][j][n] == OUT_MUST)
					vs_fail("C09:lost",
					    "[%s] N%d has nothing to receive but "
					    "message #%d of N%d travelled while no more "
					    "messages than the queue depth were "
					    "outstanding towards it",
					    seq, j, n, i);
				if (state[i][j][n] == OUT_MAY) {
					state[i][j][n] = DROPPED;
					n_drop++;
				}
			}
		out[j] = 0;
		return 0;
	}
	if (rv != 0)
		vs_fail("C09:recv-result", "[%s] recv on N%d -> %d (%s)", seq, j, rv,
		    nng_strerror(rv));
	const uint8_t *b = nng_msg_body(m);
	size_t         l = nng_msg_len(m);
	uint8_t        want[8];
	int            i = l >= 3 ? b[1] : -1, n = l >= 3 ? b[2] : -1;
	if (l != 8 || b[0] != 'B' || i < 0 || i > 2 || n >= sent[i] ||
	    (mesh_body(want, i, n), memcmp(want, b, 8) != 0))
		vs_fail("C09:corrupt",
		    "[%s] N%d received %s, which no node sent", seq, j,
		    vh_hex(b, l));
	if (i == j)
		vs_fail("C09:echo", "[%s] N%d received its own message #%d", seq, j,
		    n);
	if (state[i][j][n] == RECEIVED)
		vs_fail("C09:duplicate",
		    "[%s] N%d received message #%d of N%d twice", seq, j, n, i);
	if (n <= last_recv[i][j] || state[i][j][n] == DROPPED)
		vs_fail("C09:order",
		    "[%s] N%d received message #%d of N%d after message #%d of the "
		    "same sender%s",
		    seq, j, n, i, last_recv[i][j],
		    state[i][j][n] == DROPPED && n > last_recv[i][j]
		        ? " had been seen / after its queue was observed empty"
		        : "");
	for (int k = 0; k < n; k++) {
		if (state[i][j][k] == OUT_MUST)
			vs_fail("C09:lost",
			    "[%s] N%d received message #%d of N%d but the earlier "
			    "#%d (no more messages than the queue depth "
			    "outstanding while it travelled) never arrived",
			    seq, j, n, i, k);
		if (state[i][j][k] == OUT_MAY) {
			state[i][j][k] = DROPPED;
			n_drop++;
			out[j]--;
		}
	}
	state[i][j][n]  = RECEIVED;
	last_recv[i][j] = n;
	out[j]--;
	n_deliv++;
	nng_msg_free(m);
	return 1;
}

static void
run_mesh(void *arg)
{
	const mesh_arg *a = arg;
	vh_init(1);
	memset(state, 0, sizeof(state));
	seq[0] = 0;
	for (int i = 0; i < 3; i++) {
		sent[i] = out[i] = npipes[i] = nfl[i] = 0;
		for (int j = 0; j < 3; j++)
			last_recv[i][j] = -1;
		VH_OK(nng_bus0_open(&N[i]));
		VH_OK(nng_socket_set_int(N[i], NNG_OPT_RECVBUF, a->qd));
		VH_OK(nng_socket_set_int(N[i], NNG_OPT_SENDBUF, a->qd));
		VH_OK(nng_socket_set_ms(N[i], NNG_OPT_SENDTIMEO, 100));
		VH_OK(nng_pipe_notify(
		    N[i], NNG_PIPE_EV_ADD_POST, pipe_cb, &npipes[i]));
	}
	VH_OK(nng_listen(N[0], "inproc://c09-0", NULL, 0));
	VH_OK(nng_listen(N[1], "inproc://c09-1", NULL, 0));
	VH_OK(nng_dial(N[1], "inproc://c09-0", NULL, 0));
	VH_OK(nng_dial(N[2], "inproc://c09-0", NULL, 0));
	VH_OK(nng_dial(N[2], "inproc://c09-1", NULL, 0));
	vs_settle();
	for (int i = 0; i < 3; i++)
		if (npipes[i] != 2)
			vs_fail("harness:setup", "N%d has %d pipes, want 2", i,
			    npipes[i]);
	for (int step = 0; step < g_depth; step++) {
		int l = vs_choose(VK_ENV, 6);
		snprintf(seq + strlen(seq), sizeof(seq) - strlen(seq), "%s%s%d",
		    step ? " " : "", l < 3 ? "send" : "recv", l % 3);
		if (l < 3)
			mesh_send(l, a);
		else
			mesh_recv(l - 3);
	}
	// final drain: everything that could not legally be dropped comes out
	for (int j = 0; j < 3; j++)
		for (int guard = 0; guard < 2 * MAXMSG + 2; guard++)
			if (!mesh_recv(j))
				break;
	vs_log("%s", seq);
	vs_outcome("qd=%d delivered=%d dropped=%d", a->qd, n_deliv, n_drop);
	for (int i = 0; i < 3; i++)
		nng_socket_close(N[i]);
	vh_fini();
}

// =============================================================================
// Scenario 2: one BUS socket (raw or cooked) and three raw wire peers
// =============================================================================
enum { R_WRITE0 = 0, R_FWD = 3, R_FRESH = 4, R_BURST = 5, R_N = 6 };

typedef struct wmsg {
	int     peer;
	uint8_t body[4];
	int     received;
} wmsg;

static nng_socket B;
static int        rfd[3];
static vp_rd     *rrd[3];
static wmsg       W[16];
static int        NW;
static int        pipeid[3];
static int        r_fwd, r_fresh, r_empty;

// exactly one frame `body` on every fd in mask, nothing anywhere else
static void
raw_expect(int mask, const uint8_t *body, size_t bl, int origin, int is_fwd)
{
	for (int k = 0; k < 3; k++) {
		const uint8_t *p;
		size_t         len;
		int            r, cnt = 0;
		while ((r = vp_next_frame(rfd[k], rrd[k], &p, &len)) == 1) {
			cnt++;
			if (body == NULL || len != bl || memcmp(p, body, bl) != 0)
				vs_fail("C09:corrupt",
				    "[%s] raw peer %d read frame %s, want %s", seq, k,
				    vh_hex(p, len),
				    body ? vh_hex(body, bl) : "nothing");
			if (!(mask & (1 << k))) {
				if (k == origin)
					vs_fail("C09:raw:forward-to-origin",
					    "[%s] the message that arrived from raw "
					    "peer %d and was sent with a header naming "
					    "that pipe came back to peer %d",
					    seq, origin, k);
				vs_fail("C09:corrupt",
				    "[%s] unexpected frame at raw peer %d", seq, k);
			}
			if (cnt > 1)
				vs_fail("C09:duplicate",
				    "[%s] raw peer %d got the message %d times", seq,
				    k, cnt);
		}
		if (r < 0)
			vs_fail("harness:peer", "[%s] raw peer %d saw EOF", seq, k);
		if ((mask & (1 << k)) && cnt == 0)
			vs_fail(is_fwd ? "C09:raw:missing-forward" : "C09:lost",
			    "[%s] raw peer %d did not get the message (%s)", seq, k,
			    is_fwd ? "forwarded with the origin pipe in the header"
			           : "sent without a pipe-naming header / cooked");
	}
}

static void
raw_send(nng_msg *m)
{
	int64_t t0 = vs_now();
	int     rv = nng_sendmsg(B, m, 0);
	if (rv != 0)
		nng_msg_free(m);
	if (vs_now() != t0)
		vs_fail("C09:send-blocked", "[%s] send took %lld virtual ms", seq,
		    (long long) (vs_now() - t0));
	if (rv == NNG_EAGAIN || rv == NNG_ETIMEDOUT)
		vs_fail("C09:send-eagain", "[%s] blocking send -> %s", seq,
		    nng_strerror(rv));
	if (rv != 0)
		vs_fail("C09:send-result", "[%s] send -> %d (%s)", seq, rv,
		    nng_strerror(rv));
	vs_settle();
}

static void
run_raw(void *arg)
{
	int cooked = (int) (intptr_t) arg;
	vh_init(1);
	memset(W, 0, sizeof(W));
	NW     = 0;
	seq[0] = 0;
	VH_OK(cooked ? nng_bus0_open(&B) : nng_bus0_open_raw(&B));
	VH_OK(nng_socket_set_ms(B, NNG_OPT_SENDTIMEO, 100));
	nng_listener l;
	rfd[0] = vp_connect_raw(B, SP_BUS, &l);
	if (rfd[0] < 0)
		vs_fail("harness:setup", "raw peer 0 could not connect");
	for (int k = 1; k < 3; k++) {
		rfd[k] = vp_attach_more(l);
		vs_settle();
		if (rfd[k] < 0 || vp_handshake(rfd[k], SP_BUS) < 0)
			vs_fail("harness:setup", "raw peer %d could not connect", k);
		vs_settle();
	}
	for (int k = 0; k < 3; k++) {
		rrd[k]    = calloc(1, sizeof(vp_rd));
		pipeid[k] = 0;
	}
	for (int step = 0; step < g_depth; step++) {
		int lt = vs_choose(VK_ENV, R_N);
		snprintf(seq + strlen(seq), sizeof(seq) - strlen(seq), "%s%s",
		    step ? " " : "",
		    lt == R_FWD         ? "recv+forward"
		        : lt == R_BURST ? "recv+fresh+forward(burst)"
		        : lt == R_FRESH ? "send-fresh"
		        : lt == 0       ? "p0.write"
		        : lt == 1       ? "p1.write"
		                        : "p2.write");
		if (lt < R_FWD) {
			wmsg *w = &W[NW];
			w->peer = lt;
			w->body[0] = 'W';
			w->body[1] = (uint8_t) lt;
			w->body[2] = (uint8_t) NW;
			w->body[3] = 0x77;
			NW++;
			if (vp_send(rfd[lt], NULL, 0, w->body, 4) != 0)
				vs_fail("harness:peer", "[%s] raw write failed", seq);
			vs_settle();
			raw_expect(0, NULL, 0, -1, 0);
		} else if (lt == R_FWD || lt == R_BURST) {
			nng_msg *m   = NULL;
			int      rv  = nng_recvmsg(B, &m, NNG_FLAG_NONBLOCK);
			int      und = 0;
			for (int i = 0; i < NW; i++)
				und += !W[i].received;
			if (rv == NNG_EAGAIN) {
				if (und)
					vs_fail("C09:lost",
					    "[%s] nothing to receive although %d "
					    "message(s) were written by raw peers "
					    "(queue depth 16)",
					    seq, und);
				r_empty++;
				raw_expect(0, NULL, 0, -1, 0);
				continue;
			}
			if (rv != 0)
				vs_fail("C09:recv-result", "[%s] recv -> %d (%s)", seq,
				    rv, nng_strerror(rv));
			const uint8_t *b  = nng_msg_body(m);
			size_t         bl = nng_msg_len(m);
			if (bl != 4 || b[0] != 'W' || b[2] >= NW ||
			    memcmp(W[b[2]].body, b, 4) != 0)
				vs_fail("C09:corrupt",
				    "[%s] received body %s that no peer wrote", seq,
				    vh_hex(b, bl));
			wmsg *w = &W[b[2]];
			if (w->received)
				vs_fail("C09:duplicate",
				    "[%s] message #%d of raw peer %d received twice",
				    seq, b[2], w->peer);
			for (int i = 0; i < b[2]; i++)
				if (W[i].peer == w->peer && !W[i].received)
					vs_fail("C09:order",
					    "[%s] message #%d of raw peer %d overtook "
					    "its message #%d",
					    seq, b[2], w->peer, i);
			w->received = 1;
			int pid     = nng_pipe_id(nng_msg_get_pipe(m));
			if (pid <= 0)
				vs_fail("C09:raw:origin-header",
				    "[%s] received message has no pipe (%d)", seq, pid);
			for (int k = 0; k < 3; k++)
				if ((k == w->peer && pipeid[k] && pipeid[k] != pid) ||
				    (k != w->peer && pipeid[k] == pid))
					vs_fail("C09:raw:origin-header",
					    "[%s] message of raw peer %d is attributed "
					    "to pipe %d, peer %d has pipe %d",
					    seq, w->peer, pid, k, pipeid[k]);
			pipeid[w->peer] = pid;
			if (!cooked) {
				const uint8_t *h = nng_msg_header(m);
				if (nng_msg_header_len(m) != 4 ||
				    vp_get32(h) != (uint32_t) pid)
					vs_fail("C09:raw:origin-header",
					    "[%s] raw receive: header is %s, want the "
					    "4-byte id %08x of the pipe it arrived on",
					    seq, vh_hex(h, nng_msg_header_len(m)),
					    (unsigned) pid);
			} else {
				// cooked mode must ignore a header, even one that
				// names the pipe the message came from
				nng_msg_header_clear(m);
				VH_OK(nng_msg_header_append_u32(m, (uint32_t) pid));
			}
			uint8_t body[4];
			memcpy(body, b, 4);
			if (lt == R_BURST) {
				// a fresh message first and NO settle: every pipe is
				// still busy with it when the forward is submitted, so
				// the forward goes through the per-pipe send queues
				nng_msg *f;
				uint8_t  fb[4] = { 'F', (uint8_t) step, 0x22, 0xdd };
				VH_OK(nng_msg_alloc(&f, 0));
				VH_OK(nng_msg_append(f, fb, 4));
				if (nng_sendmsg(B, f, 0) != 0)
					vs_fail("C09:send-result", "[%s] burst send failed",
					    seq);
				raw_send(m); // settles
				for (int k = 0; k < 3; k++) {
					const uint8_t *p;
					size_t         len;
					int wantfwd = cooked || k != w->peer, n = 0, r;
					while ((r = vp_next_frame(rfd[k], rrd[k], &p, &len)) ==
					    1) {
						const uint8_t *want = n == 0 ? fb : body;
						if (n == 1 && !wantfwd)
							vs_fail("C09:raw:forward-to-origin",
							    "[%s] the forwarded message came "
							    "back to its origin, raw peer %d "
							    "(its pipe was busy)",
							    seq, k);
						if (n > 1 || len != 4 || memcmp(p, want, 4) != 0)
							vs_fail(n > 1 ? "C09:duplicate"
							              : "C09:corrupt",
							    "[%s] raw peer %d: frame #%d is %s", seq,
							    k, n, vh_hex(p, len));
						n++;
					}
					if (r < 0)
						vs_fail("harness:peer", "[%s] raw peer %d EOF",
						    seq, k);
					if (n < 1 + wantfwd)
						vs_fail(n == 0 ? "C09:lost"
						               : "C09:raw:missing-forward",
						    "[%s] raw peer %d got %d of %d frames of "
						    "the burst (queue depth 16)",
						    seq, k, n, 1 + wantfwd);
				}
				r_fwd++;
				continue;
			}
			raw_send(m);
			raw_expect(cooked ? 7 : (7 & ~(1 << w->peer)), body, 4,
			    cooked ? -1 : w->peer, !cooked);
			r_fwd++;
		} else {
			nng_msg *m;
			uint8_t  body[4] = { 'E', (uint8_t) step, 0x11, 0xee };
			VH_OK(nng_msg_alloc(&m, 0));
			VH_OK(nng_msg_append(m, body, 4));
			raw_send(m);
			raw_expect(7, body, 4, -1, 0);
			r_fresh++;
		}
	}
	vs_log("%s", seq);
	vs_outcome("fwd=%d fresh=%d empty=%d", r_fwd, r_fresh, r_empty);
	for (int k = 0; k < 3; k++) {
		close(rfd[k]);
		free(rrd[k]);
	}
	nng_socket_close(B);
	vh_fini();
}

// ---- buffer resizes with traffic queued (power-of-two depths included) -----------
static void
run_resize(void *arg)
{
	(void) arg;
	vh_init(1);
	nng_socket a, b;
	VH_OK(nng_bus0_open(&a));
	VH_OK(nng_bus0_open(&b));
	VH_OK(nng_socket_set_int(b, NNG_OPT_RECVBUF, 4));
	VH_OK(nng_socket_set_int(a, NNG_OPT_SENDBUF, 4));
	VH_OK(nng_listen(a, "inproc://c09rs", NULL, 0));
	VH_OK(nng_dial(b, "inproc://c09rs", NULL, 0));
	vs_settle();
	int  next = 0, last = -1, got = 0;
	char h[200] = "";
	int  pre    = 3 + vs_choose(VK_ENV, 4); // 3..6 messages queued at B
	for (int i = 0; i < pre; i++) {
		uint8_t body[4] = { 'R', (uint8_t) next++, 0x5a, 0xa5 };
		if (vh_send_nb(a, body, 4) != 0)
			vs_fail("C09:send-result", "prefix send failed");
		vs_settle();
	}
	snprintf(h, sizeof(h), "pre%d", pre);
	static const int RS[] = { 2, 4, 8, 3 };
	for (int step = 0; step <= g_depth + 12; step++) {
		int l = step < g_depth ? vs_choose(VK_ENV, 10)
		                       : 1; // epilogue: drain B
		if (l == 0) {
			uint8_t body[4] = { 'R', (uint8_t) next++, 0x5a, 0xa5 };
			int     rv      = vh_send_nb(a, body, 4);
			if (rv != 0)
				vs_fail("C09:send-result", "[%s] send -> %d", h, rv);
			vs_settle();
			strcat(h, " send");
		} else if (l == 1) {
			uint8_t buf[8];
			size_t  n;
			int     rv = vh_recv_nb(b, buf, sizeof(buf), &n);
			if (step < g_depth)
				strcat(h, " recv");
			if (rv == NNG_EAGAIN) {
				if (step >= g_depth)
					break;
				continue;
			}
			if (rv != 0)
				vs_fail("C09:recv-result", "[%s] recv -> %d", h, rv);
			if (n != 4 || buf[0] != 'R' || buf[2] != 0x5a || buf[3] != 0xa5 ||
			    buf[1] >= next)
				vs_fail("C09:corrupt", "[%s] received %s", h,
				    vh_hex(buf, n > 8 ? 8 : n));
			if ((int) buf[1] == last)
				vs_fail("C09:duplicate", "[%s] message #%d received twice",
				    h, last);
			if ((int) buf[1] < last)
				vs_fail("C09:order", "[%s] message #%d after #%d", h, buf[1],
				    last);
			last = buf[1];
			got++;
		} else {
			int which = (l - 2) / 4, n = RS[(l - 2) % 4];
			int rv    = which ? nng_socket_set_int(a, NNG_OPT_SENDBUF, n)
			                  : nng_socket_set_int(b, NNG_OPT_RECVBUF, n);
			if (rv != 0)
				vs_fail("C09:recv-result", "[%s] resize -> %d", h, rv);
			snprintf(h + strlen(h), sizeof(h) - strlen(h), " %s=%d",
			    which ? "sbufA" : "rbufB", n);
			vs_settle();
		}
	}
	vs_log("%s", h);
	vs_outcome("got=%d of %d", got > 6 ? 6 : got, next > 8 ? 8 : next);
	nng_socket_close(a);
	nng_socket_close(b);
	vh_fini();
}

// =============================================================================
// Scenario: one peer is stalled, the others are not
// =============================================================================
// A BUS socket S with three peers that connected one after the other; the peer at position
// `stall` (0 = connected first .. 2 = last) is a raw peer that does not read: a message larger than
// the kernel buffer is stuck on its pipe and S's queue towards it fills up (SENDBUF 2).  The other
// two are ordinary BUS sockets that read.  S then sends 8 numbered messages, one at a time: each
// send returns at once (BUS never blocks), the two healthy peers receive every one of them, once,
// in order - what the stalled peer cannot take is dropped for that peer only.
static void
run_stall(void *arg)
{
	int raw = (int) (intptr_t) arg;
	vh_init(0);
	nng_socket   S, P[3];
	nng_listener l;
	int          fd = -1;
	int          stall = vs_choose(VK_ENV, 3);
	if (raw)
		VH_OK(nng_bus0_open_raw(&S));
	else
		VH_OK(nng_bus0_open(&S));
	VH_OK(nng_socket_set_int(S, NNG_OPT_SENDBUF, 2));
	VH_OK(nng_socket_set_ms(S, NNG_OPT_SENDTIMEO, 50));
	VH_OK(nng_listen(S, "inproc://c09stall", NULL, 0));
	VH_OK(nng_listener_create(&l, S, "socket://"));
	VH_OK(nng_listener_start(l, 0));
	for (int i = 0; i < 3; i++) {
		if (i == stall) {
			fd = vp_attach_more(l);
			vs_settle();
			if (fd < 0 || vp_handshake(fd, SP_BUS) < 0)
				vs_fail("harness:setup", "raw bus peer");
		} else {
			VH_OK(nng_bus0_open(&P[i]));
			VH_OK(nng_socket_set_int(P[i], NNG_OPT_RECVBUF, 16));
			VH_OK(nng_socket_set_ms(P[i], NNG_OPT_RECVTIMEO, 20));
			VH_OK(nng_dial(P[i], "inproc://c09stall", NULL, 0));
		}
		vs_settle();
	}
	// the big one: the stalled peer's pipe is busy from here on; the healthy peers take it
	{
		nng_msg *m;
		VH_OK(nng_msg_alloc(&m, 600000));
		memset(nng_msg_body(m), 0x77, 600000);
		if (raw)
			VH_OK(nng_msg_header_append_u32(m, 0));
		if (nng_sendmsg(S, m, 0) != 0)
			vs_fail("C09:send-blocked", "the large message was refused");
		vs_settle();
		for (int i = 0; i < 3; i++)
			if (i != stall) {
				nng_msg *r = NULL;
				if (nng_recvmsg(P[i], &r, 0) != 0 || nng_msg_len(r) != 600000)
					vs_fail("C09:lost", "peer %d did not get the large message", i);
				nng_msg_free(r);
			}
	}
	int next[3] = { 1, 1, 1 };
	for (int n = 1; n <= 8; n++) {
		nng_msg *m;
		uint8_t  b[2] = { 'n', (uint8_t) n };
		VH_OK(nng_msg_alloc(&m, 0));
		VH_OK(nng_msg_append(m, b, 2));
		if (raw)
			VH_OK(nng_msg_header_append_u32(m, 0));
		int64_t t0 = vs_now();
		int     rv = nng_sendmsg(S, m, 0);
		if (rv != 0 || vs_now() != t0) {
			if (rv != 0)
				nng_msg_free(m);
			vs_fail("C09:send-blocked",
			    "send %d with one stalled peer (position %d): result %d after %lld ms", n,
			    stall, rv, (long long) (vs_now() - t0));
		}
		vs_settle();
		for (int i = 0; i < 3; i++) {
			if (i == stall)
				continue;
			nng_msg *r = NULL;
			if (nng_recvmsg(P[i], &r, 0) != 0)
				vs_fail("C09:lost",
				    "%s bus, the peer that connected %s is stalled with a full queue: "
				    "message %d did not reach healthy peer %d (it is idle and its "
				    "queue is empty)",
				    raw ? "raw" : "cooked",
				    stall == 0 ? "first" : stall == 1 ? "second" : "last", n, i);
			if (nng_msg_len(r) != 2 || ((uint8_t *) nng_msg_body(r))[1] != next[i])
				vs_fail("C09:order", "peer %d received %d where %d was due", i,
				    nng_msg_len(r) == 2 ? ((uint8_t *) nng_msg_body(r))[1] : -1, next[i]);
			next[i]++;
			nng_msg_free(r);
		}
	}
	vs_nontrivial();
	vs_outcome("stall=%d", stall);
	close(fd);
	for (int i = 0; i < 3; i++)
		if (i != stall)
			nng_socket_close(P[i]);
	nng_socket_close(S);
	vh_fini();
}

// =============================================================================
static long   g_exec;
static double g_wall;

static void
explore(const char *name, void (*fn)(void *), void *arg, int depth)
{
	vx_cfg c;
	memset(&c, 0, sizeof(c));
	c.prop     = "C09";
	c.scenario = name;
	c.run      = fn;
	c.arg      = arg;
	for (int i = 0; i < VB_NB; i++)
		c.budget[i] = 0;
	c.budget[VB_ENV] = -1;
	c.total          = 0;
	g_depth          = depth;
	vx_stats st;
	memset(&st, 0, sizeof(st));
	vx_explore(&c, &st);
	g_exec += st.executions;
	g_wall += st.wall_s;
}

// enough time left today for n more executions (measured rate, 2x margin)?
static int
affordable(double n)
{
	double rate = g_wall > 1 ? (double) g_exec / g_wall : 300.0;
	return 2.0 * n / rate + 60 < vx_time_left();
}

int
main(int argc, char **argv)
{
	vx_init(argc, argv, "C09");
	int T = vx_is_thorough();
	static mesh_arg MA[] = { { 1, 0 }, { 2, 0 }, { 16, 0 }, { 16, 1 }, { 1, 1 } };
	static const int dq[] = { 5, 4, 4, 3, 3 };
	static const int dt[] = { 6, 6, 5, 4, 4 };
	char             name[48];
	for (int i = 0; i < 5; i++) {
		int d = T ? dt[i] : dq[i];
		snprintf(name, sizeof(name), "mesh-qd%d-%s-d%d", MA[i].qd,
		    MA[i].nb ? "nonblock" : "blocking", d);
		if (vx_time_left() < (T ? 120 : 10))
			break;
		explore(name, run_mesh, &MA[i], d);
	}
	{
		int d = T ? 6 : 4;
		snprintf(name, sizeof(name), "raw-3peers-d%d", d);
		if (vx_time_left() > 10)
			explore(name, run_raw, (void *) 0, d);
		d = T ? 5 : 4;
		snprintf(name, sizeof(name), "cooked-3peers-d%d", d);
		if (vx_time_left() > 10)
			explore(name, run_raw, (void *) 1, d);
	}
	{
		int d = T ? 4 : 3;
		snprintf(name, sizeof(name), "resize-d%d", d);
		if (vx_time_left() > 10)
			explore(name, run_resize, NULL, d);
	}
	explore("one-stalled-peer-cooked", run_stall, (void *) 0, 0);
	explore("one-stalled-peer-raw", run_stall, (void *) 1, 0);
	// deeper runs only when the machine is fast enough today
	if (T && affordable(279936)) {
		snprintf(name, sizeof(name), "mesh-qd1-blocking-d7");
		explore(name, run_mesh, &MA[0], 7);
	}
	if (T && affordable(46656)) {
		snprintf(name, sizeof(name), "mesh-qd16-blocking-d6");
		explore(name, run_mesh, &MA[2], 6);
	}
	vx_note("alphabet-mesh",
	    "6 letters: send_i (no settle after it, so bursts queue up) recv_j "
	    "(settle + non-blocking), i,j in N0..N2; queue depths 1,2,16; send "
	    "form blocking(SENDTIMEO 100) and NNG_FLAG_NONBLOCK; final drain");
	vx_note("alphabet-raw",
	    "5 letters: p0|p1|p2.write, recv+forward (header naming the origin "
	    "pipe), send-fresh (empty header); raw and cooked socket");
	{
		static const orc_arg OB[] = { { "C09", "bus", nng_bus0_open, nng_bus0_open, 0 },
			{ "C09", "xbus", nng_bus0_open_raw, nng_bus0_open_raw, 0 } };
		orc_explore_tiers(&OB[0]);
		if (vx_is_thorough())
			orc_explore_tiers(&OB[1]);
	}
	return vx_finish();
}
