// C17 - nng_msg behaves as two byte strings under all edit sequences.
// Explicit-state BFS over the REAL message.c (compiled into this translation
// unit so that the structural state - capacity, headroom, length, header
// length - can be used as the dedup key) driven through the public nng_msg_*
// API of nng.c, against a two-vector reference model.
#define _GNU_SOURCE
#include "core/nng_impl.h"
// the real implementation, in this TU (private struct access for the key)
#include "core/message.c"

#include "vbfs.h"
#include "vs.h"
#include <stdio.h>
#include <stdlib.h>
#include <string.h>

#define LMAX 4300
#define HCAP 64

static const size_t SZ[] = { 0, 1, 4, 8, 31, 32, 33, 40, 64, 65, 1023, 1024,
	1025, 2048 };
#define NSZ (sizeof(SZ) / sizeof(SZ[0]))
static const size_t HS[] = { 0, 1, 4, 8, 59, 60, 64, 65 };
#define NHS (sizeof(HS) / sizeof(HS[0]))
// (the last three cannot be allocated: the call has to fail and leave the message alone - sizes whose
// sum with the head room wraps around are the interesting ones)
#define HUGE(n) ((n) > ((size_t) 1 << 40))
static const size_t RS[] = { 0, 1, 31, 32, 33, 64, 1023, 1024, 1025, 2048,
	4096 };
static const size_t HG[] = { SIZE_MAX - 8, SIZE_MAX - 40, SIZE_MAX / 2 + 9 };
#define HGCODE 0xfff0 // op arguments HGCODE+i stand for HG[i]
#define NRS (sizeof(RS) / sizeof(RS[0]))

enum {
	O_ALLOC,
	O_APPEND,
	O_INSERT,
	O_TRIM,
	O_CHOP,
	O_APP_U,
	O_INS_U,
	O_TRIM_U,
	O_CHOP_U,
	O_REALLOC,
	O_RESERVE,
	O_CLEAR,
	O_HAPPEND,
	O_HINSERT,
	O_HTRIM,
	O_HCHOP,
	O_HAPP_U,
	O_HINS_U,
	O_HTRIM_U,
	O_HCHOP_U,
	O_HCLEAR,
	O_DUP,
	O_NKINDS
};
static const char *OPN[] = { "alloc", "append", "insert", "trim", "chop",
	"append_u", "insert_u", "trim_u", "chop_u", "realloc", "reserve", "clear",
	"hdr_append", "hdr_insert", "hdr_trim", "hdr_chop", "hdr_append_u",
	"hdr_insert_u", "hdr_trim_u", "hdr_chop_u", "hdr_clear", "dup" };

typedef struct opd {
	uint8_t  kind;
	uint16_t arg; // size, or width (2/4/8) for _U kinds
} opd;
static opd OPS[256];
static int NOPS, NROOT;

static void
mk_ops(void)
{
	for (size_t i = 0; i < NSZ; i++)
		OPS[NOPS++] = (opd){ O_ALLOC, (uint16_t) SZ[i] };
	NROOT = NOPS;
	for (int k = O_APPEND; k <= O_CHOP; k++)
		for (size_t i = 0; i < NSZ; i++)
			OPS[NOPS++] = (opd){ (uint8_t) k, (uint16_t) SZ[i] };
	for (int k = O_APP_U; k <= O_CHOP_U; k++)
		for (int w = 2; w <= 8; w *= 2)
			OPS[NOPS++] = (opd){ (uint8_t) k, (uint16_t) w };
	for (size_t i = 0; i < NSZ; i++)
		OPS[NOPS++] = (opd){ O_REALLOC, (uint16_t) SZ[i] };
	for (size_t i = 0; i < NRS; i++)
		OPS[NOPS++] = (opd){ O_RESERVE, (uint16_t) RS[i] };
	for (int i = 0; i < 3; i++) {
		OPS[NOPS++] = (opd){ O_REALLOC, (uint16_t) (HGCODE + i) };
		OPS[NOPS++] = (opd){ O_RESERVE, (uint16_t) (HGCODE + i) };
	}
	OPS[NOPS++] = (opd){ O_CLEAR, 0 };
	for (int k = O_HAPPEND; k <= O_HCHOP; k++)
		for (size_t i = 0; i < NHS; i++)
			OPS[NOPS++] = (opd){ (uint8_t) k, (uint16_t) HS[i] };
	for (int k = O_HAPP_U; k <= O_HCHOP_U; k++)
		for (int w = 2; w <= 8; w *= 2)
			OPS[NOPS++] = (opd){ (uint8_t) k, (uint16_t) w };
	OPS[NOPS++] = (opd){ O_HCLEAR, 0 };
	OPS[NOPS++] = (opd){ O_DUP, 0 };
}

// ---- reference model -------------------------------------------------------
typedef struct model {
	uint8_t body[LMAX + 16];
	size_t  len;
	uint8_t hdr[HCAP + 16];
	size_t  hlen;
} model;

static uint8_t
pat(int step, size_t i)
{
	return (uint8_t) (1 + ((unsigned) step * 53u + (unsigned) i * 7u + 11u) % 251u);
}

#define MAXH 14
typedef struct hist {
	uint8_t n;
	uint8_t op[MAXH];
} hist;

static char errbuf[1024];
static char *
hist_str(const hist *h, int upto)
{
	static char b[600];
	size_t      o = 0;
	b[0]          = 0;
	for (int i = 0; i < upto && o + 40 < sizeof(b); i++)
		o += (size_t) snprintf(b + o, sizeof(b) - o, "%s%s(%zu)", i ? " " : "",
		    OPN[OPS[h->op[i]].kind],
		    OPS[h->op[i]].arg >= HGCODE ? HG[OPS[h->op[i]].arg - HGCODE] : (size_t) OPS[h->op[i]].arg);
	return b;
}

// apply op #step to (msg, model); returns 0 ok, 1 = skipped (bound), -1 =
// violation (errbuf set)
static int
apply(nng_msg **mp, model *M, const opd *o, int step)
{
	nng_msg *m = *mp;
	uint8_t  data[LMAX + 16];
	size_t   n = o->arg >= HGCODE ? HG[o->arg - HGCODE] : o->arg;
	int      rv, want;
	uint64_t v = 0, got = 0;
	for (size_t i = 0; i < n && i < sizeof(data); i++)
		data[i] = pat(step, i);
	for (int i = 0; i < 8; i++)
		v = (v << 8) | pat(step, (size_t) i);
	switch (o->kind) {
	case O_ALLOC:
		if ((rv = nng_msg_alloc(mp, n)) != 0) {
			snprintf(errbuf, sizeof(errbuf), "alloc(%zu) -> %d", n, rv);
			return -1;
		}
		m = *mp;
		memset(M, 0, sizeof(*M));
		M->len = n;
		// content of a fresh message body is unspecified: write a pattern
		for (size_t i = 0; i < n; i++)
			((uint8_t *) nng_msg_body(m))[i] = M->body[i] = pat(step, i);
		break;
	case O_APPEND:
		if (M->len + n > LMAX)
			return 1;
		rv = nng_msg_append(m, data, n);
		if (rv != 0) {
			snprintf(errbuf, sizeof(errbuf), "append(%zu) -> %d", n, rv);
			return -1;
		}
		memcpy(M->body + M->len, data, n);
		M->len += n;
		break;
	case O_INSERT:
		if (M->len + n > LMAX)
			return 1;
		rv = nng_msg_insert(m, data, n);
		if (rv != 0) {
			snprintf(errbuf, sizeof(errbuf), "insert(%zu) -> %d", n, rv);
			return -1;
		}
		memmove(M->body + n, M->body, M->len);
		memcpy(M->body, data, n);
		M->len += n;
		break;
	case O_TRIM:
	case O_CHOP:
		want = n > M->len ? NNG_EINVAL : 0;
		rv   = o->kind == O_TRIM ? nng_msg_trim(m, n) : nng_msg_chop(m, n);
		if (rv != want) {
			snprintf(errbuf, sizeof(errbuf), "%s(%zu) with len %zu -> %d, want %d",
			    OPN[o->kind], n, M->len, rv, want);
			return -1;
		}
		if (rv == 0) {
			if (o->kind == O_TRIM)
				memmove(M->body, M->body + n, M->len - n);
			M->len -= n;
		}
		break;
	case O_APP_U:
	case O_INS_U:
		if (M->len + n > LMAX)
			return 1;
		{
			uint64_t val = n == 8 ? v : (v >> (64 - 8 * n));
			uint8_t  be[8];
			for (size_t i = 0; i < n; i++)
				be[i] = (uint8_t) (val >> (8 * (n - 1 - i)));
			if (o->kind == O_APP_U)
				rv = n == 2 ? nng_msg_append_u16(m, (uint16_t) val)
				    : n == 4 ? nng_msg_append_u32(m, (uint32_t) val)
				             : nng_msg_append_u64(m, val);
			else
				rv = n == 2 ? nng_msg_insert_u16(m, (uint16_t) val)
				    : n == 4 ? nng_msg_insert_u32(m, (uint32_t) val)
				             : nng_msg_insert_u64(m, val);
			if (rv != 0) {
				snprintf(errbuf, sizeof(errbuf), "%s%zu -> %d",
				    OPN[o->kind], n * 8, rv);
				return -1;
			}
			if (o->kind == O_APP_U) {
				memcpy(M->body + M->len, be, n);
			} else {
				memmove(M->body + n, M->body, M->len);
				memcpy(M->body, be, n);
			}
			M->len += n;
		}
		break;
	case O_TRIM_U:
	case O_CHOP_U: {
		want          = n > M->len ? NNG_EINVAL : 0;
		uint16_t v16  = 0;
		uint32_t v32  = 0;
		uint64_t v64  = 0;
		if (o->kind == O_TRIM_U)
			rv = n == 2 ? nng_msg_trim_u16(m, &v16)
			    : n == 4 ? nng_msg_trim_u32(m, &v32)
			             : nng_msg_trim_u64(m, &v64);
		else
			rv = n == 2 ? nng_msg_chop_u16(m, &v16)
			    : n == 4 ? nng_msg_chop_u32(m, &v32)
			             : nng_msg_chop_u64(m, &v64);
		if (rv != want) {
			snprintf(errbuf, sizeof(errbuf), "%s%zu with len %zu -> %d, want %d",
			    OPN[o->kind], n * 8, M->len, rv, want);
			return -1;
		}
		if (rv == 0) {
			got              = n == 2 ? v16 : n == 4 ? v32 : v64;
			const uint8_t *s = o->kind == O_TRIM_U ? M->body
			                                       : M->body + M->len - n;
			uint64_t       e = 0;
			for (size_t i = 0; i < n; i++)
				e = (e << 8) | s[i];
			if (e != got) {
				snprintf(errbuf, sizeof(errbuf),
				    "%s%zu returned %llx, big-endian model says %llx",
				    OPN[o->kind], n * 8, (unsigned long long) got,
				    (unsigned long long) e);
				return -1;
			}
			if (o->kind == O_TRIM_U)
				memmove(M->body, M->body + n, M->len - n);
			M->len -= n;
		}
	} break;
	case O_REALLOC:
		rv = nng_msg_realloc(m, n);
		if (HUGE(n)) {
			if (rv == 0) {
				snprintf(errbuf, sizeof(errbuf),
				    "realloc(%zu) succeeded: length %zu, capacity %zu", n, nng_msg_len(m),
				    nng_msg_capacity(m));
				return -1;
			}
			break; // refused: nothing may have changed (compared below)
		}
		if (rv != 0) {
			snprintf(errbuf, sizeof(errbuf), "realloc(%zu) -> %d", n, rv);
			return -1;
		}
		if (n > M->len) {
			// new bytes unspecified: define them
			for (size_t i = M->len; i < n; i++)
				((uint8_t *) nng_msg_body(m))[i] = M->body[i] =
				    pat(step, i);
		}
		M->len = n;
		break;
	case O_RESERVE:
		rv = nng_msg_reserve(m, n);
		if (HUGE(n) && rv != 0)
			break; // refused: nothing may have changed (compared below)
		if (rv != 0) {
			snprintf(errbuf, sizeof(errbuf), "reserve(%zu) -> %d", n, rv);
			return -1;
		}
		if (nng_msg_capacity(m) < n) {
			snprintf(errbuf, sizeof(errbuf),
			    "reserve(%zu) left capacity %zu", n, nng_msg_capacity(m));
			return -1;
		}
		break;
	case O_CLEAR:
		nng_msg_clear(m);
		M->len = 0;
		break;
	case O_HAPPEND:
	case O_HINSERT:
		want = (M->hlen + n > HCAP) ? NNG_EINVAL : 0;
		rv   = o->kind == O_HAPPEND ? nng_msg_header_append(m, data, n)
		                            : nng_msg_header_insert(m, data, n);
		if (rv != want) {
			snprintf(errbuf, sizeof(errbuf),
			    "%s(%zu) with header len %zu -> %d, want %d", OPN[o->kind],
			    n, M->hlen, rv, want);
			return -1;
		}
		if (rv == 0) {
			if (o->kind == O_HAPPEND) {
				memcpy(M->hdr + M->hlen, data, n);
			} else {
				memmove(M->hdr + n, M->hdr, M->hlen);
				memcpy(M->hdr, data, n);
			}
			M->hlen += n;
		}
		break;
	case O_HTRIM:
	case O_HCHOP:
		want = n > M->hlen ? NNG_EINVAL : 0;
		rv   = o->kind == O_HTRIM ? nng_msg_header_trim(m, n)
		                          : nng_msg_header_chop(m, n);
		if (rv != want) {
			snprintf(errbuf, sizeof(errbuf),
			    "%s(%zu) with header len %zu -> %d, want %d", OPN[o->kind],
			    n, M->hlen, rv, want);
			return -1;
		}
		if (rv == 0) {
			if (o->kind == O_HTRIM)
				memmove(M->hdr, M->hdr + n, M->hlen - n);
			M->hlen -= n;
		}
		break;
	case O_HAPP_U:
	case O_HINS_U: {
		want         = (M->hlen + n > HCAP) ? NNG_EINVAL : 0;
		uint64_t val = n == 8 ? v : (v >> (64 - 8 * n));
		uint8_t  be[8];
		for (size_t i = 0; i < n; i++)
			be[i] = (uint8_t) (val >> (8 * (n - 1 - i)));
		if (o->kind == O_HAPP_U)
			rv = n == 2 ? nng_msg_header_append_u16(m, (uint16_t) val)
			    : n == 4 ? nng_msg_header_append_u32(m, (uint32_t) val)
			             : nng_msg_header_append_u64(m, val);
		else
			rv = n == 2 ? nng_msg_header_insert_u16(m, (uint16_t) val)
			    : n == 4 ? nng_msg_header_insert_u32(m, (uint32_t) val)
			             : nng_msg_header_insert_u64(m, val);
		if (rv != want) {
			snprintf(errbuf, sizeof(errbuf),
			    "%s%zu with header len %zu -> %d, want %d", OPN[o->kind],
			    n * 8, M->hlen, rv, want);
			return -1;
		}
		if (rv == 0) {
			if (o->kind == O_HAPP_U) {
				memcpy(M->hdr + M->hlen, be, n);
			} else {
				memmove(M->hdr + n, M->hdr, M->hlen);
				memcpy(M->hdr, be, n);
			}
			M->hlen += n;
		}
	} break;
	case O_HTRIM_U:
	case O_HCHOP_U: {
		want         = n > M->hlen ? NNG_EINVAL : 0;
		uint16_t v16 = 0;
		uint32_t v32 = 0;
		uint64_t v64 = 0;
		if (o->kind == O_HTRIM_U)
			rv = n == 2 ? nng_msg_header_trim_u16(m, &v16)
			    : n == 4 ? nng_msg_header_trim_u32(m, &v32)
			             : nng_msg_header_trim_u64(m, &v64);
		else
			rv = n == 2 ? nng_msg_header_chop_u16(m, &v16)
			    : n == 4 ? nng_msg_header_chop_u32(m, &v32)
			             : nng_msg_header_chop_u64(m, &v64);
		if (rv != want) {
			snprintf(errbuf, sizeof(errbuf),
			    "%s%zu with header len %zu -> %d, want %d", OPN[o->kind],
			    n * 8, M->hlen, rv, want);
			return -1;
		}
		if (rv == 0) {
			got              = n == 2 ? v16 : n == 4 ? v32 : v64;
			const uint8_t *s = o->kind == O_HTRIM_U ? M->hdr
			                                        : M->hdr + M->hlen - n;
			uint64_t       e = 0;
			for (size_t i = 0; i < n; i++)
				e = (e << 8) | s[i];
			if (e != got) {
				snprintf(errbuf, sizeof(errbuf),
				    "%s%zu returned %llx, big-endian model says %llx",
				    OPN[o->kind], n * 8, (unsigned long long) got,
				    (unsigned long long) e);
				return -1;
			}
			if (o->kind == O_HTRIM_U)
				memmove(M->hdr, M->hdr + n, M->hlen - n);
			M->hlen -= n;
		}
	} break;
	case O_HCLEAR:
		nng_msg_header_clear(m);
		M->hlen = 0;
		break;
	case O_DUP: {
		nng_msg *d;
		if ((rv = nng_msg_dup(&d, m)) != 0) {
			snprintf(errbuf, sizeof(errbuf), "dup -> %d", rv);
			return -1;
		}
		// independence: scribble over the original, then drop it
		memset(nng_msg_body(m), 0xEE, nng_msg_len(m));
		memset(nng_msg_header(m), 0xEE, nng_msg_header_len(m));
		(void) nng_msg_append(m, "zz", 2);
		(void) nng_msg_header_chop(m, nng_msg_header_len(m));
		nng_msg_free(m);
		*mp = m = d;
	} break;
	}
	// ---- common oracle ----
	if (nng_msg_len(m) != M->len) {
		snprintf(errbuf, sizeof(errbuf), "body length %zu, model %zu",
		    nng_msg_len(m), M->len);
		return -1;
	}
	if (nng_msg_header_len(m) != M->hlen) {
		snprintf(errbuf, sizeof(errbuf), "header length %zu, model %zu",
		    nng_msg_header_len(m), M->hlen);
		return -1;
	}
	if (M->len && memcmp(nng_msg_body(m), M->body, M->len) != 0) {
		size_t i = 0;
		while (((uint8_t *) nng_msg_body(m))[i] == M->body[i])
			i++;
		snprintf(errbuf, sizeof(errbuf),
		    "body differs from model at offset %zu of %zu (got %02x want %02x)",
		    i, M->len, ((uint8_t *) nng_msg_body(m))[i], M->body[i]);
		return -1;
	}
	if (M->hlen && memcmp(nng_msg_header(m), M->hdr, M->hlen) != 0) {
		snprintf(errbuf, sizeof(errbuf), "header differs from model");
		return -1;
	}
	if (nng_msg_capacity(m) < nng_msg_len(m)) {
		snprintf(errbuf, sizeof(errbuf), "capacity %zu < length %zu",
		    nng_msg_capacity(m), nng_msg_len(m));
		return -1;
	}
	return 0;
}

// structural key: everything that influences future behaviour
static uint64_t
key_of(nng_msg *m)
{
	nni_chunk *c    = &m->m_body;
	uint64_t   head = c->ch_ptr ? (uint64_t) (c->ch_ptr - c->ch_buf) : 0xffff;
	return ((uint64_t) c->ch_cap << 40) | ((head & 0xffff) << 24) |
	    ((uint64_t) (c->ch_len & 0xffff) << 8) | (uint64_t) m->m_header_len;
}

#define HT (1u << 23)
static uint64_t *seen;
static int
seen_add(uint64_t k)
{
	k += 1; // 0 is empty
	uint64_t h = (k * 0x9E3779B97F4A7C15ull) >> 41;
	for (;;) {
		if (seen[h] == k)
			return 0;
		if (seen[h] == 0) {
			seen[h] = k;
			return 1;
		}
		h = (h + 1) & (HT - 1);
	}
}

// structure-level clone (independent of nng_msg_dup, which is under test)
static nng_msg *
raw_clone(nng_msg *src)
{
	nng_msg *m = NNI_ALLOC_STRUCT(m);
	*m         = *src;
	if (src->m_body.ch_buf != NULL && src->m_body.ch_cap != 0) {
		m->m_body.ch_buf = nni_zalloc(src->m_body.ch_cap);
		memcpy(m->m_body.ch_buf, src->m_body.ch_buf, src->m_body.ch_cap);
		m->m_body.ch_ptr = src->m_body.ch_ptr
		    ? m->m_body.ch_buf + (src->m_body.ch_ptr - src->m_body.ch_buf)
		    : NULL;
	}
	nni_atomic_init(&m->m_refcnt);
	nni_atomic_set(&m->m_refcnt, 1);
	return m;
}

// rebuild state from history; returns msg or NULL on violation
static nng_msg *
rebuild(const hist *h, model *M)
{
	nng_msg *m = NULL;
	for (int i = 0; i < h->n; i++) {
		int r = apply(&m, M, &OPS[i == 0 ? h->op[i] : NROOT + h->op[i]], i);
		if (r != 0)
			return NULL; // cannot happen: prefix already validated
	}
	return m;
}

static char *
vhist_str(const vb_hist *h)
{
	hist hh;
	hh.n = h->n;
	memcpy(hh.op, h->op, h->n);
	return hist_str(&hh, hh.n);
}

static int
c17_step(void *ctx, const vb_hist *h, int op, uint64_t *key, char *sig,
    size_t sigsz, char *err, size_t errsz)
{
	(void) ctx;
	static model M;
	hist         hh;
	int          aop = h->n == 0 ? op : NROOT + op;
	hh.n             = h->n;
	memcpy(hh.op, h->op, h->n);
	nng_msg *m = NULL;
	if (h->n > 0) {
		m = rebuild(&hh, &M);
		if (m == NULL) {
			snprintf(sig, sigsz, "C17:replay-divergence");
			snprintf(err, errsz, "validated history did not replay: %s",
			    errbuf);
			return -1;
		}
	}
	int r = apply(&m, &M, &OPS[aop], h->n);
	if (r == 1) {
		if (m)
			nng_msg_free(m);
		return 1;
	}
	if (r < 0) {
		snprintf(sig, sigsz, "C17:%s:%s", OPN[OPS[aop].kind],
		    strstr(errbuf, "differs")        ? "content"
		        : strstr(errbuf, "want")     ? "result"
		        : strstr(errbuf, "length")   ? "length"
		        : strstr(errbuf, "capacity") ? "capacity"
		                                     : "other");
		snprintf(err, errsz, "%s", errbuf);
		return -1; // leak m: it may be corrupt
	}
	*key = key_of(m);
	nng_msg_free(m);
	return 0;
}
static int
c17_nops(void *ctx, const vb_hist *h)
{
	(void) ctx;
	return h->n == 0 ? NROOT : NOPS - NROOT;
}
static void
c17_desc(void *ctx, const vb_hist *h, char *out, size_t sz)
{
	(void) ctx;
	vb_hist t = *h;
	for (int i = 1; i < t.n; i++)
		t.op[i] = (uint8_t) (t.op[i] + NROOT); // stored relative
	snprintf(out, sz, "%s", vhist_str(&t));
}

int
main(int argc, char **argv)
{
	vx_init(argc, argv, "C17");
	mk_ops();
	int maxdepth = vx_is_thorough() ? 5 : 4; // alloc + 3 (quick) / 4 ops
	vb_run("msg", NULL, c17_step, c17_nops, c17_desc, maxdepth, 24, 8u << 20,
	    50);
	vx_note("bounds",
	    "body length <= %d (ops that would exceed are skipped), history = "
	    "alloc(size) + up to %d operations from an alphabet of %d, state key = "
	    "(capacity, headroom, length, header length)",
	    LMAX, maxdepth - 1, NOPS - NROOT);
	return vx_finish();
}
