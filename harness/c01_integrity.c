// C01 - whole-message integrity on every transport, under any segmentation.
// (a) raw-peer cutter: the exact wire bytes of a message sequence are fed to a
//     real socket with every 1-cut and 2-cut (quick: stream <= ~48 bytes) and
//     byte-at-a-time; (b)+(c) library-side segmentation: nng<->nng over
//     inproc / socket:// / ipc / tcp / ws with every send/recv system call
//     clamped to every short length (IO choice points, budget 1 or 2) and
//     EAGAIN answers; (d) ws fragment sizes; (e) inproc header pull-up with
//     header 0..60 bytes x body sizes around the headroom boundaries.
// Oracle: received list == sent list (bytes, order, count) per connection.
#define _GNU_SOURCE
#include "vpeer.h"
#include "vs.h"
#include <stdlib.h>
#include <string.h>
#include <sys/socket.h>
#include <unistd.h>

static uint8_t
pat(int m, size_t i)
{
	return (uint8_t) (1 + ((unsigned) m * 37u + (unsigned) i * 11u + 5u) % 251u);
}

// ---------------------------------------------------------------------------------
// (a) receive-side cutter against a raw peer on socket://
// ---------------------------------------------------------------------------------
typedef struct cutarg {
	int proto;    // 0 pair0, 1 pair1 (4-byte hop header), 2 rep (backtrace)
	int sizes[3]; // body sizes, -1 = unused
	int ncuts;    // 1 or 2; 99 = byte at a time
} cutarg;

static size_t
build_stream(const cutarg *a, uint8_t *out, size_t frame_end[3], int *nmsg)
{
	size_t o = 0;
	int    n = 0;
	for (int m = 0; m < 3 && a->sizes[m] >= 0; m++) {
		uint8_t hdr[16], body[400];
		size_t  hl = 0;
		if (a->proto == 1) {
			vp_put32(hdr, 1);
			hl = 4;
		} else if (a->proto == 2) {
			vp_put32(hdr, 0x00000007u + (unsigned) m); // one hop word
			vp_put32(hdr + 4, 0x80000100u + (unsigned) m);
			hl = 8;
		}
		for (int i = 0; i < a->sizes[m]; i++)
			body[i] = pat(m, (size_t) i);
		o += vp_frame(out + o, hdr, hl, body, (size_t) a->sizes[m], 0);
		frame_end[m] = o;
		n++;
	}
	*nmsg = n;
	return o;
}

static void
run_cut(void *arg)
{
	cutarg *a = arg;
	vh_init(0);
	nng_socket s;
	uint16_t   peer;
	switch (a->proto) {
	case 0:
		VH_OK(nng_pair0_open(&s));
		peer = SP_PAIR0;
		break;
	case 1:
		VH_OK(nng_pair1_open(&s));
		peer = SP_PAIR1;
		break;
	default:
		VH_OK(nng_rep0_open(&s));
		peer = SP_REQ;
		break;
	}
	VH_OK(nng_socket_set_int(s, NNG_OPT_RECVBUF, 8));
	int fd = vp_connect_raw(s, peer, NULL);
	if (fd < 0)
		vs_fail("harness:setup", "raw connect");
	uint8_t stream[1400];
	size_t  fend[3];
	int     nmsg;
	size_t  len = build_stream(a, stream, fend, &nmsg);
	size_t  cuts[2];
	int     nc = 0;
	if (a->ncuts == 99) {
		for (size_t i = 0; i < len; i++) {
			if (vp_write_all(fd, stream + i, 1) != 0)
				vs_fail("harness:peer", "write");
			vs_settle();
		}
		vs_nontrivial();
	} else {
		// every position 1..len-1 (strictly inside the stream)
		cuts[0] = 1 + (size_t) vs_choose(VK_ENV, (int) len - 1);
		nc      = 1;
		if (a->ncuts == 2) {
			size_t rest = len - cuts[0];
			cuts[1]     = cuts[0] + (size_t) vs_choose(VK_ENV, (int) rest);
			if (cuts[1] > cuts[0])
				nc = 2;
		}
		int inside = 0;
		for (int c = 0; c < nc; c++) {
			int onb = 0;
			for (int m = 0; m < nmsg; m++)
				if (cuts[c] == fend[m])
					onb = 1;
			if (!onb)
				inside = 1;
		}
		if (inside)
			vs_nontrivial();
		if (vp_write_cut(fd, stream, len, cuts, nc) != 0)
			vs_fail("harness:peer", "write");
	}
	vs_settle();
	// receive everything; REP must be answered before the next receive
	vp_rd *rd = calloc(1, sizeof(*rd));
	for (int m = 0; m < nmsg; m++) {
		nng_msg *msg = NULL;
		int      rv  = nng_recvmsg(s, &msg, NNG_FLAG_NONBLOCK);
		if (rv != 0)
			vs_fail("C01:recv:lost",
			    "message %d of %d (size %d) not delivered: %s (cuts %zu,%zu)",
			    m, nmsg, a->sizes[m], nng_strerror(rv), nc > 0 ? cuts[0] : 0,
			    nc > 1 ? cuts[1] : 0);
		if ((int) nng_msg_len(msg) != a->sizes[m])
			vs_fail("C01:recv:length",
			    "message %d delivered with %zu bytes, sent %d", m,
			    nng_msg_len(msg), a->sizes[m]);
		for (int i = 0; i < a->sizes[m]; i++)
			if (((uint8_t *) nng_msg_body(msg))[i] != pat(m, (size_t) i))
				vs_fail("C01:recv:altered",
				    "message %d differs at byte %d of %d", m, i,
				    a->sizes[m]);
		if (a->proto == 2) {
			// reply: must come back with exactly this request's backtrace
			if (nng_sendmsg(s, msg, 0) != 0)
				vs_fail("C01:send:reply", "reply %d failed", m);
			vs_settle();
			const uint8_t *p;
			size_t         l;
			if (vp_next_frame(fd, rd, &p, &l) != 1)
				vs_fail("C01:send:lost", "reply %d not on the wire", m);
			if (l != 8 + (size_t) a->sizes[m] ||
			    vp_get32(p) != 0x00000007u + (unsigned) m ||
			    vp_get32(p + 4) != 0x80000100u + (unsigned) m)
				vs_fail("C01:send:header",
				    "reply %d: %zu bytes, header %08x %08x", m, l,
				    l >= 8 ? vp_get32(p) : 0, l >= 8 ? vp_get32(p + 4) : 0);
			for (int i = 0; i < a->sizes[m]; i++)
				if (p[8 + i] != pat(m, (size_t) i))
					vs_fail("C01:send:altered",
					    "reply %d differs at byte %d", m, i);
		} else
			nng_msg_free(msg);
	}
	nng_msg *extra = NULL;
	if (nng_recvmsg(s, &extra, NNG_FLAG_NONBLOCK) == 0)
		vs_fail("C01:recv:extra", "an extra message of %zu bytes appeared",
		    nng_msg_len(extra));
	free(rd);
	vs_outcome("ok nc=%d", nc);
	close(fd);
	nng_socket_close(s);
	vh_fini();
}

// ---------------------------------------------------------------------------------
// (b)(c)(d) nng <-> nng over a transport with clamped system calls
// ---------------------------------------------------------------------------------
enum { T_INPROC, T_SOCKFD, T_IPC, T_TCP, T_WS };
static const char *TN[] = { "inproc", "socketfd", "ipc", "tcp", "ws" };
typedef struct xarg {
	int    tran;
	int    raw;      // 0: pair0 bodies only; 1: xreq->xrep with backtrace header
	int    sizes[3]; // body sizes
	int    hdrwords; // extra backtrace words (raw)
	int    io;       // IO choice points on
	size_t wsfrag;   // ws send fragment size, 0 = default
} xarg;

static void
run_xfer(void *arg)
{
	xarg *x = arg;
	if (x->tran == T_TCP || x->tran == T_WS)
		vs_tcp_grace_us = 1500;
	vh_init(0);
	nng_socket a, b; // a receives, b sends
	if (x->raw) {
		VH_OK(nng_rep0_open_raw(&a));
		VH_OK(nng_req0_open_raw(&b));
		VH_OK(nng_socket_set_int(a, NNG_OPT_MAXTTL, 15));
	} else {
		VH_OK(nng_pair0_open(&a));
		VH_OK(nng_pair0_open(&b));
	}
	VH_OK(nng_socket_set_int(a, NNG_OPT_RECVBUF, 8));
	VH_OK(nng_socket_set_int(b, NNG_OPT_SENDBUF, 8));
	VH_OK(nng_socket_set_ms(a, NNG_OPT_RECVTIMEO, 300));
	VH_OK(nng_socket_set_ms(b, NNG_OPT_SENDTIMEO, 300));
	char         url[200];
	nng_listener l;
	nng_dialer   d;
	switch (x->tran) {
	case T_INPROC:
		VH_OK(nng_listen(a, "inproc://c01", &l, 0));
		VH_OK(nng_dial(b, "inproc://c01", NULL, 0));
		break;
	case T_SOCKFD: {
		int          sv[2];
		nng_listener l2;
		if (socketpair(AF_UNIX, SOCK_STREAM, 0, sv) != 0)
			vs_fail("harness:setup", "socketpair");
		VH_OK(nng_listener_create(&l, a, "socket://"));
		VH_OK(nng_listener_start(l, 0));
		VH_OK(nng_listener_create(&l2, b, "socket://"));
		VH_OK(nng_listener_start(l2, 0));
		VH_OK(nng_listener_set_int(l, NNG_OPT_SOCKET_FD, sv[0]));
		VH_OK(nng_listener_set_int(l2, NNG_OPT_SOCKET_FD, sv[1]));
	} break;
	case T_IPC:
		snprintf(url, sizeof(url), "ipc://%s/c01-%d.sock", vx_rundir(),
		    (int) getpid());
		VH_OK(nng_listen(a, url, &l, 0));
		VH_OK(nng_dial(b, url, NULL, 0));
		break;
	default: {
		int port = 0;
		VH_OK(nng_listen(a,
		    x->tran == T_WS ? "ws://127.0.0.1:0/c01" : "tcp://127.0.0.1:0", &l,
		    0));
		VH_OK(nng_listener_get_int(l, NNG_OPT_BOUND_PORT, &port));
		snprintf(url, sizeof(url),
		    x->tran == T_WS ? "ws://127.0.0.1:%d/c01" : "tcp://127.0.0.1:%d",
		    port);
		VH_OK(nng_dialer_create(&d, b, url));
		if (x->wsfrag)
			VH_OK(nng_dialer_set_size(d, NNG_OPT_WS_SENDMAXFRAME, x->wsfrag));
		VH_OK(nng_dialer_start(d, 0));
	} break;
	}
	vs_settle();
	if (x->tran == T_TCP || x->tran == T_WS)
		vs_sleep(2);
	// ---- the window: sends and receives with clamped I/O ----
	if (x->io) {
		vs_io_points   = 1;
		vs_io_maxclamp = 9;
		vs_io_eagain   = 1;
	}
	long io0 = vs_io_calls;
	vs_window(1);
	int nmsg = 0;
	for (int m = 0; m < 3 && x->sizes[m] >= 0; m++) {
		nng_msg *msg;
		VH_OK(nng_msg_alloc(&msg, (size_t) x->sizes[m]));
		for (int i = 0; i < x->sizes[m]; i++)
			((uint8_t *) nng_msg_body(msg))[i] = pat(m, (size_t) i);
		if (x->raw) {
			for (int w = 0; w < x->hdrwords; w++)
				VH_OK(nng_msg_header_append_u32(msg,
				    0x00000011u * (unsigned) (w + 1)));
			VH_OK(nng_msg_header_append_u32(msg, 0x80000000u | (unsigned) (m + 1)));
		}
		int rv = nng_sendmsg(b, msg, 0);
		if (rv != 0) {
			nng_msg_free(msg);
			vs_fail("C01:send:refused", "send %d (size %d) over %s -> %s", m,
			    x->sizes[m], TN[x->tran], nng_strerror(rv));
		}
		nmsg++;
	}
	for (int m = 0; m < nmsg; m++) {
		nng_msg *msg = NULL;
		int      rv  = nng_recvmsg(a, &msg, 0);
		if (rv != 0)
			vs_fail("C01:recv:lost", "%s: message %d of %d (size %d): %s",
			    TN[x->tran], m, nmsg, x->sizes[m], nng_strerror(rv));
		if ((int) nng_msg_len(msg) != x->sizes[m])
			vs_fail("C01:recv:length", "%s: message %d has %zu bytes, sent %d",
			    TN[x->tran], m, nng_msg_len(msg), x->sizes[m]);
		for (int i = 0; i < x->sizes[m]; i++)
			if (((uint8_t *) nng_msg_body(msg))[i] != pat(m, (size_t) i))
				vs_fail("C01:recv:altered",
				    "%s: message %d differs at byte %d of %d", TN[x->tran],
				    m, i, x->sizes[m]);
		if (x->raw) {
			// raw REP header: [pipe id][hop words...][request id]
			size_t hl = nng_msg_header_len(msg);
			if (hl != 4 * ((size_t) x->hdrwords + 2))
				vs_fail("C01:recv:header",
				    "%s: message %d header %zu bytes, expected %d",
				    TN[x->tran], m, hl, 4 * (x->hdrwords + 2));
			const uint8_t *h = nng_msg_header(msg);
			for (int w = 0; w < x->hdrwords; w++)
				if (vp_get32(h + 4 + 4 * w) !=
				    0x00000011u * (unsigned) (w + 1))
					vs_fail("C01:recv:header",
					    "%s: message %d hop word %d altered",
					    TN[x->tran], m, w);
			if (vp_get32(h + hl - 4) != (0x80000000u | (unsigned) (m + 1)))
				vs_fail("C01:recv:header", "%s: message %d id altered",
				    TN[x->tran], m);
		}
		nng_msg_free(msg);
	}
	vs_window(0);
	vs_io_points = 0;
	if (vs_io_calls > io0)
		vs_nontrivial();
	nng_msg *extra = NULL;
	vs_settle();
	if (nng_recvmsg(a, &extra, NNG_FLAG_NONBLOCK) == 0)
		vs_fail("C01:recv:extra", "%s: an extra message of %zu bytes appeared",
		    TN[x->tran], nng_msg_len(extra));
	vs_outcome("ok iocalls=%ld", vs_io_calls - io0);
	vs_log("%s raw=%d sizes=%d,%d,%d hw=%d iocalls=%ld", TN[x->tran], x->raw,
	    x->sizes[0], x->sizes[1], x->sizes[2], x->hdrwords, vs_io_calls - io0);
	nng_socket_close(b);
	nng_socket_close(a);
	vh_fini();
}

// ---------------------------------------------------------------------------------
// (g) bursts towards a receiver that is not reading: several messages are in flight or parked in
// the transport while the application does not receive; what is accepted must come out whole, in
// order, unmerged.  Receive buffer 0/1/2, protocols with and without a protocol-level queue.
// ---------------------------------------------------------------------------------
typedef struct barg {
	int tran, proto; // proto: 0 pair0, 1 pair1, 2 push->pull
} barg;
#define NTAIL 2
static const int BURST[] = { 10, 200, 0, 33, 1000, 7, 126, 70000, 1, /* waiting tail: */ 5, 300 };
#define NBURST ((int) (sizeof(BURST) / sizeof(BURST[0])) - NTAIL)
static void
run_burst(void *arg)
{
	barg *x = arg;
	if (x->tran == T_TCP || x->tran == T_WS)
		vs_tcp_grace_us = 1500;
	vh_init(0);
	nng_socket a, b; // a receives, b sends
	if (x->proto == 0) {
		VH_OK(nng_pair0_open(&a));
		VH_OK(nng_pair0_open(&b));
	} else if (x->proto == 1) {
		VH_OK(nng_pair1_open(&a));
		VH_OK(nng_pair1_open(&b));
	} else {
		VH_OK(nng_pull0_open(&a));
		VH_OK(nng_push0_open(&b));
	}
	int rb = vs_choose(VK_ENV, 3);
	if (x->proto != 2)
		VH_OK(nng_socket_set_int(a, NNG_OPT_RECVBUF, rb));
	static const int SB[] = { 0, 8, 1, 2 };
	int              sb   = SB[vs_choose(VK_ENV, 4)];
	VH_OK(nng_socket_set_int(b, NNG_OPT_SENDBUF, sb));
	VH_OK(nng_socket_set_ms(a, NNG_OPT_RECVTIMEO, 100));
	VH_OK(nng_socket_set_ms(b, NNG_OPT_SENDTIMEO, 20));
	char         url[200];
	nng_listener l;
	switch (x->tran) {
	case T_INPROC:
		VH_OK(nng_listen(a, "inproc://c01b", &l, 0));
		VH_OK(nng_dial(b, "inproc://c01b", NULL, 0));
		break;
	case T_SOCKFD: {
		int          sv[2];
		nng_listener l2;
		if (socketpair(AF_UNIX, SOCK_STREAM, 0, sv) != 0)
			vs_fail("harness:setup", "socketpair");
		VH_OK(nng_listener_create(&l, a, "socket://"));
		VH_OK(nng_listener_start(l, 0));
		VH_OK(nng_listener_create(&l2, b, "socket://"));
		VH_OK(nng_listener_start(l2, 0));
		VH_OK(nng_listener_set_int(l, NNG_OPT_SOCKET_FD, sv[0]));
		VH_OK(nng_listener_set_int(l2, NNG_OPT_SOCKET_FD, sv[1]));
	} break;
	case T_IPC:
		snprintf(url, sizeof(url), "ipc://%s/c01b-%d.sock", vx_rundir(), (int) getpid());
		VH_OK(nng_listen(a, url, &l, 0));
		VH_OK(nng_dial(b, url, NULL, 0));
		break;
	default: {
		int port = 0;
		VH_OK(nng_listen(a,
		    x->tran == T_WS ? "ws://127.0.0.1:0/c01b" : "tcp://127.0.0.1:0", &l, 0));
		VH_OK(nng_listener_get_int(l, NNG_OPT_BOUND_PORT, &port));
		snprintf(url, sizeof(url),
		    x->tran == T_WS ? "ws://127.0.0.1:%d/c01b" : "tcp://127.0.0.1:%d", port);
		VH_OK(nng_dial(b, url, NULL, 0));
	} break;
	}
	vs_settle();
	if (x->tran == T_TCP || x->tran == T_WS)
		vs_sleep(2);
	int nb = 4 + vs_choose(VK_ENV, NBURST - 3); // 4 .. NBURST messages before the first receive
	int accepted[NBURST + NTAIL], na = 0;
	for (int m = 0; m < nb; m++) {
		nng_msg *msg;
		VH_OK(nng_msg_alloc(&msg, (size_t) BURST[m]));
		for (int i = 0; i < BURST[m]; i++)
			((uint8_t *) nng_msg_body(msg))[i] = pat(m, (size_t) i);
		int rv = nng_sendmsg(b, msg, 0);
		if (rv != 0) {
			nng_msg_free(msg); // back-pressure: the message stayed with us
			if (rv != NNG_ETIMEDOUT && rv != NNG_EAGAIN)
				vs_fail("C01:send:refused", "burst send %d over %s -> %s", m,
				    TN[x->tran], nng_strerror(rv));
			continue;
		}
		accepted[na++] = m;
		vs_settle();
	}
	// two more sends WITHOUT a timeout, issued one after the other: if the path is saturated they
	// wait while everything accepted above sits in buffers, and go out as the receiver makes room
	nng_aio *tail[NTAIL];
	for (int k = 0; k < NTAIL; k++) {
		nng_msg *msg;
		int      m = NBURST + k;
		VH_OK(nng_msg_alloc(&msg, (size_t) BURST[m]));
		for (int i = 0; i < BURST[m]; i++)
			((uint8_t *) nng_msg_body(msg))[i] = pat(m, (size_t) i);
		VH_OK(nng_aio_alloc(&tail[k], NULL, NULL));
		nng_aio_set_timeout(tail[k], NNG_DURATION_INFINITE);
		nng_aio_set_msg(tail[k], msg);
		nng_socket_send(b, tail[k]);
		vs_settle();
	}
	// now the receiver reads; the waiting sends follow while it does
	nng_msg *rx[NBURST + NTAIL + 2];
	int      got = 0;
	for (;;) {
		nng_msg *msg = NULL;
		int      rv  = nng_recvmsg(a, &msg, 0);
		if (rv != 0)
			break;
		if (got >= NBURST + NTAIL)
			vs_fail("C01:recv:extra", "%s: message %d arrived, only %d were sent",
			    TN[x->tran], got, nb + NTAIL);
		rx[got++] = msg;
	}
	int waited = 0;
	for (int k = 0; k < NTAIL; k++) {
		if (nng_aio_busy(tail[k])) { // (whether it must have completed is C06/C08's business)
			nng_aio_cancel(tail[k]);
			waited++;
		}
		nng_aio_wait(tail[k]);
		if (nng_aio_result(tail[k]) == 0)
			accepted[na++] = NBURST + k;
		else
			nng_msg_free(nng_aio_get_msg(tail[k]));
		nng_aio_free(tail[k]);
	}
	if (waited) { // a send that completed between the last receive and the cancel
		nng_msg *msg = NULL;
		while (got < NBURST + NTAIL && nng_recvmsg(a, &msg, 0) == 0)
			rx[got++] = msg;
	}
	for (int g = 0; g < got; g++) {
		nng_msg *msg = rx[g];
		if (g >= na)
			vs_fail("C01:recv:extra", "%s: message %d arrived, only %d were accepted",
			    TN[x->tran], g, na);
		int m = accepted[g];
		if ((int) nng_msg_len(msg) != BURST[m])
			vs_fail("C01:recv:length",
			    "%s burst of %d+%d waiting (recvbuf %d sendbuf %d): delivery %d has %zu bytes, "
			    "message %d was sent with %d (same connection: arrival order = send order)",
			    TN[x->tran], nb, NTAIL, rb, sb, g, nng_msg_len(msg), m, BURST[m]);
		for (int i = 0; i < BURST[m]; i++)
			if (((uint8_t *) nng_msg_body(msg))[i] != pat(m, (size_t) i))
				vs_fail("C01:recv:altered",
				    "%s burst: delivery %d (message %d) differs at byte %d",
				    TN[x->tran], g, m, i);
		nng_msg_free(msg);
	}
	if (got != na)
		vs_fail("C01:recv:lost",
		    "%s burst of %d (recvbuf %d sendbuf %d): %d accepted by send, %d delivered with the "
		    "connection up",
		    TN[x->tran], nb, rb, sb, na, got);
	vs_nontrivial();
	vs_outcome("accepted=%d", na);
	nng_socket_close(b);
	nng_socket_close(a);
	vh_fini();
}

// ---------------------------------------------------------------------------------
// (e) inproc header pull-up: raw header sizes x body sizes, shared vs unique
// ---------------------------------------------------------------------------------
static void
run_pullup(void *arg)
{
	int shared = (int) (intptr_t) arg;
	vh_init(0);
	static const int BS[] = { 0, 1, 7, 8, 9, 31, 32, 33, 40, 63, 64, 65, 255,
		256, 1000, 1023, 1024, 1025, 2048, 4096 };
	int hw = vs_choose(VK_ENV, 14);     // extra hop words 0..13 (header 4..56+4)
	int bi = vs_choose(VK_ENV, 20);
	int bs = BS[bi];
	nng_socket a, b, c;
	VH_OK(nng_rep0_open_raw(&a));
	VH_OK(nng_socket_set_int(a, NNG_OPT_MAXTTL, 15));
	VH_OK(nng_listen(a, "inproc://c01pu", NULL, 0));
	if (shared) {
		// fan-out (shared message): raw bus send to two peers clones
		VH_OK(nng_bus0_open_raw(&b));
		VH_OK(nng_bus0_open(&c));
		nng_socket a2;
		VH_OK(nng_bus0_open(&a2));
		nng_socket_close(a);
		a = a2;
		VH_OK(nng_listen(b, "inproc://c01pub", NULL, 0));
		VH_OK(nng_dial(a, "inproc://c01pub", NULL, 0));
		VH_OK(nng_dial(c, "inproc://c01pub", NULL, 0));
		hw = 0;
	} else {
		VH_OK(nng_req0_open_raw(&b));
		VH_OK(nng_dial(b, "inproc://c01pu", NULL, 0));
	}
	vs_settle();
	nng_msg *msg;
	VH_OK(nng_msg_alloc(&msg, (size_t) bs));
	for (int i = 0; i < bs; i++)
		((uint8_t *) nng_msg_body(msg))[i] = pat(3, (size_t) i);
	if (!shared) {
		for (int w = 0; w < hw; w++)
			VH_OK(nng_msg_header_append_u32(msg, 0x01010101u * (unsigned) (w + 1)));
		VH_OK(nng_msg_header_append_u32(msg, 0x80000abcu));
	}
	VH_OK(nng_socket_set_ms(b, NNG_OPT_SENDTIMEO, 100));
	if (nng_sendmsg(b, msg, 0) != 0)
		vs_fail("C01:inproc:send", "send refused (hdr words %d body %d)", hw, bs);
	vs_settle();
	int nrecv = shared ? 2 : 1;
	VH_OK(nng_socket_set_ms(a, NNG_OPT_RECVTIMEO, 100));
	if (shared)
		VH_OK(nng_socket_set_ms(c, NNG_OPT_RECVTIMEO, 100));
	for (int r = 0; r < nrecv; r++) {
		nng_msg *m2 = NULL;
		int      rv = nng_recvmsg(r == 0 ? a : c, &m2, 0);
		if (rv != 0)
			vs_fail("C01:inproc:lost", "hdr words %d body %d: %s", hw, bs,
			    nng_strerror(rv));
		if ((int) nng_msg_len(m2) != bs)
			vs_fail("C01:inproc:length", "hdr words %d: body %zu, sent %d", hw,
			    nng_msg_len(m2), bs);
		for (int i = 0; i < bs; i++)
			if (((uint8_t *) nng_msg_body(m2))[i] != pat(3, (size_t) i))
				vs_fail("C01:inproc:altered",
				    "hdr words %d body %d differs at byte %d", hw, bs, i);
		if (!shared) {
			size_t         hl = nng_msg_header_len(m2);
			const uint8_t *h  = nng_msg_header(m2);
			if (hl != 4 * ((size_t) hw + 2))
				vs_fail("C01:inproc:header", "header %zu bytes, expected %d",
				    hl, 4 * (hw + 2));
			for (int w = 0; w < hw; w++)
				if (vp_get32(h + 4 + 4 * w) != 0x01010101u * (unsigned) (w + 1))
					vs_fail("C01:inproc:header", "hop word %d altered", w);
			if (vp_get32(h + hl - 4) != 0x80000abcu)
				vs_fail("C01:inproc:header", "request id altered");
		}
		nng_msg_free(m2);
	}
	vs_nontrivial();
	vs_outcome("ok");
	vs_log("shared=%d hw=%d body=%d", shared, hw, bs);
	nng_socket_close(a);
	nng_socket_close(b);
	if (shared)
		nng_socket_close(c);
	vh_fini();
}


// ---------------------------------------------------------------------------------
// (e2) one message fanned out to several inproc receivers (PUB -> 3 SUB, BUS -> 3 BUS): every
//      receiver gets the bytes that were sent and keeps them whatever another receiver does to
//      its copy - with the receives already waiting when the message is sent (handed over
//      directly) or entered afterwards (taken from the receive queue), for each receiver
// ---------------------------------------------------------------------------------
static struct {
	nng_aio *aio;
	int      done, res;
} FA[3];
static void
fa_cb(void *arg)
{
	int i      = (int) (intptr_t) arg;
	FA[i].done = 1;
	FA[i].res  = nng_aio_result(FA[i].aio);
}
static void
run_fanout(void *arg)
{
	int bus = (int) (intptr_t) arg;
	vh_init(0);
	static const int BS[] = { 0, 1, 16, 33, 1000, 65536 };
	int bs      = BS[vs_choose(VK_ENV, 6)];
	int waiting = vs_choose(VK_ENV, 8); // bit i: receiver i waits before the send
	int editor  = vs_choose(VK_ENV, 3); // the receiver that edits its copy in place
	nng_socket tx, rx[3];
	VH_OK(bus ? nng_bus0_open(&tx) : nng_pub0_open(&tx));
	VH_OK(nng_listen(tx, "inproc://c01fan", NULL, 0));
	for (int i = 0; i < 3; i++) {
		VH_OK(bus ? nng_bus0_open(&rx[i]) : nng_sub0_open(&rx[i]));
		if (!bus)
			VH_OK(nng_sub0_socket_subscribe(rx[i], "", 0));
		VH_OK(nng_dial(rx[i], "inproc://c01fan", NULL, 0));
		VH_OK(nng_aio_alloc(&FA[i].aio, fa_cb, (void *) (intptr_t) i));
		nng_aio_set_timeout(FA[i].aio, 100);
		FA[i].done = 0;
	}
	vs_settle();
	for (int i = 0; i < 3; i++)
		if (waiting & (1 << i))
			nng_socket_recv(rx[i], FA[i].aio);
	vs_settle();
	nng_msg *msg;
	VH_OK(nng_msg_alloc(&msg, (size_t) bs));
	for (int i = 0; i < bs; i++)
		((uint8_t *) nng_msg_body(msg))[i] = pat(5, (size_t) i);
	if (nng_sendmsg(tx, msg, NNG_FLAG_NONBLOCK) != 0)
		vs_fail("C01:inproc:send", "fan-out send refused");
	vs_settle();
	for (int i = 0; i < 3; i++)
		if (!(waiting & (1 << i)))
			nng_socket_recv(rx[i], FA[i].aio);
	vs_settle();
	nng_msg *got[3];
	for (int i = 0; i < 3; i++) {
		if (!FA[i].done || FA[i].res != 0)
			vs_fail("C01:inproc:lost", "fan-out %s body %d waiting %d: receiver %d: %s",
			    bus ? "bus" : "pub", bs, waiting, i,
			    FA[i].done ? nng_strerror(FA[i].res) : "receive still pending");
		got[i] = nng_aio_get_msg(FA[i].aio);
	}
	// the editor rewrites, shortens and extends its copy
	{
		nng_msg *e = got[editor];
		memset(nng_msg_body(e), 'X', nng_msg_len(e));
		if (nng_msg_len(e) >= 8)
			VH_OK(nng_msg_trim(e, 4));
		VH_OK(nng_msg_append(e, "YYYYYYYY", 8));
		VH_OK(nng_msg_insert(e, "ZZ", 2));
		VH_OK(nng_msg_header_append_u32(e, 0x58585858u));
	}
	for (int i = 0; i < 3; i++) {
		if (i == editor)
			continue;
		if ((int) nng_msg_len(got[i]) != bs || nng_msg_header_len(got[i]) != 0)
			vs_fail("C01:inproc:altered",
			    "fan-out %s: receiver %d holds %zu body / %zu header bytes, %d / 0 were sent "
			    "(receiver %d edited its own copy)",
			    bus ? "bus" : "pub", i, nng_msg_len(got[i]), nng_msg_header_len(got[i]), bs,
			    editor);
		for (int k = 0; k < bs; k++)
			if (((uint8_t *) nng_msg_body(got[i]))[k] != pat(5, (size_t) k))
				vs_fail("C01:inproc:altered",
				    "fan-out %s body %d (waiting mask %d): receiver %d sees byte %d changed "
				    "after receiver %d edited its own copy",
				    bus ? "bus" : "pub", bs, waiting, i, k, editor);
	}
	for (int i = 0; i < 3; i++) {
		nng_msg_free(got[i]);
		nng_aio_free(FA[i].aio);
		nng_socket_close(rx[i]);
	}
	vs_nontrivial();
	vs_outcome("ok");
	vs_log("bus=%d body=%d waiting=%d editor=%d", bus, bs, waiting, editor);
	nng_socket_close(tx);
	vh_fini();
}

// ---------------------------------------------------------------------------------
// (f) websocket, receive side: a raw TCP client sends the upgrade request and
//     two binary frames as ONE byte stream, cut at every offset from shortly
//     before the end of the request to the end (so that frame bytes travel
//     with the handshake, straddle it, or follow it)
// ---------------------------------------------------------------------------------
#include <arpa/inet.h>
#include <fcntl.h>
#include <netinet/in.h>
#include <netinet/tcp.h>
static void
run_wsraw(void *arg)
{
	int blen = (int) (intptr_t) arg; // body length of the first message
	vs_tcp_grace_us = 1500;
	vh_init(0);
	nng_socket   s;
	nng_listener l;
	int          port = 0;
	VH_OK(nng_pair1_open_poly(&s)); // several peers may come and go
	VH_OK(nng_socket_set_ms(s, NNG_OPT_RECVTIMEO, 50));
	VH_OK(nng_listen(s, "ws://127.0.0.1:0/c01", &l, 0));
	VH_OK(nng_listener_get_int(l, NNG_OPT_BOUND_PORT, &port));
	static const char *REQ =
	    "GET /c01 HTTP/1.1\r\nHost: 127.0.0.1\r\nUpgrade: websocket\r\n"
	    "Connection: Upgrade\r\nSec-WebSocket-Key: dGhlIHNhbXBsZSBub25jZQ==\r\n"
	    "Sec-WebSocket-Version: 13\r\n"
	    "Sec-WebSocket-Protocol: pair1.sp.nanomsg.org\r\n\r\n";
	uint8_t st[1200];
	size_t  rl = strlen(REQ), o;
	memcpy(st, REQ, rl);
	o = rl;
	// two masked binary frames (mask key 0 = identity), SP payload = hop + body
	int lens[2] = { blen, 3 };
	for (int m = 0; m < 2; m++) {
		int pl  = 4 + lens[m];
		st[o++] = 0x82;
		if (pl < 126)
			st[o++] = (uint8_t) (0x80 | pl);
		else {
			st[o++] = 0x80 | 126;
			st[o++] = (uint8_t) (pl >> 8);
			st[o++] = (uint8_t) pl;
		}
		memset(st + o, 0, 4);
		o += 4;
		vp_put32(st + o, 1);
		o += 4;
		for (int i = 0; i < lens[m]; i++)
			st[o++] = pat(m, (size_t) i);
	}
	size_t total = o, first = rl - 12;
	int    ncase = (int) (total - first);
	int    per   = 6;
	int    batch = vs_choose(VK_ENV, (ncase + per - 1) / per);
	for (int k = batch * per; k < (batch + 1) * per && k < ncase; k++) {
		size_t             cut = first + (size_t) k;
		struct sockaddr_in sa;
		memset(&sa, 0, sizeof(sa));
		sa.sin_family      = AF_INET;
		sa.sin_port        = htons((uint16_t) port);
		sa.sin_addr.s_addr = htonl(INADDR_LOOPBACK);
		int fd = socket(AF_INET, SOCK_STREAM, 0), one = 1;
		setsockopt(fd, IPPROTO_TCP, TCP_NODELAY, &one, sizeof(one));
		if (connect(fd, (struct sockaddr *) &sa, sizeof(sa)) != 0)
			vs_fail("harness:peer", "connect");
		fcntl(fd, F_SETFL, fcntl(fd, F_GETFL) | O_NONBLOCK);
		vs_settle();
		vs_case();
		if (cut > rl && cut < total)
			vs_nontrivial();
		if (vp_write_all(fd, st, cut) != 0)
			vs_fail("harness:peer", "write");
		vs_settle();
		vs_sleep(2);
		if (vp_write_all(fd, st + cut, total - cut) != 0)
			vs_fail("harness:peer", "write");
		vs_settle();
		vs_sleep(2);
		for (int m = 0; m < 2; m++) {
			nng_msg *msg = NULL;
			int      rv  = nng_recvmsg(s, &msg, 0);
			if (rv != 0)
				vs_fail("C01:ws:lost",
				    "cut at %zu (request is %zu bytes): message %d of 2 "
				    "(size %d) not delivered: %s",
				    cut, rl, m, lens[m], nng_strerror(rv));
			if ((int) nng_msg_len(msg) != lens[m])
				vs_fail("C01:ws:length",
				    "cut at %zu: message %d has %zu bytes, sent %d", cut, m,
				    nng_msg_len(msg), lens[m]);
			for (int i = 0; i < lens[m]; i++)
				if (((uint8_t *) nng_msg_body(msg))[i] != pat(m, (size_t) i))
					vs_fail("C01:ws:altered",
					    "cut at %zu (request is %zu bytes): message %d "
					    "differs at byte %d of %d",
					    cut, rl, m, i, lens[m]);
			nng_msg_free(msg);
		}
		close(fd);
		vs_settle();
	}
	vs_outcome("ok");
	nng_socket_close(s);
	vh_fini();
}

static void
explore(const char *name, void (*fn)(void *), void *arg, int io, int total)
{
	if (vx_time_left() < 15)
		return;
	vx_cfg c;
	memset(&c, 0, sizeof(c));
	c.prop     = "C01";
	c.scenario = name;
	c.run      = fn;
	c.arg      = arg;
	for (int i = 0; i < VB_NB; i++)
		c.budget[i] = 0;
	c.budget[VB_IO]  = io;
	c.budget[VB_ENV] = -1;
	c.total          = total;
	vx_explore(&c, NULL);
}

int
main(int argc, char **argv)
{
	vx_init(argc, argv, "C01");
	int T = vx_is_thorough();
	// (a) cutter
	static cutarg C[64];
	int           nc = 0;
	static const int SEQ[][3] = { { 0, 1, -1 }, { 1, 0, 7 }, { 9, 8, -1 },
		{ 7, 0, 0 }, { 33, -1, -1 }, { 0, 0, 0 } };
	static const int SEQT[][3] = { { 31, 32, 33 }, { 255, 1, -1 },
		{ 256, 0, -1 } };
	for (int p = 0; p < 3; p++)
		for (int s = 0; s < 6; s++) {
			if (!T && p == 2 && s > 2)
				continue;
			for (int k = 1; k <= 2; k++) {
				if (!T && k == 2 && !(s == 1 || s == 3))
					continue;
				cutarg *a = &C[nc++];
				a->proto  = p;
				memcpy(a->sizes, SEQ[s], sizeof(a->sizes));
				a->ncuts = k;
				char name[64];
				snprintf(name, sizeof(name), "cut%d-%s-seq%d", k,
				    p == 0       ? "pair0"
				        : p == 1 ? "pair1"
				                 : "rep",
				    s);
				explore(strdup(name), run_cut, a, 0, 0);
			}
		}
	for (int p = 0; p < 3; p++) {
		int ns = T ? 3 : 1;
		for (int s = 0; s < ns; s++) {
			cutarg *a = &C[nc++];
			a->proto  = p;
			memcpy(a->sizes, SEQT[s], sizeof(a->sizes));
			a->ncuts = 99;
			char name[64];
			snprintf(name, sizeof(name), "bytewise-%d-seq%d", p, s);
			explore(strdup(name), run_cut, a, 0, 0);
			if (T) {
				cutarg *a1 = &C[nc++];
				*a1        = *a;
				a1->ncuts  = 1;
				snprintf(name, sizeof(name), "cut1-%d-big%d", p, s);
				explore(strdup(name), run_cut, a1, 0, 0);
			}
		}
	}
	// (b)(c) library-side clamps
	static xarg X[128];
	int         nx = 0;
	static const int XS[][3] = { { 0, 1, 9 }, { 33, 0, -1 }, { 300, 7, -1 } };
	for (int t = 0; t <= T_WS; t++)
		for (int raw = 0; raw < 2; raw++)
			for (int s = 0; s < 3; s++) {
				if (!T && ((t == T_TCP || t == T_WS) && (s != 0 || raw)))
					continue;
				if (!T && t == T_IPC && s == 2)
					continue;
				xarg *x = &X[nx++];
				x->tran = t;
				x->raw  = raw;
				memcpy(x->sizes, XS[s], sizeof(x->sizes));
				x->hdrwords = raw ? (s == 0 ? 0 : s == 1 ? 8 : 13) : 0;
				x->io       = (t != T_INPROC);
				x->wsfrag   = 0;
				char name[64];
				snprintf(name, sizeof(name), "xfer-%s-%s-seq%d", TN[t],
				    raw ? "xreq" : "pair0", s);
				explore(strdup(name), run_xfer, x, T ? 2 : 1, T ? 2 : 1);
			}
	// (d) ws fragment sizes
	{
		static const size_t FR[] = { 1, 2, 7, 125, 126, 127, 299, 300, 301,
			65536 };
		int nf = T ? 10 : 4;
		for (int f = 0; f < nf; f++) {
			xarg *x     = &X[nx++];
			x->tran     = T_WS;
			x->raw      = 0;
			x->sizes[0] = 300;
			x->sizes[1] = 0;
			x->sizes[2] = 126;
			x->io       = T ? 1 : 0;
			x->wsfrag   = FR[f];
			char name[64];
			snprintf(name, sizeof(name), "xfer-ws-frag%zu", FR[f]);
			explore(strdup(name), run_xfer, x, T ? 1 : 0, T ? 1 : 0);
		}
	}
	// (g) bursts towards a receiver that is not reading
	{
		static barg B[20];
		int         nbg = 0;
		static const char *PN[] = { "pair0", "pair1", "pushpull" };
		for (int t = 0; t <= T_WS; t++)
			for (int pr = 0; pr < 3; pr++) {
				barg *x  = &B[nbg++];
				x->tran  = t;
				x->proto = pr;
				char name[64];
				snprintf(name, sizeof(name), "burst-%s-%s", TN[t], PN[pr]);
				explore(strdup(name), run_burst, x, 0, 0);
			}
	}
	// (f) raw websocket client: handshake and frames in one cut stream
	explore("wsraw-len40", run_wsraw, (void *) 40, 0, 0);
	if (T) {
		explore("wsraw-len1", run_wsraw, (void *) 1, 0, 0);
		explore("wsraw-len300", run_wsraw, (void *) 300, 0, 0);
	}
	// (e) inproc pull-up
	explore("inproc-pullup-unique", run_pullup, (void *) 0, 0, 0);
	explore("inproc-pullup-shared", run_pullup, (void *) 1, 0, 0);
	explore("inproc-fanout-independent-pub", run_fanout, (void *) 0, 0, 0);
	explore("inproc-fanout-independent-bus", run_fanout, (void *) 1, 0, 0);
	vx_note("space",
	    "cutter: pair0/pair1/rep x 6 size sequences x every 1-cut%s, byte-at-a-"
	    "time; clamps: 5 transports x {pair0, xreq->xrep with 0/8/13 hop words} "
	    "x 3 size sequences, every send/recv call clamped to 1..9 and total-1 "
	    "bytes or EAGAIN, IO budget %d; ws fragment sizes; inproc header words "
	    "0..13 x 20 body sizes, unique and shared",
	    T ? " and 2-cut" : " (2-cut on two sequences)", T ? 2 : 1);
	return vx_finish();
}
