// C08 - PAIR (v0, v1 non-polyamorous): one peer at a time, ordered lossless
// exchange, PAIRv1 hop limit.
//
// (1) letter sequences on two real sockets A (listens, inproc) and B (dials)
//     with a third socket C of the same protocol that dials A at any point of
//     the history and keeps redialling.  Invariant oracle over the whole
//     history (the harness never predicts when NNG_EAGAIN appears):
//       C08:second-peer  A never has more than one attached (ADD_POST'ed)
//                        pipe; nothing sent by C reaches A, nothing sent by A
//                        or B reaches C
//       C08:order        per direction, tags arrive in send order
//       C08:duplicate    no tag arrives twice
//       C08:lost         after a final drain everything accepted (send
//                        returned 0) was received; the only tolerated loss is
//                        what a buffer SHRINK discards (C18: only as many as
//                        no longer fit)
//       C08:phantom      received messages are messages that were accepted
//       C08:ownership    a refused non-blocking send leaves the message intact
//                        with the caller;  C08:send-result / C08:recv-result
// (2) hop header from a raw PAIR1 peer, exact prediction (the harness owns the
//     wire): for every MAXTTL and every hop value of the boundary classes of
//     pair1_pipe_recv_cb, on a fresh connection each:
//       1 <= hop <= ttl        delivered         else C08:hop-dropped-valid
//       ttl < hop <= 0xff      dropped, connection still usable (a following
//                              well-formed message arrives)
//                                                  C08:hop-delivered /
//                                                  C08:hop-disconnect /
//                                                  C08:hop-dropped-valid
//       hop > 0xff, frame < 4  sender disconnected (EOF on the raw fd),
//                              nothing delivered  C08:hop-disconnect /
//                                                  C08:hop-delivered
//       hop == 0               the statement is silent: any of the three
//                              consistent behaviours is accepted
//     plus the hop count that nng puts on the wire (1 for a locally originated
//     message, received+1 when a raw-mode socket forwards)   C08:hop-wire
#define _GNU_SOURCE
#include "vpeer.h"
#include "vs.h"
#include "orderrace.h"
#include "sendrace.h"
#include <stdarg.h>
#include <stdlib.h>
#include <string.h>
#include <unistd.h>

// ---- ledger -------------------------------------------------------------------
#define MAXTAG 64
enum { D_AB, D_BA, D_C, D_N }; // direction = sender: A->B, B->A, C->(nobody)
static const char SND[] = { 'A', 'B', 'C' };
typedef struct rec {
	int accepted, got, maylose, pending;
	int sub, done; // logical clock at submission / at completion (0 = not yet)
} rec;
static rec  R[D_N][MAXTAG];
static int  ntag[D_N];
static int  lastrx[D_N]; // last tag received in this direction
static int  clk;         // logical clock of submissions and completions
static int  budget[D_N]; // what buffer shrinks may have discarded
static char hist[700];
#define BODY 9

static void
H(const char *fmt, ...) __attribute__((format(printf, 1, 2)));
static void
H(const char *fmt, ...)
{
	va_list ap;
	size_t  l = strlen(hist);
	va_start(ap, fmt);
	if (l + 1 < sizeof(hist))
		vsnprintf(hist + l, sizeof(hist) - l, fmt, ap);
	va_end(ap);
}

static nng_msg *
mk_msg(int dir, int tag)
{
	nng_msg *m;
	VH_OK(nng_msg_alloc(&m, BODY));
	uint8_t *b = nng_msg_body(m);
	b[0]       = (uint8_t) SND[dir];
	vp_put32(b + 1, (uint32_t) tag);
	vp_put32(b + 5, ~(uint32_t) tag);
	return m;
}

// ledger of pipes attached to A: ADD_POST attaches, REM_POST of an attached
// pipe detaches (a refused pipe gets ADD_PRE and REM_POST only)
static int      live_A, adds_A;
static uint32_t posted[16];
static void
pipe_cb(nng_pipe p, nng_pipe_ev ev, void *arg)
{
	(void) arg;
	uint32_t id = (uint32_t) nng_pipe_id(p);
	if (ev == NNG_PIPE_EV_ADD_POST) {
		if (live_A < 16)
			posted[live_A] = id;
		adds_A++;
		if (++live_A > 1)
			vs_fail("C08:second-peer", "[%s] socket A has %d attached pipes "
			    "at the same time (ADD_POST without REM_POST)", hist, live_A);
	} else if (ev == NNG_PIPE_EV_REM_POST) {
		for (int i = 0; i < live_A && i < 16; i++)
			if (posted[i] == id) {
				posted[i] = posted[--live_A];
				break;
			}
	}
}

static nng_socket SK[3]; // A, B, C
static int        c_open;

// non-blocking send from socket `who` (0 A, 1 B, 2 C)
static void
do_send(int who)
{
	int      dir = who;
	int      tag = ntag[dir]++;
	nng_msg *m   = mk_msg(dir, tag);
	int64_t  t0  = vs_now();
	R[dir][tag].sub  = ++clk;
	int      rv  = nng_sendmsg(SK[who], m, NNG_FLAG_NONBLOCK);
	R[dir][tag].done = ++clk;
	H(" send%c%d=%s", SND[who], tag,
	    rv == 0 ? "ok" : rv == NNG_EAGAIN ? "EAGAIN" : "?");
	if (vs_now() != t0)
		vs_fail("C08:send-result", "[%s] non-blocking send took virtual time",
		    hist);
	if (rv == 0) {
		R[dir][tag].accepted = 1;
	} else if (rv == NNG_EAGAIN) {
		uint8_t *b = nng_msg_body(m);
		if (nng_msg_len(m) != BODY || b[0] != SND[dir] ||
		    vp_get32(b + 1) != (uint32_t) tag)
			vs_fail("C08:ownership", "[%s] refused send returned a modified "
			    "message", hist);
		nng_msg_free(m); // ASan: double free if the library kept/freed it
	} else {
		vs_fail("C08:send-result", "[%s] non-blocking send on %c -> %s "
		    "(allowed: 0, NNG_EAGAIN)", hist, SND[who], nng_strerror(rv));
	}
	vs_settle();
}

// non-blocking receive on socket `who`; returns 1 if a message arrived
static int
do_recv(int who)
{
	nng_msg *m  = NULL;
	int64_t  t0 = vs_now();
	int      rv = nng_recvmsg(SK[who], &m, NNG_FLAG_NONBLOCK);
	if (vs_now() != t0)
		vs_fail("C08:recv-result", "[%s] non-blocking receive took virtual "
		    "time", hist);
	if (rv == NNG_EAGAIN) {
		H(" recv%c=-", SND[who]);
		vs_settle();
		return 0;
	}
	if (rv != 0)
		vs_fail("C08:recv-result", "[%s] non-blocking receive on %c -> %s",
		    hist, SND[who], nng_strerror(rv));
	uint8_t *b = nng_msg_body(m);
	if (nng_msg_len(m) != BODY || vp_get32(b + 1) != ~vp_get32(b + 5) ||
	    (b[0] != 'A' && b[0] != 'B' && b[0] != 'C'))
		vs_fail("C08:phantom", "[%s] %c received a message that was never "
		    "sent: %s", hist, SND[who],
		    vh_hex(b, nng_msg_len(m) > 16 ? 16 : nng_msg_len(m)));
	int from = b[0] - 'A';
	int tag  = (int) vp_get32(b + 1);
	nng_msg_free(m);
	H(" recv%c=%c%d", SND[who], SND[from], tag);
	// who may talk to whom: only A<->B
	if (who == 2 || from == 2)
		vs_fail("C08:second-peer", "[%s] a message from %c was delivered to "
		    "%c although A was paired with B the whole time", hist, SND[from],
		    SND[who]);
	if (from == who || tag >= ntag[from])
		vs_fail("C08:phantom", "[%s] %c received %c%d which was never sent to "
		    "it", hist, SND[who], SND[from], tag);
	rec *r = &R[from][tag];
	if (!r->accepted && !r->pending)
		vs_fail("C08:phantom", "[%s] %c received %c%d whose send had been "
		    "refused", hist, SND[who], SND[from], tag);
	if (r->got)
		vs_fail("C08:duplicate", "[%s] %c received %c%d twice", hist,
		    SND[who], SND[from], tag);
	// send order = real-time order of the calls: X precedes Y if X's send had
	// completed before Y's was submitted (a send that is still WAITING overlaps
	// everything issued meanwhile; without waiting sends this is tag order)
	for (int y = 0; y < ntag[from]; y++)
		if (R[from][y].got && r->done != 0 && R[from][y].sub > r->done)
			vs_fail("C08:order", "[%s] %c received %c%d after %c%d although the send of "
			    "%c%d had completed before %c%d was submitted", hist, SND[who], SND[from],
			    tag, SND[from], y, SND[from], tag, SND[from], y);
	r->got       = 1;
	lastrx[from] = tag;
	vs_settle();
	return 1;
}

// asynchronous send that may wait on back-pressure (a BLOCKED sender): the tag
// is fixed at submission, so the order clause covers "a sender that had to
// wait does not overtake or fall behind what is queued"
#define MAXAS 5
typedef struct asend {
	nng_aio *aio;
	int      dir, tag, busy, ncb;
} asend;
static asend AS[2][MAXAS];
static int   nas[2];
static void
as_cb(void *arg)
{
	asend *s  = arg;
	int    rv = nng_aio_result(s->aio);
	if (++s->ncb != 1)
		vs_fail("C08:send-result", "[%s] second completion of one aio send", hist);
	rec *r = &R[s->dir][s->tag];
	r->done = ++clk;
	if (rv == 0) {
		r->accepted = 1;
	} else {
		vs_fail("C08:send-result", "[%s] waiting aio send %c%d failed: %s (no "
		    "timeout, connection up, nobody cancelled)", hist, SND[s->dir], s->tag,
		    nng_strerror(rv));
	}
	r->pending = 0;
	s->busy    = 0;
}

static void
do_asend(int who)
{
	if (nas[who] >= MAXAS) {
		do_send(who);
		return;
	}
	asend *s = &AS[who][nas[who]++];
	s->dir   = who;
	s->tag   = ntag[who]++;
	s->busy  = 1;
	s->ncb   = 0;
	VH_OK(nng_aio_alloc(&s->aio, as_cb, s));
	nng_aio_set_timeout(s->aio, NNG_DURATION_INFINITE);
	nng_aio_set_msg(s->aio, mk_msg(who, s->tag));
	R[who][s->tag].pending = 1;
	R[who][s->tag].sub     = ++clk;
	nng_socket_send(SK[who], s->aio);
	vs_settle();
	H(" asend%c%d=%s", SND[who], s->tag, s->busy ? "waits" : "ok");
}

static int
outstanding(int dir)
{
	int n = 0;
	for (int t = 0; t < ntag[dir]; t++)
		if (R[dir][t].accepted && !R[dir][t].got)
			n++;
	return n;
}

// resize of a buffer of socket A that sits on the path of direction `dir`
static void
do_resize(const char *opt, const char *nm, int dir, int *cur, int n)
{
	if (n < *cur) {
		int out = outstanding(dir);
		int inq = out < *cur ? out : *cur;
		if (inq > n) {
			budget[dir] += inq - n;
			for (int t = 0; t < ntag[dir]; t++)
				if (R[dir][t].accepted && !R[dir][t].got)
					R[dir][t].maylose = 1;
		}
	}
	H(" %s%d", nm, n);
	int rv = nng_socket_set_int(SK[0], opt, n);
	if (rv != 0)
		vs_fail("C08:resize", "[%s] %s=%d on A -> %s", hist, opt, n,
		    nng_strerror(rv));
	*cur = n;
	vs_settle();
}

typedef struct seqarg {
	int        proto;  // 0 pair0, 1 pair1
	int        cycle;  // order in which resizes walk through {0,1,2}
	int        cblock; // C dials blocking (1) or NNG_FLAG_NONBLOCK (0)
	int        depth;
	int        nletters;
	const int *prefix;
	int        nprefix;
} seqarg;

enum { L_SENDA, L_SENDB, L_RECVA, L_RECVB, L_THIRD, L_SBUF, L_RBUF, L_N, L_ASENDA = L_N, L_ASENDB,
	L_NA };

static int
sopen(int proto, nng_socket *s)
{
	return proto ? nng_pair1_open(s) : nng_pair0_open(s);
}

static void
do_third(seqarg *a)
{
	if (!c_open) {
		// C appears and dials the listener of A, which is paired with B
		VH_OK(sopen(a->proto, &SK[2]));
		VH_OK(nng_socket_set_ms(SK[2], NNG_OPT_RECONNMINT, 10));
		VH_OK(nng_socket_set_ms(SK[2], NNG_OPT_RECONNMAXT, 10));
		// C buffers what it sends: ready to leak into A the moment a pipe
		// of C were attached there
		VH_OK(nng_socket_set_int(SK[2], NNG_OPT_SENDBUF, 2));
		int rv = nng_dial(SK[2], "inproc://c08", NULL,
		    a->cblock ? 0 : NNG_FLAG_NONBLOCK);
		H(" third(dial=%d)", rv);
		c_open = 1;
		vs_settle();
	} else {
		// let C's redial timer fire, then C talks and listens
		H(" third");
		vs_sleep(15);
		vs_settle();
	}
	do_send(2);
	do_recv(2);
	if (live_A != 1)
		vs_fail("C08:second-peer", "[%s] A has %d attached pipes after a "
		    "third socket dialled (B must stay its only peer)", hist, live_A);
}

static void
run_seq(void *argp)
{
	seqarg *a = argp;
	vh_init(0);
	memset(R, 0, sizeof(R));
	memset(ntag, 0, sizeof(ntag));
	memset(budget, 0, sizeof(budget));
	for (int d = 0; d < D_N; d++)
		lastrx[d] = -1;
	hist[0] = 0;
	live_A = adds_A = c_open = clk = 0;
	memset(AS, 0, sizeof(AS));
	nas[0] = nas[1] = 0;
	H("pair%d:", a->proto);
	VH_OK(sopen(a->proto, &SK[0]));
	VH_OK(sopen(a->proto, &SK[1]));
	VH_OK(nng_pipe_notify(SK[0], NNG_PIPE_EV_ADD_POST, pipe_cb, NULL));
	VH_OK(nng_pipe_notify(SK[0], NNG_PIPE_EV_REM_POST, pipe_cb, NULL));
	int sb = a->cycle == 2 ? 4 : 1, rb = sb;
	VH_OK(nng_socket_set_int(SK[0], NNG_OPT_SENDBUF, sb));
	VH_OK(nng_socket_set_int(SK[0], NNG_OPT_RECVBUF, rb));
	VH_OK(nng_listen(SK[0], "inproc://c08", NULL, 0));
	VH_OK(nng_dial(SK[1], "inproc://c08", NULL, 0));
	vs_settle();
	if (live_A != 1)
		vs_fail("harness:setup", "B did not attach to A (live=%d)", live_A);
	// cycles c0: 1-2-0, c1: 1-0-2, c2 (power-of-two depths, start 4): 4-2-4
	static const int NEXT[3][5] = { { 1, 2, 0, 0, 0 }, { 2, 0, 1, 0, 0 },
		{ 4, 4, 4, 4, 2 } };
	int total = a->nprefix + a->depth;
	for (int step = 0; step < total; step++) {
		int l = step < a->nprefix ? a->prefix[step]
		                          : vs_choose(VK_ENV, a->nletters);
		switch (l) {
		case L_SENDA:
			do_send(0);
			break;
		case L_SENDB:
			do_send(1);
			break;
		case L_RECVA:
			do_recv(0);
			break;
		case L_RECVB:
			do_recv(1);
			break;
		case L_THIRD:
			do_third(a);
			break;
		case L_SBUF:
			do_resize(NNG_OPT_SENDBUF, "sbuf", D_AB, &sb, NEXT[a->cycle][sb]);
			break;
		case L_RBUF:
			do_resize(NNG_OPT_RECVBUF, "rbuf", D_BA, &rb, NEXT[a->cycle][rb]);
			break;
		case L_ASENDA:
			do_asend(0);
			break;
		case L_ASENDB:
			do_asend(1);
			break;
		}
		if (live_A != 1)
			vs_fail("C08:second-peer", "[%s] A has %d attached pipes", hist,
			    live_A);
	}
	// epilogue: drain, one more message in each direction (the A<->B
	// connection must still be the working one), drain again
	H(" | drain");
	for (int round = 0; round < 2; round++) {
		int idle = 0;
		while (idle < 2) {
			int n = 0;
			vs_settle();
			while (do_recv(0))
				n++;
			while (do_recv(1))
				n++;
			if (c_open)
				do_recv(2);
			idle = n ? 0 : idle + 1;
		}
		if (round == 0) {
			do_send(0);
			do_send(1);
		}
	}
	for (int d = 0; d < 2; d++)
		for (int i = 0; i < nas[d]; i++) {
			if (AS[d][i].busy)
				vs_fail("C08:send-result", "[%s] aio send %c%d still waits after "
				    "the peer drained everything (send blocks only while the "
				    "peer is not reading)", hist, SND[d], AS[d][i].tag);
			nng_aio_free(AS[d][i].aio);
		}
	int lost_total = 0;
	for (int d = 0; d < 2; d++) {
		int lost = 0;
		for (int t = 0; t < ntag[d]; t++) {
			rec *r = &R[d][t];
			if (!r->accepted || r->got)
				continue;
			if (!r->maylose)
				vs_fail("C08:lost", "[%s] %c%d was accepted (send returned "
				    "0) and never arrived although the connection stayed up",
				    hist, SND[d], t);
			lost++;
		}
		if (lost > budget[d])
			vs_fail("C08:lost", "[%s] %d messages from %c missing, buffer "
			    "shrinks account for at most %d", hist, lost, SND[d],
			    budget[d]);
		lost_total += lost;
	}
	if (adds_A != 1)
		vs_fail("C08:second-peer", "[%s] A saw %d ADD_POST events, only B may "
		    "ever attach", hist, adds_A);
	int acc = 0, rej = 0, cacc = 0;
	for (int d = 0; d < 2; d++)
		for (int t = 0; t < ntag[d]; t++)
			R[d][t].accepted ? acc++ : rej++;
	for (int t = 0; t < ntag[D_C]; t++)
		cacc += R[D_C][t].accepted;
	vs_log("%s", hist);
	vs_outcome("acc=%d rej=%d lost=%d c=%d/%d", acc, rej, lost_total, cacc,
	    ntag[D_C]);
	if (c_open)
		nng_socket_close(SK[2]);
	nng_socket_close(SK[1]);
	nng_socket_close(SK[0]);
	vh_fini();
}

// ---- (2) hop header -------------------------------------------------------------
#define MAXHOP 1400
static uint32_t HOPV[MAXHOP]; // value; 0xF000000n with kind 1 = short frame n
static uint8_t  HOPK[MAXHOP]; // 0 hop value, 1 short frame of length HOPV
static int      nhop;
static int      TTLS[16], nttl;
#define BATCH 64

static void
add_hop(uint32_t v)
{
	for (int i = 0; i < nhop; i++)
		if (HOPK[i] == 0 && HOPV[i] == v)
			return;
	if (nhop < MAXHOP) {
		HOPK[nhop]   = 0;
		HOPV[nhop++] = v;
	}
}

static void
mk_hops(int full)
{
	for (uint32_t v = 0; v <= 20; v++)
		add_hop(v);
	for (int k = 0; k < 32; k++) {
		uint32_t p = (uint32_t) 1 << k;
		add_hop(p);
		add_hop(p + 1);
		add_hop(p - 1);
	}
	static const uint32_t X[] = { 0xfe, 0xff, 0x100, 0x101, 0x1ff, 0x200,
		0xffffffffu, 0xfffffffeu, 0xffffff00u, 0xffffff01u, 0xffffff0fu,
		0x80000000u, 0x80000001u, 0x8000000fu, 0x7fffffffu, 0x01000001u,
		0x00010001u, 0x0000010fu, 0x01010101u, 0xff000000u, 0xff000001u };
	for (size_t i = 0; i < sizeof(X) / sizeof(X[0]); i++)
		add_hop(X[i]);
	if (full) {
		for (uint32_t v = 0; v <= 0x1ff; v++)
			add_hop(v);
		for (uint32_t v = 0xffffff00u; v != 0; v++)
			add_hop(v);
		// small hop in the low byte, garbage above it
		for (uint32_t v = 0; v <= 16; v++) {
			add_hop(0x100 + v);
			add_hop(0x10000 + v);
			add_hop(0x1000000 + v);
			add_hop(0x80000000u + v);
		}
	}
	for (uint32_t n = 0; n < 4; n++) { // frames shorter than the header
		HOPK[nhop]   = 1;
		HOPV[nhop++] = n;
	}
}

static nng_msg *
recv_nb(nng_socket s, int *rvp)
{
	nng_msg *m = NULL;
	*rvp       = nng_recvmsg(s, &m, NNG_FLAG_NONBLOCK);
	return *rvp == 0 ? m : NULL;
}

static int
body_is(nng_msg *m, const uint8_t *b, size_t n)
{
	return m != NULL && nng_msg_len(m) == n && memcmp(nng_msg_body(m), b, n) == 0;
}

// read one frame from the raw fd (after settle); 1 ok, 0 none, -1 eof
static int
raw_frame(int fd, vp_rd *rd, const uint8_t **p, size_t *len)
{
	for (int tries = 0; tries < 4; tries++) {
		int r = vp_next_frame(fd, rd, p, len);
		if (r != 0)
			return r;
		vs_settle();
	}
	return 0;
}

typedef struct hoparg {
	int rawmode; // socket under test opened with nng_pair1_open_raw
} hoparg;

static void
run_hop(void *argp)
{
	hoparg *ha = argp;
	vh_init(0);
	int nb    = (nhop + BATCH - 1) / BATCH;
	int ti    = vs_choose(VK_ENV, nttl);
	int bi    = vs_choose(VK_ENV, nb);
	int ttl   = TTLS[ti];
	nng_socket s;
	VH_OK(ha->rawmode ? nng_pair1_open_raw(&s) : nng_pair1_open(&s));
	VH_OK(nng_socket_set_int(s, NNG_OPT_MAXTTL, ttl));
	VH_OK(nng_socket_set_int(s, NNG_OPT_RECVBUF, 2));
	nng_listener l;
	int          fd = vp_connect_raw(s, SP_PAIR1, &l);
	if (fd < 0)
		vs_fail("harness:setup", "raw PAIR1 peer could not connect");
	vp_rd *rd = calloc(1, sizeof(*rd));
	int    n_del = 0, n_drop = 0, n_disc = 0, n_zero = 0;
	{
		// a second raw connection while the first is alive is refused and
		// carries nothing
		int fd2 = vp_attach_more(l);
		if (fd2 < 0)
			vs_fail("harness:setup", "attach_more failed");
		vs_settle();
		int     hs = vp_handshake(fd2, SP_PAIR1);
		uint8_t h1[4], x[5] = "XXXXX";
		vp_put32(h1, 1);
		(void) vp_send(fd2, h1, 4, x, 5);
		vs_settle();
		int      rv;
		nng_msg *m = recv_nb(s, &rv);
		if (m != NULL)
			vs_fail("C08:second-peer", "a message from a second connection "
			    "was delivered while the first peer was attached");
		if (hs >= 0 && !vp_is_eof(fd2))
			vs_fail("C08:second-peer", "a second connection was not refused "
			    "(still open) while the first peer was attached");
		if (vp_is_eof(fd))
			vs_fail("C08:second-peer", "the first peer was disconnected when "
			    "a second one connected");
		close(fd2);
		vs_settle();
	}
	int    first = bi * BATCH, last = first + BATCH;
	if (last > nhop)
		last = nhop;
	for (int i = first; i < last; i++) {
		char    what[64];
		uint8_t body[8], mark[8], hdr[4];
		int     rv;
		memcpy(body, "H", 1);
		vp_put32(body + 1, (uint32_t) i);
		memcpy(mark, "M", 1);
		vp_put32(mark + 1, (uint32_t) i);
		// nothing may be pending from the previous case
		nng_msg *m = recv_nb(s, &rv);
		if (m != NULL)
			vs_fail("C08:hop-delivered", "ttl %d: an extra message appeared "
			    "before case %d", ttl, i);
		int cls; // 0 deliver, 1 drop, 2 disconnect, 3 unspecified (hop 0)
		if (HOPK[i] == 1) {
			snprintf(what, sizeof(what), "%u-byte frame (no hop header)",
			    HOPV[i]);
			static const uint8_t junk[4] = { 0, 0, 0, 1 };
			if (vp_send(fd, NULL, 0, junk, HOPV[i]) != 0)
				vs_fail("harness:peer", "raw write failed");
			cls = 2;
		} else {
			uint32_t h = HOPV[i];
			snprintf(what, sizeof(what), "hop 0x%x", h);
			vp_put32(hdr, h);
			if (vp_send(fd, hdr, 4, body, 5) != 0)
				vs_fail("harness:peer", "raw write failed");
			cls = h > 0xff ? 2 : h == 0 ? 3 : h <= (uint32_t) ttl ? 0 : 1;
		}
		vs_settle();
		m         = recv_nb(s, &rv);
		int eof   = vp_is_eof(fd);
		int deliv = m != NULL;
		if (m != NULL && !body_is(m, body, 5))
			vs_fail("C08:hop-delivered", "ttl %d, %s: a different message "
			    "was delivered (%s)", ttl, what,
			    vh_hex(nng_msg_body(m), nng_msg_len(m)));
		if (rv != 0 && rv != NNG_EAGAIN)
			vs_fail("C08:recv-result", "nng_recvmsg -> %s", nng_strerror(rv));
		if (cls == 3) {
			n_zero++;
			if (deliv && eof)
				cls = 2; // will fail below as delivered-and-disconnected
			else
				cls = deliv ? 0 : eof ? 2 : 1;
		}
		switch (cls) {
		case 0:
			if (!deliv)
				vs_fail("C08:hop-dropped-valid", "MAXTTL %d: message with "
				    "%s (count does not exceed MAXTTL) was not delivered%s",
				    ttl, what, eof ? " and the sender was disconnected" : "");
			if (eof)
				vs_fail("C08:hop-disconnect", "MAXTTL %d: sender of a valid "
				    "message (%s) was disconnected", ttl, what);
			n_del++;
			// forwarding through a raw-mode socket adds one
			if (ha->rawmode && HOPV[i] < 0xfe) {
				int srv = nng_sendmsg(s, m, NNG_FLAG_NONBLOCK);
				if (srv != 0) {
					nng_msg_free(m);
					vs_fail("C08:hop-wire", "raw-mode forward of a message "
					    "with %s failed: %s", what, nng_strerror(srv));
				}
				m = NULL;
				vs_settle();
				const uint8_t *p;
				size_t         len;
				if (raw_frame(fd, rd, &p, &len) != 1 || len != 9 ||
				    vp_get32(p) != HOPV[i] + 1 || memcmp(p + 4, body, 5) != 0)
					vs_fail("C08:hop-wire", "MAXTTL %d: message received "
					    "with %s and forwarded by a raw-mode socket must "
					    "carry hop 0x%x on the wire", ttl, what, HOPV[i] + 1);
			}
			break;
		case 1:
			if (deliv)
				vs_fail("C08:hop-delivered", "MAXTTL %d: message with %s "
				    "exceeds MAXTTL and was delivered", ttl, what);
			if (eof)
				vs_fail("C08:hop-disconnect", "MAXTTL %d: %s exceeds MAXTTL; "
				    "the message must be discarded WITHOUT disconnecting, "
				    "the raw peer saw EOF", ttl, what);
			n_drop++;
			break;
		case 2:
			if (deliv)
				vs_fail("C08:hop-delivered", "MAXTTL %d: malformed message "
				    "(%s) was delivered", ttl, what);
			if (!eof)
				vs_fail("C08:hop-disconnect", "MAXTTL %d: malformed message "
				    "(%s) did not disconnect its sender", ttl, what);
			n_disc++;
			break;
		}
		if (m)
			nng_msg_free(m);
		// a following well-formed message (hop 1): arrives iff still connected
		vp_put32(hdr, 1);
		(void) vp_send(fd, hdr, 4, mark, 5); // EPIPE after a disconnect
		vs_settle();
		m = recv_nb(s, &rv);
		if (cls == 2) {
			if (m != NULL)
				vs_fail("C08:hop-delivered", "MAXTTL %d: after the malformed "
				    "%s a message from the disconnected sender was delivered",
				    ttl, what);
		} else {
			if (!body_is(m, mark, 5))
				vs_fail("C08:hop-dropped-valid", "MAXTTL %d: after %s the "
				    "connection is no longer usable: the following message "
				    "(hop 1) %s", ttl, what,
				    m ? "arrived altered" : "did not arrive");
			if (vp_is_eof(fd))
				vs_fail("C08:hop-disconnect", "MAXTTL %d: disconnected after "
				    "a valid message following %s", ttl, what);
		}
		if (m)
			nng_msg_free(m);
		// what nng itself puts on the wire for a locally originated message
		if (!ha->rawmode && cls != 2 && (i % 8) == 0) {
			nng_msg *w;
			VH_OK(nng_msg_alloc(&w, 0));
			VH_OK(nng_msg_append(w, "W", 1));
			int srv = nng_sendmsg(s, w, NNG_FLAG_NONBLOCK);
			if (srv != 0) {
				nng_msg_free(w);
				vs_fail("C08:send-result", "send to an idle raw peer -> %s",
				    nng_strerror(srv));
			}
			vs_settle();
			const uint8_t *p;
			size_t         len;
			if (raw_frame(fd, rd, &p, &len) != 1 || len != 5 ||
			    vp_get32(p) != 1 || p[4] != 'W')
				vs_fail("C08:hop-wire", "a locally originated PAIR1 message "
				    "must go out with hop count 1 (4-byte header + body)");
		}
		// fresh connection for the next case
		close(fd);
		vs_settle();
		rd->len = 0;
		rd->eof = 0;
		fd      = -1;
		for (int tries = 0; tries < 3 && fd < 0; tries++) {
			int nfd = vp_attach_more(l);
			if (nfd < 0)
				vs_fail("harness:setup", "attach_more failed");
			vs_settle();
			if (vp_handshake(nfd, SP_PAIR1) == SP_PAIR1 && !vp_is_eof(nfd)) {
				fd = nfd;
			} else {
				close(nfd); // old pipe not reaped yet: let time pass
				vs_sleep(2);
				vs_settle();
			}
		}
		if (fd < 0)
			vs_fail("harness:setup", "could not reconnect the raw peer after "
			    "case %d (%s)", i, what);
	}
	vs_log("ttl=%d cases %d..%d: delivered=%d dropped=%d disconnected=%d "
	       "(hop0: %d)", ttl, first, last - 1, n_del, n_drop, n_disc, n_zero);
	vs_outcome("del=%d drop=%d disc=%d", n_del > 0, n_drop > 0, n_disc > 0);
	close(fd);
	free(rd);
	nng_socket_close(s);
	vh_fini();
}

// ---- driver ------------------------------------------------------------------
static double g_rate = 500, g_cap, g_t0left;
static char   g_depths[500];
static int    g_replay; // --replay: offer every candidate scenario name

static double
powd(double b, int e)
{
	double r = 1;
	while (e-- > 0)
		r *= b;
	return r;
}

static double
used(void)
{
	return g_t0left - vx_time_left();
}

static void
explore_seq(const char *name, seqarg *a, int dmax, int dmin, double share)
{
	int d = dmax;
	while (d > dmin && powd(a->nletters, d) / g_rate * 1.25 > share * g_cap)
		d--;
	char nm[64];
	vx_cfg c;
	memset(&c, 0, sizeof(c));
	c.prop     = "C08";
	c.scenario = nm;
	c.run      = run_seq;
	c.arg      = a;
	c.budget[VB_ENV] = -1;
	c.total          = 0;
	if (g_replay) { // the replay file names the depth
		for (d = dmin; d <= dmax; d++) {
			a->depth = d;
			snprintf(nm, sizeof(nm), "pair%d-%s-d%d", a->proto, name, d);
			vx_explore(&c, NULL);
		}
		return;
	}
	a->depth = d;
	snprintf(nm, sizeof(nm), "pair%d-%s-d%d", a->proto, name, d);
	snprintf(g_depths + strlen(g_depths), sizeof(g_depths) - strlen(g_depths),
	    "%s%s", g_depths[0] ? " " : "", nm);
	vx_stats st;
	memset(&st, 0, sizeof(st));
	vx_explore(&c, &st);
	if (st.executions >= 300 && st.wall_s > 0.2)
		g_rate = (double) st.executions / st.wall_s;
}

static void
explore_hop(const char *name, hoparg *a)
{
	vx_cfg c;
	memset(&c, 0, sizeof(c));
	c.prop     = "C08";
	c.scenario = name;
	c.run      = run_hop;
	c.arg      = a;
	c.budget[VB_ENV] = -1;
	c.total          = 0;
	c.watchdog_s     = 60;
	vx_explore(&c, NULL);
}

// ---- two peers arrive at the same moment through different endpoints ---------------------------------
// A (PAIR v0 / v1) has two listeners, or a listener and a dialer of its own; two other sockets
// connect through them from two threads at once.  Every schedule within the budget: at no point of
// the event log may A have two pipes that both reached ADD_POST and are both alive; afterwards at
// most one of the two peers still has its connection, a message sent by that one arrives, and a
// message accepted from the other one is never delivered.
static int        tc_live, tc_maxlive;
static nng_socket tc_b[2];
static const char *tc_url[2];
static uint32_t tc_posted[3][16]; // pipe ids past ADD_POST and not yet removed, per socket
static int
tc_track(int k, nng_pipe p, nng_pipe_ev ev)
{
	// REM_POST also comes for a pipe that was refused before ADD_POST: count per pipe id
	int n = 0;
	for (int i = 0; i < 16; i++) {
		if (ev == NNG_PIPE_EV_REM_POST && tc_posted[k][i] == p.id)
			tc_posted[k][i] = 0;
		else if (ev == NNG_PIPE_EV_ADD_POST && tc_posted[k][i] == 0) {
			tc_posted[k][i] = p.id;
			ev              = NNG_PIPE_EV_NUM; // stored once
		}
		n += tc_posted[k][i] != 0;
	}
	return n;
}
static void
tc_notify(nng_pipe p, nng_pipe_ev ev, void *arg)
{
	(void) arg;
	tc_live = tc_track(2, p, ev);
	if (tc_live > tc_maxlive)
		tc_maxlive = tc_live;
}
static int tc_blive[2];
static void
tc_bnotify(nng_pipe p, nng_pipe_ev ev, void *arg)
{
	int i       = (int) (intptr_t) arg;
	tc_blive[i] = tc_track(i, p, ev);
}
static void *
tc_dial(void *arg)
{
	int i = (int) (intptr_t) arg;
	(void) nng_dial(tc_b[i], tc_url[i], NULL, 0);
	return NULL;
}
static void *
tc_listen(void *arg)
{
	// the peer listens, A's own dialer (already created, not started) connects to it
	nng_dialer *d = arg;
	(void) nng_dialer_start(*d, 0);
	return NULL;
}
static void
run_twoconn(void *argp)
{
	int proto = (int) (intptr_t) argp & 1, mixed = ((int) (intptr_t) argp >> 1) & 1;
	int (*op)(nng_socket *) = proto ? nng_pair1_open : nng_pair0_open;
	nng_socket a;
	nng_dialer ad;
	vh_init(0);
	tc_live = tc_maxlive = 0;
	tc_blive[0] = tc_blive[1] = 0;
	memset(tc_posted, 0, sizeof(tc_posted));
	VH_OK(op(&a));
	VH_OK(nng_pipe_notify(a, NNG_PIPE_EV_ADD_POST, tc_notify, NULL));
	VH_OK(nng_pipe_notify(a, NNG_PIPE_EV_REM_POST, tc_notify, NULL));
	VH_OK(nng_socket_set_ms(a, NNG_OPT_RECVTIMEO, 20));
	tc_url[0] = "inproc://c08tc0";
	tc_url[1] = "inproc://c08tc1";
	VH_OK(nng_listen(a, tc_url[0], NULL, 0));
	for (int i = 0; i < 2; i++) {
		VH_OK(op(&tc_b[i]));
		VH_OK(nng_pipe_notify(tc_b[i], NNG_PIPE_EV_ADD_POST, tc_bnotify, (void *) (intptr_t) i));
		VH_OK(nng_pipe_notify(tc_b[i], NNG_PIPE_EV_REM_POST, tc_bnotify, (void *) (intptr_t) i));
		VH_OK(nng_socket_set_ms(tc_b[i], NNG_OPT_RECONNMINT, 500));
		VH_OK(nng_socket_set_ms(tc_b[i], NNG_OPT_RECONNMAXT, 500));
		VH_OK(nng_socket_set_ms(tc_b[i], NNG_OPT_SENDTIMEO, 20));
	}
	if (mixed) {
		VH_OK(nng_listen(tc_b[1], tc_url[1], NULL, 0));
		VH_OK(nng_socket_set_ms(a, NNG_OPT_RECONNMINT, 500));
		VH_OK(nng_socket_set_ms(a, NNG_OPT_RECONNMAXT, 500));
		VH_OK(nng_dialer_create(&ad, a, tc_url[1]));
	} else
		VH_OK(nng_listen(a, tc_url[1], NULL, 0));
	vs_settle();
	pthread_t t0, t1;
	vs_window(1);
	pthread_create(&t0, NULL, tc_dial, (void *) 0);
	if (mixed)
		pthread_create(&t1, NULL, tc_listen, &ad);
	else
		pthread_create(&t1, NULL, tc_dial, (void *) 1);
	pthread_join(t0, NULL);
	pthread_join(t1, NULL);
	vs_settle();
	vs_window(0);
	vs_sleep(30);
	vs_settle();
	if (tc_maxlive > 1 || tc_live > 1)
		vs_fail("C08:second-peer",
		    "%s with %s: two peers connected at the same moment and %d pipes of the "
		    "socket were past ADD_POST at the same time (now %d)",
		    proto ? "pair1" : "pair0", mixed ? "a listener and a dialer" : "two listeners",
		    tc_maxlive, tc_live);
	if (tc_blive[0] > 0 && tc_blive[1] > 0)
		vs_fail("C08:second-peer",
		    "%s: both peers still hold a connection 30 ms after connecting at the same "
		    "moment",
		    proto ? "pair1" : "pair0");
	// what the surviving peer sends arrives; what the other one gets accepted must not
	int sent[2], got[2] = { 0, 0 };
	for (int i = 0; i < 2; i++) {
		char t[3] = { 'b', (char) ('0' + i), 0 };
		sent[i]   = nng_send(tc_b[i], t, 3, 0) == 0;
	}
	vs_settle();
	for (int k = 0; k < 3; k++) {
		char   buf[8];
		size_t n = sizeof(buf);
		if (nng_recv(a, buf, &n, 0) != 0)
			break;
		if (n == 3 && buf[0] == 'b' && (buf[1] == '0' || buf[1] == '1'))
			got[buf[1] - '0']++;
	}
	if (got[0] + got[1] > 1 || got[0] > 1 || got[1] > 1)
		vs_fail("C08:second-peer", "messages of both peers were delivered (%d, %d)", got[0],
		    got[1]);
	for (int i = 0; i < 2; i++)
		if (tc_blive[i] > 0 && sent[i] && !got[i])
			vs_fail("C08:lost",
			    "%s: peer %d holds the connection, its message was accepted and never "
			    "delivered",
			    proto ? "pair1" : "pair0", i);
	vs_outcome("live=%d/%d,%d got=%d,%d", tc_live, tc_blive[0], tc_blive[1], got[0], got[1]);
	nng_socket_close(tc_b[0]);
	nng_socket_close(tc_b[1]);
	nng_socket_close(a);
	vh_fini();
}

// ---- reconnect with a backlog: the first peer goes away while A holds unread messages, then a new peer ----
// A (listener) has receive buffer 0/1/2 and k unread messages from B (some in the buffer, one waiting on
// the connection).  The connection ends in one of four ways, A drains before or after the new peer C has
// connected, then C and A exchange three numbered messages each way.  What B sent comes out in order and at
// most once (what was still on the way may be lost with the connection); the exchange with C is complete
// and in order, and nothing of B's arrives after C's first message.
static void
run_reconnect(void *arg)
{
	int proto = (int) (intptr_t) arg;
	vh_init(0);
	int rbuf   = vs_choose(VK_ENV, 3);
	int k      = vs_choose(VK_ENV, 5);      // 0..4 unread messages
	int how    = vs_choose(VK_ENV, 4);      // 0 B closes, 1 A closes the pipe, 2 B closes its dialer, 3 B closes + A sends
	int drain1 = vs_choose(VK_ENV, 2);      // A drains before C connects
	int (*op)(nng_socket *) = proto ? nng_pair1_open : nng_pair0_open;
	nng_socket a, b, c;
	nng_dialer bd;
	VH_OK(op(&a));
	VH_OK(op(&b));
	VH_OK(op(&c));
	VH_OK(nng_socket_set_int(a, NNG_OPT_RECVBUF, rbuf));
	VH_OK(nng_socket_set_int(c, NNG_OPT_RECVBUF, 4)); // (A's three messages and a stale one fit)
	vs_log("rbuf=%d unread=%d way=%d drain-first=%d", rbuf, k, how, drain1);
	VH_OK(nng_socket_set_ms(a, NNG_OPT_RECVTIMEO, 20));
	VH_OK(nng_socket_set_ms(c, NNG_OPT_RECVTIMEO, 20));
	VH_OK(nng_socket_set_ms(a, NNG_OPT_SENDTIMEO, 20));
	VH_OK(nng_socket_set_ms(c, NNG_OPT_SENDTIMEO, 20));
	VH_OK(nng_listen(a, "inproc://c08rc", NULL, 0));
	VH_OK(nng_dial(b, "inproc://c08rc", &bd, 0));
	vs_settle();
	int sentb = 0;
	for (int i = 0; i < k; i++) {
		nng_msg *m;
		VH_OK(nng_msg_alloc(&m, 0));
		VH_OK(nng_msg_append_u32(m, 0xb0000000u + (uint32_t) i));
		if (nng_sendmsg(b, m, NNG_FLAG_NONBLOCK) != 0) {
			nng_msg_free(m);
			break;
		}
		sentb++;
		vs_settle();
	}
	// the pipe A sees (for how == 1) - learnt from a message would consume one; use the notify-free way:
	// close by id is not available without a message, so "A closes the pipe" takes the first message
	// (if any) non-destructively via its pipe handle and puts nothing back: it counts as received
	int      gotb = 0;
	uint32_t v;
	nng_msg *m;
	switch (how) {
	case 0:
	case 3:
		nng_socket_close(b);
		break;
	case 1:
		if (sentb > 0 && nng_recvmsg(a, &m, NNG_FLAG_NONBLOCK) == 0) {
			nng_pipe p = nng_msg_get_pipe(m);
			if (nng_msg_len(m) != 4 || nng_msg_trim_u32(m, &v) != 0 || v != 0xb0000000u)
				vs_fail("C08:order", "first message of B is %08x", v);
			gotb = 1;
			nng_msg_free(m);
			nng_pipe_close(p);
		} else
			nng_socket_close(b);
		break;
	default:
		nng_dialer_close(bd);
		break;
	}
	vs_settle();
	if (how == 3) {
		VH_OK(nng_msg_alloc(&m, 0));
		VH_OK(nng_msg_append_u32(m, 0xa0000000u));
		if (nng_sendmsg(a, m, NNG_FLAG_NONBLOCK) != 0)
			nng_msg_free(m);
		vs_settle();
	}
	int phase = 0; // 0 = B's messages may still come, 1 = C's have started
	int gotc = 0, sentc = 0;
	for (int round = 0; round < 2; round++) {
		if (round == 0 ? drain1 : 1) {
			while (nng_recvmsg(a, &m, round == 0 ? NNG_FLAG_NONBLOCK : 0) == 0) {
				v = 0;
				if (nng_msg_len(m) != 4 || nng_msg_trim_u32(m, &v) != 0)
					vs_fail("C08:phantom", "a message of %zu bytes nobody sent", nng_msg_len(m));
				nng_msg_free(m);
				if ((v & 0xf0000000u) == 0xb0000000u) {
					int i = (int) (v & 0xffff);
					if (phase == 1)
						vs_fail("C08:order", "B's message %d delivered after C's first message", i);
					if (i < gotb || i >= sentb)
						vs_fail(i < gotb ? "C08:duplicate" : "C08:phantom",
						    "B's message %d delivered (next expected >= %d, %d were sent)", i, gotb,
						    sentb);
					gotb = i + 1;
				} else if ((v & 0xf0000000u) == 0xc0000000u) {
					int i = (int) (v & 0xffff);
					phase = 1;
					if (i != gotc)
						vs_fail(i < gotc ? "C08:duplicate" : "C08:order",
						    "C's message %d delivered, expected %d", i, gotc);
					gotc++;
				} else
					vs_fail("C08:phantom", "message %08x nobody sent to A", v);
			}
		}
		if (round == 0) {
			// (A may still be attached to B - whose messages are in transit or whose departure it has
			// not seen: C is refused and redials; when A is reading C's send waits for that)
			if (drain1)
				VH_OK(nng_socket_set_ms(c, NNG_OPT_SENDTIMEO, 3000));
			int rv = nng_dial(c, "inproc://c08rc", NULL, 0);
			vs_settle();
			if (rv != 0)
				vs_fail("C08:new-peer-refused",
				    "after the first peer had gone (way %d), a new peer's dial failed: %s", how,
				    nng_strerror(rv));
			for (int i = 0; i < 3; i++) {
				VH_OK(nng_msg_alloc(&m, 0));
				VH_OK(nng_msg_append_u32(m, 0xc0000000u + (uint32_t) i));
				int srv = nng_sendmsg(c, m, 0);
				if (srv != 0) {
					nng_msg_free(m);
					if (!drain1) // A is not reading yet: back-pressure is what the statement asks for
						break;
					vs_fail("C08:lost", "the new peer's send %d failed: %s (A rbuf %d, draining %s)",
					    i, nng_strerror(srv), rbuf, drain1 ? "before" : "after");
				}
				sentc++;
				if (drain1) {
					// lock-step when A is reading: receive it now
					nng_msg *r;
				again:
					if (nng_recvmsg(a, &r, 0) != 0)
						vs_fail("C08:lost", "message %d of the new peer did not arrive", i);
					v = 0;
					nng_msg_trim_u32(r, &v);
					nng_msg_free(r);
					if ((v & 0xf0000000u) == 0xb0000000u && phase == 0 && (int) (v & 0xffff) >= gotb &&
					    (int) (v & 0xffff) < sentb) {
						gotb = (int) (v & 0xffff) + 1; // a late message of B, still ahead of C's
						goto again;
					}
					if (v != 0xc0000000u + (uint32_t) i)
						vs_fail("C08:order", "new peer: expected message %d, got %08x", i, v);
					phase = 1;
					gotc++;
				}
			}
		}
	}
	if (gotc != sentc)
		vs_fail("C08:lost", "the new peer's sends succeeded %d times, A received %d of them", sentc, gotc);
	// (if A learnt of B's departure only while draining, C was refused meanwhile and is redialling)
	VH_OK(nng_socket_set_ms(a, NNG_OPT_SENDTIMEO, 3000));
	VH_OK(nng_socket_set_ms(c, NNG_OPT_RECVTIMEO, 3000));
	// A -> C, three in lock-step (the stale message of way 3 was for B: it may be lost, or arrive first)
	for (int i = 0; i < 3; i++) {
		VH_OK(nng_msg_alloc(&m, 0));
		VH_OK(nng_msg_append_u32(m, 0xa0000001u + (uint32_t) i));
		if (nng_sendmsg(a, m, 0) != 0) {
			nng_msg_free(m);
			vs_fail("C08:lost", "A's send %d to the new peer failed", i);
		}
		for (;;) {
			nng_msg *r;
			if (nng_recvmsg(c, &r, 0) != 0)
				vs_fail("C08:lost", "A's message %d did not reach the new peer", i);
			v = 0;
			nng_msg_trim_u32(r, &v);
			nng_msg_free(r);
			if (v == 0xa0000000u && how == 3 && i == 0)
				continue;
			if (v != 0xa0000001u + (uint32_t) i)
				vs_fail("C08:order", "new peer received %08x, expected message %d of A", v, i);
			break;
		}
	}
	vs_outcome("rbuf%d k%d/%d how%d d%d gotb%d gotc%d", rbuf, k, sentb, how, drain1, gotb, gotc);
	nng_socket_close(a);
	if (how != 0 && how != 3 && !(how == 1 && sentb == 0))
		nng_socket_close(b);
	nng_socket_close(c);
	vh_fini();
}

int
main(int argc, char **argv)
{
	vx_init(argc, argv, "C08");
	int T    = vx_is_thorough();
	for (int i = 1; i < argc; i++)
		if (!strcmp(argv[i], "--replay"))
			g_replay = 1;
	g_t0left = vx_time_left();
	g_cap    = T ? 1000 : 60;
	if (g_cap > g_t0left - 60)
		g_cap = g_t0left - 60;

	// (2) hop header (cheap, first)
	mk_hops(T);
	if (T) {
		for (int t = 1; t <= 15; t++)
			TTLS[nttl++] = t;
	} else {
		static const int q[] = { 1, 2, 3, 8, 15 };
		for (int i = 0; i < 5; i++)
			TTLS[nttl++] = q[i];
	}
	static hoparg hcooked = { 0 }, hraw = { 1 };
	explore_hop("pair1-hop-cooked", &hcooked);
	explore_hop("pair1-hop-rawmode", &hraw);
	vx_note("hop", "%d header cases (0..%s, 2^k and 2^k+-1, top values, small "
	    "hop under high garbage bits, 0..3-byte frames) x MAXTTL %s, fresh raw "
	    "connection each, %d per execution; cooked + raw-mode socket (hop+1 on "
	    "forwarding); 32-bit space covered by boundary classes of "
	    "pair1_pipe_recv_cb, not value by value",
	    nhop, T ? "0x1ff" : "20", T ? "1..15" : "{1,2,3,8,15}", BATCH);

	// (1) sequences.  Seeded start states: both directions saturated; C
	// already knocking.
	static const int P_SAT[]   = { L_SENDA, L_SENDA, L_SENDA, L_SENDA, L_SENDB,
		  L_SENDB, L_SENDB };
	static const int P_THIRD[] = { L_THIRD, L_SENDA, L_SENDB };
	// depth-4 buffers on A, both directions saturated (resizes then hit full
	// power-of-two rings)
	static const int P_SAT4[] = { L_SENDA, L_SENDA, L_SENDA, L_SENDA, L_SENDA,
		L_SENDA, L_SENDA, L_SENDB, L_SENDB, L_SENDB, L_SENDB, L_SENDB, L_SENDB,
		L_SENDB };
	// blocked senders: both directions saturated, then aio sends that wait
	static const int P_BLK[]  = { L_SENDA, L_SENDA, L_SENDA, L_SENDA, L_SENDB, L_SENDB, L_SENDB,
		 L_ASENDA, L_ASENDB };
	static const int P_BLK4[] = { L_SENDA, L_SENDA, L_SENDA, L_SENDA, L_SENDA, L_SENDA, L_SENDA,
		L_SENDB, L_SENDB, L_SENDB, L_SENDB, L_SENDB, L_SENDB, L_SENDB, L_ASENDA, L_ASENDA,
		L_ASENDB };
	static seqarg    SQ[2][9];
	for (int p = 0; p < 2; p++) {
		SQ[p][6] = (seqarg){ p, 0, 0, 0, L_NA, P_BLK, 9 };
		SQ[p][7] = (seqarg){ p, 1, 0, 0, L_NA, P_BLK, 9 };
		SQ[p][8] = (seqarg){ p, 2, 0, 0, L_NA, P_BLK4, 17 };
		SQ[p][0] = (seqarg){ p, 0, 0, 0, L_N, NULL, 0 };
		SQ[p][1] = (seqarg){ p, 1, 1, 0, L_N, NULL, 0 };
		SQ[p][2] = (seqarg){ p, 0, 1, 0, L_N, P_SAT, 7 };
		SQ[p][3] = (seqarg){ p, 1, 0, 0, L_N, P_SAT, 7 };
		SQ[p][4] = (seqarg){ p, 0, 0, 0, L_N, P_THIRD, 3 };
		SQ[p][5] = (seqarg){ p, 2, 0, 0, L_N, P_SAT4, 14 };
	}
	if (!T) {
		for (int p = 0; p < 2; p++) {
			explore_seq("sat-c0", &SQ[p][2], 3, 3, 1);
			explore_seq("sat-c1", &SQ[p][3], 3, 3, 1);
			explore_seq("third-c0", &SQ[p][4], 3, 3, 1);
			explore_seq("sat4-c2", &SQ[p][5], 3, 3, 1);
			explore_seq("init-c0", &SQ[p][0], 5, 4, 0.35);
			explore_seq("blocked-c0", &SQ[p][6], 3, 2, 1);
			explore_seq("blocked4-c2", &SQ[p][8], 2, 2, 1);
		}
	} else {
		// each run gets its weight's share of the time that is still left
		// (so what earlier runs did not use carries over)
		static const struct {
			const char *name;
			int         proto, idx, dmax, dmin;
			double      w;
		} PLAN[] = { { "blocked-c0", 0, 6, 4, 3, 1 }, { "blocked-c1", 0, 7, 4, 3, 1 },
			{ "blocked4-c2", 0, 8, 4, 3, 1 }, { "blocked-c0", 1, 6, 4, 3, 1 },
			{ "blocked-c1", 1, 7, 4, 3, 1 }, { "blocked4-c2", 1, 8, 4, 3, 1 },
			{ "sat-c0", 0, 2, 5, 4, 1 }, { "sat-c1", 0, 3, 5, 4, 1 },
			{ "third-c0", 0, 4, 5, 4, 1 }, { "sat-c0", 1, 2, 5, 4, 1 },
			{ "sat-c1", 1, 3, 5, 4, 1 }, { "third-c0", 1, 4, 5, 4, 1 },
			{ "init-c1", 0, 1, 6, 5, 3 }, { "init-c0", 0, 0, 6, 5, 3 },
			{ "init-c1", 1, 1, 6, 5, 3 }, { "init-c0", 1, 0, 7, 5, 6 } };
		double wrem = 0;
		const int NPLAN = (int) (sizeof(PLAN) / sizeof(PLAN[0]));
		for (int i = 0; i < NPLAN; i++)
			wrem += PLAN[i].w;
		for (int i = 0; i < NPLAN; i++) {
			double share = PLAN[i].w / wrem * (g_cap - used()) / g_cap;
			explore_seq(PLAN[i].name, &SQ[PLAN[i].proto][PLAN[i].idx],
			    PLAN[i].dmax, PLAN[i].dmin, share);
			wrem -= PLAN[i].w;
		}
	}
	vx_note("alphabet",
	    "%d letters: sendA sendB recvA recvB (non-blocking, tagged) third (C "
	    "of the same protocol dials A / C's 10 ms redial fires; C sends and "
	    "receives) sbufA rbufA (next size in cycle c0 1-2-0 / c1 1-0-2); "
	    "epilogue: drain, one message each way, drain; the blocked-* scenarios add asendA asendB "
	    "(aio send without timeout that WAITS on back-pressure; tag fixed at submission, up to 5 per "
	    "side; each must complete with 0 exactly once by the end of the drain and keep its place in "
	    "the order)",
	    L_N);
	vx_note("scenarios", "pair0 and pair1, A listens inproc, B dials; seeded "
	    "prefixes: sat (both directions saturated), third (C knocking from "
	    "the start); C dials blocking in c1/sat-c0 runs, NONBLOCK otherwise");
	vx_note("depths", "%s (thorough depths chosen from the measured execution "
	    "rate to keep the tier under ~%d s)", g_depths, (int) g_cap);
	vx_note("oracle",
	    "sequences: invariants (second-peer via ADD_POST/REM_POST ledger and "
	    "sender byte, order, duplicate, phantom, ownership, conservation after "
	    "drain; a shrink of A's buffers may discard at most what no longer "
	    "fits); hop: exact per class, hop==ttl delivered, hop 0 unspecified");
	{
		static const orc_arg OR[] = { { "C08", "pair0", nng_pair0_open, nng_pair0_open, 0 }, { "C08", "pair1", nng_pair1_open, nng_pair1_open, 0 } };
		for (int i = 0; i < 2; i++)
			if (i == 0 || vx_is_thorough())
				orc_explore_tiers(&OR[i]);
			else
				orc_explore(&OR[i], 1, 2, 2); // quick: pair1 gets the resize variant
	}
	for (int v = 0; v < 4; v++) {
		static const char *TN[] = { "race-two-connects-pair0", "race-two-connects-pair1",
			"race-two-connects-pair0-mixed", "race-two-connects-pair1-mixed" };
		vx_cfg c;
		memset(&c, 0, sizeof(c));
		c.prop               = "C08";
		c.scenario           = TN[v];
		c.run                = run_twoconn;
		c.arg                = (void *) (intptr_t) v;
		// (two deviations are needed to put both pipe starts inside each other: quick does
		// that for pair0 with two listeners, one deviation for the other three)
		int two              = vx_is_thorough() || v == 0;
		c.budget[VB_PREEMPT] = vx_is_thorough() ? 2 : 1;
		c.budget[VB_SWITCH]  = two ? 2 : 1;
		c.budget[VB_ENV]     = -1;
		c.total              = two ? 2 : 1;
		c.deadline_s         = vx_is_thorough() ? 120 : 15;
		vx_explore(&c, NULL);
	}
	for (int p = 0; p < 2; p++) {
		vx_cfg c;
		memset(&c, 0, sizeof(c));
		c.prop           = "C08";
		c.scenario       = p ? "reconnect-backlog-pair1" : "reconnect-backlog-pair0";
		c.run            = run_reconnect;
		c.arg            = (void *) (intptr_t) p;
		c.budget[VB_ENV] = -1;
		vx_explore(&c, NULL);
	}
	SR_PROP = "C08";
	sr_explore("C08", 0, vx_is_thorough());
	sr_explore("C08", 1, vx_is_thorough());
	return vx_finish();
}
