// C03 - message ownership, memory safety and no leaks for any API usage.
// For every protocol pairing a base exchange script is run with every
// perturbation (option change, context/aio life cycle, cancel/stop, failed
// send, pipe close, peer loss, device) inserted at every position (one
// insertion in the quick tier, two in the thorough tier).  Oracles: ASan /
// UBSan (engine), the accounting allocator (sized free, double/foreign free,
// zero live blocks after nng_fini) and the ownership ledger: after a failed
// send the harness frees the message (a library free would be a double
// free), after a successful send it never touches it, after a successful
// receive it frees it.
#define _GNU_SOURCE
#include "valloc.h"
#include "vpeer.h"
#include "vs.h"
#include <arpa/inet.h>
#include <errno.h>
#include <fcntl.h>
#include <netinet/in.h>
#include <pthread.h>
#include <stdlib.h>
#include <string.h>
#include <sys/socket.h>
#include <sys/un.h>
#include <unistd.h>

typedef int (*open_fn)(nng_socket *);
enum { PAT_REQREP, PAT_ONEWAY_BA, PAT_BOTH };
static const struct {
	const char *name;
	open_fn     a, b; // a listens, b dials
	int         pattern;
	int         ctx_a, ctx_b;
} PP[] = {
	{ "req-rep", nng_rep0_open, nng_req0_open, PAT_REQREP, 1, 1 },
	{ "surveyor-respondent", nng_respondent0_open, nng_surveyor0_open,
	    PAT_REQREP, 1, 1 },
	{ "pub-sub", nng_sub0_open, nng_pub0_open, PAT_ONEWAY_BA, 1, 0 },
	{ "push-pull", nng_pull0_open, nng_push0_open, PAT_ONEWAY_BA, 0, 0 },
	{ "pair0", nng_pair0_open, nng_pair0_open, PAT_BOTH, 0, 0 },
	{ "pair1", nng_pair1_open, nng_pair1_open, PAT_BOTH, 0, 0 },
	{ "bus", nng_bus0_open, nng_bus0_open, PAT_BOTH, 0, 0 },
	{ "xreq-rep", nng_rep0_open, nng_req0_open_raw, PAT_ONEWAY_BA, 1, 0 },
	{ "req-xrep", nng_rep0_open_raw, nng_req0_open, PAT_ONEWAY_BA, 0, 1 },
	{ "xpub-xsub", nng_sub0_open_raw, nng_pub0_open_raw, PAT_ONEWAY_BA, 0, 0 },
	{ "xbus", nng_bus0_open_raw, nng_bus0_open_raw, PAT_BOTH, 0, 0 },
	{ "xsurveyor-xrespondent", nng_respondent0_open_raw,
	    nng_surveyor0_open_raw, PAT_ONEWAY_BA, 0, 0 },
};
#define NPP ((int) (sizeof(PP) / sizeof(PP[0])))

static nng_socket A, B;
// transport of the scripted exchange: the same scripts run over every stream transport, where
// messages also sit in the transport's send queue, in partially written frames and in receive
// buffers when an option changes, an operation is cancelled or an object is closed
enum { TR_INPROC, TR_IPC, TR_TCP, TR_WS, TR_N };
static const char *TRN[] = { "inproc", "ipc", "tcp", "ws" };
static int         g_tran;
static char        g_dialurl[200];
static int        a_open, b_open;
static int        destructive; // later steps may legitimately fail
static int        g_pair, g_ninsert;
static nng_pipe   last_pipe;
static int        have_pipe;

static void
pcb(nng_pipe p, nng_pipe_ev ev, void *arg)
{
	(void) arg;
	if (ev == NNG_PIPE_EV_ADD_POST) {
		last_pipe = p;
		have_pipe = 1;
	}
}

// ---- ownership-aware primitives ------------------------------------------------
static int
snd(nng_socket s, const char *body, int flags)
{
	nng_msg *m;
	if (nng_msg_alloc(&m, 0) != 0)
		vs_fail("harness:setup", "msg alloc");
	nng_msg_append(m, body, strlen(body));
	int rv = nng_sendmsg(s, m, flags);
	if (rv != 0)
		nng_msg_free(m); // still ours: a library free => double free
	return rv;
}
static int
rcv(nng_socket s, int flags)
{
	nng_msg *m  = NULL;
	int      rv = nng_recvmsg(s, &m, flags);
	if (rv == 0) {
		// touch every byte (ASan: the message must be wholly valid)
		volatile uint8_t sum = 0;
		for (size_t i = 0; i < nng_msg_len(m); i++)
			sum ^= ((uint8_t *) nng_msg_body(m))[i];
		for (size_t i = 0; i < nng_msg_header_len(m); i++)
			sum ^= ((uint8_t *) nng_msg_header(m))[i];
		nng_msg_free(m);
	}
	return rv;
}
// raw sockets echo what they got (header intact) - for xrep style steps
static int
fwd(nng_socket from, nng_socket to)
{
	nng_msg *m  = NULL;
	int      rv = nng_recvmsg(from, &m, NNG_FLAG_NONBLOCK);
	if (rv != 0)
		return rv;
	rv = nng_sendmsg(to, m, NNG_FLAG_NONBLOCK);
	if (rv != 0)
		nng_msg_free(m);
	return rv;
}

static void
nop_cb(void *a)
{
	(void) a;
}

// a send that is larger than the kernel's socket buffers (stream transports) stays in flight in the
// transport until the peer reads; it is left pending while the script goes on and is collected at
// the end: completed -> the library owns (and has released) the message, failed -> still ours.
#define BIGSZ (3u << 20)
static struct {
	nng_aio *aio;
	nng_msg *msg;
} BIG[4];
static int nbig, big_rv = -1;
static void
big_send(nng_socket s)
{
	if (nbig >= 4)
		return;
	nng_aio *aio;
	nng_msg *m;
	if (nng_aio_alloc(&aio, nop_cb, NULL) != 0 || nng_msg_alloc(&m, BIGSZ) != 0)
		vs_fail("harness:setup", "big alloc");
	memset(nng_msg_body(m), 0x5a, BIGSZ);
	nng_aio_set_msg(aio, m);
	nng_aio_set_timeout(aio, 200);
	nng_socket_send(s, aio);
	BIG[nbig].aio = aio;
	BIG[nbig].msg = m;
	nbig++;
}
static void
big_collect(void)
{
	for (int i = 0; i < nbig; i++) {
		nng_aio_wait(BIG[i].aio);
		big_rv = nng_aio_result(BIG[i].aio);
		if (nng_aio_result(BIG[i].aio) != 0) {
			if (nng_aio_get_msg(BIG[i].aio) != BIG[i].msg)
				vs_fail("C03:ownership:aio-msg-detached",
				    "%s over %s: failed %u-byte aio send (%d) no longer carries "
				    "the caller's message",
				    PP[g_pair].name, TRN[g_tran], BIGSZ,
				    nng_aio_result(BIG[i].aio));
			nng_msg_free(BIG[i].msg);
		}
		nng_aio_free(BIG[i].aio);
	}
	nbig = 0;
}

// ---- perturbations ----------------------------------------------------------------
enum {
	K_NONE,
	K_RECVBUF0_A, K_RECVBUF1_A, K_RECVBUF8_A,
	K_SENDBUF0_B, K_SENDBUF1_B, K_SENDBUF8_B,
	K_RECVBUF1_B, K_SENDBUF1_A, K_SENDBUF_5_10_B, K_RECVBUF_5_3_A,
	K_SENDBUF_3_B_RECVBUF_6_A,
	K_RESEND_INF, K_RESEND_1MS, K_SURVEYTIME_1,
	K_MAXTTL1_A, K_PREFNEW_OFF, K_RECVMAX_2,
	K_CTX_OPENCLOSE_A, K_CTX_PENDING_CLOSE_A, K_CTX_OPENCLOSE_B,
	K_AIO_RECV_CANCEL_A, K_AIO_RECV_STOP_A, K_AIO_RECV_CANCEL_B,
	K_AIO_SEND_CANCEL_B,
	K_NB_SEND_B, K_NB_SEND_A, K_NB_RECV_A, K_NB_RECV_B,
	K_TIMED_SEND_B, K_TIMED_RECV_A,
	K_EXTRA_SEND_B, K_EXTRA_SEND_A,
	K_PIPE_CLOSE, K_PEER_LOSS_B, K_PEER_LOSS_A, K_SLEEP_5,
	K_BIG_SEND_B, K_BIG_SEND_A,
	K_STOPPED_AIO_SEND_B, K_STOPPED_AIO_SEND_A,
	K_N
};
static const char *KN[] = { "none", "recvbuf0(A)", "recvbuf1(A)", "recvbuf8(A)",
	"sendbuf0(B)", "sendbuf1(B)", "sendbuf8(B)", "recvbuf1(B)", "sendbuf1(A)",
	"sendbuf 5 then 10(B)", "recvbuf 5 then 3(A)", "sendbuf3(B)+recvbuf6(A)",
	"resend=inf(B)", "resend=1ms(B)", "surveytime=1(B)", "maxttl=1(A)",
	"prefnew=off(A)", "recvmaxsz=2(A)", "ctx open/close(A)",
	"ctx pending recv + close(A)", "ctx open/close(B)", "aio recv + cancel(A)",
	"aio recv + stop(A)", "aio recv + cancel(B)", "aio send + cancel(B)",
	"nonblock send(B)", "nonblock send(A)", "nonblock recv(A)",
	"nonblock recv(B)", "send timeout 1ms(B)", "recv timeout 1ms(A)",
	"extra send(B)", "extra send(A)", "pipe close", "close B", "close A",
	"sleep 5ms", "3 MB aio send left in flight(B)", "3 MB aio send left in flight(A)",
	"send on a stopped aio(B)", "send on a stopped aio(A)" };

static void
perturb(int k)
{
	nng_ctx  c;
	nng_aio *aio;
	nng_msg *m;
	int      rv;
	switch (k) {
	case K_NONE:
		break;
	case K_RECVBUF0_A:
		(void) nng_socket_set_int(A, NNG_OPT_RECVBUF, 0);
		break;
	case K_RECVBUF1_A:
		(void) nng_socket_set_int(A, NNG_OPT_RECVBUF, 1);
		break;
	case K_RECVBUF8_A:
		(void) nng_socket_set_int(A, NNG_OPT_RECVBUF, 8);
		break;
	case K_SENDBUF0_B:
		(void) nng_socket_set_int(B, NNG_OPT_SENDBUF, 0);
		break;
	case K_SENDBUF1_B:
		(void) nng_socket_set_int(B, NNG_OPT_SENDBUF, 1);
		break;
	case K_SENDBUF8_B:
		(void) nng_socket_set_int(B, NNG_OPT_SENDBUF, 8);
		break;
	case K_RECVBUF1_B:
		(void) nng_socket_set_int(B, NNG_OPT_RECVBUF, 1);
		break;
	case K_SENDBUF1_A:
		(void) nng_socket_set_int(A, NNG_OPT_SENDBUF, 1);
		break;
	case K_SENDBUF_5_10_B:
		(void) nng_socket_set_int(B, NNG_OPT_SENDBUF, 5);
		(void) nng_socket_set_int(B, NNG_OPT_SENDBUF, 10);
		break;
	case K_RECVBUF_5_3_A:
		(void) nng_socket_set_int(A, NNG_OPT_RECVBUF, 5);
		(void) nng_socket_set_int(A, NNG_OPT_RECVBUF, 3);
		break;
	case K_SENDBUF_3_B_RECVBUF_6_A:
		(void) nng_socket_set_int(B, NNG_OPT_SENDBUF, 3);
		(void) nng_socket_set_int(A, NNG_OPT_RECVBUF, 6);
		(void) nng_socket_set_int(B, NNG_OPT_SENDBUF, 6);
		(void) nng_socket_set_int(A, NNG_OPT_RECVBUF, 12);
		break;
	case K_RESEND_INF:
		(void) nng_socket_set_ms(B, NNG_OPT_REQ_RESENDTIME,
		    NNG_DURATION_INFINITE);
		break;
	case K_RESEND_1MS:
		(void) nng_socket_set_ms(B, NNG_OPT_REQ_RESENDTIME, 1);
		break;
	case K_SURVEYTIME_1:
		(void) nng_socket_set_ms(B, NNG_OPT_SURVEYOR_SURVEYTIME, 1);
		break;
	case K_MAXTTL1_A:
		(void) nng_socket_set_int(A, NNG_OPT_MAXTTL, 1);
		break;
	case K_PREFNEW_OFF:
		(void) nng_socket_set_bool(A, NNG_OPT_SUB_PREFNEW, false);
		break;
	case K_RECVMAX_2:
		(void) nng_socket_set_size(A, NNG_OPT_RECVMAXSZ, 2);
		break;
	case K_CTX_OPENCLOSE_A:
	case K_CTX_OPENCLOSE_B:
		if (nng_ctx_open(&c, k == K_CTX_OPENCLOSE_A ? A : B) == 0)
			nng_ctx_close(c);
		break;
	case K_CTX_PENDING_CLOSE_A:
		if (nng_ctx_open(&c, A) == 0) {
			if (nng_aio_alloc(&aio, nop_cb, NULL) != 0)
				vs_fail("harness:setup", "aio alloc");
			nng_ctx_recv(c, aio);
			vs_settle();
			nng_ctx_close(c);
			nng_aio_wait(aio);
			if (nng_aio_result(aio) == 0)
				nng_msg_free(nng_aio_get_msg(aio));
			nng_aio_free(aio);
		}
		break;
	case K_AIO_RECV_CANCEL_A:
	case K_AIO_RECV_STOP_A:
	case K_AIO_RECV_CANCEL_B:
		if (nng_aio_alloc(&aio, nop_cb, NULL) != 0)
			vs_fail("harness:setup", "aio alloc");
		nng_socket_recv(k == K_AIO_RECV_CANCEL_B ? B : A, aio);
		vs_settle();
		if (k == K_AIO_RECV_STOP_A)
			nng_aio_stop(aio);
		else
			nng_aio_cancel(aio);
		nng_aio_wait(aio);
		if (nng_aio_result(aio) == 0)
			nng_msg_free(nng_aio_get_msg(aio));
		nng_aio_free(aio);
		break;
	case K_AIO_SEND_CANCEL_B:
		if (nng_aio_alloc(&aio, nop_cb, NULL) != 0 ||
		    nng_msg_alloc(&m, 8) != 0)
			vs_fail("harness:setup", "aio alloc");
		nng_aio_set_msg(aio, m);
		nng_socket_send(B, aio);
		nng_aio_cancel(aio);
		nng_aio_wait(aio);
		if (nng_aio_result(aio) != 0) {
			// failed send: the message is still attached and ours
			if (nng_aio_get_msg(aio) != m)
				vs_fail("C03:ownership:aio-msg-detached",
				    "%s: failed aio send (%d) no longer carries the "
				    "caller's message",
				    PP[g_pair].name, nng_aio_result(aio));
			nng_msg_free(m);
		}
		nng_aio_free(aio);
		break;
	case K_NB_SEND_B:
		(void) snd(B, "nb", NNG_FLAG_NONBLOCK);
		break;
	case K_NB_SEND_A:
		(void) snd(A, "nb", NNG_FLAG_NONBLOCK);
		break;
	case K_NB_RECV_A:
		(void) rcv(A, NNG_FLAG_NONBLOCK);
		break;
	case K_NB_RECV_B:
		(void) rcv(B, NNG_FLAG_NONBLOCK);
		break;
	case K_TIMED_SEND_B:
		(void) nng_socket_set_ms(B, NNG_OPT_SENDTIMEO, 1);
		(void) snd(B, "timed", 0);
		(void) nng_socket_set_ms(B, NNG_OPT_SENDTIMEO, 100);
		break;
	case K_TIMED_RECV_A:
		(void) nng_socket_set_ms(A, NNG_OPT_RECVTIMEO, 1);
		(void) rcv(A, 0);
		(void) nng_socket_set_ms(A, NNG_OPT_RECVTIMEO, 100);
		break;
	case K_EXTRA_SEND_B:
		for (int i = 0; i < 3; i++)
			(void) snd(B, "extraB", NNG_FLAG_NONBLOCK);
		break;
	case K_EXTRA_SEND_A:
		for (int i = 0; i < 3; i++)
			(void) snd(A, "extraA", NNG_FLAG_NONBLOCK);
		break;
	case K_PIPE_CLOSE:
		if (have_pipe) {
			(void) nng_pipe_close(last_pipe);
			destructive = 1;
		}
		break;
	case K_PEER_LOSS_B:
		if (b_open) {
			rv = nng_socket_close(B);
			if (rv != 0)
				vs_fail("C03:close", "close(B) -> %d", rv);
			b_open      = 0;
			destructive = 1;
		}
		break;
	case K_PEER_LOSS_A:
		if (a_open) {
			rv = nng_socket_close(A);
			if (rv != 0)
				vs_fail("C03:close", "close(A) -> %d", rv);
			a_open      = 0;
			destructive = 1;
		}
		break;
	case K_SLEEP_5:
		vs_sleep(5);
		break;
	case K_STOPPED_AIO_SEND_B:
	case K_STOPPED_AIO_SEND_A: {
		// an aio that nng_aio_stop has retired refuses every further operation: the send
		// fails, and a failed send leaves the message attached and the caller's
		nng_socket t = k == K_STOPPED_AIO_SEND_B ? B : A;
		if (!(k == K_STOPPED_AIO_SEND_B ? b_open : a_open))
			break;
		if (nng_aio_alloc(&aio, nop_cb, NULL) != 0 || nng_msg_alloc(&m, 8) != 0)
			vs_fail("harness:setup", "aio alloc");
		nng_msg_header_append_u32(m, 0x80000055u); // (raw sockets want an id / hop word)
		nng_aio_stop(aio);
		nng_aio_set_msg(aio, m);
		nng_socket_send(t, aio);
		nng_aio_wait(aio);
		if (nng_aio_result(aio) == 0) {
			// (only providers that go through nng_aio_start are refused; a send that
			// completes on the spot may succeed - then the library owns the message)
			nng_aio_free(aio);
			break;
		}
		if (nng_aio_get_msg(aio) != m)
			vs_fail("C03:ownership:aio-msg-detached",
			    "%s over %s: send on a stopped aio failed (%s) but the aio no longer "
			    "carries the caller's message",
			    PP[g_pair].name, TRN[g_tran], nng_strerror(nng_aio_result(aio)));
		nng_msg_free(m);
		nng_aio_free(aio);
	} break;
	case K_BIG_SEND_B:
		if (b_open)
			big_send(B);
		break;
	case K_BIG_SEND_A:
		if (a_open)
			big_send(A);
		break;
	}
	vs_settle();
}

// base script steps
enum { S_OPEN, S_OPTS, S_LISTEN, S_DIAL, S_SEND1, S_RECV1, S_SEND2, S_RECV2,
	S_CLOSEB, S_CLOSEA, S_NSTEPS };

static void
step(int st)
{
	const int pat = PP[g_pair].pattern;
	char      url[200];
	switch (g_tran) {
	case TR_IPC:
		snprintf(url, sizeof(url), "ipc://%s/c03-%d", vx_rundir(), (int) getpid());
		break;
	case TR_TCP:
		snprintf(url, sizeof(url), "tcp://127.0.0.1:0");
		break;
	case TR_WS:
		snprintf(url, sizeof(url), "ws://127.0.0.1:0/c03");
		break;
	default:
		snprintf(url, sizeof(url), "inproc://c03-%s", PP[g_pair].name);
		break;
	}
	switch (st) {
	case S_OPEN:
		VH_OK(PP[g_pair].a(&A));
		VH_OK(PP[g_pair].b(&B));
		a_open = b_open = 1;
		break;
	case S_OPTS:
		VH_OK(nng_socket_set_ms(A, NNG_OPT_RECVTIMEO, 100));
		VH_OK(nng_socket_set_ms(A, NNG_OPT_SENDTIMEO, 100));
		VH_OK(nng_socket_set_ms(B, NNG_OPT_RECVTIMEO, 100));
		VH_OK(nng_socket_set_ms(B, NNG_OPT_SENDTIMEO, 100));
		(void) nng_pipe_notify(A, NNG_PIPE_EV_ADD_POST, pcb, NULL);
		if (strstr(PP[g_pair].name, "-sub") && !strstr(PP[g_pair].name, "x"))
			VH_OK(nng_sub0_socket_subscribe(A, "", 0));
		break;
	case S_LISTEN:
		snprintf(g_dialurl, sizeof(g_dialurl), "%s", url);
		if (g_tran == TR_TCP || g_tran == TR_WS) // nobody listens there
			snprintf(g_dialurl, sizeof(g_dialurl), "%s://127.0.0.1:9%s",
			    TRN[g_tran], g_tran == TR_WS ? "/c03" : "");
		if (a_open) {
			nng_listener l;
			int          port = 0;
			if (nng_listen(A, url, &l, 0) != 0) {
				if (!destructive)
					vs_fail("harness:setup", "listen");
			} else if ((g_tran == TR_TCP || g_tran == TR_WS) &&
			    nng_listener_get_int(l, NNG_OPT_BOUND_PORT, &port) == 0)
				snprintf(g_dialurl, sizeof(g_dialurl), "%s://127.0.0.1:%d%s",
				    TRN[g_tran], port, g_tran == TR_WS ? "/c03" : "");
		}
		break;
	case S_DIAL:
		if (b_open && nng_dial(B, g_dialurl, NULL, NNG_FLAG_NONBLOCK) != 0 &&
		    !destructive)
			vs_fail("harness:setup", "dial");
		vs_settle();
		break;
	case S_SEND1:
		if (pat == PAT_BOTH) {
			if (a_open)
				(void) snd(A, "from-A", 0);
		}
		if (b_open)
			(void) snd(B, "from-B-1", 0);
		vs_settle();
		break;
	case S_RECV1:
		if (a_open)
			(void) rcv(A, 0);
		if (pat == PAT_BOTH && b_open)
			(void) rcv(B, 0);
		break;
	case S_SEND2:
		if (pat == PAT_REQREP) {
			if (a_open)
				(void) snd(A, "reply", 0);
		} else if (b_open)
			(void) snd(B, "from-B-2", 0);
		vs_settle();
		break;
	case S_RECV2:
		if (pat == PAT_REQREP) {
			if (b_open)
				(void) rcv(B, 0);
		} else if (a_open)
			(void) rcv(A, 0);
		break;
	case S_CLOSEB:
		if (b_open) {
			if (nng_socket_close(B) != 0)
				vs_fail("C03:close", "close(B) failed");
			b_open = 0;
		}
		break;
	case S_CLOSEA:
		if (a_open) {
			if (nng_socket_close(A) != 0)
				vs_fail("C03:close", "close(A) failed");
			a_open = 0;
		}
		break;
	}
}

static void
run_script(void *arg)
{
	(void) arg;
	vh_init(1);
	a_open = b_open = destructive = have_pipe = 0;
	int pos[2], kind[2];
	for (int i = 0; i < g_ninsert; i++) {
		// insertion points: before step 2 (after open+opts) .. before close A
		pos[i]  = 2 + vs_choose(VK_ENV, S_NSTEPS - 2);
		kind[i] = vs_choose(VK_ENV, K_N);
	}
	char desc[200] = "";
	for (int i = 0; i < g_ninsert; i++)
		snprintf(desc + strlen(desc), sizeof(desc) - strlen(desc), "%s%s@%d",
		    i ? " + " : "", KN[kind[i]], pos[i]);
	vs_log("%s over %s: %s", PP[g_pair].name, TRN[g_tran], desc);
	if (g_tran == TR_TCP || g_tran == TR_WS)
		vs_tcp_grace_us = 1500;
	nbig = 0;
	for (int st = 0; st < S_NSTEPS; st++) {
		for (int i = 0; i < g_ninsert; i++)
			if (pos[i] == st)
				perturb(kind[i]);
		step(st);
	}
	big_collect();
	if (g_tran == TR_IPC) {
		char path[200];
		snprintf(path, sizeof(path), "%s/c03-%d", vx_rundir(), (int) getpid());
		unlink(path);
	}
	vs_outcome("%s big=%d", destructive ? "destructive" : "clean", big_rv);
	vh_fini(); // balance check: every block returned, with its size
}

// ---- stalled raw peer: messages held inside a stream transport when an object goes away ----------
// The nng socket talks to a raw peer (the harness) over socket://, ipc, tcp or ws.  The peer does
// not read, so a message larger than the kernel buffers is stuck half-written in the transport,
// further messages wait in the protocol's send queue and (optionally) unread inbound messages sit
// in the receive path.  Then one of the teardown / option / cancel events happens, in every
// combination with what the peer does next.  Oracles: sanitizers, accounting allocator (every
// block released once, with its size, nothing live after nng_fini), the failed-send ledger
// (the message of a failed aio send is still attached and still the caller's), termination.
enum { RT_SOCKFD, RT_IPC, RT_TCP, RT_WS, RT_N };
static const char *RTN[] = { "socketfd", "ipc", "tcp", "ws" };
static const struct {
	const char *name;
	open_fn     open;
	uint16_t    peer; // protocol the raw peer speaks
	int         inbound; // the nng side can receive from this peer
} SP_[] = {
	{ "pair0", nng_pair0_open, SP_PAIR0, 1 },
	{ "push", nng_push0_open, SP_PULL, 0 },
	{ "pub", nng_pub0_open, SP_SUB, 0 },
	{ "bus", nng_bus0_open, SP_BUS, 1 },
	{ "xreq", nng_req0_open_raw, SP_REP, 1 },
	{ "pair1", nng_pair1_open, SP_PAIR1, 1 },
};
#define NSP ((int) (sizeof(SP_) / sizeof(SP_[0])))

static int
raw_fd_connect(int tran, const char *path, int port)
{
	int fd;
	if (tran == RT_IPC) {
		struct sockaddr_un sa;
		memset(&sa, 0, sizeof(sa));
		sa.sun_family = AF_UNIX;
		snprintf(sa.sun_path, sizeof(sa.sun_path), "%s", path);
		fd = socket(AF_UNIX, SOCK_STREAM, 0);
		if (connect(fd, (struct sockaddr *) &sa, sizeof(sa)) != 0)
			vs_fail("harness:peer", "ipc connect: %s", strerror(errno));
	} else {
		struct sockaddr_in sa;
		memset(&sa, 0, sizeof(sa));
		sa.sin_family      = AF_INET;
		sa.sin_port        = htons((uint16_t) port);
		sa.sin_addr.s_addr = htonl(INADDR_LOOPBACK);
		fd                 = socket(AF_INET, SOCK_STREAM, 0);
		int small          = 4096; // keep the window small: the sender must stall
		setsockopt(fd, SOL_SOCKET, SO_RCVBUF, &small, sizeof(small));
		if (connect(fd, (struct sockaddr *) &sa, sizeof(sa)) != 0)
			vs_fail("harness:peer", "tcp connect: %s", strerror(errno));
	}
	fcntl(fd, F_SETFL, fcntl(fd, F_GETFL) | O_NONBLOCK);
	fcntl(fd, F_SETFD, FD_CLOEXEC);
	vs_settle();
	return fd;
}

// minimal websocket client side: upgrade request, masked frames
static int
ws_upgrade(int fd, const char *path, const char *proto)
{
	char req[400], resp[2048], ph[100] = "";
	if (proto)
		snprintf(ph, sizeof(ph), "Sec-WebSocket-Protocol: %s\r\n", proto);
	int n = snprintf(req, sizeof(req),
	    "GET %s HTTP/1.1\r\nHost: 127.0.0.1\r\nUpgrade: websocket\r\n"
	    "Connection: Upgrade\r\nSec-WebSocket-Key: dGhlIHNhbXBsZSBub25jZQ==\r\n"
	    "Sec-WebSocket-Version: 13\r\n%s\r\n",
	    path, ph);
	vp_write_all(fd, req, (size_t) n);
	vs_settle();
	size_t got = 0;
	for (int t = 0; t < 20; t++) {
		ssize_t r = vp_read_avail(fd, resp + got, sizeof(resp) - 1 - got);
		if (r < 0)
			return 0;
		got += (size_t) r;
		resp[got] = 0;
		if (strstr(resp, "\r\n\r\n"))
			return strncmp(resp, "HTTP/1.1 101", 12) == 0;
		vs_sleep(2);
	}
	return 0;
}
static size_t
ws_frame(uint8_t *o, int op, int fin, const uint8_t *pay, size_t len)
{
	static const uint8_t key[4] = { 0x11, 0x22, 0x33, 0x44 };
	size_t               p      = 0;
	o[p++] = (uint8_t) ((fin ? 0x80 : 0) | (op & 15));
	if (len < 126)
		o[p++] = 0x80 | (uint8_t) len;
	else {
		o[p++] = 0x80 | 126;
		o[p++] = (uint8_t) (len >> 8);
		o[p++] = (uint8_t) len;
	}
	memcpy(o + p, key, 4);
	p += 4;
	for (size_t j = 0; j < len; j++)
		o[p++] = pay[j] ^ key[j & 3];
	return p;
}

// read and discard up to `max` bytes from the raw fd; returns bytes read, sets *eof
static size_t
raw_discard(int fd, size_t max, int *eof)
{
	static uint8_t junk[1 << 16];
	size_t         tot = 0;
	int            idle = 0;
	*eof = 0;
	while (tot < max && idle < 3) {
		size_t  want = max - tot < sizeof(junk) ? max - tot : sizeof(junk);
		ssize_t n    = vp_read_avail(fd, junk, want);
		if (n < 0) {
			*eof = 1;
			break;
		}
		if (n == 0) {
			idle++;
			vs_settle();
			continue;
		}
		idle = 0;
		tot += (size_t) n;
	}
	return tot;
}

enum {
	EV_SOCK_CLOSE,      // nng_socket_close with everything pending
	EV_PIPE_CLOSE,      // nng_pipe_close, then the socket
	EV_PEER_CLOSE,      // the peer closes without reading
	EV_PEER_READ_SOME,  // the peer reads 64 KB, then closes
	EV_PEER_DRAIN,      // the peer reads everything, then the socket is closed
	EV_SENDBUF,         // SENDBUF 0, then 8, then close
	EV_CANCEL_BIG,      // cancel the big send, the peer drains
	EV_EP_CLOSE,        // close the listener, then the socket
	EV_TIMEOUT,         // let the send timeouts expire (virtual), then close
	EV_N
};
static const char *EVN[] = { "socket-close", "pipe-close", "peer-close",
	"peer-reads-64k-closes", "peer-drains", "sendbuf-0-8", "cancel-big",
	"listener-close", "send-timeouts" };

static void
run_stalled(void *arg)
{
	int tran = (int) (intptr_t) arg / 16, pi = (int) (intptr_t) arg % 16;
	if (tran == RT_TCP || tran == RT_WS)
		vs_tcp_grace_us = 1500;
	vh_init(1);
	nng_socket   s;
	nng_listener l;
	char         path[160] = "", url[200];
	int          port = 0, fd = -1, eof = 0;
	have_pipe = 0;
	VH_OK(SP_[pi].open(&s));
	VH_OK(nng_socket_set_int(s, NNG_OPT_SENDBUF, 2));
	VH_OK(nng_socket_set_int(s, NNG_OPT_RECVBUF, 2));
	VH_OK(nng_socket_set_ms(s, NNG_OPT_SENDTIMEO, 50));
	VH_OK(nng_socket_set_ms(s, NNG_OPT_RECVTIMEO, 5));
	(void) nng_pipe_notify(s, NNG_PIPE_EV_ADD_POST, pcb, NULL);
	switch (tran) {
	case RT_SOCKFD:
		fd = vp_connect_raw(s, SP_[pi].peer, &l);
		break;
	case RT_IPC:
		snprintf(path, sizeof(path), "%s/c03s-%d", vx_rundir(), (int) getpid());
		snprintf(url, sizeof(url), "ipc://%s", path);
		VH_OK(nng_listen(s, url, &l, 0));
		fd = raw_fd_connect(tran, path, 0);
		if (vp_handshake(fd, SP_[pi].peer) < 0)
			vs_fail("harness:peer", "ipc handshake");
		break;
	case RT_TCP:
		VH_OK(nng_listen(s, "tcp://127.0.0.1:0", &l, 0));
		VH_OK(nng_listener_get_int(l, NNG_OPT_BOUND_PORT, &port));
		fd = raw_fd_connect(tran, NULL, port);
		if (vp_handshake(fd, SP_[pi].peer) < 0)
			vs_fail("harness:peer", "tcp handshake");
		break;
	default:
		VH_OK(nng_listen(s, "ws://127.0.0.1:0/c03", &l, 0));
		VH_OK(nng_listener_get_int(l, NNG_OPT_BOUND_PORT, &port));
		fd = raw_fd_connect(tran, NULL, port);
		if (!ws_upgrade(fd, "/c03", "pair.sp.nanomsg.org"))
			vs_fail("harness:peer", "ws upgrade");
		break;
	}
	if (fd < 0)
		vs_fail("harness:peer", "raw connect");
	vs_settle();
	int ev      = vs_choose(VK_ENV, EV_N);
	// inbound: 0 nothing, 1 three complete unread messages, 2 additionally the first part of a
	// fourth one (its length prefix and some of its body): a receive is then in the middle of a
	// message when the connection goes away.  (The one-way senders also read their pipe.)
	int inbound = vs_choose(VK_ENV, 3);
	if (!SP_[pi].inbound && inbound == 1)
		inbound = 0;
	int nsmall  = vs_choose(VK_ENV, 2) ? 4 : 0;
	vs_log("%s over %s: %s inbound=%d small=%d", SP_[pi].name, RTN[tran], EVN[ev],
	    inbound, nsmall);
	if (inbound) {
		// three unread messages for the receive path (buffer depth 2 + one at the pipe)
		for (int i = 0; i < (SP_[pi].inbound ? 3 : 0); i++) {
			uint8_t  f[64], w[80];
			uint8_t  hdr[4] = { 0x80, 0, 0, (uint8_t) i }; // request id (xreq) / hop 1 (pair1)
			size_t   hl     = 0;
			if (SP_[pi].peer == SP_REP)
				hl = 4;
			if (SP_[pi].peer == SP_PAIR1) {
				hdr[0] = 0;
				hdr[3] = 1;
				hl     = 4;
			}
			size_t n = vp_frame(f, hdr, hl, "inbound", 7, tran == RT_IPC);
			if (tran == RT_WS) {
				// ws carries the SP message (without length prefix) in one binary frame
				size_t wl = ws_frame(w, 2, 1, f + 8, n - 8);
				vp_write_all(fd, w, wl);
			} else
				vp_write_all(fd, f, n);
		}
		vs_settle();
		if (inbound == 2) {
			static uint8_t part[1200];
			uint8_t        hdr[4] = { 0x80, 0, 0, 77 };
			memset(part, 0x31, sizeof(part));
			if (SP_[pi].peer == SP_PAIR1) {
				hdr[0] = 0;
				hdr[3] = 1;
			}
			static uint8_t f[1300], w[1320];
			size_t         n = vp_frame(f, hdr, 4, part, 1000, tran == RT_IPC);
			if (tran == RT_WS) {
				// a first fragment (FIN clear) and half of a continuation frame
				size_t wl = ws_frame(w, 2, 0, f + 8, 500);
				wl += ws_frame(w + wl, 0, 1, f + 508, n - 508);
				vp_write_all(fd, w, wl - 200);
			} else
				vp_write_all(fd, f, n - 600);
			vs_settle();
		}
	}
	size_t bigsz = (tran == RT_TCP || tran == RT_WS) ? (6u << 20) : (1u << 20);
	nng_aio *big;
	nng_msg *bm;
	VH_OK(nng_aio_alloc(&big, nop_cb, NULL));
	VH_OK(nng_msg_alloc(&bm, bigsz));
	memset(nng_msg_body(bm), 0x42, bigsz);
	if (SP_[pi].peer == SP_REP) {
		uint8_t id[4] = { 0x80, 0, 0, 9 };
		nng_msg_header_append(bm, id, 4);
	}
	nng_aio_set_msg(big, bm);
	nng_aio_set_timeout(big, 100);
	nng_socket_send(s, big);
	vs_settle();
	int small_ok = 0;
	for (int i = 0; i < nsmall; i++) {
		nng_msg *m;
		VH_OK(nng_msg_alloc(&m, 100));
		if (SP_[pi].peer == SP_REP) {
			uint8_t id[4] = { 0x80, 0, 0, (uint8_t) (10 + i) };
			nng_msg_header_append(m, id, 4);
		}
		int rv = nng_sendmsg(s, m, NNG_FLAG_NONBLOCK);
		if (rv != 0)
			nng_msg_free(m);
		else
			small_ok++;
		vs_settle();
	}
	switch (ev) {
	case EV_SOCK_CLOSE:
		break;
	case EV_PIPE_CLOSE:
		if (have_pipe)
			(void) nng_pipe_close(last_pipe);
		vs_settle();
		break;
	case EV_PEER_CLOSE:
		close(fd);
		fd = -1;
		vs_settle();
		break;
	case EV_PEER_READ_SOME:
		(void) raw_discard(fd, 65536, &eof);
		close(fd);
		fd = -1;
		vs_settle();
		break;
	case EV_PEER_DRAIN:
		(void) raw_discard(fd, (size_t) 64 << 20, &eof);
		break;
	case EV_SENDBUF:
		(void) nng_socket_set_int(s, NNG_OPT_SENDBUF, 0);
		vs_settle();
		(void) nng_socket_set_int(s, NNG_OPT_SENDBUF, 8);
		vs_settle();
		break;
	case EV_CANCEL_BIG:
		nng_aio_cancel(big);
		vs_settle();
		(void) raw_discard(fd, (size_t) 64 << 20, &eof);
		break;
	case EV_EP_CLOSE:
		(void) nng_listener_close(l);
		vs_settle();
		break;
	case EV_TIMEOUT:
		vs_sleep(120);
		break;
	}
	if (inbound && ev != EV_SOCK_CLOSE)
		(void) rcv(s, 0); // one of the queued messages is consumed, the others stay
	if (nng_socket_close(s) != 0)
		vs_fail("C03:close", "close failed");
	nng_aio_wait(big);
	int brv = nng_aio_result(big);
	if (brv != 0) {
		if (nng_aio_get_msg(big) != bm)
			vs_fail("C03:ownership:aio-msg-detached",
			    "%s over %s, %s: the failed %zu-byte aio send (%s) no longer "
			    "carries the caller's message",
			    SP_[pi].name, RTN[tran], EVN[ev], bigsz, nng_strerror(brv));
		nng_msg_free(bm);
	}
	nng_aio_free(big);
	if (fd >= 0)
		close(fd);
	if (path[0])
		unlink(path);
	vs_nontrivial();
	vs_outcome("%s big=%d small=%d", EVN[ev], brv, small_ok);
	vh_fini();
}

// ---- websocket control frames around the end of a connection ----------------------------------------
// raw websocket client <-> nng PAIR0 listener.  The client sends k PING frames and then ends the
// connection in one of several ways, all in ONE write, optionally while the application has a
// fragmented message in flight towards a client that is not reading.  The PONG replies, the close
// frame and the data fragments then share the transmit queue when the connection dies.
enum { WE_CLOSE_FRAME, WE_VIOLATION, WE_EOF, WE_APP_CLOSE, WE_APP_PIPE_CLOSE, WE_N };
static const char *WEN[] = { "peer-close-frame", "peer-protocol-violation", "peer-eof",
	"app-socket-close", "app-pipe-close" };
static void
run_wsctl(void *arg)
{
	(void) arg;
	vs_tcp_grace_us = 1500;
	vh_init(1);
	nng_socket   s;
	nng_listener l;
	int          port = 0, eof = 0;
	have_pipe = 0;
	VH_OK(nng_pair0_open(&s));
	VH_OK(nng_socket_set_ms(s, NNG_OPT_SENDTIMEO, 50));
	(void) nng_pipe_notify(s, NNG_PIPE_EV_ADD_POST, pcb, NULL);
	VH_OK(nng_listener_create(&l, s, "ws://127.0.0.1:0/c03"));
	VH_OK(nng_listener_set_size(l, NNG_OPT_WS_SENDMAXFRAME, 65536));
	VH_OK(nng_listener_start(l, 0));
	VH_OK(nng_listener_get_int(l, NNG_OPT_BOUND_PORT, &port));
	int fd = raw_fd_connect(RT_WS, NULL, port);
	if (!ws_upgrade(fd, "/c03", "pair.sp.nanomsg.org"))
		vs_fail("harness:peer", "ws upgrade");
	vs_settle();
	int npings = vs_choose(VK_ENV, 4);
	int ending = vs_choose(VK_ENV, WE_N);
	int inflt  = vs_choose(VK_ENV, 3); // nothing / small send / 6 MB send stalled
	int drain  = vs_choose(VK_ENV, 2); // the client reads what is pending before it goes away
	vs_log("pings=%d ending=%s inflight=%d drain=%d", npings, WEN[ending], inflt, drain);
	nng_aio *aio = NULL;
	nng_msg *m   = NULL;
	if (inflt) {
		size_t sz = inflt == 1 ? 300 : (6u << 20);
		VH_OK(nng_aio_alloc(&aio, nop_cb, NULL));
		VH_OK(nng_msg_alloc(&m, sz));
		memset(nng_msg_body(m), 0x37, sz);
		nng_aio_set_msg(aio, m);
		nng_aio_set_timeout(aio, 100);
		nng_socket_send(s, aio);
		vs_settle();
	}
	uint8_t wire[512];
	size_t  wl = 0;
	for (int i = 0; i < npings; i++)
		wl += ws_frame(wire + wl, 9, 1, (const uint8_t *) "pingping", 8);
	if (ending == WE_CLOSE_FRAME) {
		uint8_t code[2] = { 0x03, 0xe8 };
		wl += ws_frame(wire + wl, 8, 1, code, 2);
	} else if (ending == WE_VIOLATION)
		wl += ws_frame(wire + wl, 0, 1, (const uint8_t *) "x", 1); // continuation without start
	vs_window(1);
	if (wl)
		vp_write_all(fd, wire, wl);
	if (ending == WE_EOF && !drain) {
		close(fd);
		fd = -1;
	}
	if (ending == WE_APP_CLOSE) {
		vs_settle();
		vs_window(0);
		if (drain)
			(void) raw_discard(fd, (size_t) 64 << 20, &eof);
		if (nng_socket_close(s) != 0)
			vs_fail("C03:close", "close failed");
	} else {
		if (ending == WE_APP_PIPE_CLOSE && have_pipe)
			(void) nng_pipe_close(last_pipe);
		vs_settle();
		vs_window(0);
		if (drain && fd >= 0)
			vs_log("drained %zu eof=%d", raw_discard(fd, (size_t) 64 << 20, &eof), eof);
		vs_sleep(150);
		if (fd >= 0) {
			(void) raw_discard(fd, (size_t) 64 << 20, &eof);
			close(fd);
			fd = -1;
		}
		vs_settle();
		if (nng_socket_close(s) != 0)
			vs_fail("C03:close", "close failed");
	}
	int rv = -1;
	if (aio) {
		nng_aio_wait(aio);
		rv = nng_aio_result(aio);
		if (rv != 0) {
			if (nng_aio_get_msg(aio) != m)
				vs_fail("C03:ownership:aio-msg-detached",
				    "ws, %s: the failed aio send (%s) no longer carries the "
				    "caller's message",
				    WEN[ending], nng_strerror(rv));
			nng_msg_free(m);
		}
		nng_aio_free(aio);
	}
	if (fd >= 0)
		close(fd);
	vs_nontrivial();
	vs_outcome("%s pings=%d send=%d", WEN[ending], npings, rv);
	vh_fini();
}

// the same through the public byte-stream API (nng_stream over ws://): here the application, not an
// SP pipe, decides when the stream is closed, so the closing handshake runs to its end while
// control-frame replies are still queued behind it.
static void
run_wsstream(void *arg)
{
	(void) arg;
	vs_tcp_grace_us = 1500;
	vh_init(1);
	nng_stream_listener *sl;
	nng_stream          *st = NULL;
	nng_aio             *acc, *rx, *tx = NULL;
	int                  port = 0, eof = 0;
	static uint8_t       rbuf[4096];
	uint8_t             *tbuf = NULL;
	VH_OK(nng_stream_listener_alloc(&sl, "ws://127.0.0.1:0/c03s"));
	VH_OK(nng_stream_listener_listen(sl));
	VH_OK(nng_stream_listener_get_int(sl, NNG_OPT_BOUND_PORT, &port));
	VH_OK(nng_aio_alloc(&acc, NULL, NULL));
	VH_OK(nng_aio_alloc(&rx, NULL, NULL));
	nng_stream_listener_accept(sl, acc);
	int fd = raw_fd_connect(RT_WS, NULL, port);
	if (!ws_upgrade(fd, "/c03s", NULL))
		vs_fail("harness:peer", "ws upgrade (stream)");
	vs_settle();
	nng_aio_wait(acc);
	if (nng_aio_result(acc) != 0)
		vs_fail("harness:peer", "accept: %s", nng_strerror(nng_aio_result(acc)));
	st = nng_aio_get_output(acc, 0);
	int T      = vx_is_thorough();
	int npings = T ? 1 + vs_choose(VK_ENV, 3) : 2;
	int ending = vs_choose(VK_ENV, 3); // close frame / violation / eof
	int inflt  = vs_choose(VK_ENV, T ? 3 : 2); // nothing / small / 6 MB stalled
	int rxpend = vs_choose(VK_ENV, 2);
	vs_log("stream: pings=%d ending=%d inflight=%d rx=%d", npings, ending, inflt, rxpend);
	if (rxpend) {
		nng_iov iov = { .iov_buf = rbuf, .iov_len = sizeof(rbuf) };
		nng_aio_set_iov(rx, 1, &iov);
		nng_stream_recv(st, rx);
	}
	if (inflt) {
		size_t sz = inflt == 1 ? 300 : (6u << 20);
		tbuf      = malloc(sz);
		memset(tbuf, 0x55, sz);
		nng_iov iov = { .iov_buf = tbuf, .iov_len = sz };
		VH_OK(nng_aio_alloc(&tx, NULL, NULL));
		nng_aio_set_iov(tx, 1, &iov);
		nng_aio_set_timeout(tx, 100);
		nng_stream_send(st, tx);
	}
	vs_settle();
	uint8_t wire[512];
	size_t  wl = 0;
	for (int i = 0; i < npings; i++)
		wl += ws_frame(wire + wl, 9, 1, (const uint8_t *) "pingping", 8);
	if (ending == 0) {
		uint8_t code[2] = { 0x03, 0xe8 };
		wl += ws_frame(wire + wl, 8, 1, code, 2);
	} else if (ending == 1)
		wl += ws_frame(wire + wl, 0, 1, (const uint8_t *) "x", 1);
	vs_window(1);
	vp_write_all(fd, wire, wl);
	vs_settle();
	vs_window(0);
	// the peer reads what it was sent (pongs, close frame), then goes away
	(void) raw_discard(fd, (size_t) 64 << 20, &eof);
	vs_sleep(150);
	(void) raw_discard(fd, (size_t) 64 << 20, &eof);
	close(fd);
	vs_settle();
	if (rxpend)
		nng_aio_wait(rx);
	nng_stream_close(st);
	if (tx) {
		nng_aio_wait(tx);
		nng_aio_free(tx);
	}
	nng_stream_stop(st);
	nng_stream_free(st);
	nng_aio_free(rx);
	nng_aio_free(acc);
	nng_stream_listener_close(sl);
	nng_stream_listener_stop(sl);
	nng_stream_listener_free(sl);
	free(tbuf);
	vs_nontrivial();
	vs_outcome("stream e%d p%d i%d r%d", ending, npings, inflt, rxpend);
	vh_fini();
}

// ---- REQ: the resend time changes while a request is queued / on the wire ---------------------------
// The request message is shared between the context (for retransmission) and the pipe that sends
// it, and who owns what depends on the resend time - which the application may change at any
// moment.  Every combination of: initial resend time {1 ms, 50 ms, infinite} x the request is
// submitted {before any peer exists, with a peer connected} x new resend time {infinite, 1 ms, 50 ms}
// set {while the request is still queued, after it was written} x the raw replier {answers, stays
// silent, disconnects} - then 120 virtual ms pass (several resend periods) and everything is
// closed.  Oracles: sanitizers (a retransmission of a message that the pipe already released is a
// use after free), the accounting allocator, completion of the receive.
static void
run_reqresend(void *arg)
{
	(void) arg;
	static const int RT[] = { 1, 50, -1 };
	vh_init(1);
	nng_socket   s;
	nng_ctx      c;
	nng_listener l;
	nng_aio     *sa, *ra;
	VH_OK(nng_req0_open(&s));
	VH_OK(nng_socket_set_ms(s, NNG_OPT_REQ_RESENDTICK, 5));
	int usectx = vs_choose(VK_ENV, 2);
	int r0 = RT[vs_choose(VK_ENV, 3)], r1 = RT[vs_choose(VK_ENV, 3)];
	int early  = vs_choose(VK_ENV, 2); // submitted before a peer exists
	int when   = vs_choose(VK_ENV, 2); // option changes: 0 while queued / 1 after it was written
	int peer   = vs_choose(VK_ENV, 3); // answers / silent / disconnects
	if (usectx)
		VH_OK(nng_ctx_open(&c, s));
#define SETR(v)                                                                           \
	do {                                                                              \
		nng_duration d_ = (v) < 0 ? NNG_DURATION_INFINITE : (v);                  \
		if (usectx)                                                               \
			VH_OK(nng_ctx_set_ms(c, NNG_OPT_REQ_RESENDTIME, d_));             \
		else                                                                      \
			VH_OK(nng_socket_set_ms(s, NNG_OPT_REQ_RESENDTIME, d_));          \
	} while (0)
	SETR(r0);
	VH_OK(nng_listener_create(&l, s, "socket://"));
	VH_OK(nng_listener_start(l, 0));
	VH_OK(nng_aio_alloc(&sa, nop_cb, NULL));
	VH_OK(nng_aio_alloc(&ra, nop_cb, NULL));
	nng_aio_set_timeout(ra, 200);
	int fd = -1;
	if (!early) {
		fd = vp_attach_more(l);
		vs_settle();
		if (fd < 0 || vp_handshake(fd, SP_REP) < 0)
			vs_fail("harness:peer", "raw replier");
	}
	nng_msg *m;
	VH_OK(nng_msg_alloc(&m, 0));
	VH_OK(nng_msg_append(m, "request", 7));
	nng_aio_set_msg(sa, m);
	if (usectx) {
		nng_ctx_send(c, sa);
		nng_ctx_recv(c, ra);
	} else {
		nng_socket_send(s, sa);
		nng_socket_recv(s, ra);
	}
	vs_settle();
	if (when == 0)
		SETR(r1);
	if (early) {
		fd = vp_attach_more(l);
		vs_settle();
		if (fd < 0 || vp_handshake(fd, SP_REP) < 0)
			vs_fail("harness:peer", "raw replier");
		vs_settle();
	}
	if (when == 1)
		SETR(r1);
	vs_log("ctx=%d r0=%d r1=%d early=%d when=%d peer=%d", usectx, r0, r1, early, when, peer);
	// the raw replier reads what is there
	vp_rd         *rd = calloc(1, sizeof(*rd));
	const uint8_t *pl;
	size_t         len;
	uint32_t       id = 0;
	vs_sleep(3);
	while (vp_next_frame(fd, rd, &pl, &len) == 1)
		if (len >= 4)
			id = vp_get32(pl);
	if (peer == 0 && id) {
		uint8_t h[4];
		vp_put32(h, id);
		vp_send(fd, h, 4, "reply", 5);
	} else if (peer == 2) {
		// the replier goes away and another one takes its place
		close(fd);
		vs_settle();
		fd = vp_attach_more(l);
		vs_settle();
		if (fd < 0 || vp_handshake(fd, SP_REP) < 0)
			vs_fail("harness:peer", "second raw replier");
		rd->len = 0;
		rd->eof = 0;
	}
	vs_settle();
	for (int t = 0; t < 12; t++) { // several resend periods; retransmissions are read and dropped
		vs_sleep(10);
		while (fd >= 0 && vp_next_frame(fd, rd, &pl, &len) == 1)
			;
	}
	vs_nontrivial();
	if (usectx)
		nng_ctx_close(c);
	nng_socket_close(s);
	nng_aio_wait(sa);
	nng_aio_wait(ra);
	if (nng_aio_result(sa) != 0 && nng_aio_get_msg(sa) != NULL)
		nng_msg_free(nng_aio_get_msg(sa));
	if (nng_aio_result(ra) == 0)
		nng_msg_free(nng_aio_get_msg(ra));
	vs_outcome("send=%d recv=%d", nng_aio_result(sa), nng_aio_result(ra));
	nng_aio_free(sa);
	nng_aio_free(ra);
	if (fd >= 0)
		close(fd);
	free(rd);
	vh_fini();
#undef SETR
}

// ---- statistics snapshot racing with objects coming and going ------------------------------------------
// One thread takes a statistics snapshot (nng_stats_get walks the whole tree of sockets, endpoints
// and pipes and reads every item) and releases it, while another thread makes a connection appear
// and disappear (dial, exchange, close) or closes a whole socket.  Every schedule within the
// budget; oracles: sanitizers, accounting allocator, termination.
static nng_socket st_a, st_b;
static int        st_mode;
static void *
st_snap(void *arg)
{
	(void) arg;
	for (int i = 0; i < 2; i++) {
		nng_stat *st = NULL;
		if (nng_stats_get(&st) == 0) {
			// read something from every node
			volatile uint64_t sum = 0;
			for (const nng_stat *x = nng_stat_child(st); x != NULL; x = nng_stat_next(x)) {
				sum += nng_stat_value(x) + (uint64_t) nng_stat_type(x);
				for (const nng_stat *y = nng_stat_child(x); y != NULL; y = nng_stat_next(y)) {
					sum += nng_stat_value(y);
					for (const nng_stat *z = nng_stat_child(y); z != NULL;
					     z               = nng_stat_next(z))
						sum += nng_stat_value(z) + strlen(nng_stat_name(z));
				}
			}
			nng_stats_free(st);
		}
	}
	return NULL;
}
static void *
st_churn(void *arg)
{
	(void) arg;
	nng_dialer d;
	switch (st_mode) {
	case 0: // a connection appears, carries a message, disappears
		if (nng_dial(st_b, "inproc://c03stats", &d, 0) == 0) {
			(void) snd(st_b, "x", NNG_FLAG_NONBLOCK);
			(void) nng_dialer_close(d);
		}
		break;
	case 1: // a socket with a live connection is closed
		(void) nng_socket_close(st_b);
		break;
	default: // a listener is added and removed
	{
		nng_listener l;
		if (nng_listen(st_a, "inproc://c03stats2", &l, 0) == 0)
			(void) nng_listener_close(l);
	} break;
	}
	return NULL;
}
static void
run_stats(void *arg)
{
	st_mode = (int) (intptr_t) arg;
	vh_init(1);
	VH_OK(nng_pair0_open(&st_a));
	VH_OK(nng_pair0_open(&st_b));
	VH_OK(nng_listen(st_a, "inproc://c03stats", NULL, 0));
	if (st_mode == 1)
		VH_OK(nng_dial(st_b, "inproc://c03stats", NULL, 0));
	vs_settle();
	pthread_t t1, t2;
	vs_window(1);
	pthread_create(&t1, NULL, st_snap, NULL);
	pthread_create(&t2, NULL, st_churn, NULL);
	pthread_join(t1, NULL);
	pthread_join(t2, NULL);
	vs_settle();
	vs_window(0);
	vs_nontrivial();
	vs_outcome("mode=%d", st_mode);
	(void) nng_socket_close(st_b);
	(void) nng_socket_close(st_a);
	vh_fini();
}

// ---- device scenario ----------------------------------------------------------------------
static void
run_device(void *arg)
{
	// 1: the back side has no peer, so a forwarded message WAITS in the device's send (the
	// device is then stopped while it owns a message it could not pass on)
	int nopeer = (int) (intptr_t) arg;
	vh_init(1);
	nng_socket f, b, req, rep;
	nng_aio   *da;
	VH_OK(nng_rep0_open_raw(&f));
	VH_OK(nng_req0_open_raw(&b));
	VH_OK(nng_req0_open(&req));
	VH_OK(nng_rep0_open(&rep));
	VH_OK(nng_socket_set_ms(req, NNG_OPT_RECVTIMEO, 100));
	VH_OK(nng_socket_set_ms(rep, NNG_OPT_RECVTIMEO, 100));
	VH_OK(nng_listen(f, "inproc://c03-dev-f", NULL, 0));
	VH_OK(nng_listen(rep, "inproc://c03-dev-b", NULL, 0));
	if (!nopeer)
		VH_OK(nng_dial(b, "inproc://c03-dev-b", NULL, 0));
	VH_OK(nng_dial(req, "inproc://c03-dev-f", NULL, 0));
	VH_OK(nng_aio_alloc(&da, NULL, NULL));
	nng_device_aio(da, f, b);
	vs_settle();
	int when = vs_choose(VK_ENV, 5);
	int how  = vs_choose(VK_ENV, 3); // cancel / close f / close b
	for (int st = 0; st < 4; st++) {
		if (st == when) {
			if (how == 0)
				nng_aio_cancel(da);
			else
				(void) nng_socket_close(how == 1 ? f : b);
			vs_settle();
		}
		switch (st) {
		case 0:
			(void) snd(req, "ping", NNG_FLAG_NONBLOCK);
			vs_settle();
			break;
		case 1:
			(void) rcv(rep, 0);
			break;
		case 2:
			(void) snd(rep, "pong", NNG_FLAG_NONBLOCK);
			vs_settle();
			break;
		case 3:
			(void) rcv(req, 0);
			break;
		}
	}
	nng_aio_cancel(da);
	nng_aio_wait(da);
	nng_aio_free(da);
	(void) nng_socket_close(req);
	(void) nng_socket_close(rep);
	(void) nng_socket_close(f);
	(void) nng_socket_close(b);
	vs_outcome("when=%d how=%d nopeer=%d", when, how, nopeer);
	vh_fini();
}

// ---- departure: a pipe is closed while a transfer on it completes (schedules) --------------------
// for every pairing: B sends to A while another thread closes the connection's pipe on A's or on B's
// side; the completion callbacks of the transfer race with the pipe's teardown.  Then the connection
// is re-made and both sockets are used again.  Results are free (the message may go with the pipe);
// the oracles are the sanitizers, the accounting allocator and termination.
static uint32_t dep_id[2];
static void
dep_cb(nng_pipe p, nng_pipe_ev ev, void *arg)
{
	(void) ev;
	dep_id[(int) (intptr_t) arg] = p.id;
}
static void *
dep_send(void *a)
{
	(void) a;
	snd(B, "in-flight", 0);
	return NULL;
}
static void *
dep_recv(void *a)
{
	(void) a;
	rcv(A, 0);
	return NULL;
}
static void *
dep_close(void *a)
{
	nng_pipe p = NNG_PIPE_INITIALIZER;
	p.id       = dep_id[(int) (intptr_t) a];
	nng_pipe_close(p);
	return NULL;
}
static void
run_departure(void *arg)
{
	int pair = (int) (intptr_t) arg;
	vh_init(1);
	VH_OK(PP[pair].a(&A));
	VH_OK(PP[pair].b(&B));
	if (PP[pair].a == nng_sub0_open)
		VH_OK(nng_sub0_socket_subscribe(A, "", 0));
	for (int i = 0; i < 2; i++) {
		nng_socket s = i ? B : A;
		VH_OK(nng_socket_set_ms(s, NNG_OPT_RECVTIMEO, 20));
		VH_OK(nng_socket_set_ms(s, NNG_OPT_SENDTIMEO, 20));
		VH_OK(nng_pipe_notify(s, NNG_PIPE_EV_ADD_POST, dep_cb, (void *) (intptr_t) i));
	}
	VH_OK(nng_socket_set_ms(B, NNG_OPT_RECONNMINT, 5));
	VH_OK(nng_socket_set_ms(B, NNG_OPT_RECONNMAXT, 5));
	dep_id[0] = dep_id[1] = 0;
	VH_OK(nng_listen(A, "inproc://c03dep", NULL, 0));
	VH_OK(nng_dial(B, "inproc://c03dep", NULL, 0));
	vs_settle();
	if (!dep_id[0] || !dep_id[1])
		vs_fail("harness:setup", "pipe ids not seen");
	int side   = vs_choose(VK_ENV, 2); // whose pipe is closed
	int reader = vs_choose(VK_ENV, 2); // a receive is waiting on A / nobody reads
	// one completed transfer first (thorough tier only)
	int warm   = vx_is_thorough() ? vs_choose(VK_ENV, 2) : 0;
	if (warm) {
		snd(B, "warm", 0);
		vs_settle();
		if (reader)
			rcv(A, NNG_FLAG_NONBLOCK);
	}
	pthread_t t1, t2, t3;
	vs_window(1);
	pthread_create(&t1, NULL, dep_send, NULL);
	pthread_create(&t2, NULL, dep_close, (void *) (intptr_t) side);
	if (reader)
		pthread_create(&t3, NULL, dep_recv, NULL);
	pthread_join(t1, NULL);
	pthread_join(t2, NULL);
	if (reader)
		pthread_join(t3, NULL);
	vs_window(0);
	vs_settle();
	vs_sleep(30); // redial
	vs_settle();
	// both sockets are used again
	for (int i = 0; i < 3; i++) {
		snd(B, "again", NNG_FLAG_NONBLOCK);
		vs_settle();
		if (PP[pair].pattern == PAT_REQREP) {
			if (rcv(A, NNG_FLAG_NONBLOCK) == 0) {
				snd(A, "reply", NNG_FLAG_NONBLOCK);
				vs_settle();
				rcv(B, NNG_FLAG_NONBLOCK);
			}
		} else {
			while (rcv(A, NNG_FLAG_NONBLOCK) == 0)
				;
			if (PP[pair].pattern == PAT_BOTH) {
				snd(A, "back", NNG_FLAG_NONBLOCK);
				vs_settle();
				while (rcv(B, NNG_FLAG_NONBLOCK) == 0)
					;
			}
		}
	}
	vs_nontrivial();
	vs_outcome("side=%d reader=%d warm=%d", side, reader, warm);
	nng_socket_close(B);
	nng_socket_close(A);
	vh_fini();
}

static void
explore_dep(int pair, int T)
{
	char name[60];
	snprintf(name, sizeof(name), "departure-%s%s", PP[pair].name, T == 2 ? "-dev2" : "");
	vx_cfg c;
	memset(&c, 0, sizeof(c));
	c.prop     = "C03";
	c.scenario = strdup(name);
	c.run      = run_departure;
	c.arg      = (void *) (intptr_t) pair;
	c.budget[VB_PREEMPT] = 1;
	c.budget[VB_SWITCH]  = T ? 2 : 1; // T: 0 quick, 1 thorough, 2 quick with the thorough budget
	c.budget[VB_TIMER]   = 0;
	c.budget[VB_ENV]     = -1;
	c.total              = T ? 2 : 1;
	c.watchdog_s         = 20;
	vx_explore(&c, NULL);
}

// ---- fan-out release: the last references of a shared message are dropped concurrently -----------
// PUB (or a SURVEYOR / BUS) fans one message out to two peers over ipc; the clones are released by
// the send completions on the task threads and by the sender.  With the atomic operations as
// scheduling points every order of those releases (one preemption) is executed; the accounting
// allocator must see the message freed exactly once.
static void
run_fanout(void *arg)
{
	int        kind = (int) (intptr_t) arg; // 0 pub->sub, 1 bus, 2 surveyor->respondent
	nng_socket src, d1, d2;
	char       url[160];
	vh_init(1);
	snprintf(url, sizeof(url), "ipc://%s/c03fan-%d", vx_rundir(), (int) getpid());
	if (kind == 0) {
		VH_OK(nng_pub0_open(&src));
		VH_OK(nng_sub0_open(&d1));
		VH_OK(nng_sub0_open(&d2));
		VH_OK(nng_sub0_socket_subscribe(d1, "", 0));
		VH_OK(nng_sub0_socket_subscribe(d2, "", 0));
	} else if (kind == 1) {
		VH_OK(nng_bus0_open(&src));
		VH_OK(nng_bus0_open(&d1));
		VH_OK(nng_bus0_open(&d2));
	} else {
		VH_OK(nng_surveyor0_open(&src));
		VH_OK(nng_respondent0_open(&d1));
		VH_OK(nng_respondent0_open(&d2));
	}
	VH_OK(nng_listen(src, url, NULL, 0));
	VH_OK(nng_dial(d1, url, NULL, 0));
	VH_OK(nng_dial(d2, url, NULL, 0));
	vs_settle();
	vs_atomic_points = 1;
	vs_window(1);
	int rv = snd(src, "fan-out", 0);
	vs_settle();
	vs_window(0);
	vs_atomic_points = 0;
	if (rv != 0)
		vs_fail("harness:fanout", "send: %s", nng_strerror(rv));
	int got = 0;
	got += rcv(d1, NNG_FLAG_NONBLOCK) == 0;
	got += rcv(d2, NNG_FLAG_NONBLOCK) == 0;
	vs_nontrivial();
	vs_outcome("kind=%d got=%d", kind, got);
	nng_socket_close(d1);
	nng_socket_close(d2);
	nng_socket_close(src);
	unlink(url + 6);
	vh_fini();
}

static void
explore_fan(int kind)
{
	static const char *FN[] = { "fanout-release-pub", "fanout-release-bus",
		"fanout-release-surveyor" };
	vx_cfg c;
	memset(&c, 0, sizeof(c));
	c.prop     = "C03";
	c.scenario = FN[kind];
	c.run      = run_fanout;
	c.arg      = (void *) (intptr_t) kind;
	c.budget[VB_PREEMPT] = 1;
	c.budget[VB_ENV]     = -1;
	c.total              = 1;
	c.watchdog_s         = 20;
	vx_explore(&c, NULL);
}


// ---- messages dropped because a queue is full ---------------------------------------------------------------
// the dropping protocols (SUB with either drop policy, on the socket and on 0..2 extra contexts; BUS; PUB towards
// a subscriber that does not read) get more messages than their queues hold; what is dropped is released exactly
// once (accounting allocator: no leak after nng_fini, no double free), what is kept is delivered
static void
run_overflow(void *arg)
{
	(void) arg;
	int kind    = vs_choose(VK_ENV, 3);     // 0 SUB, 1 BUS, 2 PUB -> raw subscriber that does not read
	int rbuf    = 1 + vs_choose(VK_ENV, 2); // 1, 2
	int prefnew = vs_choose(VK_ENV, 2);
	int nctx    = vs_choose(VK_ENV, 3);
	int nmsg    = rbuf + 1 + vs_choose(VK_ENV, 3); // 1..3 beyond the capacity
	vh_init(1);
	nng_socket tx, rx;
	nng_ctx    cx[2];
	if (kind == 2) {
		VH_OK(nng_pub0_open(&tx));
		VH_OK(nng_socket_set_int(tx, NNG_OPT_SENDBUF, rbuf));
		nng_listener l;
		int          fd = vp_connect_raw(tx, SP_SUB, &l);
		if (fd < 0)
			vs_fail("harness:setup", "raw subscriber");
		// 1 MB messages: the first fills the kernel buffer and stays in flight, the next rbuf are queued, the
		// rest are dropped
		for (int i = 0; i < nmsg + 1; i++) {
			nng_msg *m;
			VH_OK(nng_msg_alloc(&m, 1u << 20));
			if (nng_sendmsg(tx, m, NNG_FLAG_NONBLOCK) != 0)
				nng_msg_free(m);
			vs_settle();
		}
		vs_outcome("pub sbuf%d n%d", rbuf, nmsg);
		nng_socket_close(tx);
		close(fd);
		vh_fini();
		return;
	}
	VH_OK(kind ? nng_bus0_open(&tx) : nng_pub0_open(&tx));
	VH_OK(kind ? nng_bus0_open(&rx) : nng_sub0_open(&rx));
	VH_OK(nng_socket_set_int(rx, NNG_OPT_RECVBUF, rbuf));
	if (!kind) {
		VH_OK(nng_socket_set_bool(rx, NNG_OPT_SUB_PREFNEW, prefnew));
		VH_OK(nng_sub0_socket_subscribe(rx, "", 0));
		for (int i = 0; i < nctx; i++) {
			VH_OK(nng_ctx_open(&cx[i], rx));
			VH_OK(nng_ctx_set_int(cx[i], NNG_OPT_RECVBUF, rbuf));
			VH_OK(nng_ctx_set_bool(cx[i], NNG_OPT_SUB_PREFNEW, i == 0 ? !prefnew : prefnew));
			VH_OK(nng_sub0_ctx_subscribe(cx[i], "", 0));
		}
	} else
		nctx = 0;
	VH_OK(nng_listen(tx, "inproc://c03ovf", NULL, 0));
	VH_OK(nng_dial(rx, "inproc://c03ovf", NULL, 0));
	vs_settle();
	for (int i = 0; i < nmsg; i++) {
		char b[8];
		snprintf(b, sizeof(b), "m%d", i);
		if (vh_send_nb(tx, b, 3) != 0)
			vs_fail("C03:send", "send %d refused", i);
		vs_settle();
	}
	int      got = 0;
	nng_msg *m;
	while (nng_recvmsg(rx, &m, NNG_FLAG_NONBLOCK) == 0) {
		nng_msg_free(m);
		got++;
	}
	if (got < 1 || got > rbuf + 1)
		vs_fail("C03:queue-content", "%s with a receive buffer of %d got %d of %d messages",
		    kind ? "BUS" : "SUB", rbuf, got, nmsg);
	for (int i = 0; i < nctx; i++) {
		// the first context keeps its content until it is closed, the second is drained
		if (i == 1) {
			nng_aio *a;
			VH_OK(nng_aio_alloc(&a, NULL, NULL));
			for (;;) {
				nng_aio_set_timeout(a, 0);
				nng_ctx_recv(cx[i], a);
				nng_aio_wait(a);
				if (nng_aio_result(a) != 0)
					break;
				nng_msg_free(nng_aio_get_msg(a));
			}
			nng_aio_free(a);
		}
		VH_OK(nng_ctx_close(cx[i]));
	}
	vs_outcome("%s rbuf%d new%d ctx%d n%d got%d", kind ? "bus" : "sub", rbuf, prefnew, nctx, nmsg, got);
	nng_socket_close(rx);
	nng_socket_close(tx);
	vh_fini();
}

static void
explore(const char *name, void (*fn)(void *))
{
	if (vx_time_left() < 15)
		return;
	vx_cfg c;
	memset(&c, 0, sizeof(c));
	c.prop     = "C03";
	c.scenario = name;
	c.run      = fn;
	for (int i = 0; i < VB_NB; i++)
		c.budget[i] = 0;
	c.budget[VB_ENV] = -1;
	c.total          = 0;
	vx_explore(&c, NULL);
}

int
main(int argc, char **argv)
{
	vx_init(argc, argv, "C03");
	int T = vx_is_thorough();
	for (g_tran = 0; g_tran < TR_N; g_tran++)
		for (g_pair = 0; g_pair < NPP; g_pair++) {
			char name[60];
			g_ninsert = 1;
			// quick: every pairing over inproc and ipc, the cooked ones over tcp and ws
			if (!T && g_tran >= TR_TCP && g_pair >= 7)
				continue;
			snprintf(name, sizeof(name), "%s-1ins%s%s", PP[g_pair].name,
			    g_tran ? "-" : "", g_tran ? TRN[g_tran] : "");
			explore(strdup(name), run_script);
		}
	g_tran = TR_INPROC;
	for (int tr = 0; tr < RT_N; tr++)
		for (int pi = 0; pi < (tr == RT_WS ? 1 : NSP); pi++) {
			char name[60];
			if (!T && tr != RT_SOCKFD && pi >= 3)
				continue; // quick: every protocol over socket://, three over ipc/tcp
			snprintf(name, sizeof(name), "stalled-%s-%s", SP_[pi].name, RTN[tr]);
			vx_cfg c;
			memset(&c, 0, sizeof(c));
			c.prop           = "C03";
			c.scenario       = strdup(name);
			c.run            = run_stalled;
			c.arg            = (void *) (intptr_t) (tr * 16 + pi);
			c.budget[VB_ENV] = -1;
			vx_explore(&c, NULL);
		}
	{
		vx_cfg c;
		memset(&c, 0, sizeof(c));
		c.prop               = "C03";
		c.scenario           = "ws-control-teardown";
		c.run                = run_wsctl;
		c.budget[VB_ENV]     = -1;
		c.budget[VB_PREEMPT] = T ? 1 : 0;
		c.budget[VB_SWITCH]  = 1;
		c.total              = 1;
		vx_explore(&c, NULL);
	}
	{
		vx_cfg c;
		memset(&c, 0, sizeof(c));
		c.prop               = "C03";
		c.scenario           = "ws-stream-control-teardown";
		c.run                = run_wsstream;
		c.budget[VB_ENV]     = -1;
		c.budget[VB_PREEMPT] = 1;
		c.budget[VB_SWITCH]  = 1;
		c.total              = 1;
		vx_explore(&c, NULL);
	}
	explore("req-resend-time-change", run_reqresend);
	explore("queue-overflow-drops", run_overflow);
	for (int md = 0; md < 3; md++) {
		static const char *SN[] = { "stats-vs-connection", "stats-vs-socket-close",
			"stats-vs-listener" };
		vx_cfg c;
		memset(&c, 0, sizeof(c));
		c.prop               = "C03";
		c.scenario           = SN[md];
		c.run                = run_stats;
		c.arg                = (void *) (intptr_t) md;
		c.budget[VB_PREEMPT] = T ? 2 : 1;
		c.budget[VB_SWITCH]  = 2;
		c.budget[VB_ENV]     = -1;
		c.total              = 2;
		c.deadline_s         = T ? 120 : 10;
		vx_explore(&c, NULL);
	}
	explore("device", run_device);
	{
		vx_cfg c;
		memset(&c, 0, sizeof(c));
		c.prop           = "C03";
		c.scenario       = "device-stopped-while-forwarding";
		c.run            = run_device;
		c.arg            = (void *) (intptr_t) 1;
		c.budget[VB_ENV] = -1;
		vx_explore(&c, NULL);
	}
	for (int k = 0; k < 3; k++)
		explore_fan(k);
	// quick: the cooked pairings; thorough: all of them, also after a warm-up transfer
	for (int pr = 0; pr < (T ? NPP : 7); pr++)
		explore_dep(pr, T);
	if (!T)
		explore_dep(4, 2); // pair0 also with two deviations (the detached-pipe defect needs both)
	if (T) {
		for (g_pair = 0; g_pair < NPP; g_pair++) {
			char name[60];
			g_ninsert = 2;
			snprintf(name, sizeof(name), "%s-2ins", PP[g_pair].name);
			explore(strdup(name), run_script);
		}
	}
	vx_note("space",
	    "%d protocol pairings x %d insertion points x %d perturbation kinds "
	    "(%s); device: 5 positions x 3 ways to stop it",
	    NPP, S_NSTEPS - 2, K_N, T ? "1 and 2 insertions" : "1 insertion");
	return vx_finish();
}
