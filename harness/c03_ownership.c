// C03 - message ownership, memory safety and no leaks for any API usage.
// For every protocol pairing a base exchange script is run with every
// perturbation (option change, context/aio life cycle, cancel/stop, failed
// send, pipe close, peer loss, device) inserted at every position (one
// insertion in the quick tier, two in the thorough tier).  Oracles: ASan /
// UBSan (engine), the accounting allocator (sized free, double/foreign free,
// zero live blocks after nng_fini) and the ownership ledger: after a failed
// send the harness frees the message (a library free would be a double
// free), after a successful send it never touches it, after a successful
// receive it frees it.
#define _GNU_SOURCE
#include "valloc.h"
#include "vpeer.h"
#include "vs.h"
#include <pthread.h>
#include <stdlib.h>
#include <string.h>
#include <unistd.h>

typedef int (*open_fn)(nng_socket *);
enum { PAT_REQREP, PAT_ONEWAY_BA, PAT_BOTH };
static const struct {
	const char *name;
	open_fn     a, b; // a listens, b dials
	int         pattern;
	int         ctx_a, ctx_b;
} PP[] = {
	{ "req-rep", nng_rep0_open, nng_req0_open, PAT_REQREP, 1, 1 },
	{ "surveyor-respondent", nng_respondent0_open, nng_surveyor0_open,
	    PAT_REQREP, 1, 1 },
	{ "pub-sub", nng_sub0_open, nng_pub0_open, PAT_ONEWAY_BA, 1, 0 },
	{ "push-pull", nng_pull0_open, nng_push0_open, PAT_ONEWAY_BA, 0, 0 },
	{ "pair0", nng_pair0_open, nng_pair0_open, PAT_BOTH, 0, 0 },
	{ "pair1", nng_pair1_open, nng_pair1_open, PAT_BOTH, 0, 0 },
	{ "bus", nng_bus0_open, nng_bus0_open, PAT_BOTH, 0, 0 },
	{ "xreq-rep", nng_rep0_open, nng_req0_open_raw, PAT_ONEWAY_BA, 1, 0 },
	{ "req-xrep", nng_rep0_open_raw, nng_req0_open, PAT_ONEWAY_BA, 0, 1 },
	{ "xpub-xsub", nng_sub0_open_raw, nng_pub0_open_raw, PAT_ONEWAY_BA, 0, 0 },
	{ "xbus", nng_bus0_open_raw, nng_bus0_open_raw, PAT_BOTH, 0, 0 },
	{ "xsurveyor-xrespondent", nng_respondent0_open_raw,
	    nng_surveyor0_open_raw, PAT_ONEWAY_BA, 0, 0 },
};
#define NPP ((int) (sizeof(PP) / sizeof(PP[0])))

static nng_socket A, B;
static int        a_open, b_open;
static int        destructive; // later steps may legitimately fail
static int        g_pair, g_ninsert;
static nng_pipe   last_pipe;
static int        have_pipe;

static void
pcb(nng_pipe p, nng_pipe_ev ev, void *arg)
{
	(void) arg;
	if (ev == NNG_PIPE_EV_ADD_POST) {
		last_pipe = p;
		have_pipe = 1;
	}
}

// ---- ownership-aware primitives ------------------------------------------------
static int
snd(nng_socket s, const char *body, int flags)
{
	nng_msg *m;
	if (nng_msg_alloc(&m, 0) != 0)
		vs_fail("harness:setup", "msg alloc");
	nng_msg_append(m, body, strlen(body));
	int rv = nng_sendmsg(s, m, flags);
	if (rv != 0)
		nng_msg_free(m); // still ours: a library free => double free
	return rv;
}
static int
rcv(nng_socket s, int flags)
{
	nng_msg *m  = NULL;
	int      rv = nng_recvmsg(s, &m, flags);
	if (rv == 0) {
		// touch every byte (ASan: the message must be wholly valid)
		volatile uint8_t sum = 0;
		for (size_t i = 0; i < nng_msg_len(m); i++)
			sum ^= ((uint8_t *) nng_msg_body(m))[i];
		for (size_t i = 0; i < nng_msg_header_len(m); i++)
			sum ^= ((uint8_t *) nng_msg_header(m))[i];
		nng_msg_free(m);
	}
	return rv;
}
// raw sockets echo what they got (header intact) - for xrep style steps
static int
fwd(nng_socket from, nng_socket to)
{
	nng_msg *m  = NULL;
	int      rv = nng_recvmsg(from, &m, NNG_FLAG_NONBLOCK);
	if (rv != 0)
		return rv;
	rv = nng_sendmsg(to, m, NNG_FLAG_NONBLOCK);
	if (rv != 0)
		nng_msg_free(m);
	return rv;
}

static void
nop_cb(void *a)
{
	(void) a;
}

// ---- perturbations ----------------------------------------------------------------
enum {
	K_NONE,
	K_RECVBUF0_A, K_RECVBUF1_A, K_RECVBUF8_A,
	K_SENDBUF0_B, K_SENDBUF1_B, K_SENDBUF8_B,
	K_RECVBUF1_B, K_SENDBUF1_A, K_SENDBUF_5_10_B, K_RECVBUF_5_3_A,
	K_SENDBUF_3_B_RECVBUF_6_A,
	K_RESEND_INF, K_RESEND_1MS, K_SURVEYTIME_1,
	K_MAXTTL1_A, K_PREFNEW_OFF, K_RECVMAX_2,
	K_CTX_OPENCLOSE_A, K_CTX_PENDING_CLOSE_A, K_CTX_OPENCLOSE_B,
	K_AIO_RECV_CANCEL_A, K_AIO_RECV_STOP_A, K_AIO_RECV_CANCEL_B,
	K_AIO_SEND_CANCEL_B,
	K_NB_SEND_B, K_NB_SEND_A, K_NB_RECV_A, K_NB_RECV_B,
	K_TIMED_SEND_B, K_TIMED_RECV_A,
	K_EXTRA_SEND_B, K_EXTRA_SEND_A,
	K_PIPE_CLOSE, K_PEER_LOSS_B, K_PEER_LOSS_A, K_SLEEP_5,
	K_N
};
static const char *KN[] = { "none", "recvbuf0(A)", "recvbuf1(A)", "recvbuf8(A)",
	"sendbuf0(B)", "sendbuf1(B)", "sendbuf8(B)", "recvbuf1(B)", "sendbuf1(A)",
	"sendbuf 5 then 10(B)", "recvbuf 5 then 3(A)", "sendbuf3(B)+recvbuf6(A)",
	"resend=inf(B)", "resend=1ms(B)", "surveytime=1(B)", "maxttl=1(A)",
	"prefnew=off(A)", "recvmaxsz=2(A)", "ctx open/close(A)",
	"ctx pending recv + close(A)", "ctx open/close(B)", "aio recv + cancel(A)",
	"aio recv + stop(A)", "aio recv + cancel(B)", "aio send + cancel(B)",
	"nonblock send(B)", "nonblock send(A)", "nonblock recv(A)",
	"nonblock recv(B)", "send timeout 1ms(B)", "recv timeout 1ms(A)",
	"extra send(B)", "extra send(A)", "pipe close", "close B", "close A",
	"sleep 5ms" };

static void
perturb(int k)
{
	nng_ctx  c;
	nng_aio *aio;
	nng_msg *m;
	int      rv;
	switch (k) {
	case K_NONE:
		break;
	case K_RECVBUF0_A:
		(void) nng_socket_set_int(A, NNG_OPT_RECVBUF, 0);
		break;
	case K_RECVBUF1_A:
		(void) nng_socket_set_int(A, NNG_OPT_RECVBUF, 1);
		break;
	case K_RECVBUF8_A:
		(void) nng_socket_set_int(A, NNG_OPT_RECVBUF, 8);
		break;
	case K_SENDBUF0_B:
		(void) nng_socket_set_int(B, NNG_OPT_SENDBUF, 0);
		break;
	case K_SENDBUF1_B:
		(void) nng_socket_set_int(B, NNG_OPT_SENDBUF, 1);
		break;
	case K_SENDBUF8_B:
		(void) nng_socket_set_int(B, NNG_OPT_SENDBUF, 8);
		break;
	case K_RECVBUF1_B:
		(void) nng_socket_set_int(B, NNG_OPT_RECVBUF, 1);
		break;
	case K_SENDBUF1_A:
		(void) nng_socket_set_int(A, NNG_OPT_SENDBUF, 1);
		break;
	case K_SENDBUF_5_10_B:
		(void) nng_socket_set_int(B, NNG_OPT_SENDBUF, 5);
		(void) nng_socket_set_int(B, NNG_OPT_SENDBUF, 10);
		break;
	case K_RECVBUF_5_3_A:
		(void) nng_socket_set_int(A, NNG_OPT_RECVBUF, 5);
		(void) nng_socket_set_int(A, NNG_OPT_RECVBUF, 3);
		break;
	case K_SENDBUF_3_B_RECVBUF_6_A:
		(void) nng_socket_set_int(B, NNG_OPT_SENDBUF, 3);
		(void) nng_socket_set_int(A, NNG_OPT_RECVBUF, 6);
		(void) nng_socket_set_int(B, NNG_OPT_SENDBUF, 6);
		(void) nng_socket_set_int(A, NNG_OPT_RECVBUF, 12);
		break;
	case K_RESEND_INF:
		(void) nng_socket_set_ms(B, NNG_OPT_REQ_RESENDTIME,
		    NNG_DURATION_INFINITE);
		break;
	case K_RESEND_1MS:
		(void) nng_socket_set_ms(B, NNG_OPT_REQ_RESENDTIME, 1);
		break;
	case K_SURVEYTIME_1:
		(void) nng_socket_set_ms(B, NNG_OPT_SURVEYOR_SURVEYTIME, 1);
		break;
	case K_MAXTTL1_A:
		(void) nng_socket_set_int(A, NNG_OPT_MAXTTL, 1);
		break;
	case K_PREFNEW_OFF:
		(void) nng_socket_set_bool(A, NNG_OPT_SUB_PREFNEW, false);
		break;
	case K_RECVMAX_2:
		(void) nng_socket_set_size(A, NNG_OPT_RECVMAXSZ, 2);
		break;
	case K_CTX_OPENCLOSE_A:
	case K_CTX_OPENCLOSE_B:
		if (nng_ctx_open(&c, k == K_CTX_OPENCLOSE_A ? A : B) == 0)
			nng_ctx_close(c);
		break;
	case K_CTX_PENDING_CLOSE_A:
		if (nng_ctx_open(&c, A) == 0) {
			if (nng_aio_alloc(&aio, nop_cb, NULL) != 0)
				vs_fail("harness:setup", "aio alloc");
			nng_ctx_recv(c, aio);
			vs_settle();
			nng_ctx_close(c);
			nng_aio_wait(aio);
			if (nng_aio_result(aio) == 0)
				nng_msg_free(nng_aio_get_msg(aio));
			nng_aio_free(aio);
		}
		break;
	case K_AIO_RECV_CANCEL_A:
	case K_AIO_RECV_STOP_A:
	case K_AIO_RECV_CANCEL_B:
		if (nng_aio_alloc(&aio, nop_cb, NULL) != 0)
			vs_fail("harness:setup", "aio alloc");
		nng_socket_recv(k == K_AIO_RECV_CANCEL_B ? B : A, aio);
		vs_settle();
		if (k == K_AIO_RECV_STOP_A)
			nng_aio_stop(aio);
		else
			nng_aio_cancel(aio);
		nng_aio_wait(aio);
		if (nng_aio_result(aio) == 0)
			nng_msg_free(nng_aio_get_msg(aio));
		nng_aio_free(aio);
		break;
	case K_AIO_SEND_CANCEL_B:
		if (nng_aio_alloc(&aio, nop_cb, NULL) != 0 ||
		    nng_msg_alloc(&m, 8) != 0)
			vs_fail("harness:setup", "aio alloc");
		nng_aio_set_msg(aio, m);
		nng_socket_send(B, aio);
		nng_aio_cancel(aio);
		nng_aio_wait(aio);
		if (nng_aio_result(aio) != 0) {
			// failed send: the message is still attached and ours
			if (nng_aio_get_msg(aio) != m)
				vs_fail("C03:ownership:aio-msg-detached",
				    "%s: failed aio send (%d) no longer carries the "
				    "caller's message",
				    PP[g_pair].name, nng_aio_result(aio));
			nng_msg_free(m);
		}
		nng_aio_free(aio);
		break;
	case K_NB_SEND_B:
		(void) snd(B, "nb", NNG_FLAG_NONBLOCK);
		break;
	case K_NB_SEND_A:
		(void) snd(A, "nb", NNG_FLAG_NONBLOCK);
		break;
	case K_NB_RECV_A:
		(void) rcv(A, NNG_FLAG_NONBLOCK);
		break;
	case K_NB_RECV_B:
		(void) rcv(B, NNG_FLAG_NONBLOCK);
		break;
	case K_TIMED_SEND_B:
		(void) nng_socket_set_ms(B, NNG_OPT_SENDTIMEO, 1);
		(void) snd(B, "timed", 0);
		(void) nng_socket_set_ms(B, NNG_OPT_SENDTIMEO, 100);
		break;
	case K_TIMED_RECV_A:
		(void) nng_socket_set_ms(A, NNG_OPT_RECVTIMEO, 1);
		(void) rcv(A, 0);
		(void) nng_socket_set_ms(A, NNG_OPT_RECVTIMEO, 100);
		break;
	case K_EXTRA_SEND_B:
		for (int i = 0; i < 3; i++)
			(void) snd(B, "extraB", NNG_FLAG_NONBLOCK);
		break;
	case K_EXTRA_SEND_A:
		for (int i = 0; i < 3; i++)
			(void) snd(A, "extraA", NNG_FLAG_NONBLOCK);
		break;
	case K_PIPE_CLOSE:
		if (have_pipe) {
			(void) nng_pipe_close(last_pipe);
			destructive = 1;
		}
		break;
	case K_PEER_LOSS_B:
		if (b_open) {
			rv = nng_socket_close(B);
			if (rv != 0)
				vs_fail("C03:close", "close(B) -> %d", rv);
			b_open      = 0;
			destructive = 1;
		}
		break;
	case K_PEER_LOSS_A:
		if (a_open) {
			rv = nng_socket_close(A);
			if (rv != 0)
				vs_fail("C03:close", "close(A) -> %d", rv);
			a_open      = 0;
			destructive = 1;
		}
		break;
	case K_SLEEP_5:
		vs_sleep(5);
		break;
	}
	vs_settle();
}

// base script steps
enum { S_OPEN, S_OPTS, S_LISTEN, S_DIAL, S_SEND1, S_RECV1, S_SEND2, S_RECV2,
	S_CLOSEB, S_CLOSEA, S_NSTEPS };

static void
step(int st)
{
	const int pat = PP[g_pair].pattern;
	char      url[64];
	snprintf(url, sizeof(url), "inproc://c03-%s", PP[g_pair].name);
	switch (st) {
	case S_OPEN:
		VH_OK(PP[g_pair].a(&A));
		VH_OK(PP[g_pair].b(&B));
		a_open = b_open = 1;
		break;
	case S_OPTS:
		VH_OK(nng_socket_set_ms(A, NNG_OPT_RECVTIMEO, 100));
		VH_OK(nng_socket_set_ms(A, NNG_OPT_SENDTIMEO, 100));
		VH_OK(nng_socket_set_ms(B, NNG_OPT_RECVTIMEO, 100));
		VH_OK(nng_socket_set_ms(B, NNG_OPT_SENDTIMEO, 100));
		(void) nng_pipe_notify(A, NNG_PIPE_EV_ADD_POST, pcb, NULL);
		if (strstr(PP[g_pair].name, "-sub") && !strstr(PP[g_pair].name, "x"))
			VH_OK(nng_sub0_socket_subscribe(A, "", 0));
		break;
	case S_LISTEN:
		if (a_open && nng_listen(A, url, NULL, 0) != 0 && !destructive)
			vs_fail("harness:setup", "listen");
		break;
	case S_DIAL:
		if (b_open && nng_dial(B, url, NULL, NNG_FLAG_NONBLOCK) != 0 &&
		    !destructive)
			vs_fail("harness:setup", "dial");
		vs_settle();
		break;
	case S_SEND1:
		if (pat == PAT_BOTH) {
			if (a_open)
				(void) snd(A, "from-A", 0);
		}
		if (b_open)
			(void) snd(B, "from-B-1", 0);
		vs_settle();
		break;
	case S_RECV1:
		if (a_open)
			(void) rcv(A, 0);
		if (pat == PAT_BOTH && b_open)
			(void) rcv(B, 0);
		break;
	case S_SEND2:
		if (pat == PAT_REQREP) {
			if (a_open)
				(void) snd(A, "reply", 0);
		} else if (b_open)
			(void) snd(B, "from-B-2", 0);
		vs_settle();
		break;
	case S_RECV2:
		if (pat == PAT_REQREP) {
			if (b_open)
				(void) rcv(B, 0);
		} else if (a_open)
			(void) rcv(A, 0);
		break;
	case S_CLOSEB:
		if (b_open) {
			if (nng_socket_close(B) != 0)
				vs_fail("C03:close", "close(B) failed");
			b_open = 0;
		}
		break;
	case S_CLOSEA:
		if (a_open) {
			if (nng_socket_close(A) != 0)
				vs_fail("C03:close", "close(A) failed");
			a_open = 0;
		}
		break;
	}
}

static void
run_script(void *arg)
{
	(void) arg;
	vh_init(1);
	a_open = b_open = destructive = have_pipe = 0;
	int pos[2], kind[2];
	for (int i = 0; i < g_ninsert; i++) {
		// insertion points: before step 2 (after open+opts) .. before close A
		pos[i]  = 2 + vs_choose(VK_ENV, S_NSTEPS - 2);
		kind[i] = vs_choose(VK_ENV, K_N);
	}
	char desc[200] = "";
	for (int i = 0; i < g_ninsert; i++)
		snprintf(desc + strlen(desc), sizeof(desc) - strlen(desc), "%s%s@%d",
		    i ? " + " : "", KN[kind[i]], pos[i]);
	vs_log("%s: %s", PP[g_pair].name, desc);
	for (int st = 0; st < S_NSTEPS; st++) {
		for (int i = 0; i < g_ninsert; i++)
			if (pos[i] == st)
				perturb(kind[i]);
		step(st);
	}
	vs_outcome("%s", destructive ? "destructive" : "clean");
	vh_fini(); // balance check: every block returned, with its size
}

// ---- device scenario ----------------------------------------------------------------------
static void
run_device(void *arg)
{
	(void) arg;
	vh_init(1);
	nng_socket f, b, req, rep;
	nng_aio   *da;
	VH_OK(nng_rep0_open_raw(&f));
	VH_OK(nng_req0_open_raw(&b));
	VH_OK(nng_req0_open(&req));
	VH_OK(nng_rep0_open(&rep));
	VH_OK(nng_socket_set_ms(req, NNG_OPT_RECVTIMEO, 100));
	VH_OK(nng_socket_set_ms(rep, NNG_OPT_RECVTIMEO, 100));
	VH_OK(nng_listen(f, "inproc://c03-dev-f", NULL, 0));
	VH_OK(nng_listen(rep, "inproc://c03-dev-b", NULL, 0));
	VH_OK(nng_dial(b, "inproc://c03-dev-b", NULL, 0));
	VH_OK(nng_dial(req, "inproc://c03-dev-f", NULL, 0));
	VH_OK(nng_aio_alloc(&da, NULL, NULL));
	nng_device_aio(da, f, b);
	vs_settle();
	int when = vs_choose(VK_ENV, 5);
	int how  = vs_choose(VK_ENV, 3); // cancel / close f / close b
	for (int st = 0; st < 4; st++) {
		if (st == when) {
			if (how == 0)
				nng_aio_cancel(da);
			else
				(void) nng_socket_close(how == 1 ? f : b);
			vs_settle();
		}
		switch (st) {
		case 0:
			(void) snd(req, "ping", NNG_FLAG_NONBLOCK);
			vs_settle();
			break;
		case 1:
			(void) rcv(rep, 0);
			break;
		case 2:
			(void) snd(rep, "pong", NNG_FLAG_NONBLOCK);
			vs_settle();
			break;
		case 3:
			(void) rcv(req, 0);
			break;
		}
	}
	nng_aio_cancel(da);
	nng_aio_wait(da);
	nng_aio_free(da);
	(void) nng_socket_close(req);
	(void) nng_socket_close(rep);
	(void) nng_socket_close(f);
	(void) nng_socket_close(b);
	vs_outcome("when=%d how=%d", when, how);
	vh_fini();
}

// ---- departure: a pipe is closed while a transfer on it completes (schedules) --------------------
// for every pairing: B sends to A while another thread closes the connection's pipe on A's or on B's
// side; the completion callbacks of the transfer race with the pipe's teardown.  Then the connection
// is re-made and both sockets are used again.  Results are free (the message may go with the pipe);
// the oracles are the sanitizers, the accounting allocator and termination.
static uint32_t dep_id[2];
static void
dep_cb(nng_pipe p, nng_pipe_ev ev, void *arg)
{
	(void) ev;
	dep_id[(int) (intptr_t) arg] = p.id;
}
static void *
dep_send(void *a)
{
	(void) a;
	snd(B, "in-flight", 0);
	return NULL;
}
static void *
dep_recv(void *a)
{
	(void) a;
	rcv(A, 0);
	return NULL;
}
static void *
dep_close(void *a)
{
	nng_pipe p = NNG_PIPE_INITIALIZER;
	p.id       = dep_id[(int) (intptr_t) a];
	nng_pipe_close(p);
	return NULL;
}
static void
run_departure(void *arg)
{
	int pair = (int) (intptr_t) arg;
	vh_init(1);
	VH_OK(PP[pair].a(&A));
	VH_OK(PP[pair].b(&B));
	if (PP[pair].a == nng_sub0_open)
		VH_OK(nng_sub0_socket_subscribe(A, "", 0));
	for (int i = 0; i < 2; i++) {
		nng_socket s = i ? B : A;
		VH_OK(nng_socket_set_ms(s, NNG_OPT_RECVTIMEO, 20));
		VH_OK(nng_socket_set_ms(s, NNG_OPT_SENDTIMEO, 20));
		VH_OK(nng_pipe_notify(s, NNG_PIPE_EV_ADD_POST, dep_cb, (void *) (intptr_t) i));
	}
	VH_OK(nng_socket_set_ms(B, NNG_OPT_RECONNMINT, 5));
	VH_OK(nng_socket_set_ms(B, NNG_OPT_RECONNMAXT, 5));
	dep_id[0] = dep_id[1] = 0;
	VH_OK(nng_listen(A, "inproc://c03dep", NULL, 0));
	VH_OK(nng_dial(B, "inproc://c03dep", NULL, 0));
	vs_settle();
	if (!dep_id[0] || !dep_id[1])
		vs_fail("harness:setup", "pipe ids not seen");
	int side   = vs_choose(VK_ENV, 2); // whose pipe is closed
	int reader = vs_choose(VK_ENV, 2); // a receive is waiting on A / nobody reads
	// one completed transfer first (thorough tier only)
	int warm   = vx_is_thorough() ? vs_choose(VK_ENV, 2) : 0;
	if (warm) {
		snd(B, "warm", 0);
		vs_settle();
		if (reader)
			rcv(A, NNG_FLAG_NONBLOCK);
	}
	pthread_t t1, t2, t3;
	vs_window(1);
	pthread_create(&t1, NULL, dep_send, NULL);
	pthread_create(&t2, NULL, dep_close, (void *) (intptr_t) side);
	if (reader)
		pthread_create(&t3, NULL, dep_recv, NULL);
	pthread_join(t1, NULL);
	pthread_join(t2, NULL);
	if (reader)
		pthread_join(t3, NULL);
	vs_window(0);
	vs_settle();
	vs_sleep(30); // redial
	vs_settle();
	// both sockets are used again
	for (int i = 0; i < 3; i++) {
		snd(B, "again", NNG_FLAG_NONBLOCK);
		vs_settle();
		if (PP[pair].pattern == PAT_REQREP) {
			if (rcv(A, NNG_FLAG_NONBLOCK) == 0) {
				snd(A, "reply", NNG_FLAG_NONBLOCK);
				vs_settle();
				rcv(B, NNG_FLAG_NONBLOCK);
			}
		} else {
			while (rcv(A, NNG_FLAG_NONBLOCK) == 0)
				;
			if (PP[pair].pattern == PAT_BOTH) {
				snd(A, "back", NNG_FLAG_NONBLOCK);
				vs_settle();
				while (rcv(B, NNG_FLAG_NONBLOCK) == 0)
					;
			}
		}
	}
	vs_nontrivial();
	vs_outcome("side=%d reader=%d warm=%d", side, reader, warm);
	nng_socket_close(B);
	nng_socket_close(A);
	vh_fini();
}

static void
explore_dep(int pair, int T)
{
	char name[60];
	snprintf(name, sizeof(name), "departure-%s%s", PP[pair].name, T == 2 ? "-dev2" : "");
	vx_cfg c;
	memset(&c, 0, sizeof(c));
	c.prop     = "C03";
	c.scenario = strdup(name);
	c.run      = run_departure;
	c.arg      = (void *) (intptr_t) pair;
	c.budget[VB_PREEMPT] = 1;
	c.budget[VB_SWITCH]  = T ? 2 : 1; // T: 0 quick, 1 thorough, 2 quick with the thorough budget
	c.budget[VB_TIMER]   = 0;
	c.budget[VB_ENV]     = -1;
	c.total              = T ? 2 : 1;
	c.watchdog_s         = 20;
	vx_explore(&c, NULL);
}

// ---- fan-out release: the last references of a shared message are dropped concurrently -----------
// PUB (or a SURVEYOR / BUS) fans one message out to two peers over ipc; the clones are released by
// the send completions on the task threads and by the sender.  With the atomic operations as
// scheduling points every order of those releases (one preemption) is executed; the accounting
// allocator must see the message freed exactly once.
static void
run_fanout(void *arg)
{
	int        kind = (int) (intptr_t) arg; // 0 pub->sub, 1 bus, 2 surveyor->respondent
	nng_socket src, d1, d2;
	char       url[160];
	vh_init(1);
	snprintf(url, sizeof(url), "ipc://%s/c03fan-%d", vx_rundir(), (int) getpid());
	if (kind == 0) {
		VH_OK(nng_pub0_open(&src));
		VH_OK(nng_sub0_open(&d1));
		VH_OK(nng_sub0_open(&d2));
		VH_OK(nng_sub0_socket_subscribe(d1, "", 0));
		VH_OK(nng_sub0_socket_subscribe(d2, "", 0));
	} else if (kind == 1) {
		VH_OK(nng_bus0_open(&src));
		VH_OK(nng_bus0_open(&d1));
		VH_OK(nng_bus0_open(&d2));
	} else {
		VH_OK(nng_surveyor0_open(&src));
		VH_OK(nng_respondent0_open(&d1));
		VH_OK(nng_respondent0_open(&d2));
	}
	VH_OK(nng_listen(src, url, NULL, 0));
	VH_OK(nng_dial(d1, url, NULL, 0));
	VH_OK(nng_dial(d2, url, NULL, 0));
	vs_settle();
	vs_atomic_points = 1;
	vs_window(1);
	int rv = snd(src, "fan-out", 0);
	vs_settle();
	vs_window(0);
	vs_atomic_points = 0;
	if (rv != 0)
		vs_fail("harness:fanout", "send: %s", nng_strerror(rv));
	int got = 0;
	got += rcv(d1, NNG_FLAG_NONBLOCK) == 0;
	got += rcv(d2, NNG_FLAG_NONBLOCK) == 0;
	vs_nontrivial();
	vs_outcome("kind=%d got=%d", kind, got);
	nng_socket_close(d1);
	nng_socket_close(d2);
	nng_socket_close(src);
	unlink(url + 6);
	vh_fini();
}

static void
explore_fan(int kind)
{
	static const char *FN[] = { "fanout-release-pub", "fanout-release-bus",
		"fanout-release-surveyor" };
	vx_cfg c;
	memset(&c, 0, sizeof(c));
	c.prop     = "C03";
	c.scenario = FN[kind];
	c.run      = run_fanout;
	c.arg      = (void *) (intptr_t) kind;
	c.budget[VB_PREEMPT] = 1;
	c.budget[VB_ENV]     = -1;
	c.total              = 1;
	c.watchdog_s         = 20;
	vx_explore(&c, NULL);
}

static void
explore(const char *name, void (*fn)(void *))
{
	if (vx_time_left() < 15)
		return;
	vx_cfg c;
	memset(&c, 0, sizeof(c));
	c.prop     = "C03";
	c.scenario = name;
	c.run      = fn;
	for (int i = 0; i < VB_NB; i++)
		c.budget[i] = 0;
	c.budget[VB_ENV] = -1;
	c.total          = 0;
	vx_explore(&c, NULL);
}

int
main(int argc, char **argv)
{
	vx_init(argc, argv, "C03");
	int T = vx_is_thorough();
	for (g_pair = 0; g_pair < NPP; g_pair++) {
		char name[60];
		g_ninsert = 1;
		snprintf(name, sizeof(name), "%s-1ins", PP[g_pair].name);
		explore(strdup(name), run_script);
	}
	explore("device", run_device);
	for (int k = 0; k < 3; k++)
		explore_fan(k);
	// quick: the cooked pairings; thorough: all of them, also after a warm-up transfer
	for (int pr = 0; pr < (T ? NPP : 7); pr++)
		explore_dep(pr, T);
	if (!T)
		explore_dep(4, 2); // pair0 also with two deviations (the detached-pipe defect needs both)
	if (T) {
		for (g_pair = 0; g_pair < NPP; g_pair++) {
			char name[60];
			g_ninsert = 2;
			snprintf(name, sizeof(name), "%s-2ins", PP[g_pair].name);
			explore(strdup(name), run_script);
		}
	}
	vx_note("space",
	    "%d protocol pairings x %d insertion points x %d perturbation kinds "
	    "(%s); device: 5 positions x 3 ways to stop it",
	    NPP, S_NSTEPS - 2, K_N, T ? "1 and 2 insertions" : "1 insertion");
	return vx_finish();
}
