// C16 - HTTP / WebSocket codecs: segmentation independent and rule enforcing.
//
// (a) chunk parser, direct (no scheduler): corpus of valid chunked bodies and
//     every single mutation from a list, EVERY 0/1/2-cut segmentation, against
//     an independent reference decoder.
// (b) websocket full stack over loopback TCP under the scheduler:
//     raw client <-> nng pair0 ws listener: frame sequences (well-formed base
//     shapes + at most one frame-level rule violation) against a reference
//     acceptor that encodes the RFC 6455 rules named in the statement; strict
//     decoder for everything the library emits (101 response, pong, close,
//     data frames for a sweep of ws:txframe-max x message sizes); 1/2-cut
//     segmentations of well-formed sequences.
//     nng pair0 ws dialer <-> raw server: strict check of the upgrade request,
//     masked client frames, masked server frame fails the connection, 101
//     response cut at every offset, malformed status lines.
// (c) nng_http_server + handler <-> raw client: GET / POST cut at every offset,
//     two pipelined requests cut at every offset, request line mutations.
// (d) nng_http_client + nng_http_transact <-> raw server: Content-Length and
//     chunked responses cut at every offset, malformed status lines and chunk
//     sizes, strict check of the emitted request.
//
// Cases are batched (several per execution, each on a fresh TCP connection);
// a failing case does not stop its batch, the first failure is reported at
// the end of the execution.  Families that fail on the current tree live in
// their own scenario with a signature detail (":control-in-limit",
// ":pipelined", ":empty-method") so that they cannot mask anything else.
#define _GNU_SOURCE
#include "core/nng_impl.h"

#include "supplemental/http/http_chunk.c"

#include "venum.h"
#include "vpeer.h"
#include "vs.h"
#include <arpa/inet.h>
#include <errno.h>
#include <fcntl.h>
#include <netinet/in.h>
#include <netinet/tcp.h>
#include <nng/http.h>
#include <stdarg.h>
#include <stdio.h>
#include <stdlib.h>
#include <string.h>
#include <sys/socket.h>
#include <unistd.h>

// =====================================================================================
// reference SHA-1 and base64 (RFC 3174 / RFC 4648), written for the harness
// =====================================================================================
static uint32_t
rol32(uint32_t x, int n)
{
	return (x << n) | (x >> (32 - n));
}

static void
ref_sha1(const uint8_t *d, size_t n, uint8_t out[20])
{
	uint32_t h0 = 0x67452301u, h1 = 0xEFCDAB89u, h2 = 0x98BADCFEu,
	         h3 = 0x10325476u, h4 = 0xC3D2E1F0u;
	size_t   tot = ((n + 8) / 64 + 1) * 64;
	uint8_t *m   = calloc(1, tot);
	memcpy(m, d, n);
	m[n]          = 0x80;
	uint64_t bits = (uint64_t) n * 8;
	for (int i = 0; i < 8; i++)
		m[tot - 1 - (size_t) i] = (uint8_t) (bits >> (8 * i));
	for (size_t off = 0; off < tot; off += 64) {
		uint32_t w[80];
		for (int i = 0; i < 16; i++)
			w[i] = ((uint32_t) m[off + 4 * (size_t) i] << 24) |
			    ((uint32_t) m[off + 4 * (size_t) i + 1] << 16) |
			    ((uint32_t) m[off + 4 * (size_t) i + 2] << 8) |
			    m[off + 4 * (size_t) i + 3];
		for (int i = 16; i < 80; i++)
			w[i] = rol32(w[i - 3] ^ w[i - 8] ^ w[i - 14] ^ w[i - 16], 1);
		uint32_t a = h0, b = h1, c = h2, dd = h3, e = h4;
		for (int i = 0; i < 80; i++) {
			uint32_t f, k;
			if (i < 20) {
				f = (b & c) | (~b & dd);
				k = 0x5A827999u;
			} else if (i < 40) {
				f = b ^ c ^ dd;
				k = 0x6ED9EBA1u;
			} else if (i < 60) {
				f = (b & c) | (b & dd) | (c & dd);
				k = 0x8F1BBCDCu;
			} else {
				f = b ^ c ^ dd;
				k = 0xCA62C1D6u;
			}
			uint32_t t = rol32(a, 5) + f + e + k + w[i];
			e          = dd;
			dd         = c;
			c          = rol32(b, 30);
			b          = a;
			a          = t;
		}
		h0 += a;
		h1 += b;
		h2 += c;
		h3 += dd;
		h4 += e;
	}
	free(m);
	uint32_t hh[5] = { h0, h1, h2, h3, h4 };
	for (int i = 0; i < 5; i++) {
		out[4 * i]     = (uint8_t) (hh[i] >> 24);
		out[4 * i + 1] = (uint8_t) (hh[i] >> 16);
		out[4 * i + 2] = (uint8_t) (hh[i] >> 8);
		out[4 * i + 3] = (uint8_t) hh[i];
	}
}

static const char B64[] =
    "ABCDEFGHIJKLMNOPQRSTUVWXYZabcdefghijklmnopqrstuvwxyz0123456789+/";

static void
ref_b64enc(const uint8_t *in, size_t n, char *out)
{
	size_t o = 0;
	for (size_t i = 0; i < n; i += 3) {
		uint32_t v   = (uint32_t) in[i] << 16;
		int      rem = (int) (n - i);
		if (rem > 1)
			v |= (uint32_t) in[i + 1] << 8;
		if (rem > 2)
			v |= in[i + 2];
		out[o++] = B64[(v >> 18) & 63];
		out[o++] = B64[(v >> 12) & 63];
		out[o++] = rem > 1 ? B64[(v >> 6) & 63] : '=';
		out[o++] = rem > 2 ? B64[v & 63] : '=';
	}
	out[o] = 0;
}

// strict decode; returns number of bytes or -1
static int
ref_b64dec(const char *in, uint8_t *out, size_t cap)
{
	size_t n = strlen(in);
	if (n % 4 != 0)
		return -1;
	size_t o = 0;
	for (size_t i = 0; i < n; i += 4) {
		uint32_t v   = 0;
		int      pad = 0;
		for (int k = 0; k < 4; k++) {
			char c = in[i + (size_t) k];
			v <<= 6;
			if (c == '=') {
				if (i + 4 != n || k < 2)
					return -1;
				pad++;
				continue;
			}
			if (pad)
				return -1;
			const char *p = c ? strchr(B64, c) : NULL;
			if (!p)
				return -1;
			v |= (uint32_t) (p - B64);
		}
		if (o + 3 > cap)
			return -1;
		out[o++] = (uint8_t) (v >> 16);
		if (pad < 2)
			out[o++] = (uint8_t) (v >> 8);
		if (pad < 1)
			out[o++] = (uint8_t) v;
		// non-canonical padding bits
		if (pad == 1 && (v & 0xff))
			return -1;
		if (pad == 2 && (v & 0xffff))
			return -1;
	}
	return (int) o;
}

static void
ref_ws_accept(const char *key, char *out29)
{
	char    cat[128];
	uint8_t dg[20];
	snprintf(cat, sizeof(cat), "%s258EAFA5-E914-47DA-95CA-C5AB0DC85B11", key);
	ref_sha1((const uint8_t *) cat, strlen(cat), dg);
	ref_b64enc(dg, 20, out29);
}

static const char *
showb(const uint8_t *s, size_t n)
{
	static char b[4][420];
	static int  r;
	char       *o = b[r++ & 3];
	size_t      j = 0;
	for (size_t i = 0; i < n && j < 400; i++) {
		unsigned char c = s[i];
		if (c == '\r') {
			o[j++] = '\\';
			o[j++] = 'r';
		} else if (c == '\n') {
			o[j++] = '\\';
			o[j++] = 'n';
		} else if (c >= 0x20 && c < 0x7f && c != '\\')
			o[j++] = (char) c;
		else
			j += (size_t) sprintf(o + j, "\\x%02x", c);
	}
	o[j] = 0;
	return o;
}

// =====================================================================================
// (a) chunked transfer decoder, direct
// =====================================================================================
typedef struct cstream {
	uint8_t *b;
	size_t   n, maxsz;
	char     what[56];
} cstream;
static cstream *CS;
static size_t   NCS, CAPCS;

static void
cs_add(const uint8_t *b, size_t n, size_t maxsz, const char *fmt, ...)
{
	if (NCS == CAPCS) {
		CAPCS = CAPCS ? CAPCS * 2 : 4096;
		CS    = realloc(CS, CAPCS * sizeof(cstream));
	}
	cstream *s = &CS[NCS++];
	s->b       = malloc(n + 1);
	memcpy(s->b, b, n);
	s->n     = n;
	s->maxsz = maxsz;
	va_list ap;
	va_start(ap, fmt);
	vsnprintf(s->what, sizeof(s->what), fmt, ap);
	va_end(ap);
}

typedef struct vspec {
	int nch;
	int sz[3];
	int upper, ext, ntr, lead0;
} vspec;

typedef struct sites {
	size_t cr[32], lf[32];
	int    ncr, nlf;
	size_t szoff[4], szlen[4]; // index nch = the last-chunk "0"
	size_t dataoff[3], termoff[3];
	size_t extoff[4];
	int    next;
	size_t troff[2];
	int    ntr;
	size_t total;
} sites;

#define CBUF 1200
static size_t
build_valid(const vspec *v, uint8_t *o, sites *S)
{
	size_t p = 0;
	memset(S, 0, sizeof(*S));
	// chunk data deliberately contains CR, LF, hex digits and ';'
	static const char pat[] = "0\r\n\r\nAb;f\n\r1";
#define CRLF()                         \
	do {                           \
		S->cr[S->ncr++] = p;   \
		o[p++]          = '\r'; \
		S->lf[S->nlf++] = p;   \
		o[p++]          = '\n'; \
	} while (0)
	for (int c = 0; c <= v->nch; c++) {
		char sz[24];
		int  val = c < v->nch ? v->sz[c] : 0;
		snprintf(sz, sizeof(sz), v->upper ? "%s%X" : "%s%x",
		    (v->lead0 && c < v->nch) ? "0" : "", (unsigned) val);
		S->szoff[c] = p;
		S->szlen[c] = strlen(sz);
		memcpy(o + p, sz, strlen(sz));
		p += strlen(sz);
		if (v->ext) {
			S->extoff[S->next++] = p;
			memcpy(o + p, ";x=y", 4);
			p += 4;
		}
		CRLF();
		if (c < v->nch) {
			S->dataoff[c] = p;
			for (int j = 0; j < val; j++)
				o[p++] = (uint8_t) pat[(j + c * 5) % (int) (sizeof(pat) - 1)];
			S->termoff[c] = p;
			CRLF();
			S->total += (size_t) val;
		}
	}
	for (int t = 0; t < v->ntr; t++) {
		const char *tl = t == 0 ? "X-T: v" : "Y: w z";
		S->troff[S->ntr++] = p;
		memcpy(o + p, tl, strlen(tl));
		p += strlen(tl);
		CRLF();
	}
	CRLF();
#undef CRLF
	return p;
}

static size_t
m_del(uint8_t *d, const uint8_t *s, size_t n, size_t off, size_t len)
{
	memcpy(d, s, off);
	memcpy(d + off, s + off + len, n - off - len);
	return n - len;
}
static size_t
m_rep(uint8_t *d, const uint8_t *s, size_t n, size_t off, size_t len,
    const void *with, size_t wl)
{
	memcpy(d, s, off);
	memcpy(d + off, with, wl);
	memcpy(d + off + wl, s + off + len, n - off - len);
	return n - len + wl;
}

#define CMAX 4096 // default limit handed to nni_http_chunks_init

static void
add_stream_family(const vspec *v)
{
	uint8_t b[CBUF], m[CBUF + 32];
	sites   S;
	size_t  n = build_valid(v, b, &S), mn;
	char    id[32];
	snprintf(id, sizeof(id), "%d:%d,%d,%d%s%s%s t%d", v->nch, v->sz[0],
	    v->nch > 1 ? v->sz[1] : 0, v->nch > 2 ? v->sz[2] : 0,
	    v->upper ? "U" : "l", v->ext ? "e" : "", v->lead0 ? "z" : "", v->ntr);
	cs_add(b, n, CMAX, "%s valid", id);
	cs_add(b, n, S.total, "%s valid max=total", id);
	cs_add(b, n, S.total - 1, "%s max=total-1", id);
	if (v->sz[0] > 1)
		cs_add(b, n, (size_t) v->sz[0] - 1, "%s max<first", id);
	for (int i = 0; i < S.ncr; i++) {
		mn = m_del(m, b, n, S.cr[i], 1);
		cs_add(m, mn, CMAX, "%s dropCR%d", id, i);
	}
	for (int i = 0; i < S.nlf; i++) {
		mn = m_del(m, b, n, S.lf[i], 1);
		cs_add(m, mn, CMAX, "%s dropLF%d", id, i);
	}
	for (int c = 0; c <= v->nch; c++) {
		mn = m_rep(m, b, n, S.szoff[c] + S.szlen[c] - 1, 1, "g", 1);
		cs_add(m, mn, CMAX, "%s nonhex-last%d", id, c);
		mn = m_rep(m, b, n, S.szoff[c], 1, "G", 1);
		cs_add(m, mn, CMAX, "%s nonhex-first%d", id, c);
		mn = m_rep(m, b, n, S.szoff[c], 0, " ", 1);
		cs_add(m, mn, CMAX, "%s space-before-size%d", id, c);
		mn = m_rep(m, b, n, S.szoff[c], S.szlen[c], "10000000000000000", 17);
		cs_add(m, mn, CMAX, "%s size17digits%d", id, c);
		mn = m_rep(m, b, n, S.szoff[c], S.szlen[c], "ffffffffffffffff", 16);
		cs_add(m, mn, CMAX, "%s sizeffff%d", id, c);
		mn = m_rep(m, b, n, S.szoff[c], S.szlen[c], "FFFFFFFFFFFFFFFE", 16);
		cs_add(m, mn, CMAX, "%s sizefffe%d", id, c);
		mn = m_rep(m, b, n, S.szoff[c], S.szlen[c], "1001", 4);
		cs_add(m, mn, CMAX, "%s size>max%d", id, c);
		mn = m_del(m, b, n, S.szoff[c], S.szlen[c]);
		cs_add(m, mn, CMAX, "%s emptysize%d", id, c);
	}
	for (int c = 0; c < v->nch; c++) {
		mn = m_rep(m, b, n, S.termoff[c], 1, "X", 1);
		cs_add(m, mn, CMAX, "%s term-noCR%d", id, c);
		mn = m_rep(m, b, n, S.termoff[c] + 1, 1, "X", 1);
		cs_add(m, mn, CMAX, "%s term-noLF%d", id, c);
		mn = m_rep(m, b, n, S.termoff[c], 0, "Z", 1);
		cs_add(m, mn, CMAX, "%s data+1 %d", id, c);
		mn = m_del(m, b, n, S.dataoff[c], 1);
		cs_add(m, mn, CMAX, "%s data-1 %d", id, c);
	}
	for (int e = 0; e < S.next; e++) {
		mn = m_rep(m, b, n, S.extoff[e] + 1, 0, "\x01", 1);
		cs_add(m, mn, CMAX, "%s ctl-in-ext%d", id, e);
		mn = m_rep(m, b, n, S.extoff[e] + 3, 0, "\x7f", 1);
		cs_add(m, mn, CMAX, "%s del-in-ext%d", id, e);
	}
	for (int t = 0; t < S.ntr; t++) {
		mn = m_rep(m, b, n, S.troff[t] + 2, 0, "\x01", 1);
		cs_add(m, mn, CMAX, "%s ctl-in-trailer%d", id, t);
		mn = m_rep(m, b, n, S.troff[t], 0, "\x1f", 1);
		cs_add(m, mn, CMAX, "%s ctl-at-trailer%d", id, t);
	}
	cs_add(b, n - 1, CMAX, "%s trunc1", id);
	cs_add(b, n - 2, CMAX, "%s trunc2", id);
}

static void
build_chunk_corpus(int T)
{
	static const int ALL[] = { 1, 2, 15, 16, 17, 255 };
	static const int SM[]  = { 1, 2, 16 };
	vspec            v;
	for (int var = 0; var < 8; var++) {
		memset(&v, 0, sizeof(v));
		v.upper = var & 1;
		v.ext   = (var >> 1) & 1;
		v.ntr   = ((var >> 2) & 1) ? (v.upper ? 2 : 1) : 0;
		v.nch   = 1;
		for (int a = 0; a < 6; a++) {
			if (!T && ALL[a] == 255 && var != 0 && var != 7)
				continue;
			v.sz[0] = ALL[a];
			add_stream_family(&v);
			if (var < 2) {
				v.lead0 = 1;
				add_stream_family(&v);
				v.lead0 = 0;
			}
		}
		v.nch = 2;
		for (int a = 0; a < 6; a++)
			for (int c = 0; c < 6; c++) {
				if (!T && (ALL[a] == 255 || ALL[c] == 255) &&
				    (!(ALL[a] == 1 || ALL[c] == 1) ||
				        (var != 0 && var != 7)))
					continue;
				if (T && (ALL[a] == 255 || ALL[c] == 255) && var != 0 &&
				    var != 3 && var != 4 && var != 7)
					continue;
				if (T && ALL[a] == 255 && ALL[c] == 255 && var != 0 &&
				    var != 7)
					continue;
				v.sz[0] = ALL[a];
				v.sz[1] = ALL[c];
				add_stream_family(&v);
			}
		v.nch = 3;
		if (T) {
			for (int a = 0; a < 6; a++)
				for (int c = 0; c < 6; c++)
					for (int d = 0; d < 6; d++) {
						// thorough: all 216 size triples
						int big = (ALL[a] == 255) + (ALL[c] == 255) +
						    (ALL[d] == 255);
						int sum = ALL[a] + ALL[c] + ALL[d];
						// streams with 255-byte chunks cost O(len^2)
						// segmentations each: plain variant only (and
						// the richest variant for the shortest ones)
						if (big >= 1 && var != 0 && !(var == 7 && sum <= 258))
							continue;
						v.sz[0] = ALL[a];
						v.sz[1] = ALL[c];
						v.sz[2] = ALL[d];
						add_stream_family(&v);
					}
		} else {
			for (int a = 0; a < 3; a++)
				for (int c = 0; c < 3; c++)
					for (int d = 0; d < 3; d++) {
						v.sz[0] = SM[a];
						v.sz[1] = SM[c];
						v.sz[2] = SM[d];
						add_stream_family(&v);
					}
		}
	}
}

// ---- independent reference decoder (RFC 7230 4.1) ---------------------------------------
typedef struct rchunk {
	size_t off, len;
} rchunk;

static int
is_hex(int c)
{
	return (c >= '0' && c <= '9') || (c >= 'a' && c <= 'f') ||
	    (c >= 'A' && c <= 'F');
}
static int
hexval(int c)
{
	return c <= '9' ? c - '0' : (c | 0x20) - 'a' + 10;
}
static int
is_vis(int c) // VCHAR / SP
{
	return c >= 0x20 && c <= 0x7e;
}

// 1 = complete valid body (chunks, consumed filled); 0 = malformed or incomplete
static int
ref_chunked(const uint8_t *b, size_t n, size_t maxsz, rchunk *out, int *nout,
    size_t *consumed)
{
	size_t p = 0, total = 0;
	*nout    = 0;
	for (;;) {
		// chunk-size = 1*HEXDIG
		unsigned __int128 val = 0;
		int               nd  = 0;
		while (p < n && is_hex(b[p])) {
			val = val * 16 + (unsigned) hexval(b[p]);
			if (val > (unsigned __int128) UINT64_MAX)
				return 0; // does not fit any size
			nd++;
			p++;
		}
		if (nd == 0)
			return 0;
		// chunk-ext
		if (p < n && b[p] == ';') {
			while (p < n && b[p] != '\r') {
				if (!is_vis(b[p]))
					return 0;
				p++;
			}
		}
		if (p + 1 >= n || b[p] != '\r' || b[p + 1] != '\n')
			return 0;
		p += 2;
		if (val == 0)
			break;
		if (maxsz > 0 && (val > maxsz || total + (size_t) val > maxsz))
			return 0; // above the configured maximum
		if (val > (unsigned __int128) (n - p))
			return 0; // incomplete
		size_t len = (size_t) val;
		if (*nout < 8) {
			out[*nout].off = p;
			out[*nout].len = len;
		}
		(*nout)++;
		total += len;
		p += len;
		if (p + 1 >= n || b[p] != '\r' || b[p + 1] != '\n')
			return 0;
		p += 2;
	}
	// trailer-part CRLF
	for (;;) {
		if (p < n && b[p] == '\r') {
			if (p + 1 >= n || b[p + 1] != '\n')
				return 0;
			p += 2;
			*consumed = p;
			return 1;
		}
		size_t l = 0;
		while (p < n && b[p] != '\r') {
			if (!is_vis(b[p]))
				return 0;
			p++;
			l++;
		}
		if (l == 0 || p + 1 >= n || b[p + 1] != '\n')
			return 0;
		p += 2;
	}
}

// ---- one run of the real parser over a segmentation -------------------------------------
typedef struct prun {
	int      rv;
	size_t   consumed;
	int      nch;
	size_t   sz[8];
	uint32_t h[8];
	size_t   total;
	int      stuck; // EAGAIN without consuming the whole piece
} prun;

static uint8_t *c_scratch;
static size_t   c_scratch_cap;

static void
run_parser(const cstream *s, const size_t *cuts, int nc, prun *r, ve_res *res)
{
	nni_http_chunks *cl = NULL;
	memset(r, 0, sizeof(*r));
	if (nni_http_chunks_init(&cl, s->maxsz) != 0) {
		r->rv = NNG_ENOMEM;
		return;
	}
	size_t pos = 0;
	r->rv      = NNG_EAGAIN;
	for (int i = 0; i <= nc; i++) {
		size_t end = i < nc ? cuts[i] : s->n;
		size_t len = end - pos, used = 0;
		// the piece ends exactly at the end of the heap block: any read
		// past the piece is an ASan report
		uint8_t *pc = c_scratch + c_scratch_cap - len;
		memcpy(pc, s->b + pos, len);
		r->rv = (int) nni_http_chunks_parse(cl, pc, len, &used);
		res->calls++;
		r->consumed += used;
		pos = end;
		if (r->rv != NNG_EAGAIN)
			break;
		if (used != len) {
			r->stuck = 1;
			break;
		}
	}
	if (r->rv == 0) {
		nni_http_chunk *ch = NULL;
		while ((ch = nni_http_chunks_iter(cl, ch)) != NULL) {
			if (r->nch < 8) {
				size_t         l = nni_http_chunk_size(ch);
				const uint8_t *d = nni_http_chunk_data(ch);
				uint32_t       h = 2166136261u;
				for (size_t k = 0; k < l; k++)
					h = (h ^ d[k]) * 16777619u;
				r->sz[r->nch] = l;
				r->h[r->nch]  = h;
			}
			r->nch++;
		}
		r->total = nni_http_chunks_size(cl);
	}
	nni_http_chunks_free(cl);
}

static int
prun_eq(const prun *a, const prun *b)
{
	if (a->rv != b->rv || a->consumed != b->consumed || a->stuck != b->stuck)
		return 0;
	if (a->rv != 0)
		return 1;
	if (a->nch != b->nch || a->total != b->total)
		return 0;
	for (int i = 0; i < a->nch && i < 8; i++)
		if (a->sz[i] != b->sz[i] || a->h[i] != b->h[i])
			return 0;
	return 1;
}

#define CFAILA(sg, ...)                          \
	do {                                     \
		snprintf(sig, sigsz, "%s", sg);  \
		snprintf(msg, msgsz, __VA_ARGS__); \
		return -1;                       \
	} while (0)

static int
chunk_test(void *ctx, uint64_t idx, ve_res *res, char *sig, size_t sigsz,
    char *msg, size_t msgsz)
{
	(void) ctx;
	const cstream *s = &CS[idx];
	if (c_scratch == NULL) {
		c_scratch_cap = CBUF + 64;
		c_scratch     = malloc(c_scratch_cap);
	}
	rchunk rc[8];
	int    rn = 0;
	size_t rcons = 0;
	int    valid = ref_chunked(s->b, s->n, s->maxsz, rc, &rn, &rcons);
	prun   u, r;
	run_parser(s, NULL, 0, &u, res);
	res->nontrivial = 1;
	if (u.stuck)
		CFAILA("C16:chunk:segmentation",
		    "[%s] max %zu \"%s\": unsegmented run returned EAGAIN after "
		    "consuming %zu of %zu bytes",
		    s->what, s->maxsz, showb(s->b, s->n), u.consumed, s->n);
	if (valid) {
		if (u.rv != 0)
			CFAILA("C16:chunk:rejected-valid",
			    "[%s] max %zu \"%s\": a well-formed chunked body is "
			    "rejected with %d after %zu bytes",
			    s->what, s->maxsz, showb(s->b, s->n), u.rv, u.consumed);
		int ok = u.nch == rn && u.consumed == rcons;
		size_t tot = 0;
		for (int i = 0; ok && i < rn; i++) {
			uint32_t h = 2166136261u;
			for (size_t k = 0; k < rc[i].len; k++)
				h = (h ^ s->b[rc[i].off + k]) * 16777619u;
			if (u.sz[i] != rc[i].len || u.h[i] != h)
				ok = 0;
			tot += rc[i].len;
		}
		if (ok && u.total != tot)
			ok = 0;
		if (!ok)
			CFAILA("C16:chunk:content",
			    "[%s] max %zu \"%s\": decoded %d chunks / %zu bytes / "
			    "consumed %zu, reference %d chunks / %zu bytes / "
			    "consumed %zu (or chunk data differs)",
			    s->what, s->maxsz, showb(s->b, s->n), u.nch, u.total,
			    u.consumed, rn, tot, rcons);
	} else if (u.rv == 0) {
		CFAILA("C16:chunk:accepted-invalid",
		    "[%s] max %zu \"%s\": malformed / over-limit / incomplete "
		    "chunked body is accepted (%d chunks, %zu bytes)",
		    s->what, s->maxsz, showb(s->b, s->n), u.nch, u.total);
	}
	// every 1-cut and 2-cut segmentation.  For streams the parser gives up
	// on early, cuts far behind the point where it stopped are never seen
	// by it (the driver stops feeding at the first error): bounded there.
	size_t lim = s->n;
	if (u.rv != 0 && u.rv != NNG_EAGAIN && u.consumed + 4 < lim)
		lim = u.consumed + 4;
	size_t cuts[2];
	for (size_t i = 1; i < lim; i++) {
		cuts[0] = i;
		run_parser(s, cuts, 1, &r, res);
		if (!prun_eq(&u, &r))
			CFAILA("C16:chunk:segmentation",
			    "[%s] max %zu \"%s\": cut at %zu gives rv %d consumed "
			    "%zu chunks %d%s, unsegmented rv %d consumed %zu chunks "
			    "%d",
			    s->what, s->maxsz, showb(s->b, s->n), i, r.rv,
			    r.consumed, r.nch, r.stuck ? " (stuck)" : "", u.rv,
			    u.consumed, u.nch);
		for (size_t j = i + 1; j < lim; j++) {
			cuts[1] = j;
			run_parser(s, cuts, 2, &r, res);
			if (!prun_eq(&u, &r))
				CFAILA("C16:chunk:segmentation",
				    "[%s] max %zu \"%s\": cuts at %zu,%zu give rv %d "
				    "consumed %zu chunks %d%s, unsegmented rv %d "
				    "consumed %zu chunks %d",
				    s->what, s->maxsz, showb(s->b, s->n), i, j, r.rv,
				    r.consumed, r.nch, r.stuck ? " (stuck)" : "",
				    u.rv, u.consumed, u.nch);
		}
	}
	return 0;
}

static void
chunk_desc(void *ctx, uint64_t idx, char *out, size_t sz)
{
	(void) ctx;
	snprintf(out, sz, "[%s] max %zu \"%.200s\"", CS[idx].what, CS[idx].maxsz,
	    showb(CS[idx].b, CS[idx].n));
}

// =====================================================================================
// common: batch failure bookkeeping, raw TCP connections, strict HTTP head parser
// =====================================================================================
static char g_sig[120], g_msg[700];
static int  g_nfail;
static const char *g_sfx = "";

static void cfail(const char *sig, const char *fmt, ...)
    __attribute__((format(printf, 2, 3)));
static void
cfail(const char *sig, const char *fmt, ...)
{
	va_list ap;
	va_start(ap, fmt);
	char sg[120], ms[700];
	snprintf(sg, sizeof(sg), "%s%s", sig, g_sfx);
	vsnprintf(ms, sizeof(ms), fmt, ap);
	vs_log("FAIL %s: %s", sg, ms);
	if (g_nfail++ == 0) {
		snprintf(g_sig, sizeof(g_sig), "%s", sg);
		snprintf(g_msg, sizeof(g_msg), "%s", ms);
	}
	va_end(ap);
}
#define CFAIL(sg, ...)                 \
	do {                           \
		cfail(sg, __VA_ARGS__); \
		goto done;             \
	} while (0)

static void
batch_finish(void)
{
	if (g_nfail > 0)
		vs_fail(g_sig, "%s (%d failing case(s) in this batch)", g_msg,
		    g_nfail);
}

#define RCAP (1u << 18)
typedef struct rconn {
	int      fd;
	uint8_t *rb;
	size_t   rl;
	int      eof;
} rconn;

static void
setnb(int fd)
{
	int one = 1;
	fcntl(fd, F_SETFL, fcntl(fd, F_GETFL) | O_NONBLOCK);
	fcntl(fd, F_SETFD, FD_CLOEXEC);
	setsockopt(fd, IPPROTO_TCP, TCP_NODELAY, &one, sizeof(one));
}

static void
rc_init(rconn *c, int fd)
{
	static uint8_t pool[2][RCAP];
	static int     k;
	c->fd  = fd;
	c->rb  = pool[k++ & 1];
	c->rl  = 0;
	c->eof = 0;
}

static void
rc_open(rconn *c, int port)
{
	struct sockaddr_in sa;
	memset(&sa, 0, sizeof(sa));
	sa.sin_family      = AF_INET;
	sa.sin_port        = htons((uint16_t) port);
	sa.sin_addr.s_addr = htonl(INADDR_LOOPBACK);
	int fd             = socket(AF_INET, SOCK_STREAM, 0);
	if (fd < 0 || connect(fd, (struct sockaddr *) &sa, sizeof(sa)) != 0)
		vs_fail("harness:peer", "tcp connect: %s", strerror(errno));
	setnb(fd);
	rc_init(c, fd);
	vs_settle();
}

static void
rc_pump(rconn *c)
{
	while (!c->eof && c->rl < RCAP) {
		ssize_t n = vp_read_avail(c->fd, c->rb + c->rl, RCAP - c->rl);
		if (n < 0) {
			c->eof = 1;
			break;
		}
		if (n == 0)
			break;
		c->rl += (size_t) n;
	}
}

static void
rc_consume(rconn *c, size_t n)
{
	memmove(c->rb, c->rb + n, c->rl - n);
	c->rl -= n;
}

static void
rc_close(rconn *c)
{
	if (c->fd >= 0)
		close(c->fd);
	c->fd = -1;
	vs_settle();
}

// write with up to two cuts (offsets into b; <= 0 or >= n = none)
static void
rc_write_cut(rconn *c, const uint8_t *b, size_t n, long cut1, long cut2)
{
	size_t cuts[2];
	int    nc = 0;
	if (cut1 > 0 && (size_t) cut1 < n)
		cuts[nc++] = (size_t) cut1;
	if (cut2 > cut1 && cut2 > 0 && (size_t) cut2 < n)
		cuts[nc++] = (size_t) cut2;
	if (vp_write_cut(c->fd, b, n, cuts, nc) != 0) {
		// the library may legitimately have closed on us mid-write
	}
	vs_settle();
}

// ---- strict HTTP/1.1 message head parser (reference) -------------------------------------
typedef struct hmsg {
	char   first[160];
	int    nh;
	char   hn[20][48];
	char   hv[20][160];
	size_t hdrlen; // bytes up to and including the blank line
} hmsg;

static int
is_tchar(int c)
{
	return (c >= '0' && c <= '9') || (c >= 'a' && c <= 'z') ||
	    (c >= 'A' && c <= 'Z') || (c != 0 && strchr("!#$%&'*+-.^_`|~", c));
}

// 0 = head not complete yet, 1 = ok, -1 = malformed (why filled)
static int
http_head_strict(const uint8_t *b, size_t n, hmsg *m, char *why, size_t wsz)
{
	size_t end = 0;
	int    found = 0;
	for (size_t i = 0; i + 3 < n; i++)
		if (b[i] == '\r' && b[i + 1] == '\n' && b[i + 2] == '\r' &&
		    b[i + 3] == '\n') {
			end   = i + 4;
			found = 1;
			break;
		}
	if (!found) {
		// a bare LF LF would also never complete: report it as malformed
		for (size_t i = 0; i + 1 < n; i++)
			if (b[i] == '\n' && b[i + 1] == '\n') {
				snprintf(why, wsz, "bare LF line endings");
				return -1;
			}
		return 0;
	}
	memset(m, 0, sizeof(*m));
	m->hdrlen = end;
	size_t p  = 0;
	int    ln = 0;
	while (p < end - 2) {
		size_t e = p;
		while (b[e] != '\r' && b[e] != '\n')
			e++;
		if (b[e] != '\r' || b[e + 1] != '\n') {
			snprintf(why, wsz, "line %d not terminated by CRLF", ln);
			return -1;
		}
		size_t l = e - p;
		for (size_t k = p; k < e; k++)
			if ((b[k] < 0x20 && b[k] != '\t') || b[k] == 0x7f) {
				snprintf(why, wsz, "control character 0x%02x in line %d",
				    b[k], ln);
				return -1;
			}
		if (ln == 0) {
			if (l == 0 || l >= sizeof(m->first)) {
				snprintf(why, wsz, "empty or oversized start line");
				return -1;
			}
			memcpy(m->first, b + p, l);
		} else {
			size_t c = p;
			while (c < e && is_tchar(b[c]))
				c++;
			if (c == p || c >= e || b[c] != ':') {
				snprintf(why, wsz,
				    "header line %d is not 'token:value': \"%s\"", ln,
				    showb(b + p, l));
				return -1;
			}
			if (m->nh >= 20 || c - p >= 48) {
				snprintf(why, wsz, "too many / too long headers");
				return -1;
			}
			memcpy(m->hn[m->nh], b + p, c - p);
			size_t vs = c + 1, ve = e;
			while (vs < ve && (b[vs] == ' ' || b[vs] == '\t'))
				vs++;
			while (ve > vs && (b[ve - 1] == ' ' || b[ve - 1] == '\t'))
				ve--;
			if (ve - vs >= 160) {
				snprintf(why, wsz, "header value too long");
				return -1;
			}
			memcpy(m->hv[m->nh], b + vs, ve - vs);
			m->nh++;
		}
		p = e + 2;
		ln++;
	}
	return 1;
}

// value of header `name` (case-insensitive); *cnt = number of occurrences
static const char *
hfind(const hmsg *m, const char *name, int *cnt)
{
	const char *v = NULL;
	int         c = 0;
	for (int i = 0; i < m->nh; i++)
		if (strcasecmp(m->hn[i], name) == 0) {
			if (!v)
				v = m->hv[i];
			c++;
		}
	if (cnt)
		*cnt = c;
	return v;
}

// comma separated list contains token (case-insensitive)
static int
list_has(const char *v, const char *tok)
{
	size_t tl = strlen(tok);
	while (v && *v) {
		while (*v == ' ' || *v == ',' || *v == '\t')
			v++;
		size_t l = strcspn(v, ", \t");
		if (l == tl && strncasecmp(v, tok, tl) == 0)
			return 1;
		v += l;
	}
	return 0;
}

// "HTTP/1.1 NNN reason": returns status or -1
static int
status_line_strict(const char *s)
{
	if (strncmp(s, "HTTP/1.1 ", 9) != 0 && strncmp(s, "HTTP/1.0 ", 9) != 0)
		return -1;
	const char *p = s + 9;
	for (int i = 0; i < 3; i++)
		if (p[i] < '0' || p[i] > '9')
			return -1;
	if (p[3] != ' ')
		return -1;
	return (p[0] - '0') * 100 + (p[1] - '0') * 10 + (p[2] - '0');
}

// =====================================================================================
// (b) websocket: frame descriptors, encoder, reference acceptor, strict decoder
// =====================================================================================
enum { OP_CONT = 0, OP_TEXT = 1, OP_BIN = 2, OP_CLOSE = 8, OP_PING = 9, OP_PONG = 10 };

typedef struct fdesc {
	uint8_t  op, fin, rsv, masked, lenform; // lenform 0 minimal, 1 force 16 bit, 2 force 64 bit
	uint32_t len;
} fdesc;

#define MAXF 6
enum { WK_SEQ = 0, WK_SEND, WK_RESPCUT, WK_RESPMUT };
typedef struct wcase {
	uint8_t  kind, nf;
	fdesc    f[MAXF];
	int32_t  cut1, cut2; // byte offsets into the encoded sequence, -1 none
	uint32_t sendsz;
	uint8_t  sendping;
	int16_t  aux; // WK_RESPCUT: cut offset; WK_RESPMUT: mutation index
} wcase;

typedef struct ctab {
	wcase *c;
	int    n, cap;
} ctab;

static void
ct_add(ctab *t, const wcase *w)
{
	if (t->n == t->cap) {
		t->cap = t->cap ? t->cap * 2 : 1024;
		t->c   = realloc(t->c, (size_t) t->cap * sizeof(wcase));
	}
	t->c[t->n++] = *w;
}

static int g_mask_default = 1; // 1: frames travel client->server

static fdesc
FD(int op, int fin, uint32_t len)
{
	fdesc f;
	memset(&f, 0, sizeof(f));
	f.op     = (uint8_t) op;
	f.fin    = (uint8_t) fin;
	f.len    = len;
	f.masked = (uint8_t) g_mask_default;
	return f;
}

static void
ct_seq(ctab *t, int nf, const fdesc *f)
{
	wcase w;
	memset(&w, 0, sizeof(w));
	w.kind = WK_SEQ;
	w.nf   = (uint8_t) nf;
	for (int i = 0; i < nf; i++)
		w.f[i] = f[i];
	w.cut1 = w.cut2 = -1;
	ct_add(t, &w);
}

static inline uint8_t
payb(int cs, int i, size_t j)
{
	return (uint8_t) (0x30 + ((size_t) (cs * 7 + i * 13) + j * 3 + (j >> 8)) % 75);
}

static size_t
hdr_len(const fdesc *f)
{
	int e = f->lenform ? f->lenform : (f->len < 126 ? 0 : f->len < 65536 ? 1 : 2);
	return 2 + (e == 1 ? 2 : e == 2 ? 8 : 0) + (f->masked ? 4 : 0);
}

static size_t
enc_frame(uint8_t *o, const fdesc *f, int cs, int i)
{
	size_t p = 0;
	int    e = f->lenform ? f->lenform : (f->len < 126 ? 0 : f->len < 65536 ? 1 : 2);
	o[p++]   = (uint8_t) ((f->fin ? 0x80 : 0) | ((f->rsv & 7) << 4) | (f->op & 15));
	uint8_t mb = f->masked ? 0x80 : 0;
	if (e == 0)
		o[p++] = mb | (uint8_t) f->len;
	else if (e == 1) {
		o[p++] = mb | 126;
		o[p++] = (uint8_t) (f->len >> 8);
		o[p++] = (uint8_t) f->len;
	} else {
		o[p++] = mb | 127;
		for (int k = 7; k >= 0; k--)
			o[p++] = (uint8_t) ((uint64_t) f->len >> (8 * k));
	}
	uint8_t key[4] = { 0, 0, 0, 0 };
	if (f->masked) {
		if ((cs + i) % 5 != 0) // an all-zero key is legal too
			for (int k = 0; k < 4; k++)
				key[k] = (uint8_t) (0x5a + cs * 3 + i * 29 + k * 71);
		memcpy(o + p, key, 4);
		p += 4;
	}
	for (size_t j = 0; j < f->len; j++)
		o[p++] = payb(cs, i, j) ^ key[j & 3];
	return p;
}

static size_t
enc_case(const wcase *w, int cs, uint8_t **out)
{
	size_t tot = 0;
	for (int i = 0; i < w->nf; i++)
		tot += w->f[i].len + 14;
	uint8_t *b = malloc(tot + 1);
	size_t   p = 0;
	for (int i = 0; i < w->nf; i++)
		p += enc_frame(b + p, &w->f[i], cs, i);
	*out = b;
	return p;
}

static const char *
fd_show(const wcase *w)
{
	static char b[2][300];
	static int  r;
	char       *o = b[r++ & 1];
	size_t      j = 0;
	for (int i = 0; i < w->nf && j < 250; i++) {
		const fdesc *f = &w->f[i];
		j += (size_t) snprintf(o + j, 300 - j, "%s[op%X %s len%u%s%s%s%s]",
		    i ? " " : "", f->op, f->fin ? "FIN" : "fin0", f->len,
		    f->masked ? "" : " UNMASKED", f->rsv ? " RSV" : "",
		    f->lenform == 1 ? " len16" : "", f->lenform == 2 ? " len64" : "");
	}
	if (w->cut1 >= 0)
		j += (size_t) snprintf(o + j, 300 - j, " cut@%d", w->cut1);
	if (w->cut2 >= 0)
		snprintf(o + j, 300 - j, ",%d", w->cut2);
	if (w->nf == 0)
		o[0] = 0;
	return o;
}

// ---- reference acceptor -----------------------------------------------------------------
// Rules (RFC 6455 as named by the property statement):
//  R1 RSV1-3 must be 0                       R2 opcode in {0,1,2,8,9,A}
//  R3 client->server masked, server->client unmasked
//  R4 minimal length encoding               R5 control payload <= 125
//  R6 frame <= rxframe-max                   R7 no continuation without a start,
//  R8 no new data frame inside a message    R9 message <= recv-size-max
//  (control frames must not be fragmented is RFC 6455 5.5 but is not in the
//   statement's list: either behaviour is accepted for it.)
typedef struct refout {
	int    nmsg;
	int    mfirst[MAXF], mlast[MAXF];
	size_t mlen[MAXF];
	int    must;      // messages that must be delivered
	int    fail_at;   // first frame that violates a rule (-1 none)
	int    lenient_at; // first frame with unspecified treatment (-1 none)
	int    close_at;  // first peer close frame (-1 none)
	int    nping, ping[MAXF];
} refout;

// 1: complete valid messages that precede a rule violation on the same
// connection must still be delivered (signature ...:before-violation); holds
// on every enumerated case under the default schedule.  0: only "no wrong
// message, nothing from the violating frame on".
#define STRICT_PREFIX 1

static void
ref_accept(const wcase *w, size_t maxframe, size_t recvmax, int lib_is_server,
    refout *R)
{
	memset(R, 0, sizeof(*R));
	R->fail_at = R->lenient_at = R->close_at = -1;
	int    inmsg = 0, first = 0;
	size_t cur = 0;
	for (int i = 0; i < w->nf; i++) {
		const fdesc *f   = &w->f[i];
		int          bad = 0;
		int strict = R->lenient_at < 0 && R->close_at < 0;
		if (f->rsv)
			bad = 1;
		if (!(f->op == OP_CONT || f->op == OP_BIN || f->op == OP_CLOSE ||
		        f->op == OP_PING || f->op == OP_PONG))
			bad = 1;
		if ((f->masked != 0) != (lib_is_server != 0))
			bad = 1;
		if (f->lenform == 1 && f->len < 126)
			bad = 1;
		if (f->lenform == 2 && f->len < 65536)
			bad = 1;
		if (f->op >= 8 && f->len > 125)
			bad = 1;
		if (maxframe > 0 && f->len > maxframe)
			bad = 1;
		if (f->op == OP_CONT && !inmsg)
			bad = 1;
		if (f->op == OP_BIN && inmsg)
			bad = 1;
		if ((f->op == OP_CONT || f->op == OP_BIN) && recvmax > 0 &&
		    (f->op == OP_BIN ? 0 : cur) + f->len > recvmax)
			bad = 1;
		if (bad) {
			R->fail_at = i;
			break;
		}
		if (f->op >= 8 && !f->fin && strict) {
			R->lenient_at = i;
			strict        = 0;
		}
		if (f->op == OP_BIN || f->op == OP_CONT) {
			if (f->op == OP_BIN) {
				first = i;
				cur   = 0;
			}
			cur += f->len;
			inmsg = !f->fin;
			if (f->fin) {
				R->mfirst[R->nmsg] = first;
				R->mlast[R->nmsg]  = i;
				R->mlen[R->nmsg]   = cur;
				R->nmsg++;
				if (strict)
					R->must = R->nmsg;
			}
		} else if (f->op == OP_PING) {
			if (strict && f->fin)
				R->ping[R->nping++] = i;
		} else if (f->op == OP_CLOSE) {
			if (R->close_at < 0)
				R->close_at = i;
		}
	}
	if (R->fail_at >= 0 && !STRICT_PREFIX)
		R->must = 0;
}

// expected body of reference message k
static uint8_t *
ref_msg_body(const wcase *w, const refout *R, int k, int cs)
{
	uint8_t *b = malloc(R->mlen[k] + 1);
	size_t   p = 0;
	for (int i = R->mfirst[k]; i <= R->mlast[k]; i++) {
		if (w->f[i].op != OP_BIN && w->f[i].op != OP_CONT)
			continue;
		for (size_t j = 0; j < w->f[i].len; j++)
			b[p++] = payb(cs, i, j);
	}
	return b;
}

// ---- strict decoder for what the library emits -------------------------------------------
typedef struct rxs {
	int      npong;
	uint8_t  pong[8][126];
	size_t   ponglen[8];
	int      nping; // pings emitted by the library (never expected, but legal)
	int      closed, closecode;
	int      nmsg;
	uint8_t *msg[4];
	size_t   msglen[4];
	int      inmsg;
	uint8_t *cur;
	size_t   curlen, curcap;
	long     nframes, ndata;
	size_t   maxdata;
	int      bad;
	char     why[200];
} rxs;

static void
rxs_free(rxs *s)
{
	for (int i = 0; i < s->nmsg && i < 4; i++)
		free(s->msg[i]);
	free(s->cur);
}

// decode every complete frame buffered in c; malformed => s->bad
static void
rx_process(rconn *c, rxs *s, int expect_masked)
{
	while (!s->bad) {
		const uint8_t *b = c->rb;
		size_t         n = c->rl, p = 2;
		if (n < 2)
			return;
		int      fin = b[0] >> 7, rsv = (b[0] >> 4) & 7, op = b[0] & 15;
		int      masked = b[1] >> 7;
		uint64_t len    = b[1] & 127;
		int      form   = 0;
		if (len == 126) {
			if (n < 4)
				return;
			len  = ((uint64_t) b[2] << 8) | b[3];
			p    = 4;
			form = 1;
		} else if (len == 127) {
			if (n < 10)
				return;
			len = 0;
			for (int k = 0; k < 8; k++)
				len = (len << 8) | b[2 + k];
			p    = 10;
			form = 2;
		}
#define BAD(...)                                                 \
	do {                                                     \
		s->bad = 1;                                      \
		snprintf(s->why, sizeof(s->why), __VA_ARGS__);   \
		return;                                          \
	} while (0)
		if (rsv)
			BAD("RSV bits 0x%x set (frame %ld, first bytes %s)", rsv,
			    s->nframes, vh_hex(b, n < 8 ? n : 8));
		if (!(op == 0 || op == 1 || op == 2 || op == 8 || op == 9 || op == 10))
			BAD("reserved opcode 0x%x (frame %ld)", op, s->nframes);
		if (masked != expect_masked)
			BAD("%s frame from the %s (frame %ld op 0x%x len %llu)",
			    masked ? "masked" : "unmasked",
			    expect_masked ? "client" : "server", s->nframes, op,
			    (unsigned long long) len);
		if (form == 1 && len < 126)
			BAD("16-bit length form used for length %llu",
			    (unsigned long long) len);
		if (form == 2 && len < 65536)
			BAD("64-bit length form used for length %llu",
			    (unsigned long long) len);
		if (form == 2 && (len >> 63))
			BAD("64-bit length with the most significant bit set");
		if (op >= 8 && len > 125)
			BAD("control frame 0x%x with %llu payload bytes", op,
			    (unsigned long long) len);
		if (op >= 8 && !fin)
			BAD("fragmented control frame 0x%x", op);
		if (op == 0 && !s->inmsg)
			BAD("continuation frame without a started message");
		if ((op == 1 || op == 2) && s->inmsg)
			BAD("new data frame 0x%x inside a fragmented message", op);
		if (len > RCAP)
			BAD("absurd frame length %llu", (unsigned long long) len);
		uint8_t key[4] = { 0, 0, 0, 0 };
		if (masked) {
			if (n < p + 4)
				return;
			memcpy(key, b + p, 4);
			p += 4;
		}
		if (n < p + len)
			return; // payload not complete yet
		uint8_t *pl = malloc((size_t) len + 1);
		for (size_t j = 0; j < len; j++)
			pl[j] = b[p + j] ^ key[j & 3];
		s->nframes++;
		if (op == OP_PONG) {
			if (s->npong < 8) {
				memcpy(s->pong[s->npong], pl, (size_t) len);
				s->ponglen[s->npong] = (size_t) len;
			}
			s->npong++;
		} else if (op == OP_PING) {
			s->nping++;
		} else if (op == OP_CLOSE) {
			if (len == 1) {
				free(pl);
				BAD("close frame with a 1-byte payload");
			}
			s->closecode = len >= 2 ? (pl[0] << 8) | pl[1] : 0;
			if (len >= 2 &&
			    (s->closecode < 1000 || s->closecode == 1004 ||
			        s->closecode == 1005 || s->closecode == 1006 ||
			        s->closecode == 1015 || s->closecode >= 5000)) {
				free(pl);
				BAD("close frame with the unsendable status code %d",
				    s->closecode);
			}
			if (s->closed) {
				free(pl);
				BAD("second close frame");
			}
			s->closed = 1;
		} else {
			if (s->closed) {
				free(pl);
				BAD("data frame after a close frame");
			}
			s->ndata++;
			if (len > s->maxdata)
				s->maxdata = (size_t) len;
			if (s->curlen + len > s->curcap) {
				s->curcap = (s->curlen + (size_t) len) * 2 + 64;
				s->cur    = realloc(s->cur, s->curcap);
			}
			if (len)
				memcpy(s->cur + s->curlen, pl, (size_t) len);
			s->curlen += (size_t) len;
			s->inmsg = !fin;
			if (fin) {
				if (s->nmsg < 4) {
					s->msg[s->nmsg]    = s->cur;
					s->msglen[s->nmsg] = s->curlen;
				} else
					free(s->cur);
				s->nmsg++;
				s->cur    = NULL;
				s->curlen = s->curcap = 0;
			}
		}
		free(pl);
		rc_consume(c, p + (size_t) len);
#undef BAD
	}
}

// =====================================================================================
// (b1) raw websocket client  <->  nng pair0 listener on ws://127.0.0.1:0/c16
// =====================================================================================
#define DEF ((size_t) -1)
typedef struct lcfg {
	const char *name;
	size_t      maxframe, recvmax, fragsize; // DEF = leave the default
	ctab        t;
	int         per;
	const char *sfx;
} lcfg;

typedef struct lctx {
	nng_socket s;
	int        port;
	size_t     maxframe, recvmax; // effective (0 = unlimited)
	long       n_deliv, n_failed, n_pong, n_emit;
} lctx;

// client side of the opening handshake; strict check of the 101 response.
// returns 1 when upgraded
static int
ws_client_upgrade(rconn *c, int cs, const char *path, const char *proto)
{
	uint8_t raw[16];
	char    key[32], acc[40], req[400], why[200];
	for (int i = 0; i < 16; i++)
		raw[i] = (uint8_t) (cs * 37 + i * 101 + (cs >> 3));
	ref_b64enc(raw, 16, key);
	ref_ws_accept(key, acc);
	int n = snprintf(req, sizeof(req),
	    "GET %s HTTP/1.1\r\nHost: 127.0.0.1\r\nUpgrade: websocket\r\n"
	    "Connection: Upgrade\r\nSec-WebSocket-Key: %s\r\n"
	    "Sec-WebSocket-Version: 13\r\nSec-WebSocket-Protocol: %s\r\n\r\n",
	    path, key, proto);
	vp_write_all(c->fd, req, (size_t) n);
	vs_settle();
	hmsg m;
	int  rv = 0;
	for (int t = 0; t < 6; t++) {
		rc_pump(c);
		rv = http_head_strict(c->rb, c->rl, &m, why, sizeof(why));
		if (rv != 0 || c->eof)
			break;
		vs_sleep(5);
	}
	if (rv == 0) {
		cfail("C16:ws:bad-upgrade-response",
		    "case %d: no complete response to a valid upgrade request (%zu "
		    "bytes, eof=%d): \"%s\"",
		    cs, c->rl, c->eof, showb(c->rb, c->rl));
		return 0;
	}
	if (rv < 0) {
		cfail("C16:ws:bad-upgrade-response",
		    "case %d: malformed response head (%s): \"%s\"", cs, why,
		    showb(c->rb, c->rl));
		return 0;
	}
	int         cnt;
	const char *v;
	if (strncmp(m.first, "HTTP/1.1 101 ", 13) != 0 &&
	    strcmp(m.first, "HTTP/1.1 101") != 0) {
		cfail("C16:ws:bad-upgrade-response",
		    "case %d: status line \"%s\" instead of HTTP/1.1 101", cs,
		    m.first);
		return 0;
	}
	if (status_line_strict(m.first) != 101) {
		cfail("C16:ws:bad-upgrade-response",
		    "case %d: status line \"%s\" is not 'HTTP/1.1 101 reason'", cs,
		    m.first);
		return 0;
	}
	if ((v = hfind(&m, "Upgrade", &cnt)) == NULL || strcasecmp(v, "websocket")) {
		cfail("C16:ws:bad-upgrade-response",
		    "case %d: Upgrade header is \"%s\"", cs, v ? v : "(missing)");
		return 0;
	}
	if ((v = hfind(&m, "Connection", &cnt)) == NULL || !list_has(v, "upgrade")) {
		cfail("C16:ws:bad-upgrade-response",
		    "case %d: Connection header is \"%s\"", cs, v ? v : "(missing)");
		return 0;
	}
	v = hfind(&m, "Sec-WebSocket-Accept", &cnt);
	if (v == NULL || cnt != 1 || strcmp(v, acc) != 0) {
		cfail("C16:ws:bad-accept",
		    "case %d: key %s: Sec-WebSocket-Accept is \"%s\" (x%d), "
		    "base64(SHA1(key+GUID)) is %s",
		    cs, key, v ? v : "(missing)", cnt, acc);
		return 0;
	}
	v = hfind(&m, "Sec-WebSocket-Protocol", &cnt);
	if (v == NULL || cnt != 1 || strcmp(v, proto) != 0) {
		cfail("C16:ws:bad-upgrade-response",
		    "case %d: Sec-WebSocket-Protocol is \"%s\" (x%d), requested %s",
		    cs, v ? v : "(missing)", cnt, proto);
		return 0;
	}
	if ((v = hfind(&m, "Content-Length", &cnt)) != NULL && atoi(v) != 0) {
		cfail("C16:ws:bad-upgrade-response",
		    "case %d: 101 response announces a body (Content-Length %s)", cs,
		    v);
		return 0;
	}
	rc_consume(c, m.hdrlen);
	return 1;
}

// collect everything the application side delivers right now
typedef struct dlist {
	int      n;
	uint8_t *b[8];
	size_t   l[8];
} dlist;

static void
dl_free(dlist *d)
{
	for (int i = 0; i < d->n && i < 8; i++)
		free(d->b[i]);
}

static void
drain_all(nng_socket s, dlist *d)
{
	for (int round = 0; round < 12; round++) {
		int got = 0;
		for (;;) {
			nng_msg *m = NULL;
			if (nng_recvmsg(s, &m, NNG_FLAG_NONBLOCK) != 0)
				break;
			got++;
			if (d->n < 8) {
				d->l[d->n] = nng_msg_len(m);
				d->b[d->n] = malloc(d->l[d->n] + 1);
				memcpy(d->b[d->n], nng_msg_body(m), d->l[d->n]);
			}
			d->n++;
			nng_msg_free(m);
		}
		if (!got)
			break;
		vs_settle();
	}
}

// compare deliveries against the reference; returns 0 ok
static int
check_deliveries(const wcase *w, const refout *R, const dlist *d, int cs,
    int segmented)
{
	for (int i = 0; i < d->n && i < 8; i++) {
		if (i >= R->nmsg) {
			cfail(R->fail_at >= 0 ? "C16:ws:delivered-after-violation"
			                      : "C16:ws:wrong-message",
			    "case %d %s: delivery %d (%zu bytes %s..) but the "
			    "reference accepts only %d message(s)%s",
			    cs, fd_show(w), i, d->l[i],
			    vh_hex(d->b[i], d->l[i] < 12 ? d->l[i] : 12), R->nmsg,
			    R->fail_at >= 0 ? " before the rule violation" : "");
			return -1;
		}
		uint8_t *e  = ref_msg_body(w, R, i, cs);
		int      eq = d->l[i] == R->mlen[i] && memcmp(e, d->b[i], d->l[i]) == 0;
		free(e);
		if (!eq) {
			cfail(segmented ? "C16:ws:segmentation" : "C16:ws:wrong-message",
			    "case %d %s: delivery %d has %zu bytes (%s..), the "
			    "reassembled message of frames %d..%d has %zu bytes",
			    cs, fd_show(w), i, d->l[i],
			    vh_hex(d->b[i], d->l[i] < 12 ? d->l[i] : 12), R->mfirst[i],
			    R->mlast[i], R->mlen[i]);
			return -1;
		}
	}
	if (d->n < R->must) {
		cfail(segmented           ? "C16:ws:segmentation"
		        : R->fail_at >= 0 ? "C16:ws:lost-message:before-violation"
		                          : "C16:ws:lost-message",
		    "case %d %s: %d message(s) delivered, the reference delivers %d%s",
		    cs, fd_show(w), d->n, R->must,
		    R->fail_at >= 0 ? " complete message(s) before the violating frame"
		                    : "");
		return -1;
	}
	return 0;
}

// pongs: every emitted pong echoes one of the pings in order; the last ping
// of a fault-free sequence must be answered (RFC 6455 5.5.3)
static int
check_pongs(const wcase *w, const refout *R, const rxs *st, int cs, int peer_cs,
    int must_answer)
{
	int pi = 0;
	for (int k = 0; k < st->npong && k < 8; k++) {
		int found = 0;
		while (pi < w->nf) {
			const fdesc *f = &w->f[pi];
			if (f->op == OP_PING && f->len == st->ponglen[k]) {
				int eq = 1;
				for (size_t j = 0; j < f->len; j++)
					if (st->pong[k][j] != payb(peer_cs, pi, j))
						eq = 0;
				if (eq) {
					found = 1;
					pi++;
					break;
				}
			}
			pi++;
		}
		if (!found) {
			cfail("C16:ws:no-pong",
			    "case %d %s: emitted pong %d (%zu bytes %s) does not echo "
			    "any ping of the sequence in order",
			    cs, fd_show(w), k, st->ponglen[k],
			    vh_hex(st->pong[k], st->ponglen[k] < 12 ? st->ponglen[k] : 12));
			return -1;
		}
	}
	if (must_answer && R->nping > 0) {
		int          last = R->ping[R->nping - 1];
		const fdesc *f    = &w->f[last];
		int          ok   = 0;
		if (st->npong > 0 && st->npong <= 8 &&
		    st->ponglen[st->npong - 1] == f->len) {
			ok = 1;
			for (size_t j = 0; j < f->len; j++)
				if (st->pong[st->npong - 1][j] != payb(peer_cs, last, j))
					ok = 0;
		}
		if (!ok) {
			cfail("C16:ws:no-pong",
			    "case %d %s: the ping in frame %d (%u bytes) was not "
			    "answered by a pong with identical payload (%d pong(s) "
			    "seen)",
			    cs, fd_show(w), last, f->len, st->npong);
			return -1;
		}
	}
	return 0;
}

// wait (virtual) until the peer sees a close frame or EOF
static int
wait_failed(rconn *c, rxs *st, int expect_masked, int ms)
{
	for (int t = 0;; t += 20) {
		rc_pump(c);
		rx_process(c, st, expect_masked);
		if (st->bad || st->closed || c->eof)
			return 1;
		if (t >= ms)
			return 0;
		vs_sleep(20);
	}
}

static void
l_seq_case(lctx *L, int cs, const wcase *w)
{
	refout R;
	rconn  c;
	rxs    st;
	dlist  d;
	memset(&st, 0, sizeof(st));
	memset(&d, 0, sizeof(d));
	ref_accept(w, L->maxframe, L->recvmax, 1, &R);
	rc_open(&c, L->port);
	uint8_t *wire = NULL;
	int      torn = 0;
	if (!ws_client_upgrade(&c, cs, "/c16", "pair.sp.nanomsg.org")) {
		torn = 1;
		goto done;
	}
	size_t wn = enc_case(w, cs, &wire);
	rc_write_cut(&c, wire, wn, w->cut1, w->cut2);
	vs_case();
	vs_nontrivial();
	drain_all(L->s, &d);
	rc_pump(&c);
	rx_process(&c, &st, 0);
	L->n_deliv += d.n;
	int segmented = w->cut1 >= 0;
	if (st.bad)
		CFAIL("C16:ws:emitted-malformed", "case %d %s: server emitted: %s", cs,
		    fd_show(w), st.why);
	if (check_deliveries(w, &R, &d, cs, segmented) != 0)
		goto done;
	int strict_fail = R.fail_at >= 0 && (R.lenient_at < 0) && (R.close_at < 0);
	int clean       = R.fail_at < 0 && R.lenient_at < 0 && R.close_at < 0;
	if (strict_fail) {
		if (!wait_failed(&c, &st, 0, 200))
			CFAIL("C16:ws:violation-not-failed",
			    "case %d %s: frame %d violates the framing rules but the "
			    "peer sees neither a close frame nor EOF within 200 ms",
			    cs, fd_show(w), R.fail_at);
		if (st.bad)
			CFAIL("C16:ws:emitted-malformed",
			    "case %d %s: server emitted: %s", cs, fd_show(w), st.why);
		L->n_failed++;
		torn = 1;
		// nothing may surface later either
		dlist d2;
		memset(&d2, 0, sizeof(d2));
		drain_all(L->s, &d2);
		if (d.n + d2.n > R.nmsg) {
			dl_free(&d2);
			CFAIL("C16:ws:delivered-after-violation",
			    "case %d %s: %d message(s) delivered although only %d "
			    "precede the violating frame %d",
			    cs, fd_show(w), d.n + d2.n, R.nmsg, R.fail_at);
		}
		dl_free(&d2);
	} else if (clean) {
		if (st.closed || c.eof)
			CFAIL("C16:ws:valid-failed",
			    "case %d %s: well-formed sequence but the library %s", cs,
			    fd_show(w),
			    st.closed ? "answered with a close frame" : "closed the connection");
	} else
		torn = st.closed || c.eof;
	if (check_pongs(w, &R, &st, cs, cs, clean) != 0)
		goto done;
	L->n_pong += st.npong;
done:
	free(wire);
	dl_free(&d);
	rxs_free(&st);
	rc_close(&c);
	if (torn || g_nfail)
		vs_sleep(150); // let the failed pipe be reaped (close linger 100 ms)
	// leftovers of this case must not leak into the next one
	dlist junk;
	memset(&junk, 0, sizeof(junk));
	drain_all(L->s, &junk);
	dl_free(&junk);
}

static uint8_t
sendb(int cs, size_t j)
{
	return (uint8_t) (0x21 + (cs * 11 + j * 5 + (j >> 7)) % 90);
}

// the application sends one message; the raw client decodes what is emitted
static void
l_send_case(lctx *L, int cs, const wcase *w)
{
	rconn c;
	rxs   st;
	memset(&st, 0, sizeof(st));
	rc_open(&c, L->port);
	if (!ws_client_upgrade(&c, cs, "/c16", "pair.sp.nanomsg.org"))
		goto done;
	wcase   pw;
	uint8_t pingwire[64];
	memset(&pw, 0, sizeof(pw));
	pw.nf   = 1;
	pw.f[0] = FD(OP_PING, 1, 7);
	if (w->sendping) {
		// a ping races with the fragmented transmission
		size_t pn = enc_frame(pingwire, &pw.f[0], cs, 0);
		vp_write_all(c.fd, pingwire, pn);
	}
	nng_msg *m;
	VH_OK(nng_msg_alloc(&m, w->sendsz));
	for (size_t j = 0; j < w->sendsz; j++)
		((uint8_t *) nng_msg_body(m))[j] = sendb(cs, j);
	int rv = 0;
	for (int t = 0; t < 5; t++) {
		rv = nng_sendmsg(L->s, m, NNG_FLAG_NONBLOCK);
		if (rv != NNG_EAGAIN)
			break;
		vs_sleep(5);
	}
	if (rv != 0) {
		nng_msg_free(m);
		CFAIL("C16:ws:send-failed",
		    "case %d: nng_sendmsg(%u bytes) on an established ws pipe: %s", cs,
		    w->sendsz, nng_strerror(rv));
	}
	vs_settle();
	vs_case();
	vs_nontrivial();
	for (int t = 0; t < 10; t++) {
		rc_pump(&c);
		rx_process(&c, &st, 0);
		if (st.bad || st.nmsg >= 1 || c.eof)
			break;
		vs_sleep(5);
	}
	if (st.bad)
		CFAIL("C16:ws:emitted-malformed",
		    "case %d send %u bytes: server emitted: %s", cs, w->sendsz, st.why);
	if (st.nmsg != 1 || st.inmsg)
		CFAIL("C16:ws:emitted-content",
		    "case %d: sent one %u-byte message, the peer decoded %d complete "
		    "message(s) from %ld data frame(s)%s",
		    cs, w->sendsz, st.nmsg, st.ndata,
		    st.inmsg ? " and an unfinished fragment" : "");
	int eq = st.msglen[0] == w->sendsz;
	for (size_t j = 0; eq && j < w->sendsz; j++)
		if (st.msg[0][j] != sendb(cs, j))
			eq = 0;
	if (!eq)
		CFAIL("C16:ws:emitted-content",
		    "case %d: sent %u bytes, the fragments (%ld frames, largest %zu) "
		    "reassemble to %zu bytes that %s",
		    cs, w->sendsz, st.ndata, st.maxdata, st.msglen[0],
		    st.msglen[0] == w->sendsz ? "differ in content" : "differ in length");
	L->n_emit += st.ndata;
	if (w->sendping) {
		refout R;
		ref_accept(&pw, 0, 0, 1, &R);
		if (check_pongs(&pw, &R, &st, cs, cs, 1) != 0)
			goto done;
	}
	if (st.closed || c.eof)
		CFAIL("C16:ws:valid-failed",
		    "case %d: connection closed by the library during a plain send", cs);
done:
	rxs_free(&st);
	rc_close(&c);
	if (g_nfail)
		vs_sleep(150);
}

// a complete, valid exchange after the enumerated cases
static void
l_control(lctx *L)
{
	rconn c;
	rxs   st;
	dlist d;
	int   cs = 9999;
	memset(&st, 0, sizeof(st));
	memset(&d, 0, sizeof(d));
	vs_sleep(150);
	rc_open(&c, L->port);
	if (!ws_client_upgrade(&c, cs, "/c16", "pair.sp.nanomsg.org")) {
		if (g_nfail == 1 && strstr(g_sig, "upgrade"))
			snprintf(g_sig, sizeof(g_sig), "C16:ws:control:upgrade");
		goto done;
	}
	wcase w;
	memset(&w, 0, sizeof(w));
	w.nf   = 3;
	w.f[0] = FD(OP_PING, 1, 3);
	w.f[1] = FD(OP_BIN, 0, 4);
	w.f[2] = FD(OP_CONT, 1, 3);
	w.cut1 = w.cut2 = -1;
	uint8_t *wire;
	size_t   wn = enc_case(&w, cs, &wire);
	rc_write_cut(&c, wire, wn, -1, -1);
	free(wire);
	drain_all(L->s, &d);
	refout R;
	ref_accept(&w, L->maxframe, L->recvmax, 1, &R);
	rc_pump(&c);
	rx_process(&c, &st, 0);
	if (st.bad)
		CFAIL("C16:ws:emitted-malformed", "control: server emitted: %s", st.why);
	uint8_t *e = ref_msg_body(&w, &R, 0, cs);
	int ok = d.n == 1 && d.l[0] == 7 && memcmp(d.b[0], e, 7) == 0;
	free(e);
	if (!ok)
		CFAIL("C16:ws:control:delivery",
		    "the control connection's 7-byte message was not delivered "
		    "(%d deliveries) after the batch",
		    d.n);
	if (check_pongs(&w, &R, &st, cs, cs, 1) != 0)
		goto done;
	if (vh_send_nb(L->s, "reply", 5) != 0)
		CFAIL("C16:ws:control:send", "cannot send on the control pipe");
	vs_settle();
	rc_pump(&c);
	rx_process(&c, &st, 0);
	if (st.bad)
		CFAIL("C16:ws:emitted-malformed", "control: server emitted: %s", st.why);
	if (st.nmsg != 1 || st.msglen[0] != 5 || memcmp(st.msg[0], "reply", 5) != 0)
		CFAIL("C16:ws:emitted-content",
		    "control: the 5-byte reply arrived as %d message(s)", st.nmsg);
	// closing handshake started by the client
	wcase cw;
	memset(&cw, 0, sizeof(cw));
	cw.nf   = 1;
	cw.f[0] = FD(OP_CLOSE, 1, 2);
	uint8_t cl[16];
	fdesc   cf = cw.f[0];
	size_t  cn = enc_frame(cl, &cf, cs, 0);
	// status code 1000 under the mask
	{
		uint8_t *key = cl + 2;
		cl[6]        = 0x03 ^ key[0];
		cl[7]        = 0xe8 ^ key[1];
	}
	vp_write_all(c.fd, cl, cn);
	vs_settle();
	wait_failed(&c, &st, 0, 200);
	if (st.bad)
		CFAIL("C16:ws:emitted-malformed", "control close: server emitted: %s",
		    st.why);
done:
	dl_free(&d);
	rxs_free(&st);
	rc_close(&c);
}

static void
run_wsl(void *arg)
{
	lcfg *cf = arg;
	lctx  L;
	memset(&L, 0, sizeof(L));
	g_sfx            = cf->sfx ? cf->sfx : "";
	g_mask_default   = 1;
	vs_tcp_grace_us  = 1500;
	vh_init(0);
	nng_listener l;
	VH_OK(nng_pair0_open(&L.s));
	VH_OK(nng_socket_set_int(L.s, NNG_OPT_RECVBUF, 16));
	VH_OK(nng_listener_create(&l, L.s, "ws://127.0.0.1:0/c16"));
	L.maxframe = 1u << 20;
	L.recvmax  = 1u << 20;
	if (cf->maxframe != DEF) {
		VH_OK(nng_listener_set_size(l, NNG_OPT_WS_RECVMAXFRAME, cf->maxframe));
		L.maxframe = cf->maxframe;
	}
	if (cf->recvmax != DEF) {
		VH_OK(nng_listener_set_size(l, NNG_OPT_RECVMAXSZ, cf->recvmax));
		L.recvmax = cf->recvmax;
	}
	if (cf->fragsize != DEF)
		VH_OK(nng_listener_set_size(l, NNG_OPT_WS_SENDMAXFRAME, cf->fragsize));
	VH_OK(nng_listener_start(l, 0));
	VH_OK(nng_listener_get_int(l, NNG_OPT_BOUND_PORT, &L.port));
	vs_settle();
	int nb    = (cf->t.n + cf->per - 1) / cf->per;
	int batch = vs_choose(VK_ENV, nb);
	for (int k = 0; k < cf->per; k++) {
		int cs = batch * cf->per + k;
		if (cs >= cf->t.n)
			break;
		const wcase *w = &cf->t.c[cs];
		vs_log("case %d: %s%s", cs,
		    w->kind == WK_SEND ? "send " : "", fd_show(w));
		if (w->kind == WK_SEND)
			l_send_case(&L, cs, w);
		else
			l_seq_case(&L, cs, w);
	}
	l_control(&L);
	vs_outcome("%s d%ld f%ld p%ld e%ld x%d", cf->name, L.n_deliv, L.n_failed,
	    L.n_pong > 9 ? 9 : L.n_pong, L.n_emit > 9 ? 9 : L.n_emit, g_nfail);
	nng_socket_close(L.s);
	batch_finish();
	vh_fini();
}

// =====================================================================================
// (b2) nng pair0 dialer  <->  raw websocket server implemented here
// =====================================================================================
typedef struct dcfg {
	const char *name;
	size_t      fragsize;
	ctab        t;
	int         per;
} dcfg;

static const char *RESP_MUT[] = {
	"HTTP/1.1101SwitchingProtocols",    // no spaces
	"HTTP/1.1 101",                     // one space only (SP after the code is required)
	"HTTP/9.9 101 Switching Protocols", // bad version
	" 101 Switching Protocols",         // empty version
	"HTTP/1.1 abc Switching Protocols", // non-numeric status
	"HTTP/1.1 99 Switching Protocols",  // two-digit status
	"HTTP/1.1 1000 Switching Protocols", // four-digit status
	"HTTP/1.1 1\x01" "1 Switching Protocols", // control character
	"101 HTTP/1.1 Switching Protocols", // swapped
};
#define NRESP_MUT ((int) (sizeof(RESP_MUT) / sizeof(RESP_MUT[0])))

static int
accept_wait(int lfd, int ms)
{
	for (int t = 0;; t += 10) {
		vs_settle();
		int fd = accept(lfd, NULL, NULL);
		if (fd >= 0) {
			setnb(fd);
			return fd;
		}
		if (t >= ms)
			return -1;
		vs_sleep(10);
	}
}

// read and strictly check the client's opening handshake; fills key
static int
ws_server_read_request(rconn *c, int cs, int port, char *key, size_t keysz)
{
	hmsg m;
	char why[200];
	int  rv = 0;
	for (int t = 0; t < 10; t++) {
		rc_pump(c);
		rv = http_head_strict(c->rb, c->rl, &m, why, sizeof(why));
		if (rv != 0 || c->eof)
			break;
		vs_sleep(5);
	}
#define RQFAIL(...)                                             \
	do {                                                    \
		cfail("C16:ws:bad-upgrade-request", __VA_ARGS__); \
		return 0;                                       \
	} while (0)
	if (rv == 0)
		RQFAIL("case %d: no complete upgrade request from the dialer (%zu "
		       "bytes, eof=%d)",
		    cs, c->rl, c->eof);
	if (rv < 0)
		RQFAIL("case %d: malformed request head (%s): \"%s\"", cs, why,
		    showb(c->rb, c->rl));
	if (strcmp(m.first, "GET /c16 HTTP/1.1") != 0)
		RQFAIL("case %d: request line \"%s\"", cs, m.first);
	int         cnt;
	const char *v;
	char        hp[40];
	snprintf(hp, sizeof(hp), "127.0.0.1:%d", port);
	if ((v = hfind(&m, "Host", &cnt)) == NULL || cnt != 1 ||
	    (strcmp(v, hp) != 0 && strcmp(v, "127.0.0.1") != 0))
		RQFAIL("case %d: Host header %s%s (x%d)", cs, v ? "is wrong: " : "missing",
		    v ? (strncmp(v, "127.0.0.1", 9) ? v : "127.0.0.1:<wrong port>") : "",
		    cnt);
	if ((v = hfind(&m, "Upgrade", &cnt)) == NULL || !list_has(v, "websocket"))
		RQFAIL("case %d: Upgrade header \"%s\"", cs, v ? v : "(missing)");
	if ((v = hfind(&m, "Connection", &cnt)) == NULL || !list_has(v, "upgrade"))
		RQFAIL("case %d: Connection header \"%s\"", cs, v ? v : "(missing)");
	if ((v = hfind(&m, "Sec-WebSocket-Version", &cnt)) == NULL || cnt != 1 ||
	    strcmp(v, "13") != 0)
		RQFAIL("case %d: Sec-WebSocket-Version \"%s\" (x%d)", cs,
		    v ? v : "(missing)", cnt);
	if ((v = hfind(&m, "Sec-WebSocket-Protocol", &cnt)) == NULL || cnt != 1 ||
	    strcmp(v, "pair.sp.nanomsg.org") != 0)
		RQFAIL("case %d: Sec-WebSocket-Protocol \"%s\" (x%d)", cs,
		    v ? v : "(missing)", cnt);
	uint8_t raw[24];
	if ((v = hfind(&m, "Sec-WebSocket-Key", &cnt)) == NULL || cnt != 1 ||
	    strlen(v) != 24 || ref_b64dec(v, raw, sizeof(raw)) != 16)
		RQFAIL("case %d: Sec-WebSocket-Key \"%s\" (x%d) is not the base64 "
		       "of 16 bytes",
		    cs, v ? v : "(missing)", cnt);
	if ((v = hfind(&m, "Content-Length", &cnt)) != NULL && atoi(v) != 0)
		RQFAIL("case %d: upgrade request announces a body", cs);
	snprintf(key, keysz, "%s", hfind(&m, "Sec-WebSocket-Key", NULL));
	rc_consume(c, m.hdrlen);
#undef RQFAIL
	return 1;
}

typedef struct dctx {
	nng_socket s;
	int        lfd, port;
	long       n_deliv, n_failed, n_emit;
} dctx;

static void
d_case(dctx *D, int cs, const wcase *w)
{
	rconn c;
	rxs   st;
	dlist d;
	char  key[40], acc[40], resp[400];
	uint8_t *wire = NULL;
	memset(&st, 0, sizeof(st));
	memset(&d, 0, sizeof(d));
	c.fd   = -1;
	int fd = accept_wait(D->lfd, 600);
	if (fd < 0)
		CFAIL("C16:ws:dialer-no-connect",
		    "case %d: the dialer did not (re)connect within 600 ms", cs);
	rc_init(&c, fd);
	if (!ws_server_read_request(&c, cs, D->port, key, sizeof(key)))
		goto done;
	ref_ws_accept(key, acc);
	const char *first = "HTTP/1.1 101 Switching Protocols";
	if (w->kind == WK_RESPMUT)
		first = RESP_MUT[w->aux];
	int rn = snprintf(resp, sizeof(resp),
	    "%s\r\nUpgrade: websocket\r\nConnection: Upgrade\r\n"
	    "Sec-WebSocket-Accept: %s\r\n"
	    "Sec-WebSocket-Protocol: pair.sp.nanomsg.org\r\n\r\n",
	    first, acc);
	int glued = w->kind == WK_RESPCUT && w->aux == -2;
	if (glued) {
		// 101 response and the first frames arrive in one segment
		size_t   wn0 = enc_case(w, cs, &wire);
		uint8_t *all = malloc((size_t) rn + wn0);
		memcpy(all, resp, (size_t) rn);
		memcpy(all + rn, wire, wn0);
		rc_write_cut(&c, all, (size_t) rn + wn0, -1, -1);
		free(all);
		free(wire);
		wire = NULL;
	} else
		rc_write_cut(&c, (uint8_t *) resp, (size_t) rn,
		    w->kind == WK_RESPCUT ? w->aux : -1, -1);
	vs_case();
	vs_nontrivial();
	refout R;
	if (w->kind == WK_SEND) {
		nng_msg *m;
		VH_OK(nng_msg_alloc(&m, w->sendsz));
		for (size_t j = 0; j < w->sendsz; j++)
			((uint8_t *) nng_msg_body(m))[j] = sendb(cs, j);
		int rv = 0;
		for (int t = 0; t < 5; t++) {
			rv = nng_sendmsg(D->s, m, NNG_FLAG_NONBLOCK);
			if (rv != NNG_EAGAIN)
				break;
			vs_sleep(5);
		}
		if (rv != 0) {
			nng_msg_free(m);
			CFAIL("C16:ws:send-failed",
			    "case %d: nng_sendmsg(%u) on the dialed ws pipe: %s", cs,
			    w->sendsz, nng_strerror(rv));
		}
		vs_settle();
		for (int t = 0; t < 10; t++) {
			rc_pump(&c);
			rx_process(&c, &st, 1);
			if (st.bad || st.nmsg >= 1 || c.eof)
				break;
			vs_sleep(5);
		}
		if (st.bad)
			CFAIL("C16:ws:emitted-malformed",
			    "case %d send %u bytes: client emitted: %s", cs, w->sendsz,
			    st.why);
		int eq = st.nmsg == 1 && !st.inmsg && st.msglen[0] == w->sendsz;
		for (size_t j = 0; eq && j < w->sendsz; j++)
			if (st.msg[0][j] != sendb(cs, j))
				eq = 0;
		if (!eq)
			CFAIL("C16:ws:emitted-content",
			    "case %d: dialer sent %u bytes, the server decoded %d "
			    "message(s) / %ld data frame(s) / first %zu bytes",
			    cs, w->sendsz, st.nmsg, st.ndata,
			    st.nmsg ? st.msglen[0] : (size_t) 0);
		D->n_emit += st.ndata;
		goto done;
	}
	// WK_SEQ / WK_RESPCUT / WK_RESPMUT: server -> client frames
	ref_accept(w, 1u << 20, 1u << 20, 0, &R);
	if (!glued) {
		size_t wn = enc_case(w, cs, &wire);
		rc_write_cut(&c, wire, wn, w->cut1, w->cut2);
	}
	drain_all(D->s, &d);
	rc_pump(&c);
	rx_process(&c, &st, 1);
	D->n_deliv += d.n;
	if (st.bad)
		CFAIL("C16:ws:emitted-malformed", "case %d %s: client emitted: %s", cs,
		    fd_show(w), st.why);
	if (w->kind == WK_RESPMUT) {
		if (d.n > 0)
			CFAIL("C16:http:bad-status-accepted",
			    "case %d: the dialer accepted the malformed status line "
			    "\"%s\" and delivered a message",
			    cs, showb((const uint8_t *) first, strlen(first)));
		D->n_failed++;
		goto done;
	}
	if (w->kind == WK_RESPCUT) {
		R.must = R.nmsg; // nothing else wrong with it
		if (d.n != R.nmsg) {
			CFAIL("C16:http:segmentation",
			    "case %d: 101 response %s %d: %d message(s) delivered "
			    "afterwards instead of %d",
			    cs, glued ? "glued to the first frames, cut" : "cut at offset",
			    w->aux, d.n, R.nmsg);
		}
	}
	if (check_deliveries(w, &R, &d, cs, w->cut1 >= 0) != 0)
		goto done;
	int strict_fail = R.fail_at >= 0 && R.lenient_at < 0 && R.close_at < 0;
	int clean       = R.fail_at < 0 && R.lenient_at < 0 && R.close_at < 0;
	if (strict_fail) {
		if (!wait_failed(&c, &st, 1, 200))
			CFAIL("C16:ws:violation-not-failed",
			    "case %d %s (server->client): frame %d violates the "
			    "framing rules but the dialer neither closes nor sends a "
			    "close frame within 200 ms",
			    cs, fd_show(w), R.fail_at);
		if (st.bad)
			CFAIL("C16:ws:emitted-malformed",
			    "case %d %s: client emitted: %s", cs, fd_show(w), st.why);
		D->n_failed++;
	} else if (clean && (st.closed || c.eof))
		CFAIL("C16:ws:valid-failed",
		    "case %d %s (server->client): well-formed sequence but the "
		    "dialer %s",
		    cs, fd_show(w), st.closed ? "sent a close frame" : "closed");
	check_pongs(w, &R, &st, cs, cs, clean);
done:
	free(wire);
	dl_free(&d);
	rxs_free(&st);
	rc_close(&c);
	vs_sleep(160); // linger + redial
	dlist junk;
	memset(&junk, 0, sizeof(junk));
	drain_all(D->s, &junk);
	dl_free(&junk);
}

static void
run_wsd(void *arg)
{
	dcfg *cf = arg;
	dctx  D;
	memset(&D, 0, sizeof(D));
	g_sfx           = "";
	g_mask_default  = 0;
	vs_tcp_grace_us = 1500;
	vh_init(0);
	struct sockaddr_in sa;
	socklen_t          sl = sizeof(sa);
	memset(&sa, 0, sizeof(sa));
	sa.sin_family      = AF_INET;
	sa.sin_addr.s_addr = htonl(INADDR_LOOPBACK);
	D.lfd              = socket(AF_INET, SOCK_STREAM, 0);
	if (D.lfd < 0 || bind(D.lfd, (struct sockaddr *) &sa, sizeof(sa)) != 0 ||
	    listen(D.lfd, 16) != 0 ||
	    getsockname(D.lfd, (struct sockaddr *) &sa, &sl) != 0)
		vs_fail("harness:peer", "raw server socket: %s", strerror(errno));
	fcntl(D.lfd, F_SETFL, fcntl(D.lfd, F_GETFL) | O_NONBLOCK);
	fcntl(D.lfd, F_SETFD, FD_CLOEXEC);
	D.port = ntohs(sa.sin_port);
	char url[64];
	snprintf(url, sizeof(url), "ws://127.0.0.1:%d/c16", D.port);
	nng_dialer dl;
	VH_OK(nng_pair0_open(&D.s));
	VH_OK(nng_socket_set_int(D.s, NNG_OPT_RECVBUF, 16));
	VH_OK(nng_socket_set_ms(D.s, NNG_OPT_RECONNMINT, 20));
	VH_OK(nng_socket_set_ms(D.s, NNG_OPT_RECONNMAXT, 20));
	VH_OK(nng_dialer_create(&dl, D.s, url));
	if (cf->fragsize != DEF)
		VH_OK(nng_dialer_set_size(dl, NNG_OPT_WS_SENDMAXFRAME, cf->fragsize));
	VH_OK(nng_dialer_start(dl, NNG_FLAG_NONBLOCK));
	int nb    = (cf->t.n + cf->per - 1) / cf->per;
	int batch = vs_choose(VK_ENV, nb);
	for (int k = 0; k < cf->per; k++) {
		int cs = batch * cf->per + k;
		if (cs >= cf->t.n)
			break;
		const wcase *w = &cf->t.c[cs];
		vs_log("case %d: kind %d aux %d send %u %s", cs, w->kind, w->aux,
		    w->sendsz, fd_show(w));
		d_case(&D, cs, w);
	}
	// control: a plain exchange in both directions
	{
		wcase w;
		memset(&w, 0, sizeof(w));
		w.kind = WK_SEQ;
		w.nf   = 2;
		w.f[0] = FD(OP_PING, 1, 2);
		w.f[1] = FD(OP_BIN, 1, 9);
		w.cut1 = w.cut2 = -1;
		long before     = D.n_deliv;
		int  nf         = g_nfail;
		d_case(&D, 9998, &w);
		if (g_nfail == nf && D.n_deliv != before + 1)
			cfail("C16:ws:control:delivery",
			    "the control connection's message was not delivered to the "
			    "dialing socket");
	}
	vs_outcome("%s d%ld f%ld e%ld x%d", cf->name, D.n_deliv, D.n_failed,
	    D.n_emit > 9 ? 9 : D.n_emit, g_nfail);
	close(D.lfd);
	nng_socket_close(D.s);
	batch_finish();
	vh_fini();
}

// =====================================================================================
// (c) nng_http_server + handler  <->  raw HTTP client
// =====================================================================================
typedef struct hrec {
	char    method[40];
	char    uri[200];
	uint8_t body[64];
	size_t  blen;
} hrec;
static struct {
	int  calls;
	hrec r[4];
} HS;

static void
h_cb(nng_http *conn, void *arg, nng_aio *aio)
{
	(void) arg;
	void  *b = NULL;
	size_t l = 0;
	hrec  *r = &HS.r[HS.calls < 4 ? HS.calls : 3];
	HS.calls++;
	snprintf(r->method, sizeof(r->method), "%s", nng_http_get_method(conn));
	snprintf(r->uri, sizeof(r->uri), "%s", nng_http_get_uri(conn));
	nng_http_get_body(conn, &b, &l);
	r->blen = l;
	if (l > sizeof(r->body))
		l = sizeof(r->body);
	if (l)
		memcpy(r->body, b, l);
	nng_http_set_status(conn, NNG_HTTP_STATUS_OK, NULL);
	int rv = nng_http_copy_body(conn, "ok", 2);
	nng_aio_finish(aio, rv);
}

typedef struct hcase {
	int         req;  // 0 GET, 1 POST
	int         cut1, cut2;
	const char *mut;  // request line mutation (NULL = valid request)
	const char *what;
	const char *slug; // signature detail
} hcase;
static hcase *HC;
static int    NHC, HPER;
static hcase *HM;
static int    NHM;
static hcase *HP; // pipelined pair
static int    NHP;

static const char *HREQ[3] = {
	"GET /c16 HTTP/1.1\r\nHost: 127.0.0.1\r\nAccept: */*\r\n\r\n",
	"POST /c16 HTTP/1.1\r\nHost: 127.0.0.1\r\nContent-Length: 5\r\n\r\nhello",
	// two pipelined requests on one persistent connection
	"POST /c16 HTTP/1.1\r\nHost: 127.0.0.1\r\nContent-Length: 5\r\n\r\nhello"
	"GET /c16/b HTTP/1.1\r\nHost: 127.0.0.1\r\n\r\n",
};
static const char *HREQN[3] = { "GET", "POST", "POST+GET pipelined" };

// read a complete response; returns status (>0), 0 nothing/incomplete, -1 EOF
// without a response, -2 malformed (cfail already called when report != 0)
static int
http_read_response(rconn *c, int cs, int ms, int expect_ok, size_t *bodylen,
    char *why, size_t wsz)
{
	hmsg m;
	int  rv = 0;
	for (int t = 0;; t += 10) {
		rc_pump(c);
		rv = http_head_strict(c->rb, c->rl, &m, why, wsz);
		if (rv != 0 || c->eof || t >= ms)
			break;
		vs_sleep(10);
	}
	(void) cs;
	(void) expect_ok;
	if (rv == 0)
		return (c->eof && c->rl == 0) ? -1 : (c->eof ? -2 : 0);
	if (rv < 0)
		return -2;
	int st = status_line_strict(m.first);
	if (st < 0) {
		snprintf(why, wsz, "status line \"%s\"", m.first);
		return -2;
	}
	int         cnt;
	const char *v  = hfind(&m, "Content-Length", &cnt);
	size_t      cl = 0;
	if (v) {
		char *end;
		cl = strtoul(v, &end, 10);
		if (*v == 0 || *end != 0 || cnt != 1) {
			snprintf(why, wsz, "Content-Length \"%s\" (x%d)", v, cnt);
			return -2;
		}
	} else if (st >= 200 && st != 204 && st != 304 &&
	    hfind(&m, "Transfer-Encoding", NULL) == NULL) {
		snprintf(why, wsz,
		    "response %d on a persistent connection has neither "
		    "Content-Length nor Transfer-Encoding",
		    st);
		if (!list_has(hfind(&m, "Connection", NULL), "close"))
			return -2;
	}
	for (int t = 0; c->rl < m.hdrlen + cl && !c->eof && t < ms; t += 10) {
		vs_sleep(10);
		rc_pump(c);
	}
	if (c->rl < m.hdrlen + cl) {
		snprintf(why, wsz, "body shorter (%zu) than Content-Length %zu",
		    c->rl - m.hdrlen, cl);
		return -2;
	}
	*bodylen = cl;
	memmove(c->rb, c->rb + m.hdrlen, c->rl - m.hdrlen);
	c->rl -= m.hdrlen;
	return st;
}

static int H_cls[4];

static void
h_case(int port, int cs, const hcase *h)
{
	rconn c;
	char  why[200] = "";
	char  req[400];
	size_t rn;
	g_sfx = h->slug ? h->slug : "";
	rc_open(&c, port);
	if (h->mut) {
		rn = (size_t) snprintf(req, sizeof(req),
		    "%s\r\nHost: 127.0.0.1\r\n\r\n", h->mut);
		// embedded NUL free by construction
	} else {
		rn = strlen(HREQ[h->req]);
		memcpy(req, HREQ[h->req], rn);
	}
	memset(&HS, 0, sizeof(HS));
	rc_write_cut(&c, (uint8_t *) req, rn, h->cut1, h->cut2);
	vs_case();
	vs_nontrivial();
	size_t bl = 0;
	int    st = http_read_response(&c, cs, h->mut ? 200 : 100, !h->mut, &bl, why,
	       sizeof(why));
	if (h->mut) {
		if (HS.calls != 0)
			CFAIL("C16:http:handler-saw-malformed",
			    "request line \"%s\" (%s): the handler was invoked with "
			    "method \"%s\" uri \"%s\"",
			    showb((const uint8_t *) h->mut, strlen(h->mut)), h->what,
			    HS.r[0].method, HS.r[0].uri);
		if (st == -2)
			CFAIL("C16:http:emitted-malformed",
			    "request line \"%s\": malformed answer (%s): \"%s\"",
			    showb((const uint8_t *) h->mut, strlen(h->mut)), why,
			    showb(c.rb, c.rl < 120 ? c.rl : 120));
		if (st == 0 || (st > 0 && st < 400))
			CFAIL("C16:http:malformed-not-rejected",
			    "request line \"%s\" (%s): answer is %s %d instead of a "
			    "4xx/5xx status or a closed connection",
			    showb((const uint8_t *) h->mut, strlen(h->mut)), h->what,
			    st == 0 ? "nothing within 200 ms, status" : "status", st);
		goto done;
	}
	const char *sgn =
	    (h->cut1 >= 0) ? "C16:http:segmentation" : "C16:http:valid-request";
	static const struct {
		const char *m, *u;
		size_t      bl;
	} EX[3][2] = { { { "GET", "/c16", 0 }, { NULL, NULL, 0 } },
		{ { "POST", "/c16", 5 }, { NULL, NULL, 0 } },
		{ { "POST", "/c16", 5 }, { "GET", "/c16/b", 0 } } };
	int nreq = h->req == 2 ? 2 : 1;
	for (int q = 0; q < nreq; q++) {
		if (q > 0)
			st = http_read_response(&c, cs, 100, 1, &bl, why, sizeof(why));
		if (HS.calls <= q)
			CFAIL(sgn,
			    "%s cut at %d,%d: the handler ran %d time(s) instead of %d "
			    "(answer %d: status %d %s)",
			    HREQN[h->req], h->cut1, h->cut2, HS.calls, nreq, q, st, why);
		const hrec *r = &HS.r[q];
		if (strcmp(r->method, EX[h->req][q].m) != 0 ||
		    strcmp(r->uri, EX[h->req][q].u) != 0 ||
		    r->blen != EX[h->req][q].bl ||
		    (r->blen && memcmp(r->body, "hello", 5) != 0))
			CFAIL(sgn,
			    "%s cut at %d,%d: request %d reached the handler as method "
			    "\"%s\" uri \"%s\" body %zu bytes \"%s\"",
			    HREQN[h->req], h->cut1, h->cut2, q, r->method, r->uri,
			    r->blen, showb(r->body, r->blen < 16 ? r->blen : 16));
		if (st == -2 || st <= 0)
			CFAIL("C16:http:emitted-malformed",
			    "%s cut at %d,%d: answer %d: %s (%s): \"%s\"", HREQN[h->req],
			    h->cut1, h->cut2, q,
			    st == -2 ? "malformed response" : "no response", why,
			    showb(c.rb, c.rl < 120 ? c.rl : 120));
		if (st != 200 || bl != 2 || c.rl < 2 || memcmp(c.rb, "ok", 2) != 0 ||
		    (q == nreq - 1 && c.rl != 2))
			CFAIL("C16:http:emitted-malformed",
			    "%s cut at %d,%d: answer %d: status %d Content-Length %zu, "
			    "%zu buffered bytes \"%s\" instead of 200 / 2 / \"ok\"",
			    HREQN[h->req], h->cut1, h->cut2, q, st, bl, c.rl,
			    showb(c.rb, c.rl < 16 ? c.rl : 16));
		rc_consume(&c, 2);
	}
	if (HS.calls != nreq)
		CFAIL(sgn, "%s cut at %d,%d: the handler ran %d time(s) instead of %d",
		    HREQN[h->req], h->cut1, h->cut2, HS.calls, nreq);
	{
		// classification for the evidence: where did the (first) cut fall
		size_t hl = (size_t) (strstr(HREQ[h->req], "\r\n") - HREQ[h->req]);
		size_t he = (size_t) (strstr(HREQ[h->req], "\r\n\r\n") - HREQ[h->req]) + 4;
		if (h->cut1 < 0)
			H_cls[0]++;
		else if ((size_t) h->cut1 <= hl + 1)
			H_cls[1]++;
		else if ((size_t) h->cut1 < he)
			H_cls[2]++;
		else
			H_cls[3]++;
	}
done:
	g_sfx = "";
	rc_close(&c);
}

static void
run_http(void *arg)
{
	int mode = (int) (intptr_t) arg; // 0 segmentation, 1 mutations, 2 pipelined
	g_sfx           = "";
	vs_tcp_grace_us = 1500;
	vh_init(0);
	nng_url          *u;
	nng_http_server  *srv;
	nng_http_handler *h;
	int               port = 0;
	VH_OK(nng_url_parse(&u, "http://127.0.0.1:0"));
	VH_OK(nng_http_server_hold(&srv, u));
	VH_OK(nng_http_handler_alloc(&h, "/c16", h_cb));
	nng_http_handler_set_method(h, NULL);
	nng_http_handler_set_tree(h);
	VH_OK(nng_http_server_add_handler(srv, h));
	VH_OK(nng_http_server_start(srv));
	VH_OK(nng_http_server_get_port(srv, &port));
	vs_settle();
	hcase *tab = mode == 1 ? HM : mode == 2 ? HP : HC;
	int    n   = mode == 1 ? NHM : mode == 2 ? NHP : NHC;
	int    per = mode == 1 ? 1 : HPER;
	int    nb  = (n + per - 1) / per;
	int    batch = vs_choose(VK_ENV, nb);
	for (int k = 0; k < per; k++) {
		int cs = batch * per + k;
		if (cs >= n)
			break;
		vs_log("http case %d: %s cut %d,%d", cs,
		    tab[cs].mut ? tab[cs].what : HREQN[tab[cs].req],
		    tab[cs].cut1, tab[cs].cut2);
		h_case(port, cs, &tab[cs]);
	}
	// control: a plain valid GET still works
	{
		hcase ctl = { 0, -1, -1, NULL, "control", "" };
		int   nf  = g_nfail;
		h_case(port, 9997, &ctl);
		if (g_nfail == nf + 1 && nf == 0)
			snprintf(g_sig, sizeof(g_sig), "C16:http:control");
	}
	vs_outcome("http%d u%d l%d h%d b%d x%d", mode, H_cls[0], H_cls[1], H_cls[2],
	    H_cls[3], g_nfail);
	nng_http_server_stop(srv);
	nng_http_server_release(srv);
	nng_url_free(u);
	batch_finish();
	vh_fini();
}



// =====================================================================================
// (b3) websocket byte-stream API in message mode, nng on both ends, binary and text messages: a message of
// every size around the receiver's limit (NNG_OPT_RECVMAXSZ, or NNG_OPT_WS_RECVMAXFRAME for unfragmented
// messages), sent in one frame or in 40-byte fragments: at or below the limit it arrives byte for byte, above
// it nothing is delivered and the connection fails
// =====================================================================================
static void
run_wsmsg(void *arg)
{
	(void) arg;
	static const int LEN[] = { 0, 1, 39, 40, 41, 99, 100, 101, 120, 250 };
	int text  = vs_choose(VK_ENV, 2);
	int len   = LEN[vs_choose(VK_ENV, 10)];
	int frag  = vs_choose(VK_ENV, 2);
	int limfr = frag ? 0 : vs_choose(VK_ENV, 2); // the limit is the frame limit (only unfragmented)
	g_sfx           = "";
	vs_tcp_grace_us = 1500;
	vh_init(0);
	nng_stream_listener *l;
	nng_stream_dialer   *d;
	nng_aio             *la, *da, *sa, *ra;
	nng_stream          *srv, *cli;
	char                 url[64];
	int                  port = 0;
	VH_OK(nng_stream_listener_alloc(&l, "ws://127.0.0.1:0/m"));
	VH_OK(nng_stream_listener_set_bool(l, "ws:msgmode", true));
	VH_OK(nng_stream_listener_set_bool(l, NNG_OPT_WS_RECV_TEXT, text));
	if (limfr)
		VH_OK(nng_stream_listener_set_size(l, NNG_OPT_WS_RECVMAXFRAME, 100));
	else
		VH_OK(nng_stream_listener_set_size(l, NNG_OPT_RECVMAXSZ, 100));
	VH_OK(nng_stream_listener_listen(l));
	VH_OK(nng_stream_listener_get_int(l, NNG_OPT_BOUND_PORT, &port));
	snprintf(url, sizeof(url), "ws://127.0.0.1:%d/m", port);
	VH_OK(nng_stream_dialer_alloc(&d, url));
	VH_OK(nng_stream_dialer_set_bool(d, "ws:msgmode", true));
	VH_OK(nng_stream_dialer_set_bool(d, NNG_OPT_WS_SEND_TEXT, text));
	if (frag)
		VH_OK(nng_stream_dialer_set_size(d, NNG_OPT_WS_SENDMAXFRAME, 40));
	VH_OK(nng_aio_alloc(&la, NULL, NULL));
	VH_OK(nng_aio_alloc(&da, NULL, NULL));
	VH_OK(nng_aio_alloc(&sa, NULL, NULL));
	VH_OK(nng_aio_alloc(&ra, NULL, NULL));
	nng_aio_set_timeout(la, 1000);
	nng_aio_set_timeout(da, 1000);
	nng_stream_listener_accept(l, la);
	nng_stream_dialer_dial(d, da);
	nng_aio_wait(da);
	nng_aio_wait(la);
	if (nng_aio_result(da) != 0 || nng_aio_result(la) != 0)
		vs_fail("harness:wsmsg", "connect: dial %d accept %d", nng_aio_result(da), nng_aio_result(la));
	cli = nng_aio_get_output(da, 0);
	srv = nng_aio_get_output(la, 0);
	vs_case();
	vs_nontrivial();
	nng_msg *m;
	VH_OK(nng_msg_alloc(&m, (size_t) len));
	for (int i = 0; i < len; i++)
		((uint8_t *) nng_msg_body(m))[i] = (uint8_t) ('a' + i % 23);
	nng_aio_set_timeout(sa, 500);
	nng_aio_set_timeout(ra, 500);
	nng_stream_recv(srv, ra);
	nng_aio_set_msg(sa, m);
	nng_stream_send(cli, sa);
	nng_aio_wait(sa);
	if (nng_aio_result(sa) != 0)
		nng_msg_free(m);
	nng_aio_wait(ra);
	int rv = nng_aio_result(ra);
	const char *kind = text ? "text" : "binary";
	if (len <= 100) {
		if (rv != 0)
			vs_fail("C16:ws:valid-message-lost",
			    "%s message of %d bytes (%s, limit 100 on the %s): receive failed: %s", kind, len,
			    frag ? "40-byte fragments" : "one frame", limfr ? "frame" : "message", nng_strerror(rv));
		nng_msg *r = nng_aio_get_msg(ra);
		if ((int) nng_msg_len(r) != len)
			vs_fail("C16:ws:message-altered", "%s message of %d bytes arrived with %zu", kind, len,
			    nng_msg_len(r));
		for (int i = 0; i < len; i++)
			if (((uint8_t *) nng_msg_body(r))[i] != (uint8_t) ('a' + i % 23))
				vs_fail("C16:ws:message-altered", "%s message of %d bytes differs at byte %d", kind,
				    len, i);
		nng_msg_free(r);
	} else {
		if (rv == 0) {
			size_t n = nng_msg_len(nng_aio_get_msg(ra));
			nng_msg_free(nng_aio_get_msg(ra));
			vs_fail("C16:ws:over-limit-delivered",
			    "%s message of %d bytes (%s) was delivered (%zu bytes) although the receiver's %s limit "
			    "is 100",
			    kind, len, frag ? "40-byte fragments" : "one frame", n, limfr ? "frame" : "message");
		}
		// the connection is failed: a further receive does not deliver anything either
		nng_aio_set_timeout(ra, 200);
		nng_stream_recv(srv, ra);
		nng_aio_wait(ra);
		if (nng_aio_result(ra) == 0) {
			nng_msg_free(nng_aio_get_msg(ra));
			vs_fail("C16:ws:over-limit-delivered", "data delivered after an over-limit %s message", kind);
		}
	}
	vs_outcome("%s len%d frag%d limfr%d rv%d", kind, len, frag, limfr, rv);
	nng_stream_close(cli);
	nng_stream_close(srv);
	nng_stream_free(cli);
	nng_stream_free(srv);
	nng_aio_free(la);
	nng_aio_free(da);
	nng_aio_free(sa);
	nng_aio_free(ra);
	nng_stream_dialer_close(d);
	nng_stream_listener_close(l);
	nng_stream_dialer_free(d);
	nng_stream_listener_free(l);
	vh_fini();
}

// =====================================================================================
// (c3) several requests on one persistent connection: every sequence of 2 (quick) / 3 (thorough)
// requests over an alphabet that includes requests the server answers itself (unknown path, body
// larger than the handler accepts) and requests with a body nobody collects - each request is
// answered as if it were alone on the connection, sent in lock-step or all in one write
// =====================================================================================
enum { KQ_GET, KQ_POST, KQ_POST404, KQ_POSTNB, KQ_POST413, KQ_GET404, KQ_N };
static const struct {
	const char *name, *req;
	int         st;
	const char *body;  // response body of a 200 (set by the handler)
	int         calls; // which handler runs: 0 none, 1 /c16, 2 /nobody, 3 /small
	const char *hbody; // body the handler must see
} KQ[KQ_N] = {
	{ "GET", "GET /c16 HTTP/1.1\r\nHost: h\r\n\r\n", 200, "ok", 1, "" },
	{ "POST", "POST /c16 HTTP/1.1\r\nHost: h\r\nContent-Length: 5\r\n\r\nhello", 200, "ok", 1, "hello" },
	{ "POST-unknown-path", "POST /missing HTTP/1.1\r\nHost: h\r\nContent-Length: 7\r\n\r\nGET /c1", 404, NULL, 0, "" },
	{ "POST-body-not-collected", "POST /nobody HTTP/1.1\r\nHost: h\r\nContent-Length: 6\r\n\r\nGET /n", 200, "nb", 2, "" },
	{ "POST-body-too-large", "POST /small HTTP/1.1\r\nHost: h\r\nContent-Length: 9\r\n\r\n123456789", 413, NULL, 0, "" },
	{ "GET-unknown-path", "GET /missing HTTP/1.1\r\nHost: h\r\n\r\n", 404, NULL, 0, "" },
};
static struct {
	int  n;
	int  which[8];
	char body[8][16];
	size_t blen[8];
} KS;

static void
kq_cb(nng_http *conn, void *arg, nng_aio *aio)
{
	int    which = (int) (intptr_t) arg;
	void  *b     = NULL;
	size_t l     = 0;
	nng_http_get_body(conn, &b, &l);
	if (KS.n < 8) {
		KS.which[KS.n] = which;
		KS.blen[KS.n]  = l;
		memcpy(KS.body[KS.n], b, l < 16 ? l : 16);
		KS.n++;
	}
	nng_http_set_status(conn, NNG_HTTP_STATUS_OK, NULL);
	int rv = nng_http_copy_body(conn, which == 2 ? "nb" : "ok", 2);
	nng_aio_finish(aio, rv);
}

static void
run_httpseq(void *arg)
{
	int depth = (int) (intptr_t) arg;
	g_sfx           = "";
	vs_tcp_grace_us = 1500;
	vh_init(0);
	nng_url          *u;
	nng_http_server  *srv;
	nng_http_handler *h1, *h2, *h3;
	int               port = 0;
	VH_OK(nng_url_parse(&u, "http://127.0.0.1:0"));
	VH_OK(nng_http_server_hold(&srv, u));
	VH_OK(nng_http_handler_alloc(&h1, "/c16", kq_cb));
	nng_http_handler_set_method(h1, NULL);
	nng_http_handler_set_data(h1, (void *) (intptr_t) 1, NULL);
	VH_OK(nng_http_server_add_handler(srv, h1));
	VH_OK(nng_http_handler_alloc(&h2, "/nobody", kq_cb));
	nng_http_handler_set_method(h2, NULL);
	nng_http_handler_collect_body(h2, false, 0);
	nng_http_handler_set_data(h2, (void *) (intptr_t) 2, NULL);
	VH_OK(nng_http_server_add_handler(srv, h2));
	VH_OK(nng_http_handler_alloc(&h3, "/small", kq_cb));
	nng_http_handler_set_method(h3, NULL);
	nng_http_handler_collect_body(h3, true, 4);
	nng_http_handler_set_data(h3, (void *) (intptr_t) 3, NULL);
	VH_OK(nng_http_server_add_handler(srv, h3));
	VH_OK(nng_http_server_start(srv));
	VH_OK(nng_http_server_get_port(srv, &port));
	vs_settle();
	int  seq[4], pipelined = vs_choose(VK_ENV, 2);
	char hist[120] = "";
	for (int i = 0; i < depth; i++) {
		seq[i] = vs_choose(VK_ENV, KQ_N);
		snprintf(hist + strlen(hist), sizeof(hist) - strlen(hist), "%s%s", i ? ", " : "",
		    KQ[seq[i]].name);
	}
	vs_log("%s: %s", pipelined ? "one write" : "lock-step", hist);
	rconn c;
	char  why[200] = "";
	rc_open(&c, port);
	memset(&KS, 0, sizeof(KS));
	vs_case();
	vs_nontrivial();
	if (pipelined) {
		char   all[1200];
		size_t n = 0;
		for (int i = 0; i < depth; i++)
			n += (size_t) snprintf(all + n, sizeof(all) - n, "%s", KQ[seq[i]].req);
		rc_write_cut(&c, (uint8_t *) all, n, -1, -1);
	}
	int want_calls = 0, closed = 0;
	for (int i = 0; i < depth; i++) {
		const char *sg = pipelined ? "C16:http:persistent:pipelined" : "C16:http:persistent";
		size_t      bl = 0;
		if (!pipelined)
			rc_write_cut(&c, (const uint8_t *) KQ[seq[i]].req, strlen(KQ[seq[i]].req), -1, -1);
		int st = http_read_response(&c, i, 300, 1, &bl, why, sizeof(why));
		if (st == -2)
			CFAIL("C16:http:emitted-malformed", "[%s] answer %d malformed (%s): \"%s\"", hist, i,
			    why, showb(c.rb, c.rl < 120 ? c.rl : 120));
		if (st <= 0) {
			// the server may end a connection after an error answer ("Connection: close"); it may
			// not leave it open and silent, and it may not do so after a success
			if (st == -1 && closed)
				break;
			CFAIL(sg, "[%s] request %d (%s): %s", hist, i, KQ[seq[i]].name,
			    st == -1 ? "connection closed without an answer"
			             : "no answer within 300 ms on an open connection");
		}
		if (st != KQ[seq[i]].st)
			CFAIL(sg, "[%s] request %d (%s) answered %d, alone on a connection it is answered %d",
			    hist, i, KQ[seq[i]].name, st, KQ[seq[i]].st);
		if (KQ[seq[i]].body &&
		    (bl != strlen(KQ[seq[i]].body) || memcmp(c.rb, KQ[seq[i]].body, bl) != 0))
			CFAIL(sg, "[%s] request %d (%s): 200 with body \"%s\" (%zu bytes), the handler set \"%s\"",
			    hist, i, KQ[seq[i]].name, showb(c.rb, bl < 40 ? bl : 40), bl, KQ[seq[i]].body);
		rc_consume(&c, bl);
		if (KQ[seq[i]].calls) {
			// (when everything went out in one write later requests may already have been handled)
			if ((pipelined ? KS.n < want_calls + 1 : KS.n != want_calls + 1) ||
			    KS.which[want_calls] != KQ[seq[i]].calls)
				CFAIL(sg, "[%s] request %d (%s): %d handler calls so far (last: handler %d), expected "
				          "%d with handler %d last",
				    hist, i, KQ[seq[i]].name, KS.n, KS.n ? KS.which[KS.n - 1] : 0, want_calls + 1,
				    KQ[seq[i]].calls);
			if (KS.blen[want_calls] != strlen(KQ[seq[i]].hbody) ||
			    memcmp(KS.body[want_calls], KQ[seq[i]].hbody, KS.blen[want_calls]) != 0)
				CFAIL(sg, "[%s] request %d (%s): the handler saw a body of %zu bytes \"%s\"", hist, i,
				    KQ[seq[i]].name, KS.blen[want_calls],
				    showb((uint8_t *) KS.body[want_calls], KS.blen[want_calls] < 16 ? KS.blen[want_calls] : 16));
			want_calls++;
		} else if (!pipelined && KS.n != want_calls)
			CFAIL("C16:http:handler-saw-malformed",
			    "[%s] request %d (%s) is answered by the server itself, yet a handler ran (handler %d, "
			    "body %zu bytes): body bytes were taken for a request",
			    hist, i, KQ[seq[i]].name, KS.which[KS.n - 1], KS.blen[KS.n - 1]);
		closed = st >= 400; // only after an error answer may the server hang up
	}
	if (KS.n != want_calls)
		CFAIL("C16:http:handler-saw-malformed", "[%s] %d handler calls for %d handled requests", hist,
		    KS.n, want_calls);
done:
	g_sfx = "";
	rc_close(&c);
	vs_outcome("%s%s x%d", pipelined ? "P:" : "L:", hist, g_nfail);
	nng_http_server_stop(srv);
	nng_http_server_release(srv);
	nng_url_free(u);
	batch_finish();
	vh_fini();
}

// =====================================================================================
// (c2) large request heads: the same head, larger than the connection's read buffer but made of
// ordinary lines, under segmentations that fill the buffer differently
// =====================================================================================
static struct {
	int      calls, nh;
	unsigned sum;
} HB;

static void
hb_cb(nng_http *conn, void *arg, nng_aio *aio)
{
	(void) arg;
	const char *k, *v;
	void       *it = NULL;
	HB.calls++;
	HB.nh  = 0;
	HB.sum = 0;
	while (nng_http_next_header(conn, &k, &v, &it)) {
		HB.nh++;
		for (const char *q = k; *q; q++)
			HB.sum = HB.sum * 31 + (unsigned char) *q;
		for (const char *q = v; *q; q++)
			HB.sum = HB.sum * 33 + (unsigned char) *q;
	}
	nng_http_set_status(conn, NNG_HTTP_STATUS_OK, NULL);
	int rv = nng_http_copy_body(conn, "ok", 2);
	nng_aio_finish(aio, rv);
}

static void
run_httpbig(void *arg)
{
	(void) arg;
	static const struct {
		int nh, ll;
	} SH[] = { { 40, 290 }, { 27, 300 }, { 28, 291 }, { 30, 272 }, { 60, 140 },
		{ 16, 1000 } };
	g_sfx           = "";
	vs_tcp_grace_us = 1500;
	vh_init(0);
	nng_url          *u;
	nng_http_server  *srv;
	nng_http_handler *h;
	int               port = 0;
	VH_OK(nng_url_parse(&u, "http://127.0.0.1:0"));
	VH_OK(nng_http_server_hold(&srv, u));
	VH_OK(nng_http_handler_alloc(&h, "/big", hb_cb));
	VH_OK(nng_http_server_add_handler(srv, h));
	VH_OK(nng_http_server_start(srv));
	VH_OK(nng_http_server_get_port(srv, &port));
	vs_settle();
	int   shape = vs_choose(VK_ENV, 6);
	int   nh = SH[shape].nh, ll = SH[shape].ll;
	char *req = malloc(70000);
	size_t rn = (size_t) sprintf(req, "GET /big HTTP/1.1\r\nHost: 127.0.0.1\r\n");
	size_t lines[80];
	int    nl = 0;
	lines[nl++] = rn;
	for (int i = 0; i < nh; i++) {
		int k = sprintf(req + rn, "X-H%02d: ", i);
		for (int j = k; j < ll - 2; j++)
			req[rn + (size_t) j] = (char) ('a' + (i * 7 + j) % 26);
		rn += (size_t) ll - 2;
		req[rn++] = '\r';
		req[rn++] = '\n';
		lines[nl++] = rn;
	}
	req[rn++] = '\r';
	req[rn++] = '\n';
	// segmentations: per line (reference), one write, 8160 then the rest, 8159, 8161, chunks
	static const int CH[] = { -1, 0, 8160, 8159, 8161, -4000, -1000, -97, -8160 };
	int      ref_st = 0, ref_nh = 0, ref_calls = 0;
	unsigned ref_sum = 0;
	for (int sg = 0; sg < 9; sg++) {
		rconn  c;
		char   why[200] = "";
		size_t cuts[800];
		int    nc = 0;
		if (sg == 0) {
			for (int i = 0; i < nl; i++)
				cuts[nc++] = lines[i];
		} else if (CH[sg] > 0) {
			cuts[nc++] = (size_t) CH[sg];
		} else if (CH[sg] < 0) {
			for (size_t at = (size_t) -CH[sg]; at < rn && nc < 800; at += (size_t) -CH[sg])
				cuts[nc++] = at;
		}
		memset(&HB, 0, sizeof(HB));
		rc_open(&c, port);
		vp_write_cut(c.fd, (uint8_t *) req, rn, cuts, nc);
		vs_settle();
		vs_case();
		vs_nontrivial();
		size_t bl = 0;
		int    st = http_read_response(&c, sg, 200, 0, &bl, why, sizeof(why));
		if (st == -2)
			CFAIL("C16:http:emitted-malformed",
			    "%d header lines of %d bytes, segmentation %d: malformed answer (%s)",
			    nh, ll, CH[sg], why);
		if (sg == 0) {
			ref_st    = st;
			ref_nh    = HB.nh;
			ref_sum   = HB.sum;
			ref_calls = HB.calls;
			if (st != 200 || HB.calls != 1 || HB.nh < nh)
				CFAIL("C16:http:valid-request",
				    "request head of %zu bytes (%d header lines of %d bytes) sent one "
				    "line per segment: status %d, handler ran %d time(s) with %d headers",
				    rn, nh, ll, st, HB.calls, HB.nh);
		} else if (st != ref_st || HB.calls != ref_calls || HB.nh != ref_nh ||
		    HB.sum != ref_sum)
			CFAIL("C16:http:segmentation",
			    "request head of %zu bytes (%d header lines of %d bytes): sent line by "
			    "line -> status %d, handler x%d, %d headers; sent %s%d -> status %d, "
			    "handler x%d, %d headers%s",
			    rn, nh, ll, ref_st, ref_calls, ref_nh,
			    CH[sg] == 0      ? "in one write "
			        : CH[sg] > 0 ? "cut once at "
			                     : "in chunks of ",
			    CH[sg] < 0 ? -CH[sg] : CH[sg], st, HB.calls, HB.nh,
			    HB.sum != ref_sum ? " (different header content)" : "");
	done:
		rc_close(&c);
	}
	free(req);
	vs_outcome("httpbig shape %d fails %d", shape, g_nfail);
	nng_http_server_stop(srv);
	nng_http_server_release(srv);
	nng_url_free(u);
	batch_finish();
	vh_fini();
}

// =====================================================================================
// (d) nng_http_client / nng_http_transact  <->  raw HTTP server implemented here
// =====================================================================================
typedef struct ccase {
	int         resp; // 0 Content-Length body, 1 chunked body
	int         cut1, cut2;
	const char *mut;  // full malformed response (NULL = valid)
	const char *what, *slug;
} ccase;
static ccase *CC;
static int    NCC;

static const char *CRESP[5] = {
	"HTTP/1.1 200 OK\r\nContent-Type: text/plain\r\nContent-Length: 5\r\n\r\nhello",
	"HTTP/1.1 200 OK\r\nTransfer-Encoding: chunked\r\n\r\n5\r\nhello\r\n"
	"3;x=y\r\nabc\r\n1A\r\n0\r\n\r\nABCDEFGHIJKLMNOPQRSTU\r\n0\r\nX-T: v\r\n\r\n",
	// responses without a body: the transaction ends with the head
	"HTTP/1.1 204 No Content\r\nX-A: b\r\n\r\n",
	"HTTP/1.1 200 OK\r\nContent-Length: 0\r\nX-A: b\r\n\r\n",
};
static const char  *CBODY[5] = { "hello", "helloabc0\r\n\r\nABCDEFGHIJKLMNOPQRSTU", "", "", "hello" };
static const int    CSTAT[5] = { 200, 200, 204, 200, 200 };
static const char  *CRN[5]   = { "plain", "chunked", "204-no-content", "empty-body", "large-head" };
// [4]: a head of 120 ordinary header lines (12 KB: larger than the connection's read buffer) - built at start
static char         CBIG[16384];

static int
raw_listen(int *port)
{
	struct sockaddr_in sa;
	socklen_t          sl = sizeof(sa);
	memset(&sa, 0, sizeof(sa));
	sa.sin_family      = AF_INET;
	sa.sin_addr.s_addr = htonl(INADDR_LOOPBACK);
	int lfd            = socket(AF_INET, SOCK_STREAM, 0);
	if (lfd < 0 || bind(lfd, (struct sockaddr *) &sa, sizeof(sa)) != 0 ||
	    listen(lfd, 16) != 0 ||
	    getsockname(lfd, (struct sockaddr *) &sa, &sl) != 0)
		vs_fail("harness:peer", "raw server socket: %s", strerror(errno));
	fcntl(lfd, F_SETFL, fcntl(lfd, F_GETFL) | O_NONBLOCK);
	fcntl(lfd, F_SETFD, FD_CLOEXEC);
	*port = ntohs(sa.sin_port);
	return lfd;
}

static int
aio_wait_virtual(nng_aio *aio, int ms)
{
	for (int t = 0;; t += 10) {
		vs_settle();
		if (!nng_aio_busy(aio))
			return 1;
		if (t >= ms)
			return 0;
		vs_sleep(10);
	}
}

static int C_cls[5];

static void
c_case(nng_http_client *cli, nng_aio *aio, int lfd, int port, int cs,
    const ccase *cc)
{
	rconn     c;
	nng_http *conn = NULL;
	char      why[200];
	hmsg      m;
	c.fd  = -1;
	g_sfx = cc->slug ? cc->slug : "";
	nng_http_client_connect(cli, aio);
	int fd = accept_wait(lfd, 300);
	if (fd < 0 || !aio_wait_virtual(aio, 300) || nng_aio_result(aio) != 0) {
		if (fd >= 0)
			close(fd);
		vs_fail("harness:peer", "http client connect failed (case %d)", cs);
	}
	rc_init(&c, fd);
	conn = nng_aio_get_output(aio, 0);
	VH_OK(nng_http_set_uri(conn, "/x", NULL));
	nng_http_transact(conn, aio);
	vs_settle();
	int rv = 0;
	for (int t = 0; t < 10; t++) {
		rc_pump(&c);
		rv = http_head_strict(c.rb, c.rl, &m, why, sizeof(why));
		if (rv != 0 || c.eof)
			break;
		vs_sleep(5);
	}
	if (rv <= 0)
		CFAIL("C16:http:emitted-malformed",
		    "case %d: client request head %s (%s): \"%s\"", cs,
		    rv == 0 ? "incomplete" : "malformed", rv ? why : "",
		    showb(c.rb, c.rl < 160 ? c.rl : 160));
	{
		int         cnt;
		const char *v;
		char        hp[40];
		snprintf(hp, sizeof(hp), "127.0.0.1:%d", port);
		if (strcmp(m.first, "GET /x HTTP/1.1") != 0)
			CFAIL("C16:http:emitted-malformed",
			    "case %d: client request line \"%s\"", cs, m.first);
		if ((v = hfind(&m, "Host", &cnt)) == NULL || cnt != 1 ||
		    (strcmp(v, hp) != 0 && strcmp(v, "127.0.0.1") != 0))
			CFAIL("C16:http:emitted-malformed",
			    "case %d: client Host header %s (x%d)", cs,
			    v ? "does not name the dialed authority" : "missing", cnt);
		if (c.rl != m.hdrlen)
			CFAIL("C16:http:emitted-malformed",
			    "case %d: %zu unexpected bytes after the request head of a "
			    "body-less GET",
			    cs, c.rl - m.hdrlen);
	}
	const char *resp = cc->mut ? cc->mut : CRESP[cc->resp];
	rc_write_cut(&c, (const uint8_t *) resp, strlen(resp), cc->cut1, cc->cut2);
	vs_case();
	vs_nontrivial();
	int done_ = aio_wait_virtual(aio, 200);
	if (!done_) {
		// hand the decision to the library: end of stream
		shutdown(c.fd, SHUT_WR);
		if (!aio_wait_virtual(aio, 300))
			vs_fail("C16:http:client-hang",
			    "case %d (%s): nng_http_transact still busy 300 ms after "
			    "the server finished and closed its side",
			    cs, cc->what);
		if (!cc->mut)
			CFAIL(cc->cut1 >= 0 ? "C16:http:segmentation"
			                    : "C16:http:valid-response",
			    "%s response cut at %d,%d: the transaction did not "
			    "complete until the server closed (result %d)",
			    CRN[cc->resp], cc->cut1, cc->cut2,
			    (int) nng_aio_result(aio));
	}
	int res = (int) nng_aio_result(aio);
	if (cc->mut) {
		if (res == 0) {
			void  *b = NULL;
			size_t l = 0;
			nng_http_get_body(conn, &b, &l);
			CFAIL(cc->resp ? "C16:http:bad-chunk-accepted"
			               : "C16:http:bad-status-accepted",
			    "malformed response (%s) \"%s\": nng_http_transact succeeds "
			    "with status %d and a %zu-byte body",
			    cc->what, showb((const uint8_t *) resp,
			                  strlen(resp) < 90 ? strlen(resp) : 90),
			    (int) nng_http_get_status(conn), l);
		}
		C_cls[4]++;
		goto done;
	}
	const char *sgn = cc->cut1 >= 0 ? "C16:http:segmentation"
	                                : "C16:http:valid-response";
	if (res != 0)
		CFAIL(sgn, "%s response cut at %d,%d: transaction fails with %s",
		    CRN[cc->resp], cc->cut1, cc->cut2,
		    nng_strerror((nng_err) res));
	void  *b = NULL;
	size_t l = 0;
	nng_http_get_body(conn, &b, &l);
	size_t el = strlen(CBODY[cc->resp]);
	if ((int) nng_http_get_status(conn) != CSTAT[cc->resp] || l != el ||
	    (el && memcmp(b, CBODY[cc->resp], el) != 0))
		CFAIL(sgn,
		    "%s response cut at %d,%d: status %d, body %zu bytes \"%s\" "
		    "instead of %d and the %zu-byte body",
		    CRN[cc->resp], cc->cut1, cc->cut2,
		    (int) nng_http_get_status(conn), l,
		    showb(b, l < 40 ? l : 40), CSTAT[cc->resp], el);
	{
		size_t sl = (size_t) (strstr(resp, "\r\n") - resp);
		size_t he = (size_t) (strstr(resp, "\r\n\r\n") - resp) + 4;
		C_cls[cc->cut1 < 0 ? 0 : (size_t) cc->cut1 <= sl + 1 ? 1
		        : (size_t) cc->cut1 < he                      ? 2
		                                                      : 3]++;
	}
done:
	g_sfx = "";
	if (conn != NULL && !nng_aio_busy(aio))
		nng_http_close(conn);
	rc_close(&c);
}

static void
run_httpc(void *arg)
{
	(void) arg;
	g_sfx           = "";
	vs_tcp_grace_us = 1500;
	vh_init(0);
	int              port = 0;
	int              lfd  = raw_listen(&port);
	char             url[64];
	nng_url         *u;
	nng_http_client *cli;
	nng_aio         *aio;
	snprintf(url, sizeof(url), "http://127.0.0.1:%d/x", port);
	VH_OK(nng_url_parse(&u, url));
	VH_OK(nng_http_client_alloc(&cli, u));
	VH_OK(nng_aio_alloc(&aio, NULL, NULL));
	int per   = 12;
	int nb    = (NCC + per - 1) / per;
	int batch = vs_choose(VK_ENV, nb);
	for (int k = 0; k < per; k++) {
		int cs = batch * per + k;
		if (cs >= NCC)
			break;
		vs_log("httpc case %d: %s cut %d,%d", cs, CC[cs].what, CC[cs].cut1,
		    CC[cs].cut2);
		c_case(cli, aio, lfd, port, cs, &CC[cs]);
	}
	{
		ccase ctl = { 0, -1, -1, NULL, "control", "" };
		c_case(cli, aio, lfd, port, 9996, &ctl);
	}
	vs_outcome("httpc u%d l%d h%d b%d r%d x%d", C_cls[0], C_cls[1], C_cls[2], C_cls[3],
	    C_cls[4], g_nfail);
	nng_aio_free(aio);
	nng_http_client_free(cli);
	nng_url_free(u);
	close(lfd);
	batch_finish();
	vh_fini();
}

static void
build_httpc_cases(int T)
{
	CC = calloc(6000, sizeof(ccase));
	{
		size_t o = (size_t) snprintf(CBIG, sizeof(CBIG), "HTTP/1.1 200 OK\r\n");
		for (int i = 0; i < 120; i++) {
			o += (size_t) snprintf(CBIG + o, sizeof(CBIG) - o, "X-Header-%03d: ", i);
			for (int k = 0; k < 82; k++)
				CBIG[o++] = (char) ('a' + (i + k) % 26);
			CBIG[o++] = '\r';
			CBIG[o++] = '\n';
		}
		snprintf(CBIG + o, sizeof(CBIG) - o, "Content-Length: 5\r\n\r\nhello");
		CRESP[4] = CBIG;
		static const int BC[] = { -1, 1, 50, 4000, 8159, 8160, 8161, 8200, 12000 };
		for (unsigned i = 0; i < sizeof(BC) / sizeof(BC[0]); i++)
			CC[NCC++] = (ccase){ 4, BC[i], BC[i] > 0 && BC[i] < 8000 ? BC[i] + 4100 : -1, NULL, CRN[4], "" };
	}
	for (int r = 0; r < 4; r++) {
		int n = (int) strlen(CRESP[r]);
		CC[NCC++] = (ccase){ r, -1, -1, NULL, CRN[r], "" };
		for (int c = 1; c < n; c++)
			CC[NCC++] = (ccase){ r, c, -1, NULL, CRN[r], "" };
		if (T && r < 2)
			for (int c = 1; c < n; c += 2)
				for (int e = c + 1; e < n; e += 5)
					if (NCC < 5900)
						CC[NCC++] = (ccase){ r, c, e, NULL,
							r ? "chunked" : "plain", "" };
	}
#define SL(line, w, g)                                                        \
	CC[NCC++] = (ccase){ 0, -1, -1, line "\r\nContent-Length: 5\r\n\r\nhello", \
		w, g }
	SL("HTTP/1.1200OK", "status line without spaces", ":no-spaces");
	SL("HTTP/1.1 200", "status line with one space only", ":one-space");
	SL("HTTP/9.9 200 OK", "bad version", ":bad-version");
	SL(" 200 OK", "empty version", ":bad-version");
	SL("HTTP/1.1 abc OK", "non-numeric status", ":bad-code");
	SL("HTTP/1.1 99 OK", "two-digit status", ":bad-code");
	SL("HTTP/1.1 1000 OK", "four-digit status", ":bad-code");
	SL("HTTP/1.1 2\x01" "0 OK", "control character in the status line", ":control-char");
#undef SL
#define CH(body, w, g)                                                          \
	CC[NCC++] = (ccase){ 1, -1, -1,                                         \
		"HTTP/1.1 200 OK\r\nTransfer-Encoding: chunked\r\n\r\n" body, w, g }
	CH("5\r\nhello\r\ng\r\nabc\r\n0\r\n\r\n", "non-hex chunk size", ":nonhex");
	CH("5x\r\nhello\r\n0\r\n\r\n", "junk after chunk size", ":nonhex");
	CH("\r\nhello\r\n0\r\n\r\n", "empty chunk size", ":empty-size");
	CH("5\r\nhello\r\n\r\n0\r\n\r\n", "empty chunk size line", ":empty-size");
	CH("10000000000000000\r\nhello\r\n0\r\n\r\n", "17-digit chunk size", ":overflow");
	CH("ffffffffffffffff\r\nhello\r\n0\r\n\r\n", "chunk size 2^64-1", ":overflow");
	CH("5\nhello\r\n0\r\n\r\n", "LF only after the size", ":crlf");
	CH("5\rhello\r\n0\r\n\r\n", "CR only after the size", ":crlf");
	CH("5\r\nhelloXX0\r\n\r\n", "wrong data terminator", ":terminator");
	CH("5\r\nhello\r\r0\r\n\r\n", "CR CR data terminator", ":terminator");
	CH("4\r\nhello\r\n0\r\n\r\n", "data longer than its size", ":terminator");
	CH("5;\x01\r\nhello\r\n0\r\n\r\n", "control character in the extension", ":control-char");
	CH(" 5\r\nhello\r\n0\r\n\r\n", "space before the size", ":nonhex");
	CH("-5\r\nhello\r\n0\r\n\r\n", "negative size", ":nonhex");
	CH("0x5\r\nhello\r\n0\r\n\r\n", "0x prefix", ":nonhex");
#undef CH
}

// =====================================================================================
// case tables
// =====================================================================================
static fdesc BASE[40];
static int   NBASE, NBASE_SMALL;

static void
build_base(int T)
{
	static const uint32_t DL[] = { 0, 1, 125, 126 };
	static const uint32_t CL[] = { 0, 1, 125 };
	NBASE = 0;
	for (int op = OP_BIN; op >= 0; op -= 2)
		for (int fin = 1; fin >= 0; fin--)
			for (int l = 0; l < 4; l++)
				BASE[NBASE++] = FD(op, fin, DL[l]);
	for (int l = 0; l < 3; l++)
		BASE[NBASE++] = FD(OP_PING, 1, CL[l]);
	for (int l = 0; l < 3; l++)
		BASE[NBASE++] = FD(OP_PONG, 1, CL[l]);
	BASE[NBASE++] = FD(OP_CLOSE, 1, 0);
	BASE[NBASE++] = FD(OP_CLOSE, 1, 2);
	BASE[NBASE++] = FD(OP_CLOSE, 1, 125);
	NBASE_SMALL   = NBASE; // 25 shapes
	if (T) {
		for (int op = OP_BIN; op >= 0; op -= 2)
			for (int fin = 1; fin >= 0; fin--)
				BASE[NBASE++] = FD(op, fin, 65536);
	}
}

static fdesc
with(fdesc f, int rsv, int masked, int lenform)
{
	f.rsv     = (uint8_t) rsv;
	f.masked  = (uint8_t) masked;
	f.lenform = (uint8_t) lenform;
	return f;
}

static fdesc VIOL[160];
static int   NVIOL;

static void
build_viol(int T)
{
	NVIOL = 0;
	int M = g_mask_default;
	for (int i = 0; i < NBASE_SMALL; i++) // wrong masking on every shape
		VIOL[NVIOL++] = with(BASE[i], 0, !M, 0);
	fdesc rs[] = { FD(OP_BIN, 1, 1), FD(OP_BIN, 0, 1), FD(OP_CONT, 1, 1),
		FD(OP_PING, 1, 1), FD(OP_PONG, 1, 0), FD(OP_CLOSE, 1, 0),
		FD(OP_BIN, 1, 126) };
	for (int r = 1; r <= 4; r <<= 1)
		for (int i = 0; i < 7; i++)
			VIOL[NVIOL++] = with(rs[i], r, M, 0);
	static const int ROP[] = { 3, 0xB, 7, 0xF };
	for (int k = 0; k < (T ? 4 : 2); k++)
		for (int fin = 1; fin >= 0; fin--)
			for (uint32_t l = 0; l < 2; l++)
				VIOL[NVIOL++] = FD(ROP[k], fin, l);
	fdesc n16[] = { FD(OP_BIN, 1, 0), FD(OP_BIN, 1, 1), FD(OP_BIN, 1, 125),
		FD(OP_BIN, 0, 1), FD(OP_CONT, 1, 1), FD(OP_PING, 1, 1),
		FD(OP_PONG, 1, 0), FD(OP_CLOSE, 1, 2) };
	for (int i = 0; i < 8; i++)
		VIOL[NVIOL++] = with(n16[i], 0, M, 1);
	fdesc n64[] = { FD(OP_BIN, 1, 0), FD(OP_BIN, 1, 125), FD(OP_BIN, 1, 126),
		FD(OP_CONT, 1, 1), FD(OP_PING, 1, 1), FD(OP_BIN, 1, 65535) };
	for (int i = 0; i < (T ? 6 : 5); i++)
		VIOL[NVIOL++] = with(n64[i], 0, M, 2);
	// control frames above 125 bytes
	VIOL[NVIOL++] = FD(OP_PING, 1, 126);
	VIOL[NVIOL++] = FD(OP_PONG, 1, 126);
	VIOL[NVIOL++] = FD(OP_CLOSE, 1, 126);
	VIOL[NVIOL++] = FD(OP_PING, 1, 300);
	// fragmented control frames (treatment not fixed by the statement)
	VIOL[NVIOL++] = FD(OP_PING, 0, 0);
	VIOL[NVIOL++] = FD(OP_PING, 0, 1);
	VIOL[NVIOL++] = FD(OP_PONG, 0, 1);
	VIOL[NVIOL++] = FD(OP_CLOSE, 0, 0);
}

static void
build_seq_cases(ctab *t, int T)
{
	fdesc s[MAXF];
	// every sequence of <= 2 (quick) base shapes; thorough: <= 3 of the 25
	// small shapes and <= 2 including the 65536-byte shapes
	for (int a = 0; a < NBASE; a++) {
		s[0] = BASE[a];
		ct_seq(t, 1, s);
		for (int b = 0; b < NBASE; b++) {
			s[1] = BASE[b];
			ct_seq(t, 2, s);
			if (!T || a >= NBASE_SMALL || b >= NBASE_SMALL)
				continue;
			for (int c = 0; c < NBASE_SMALL; c++) {
				s[2] = BASE[c];
				ct_seq(t, 3, s);
			}
		}
	}
	if (T) {
		// exactly one 65536-byte data frame among three
		for (int big = NBASE_SMALL; big < NBASE; big++)
			for (int pos = 0; pos < 3; pos++)
				for (int a = 0; a < NBASE_SMALL; a++)
					for (int b = 0; b < NBASE_SMALL; b++) {
						int k = 0;
						for (int q = 0; q < 3; q++)
							s[q] = q == pos ? BASE[big]
							                : BASE[k++ == 0 ? a : b];
						ct_seq(t, 3, s);
					}
	}
	// one frame-level violation in context
	fdesc ctx[4] = { FD(OP_BIN, 1, 1), FD(OP_BIN, 0, 1), FD(OP_CONT, 1, 1),
		FD(OP_PING, 1, 1) };
	for (int v = 0; v < NVIOL; v++) {
		s[0] = VIOL[v];
		ct_seq(t, 1, s);
		for (int a = 0; a < (T ? 4 : 2); a++) {
			s[0] = VIOL[v];
			s[1] = ctx[a];
			ct_seq(t, 2, s);
			s[0] = ctx[a];
			s[1] = VIOL[v];
			ct_seq(t, 2, s);
			if (!T)
				continue;
			for (int b = 0; b < 4; b++) {
				s[0] = VIOL[v];
				s[1] = ctx[a];
				s[2] = ctx[b];
				ct_seq(t, 3, s);
				s[0] = ctx[a];
				s[1] = VIOL[v];
				s[2] = ctx[b];
				ct_seq(t, 3, s);
				s[0] = ctx[a];
				s[1] = ctx[b];
				s[2] = VIOL[v];
				ct_seq(t, 3, s);
			}
		}
	}
	// a 3-part message with a ping and/or a pong at every position
	static const uint32_t PL[3] = { 1, 125, 126 };
	for (int pi = -1; pi <= 3; pi++)
		for (int po = -1; po <= 3; po++) {
			if (pi < 0 && po < 0)
				continue;
			int n = 0;
			for (int k = 0; k <= 3; k++) {
				if (pi == k)
					s[n++] = FD(OP_PING, 1, (uint32_t) (3 + k));
				if (po == k)
					s[n++] = FD(OP_PONG, 1, (uint32_t) k);
				if (k < 3)
					s[n++] = FD(k == 0 ? OP_BIN : OP_CONT, k == 2, PL[k]);
			}
			ct_seq(t, n, s);
		}
}

// frame > ws:rxframe-max (100)
static void
build_maxframe_cases(ctab *t)
{
	static const uint32_t L[] = { 99, 100, 101, 125, 126, 200 };
	fdesc                 s[MAXF];
	for (int i = 0; i < 6; i++) {
		s[0] = FD(OP_BIN, 1, L[i]);
		ct_seq(t, 1, s);
		s[1] = FD(OP_BIN, 1, 1);
		ct_seq(t, 2, s);
		s[0] = FD(OP_BIN, 1, 1);
		s[1] = FD(OP_BIN, 1, L[i]);
		s[2] = FD(OP_BIN, 1, 2);
		ct_seq(t, 3, s);
		s[0] = FD(OP_BIN, 0, 1);
		s[1] = FD(OP_CONT, 1, L[i]);
		s[2] = FD(OP_BIN, 1, 2);
		ct_seq(t, 3, s);
		s[0] = FD(OP_BIN, 0, L[i]);
		s[1] = FD(OP_CONT, 1, 1);
		ct_seq(t, 2, s);
		if (L[i] <= 125) {
			s[0] = FD(OP_PING, 1, L[i]);
			s[1] = FD(OP_BIN, 1, 1);
			ct_seq(t, 2, s);
		}
	}
	// many frames at the limit form a big message (recv-size-max default)
	s[0] = FD(OP_BIN, 0, 100);
	s[1] = FD(OP_CONT, 0, 100);
	s[2] = FD(OP_CONT, 0, 100);
	s[3] = FD(OP_CONT, 1, 100);
	ct_seq(t, 4, s);
}

// message > recv-size-max (200)
static void
build_recvmax_cases(ctab *t)
{
	fdesc s[MAXF];
	static const uint32_t P[][4] = { { 200, 0, 0, 0 }, { 201, 0, 0, 0 },
		{ 100, 100, 0, 0 }, { 100, 101, 0, 0 }, { 126, 74, 0, 0 },
		{ 126, 74, 1, 0 }, { 67, 67, 67, 0 }, { 66, 67, 67, 0 },
		{ 199, 1, 0, 0 }, { 199, 2, 0, 0 }, { 0, 200, 1, 0 },
		{ 125, 75, 0, 1 }, { 65536, 0, 0, 0 } };
	static const int NP[] = { 1, 1, 2, 2, 3, 3, 3, 3, 2, 2, 3, 4, 1 };
	for (int i = 0; i < 13; i++) {
		int n = NP[i];
		for (int k = 0; k < n; k++)
			s[k] = FD(k == 0 ? OP_BIN : OP_CONT, k == n - 1, P[i][k]);
		ct_seq(t, n, s);
		s[n] = FD(OP_BIN, 1, 3); // a following message
		ct_seq(t, n + 1, s);
	}
	// two messages, each exactly at the limit
	s[0] = FD(OP_BIN, 1, 200);
	s[1] = FD(OP_BIN, 1, 200);
	ct_seq(t, 2, s);
	s[0] = FD(OP_BIN, 0, 100);
	s[1] = FD(OP_CONT, 1, 100);
	s[2] = FD(OP_BIN, 0, 100);
	s[3] = FD(OP_CONT, 1, 100);
	ct_seq(t, 4, s);
}

// control frames between the fragments of a message that is within
// recv-size-max (200): the control payload is not part of the message
static void
build_ctl_in_limit_cases(ctab *t)
{
	fdesc s[MAXF];
	s[0] = FD(OP_BIN, 0, 150);
	s[1] = FD(OP_PING, 1, 100);
	s[2] = FD(OP_CONT, 1, 50);
	ct_seq(t, 3, s);
	s[0] = FD(OP_BIN, 0, 100);
	s[1] = FD(OP_PONG, 1, 125);
	s[2] = FD(OP_CONT, 1, 100);
	ct_seq(t, 3, s);
	s[0] = FD(OP_BIN, 0, 199);
	s[1] = FD(OP_PING, 1, 2);
	s[2] = FD(OP_CONT, 1, 1);
	ct_seq(t, 3, s);
	s[0] = FD(OP_BIN, 0, 100);
	s[1] = FD(OP_PING, 1, 100);
	s[2] = FD(OP_CONT, 1, 10);
	ct_seq(t, 3, s);
}

static void
build_cut_cases(ctab *t, int T)
{
	fdesc  q[12][MAXF];
	int    qn[12], nq = 0;
#define Q1(a)           \
	do {            \
		q[nq][0] = a; \
		qn[nq++] = 1; \
	} while (0)
	Q1(FD(OP_BIN, 1, 1));
	Q1(FD(OP_BIN, 1, 0));
	Q1(FD(OP_BIN, 1, 125));
	Q1(FD(OP_BIN, 1, 126));
	q[nq][0] = FD(OP_BIN, 0, 1);
	q[nq][1] = FD(OP_CONT, 0, 125);
	q[nq][2] = FD(OP_CONT, 1, 126);
	qn[nq++] = 3;
	q[nq][0] = FD(OP_BIN, 0, 2);
	q[nq][1] = FD(OP_PING, 1, 5);
	q[nq][2] = FD(OP_CONT, 1, 3);
	qn[nq++] = 3;
	q[nq][0] = FD(OP_PING, 1, 125);
	q[nq][1] = FD(OP_BIN, 1, 4);
	qn[nq++] = 2;
	q[nq][0] = FD(OP_BIN, 1, 3);
	q[nq][1] = FD(OP_BIN, 1, 4);
	qn[nq++] = 2;
	if (T)
		Q1(FD(OP_BIN, 1, 65536));
#undef Q1
	for (int i = 0; i < nq; i++) {
		wcase w;
		memset(&w, 0, sizeof(w));
		w.kind = WK_SEQ;
		w.nf   = (uint8_t) qn[i];
		size_t tot = 0;
		for (int k = 0; k < qn[i]; k++) {
			w.f[k] = q[i][k];
			tot += hdr_len(&q[i][k]) + q[i][k].len;
		}
		size_t h1 = hdr_len(&w.f[0]);
		size_t lim = T ? tot - 1 : h1 + 1;
		if (lim > tot - 1)
			lim = tot - 1;
		w.cut2 = -1;
		for (size_t c = 1; c <= lim; c++) {
			if (T && tot > 1000 && c > h1 + 8 && c + 8 < tot)
				continue; // 65536-byte payload: header, both edges
			w.cut1 = (int32_t) c;
			ct_add(t, &w);
		}
		// two cuts: every pair inside header+1 of the first frame (short
		// sequences: every pair of offsets of the whole sequence)
		if (T) {
			size_t l2 = h1 + 1 < tot - 1 ? h1 + 1 : tot - 1;
			if (tot <= 40)
				l2 = tot - 1;
			for (size_t c = 1; c <= l2; c++)
				for (size_t e = c + 1; e <= l2; e++) {
					w.cut1 = (int32_t) c;
					w.cut2 = (int32_t) e;
					ct_add(t, &w);
				}
			w.cut2 = -1;
		}
	}
}

static void
build_send_cases(ctab *t, int T, size_t fragsize)
{
	static const uint32_t SZ[] = { 0, 1, 125, 126, 300, 65535, 65536, 65537 };
	for (int i = 0; i < (T ? 8 : 5); i++) {
		if (SZ[i] > 1000 && fragsize != DEF && fragsize != 0 && fragsize < 125)
			continue;
		for (int p = 0; p < 2; p++) {
			wcase w;
			memset(&w, 0, sizeof(w));
			w.kind     = WK_SEND;
			w.sendsz   = SZ[i];
			w.sendping = (uint8_t) p;
			w.cut1 = w.cut2 = -1;
			ct_add(t, &w);
		}
	}
}

static void
build_dialer_cases(ctab *t, int T)
{
	fdesc s[MAXF];
	wcase w;
	// g_mask_default == 0 here: server -> client frames are unmasked
	s[0] = FD(OP_BIN, 1, 1);
	ct_seq(t, 1, s);
	s[0] = FD(OP_BIN, 0, 1);
	s[1] = FD(OP_PING, 1, 5);
	s[2] = FD(OP_CONT, 0, 125);
	s[3] = FD(OP_PONG, 1, 0);
	s[4] = FD(OP_CONT, 1, 126);
	ct_seq(t, 5, s);
	s[0] = FD(OP_BIN, 1, 126);
	s[1] = FD(OP_BIN, 1, 0);
	ct_seq(t, 2, s);
	// rule violations, each alone, after a message, and before one
	fdesc v[] = { with(FD(OP_BIN, 1, 4), 0, 1, 0), // MASKED server frame
		with(FD(OP_PING, 1, 4), 0, 1, 0), with(FD(OP_BIN, 1, 4), 4, 0, 0),
		with(FD(OP_BIN, 1, 4), 1, 0, 0), FD(3, 1, 4), FD(0xB, 1, 0),
		with(FD(OP_BIN, 1, 4), 0, 0, 1), with(FD(OP_BIN, 1, 126), 0, 0, 2),
		FD(OP_PING, 1, 126), FD(OP_CONT, 1, 4) };
	int nv = (int) (sizeof(v) / sizeof(v[0]));
	for (int i = 0; i < nv; i++) {
		s[0] = v[i];
		s[1] = FD(OP_BIN, 1, 3);
		ct_seq(t, 2, s);
		if (!T && i >= 2)
			continue;
		s[0] = FD(OP_BIN, 1, 3);
		s[1] = v[i];
		s[2] = FD(OP_BIN, 1, 2);
		ct_seq(t, 3, s);
	}
	s[0] = FD(OP_BIN, 0, 4);
	s[1] = FD(OP_BIN, 1, 4); // new message inside a message
	ct_seq(t, 2, s);
	// what the dialer emits
	static const uint32_t SZ[] = { 0, 1, 125, 126, 300, 65536 };
	for (int i = 0; i < (T ? 6 : 5); i++) {
		memset(&w, 0, sizeof(w));
		w.kind   = WK_SEND;
		w.sendsz = SZ[i];
		w.cut1 = w.cut2 = -1;
		ct_add(t, &w);
	}
}

// thorough: the reference acceptor in client role over every sequence of
// <= 2 base shapes and every single-frame violation alone / after a message
static void
build_dialer_seq_cases(ctab *t)
{
	fdesc s[MAXF];
	for (int a = 0; a < NBASE_SMALL; a++) {
		s[0] = BASE[a];
		ct_seq(t, 1, s);
		for (int b = 0; b < NBASE_SMALL; b++) {
			s[1] = BASE[b];
			ct_seq(t, 2, s);
		}
	}
	for (int v = 0; v < NVIOL; v++) {
		s[0] = VIOL[v];
		s[1] = FD(OP_BIN, 1, 2);
		ct_seq(t, 2, s);
		s[0] = FD(OP_BIN, 1, 2);
		s[1] = VIOL[v];
		ct_seq(t, 2, s);
		s[0] = FD(OP_BIN, 0, 2);
		ct_seq(t, 2, s);
	}
}

static void
build_resp_cases(ctab *t, int T)
{
	wcase w;
	memset(&w, 0, sizeof(w));
	w.nf   = 1;
	w.f[0] = FD(OP_BIN, 1, 5);
	w.cut1 = w.cut2 = -1;
	// the 101 response is 161 bytes long
	w.kind = WK_RESPCUT;
	for (int c = 1; c < 161; c += (T ? 1 : 3)) {
		w.aux = (int16_t) c;
		ct_add(t, &w);
	}
	// response and frames glued into one segment: a ping + 2-fragment message
	w.aux  = -2;
	ct_add(t, &w);
	w.nf   = 3;
	w.f[0] = FD(OP_PING, 1, 4);
	w.f[1] = FD(OP_BIN, 0, 126);
	w.f[2] = FD(OP_CONT, 1, 1);
	ct_add(t, &w);
	w.nf   = 1;
	w.f[0] = FD(OP_BIN, 1, 5);
	w.kind = WK_RESPMUT;
	for (int m = 0; m < NRESP_MUT; m++) {
		w.aux = (int16_t) m;
		ct_add(t, &w);
	}
}

static void
build_http_cases(int T)
{
	HC = calloc(12000, sizeof(hcase));
	HP = calloc(200, sizeof(hcase));
	{
		int n = (int) strlen(HREQ[2]);
		HP[NHP++] = (hcase){ 2, -1, -1, NULL, "uncut", ":pipelined" };
		for (int c = 1; c < n; c++)
			HP[NHP++] = (hcase){ 2, c, -1, NULL, "1cut", ":pipelined" };
	}
	for (int r = 0; r < 2; r++) {
		int n = (int) strlen(HREQ[r]);
		HC[NHC++] = (hcase){ r, -1, -1, NULL, "uncut", "" };
		for (int c = 1; c < n; c++)
			HC[NHC++] = (hcase){ r, c, -1, NULL, "1cut", "" };
		if (T)
			for (int c = 1; c < n; c += 1)
				for (int e = c + 1; e < n; e += 3)
					if (NHC < 11990)
						HC[NHC++] = (hcase){ r, c, e, NULL, "2cut", "" };
	}
	HPER = 16;
	static const struct {
		const char *l, *w, *g;
	} M[] = { { "GET/c16HTTP/1.1", "no spaces", ":no-spaces" },
		{ "GET /c16HTTP/1.1", "one space only", ":one-space" },
		{ "GET/c16 HTTP/1.1", "one space only (method glued)", ":one-space" },
		{ "GET /c16 HTTP/9.9", "bad version", ":bad-version" },
		{ "GET /c16 http/1.1", "lower-case version", ":bad-version" },
		{ "GET /c16 HTTP/1.1 x", "junk after the version", ":bad-version" },
		{ "GET /c16 ", "empty version", ":bad-version" },
		{ " /c16 HTTP/1.1", "empty method", ":empty-method" },
		{ "GET  HTTP/1.1", "empty request target", ":empty-target" },
		{ "GET /c16/a\x01" "b HTTP/1.1", "control character in the URI", ":control-char" },
		{ "GET /c16/a%zzb HTTP/1.1", "bad percent escape", ":bad-escape" },
		{ "GET /c16/a%4 HTTP/1.1", "truncated percent escape", ":bad-escape" },
		{ "GET /c16/%C0%AF HTTP/1.1", "overlong UTF-8 %C0%AF", ":bad-utf8" },
		{ "GET /c16/%E0%80%AF HTTP/1.1", "overlong UTF-8 %E0%80%AF", ":bad-utf8" },
		{ "GET /c16/\xc0\xaf HTTP/1.1", "raw overlong UTF-8", ":bad-utf8" },
		{ "GET /c16/%ED%A0%80 HTTP/1.1", "UTF-8 surrogate", ":bad-utf8" } };
	NHM = (int) (sizeof(M) / sizeof(M[0]));
	HM  = calloc((size_t) NHM, sizeof(hcase));
	for (int i = 0; i < NHM; i++)
		HM[i] = (hcase){ 0, -1, -1, M[i].l, M[i].w, M[i].g };
}

// =====================================================================================
static void
explore(const char *name, void (*fn)(void *), void *arg, int need_s)
{
	if (vx_time_left() < need_s)
		return;
	vx_cfg c;
	memset(&c, 0, sizeof(c));
	c.prop     = "C16";
	c.scenario = name;
	c.run      = fn;
	c.arg      = arg;
	for (int i = 0; i < VB_NB; i++)
		c.budget[i] = 0;
	c.budget[VB_ENV] = -1;
	c.total          = 0;
	c.watchdog_s     = 60;
	vx_explore(&c, NULL);
}

int
main(int argc, char **argv)
{
	vx_init(argc, argv, "C16");
	int T = vx_is_thorough();
	{ // reference self-test: RFC 6455 1.3 example and RFC 3174 vectors
		char    acc[40];
		uint8_t dg[20];
		ref_ws_accept("dGhlIHNhbXBsZSBub25jZQ==", acc);
		ref_sha1((const uint8_t *) "abc", 3, dg);
		if (strcmp(acc, "s3pPLMBiTxaQ9kYGzzhZRbK+xOo=") != 0 || dg[0] != 0xa9 ||
		    dg[19] != 0x9d) {
			fprintf(stderr, "reference SHA-1/base64 self-test failed: %s\n", acc);
			return 2;
		}
	}
	// ---- (a) ----
	int replaying = 0;
	for (int i = 1; i < argc; i++)
		if (strcmp(argv[i], "--replay") == 0)
			replaying = 1;
	build_chunk_corpus(T);
	vx_note("chunk-corpus",
	    "%zu streams: valid bodies (1-3 chunks, sizes {1,2,15,16,17,255}, hex "
	    "case, leading zero, chunk-ext, 0-2 trailers, max 4096 / exact fit) + "
	    "every single mutation; every 0/1/2-cut segmentation (streams rejected "
	    "at offset c: cuts up to c+3)",
	    NCS);
	vx_note("chunk-mutations",
	    "drop each CR; drop each LF; non-hex first/last digit; space before "
	    "size; 17-digit size; ffffffffffffffff; FFFFFFFFFFFFFFFE; size>max; "
	    "max=total-1; max<first; empty size; wrong CR/LF of each data "
	    "terminator; data one byte long/short; 0x01, 0x7f in ext/trailer; "
	    "truncation by 1, 2");

	// ---- (b1) listener role ----
	static lcfg LC[16];
	int         nl = 0;
	g_mask_default = 1;
	build_base(T);
	build_viol(T);
	lcfg *c;
	c = &LC[nl++];
	*c = (lcfg){ "wsl-seq", DEF, DEF, DEF, { 0 }, 16, NULL };
	build_seq_cases(&c->t, T);
	c = &LC[nl++];
	*c = (lcfg){ "wsl-maxframe100", 100, DEF, DEF, { 0 }, 16, NULL };
	build_maxframe_cases(&c->t);
	c = &LC[nl++];
	*c = (lcfg){ "wsl-recvmax200", DEF, 200, DEF, { 0 }, 16, NULL };
	build_recvmax_cases(&c->t);
	c = &LC[nl++];
	*c = (lcfg){ "wsl-both-limits", 100, 200, DEF, { 0 }, 16, NULL };
	build_maxframe_cases(&c->t);
	c = &LC[nl++];
	*c = (lcfg){ "wsl-ctl-in-limit", DEF, 200, DEF, { 0 }, 1, ":control-in-limit" };
	build_ctl_in_limit_cases(&c->t);
	c = &LC[nl++];
	*c = (lcfg){ "wsl-cut", DEF, DEF, DEF, { 0 }, 16, NULL };
	build_cut_cases(&c->t, T);
	static const size_t FR[] = { 1, 125, 126, DEF, 0, 65535 };
	static const char  *FN[] = { "wsl-send-frag1", "wsl-send-frag125",
		 "wsl-send-frag126", "wsl-send-default", "wsl-send-unlimited",
		 "wsl-send-frag65535" };
	for (int i = 0; i < (T ? 6 : 4); i++) {
		c  = &LC[nl++];
		*c = (lcfg){ FN[i], DEF, DEF, FR[i], { 0 }, 4, NULL };
		build_send_cases(&c->t, T, FR[i]);
	}
	long ncl = 0;
	for (int i = 0; i < nl; i++) {
		explore(LC[i].name, run_wsl, &LC[i], 20);
		ncl += LC[i].t.n;
	}
	// ---- (b2) dialer role ----
	static dcfg DC[6];
	int         nd = 0;
	g_mask_default = 0;
	DC[nd]         = (dcfg){ "wsd-default", DEF, { 0 }, 6 };
	build_dialer_cases(&DC[nd++].t, T);
	DC[nd] = (dcfg){ "wsd-frag126", 126, { 0 }, 6 };
	build_dialer_cases(&DC[nd++].t, T);
	if (T) {
		DC[nd] = (dcfg){ "wsd-frag1", 1, { 0 }, 6 };
		build_dialer_cases(&DC[nd++].t, 0);
	}
	if (T) {
		build_base(0);
		build_viol(T);
		DC[nd] = (dcfg){ "wsd-seq", DEF, { 0 }, 12 };
		build_dialer_seq_cases(&DC[nd++].t);
	}
	DC[nd] = (dcfg){ "wsd-response", DEF, { 0 }, 8 };
	build_resp_cases(&DC[nd++].t, T);
	long ncd = 0;
	for (int i = 0; i < nd; i++) {
		explore(DC[i].name, run_wsd, &DC[i], 20);
		ncd += DC[i].t.n;
	}
	// ---- (c) ----
	build_http_cases(T);
	explore("http-segmentation", run_http, (void *) 0, 20);
	explore("http-request-line", run_http, (void *) 1, 15);
	explore("http-pipelined", run_http, (void *) 2, 15);
	explore("http-large-head", run_httpbig, NULL, 15);
	explore("ws-stream-msgmode-limits", run_wsmsg, NULL, 15);
	explore(T ? "http-persistent-d3" : "http-persistent-d2", run_httpseq, (void *) (intptr_t) (T ? 3 : 2), 15);
	// ---- (d) ----
	build_httpc_cases(T);
	explore("httpc-transact", run_httpc, NULL, 20);
	// ---- (a) runs last: it takes whatever time is left (time-cut = not exhaustive)
	if (!replaying)
		ve_run("chunk-streams", NULL, NCS, chunk_test, chunk_desc, 16);
	vx_note("ws-listener-role",
	    "%ld cases: every sequence of <=%d frames over %d well-formed shapes "
	    "(bin/cont x FIN x len {0,1,125,126}; ping/pong {0,1,125}; close "
	    "{0,2,125})%s; %d single-frame violations alone/before/after %d "
	    "context frames%s; 3-part message with ping/pong at every position",
	    ncl, T ? 3 : 2, NBASE_SMALL,
	    T ? ", 65536-byte data shapes in <=2 and as one of 3 frames" : "", NVIOL,
	    T ? 4 : 2, T ? " in 1-3 frame sequences" : "");
	vx_note("ws-violations",
	    "wrong masking on every shape; RSV1/2/3 x 7 shapes; reserved opcodes "
	    "3,B%s; 16-bit and 64-bit length form for shorter payloads; control "
	    "frames of 126/300 bytes; fragmented control (either outcome accepted); "
	    "continuation without start and data frame inside a message arise "
	    "from the sequence enumeration",
	    T ? ",7,F" : "");
	vx_note("ws-limits-cuts-send",
	    "rxframe-max 100 x len {99,100,101,125,126,200}; recv-size-max 200 x 13 "
	    "fragmentations around the limit; 1 cut at every offset of the first "
	    "header%s; txframe-max {1,125,126,default%s} x sizes {0,1,125,126,300%s} "
	    "with/without a racing ping",
	    T ? " (thorough: every offset of the sequence, every 2 cuts of the first "
	        "header / of short sequences)"
	      : "",
	    T ? ",unlimited,65535" : "", T ? ",65535,65536,65537" : "");
	vx_note("ws-dialer-role",
	    "%ld cases: strict check of the emitted upgrade request; 3 well-formed "
	    "and 10 violating server->client sequences%s; emitted sizes "
	    "{0,1,125,126,300} x txframe-max {default,126%s}; 101 response cut at "
	    "every %soffset; %d malformed status lines",
	    ncd, T ? " + every sequence of <=2 base shapes and every violation in "
	             "client role"
	           : "",
	    T ? ",1" : "", T ? "" : "third ", NRESP_MUT);
	vx_note("http-server",
	    "GET and POST(5-byte body) with 1 cut at every offset%s (%d cases); "
	    "POST+GET pipelined on one connection with 1 cut at every offset (%d "
	    "cases); %d request-line mutations against an any-method tree handler, "
	    "one per execution",
	    T ? " and 2 cuts (first every offset, second every third)" : "", NHC, NHP,
	    NHM);
	vx_note("http-client",
	    "nng_http_transact against a raw server: Content-Length and chunked "
	    "responses with 1 cut at every offset%s, 8 malformed status lines, 15 "
	    "malformed chunk streams (%d cases); emitted request checked strictly",
	    T ? " and 2 cuts (every 2nd x every 5th offset)" : "", NCC);
	return vx_finish();
}
