// orderrace.h - shared scheduled scenario "a burst from one peer keeps its order".
// One sender thread issues three non-blocking sends back to back while the completion callbacks
// of the previous transfers (task threads) and, optionally, a receiver thread run; a fourth send
// follows after the window.  Every schedule within the budgets is executed.  Oracle: the receiver
// sees tags in strictly increasing order, each at most once, only tags whose send was accepted,
// and - no queue can be full with four small messages - all of them.  A variant adds a thread that
// grows and shrinks NNG_OPT_SENDBUF meanwhile (a shrink to 3 still holds what can be queued).
#ifndef ORDERRACE_H
#define ORDERRACE_H
#include "vpeer.h"
#include "vs.h"
#include <pthread.h>
#include <string.h>

typedef struct orc_arg {
	const char *prop; // "C09"
	const char *name; // "bus"
	int (*open_tx)(nng_socket *);
	int (*open_rx)(nng_socket *);
	int sub; // rx needs an empty subscription
} orc_arg;
static int orc_plain; // no warm-up, no receiver thread (one configuration instead of six)
static int orc_resize; // plain configuration plus a thread that grows the send buffer meanwhile

static nng_socket orc_tx, orc_rx;
static int        orc_acc[8], orc_got[8], orc_seq[16], orc_nseq;
static const orc_arg *ORC;
static char           orc_cfg[48];

static void
orc_take(nng_msg *m)
{
	char *b = nng_msg_body(m);
	if (nng_msg_len(m) == 3 && b[0] == 'w') {
		nng_msg_free(m);
		return;
	}
	if (nng_msg_len(m) != 3 || b[0] != 's' || b[1] < '0' || b[1] > '3')
		vs_fail("orc:content", "%s: received %zu bytes '%.3s'", ORC->name, nng_msg_len(m), b);
	int k = b[1] - '0';
	nng_msg_free(m);
	char c1[48], c3[48];
	snprintf(c1, sizeof(c1), "%s:order:duplicate", ORC->prop);
	snprintf(c3, sizeof(c3), "%s:order:reordered", ORC->prop);
	if (orc_got[k]++)
		vs_fail(c1, "%s: message s%d delivered twice", ORC->name, k);
	if (orc_nseq > 0 && orc_seq[orc_nseq - 1] > k)
		vs_fail(c3, "%s [%s]: one sender sent s0 s1 s2 s3 in this order; s%d was delivered after s%d",
		    ORC->name, orc_cfg, k, orc_seq[orc_nseq - 1]);
	orc_seq[orc_nseq++] = k;
}
static void
orc_send(int k)
{
	nng_msg *m;
	char     t[4] = { 's', (char) ('0' + k), 0, 0 };
	if (nng_msg_alloc(&m, 0) != 0 || nng_msg_append(m, t, 3) != 0)
		vs_fail("harness:orc", "msg alloc");
	int rv = nng_sendmsg(orc_tx, m, NNG_FLAG_NONBLOCK);
	if (rv != 0) {
		vs_log("send s%d -> %d (%s)", k, rv, nng_strerror(rv));
		nng_msg_free(m);
	}
	orc_acc[k] = (rv == 0);
}
static void *
orc_sender(void *a)
{
	(void) a;
	for (int k = 0; k < 3; k++)
		orc_send(k);
	return NULL;
}
static void *
orc_resizer(void *a)
{
	(void) a;
	nng_socket_set_int(orc_tx, NNG_OPT_SENDBUF, 16); // (8 -> 16; ENOTSUP where there is none)
	nng_socket_set_int(orc_rx, NNG_OPT_RECVBUF, 16); // growing never entitles to drop anything
	nng_socket_set_int(orc_tx, NNG_OPT_SENDBUF, 3);  // shrink: still room for what is queued
	return NULL;
}
static void *
orc_receiver(void *a)
{
	(void) a;
	for (int i = 0; i < 3; i++) {
		nng_msg *m;
		if (nng_recvmsg(orc_rx, &m, 0) != 0)
			break;
		orc_take(m);
	}
	return NULL;
}

static void
orc_run(void *arg)
{
	ORC = arg;
	vh_init(0);
	memset(orc_acc, 0, sizeof(orc_acc));
	memset(orc_got, 0, sizeof(orc_got));
	orc_nseq = 0;
	VH_OK(ORC->open_tx(&orc_tx));
	VH_OK(ORC->open_rx(&orc_rx));
	if (ORC->sub)
		VH_OK(nng_sub0_socket_subscribe(orc_rx, "", 0));
	VH_OK(nng_socket_set_int(orc_rx, NNG_OPT_RECVBUF, 8));
	nng_socket_set_int(orc_tx, NNG_OPT_SENDBUF, 8); // (not every protocol has one)
	VH_OK(nng_socket_set_ms(orc_rx, NNG_OPT_RECVTIMEO, 20));
	VH_OK(nng_listen(orc_rx, "inproc://orc", NULL, 0));
	VH_OK(nng_dial(orc_tx, "inproc://orc", NULL, 0));
	vs_settle();
	// a completed transfer first (pipe has been busy once) / a receiver thread runs concurrently
	int warm   = orc_plain ? 0 : vs_choose(VK_ENV, 2);
	int reader = orc_plain ? 0 : vs_choose(VK_ENV, 2);
	snprintf(orc_cfg, sizeof(orc_cfg), "warm=%d reader=%d", warm, reader);
	if (warm) {
		nng_msg *m;
		if (nng_msg_alloc(&m, 0) != 0 || nng_msg_append(m, "w--", 3) != 0)
			vs_fail("harness:orc", "msg alloc");
		if (nng_sendmsg(orc_tx, m, NNG_FLAG_NONBLOCK) != 0)
			nng_msg_free(m);
		if (vs_choose(VK_ENV, 2)) { // ... and already consumed, or still in flight
			vs_settle();
			if (nng_recvmsg(orc_rx, &m, NNG_FLAG_NONBLOCK) == 0)
				orc_take(m);
		}
	}
	pthread_t ts, tr, tz;
	vs_alloc_points = orc_resize; // the resize rebuilds the queue: let others in at its allocator calls
	vs_window(1);
	pthread_create(&ts, NULL, orc_sender, NULL);
	if (reader)
		pthread_create(&tr, NULL, orc_receiver, NULL);
	if (orc_resize)
		pthread_create(&tz, NULL, orc_resizer, NULL);
	pthread_join(ts, NULL);
	if (reader)
		pthread_join(tr, NULL);
	if (orc_resize)
		pthread_join(tz, NULL);
	vs_window(0);
	vs_alloc_points = 0;
	vs_settle();
	orc_send(3);
	// drain until two consecutive rounds bring nothing (each receive may release the next
	// message of a back-pressured pipeline only after the library has run)
	for (int i = 0, idle = 0; i < 24 && idle < 2; i++) {
		nng_msg *m;
		int      n = 0;
		vs_settle();
		while (nng_recvmsg(orc_rx, &m, NNG_FLAG_NONBLOCK) == 0) {
			orc_take(m);
			n++;
			vs_settle();
		}
		idle = n ? 0 : idle + 1;
		vs_sleep(5);
	}
	vs_nontrivial();
	char c4[48];
	snprintf(c4, sizeof(c4), "%s:order:lost-without-full-queue", ORC->prop);
	for (int k = 0; k < 4; k++)
		if (orc_got[k] && !orc_acc[k]) {
			char c2[48];
			snprintf(c2, sizeof(c2), "%s:order:phantom", ORC->prop);
			vs_fail(c2, "%s: message s%d delivered although its send was refused", ORC->name, k);
		}
	for (int k = 0; k < 4; k++)
		if (orc_acc[k] && !orc_got[k])
			vs_fail(c4, "%s: send of s%d was accepted, no queue was full (4 messages, "
			    "buffers 8), connection up - it was never delivered (delivered: %d of 4)",
			    ORC->name, k, orc_nseq);
	vs_outcome("acc=%d%d%d%d n=%d", orc_acc[0], orc_acc[1], orc_acc[2], orc_acc[3], orc_nseq);
	nng_socket_close(orc_tx);
	nng_socket_close(orc_rx);
	vh_fini();
}

static void
orc_explore(const orc_arg *a, int preempt, int total, int plain)
{
	char nm[64];
	orc_plain  = plain != 0;
	orc_resize = plain == 2;
	snprintf(nm, sizeof(nm), "order-race-%s%s-p%d-t%d", a->name,
	    plain == 2 ? "-resize" : plain ? "-plain" : "", preempt, total);
	vx_cfg c;
	memset(&c, 0, sizeof(c));
	c.prop     = a->prop;
	c.scenario = strdup(nm);
	c.run      = orc_run;
	c.arg      = (void *) a;
	c.budget[VB_PREEMPT] = preempt;
	c.budget[VB_SWITCH]  = 2;
	c.budget[VB_WAKE1]   = 1;
	c.budget[VB_ENV]     = -1;
	c.total              = total;
	c.watchdog_s         = 20;
	vx_explore(&c, NULL);
}

// quick: two preemptions on the plain configuration + one preemption on all six;
// thorough: two preemptions on all six
static void
orc_explore_tiers(const orc_arg *a)
{
	if (vx_is_thorough()) {
		orc_explore(a, 2, 2, 0);
		orc_explore(a, 2, 2, 2);
	} else {
		orc_explore(a, 2, 2, 1);
		orc_explore(a, 1, 2, 0);
		orc_explore(a, 1, 2, 2);
	}
}
#endif
