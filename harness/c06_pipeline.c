// C06 - PUSH/PULL: every accepted message reaches at most one puller, none is
// lost while the connections stay up, per-connection order, back-pressure
// (EAGAIN / ETIMEDOUT leave the message with the caller).
//
// Invariant-style oracle (DESIGN Appendix A): the harness never predicts WHEN
// NNG_EAGAIN appears.  It tags every message, keeps a ledger of submissions,
// completions and receptions and checks, over the whole history and after a
// final drain:
//   C06:send-result  results from the allowed set, non-blocking calls take no
//                    virtual time, ETIMEDOUT not before the timeout
//   C06:ownership    a rejected send still owns its (intact) message
//   C06:phantom      every received message was accepted by a send (and has
//                    the content that was sent)
//   C06:duplicate    no tag is received twice (over all pullers)
//   C06:order        on one connection x is received before y whenever
//                    send(x) completed before send(y) was submitted
//   C06:lost         after the final drain received == accepted, except for
//                    what a send-buffer SHRINK may discard (C18: "only as
//                    many as no longer fit")
// Scenarios: (1) letter sequences PUSH <-inproc-> 2 nng PULL sockets (from the
// initial state, from seeded saturated states, and with pullers that connect
// late), (2) the same against two raw PULL peers on socket:// (big and tiny
// kernel buffer), (3) schedule exploration of blocking senders racing with a
// puller becoming ready (receiving / dialing).
#define _GNU_SOURCE
#include "vpeer.h"
#include "vs.h"
#include "orderrace.h"
#include "sendrace.h"
#include <errno.h>
#include <fcntl.h>
#include <pthread.h>
#include <stdarg.h>
#include <stdlib.h>
#include <string.h>
#include <sys/socket.h>
#include <unistd.h>

// ---- ledger -----------------------------------------------------------------
#define MAXTAG 96
enum { ST_NONE, ST_PENDING, ST_ACCEPTED, ST_REJECTED };
typedef struct rec {
	int      state;
	int      sub, done; // logical time stamps (event counter)
	int      got;       // number of receptions
	int      by;        // puller that got it
	int      maylose;   // outstanding when the send buffer was shrunk
	int64_t  t_sub;     // virtual ms at submission
	int      timeout;   // ms, -1 none
	nng_msg *msg;       // while the harness may still own it
} rec;
static rec    R[MAXTAG];
static int    ntag;
static int    evt;
static int    loss_budget; // messages a buffer shrink may have discarded
static int    rxseq[2][MAXTAG];
static int    nrx[2];
static size_t g_body = 8; // body length (tag, ~tag, then a tag-derived pattern)
static char   hist[600];

static void
H(const char *fmt, ...) __attribute__((format(printf, 1, 2)));
static void
H(const char *fmt, ...)
{
	va_list ap;
	size_t  l = strlen(hist);
	va_start(ap, fmt);
	if (l + 1 < sizeof(hist))
		vsnprintf(hist + l, sizeof(hist) - l, fmt, ap);
	va_end(ap);
}

static void
ledger_reset(void)
{
	memset(R, 0, sizeof(R));
	ntag = evt = loss_budget = 0;
	nrx[0] = nrx[1] = 0;
	hist[0]         = 0;
}

static uint8_t
pat(int tag, size_t i)
{
	return (uint8_t) (tag * 31 + (int) i * 7 + 3);
}

static nng_msg *
mk_msg(int tag)
{
	nng_msg *m;
	VH_OK(nng_msg_alloc(&m, g_body));
	uint8_t *b = nng_msg_body(m);
	vp_put32(b, (uint32_t) tag);
	vp_put32(b + 4, ~(uint32_t) tag);
	for (size_t i = 8; i < g_body; i++)
		b[i] = pat(tag, i);
	return m;
}

// returns the tag or fails
static int
parse_body(const uint8_t *b, size_t len, const char *who)
{
	if (len != g_body)
		vs_fail("C06:phantom", "[%s] %s received a message of %zu bytes, "
		    "every message sent had %zu", hist, who, len, g_body);
	uint32_t t = vp_get32(b), n = vp_get32(b + 4);
	if (n != ~t || t >= (uint32_t) ntag)
		vs_fail("C06:phantom",
		    "[%s] %s received a message that was never sent (head %s)", hist,
		    who, vh_hex(b, 8));
	for (size_t i = 8; i < len; i++)
		if (b[i] != pat((int) t, i))
			vs_fail("C06:phantom",
			    "[%s] %s: body of tag %u corrupted at offset %zu", hist, who,
			    t, i);
	return (int) t;
}

// a rejected send: the message must still be intact and ours to free
static void
reclaim(int tag, nng_msg *m, const char *what)
{
	if (m == NULL)
		vs_fail("C06:ownership", "[%s] %s of tag %d failed but the message "
		    "was taken away from the caller", hist, what, tag);
	if (nng_msg_len(m) != g_body ||
	    vp_get32(nng_msg_body(m)) != (uint32_t) tag ||
	    vp_get32((uint8_t *) nng_msg_body(m) + 4) != ~(uint32_t) tag)
		vs_fail("C06:ownership", "[%s] %s of tag %d failed and the message "
		    "came back modified", hist, what, tag);
	nng_msg_free(m); // ASan: double free if the library freed it as well
}

static void
on_receive(int k, int tag)
{
	rec *r = &R[tag];
	if (r->state == ST_REJECTED)
		vs_fail("C06:phantom", "[%s] puller %c received tag %d whose send "
		    "had failed (message was returned to the caller)", hist, 'A' + k,
		    tag);
	if (r->got > 0)
		vs_fail("C06:duplicate", "[%s] tag %d received twice (puller %c, "
		    "then puller %c)", hist, tag, 'A' + r->by, 'A' + k);
	r->got = 1;
	r->by  = k;
	rxseq[k][nrx[k]++] = tag;
}

// order on one connection: x before y on the wire is wrong if send(y) had
// completed before send(x) was even submitted.  (Evaluated once all sends
// have completed, so that `done` is known.)
static void
check_order(void)
{
	for (int k = 0; k < 2; k++)
		for (int i = 0; i < nrx[k]; i++)
			for (int j = i + 1; j < nrx[k]; j++) {
				rec *x = &R[rxseq[k][i]], *y = &R[rxseq[k][j]];
				if (y->state == ST_ACCEPTED && y->done < x->sub)
					vs_fail("C06:order",
					    "[%s] puller %c received tag %d before tag %d "
					    "although send(%d) completed before send(%d) "
					    "started", hist, 'A' + k, rxseq[k][i],
					    rxseq[k][j], rxseq[k][j], rxseq[k][i]);
			}
}

static void
check_final(int *nacc, int *nrej, int *nlost)
{
	int acc = 0, rej = 0, lost = 0;
	for (int t = 0; t < ntag; t++) {
		rec *r = &R[t];
		if (r->state == ST_PENDING)
			vs_fail("C06:send-result", "[%s] send of tag %d never "
			    "completed", hist, t);
		if (r->got && r->state != ST_ACCEPTED)
			vs_fail("C06:phantom", "[%s] tag %d was received but its send "
			    "did not succeed", hist, t);
		if (r->state == ST_ACCEPTED)
			acc++;
		else
			rej++;
		if (r->state == ST_ACCEPTED && !r->got) {
			if (!r->maylose)
				vs_fail("C06:lost", "[%s] tag %d was accepted (send "
				    "returned 0) and is not received by any puller after "
				    "the final drain; connections up, sockets open", hist,
				    t);
			lost++;
		}
	}
	if (lost > loss_budget)
		vs_fail("C06:lost", "[%s] %d accepted messages missing after the "
		    "final drain, send-buffer shrinks can account for at most %d",
		    hist, lost, loss_budget);
	check_order();
	*nacc  = acc;
	*nrej  = rej;
	*nlost = lost;
}

static int
outstanding(void)
{
	int n = 0;
	for (int t = 0; t < ntag; t++)
		if (R[t].state == ST_ACCEPTED && !R[t].got)
			n++;
	return n;
}

// ---- pullers: nng socket or raw fd -------------------------------------------
typedef struct puller {
	int        raw;
	int        late; // nng puller that dials at its first receive letter
	nng_socket s;
	int        fd;
	vp_rd     *rd;
} puller;
static puller     PL[2];
static nng_socket push;

// one message or -1
static int
pull_one(int k)
{
	puller *p = &PL[k];
	char    who[12];
	snprintf(who, sizeof(who), "puller %c", 'A' + k);
	if (!p->raw) {
		if (p->late) {
			p->late = 0;
			H(" dial%c", 'A' + k);
			VH_OK(nng_dial(p->s, "inproc://c06", NULL, 0));
			vs_settle();
		}
		nng_msg *m  = NULL;
		int64_t  t0 = vs_now();
		int      rv = nng_recvmsg(p->s, &m, NNG_FLAG_NONBLOCK);
		if (vs_now() != t0)
			vs_fail("C06:recv-result", "[%s] non-blocking receive took "
			    "virtual time", hist);
		if (rv == NNG_EAGAIN)
			return -1;
		if (rv != 0)
			vs_fail("C06:recv-result", "[%s] %s: nng_recvmsg -> %s", hist,
			    who, nng_strerror(rv));
		int tag = parse_body(nng_msg_body(m), nng_msg_len(m), who);
		nng_msg_free(m);
		on_receive(k, tag);
		return tag;
	}
	for (int tries = 0; tries < 64; tries++) {
		const uint8_t *b;
		size_t         len;
		size_t         before = p->rd->len;
		int            r      = vp_next_frame(p->fd, p->rd, &b, &len);
		if (r == 1) {
			int tag = parse_body(b, len, who);
			on_receive(k, tag);
			vs_settle(); // reading made room: let the library continue
			return tag;
		}
		if (r < 0)
			vs_fail("C06:disconnect", "[%s] PUSH closed the connection to "
			    "raw %s (r=%d)", hist, who, r);
		if (tries > 0 && p->rd->len == before)
			return -1; // nothing new after a settle
		vs_settle();
	}
	return -1;
}

static int
drain_all(void)
{
	int total = 0, idle = 0;
	while (idle < 2) {
		int n = 0;
		vs_settle();
		for (int k = 0; k < 2; k++)
			while (pull_one(k) >= 0)
				n++;
		total += n;
		idle = n ? 0 : idle + 1;
	}
	return total;
}

// ---- asynchronous (timed) sends -------------------------------------------------
#define NSLOT 2
typedef struct slot {
	nng_aio *aio;
	int      tag; // -1 idle
	int      ncb;
} slot;
static slot SL[NSLOT];
static int  n_timeout;

static void
slot_cb(void *arg)
{
	slot *s = arg;
	if (s->tag < 0 || ++s->ncb != 1)
		vs_fail("C06:send-result", "[%s] send aio called back %s", hist,
		    s->tag < 0 ? "while idle" : "twice");
	rec *r  = &R[s->tag];
	int  rv = nng_aio_result(s->aio);
	r->done = ++evt;
	if (rv == 0) {
		r->state = ST_ACCEPTED;
		r->msg   = NULL;
	} else if (rv == NNG_ETIMEDOUT) {
		if (vs_now() < r->t_sub + r->timeout)
			vs_fail("C06:send-result", "[%s] send of tag %d timed out after "
			    "%lld ms, timeout %d", hist, s->tag,
			    (long long) (vs_now() - r->t_sub), r->timeout);
		r->state = ST_REJECTED;
		n_timeout++;
		nng_msg *m = nng_aio_get_msg(s->aio);
		if (m != r->msg)
			vs_fail("C06:ownership", "[%s] timed-out send of tag %d: aio "
			    "holds %s instead of the caller's message", hist, s->tag,
			    m ? "another message" : "no message");
		nng_aio_set_msg(s->aio, NULL);
		reclaim(s->tag, m, "timed send");
		r->msg = NULL;
	} else {
		vs_fail("C06:send-result", "[%s] timed send of tag %d -> %s", hist,
		    s->tag, nng_strerror(rv));
	}
	s->tag = -1;
}

// ---- letters --------------------------------------------------------------------
// the first L_CORE letters form the reduced alphabet of the deepest runs
enum { L_SEND, L_RECVA, L_RECVB, L_ASEND, L_BUF0, L_BUF1, L_SLEEP, L_BUF2, L_N };
#define L_CORE 6
static const char *LN[] = { "send", "recvA", "recvB", "asend", "buf0", "buf1",
	"sleep", "buf2" };

typedef struct seqarg {
	int        raw;     // 0 inproc nng pullers, 1 raw peers
	int        kbuf;    // raw: SO_SNDBUF of the library's end (-1 default)
	int        body;    // body size
	int        depth;
	int        nletters; // alphabet = first nletters of the enum
	int        buf0;    // initial NNG_OPT_SENDBUF
	const int *prefix;
	int        nprefix;
	int        late;    // inproc: pullers connect at their first receive
} seqarg;

static int
attach_raw(nng_listener l, int kbuf)
{
	int sv[2];
	if (socketpair(AF_UNIX, SOCK_STREAM, 0, sv) != 0)
		vs_fail("harness:setup", "socketpair: %s", strerror(errno));
	for (int i = 0; i < 2; i++) {
		fcntl(sv[i], F_SETFL, fcntl(sv[i], F_GETFL) | O_NONBLOCK);
		fcntl(sv[i], F_SETFD, FD_CLOEXEC);
	}
	if (kbuf >= 0)
		setsockopt(sv[0], SOL_SOCKET, SO_SNDBUF, &kbuf, sizeof(kbuf));
	VH_OK(nng_listener_set_int(l, NNG_OPT_SOCKET_FD, sv[0]));
	vs_settle();
	if (vp_handshake(sv[1], SP_PULL) != SP_PUSH)
		vs_fail("harness:setup", "raw PULL handshake failed");
	return sv[1];
}

static void
do_send_nb(void)
{
	int      tag = ntag++;
	rec     *r   = &R[tag];
	nng_msg *m   = mk_msg(tag);
	r->sub       = ++evt;
	r->timeout   = -1;
	int64_t t0   = vs_now();
	int     rv   = nng_sendmsg(push, m, NNG_FLAG_NONBLOCK);
	r->done      = ++evt;
	H(" send%d=%s", tag, rv == 0 ? "ok" : rv == NNG_EAGAIN ? "EAGAIN" : "?");
	if (vs_now() != t0)
		vs_fail("C06:send-result", "[%s] non-blocking send took %lld virtual "
		    "ms", hist, (long long) (vs_now() - t0));
	if (rv == 0) {
		r->state = ST_ACCEPTED;
	} else if (rv == NNG_EAGAIN) {
		r->state = ST_REJECTED;
		reclaim(tag, m, "non-blocking send");
	} else {
		vs_fail("C06:send-result", "[%s] non-blocking send of tag %d -> %s "
		    "(allowed: 0, NNG_EAGAIN)", hist, tag, nng_strerror(rv));
	}
	vs_settle();
}

static void
do_asend(void)
{
	int i;
	for (i = 0; i < NSLOT; i++)
		if (SL[i].tag < 0)
			break;
	if (i == NSLOT) {
		H(" asend-");
		return; // both in flight
	}
	int  tag   = ntag++;
	rec *r     = &R[tag];
	r->msg     = mk_msg(tag);
	r->sub     = ++evt;
	r->state   = ST_PENDING;
	r->timeout = 10;
	r->t_sub   = vs_now();
	SL[i].tag  = tag;
	SL[i].ncb  = 0;
	nng_aio_set_timeout(SL[i].aio, 10);
	nng_aio_set_msg(SL[i].aio, r->msg);
	H(" asend%d", tag);
	nng_socket_send(push, SL[i].aio);
	vs_settle();
}

static void
do_sendbuf(int n, int *cur)
{
	// a shrink may discard queued messages, only as many as no longer fit
	int out = outstanding();
	if (n < *cur) {
		int inq = out < *cur ? out : *cur;
		if (inq > n) {
			loss_budget += inq - n;
			for (int t = 0; t < ntag; t++)
				if (R[t].state == ST_ACCEPTED && !R[t].got)
					R[t].maylose = 1;
		}
	}
	H(" buf%d", n);
	int rv = nng_socket_set_int(push, NNG_OPT_SENDBUF, n);
	if (rv != 0)
		vs_fail("C06:sendbuf", "[%s] NNG_OPT_SENDBUF=%d -> %s", hist, n,
		    nng_strerror(rv));
	*cur = n;
	vs_settle();
}

static void
run_seq(void *argp)
{
	seqarg *a = argp;
	vh_init(0);
	ledger_reset();
	g_body    = (size_t) a->body;
	n_timeout = 0;
	VH_OK(nng_push0_open(&push));
	int cur = a->buf0;
	VH_OK(nng_socket_set_int(push, NNG_OPT_SENDBUF, cur));
	memset(PL, 0, sizeof(PL));
	if (!a->raw) {
		VH_OK(nng_listen(push, "inproc://c06", NULL, 0));
		for (int k = 0; k < 2; k++) {
			VH_OK(nng_pull0_open(&PL[k].s));
			if (a->late) {
				PL[k].late = 1;
				continue;
			}
			VH_OK(nng_dial(PL[k].s, "inproc://c06", NULL, 0));
			vs_settle();
		}
	} else {
		nng_listener l;
		VH_OK(nng_listener_create(&l, push, "socket://"));
		VH_OK(nng_listener_start(l, 0));
		for (int k = 0; k < 2; k++) {
			PL[k].raw = 1;
			PL[k].fd  = attach_raw(l, a->kbuf);
			PL[k].rd  = calloc(1, sizeof(vp_rd));
		}
	}
	for (int i = 0; i < NSLOT; i++) {
		VH_OK(nng_aio_alloc(&SL[i].aio, slot_cb, &SL[i]));
		SL[i].tag = -1;
	}
	vs_settle();
	int total = a->nprefix + a->depth;
	for (int step = 0; step < total; step++) {
		int l = step < a->nprefix ? a->prefix[step]
		                          : vs_choose(VK_ENV, a->nletters);
		int t;
		switch (l) {
		case L_SEND:
			do_send_nb();
			break;
		case L_RECVA:
		case L_RECVB:
			t = pull_one(l - L_RECVA);
			if (t >= 0)
				H(" %s=%d", LN[l], t);
			else
				H(" %s=-", LN[l]);
			vs_settle();
			break;
		case L_BUF0:
		case L_BUF1:
		case L_BUF2:
			// "sendbuf2" grows on to 4 when the depth already is 2, so
			// that a full power-of-two ring gets resized as well
			do_sendbuf(l == L_BUF0       ? 0
			        : l == L_BUF1        ? 1
			        : (cur == 2 ? 4 : 2),
			    &cur);
			break;
		case L_ASEND:
			do_asend();
			break;
		case L_SLEEP:
			H(" sleep");
			vs_sleep(20);
			vs_settle();
			break;
		}
	}
	// final drain: pullers read everything; waiting senders are served or
	// time out; then nothing accepted may be missing
	H(" | drain");
	int late = drain_all();
	vs_sleep(20);
	late += drain_all();
	int acc, rej, lost;
	check_final(&acc, &rej, &lost);
	vs_log("%s", hist);
	vs_outcome("acc=%d rej=%d to=%d late=%d lost=%d", acc, rej, n_timeout,
	    late > 3 ? 3 : late, lost);
	for (int i = 0; i < NSLOT; i++)
		nng_aio_free(SL[i].aio);
	for (int k = 0; k < 2; k++) {
		if (PL[k].raw) {
			close(PL[k].fd);
			free(PL[k].rd);
		} else {
			nng_socket_close(PL[k].s);
		}
	}
	nng_socket_close(push);
	vh_fini();
}

// ---- scenario 3: blocking send || puller becoming ready ---------------------------
typedef struct racearg {
	int sendbuf;
	int mode;     // 0: connected puller whose pipe is saturated starts receiving
	              // 1: no puller yet, one dials and receives
	              // 2: saturated puller A plus puller B dialing
	int nsenders; // 1 or 2 blocking senders
} racearg;
static racearg *RA;
static int      race_rx_rv[2];

static void *
race_sender(void *p)
{
	int      tag = (int) (intptr_t) p;
	rec     *r   = &R[tag];
	nng_msg *m   = mk_msg(tag);
	r->sub       = ++evt;
	r->t_sub     = vs_now();
	r->state     = ST_PENDING;
	int rv       = nng_sendmsg(push, m, 0);
	r->done      = ++evt;
	if (rv == 0) {
		r->state = ST_ACCEPTED;
	} else if (rv == NNG_ETIMEDOUT) {
		if (vs_now() < r->t_sub + 50)
			vs_fail("C06:send-result", "blocking send timed out after %lld "
			    "ms (NNG_OPT_SENDTIMEO 50)", (long long) (vs_now() - r->t_sub));
		r->state = ST_REJECTED;
		reclaim(tag, m, "blocking send");
	} else {
		vs_fail("C06:send-result", "blocking send of tag %d -> %s", tag,
		    nng_strerror(rv));
	}
	return NULL;
}

static void *
race_puller(void *p)
{
	int k = (int) (intptr_t) p;
	if ((RA->mode == 1 && k == 0) || (RA->mode == 2 && k == 1))
		VH_OK(nng_dial(PL[k].s, "inproc://c06r", NULL, 0));
	nng_msg *m  = NULL;
	int      rv = nng_recvmsg(PL[k].s, &m, 0);
	race_rx_rv[k] = rv;
	if (rv == 0) {
		char who[12];
		snprintf(who, sizeof(who), "puller %c", 'A' + k);
		int tag = parse_body(nng_msg_body(m), nng_msg_len(m), who);
		nng_msg_free(m);
		if (R[tag].got > 0)
			vs_fail("C06:duplicate", "tag %d received twice", tag);
		R[tag].got = 1;
		R[tag].by  = k;
		rxseq[k][nrx[k]++] = tag;
	} else if (rv != NNG_ETIMEDOUT) {
		vs_fail("C06:recv-result", "blocking receive -> %s", nng_strerror(rv));
	}
	return NULL;
}

static void
run_race(void *argp)
{
	RA = argp;
	vh_init(0);
	ledger_reset();
	g_body = 8;
	snprintf(hist, sizeof(hist), "race mode %d sendbuf %d senders %d", RA->mode,
	    RA->sendbuf, RA->nsenders);
	memset(PL, 0, sizeof(PL));
	VH_OK(nng_push0_open(&push));
	VH_OK(nng_socket_set_int(push, NNG_OPT_SENDBUF, RA->sendbuf));
	VH_OK(nng_socket_set_ms(push, NNG_OPT_SENDTIMEO, 50));
	VH_OK(nng_listen(push, "inproc://c06r", NULL, 0));
	for (int k = 0; k < 2; k++) {
		VH_OK(nng_pull0_open(&PL[k].s));
		VH_OK(nng_socket_set_ms(PL[k].s, NNG_OPT_RECVTIMEO, 50));
	}
	if (RA->mode != 1) {
		VH_OK(nng_dial(PL[0].s, "inproc://c06r", NULL, 0));
		vs_settle();
	}
	// saturate: accepted messages fill the pull pipe, the transport and the
	// send buffer, until a non-blocking send is refused
	for (int i = 0; i < 8; i++) {
		int      tag = ntag++;
		nng_msg *m   = mk_msg(tag);
		R[tag].sub   = ++evt;
		int rv       = nng_sendmsg(push, m, NNG_FLAG_NONBLOCK);
		R[tag].done  = ++evt;
		vs_settle();
		if (rv == 0) {
			R[tag].state = ST_ACCEPTED;
			continue;
		}
		if (rv != NNG_EAGAIN)
			vs_fail("C06:send-result", "prefill send -> %s", nng_strerror(rv));
		R[tag].state = ST_REJECTED;
		reclaim(tag, m, "non-blocking send");
		break;
	}
	if (R[ntag - 1].state != ST_REJECTED)
		vs_fail("harness:saturate", "%s: 8 non-blocking sends were all "
		    "accepted with no puller reading", hist);
	int       prefilled = ntag - 1;
	pthread_t ts[2], tp[2];
	int       np = RA->mode == 2 ? 2 : 1;
	int       t0 = ntag;
	ntag += RA->nsenders;
	race_rx_rv[0] = race_rx_rv[1] = -1;
	vs_window(1);
	for (int i = 0; i < RA->nsenders; i++)
		pthread_create(&ts[i], NULL, race_sender, (void *) (intptr_t) (t0 + i));
	for (int k = 0; k < np; k++)
		pthread_create(&tp[k], NULL, race_puller, (void *) (intptr_t) k);
	for (int i = 0; i < RA->nsenders; i++)
		pthread_join(ts[i], NULL);
	for (int k = 0; k < np; k++)
		pthread_join(tp[k], NULL);
	vs_window(0);
	int late = drain_all();
	vs_sleep(60);
	late += drain_all();
	int acc, rej, lost;
	check_final(&acc, &rej, &lost);
	int okb = 0;
	for (int i = 0; i < RA->nsenders; i++)
		okb += R[t0 + i].state == ST_ACCEPTED;
	vs_log("%s prefilled=%d blocking-ok=%d rx=%d/%d", hist, prefilled, okb,
	    race_rx_rv[0], race_rx_rv[1]);
	vs_outcome("pre=%d ok=%d rxA=%d rxB=%d", prefilled, okb, race_rx_rv[0],
	    race_rx_rv[1]);
	for (int k = 0; k < 2; k++)
		nng_socket_close(PL[k].s);
	nng_socket_close(push);
	vh_fini();
}

// ---- driver ------------------------------------------------------------------
// Throughput differs a lot with machine load (other checks run in parallel),
// so the thorough tier chooses each depth from the measured execution rate:
// the largest depth in [dmin, dmax] whose letters^depth fits the scenario's
// share of the tier budget.  Every started exploration runs to completion.
static double g_rate = 1000; // executions per second, re-measured continuously
static double g_cap;        // wall seconds this tier may use in total
static double g_t0left;
static char   g_depths[400];
static int    g_replay; // --replay: offer every candidate scenario name

static double
powd(double b, int e)
{
	double r = 1;
	while (e-- > 0)
		r *= b;
	return r;
}

static double
used(void)
{
	return g_t0left - vx_time_left();
}

static void
explore_seq(const char *name, seqarg *a, int dmax, int dmin, double share)
{
	int d = dmax;
	while (d > dmin &&
	    powd(a->nletters, d) / g_rate * 1.25 > share * g_cap)
		d--;
	if (powd(a->nletters, d) / g_rate > g_cap - used() && d > dmin)
		d = dmin;
	char nm[64];
	vx_cfg c;
	memset(&c, 0, sizeof(c));
	c.prop     = "C06";
	c.scenario = nm;
	c.run      = run_seq;
	c.arg      = a;
	c.budget[VB_ENV] = -1;
	c.total          = 0;
	if (g_replay) { // the replay file names the depth
		for (d = dmin; d <= dmax; d++) {
			a->depth = d;
			snprintf(nm, sizeof(nm), "%s-d%d", name, d);
			vx_explore(&c, NULL);
		}
		return;
	}
	a->depth = d;
	snprintf(nm, sizeof(nm), "%s-d%d", name, d);
	snprintf(g_depths + strlen(g_depths), sizeof(g_depths) - strlen(g_depths),
	    "%s%s", g_depths[0] ? " " : "", nm);
	vx_stats st;
	memset(&st, 0, sizeof(st));
	vx_explore(&c, &st);
	if (st.executions >= 300 && st.wall_s > 0.2)
		g_rate = (double) st.executions / st.wall_s;
}

static void
explore_race(racearg *a, int p, int total)
{
	char nm[64];
	snprintf(nm, sizeof(nm), "race-m%d-buf%d-s%d-p%d-t%d", a->mode, a->sendbuf,
	    a->nsenders, p, total);
	vx_cfg c;
	memset(&c, 0, sizeof(c));
	c.prop     = "C06";
	c.scenario = nm;
	c.run      = run_race;
	c.arg      = a;
	c.budget[VB_PREEMPT] = p;
	c.budget[VB_SWITCH]  = 2;
	c.budget[VB_TIMER]   = 1;
	c.budget[VB_WAKE1]   = 1;
	c.budget[VB_ENV]     = -1;
	c.total              = total;
	c.watchdog_s         = 20;
	vx_explore(&c, NULL);
}

// ---- (4) pipe arrival racing with its departure ------------------------------------------------
// PUSH dials a PULL listener whose side drops the new connection at once (rejects it in ADD_PRE, or
// another thread closes the PULL socket); afterwards the PUSH socket is used again.  Every message it
// accepts must reach the second, healthy puller, and nothing may touch a pipe that is gone.
typedef struct churnarg {
	int how;     // 0 reject in ADD_PRE, 1 concurrent close of the PULL socket
	int sendbuf;
} churnarg;
static int churn_reject;
static void
churn_cb(nng_pipe p, nng_pipe_ev ev, void *arg)
{
	(void) arg;
	if (ev == NNG_PIPE_EV_ADD_PRE && churn_reject > 0) {
		churn_reject--;
		nng_pipe_close(p);
	}
}
static void *
churn_dial(void *a)
{
	(void) a;
	int rv = nng_dial(push, "inproc://c06c", NULL, 0);
	if (rv != 0 && rv != NNG_ECONNREFUSED && rv != NNG_ECLOSED && rv != NNG_ECONNRESET &&
	    rv != NNG_ECONNABORTED)
		vs_fail("C06:churn", "dial -> %s", nng_strerror(rv));
	return NULL;
}
static void *
churn_close(void *a)
{
	(void) a;
	nng_socket_close(PL[0].s);
	return NULL;
}
static uint32_t churn_pipe_id[2]; // [0] the PULL side's pipe, [1] the PUSH side's
static void
churn_id_cb(nng_pipe p, nng_pipe_ev ev, void *arg)
{
	(void) ev;
	churn_pipe_id[(int) (intptr_t) arg] = p.id;
}
static void *
churn_pipe_close(void *a)
{
	nng_pipe p = NNG_PIPE_INITIALIZER;
	p.id       = churn_pipe_id[(int) (intptr_t) a];
	nng_pipe_close(p);
	return NULL;
}
static void *
churn_send(void *a)
{
	int      tag = (int) (intptr_t) a;
	nng_msg *m   = mk_msg(tag);
	R[tag].sub   = ++evt;
	R[tag].state = ST_PENDING;
	int rv       = nng_sendmsg(push, m, 0);
	R[tag].done  = ++evt;
	if (rv == 0)
		R[tag].state = ST_ACCEPTED;
	else if (rv == NNG_ETIMEDOUT) {
		R[tag].state = ST_REJECTED;
		reclaim(tag, m, "blocking send");
	} else
		vs_fail("C06:send-result", "[%s] blocking send -> %s", hist, nng_strerror(rv));
	return NULL;
}

// how 2/3: a message is in flight on an established connection while that connection's pipe is
// closed on the PULL side (2) or on the PUSH side (3): the completion callback of the transfer and
// the pipe's teardown race.  The message may be lost with the connection (it departed), but
// nothing may be left pointing at the pipe: the sockets are used again afterwards.
// ---- a visitor that is not a healthy puller ------------------------------------------------------------------------
// PUSH (send buffer 0 / 2) holds nothing / buffered messages / buffered messages and a WAITING sender when a raw
// peer turns up on its socket:// listener and goes away again:
//   0 wrong protocol (announces PUSH): never a peer - nothing may be handed to it, the waiting sender keeps waiting
//   1 announces PULL, sends a data frame to the PUSH socket (which PUSH discards), takes what it is offered,
//     closes                       2 announces PULL, takes what it is offered, closes
//   3 like 1, but after its frame it only closes (reads nothing)
// Afterwards, with nobody connected, further non-blocking sends are made and finally a healthy raw puller
// connects and reads everything.  Conservation over the whole history: every message whose send was accepted
// (returned 0 / aio result 0) was read by the visitor while it was connected or reaches the final puller, once,
// in order per connection; a refused message stays with the caller.  Messages handed to visitor 3 before it
// closed are the only tolerated loss (the connection went down with them).
#define VIS_MAX 24
static int vis_state[VIS_MAX]; // 0 unused, 1 accepted, 2 refused, 3 waiting (aio)
static int vis_rx[VIS_MAX];
static int vis_n;
static nng_aio *vis_aio;
static int      vis_aio_tag, vis_aio_done, vis_aio_rv;
static void
vis_cb(void *a)
{
	(void) a;
	vis_aio_rv   = (int) nng_aio_result(vis_aio);
	vis_aio_done = 1;
	if (vis_aio_rv == 0)
		vis_state[vis_aio_tag] = 1;
}
static nng_msg *
vis_msg(int tag)
{
	nng_msg *m;
	VH_OK(nng_msg_alloc(&m, 4));
	vp_put32(nng_msg_body(m), 0xC0600000u + (uint32_t) tag);
	return m;
}
static void
vis_send_nb(nng_socket push, const char *when)
{
	int      tag = vis_n++;
	nng_msg *m   = vis_msg(tag);
	int      rv  = nng_sendmsg(push, m, NNG_FLAG_NONBLOCK);
	if (rv == 0) {
		vis_state[tag] = 1;
	} else if (rv == NNG_EAGAIN) {
		vis_state[tag] = 2;
		if (nng_msg_len(m) != 4 || vp_get32(nng_msg_body(m)) != 0xC0600000u + (uint32_t) tag)
			vs_fail("C06:ownership", "refused send (%s) returned a modified message", when);
		nng_msg_free(m);
	} else {
		vs_fail("C06:send-result", "non-blocking send %s -> %s", when, nng_strerror(rv));
	}
	vs_settle();
}
// read the frames available on fd; returns how many; `lastp` tracks per-connection order
static int
vis_read(int fd, vp_rd *rd, const char *who, int *lastp)
{
	int n = 0;
	for (int idle = 0; idle < 3;) {
		const uint8_t *pl;
		size_t         len;
		int            r = vp_next_frame(fd, rd, &pl, &len);
		if (r != 1) {
			idle++;
			vs_settle();
			if (r < 0)
				break;
			continue;
		}
		idle = 0;
		if (len != 4 || (vp_get32(pl) & 0xffff0000u) != 0xC0600000u ||
		    (int) (vp_get32(pl) & 0xffff) >= vis_n)
			vs_fail("C06:phantom", "%s received a frame of %zu bytes that was never sent", who, len);
		int tag = (int) (vp_get32(pl) & 0xffff);
		if (vis_state[tag] == 2)
			vs_fail("C06:phantom", "%s received message %d whose send had been refused", who, tag);
		if (vis_rx[tag]++)
			vs_fail("C06:duplicate", "%s received message %d, which had been delivered already", who, tag);
		if (tag < *lastp)
			vs_fail("C06:order", "%s received message %d after %d", who, tag, *lastp);
		*lastp = tag;
		n++;
	}
	return n;
}
static void
run_visitor(void *argp)
{
	(void) argp;
	vh_init(0);
	memset(vis_state, 0, sizeof(vis_state));
	memset(vis_rx, 0, sizeof(vis_rx));
	vis_n = vis_aio_done = 0;
	vis_aio_tag = -1;
	int kind    = vs_choose(VK_ENV, 4);
	int sb      = vs_choose(VK_ENV, 2) ? 2 : 0;
	int pending = vs_choose(VK_ENV, 3); // 0 nothing, 1 buffered only, 2 buffered + a waiting sender
	nng_socket   push;
	nng_listener l;
	VH_OK(nng_push0_open(&push));
	VH_OK(nng_socket_set_int(push, NNG_OPT_SENDBUF, sb));
	if (pending >= 1)
		for (int i = 0; i < sb + 1; i++)
			vis_send_nb(push, "before anybody connected");
	if (pending == 2) {
		vis_aio_tag = vis_n++;
		VH_OK(nng_aio_alloc(&vis_aio, vis_cb, NULL));
		nng_aio_set_timeout(vis_aio, NNG_DURATION_INFINITE);
		nng_aio_set_msg(vis_aio, vis_msg(vis_aio_tag));
		vis_state[vis_aio_tag] = 3;
		nng_socket_send(push, vis_aio);
		vs_settle();
	}
	// the visitor
	static vp_rd rdv, rdf;
	memset(&rdv, 0, sizeof(rdv));
	memset(&rdf, 0, sizeof(rdf));
	int fd   = vp_attach(push, &l);
	int last = -1, ntaken = 0;
	vs_settle();
	int peer = vp_handshake(fd, kind == 0 ? SP_PUSH : SP_PULL);
	(void) peer;
	vs_settle();
	if (kind == 1 || kind == 3) {
		if (vp_send(fd, NULL, 0, "junk", 4) != 0)
			vs_fail("harness:peer", "visitor write");
		vs_settle();
	}
	if (kind != 3)
		ntaken = vis_read(fd, &rdv, "the visitor", &last);
	if (kind == 0 && ntaken > 0)
		vs_fail("C06:wrong-peer", "a peer that announced protocol PUSH was sent %d message(s)", ntaken);
	if (kind == 0 && pending == 2 && vis_aio_done)
		vs_fail("C06:wrong-peer",
		    "the waiting send completed (%s) when a peer of the wrong protocol connected; no puller "
		    "was ever there",
		    nng_strerror(vis_aio_rv));
	close(fd);
	vs_settle();
	vs_sleep(5);
	vs_settle();
	// nobody is connected now
	for (int i = 0; i < 3; i++)
		vis_send_nb(push, "after the visitor left");
	// the healthy puller
	int fd2 = vp_attach_more(l);
	vs_settle();
	if (fd2 < 0 || vp_handshake(fd2, SP_PULL) != SP_PUSH)
		vs_fail("C06:lost", "a healthy puller cannot connect after the visit");
	last = -1;
	vis_read(fd2, &rdf, "the final puller", &last);
	vs_sleep(20);
	vis_read(fd2, &rdf, "the final puller", &last);
	if (pending == 2) {
		if (!vis_aio_done)
			vs_fail("C06:lost", "the waiting send (message %d) is still waiting although a puller "
			    "reads everything", vis_aio_tag);
		if (vis_aio_rv != 0)
			vs_fail("C06:send-result", "the waiting send failed: %s", nng_strerror(vis_aio_rv));
	}
	for (int t = 0; t < vis_n; t++)
		if (vis_state[t] == 1 && !vis_rx[t] && kind != 3)
			vs_fail("C06:lost",
			    "message %d was accepted (visitor kind %d, sendbuf %d, pending %d) and reached neither "
			    "the visitor while it was connected nor the puller that came afterwards",
			    t, kind, sb, pending);
	if (kind == 3) { // tolerated: what was in flight to the visitor when it closed (at most sb + 2)
		int lost = 0, lost_after = 0;
		for (int t = 0; t < vis_n; t++)
			if (vis_state[t] == 1 && !vis_rx[t]) {
				lost++;
				if (t >= vis_n - 3)
					lost_after++;
			}
		if (lost_after)
			vs_fail("C06:lost", "%d message(s) accepted AFTER the visitor had closed never arrived "
			    "(sendbuf %d, pending %d)", lost_after, sb, pending);
	}
	vs_nontrivial();
	vs_outcome("kind=%d sb=%d pending=%d taken=%d", kind, sb, pending, ntaken);
	close(fd2);
	if (pending == 2)
		nng_aio_free(vis_aio);
	nng_socket_close(push);
	vh_fini();
}

static void
run_churn2(void *argp)
{
	churnarg *ca = argp;
	vh_init(0);
	ledger_reset();
	g_body = 8;
	snprintf(hist, sizeof(hist), "churn how %d sendbuf %d", ca->how, ca->sendbuf);
	memset(PL, 0, sizeof(PL));
	VH_OK(nng_push0_open(&push));
	VH_OK(nng_socket_set_int(push, NNG_OPT_SENDBUF, ca->sendbuf));
	VH_OK(nng_socket_set_ms(push, NNG_OPT_SENDTIMEO, 50));
	VH_OK(nng_socket_set_ms(push, NNG_OPT_RECONNMINT, 1000));
	VH_OK(nng_socket_set_ms(push, NNG_OPT_RECONNMAXT, 1000));
	for (int k = 0; k < 2; k++) {
		VH_OK(nng_pull0_open(&PL[k].s));
		VH_OK(nng_socket_set_ms(PL[k].s, NNG_OPT_RECVTIMEO, 50));
	}
	churn_pipe_id[0] = churn_pipe_id[1] = 0;
	VH_OK(nng_pipe_notify(PL[0].s, NNG_PIPE_EV_ADD_POST, churn_id_cb, (void *) 0));
	VH_OK(nng_pipe_notify(push, NNG_PIPE_EV_ADD_POST, churn_id_cb, (void *) 1));
	VH_OK(nng_listen(PL[0].s, "inproc://c06c", NULL, 0));
	VH_OK(nng_listen(PL[1].s, "inproc://c06d", NULL, 0));
	VH_OK(nng_dial(push, "inproc://c06c", NULL, 0));
	vs_settle();
	if (!churn_pipe_id[0] || !churn_pipe_id[1])
		vs_fail("harness:churn", "pipe ids not seen");
	// optionally one unread message first, so that the puller's pipe is parked
	int parked = vs_choose(VK_ENV, 2);
	if (parked) {
		int tag = ntag++;
		churn_send((void *) (intptr_t) tag);
		vs_settle();
	}
	pthread_t t1, t2;
	int       tag = ntag++;
	vs_window(1);
	pthread_create(&t1, NULL, churn_send, (void *) (intptr_t) tag);
	pthread_create(&t2, NULL, churn_pipe_close, (void *) (intptr_t) (ca->how == 2 ? 0 : 1));
	pthread_join(t1, NULL);
	pthread_join(t2, NULL);
	vs_window(0);
	vs_settle();
	// the connection departed: what it carried may be lost
	for (int t = 0; t < ntag; t++)
		if (R[t].state == ST_ACCEPTED) {
			R[t].maylose = 1;
			loss_budget++;
		}
	drain_all();
	// the healthy puller arrives; both sockets are used again
	VH_OK(nng_dial(push, "inproc://c06d", NULL, 0));
	vs_settle();
	for (int i = 0; i < 4; i++) {
		int      tg = ntag++;
		nng_msg *m  = mk_msg(tg);
		R[tg].sub   = ++evt;
		int rv      = nng_sendmsg(push, m, NNG_FLAG_NONBLOCK);
		R[tg].done  = ++evt;
		vs_settle();
		if (rv == 0) {
			R[tg].state = ST_ACCEPTED;
			continue;
		}
		if (rv != NNG_EAGAIN)
			vs_fail("C06:send-result", "[%s] send -> %s", hist, nng_strerror(rv));
		R[tg].state = ST_REJECTED;
		reclaim(tg, m, "non-blocking send");
	}
	drain_all();
	vs_sleep(60);
	drain_all();
	int acc, rej, lost;
	check_final(&acc, &rej, &lost);
	vs_nontrivial();
	vs_outcome("parked=%d acc=%d rej=%d lost=%d rxA=%d rxB=%d", parked, acc, rej, lost, nrx[0],
	    nrx[1]);
	for (int k = 0; k < 2; k++)
		nng_socket_close(PL[k].s);
	nng_socket_close(push);
	vh_fini();
}

static void
run_churn(void *argp)
{
	churnarg *ca = argp;
	vh_init(0);
	ledger_reset();
	g_body = 8;
	snprintf(hist, sizeof(hist), "churn how %d sendbuf %d", ca->how, ca->sendbuf);
	memset(PL, 0, sizeof(PL));
	VH_OK(nng_push0_open(&push));
	VH_OK(nng_socket_set_int(push, NNG_OPT_SENDBUF, ca->sendbuf));
	VH_OK(nng_socket_set_ms(push, NNG_OPT_SENDTIMEO, 50));
	VH_OK(nng_socket_set_ms(push, NNG_OPT_RECONNMINT, 1000));
	VH_OK(nng_socket_set_ms(push, NNG_OPT_RECONNMAXT, 1000));
	for (int k = 0; k < 2; k++) {
		VH_OK(nng_pull0_open(&PL[k].s));
		VH_OK(nng_socket_set_ms(PL[k].s, NNG_OPT_RECVTIMEO, 50));
	}
	churn_reject = ca->how == 0 ? 1 : 0;
	VH_OK(nng_pipe_notify(PL[0].s, NNG_PIPE_EV_ADD_PRE, churn_cb, NULL));
	VH_OK(nng_listen(PL[0].s, "inproc://c06c", NULL, 0));
	VH_OK(nng_listen(PL[1].s, "inproc://c06d", NULL, 0));
	vs_settle();
	pthread_t t1, t2;
	vs_window(1);
	pthread_create(&t1, NULL, churn_dial, NULL);
	if (ca->how == 1)
		pthread_create(&t2, NULL, churn_close, NULL);
	pthread_join(t1, NULL);
	if (ca->how == 1)
		pthread_join(t2, NULL);
	vs_window(0);
	vs_settle();
	if (ca->how == 1) { // the ledger's drain needs an open socket in slot 0
		VH_OK(nng_pull0_open(&PL[0].s));
		VH_OK(nng_socket_set_ms(PL[0].s, NNG_OPT_RECVTIMEO, 50));
	}
	// the healthy puller arrives; the socket is used again
	VH_OK(nng_dial(push, "inproc://c06d", NULL, 0));
	vs_settle();
	for (int i = 0; i < 4; i++) {
		int      tag = ntag++;
		nng_msg *m   = mk_msg(tag);
		R[tag].sub   = ++evt;
		int rv       = nng_sendmsg(push, m, NNG_FLAG_NONBLOCK);
		R[tag].done  = ++evt;
		vs_settle();
		if (rv == 0) {
			R[tag].state = ST_ACCEPTED;
			continue;
		}
		if (rv != NNG_EAGAIN)
			vs_fail("C06:send-result", "[%s] send -> %s", hist, nng_strerror(rv));
		R[tag].state = ST_REJECTED;
		reclaim(tag, m, "non-blocking send");
	}
	drain_all();
	vs_sleep(60);
	drain_all();
	int acc, rej, lost;
	check_final(&acc, &rej, &lost);
	vs_nontrivial();
	vs_outcome("acc=%d rej=%d rxA=%d rxB=%d", acc, rej, nrx[0], nrx[1]);
	for (int k = 0; k < 2; k++)
		nng_socket_close(PL[k].s);
	nng_socket_close(push);
	vh_fini();
}

static void
explore_churn(churnarg *a, int p, int total)
{
	char nm[64];
	snprintf(nm, sizeof(nm), "churn-h%d-buf%d-p%d-t%d", a->how, a->sendbuf, p, total);
	vx_cfg c;
	memset(&c, 0, sizeof(c));
	c.prop     = "C06";
	c.scenario = nm;
	c.run      = a->how >= 2 ? run_churn2 : run_churn;
	c.arg      = a;
	c.budget[VB_PREEMPT] = p;
	c.budget[VB_SWITCH]  = 2;
	c.budget[VB_TIMER]   = 1;
	c.budget[VB_WAKE1]   = 1;
	c.budget[VB_ENV]     = -1;
	c.total              = total;
	c.watchdog_s         = 20;
	vx_explore(&c, NULL);
}

int
main(int argc, char **argv)
{
	vx_init(argc, argv, "C06");
	int T = vx_is_thorough();
	for (int i = 1; i < argc; i++)
		if (!strcmp(argv[i], "--replay"))
			g_replay = 1;
	g_t0left = vx_time_left();
	g_cap    = T ? 1000 : 50;
	if (g_cap > g_t0left - 60)
		g_cap = g_t0left - 60;

	// seeded start states (forced prefixes): every buffer on the way full
	// with send buffer 0 / 2, and two senders waiting behind a full pipeline
	static const int P_FULL0[] = { L_SEND, L_SEND, L_SEND, L_SEND };
	static const int P_FULL2[] = { L_BUF2, L_SEND, L_SEND, L_SEND, L_SEND,
		L_SEND, L_SEND };
	static const int P_WAIT[]  = { L_SEND, L_SEND, L_SEND, L_SEND, L_ASEND,
		L_ASEND };
	// raw, kbuf, body, depth, letters, initial sendbuf, prefix
	static seqarg s_full0 = { 0, -1, 8, 0, L_N, 0, P_FULL0, 4 };
	static seqarg s_full2 = { 0, -1, 8, 0, L_N, 0, P_FULL2, 7 };
	static seqarg s_wait  = { 0, -1, 8, 0, L_N, 0, P_WAIT, 6 };
	// raw pullers: default kernel buffer (exact wire order, never blocks)
	// and a tiny one with 3000-byte bodies (back-pressure from the transport)
	static seqarg s_raw   = { 1, -1, 8, 0, L_N, 0, NULL, 0 };
	static seqarg s_rawf  = { 1, 0, 3000, 0, L_N, 0, P_FULL0, 4 };
	static seqarg s_raww  = { 1, 0, 3000, 0, L_N, 0, P_WAIT, 6 };
	static seqarg s_init  = { 0, -1, 8, 0, L_N, 0, NULL, 0 };
	static seqarg s_core  = { 0, -1, 8, 0, L_CORE, 1, NULL, 0 };
	// no puller connected at the start: each dials at its first receive
	static seqarg s_late  = { 0, -1, 8, 0, L_CORE, 1, NULL, 0, 1 };

	double wrem = 1;
	if (!T) {
		explore_seq("inproc-full0", &s_full0, 3, 3, 1);
		explore_seq("inproc-full2", &s_full2, 3, 3, 1);
		explore_seq("inproc-waiters", &s_wait, 3, 3, 1);
		explore_seq("raw", &s_raw, 3, 3, 1);
		explore_seq("raw-tinybuf-full0", &s_rawf, 3, 3, 1);
		explore_seq("raw-tinybuf-waiters", &s_raww, 3, 3, 1);
		explore_seq("inproc-late", &s_late, 4, 3, 0.1);
	} else {
		// each run gets its weight's share of the time that is still left
		// (weights: 7 small runs 1 each, schedules 4, the two deep runs 6
		// each), so what earlier runs did not use carries over
		wrem = 7 + 4 + 12;
#define SHARE(w) ((w) / wrem * (g_cap - used()) / g_cap)
#define RUN(nm, a, dmax, dmin, w)                          \
	do {                                               \
		explore_seq(nm, a, dmax, dmin, SHARE(w));  \
		wrem -= (w);                               \
	} while (0)
		RUN("inproc-full0", &s_full0, 5, 4, 1.0);
		RUN("inproc-full2", &s_full2, 5, 4, 1.0);
		RUN("inproc-waiters", &s_wait, 5, 4, 1.0);
		RUN("raw", &s_raw, 5, 4, 1.0);
		RUN("raw-tinybuf-full0", &s_rawf, 5, 4, 1.0);
		RUN("raw-tinybuf-waiters", &s_raww, 5, 4, 1.0);
		RUN("inproc-late", &s_late, 6, 5, 1.0);
	}

	// (3) schedules: blocking sender(s) || puller becoming ready.
	// {sendbuf, mode, senders}; sizes measured on this tree (executions):
	// m0 p1/t2 1.5 k, p2/t3 37 k; m1 p1/t1 0.2 k, p1/t2 10-14 k; m2 p1/t2 15 k
	static churnarg CH[] = { { 0, 0 }, { 1, 0 }, { 0, 1 }, { 1, 1 }, { 2, 0 }, { 3, 0 },
		{ 2, 1 }, { 3, 1 } };
	for (int i = 0; i < 8; i++) {
		if (g_replay) {
			explore_churn(&CH[i], 1, 1);
			explore_churn(&CH[i], 1, 2);
			explore_churn(&CH[i], 2, 2);
		} else if (!T)
			explore_churn(&CH[i], 1, (i < 2 || i >= 4) ? 2 : 1);
		else
			explore_churn(&CH[i], 2, 2);
	}
	static racearg RC[] = { { 0, 0, 1 }, { 1, 0, 1 }, { 0, 1, 1 }, { 1, 1, 1 },
		{ 0, 2, 1 }, { 1, 0, 2 } };
	if (g_replay) {
		for (int i = 0; i < 6; i++) {
			explore_race(&RC[i], 2, 3);
			explore_race(&RC[i], 2, 2);
			explore_race(&RC[i], 1, 2);
			explore_race(&RC[i], 1, 1);
		}
		explore_seq("inproc", &s_init, T ? 6 : 4, T ? 5 : 3, 1);
		explore_seq("inproc-core", &s_core, T ? 7 : 5, T ? 6 : 4, 1);
	} else if (!T) {
		explore_race(&RC[0], 1, 2);
		explore_race(&RC[1], 1, 2);
		explore_race(&RC[2], 1, 1);
		explore_race(&RC[3], 1, 1);
		// quick depths 4 / 5 on an idle machine, one less under heavy load
		explore_seq("inproc", &s_init, 4, 3, 0.25);
		explore_seq("inproc-core", &s_core, 5, 4, 0.35);
	} else {
		double rr = g_rate * 0.7; // schedule runs are a little slower
		double rb = SHARE(4.0) * g_cap, r0 = used();
		for (int i = 0; i < 6; i++) {
			int    m0   = RC[i].mode == 0;
			double big  = (m0 ? 40000.0 : 200000.0) * RC[i].nsenders;
			double mid  = (m0 ? 3000.0 : 25000.0) * RC[i].nsenders;
			double room = (rb - (used() - r0)) / (6 - i);
			if (big / rr < room)
				explore_race(&RC[i], 2, 3);
			else if (mid / rr < room)
				explore_race(&RC[i], 2, 2);
			else
				explore_race(&RC[i], 1, m0 ? 2 : 1);
		}
		wrem -= 4;
		// the two deepest enumerations get what is left
		RUN("inproc", &s_init, 6, 5, 6.0);
		RUN("inproc-core", &s_core, 7, 6, 6.0);
	}

	vx_note("alphabet",
	    "%d letters: send(tag,NONBLOCK) recvA recvB asend(aio, 10 ms timeout, "
	    "2 slots) sendbuf0 sendbuf1 sleep(20 ms) sendbuf2; 'core'/'late' use "
	    "the first %d, initial sendbuf 1; final drain after every history",
	    L_N, L_CORE);
	vx_note("scenarios",
	    "inproc: PUSH + 2 nng PULL; seeded prefixes full0/full2 (pipeline "
	    "full, sendbuf 0/2), waiters (2 blocked aio senders); late: pullers "
	    "dial at their first receive; raw: 2 raw PULL peers on socket://, "
	    "tinybuf = minimal SO_SNDBUF + 3000-byte bodies");
	vx_note("depths", "%s (thorough depths are chosen from the measured "
	    "execution rate so that the tier stays under ~%d s)", g_depths,
	    (int) g_cap);
	vx_note("schedules",
	    "blocking send(s) (SENDTIMEO 50) || puller receiving (m0) / dialing "
	    "then receiving (m1) / both (m2), sendbuf 0/1; budgets in the "
	    "scenario names (p = preemptions, t = total deviations), switch<=2 "
	    "timer<=1 wake1<=1");
	vx_note("oracle",
	    "invariants: phantom, duplicate, order (happens-before per "
	    "connection), ownership on EAGAIN/ETIMEDOUT, result set, conservation "
	    "after final drain; a SENDBUF shrink may discard at most the messages "
	    "that no longer fit (C18)");
	{
		static const orc_arg OR[] = { { "C06", "pushpull", nng_push0_open, nng_pull0_open, 0 } };
		for (int i = 0; i < 1; i++)
			if (i == 0 || vx_is_thorough())
				orc_explore_tiers(&OR[i]);
	}
	{
		vx_cfg c;
		memset(&c, 0, sizeof(c));
		c.prop           = "C06";
		c.scenario       = "visitor-not-a-puller";
		c.run            = run_visitor;
		c.budget[VB_ENV] = -1;
		vx_explore(&c, NULL);
	}
	SR_PROP = "C06";
	sr_explore("C06", 2, vx_is_thorough());
	return vx_finish();
}
