// C20 - a failed allocation yields a clean error, never a crash, hang or leak.
// Every allocation of every corpus program is an ALLOC choice point; with an
// ALLOC budget of 1 the explorer runs the fault-free program once (N
// allocations) and then once per k = 1..N with the k-th allocation failing.
// Oracle: no sanitizer report / panic / deadlock / hang (engine verdicts);
// local calls return 0 or NNG_ENOMEM and succeed when retried; afterwards
// closing everything and nng_fini succeed and the allocator balance is zero.
#define _GNU_SOURCE
#include "valloc.h"
#include "vpeer.h"
#include "vs.h"
#include <nng/http.h>
#include <stdio.h>
#include <stdlib.h>
#include <string.h>
#include <unistd.h>

static int inited;
static const char *cur_call = "";

static void
lib_init(void)
{
	nng_init_params p;
	memset(&p, 0, sizeof(p));
	p.num_task_threads     = 2;
	p.max_task_threads     = 2;
	p.num_expire_threads   = 1;
	p.max_expire_threads   = 1;
	p.num_poller_threads   = 1;
	p.max_poller_threads   = 1;
	p.num_resolver_threads = 1;
	va_install(&p);
	va_choice = 1;
	if (getenv("C20_LOG")) { // investigation aid: library log on stderr of a replay
		nng_log_set_logger(nng_stderr_logger);
		nng_log_set_level(NNG_LOG_DEBUG);
	}
	int rv    = nng_init(&p);
	if (rv == 0) {
		inited = 1;
		return;
	}
	if (!(rv == NNG_ENOMEM && va_failed))
		vs_fail("C20:bad-error:nng_init", "nng_init -> %d (%s), injected=%ld", rv,
		    nng_strerror(rv), va_failed);
	// a failed nng_init must leave nothing behind and a retry must work
	va_check_balance("after failed nng_init");
	rv = nng_init(&p);
	if (rv != 0)
		vs_fail("C20:retry-fails:nng_init", "second nng_init -> %d", rv);
	inited = 1;
}

static void
lib_fini(void)
{
	vs_settle();
	if (inited)
		nng_fini();
	va_check_balance("after nng_fini");
	vs_outcome("%s", va_failed ? "injected" : "clean");
}

// a purely local call: 0, or NNG_ENOMEM when a failure was injected, and then
// the retry must succeed
#define LOCAL(call)                                                          \
	do {                                                                 \
		cur_call = #call;                                            \
		long f0_ = va_failed;                                        \
		int  rv_ = (call);                                           \
		if (rv_ == NNG_ENOMEM && va_failed > f0_) {                  \
			rv_ = (call);                                        \
			if (rv_ != 0)                                        \
				vs_fail("C20:retry-fails", "%s -> %d on retry after " \
				    "NNG_ENOMEM (site %s)", #call, rv_,      \
				    va_failed_site);                         \
		} else if (rv_ != 0) {                                       \
			char c_[120];                                        \
			snprintf(c_, sizeof(c_), "C20:bad-error:%.60s", #call); \
			char *paren_ = strchr(c_ + 14, '(');                 \
			if (paren_)                                          \
				*paren_ = 0;                                 \
			vs_fail(c_, "%s -> %d (%s), injected=%ld site %s", #call, rv_, \
			    nng_strerror(rv_), va_failed, va_failed_site);   \
		}                                                            \
	} while (0)

// a call that depends on background activity: any error is acceptable once a
// failure was injected (best-effort loss of one message or connection); in
// the fault-free run it must succeed
#define NET(call, okflag)                                                    \
	do {                                                                 \
		cur_call = #call;                                            \
		int rv_  = (call);                                           \
		okflag   = (rv_ == 0);                                       \
		if (rv_ != 0 && !va_failed)                                  \
			vs_fail("harness:fault-free", "%s -> %d (%s) without any " \
			    "injected failure", #call, rv_, nng_strerror(rv_)); \
	} while (0)

typedef int (*open_fn)(nng_socket *);
static const struct {
	const char *name;
	open_fn     open;
	int         ctx;
} PROTO[] = { { "req", nng_req0_open, 1 }, { "rep", nng_rep0_open, 1 },
	{ "pub", nng_pub0_open, 0 }, { "sub", nng_sub0_open, 1 },
	{ "push", nng_push0_open, 0 }, { "pull", nng_pull0_open, 0 },
	{ "surveyor", nng_surveyor0_open, 1 },
	{ "respondent", nng_respondent0_open, 1 }, { "pair0", nng_pair0_open, 0 },
	{ "pair1", nng_pair1_open, 0 }, { "bus", nng_bus0_open, 0 },
	{ "xreq", nng_req0_open_raw, 0 }, { "xrep", nng_rep0_open_raw, 0 },
	{ "xpub", nng_pub0_open_raw, 0 }, { "xsub", nng_sub0_open_raw, 0 },
	{ "xpush", nng_push0_open_raw, 0 }, { "xpull", nng_pull0_open_raw, 0 },
	{ "xsurveyor", nng_surveyor0_open_raw, 0 },
	{ "xrespondent", nng_respondent0_open_raw, 0 },
	{ "xpair0", nng_pair0_open_raw, 0 }, { "xpair1", nng_pair1_open_raw, 0 },
	{ "xbus", nng_bus0_open_raw, 0 }, { "pair1poly", nng_pair1_open_poly, 0 } };
#define NPROTO ((int) (sizeof(PROTO) / sizeof(PROTO[0])))

// ---- program: open / option / context / close --------------------------------
static void
prog_open(void *arg)
{
	int i = (int) (intptr_t) arg;
	lib_init();
	nng_socket s = NNG_SOCKET_INITIALIZER;
	LOCAL(PROTO[i].open(&s));
	LOCAL(nng_socket_set_ms(s, NNG_OPT_RECVTIMEO, 100));
	LOCAL(nng_socket_set_ms(s, NNG_OPT_SENDTIMEO, 100));
	(void) nng_socket_set_int(s, NNG_OPT_RECVBUF, 4);
	(void) nng_socket_set_int(s, NNG_OPT_SENDBUF, 4);
	if (PROTO[i].ctx) {
		nng_ctx c = NNG_CTX_INITIALIZER;
		LOCAL(nng_ctx_open(&c, s));
		if (strcmp(PROTO[i].name, "sub") == 0)
			LOCAL(nng_sub0_ctx_subscribe(c, "ab", 2));
		LOCAL(nng_ctx_close(c));
	}
	if (strcmp(PROTO[i].name, "sub") == 0) {
		LOCAL(nng_sub0_socket_subscribe(s, "abc", 3));
		LOCAL(nng_sub0_socket_subscribe(s, "", 0));
		(void) nng_sub0_socket_unsubscribe(s, "abc", 3);
	}
	nng_listener l = NNG_LISTENER_INITIALIZER;
	LOCAL(nng_listener_create(&l, s, "inproc://c20open"));
	LOCAL(nng_listener_start(l, 0));
	nng_dialer d = NNG_DIALER_INITIALIZER;
	LOCAL(nng_dialer_create(&d, s, "inproc://c20nobody"));
	LOCAL(nng_socket_close(s));
	lib_fini();
}

// ---- program: exchange over a transport ----------------------------------------
enum { X_REQREP, X_PUBSUB, X_PIPELINE, X_SURVEY, X_PAIR0, X_PAIR1, X_BUS, X_N };
static const char *XN[] = { "reqrep", "pubsub", "pipeline", "survey", "pair0",
	"pair1", "bus" };
enum { T_INPROC, T_IPC, T_TCP, T_WS, T_UDP, T_N };
static const char *TN[] = { "inproc", "ipc", "tcp", "ws", "udp" };
typedef struct xarg {
	int  kind, tran;
	char url[200];
} xarg;

static void
send1(nng_socket s, const char *b, int *ok)
{
	nng_msg *m = NULL;
	int      rv;
	*ok = 0;
	rv  = nng_msg_alloc(&m, 0);
	if (rv != 0) {
		if (!(rv == NNG_ENOMEM && va_failed))
			vs_fail("C20:bad-error:nng_msg_alloc", "-> %d", rv);
		return;
	}
	rv = nng_msg_append(m, b, strlen(b));
	if (rv != 0) {
		nng_msg_free(m);
		if (!(rv == NNG_ENOMEM && va_failed))
			vs_fail("C20:bad-error:nng_msg_append", "-> %d", rv);
		return;
	}
	rv = nng_sendmsg(s, m, 0);
	if (rv != 0) {
		nng_msg_free(m); // failed send leaves the message with the caller
		if (!va_failed)
			vs_fail("harness:fault-free", "send -> %d", rv);
		return;
	}
	*ok = 1;
}

static void
recv1(nng_socket s, const char *want, int *ok)
{
	nng_msg *m = NULL;
	int      rv = nng_recvmsg(s, &m, 0);
	*ok         = 0;
	if (rv != 0) {
		if (!va_failed)
			vs_fail("harness:fault-free", "recv -> %d (%s)", rv,
			    nng_strerror(rv));
		return;
	}
	if (nng_msg_len(m) != strlen(want) ||
	    memcmp(nng_msg_body(m), want, strlen(want)) != 0)
		vs_fail("C20:corrupt-after-failure", "received %zu bytes, wanted '%s'",
		    nng_msg_len(m), want);
	nng_msg_free(m);
	*ok = 1;
}

static void
prog_xchg(void *arg)
{
	xarg      *x = arg;
	nng_socket a = NNG_SOCKET_INITIALIZER, b = NNG_SOCKET_INITIALIZER;
	int        ok;
	if (x->tran == T_TCP || x->tran == T_WS || x->tran == T_UDP)
		vs_tcp_grace_us = 1500;
	lib_init();
	switch (x->kind) {
	case X_REQREP:
		LOCAL(nng_rep0_open(&a));
		LOCAL(nng_req0_open(&b));
		break;
	case X_PUBSUB:
		LOCAL(nng_pub0_open(&a));
		LOCAL(nng_sub0_open(&b));
		LOCAL(nng_sub0_socket_subscribe(b, "", 0));
		break;
	case X_PIPELINE:
		LOCAL(nng_pull0_open(&a));
		LOCAL(nng_push0_open(&b));
		break;
	case X_SURVEY:
		LOCAL(nng_respondent0_open(&a));
		LOCAL(nng_surveyor0_open(&b));
		break;
	case X_PAIR0:
		LOCAL(nng_pair0_open(&a));
		LOCAL(nng_pair0_open(&b));
		break;
	case X_PAIR1:
		LOCAL(nng_pair1_open(&a));
		LOCAL(nng_pair1_open(&b));
		break;
	default:
		LOCAL(nng_bus0_open(&a));
		LOCAL(nng_bus0_open(&b));
		break;
	}
	LOCAL(nng_socket_set_ms(a, NNG_OPT_RECVTIMEO, 300));
	LOCAL(nng_socket_set_ms(a, NNG_OPT_SENDTIMEO, 300));
	LOCAL(nng_socket_set_ms(b, NNG_OPT_RECVTIMEO, 300));
	LOCAL(nng_socket_set_ms(b, NNG_OPT_SENDTIMEO, 300));
	nng_listener l = NNG_LISTENER_INITIALIZER;
	char         url[256];
	snprintf(url, sizeof(url), "%s", x->url);
	if (x->tran == T_IPC) // one path per execution (workers run in parallel)
		snprintf(url, sizeof(url), "ipc://%s/c20-%d.sock", vx_rundir(),
		    (int) getpid());
	LOCAL(nng_listen(a, url, &l, 0));
	if (x->tran == T_TCP || x->tran == T_WS || x->tran == T_UDP) {
		int port = 0;
		LOCAL(nng_listener_get_int(l, NNG_OPT_BOUND_PORT, &port));
		snprintf(url, sizeof(url), x->tran == T_WS ? "ws://127.0.0.1:%d/c20"
		        : x->tran == T_UDP                 ? "udp://127.0.0.1:%d"
		                                           : "tcp://127.0.0.1:%d",
		    port);
	}
	NET(nng_dial(b, url, NULL, 0), ok);
	vs_settle();
	if (!ok) {
		// the connection attempt was lost to the injected failure ("best-effort loss of one
		// connection").  Neither end may be left unable to connect: with the allocator
		// healthy again the same dial succeeds within 5 virtual seconds (one accept cool-down
		// or reconnect interval at most lies in between).
		int save = va_choice, rv = -1;
		va_choice = 0;
		for (int t = 0; t < 50 && rv != 0; t++) {
			rv = nng_dial(b, url, NULL, 0);
			if (rv != 0)
				vs_sleep(100);
		}
		if (rv != 0)
			vs_fail("C20:wedged-after-failure",
			    "after the dial that hit the injected failure, 50 further nng_dial calls "
			    "over 5 s all failed (last: %s): the listener no longer accepts or the "
			    "dialing socket cannot connect any more; injected=%ld site %s",
			    nng_strerror(rv), va_failed, va_failed_site);
		va_choice = save;
		ok        = 1;
		vs_settle();
	}
	if (ok) {
		int s1, r1;
		switch (x->kind) {
		case X_REQREP:
		case X_SURVEY:
			send1(b, "ping", &s1);
			if (s1) {
				recv1(a, "ping", &r1);
				if (r1) {
					send1(a, "pong", &s1);
					if (s1)
						recv1(b, "pong", &r1);
				}
			}
			break;
		case X_PUBSUB:
			send1(a, "ping", &s1);
			if (s1)
				recv1(b, "ping", &r1);
			break;
		case X_PIPELINE:
			send1(b, "ping", &s1);
			if (s1)
				recv1(a, "ping", &r1);
			break;
		default:
			send1(a, "ping", &s1);
			if (s1)
				recv1(b, "ping", &r1);
			send1(b, "pong", &s1);
			if (s1)
				recv1(a, "pong", &r1);
			break;
		}
	}
	// option calls on connected sockets (per-pipe queues are resized, contexts consulted):
	// a failure inside one of them must come back as NNG_ENOMEM with the socket still usable
	// - the very next call takes the same locks
	if (ok) {
		static const int BV[] = { 4, 1, 9 };
		for (int i = 0; i < 3; i++) {
			nng_socket so[2] = { a, b };
			for (int j = 0; j < 2; j++) {
				const char *on[2] = { NNG_OPT_SENDBUF, NNG_OPT_RECVBUF };
				for (int q = 0; q < 2; q++) {
					long f0 = va_failed;
					int  rv = nng_socket_set_int(so[j], on[q], BV[i]);
					if (rv == NNG_ENOMEM && va_failed > f0)
						rv = nng_socket_set_int(so[j], on[q], BV[i]);
					if (rv == NNG_ENOMEM)
						vs_fail("C20:retry-fails",
						    "nng_socket_set_int(%s) -> NNG_ENOMEM on retry (site %s)",
						    on[q], va_failed_site);
					int v = 0;
					(void) nng_socket_get_int(so[j], on[q], &v);
				}
			}
		}
	}
	// "later calls behave": whatever failed above (possibly inside a call that
	// still succeeded, leaving a fallback in place), a burst of numbered
	// messages sent before the receiver looks must come out in order, each at
	// most once and intact; the lossless pairs must deliver all of them
	if (ok && x->kind != X_REQREP && x->kind != X_SURVEY) {
		nng_socket from = (x->kind == X_PIPELINE) ? b : a;
		nng_socket to   = (x->kind == X_PIPELINE) ? a : b;
		// (SP/UDP drops the oldest datagram when its receive ring is full)
		int        lossless = x->tran != T_UDP &&
		    (x->kind == X_PIPELINE || x->kind == X_PAIR0 || x->kind == X_PAIR1);
		int  save = va_choice, nsent = 0, last = 0, ngot = 0;
		char tag[8];
		va_choice = 0;
		nng_socket_set_ms(to, NNG_OPT_RECVTIMEO, 100);
		for (int i = 1; i <= 6; i++) {
			nng_msg *m;
			snprintf(tag, sizeof(tag), "n%d", i);
			if (nng_msg_alloc(&m, 0) != 0 || nng_msg_append(m, tag, 2) != 0)
				vs_fail("harness:burst", "message allocation");
			if (nng_sendmsg(from, m, 0) != 0) {
				nng_msg_free(m);
				break;
			}
			nsent = i;
		}
		vs_settle();
		for (;;) {
			nng_msg *m = NULL;
			if (nng_recvmsg(to, &m, 0) != 0)
				break;
			char  *bd = nng_msg_body(m);
			size_t bl = nng_msg_len(m);
			if (bl == 4 && (memcmp(bd, "ping", 4) == 0 || memcmp(bd, "pong", 4) == 0)) {
				nng_msg_free(m); // a straggler of the exchange above
				continue;
			}
			int k = (bl == 2 && bd[0] == 'n') ? bd[1] - '0' : -1;
			if (k < 1 || k > nsent)
				vs_fail("C20:corrupt-after-failure",
				    "burst of %d after the exchange: received %zu bytes '%.8s'",
				    nsent, bl, bl ? bd : "");
			if (k <= last)
				vs_fail("C20:misbehaves-after-failure",
				    "burst n1..n%d: n%d delivered after n%d (duplicated or "
				    "reordered), injected=%ld site %s",
				    nsent, k, last, va_failed, va_failed_site);
			last = k;
			ngot++;
			nng_msg_free(m);
			if (ngot > 8)
				break;
		}
		if (lossless && ngot != nsent && !(va_failed && x->tran != T_INPROC))
			vs_fail("C20:misbehaves-after-failure",
			    "burst: %d of %d messages arrived on a lossless pair, "
			    "injected=%ld site %s",
			    ngot, nsent, va_failed, va_failed_site);
		// and the pair is not wedged: within 5 virtual seconds (reconnects
		// included) a fresh message gets through
		int through = 0;
		for (int t = 0; t < 50 && !through; t++) {
			nng_msg *m;
			if (nng_msg_alloc(&m, 0) != 0 || nng_msg_append(m, "ctl", 3) != 0)
				vs_fail("harness:burst", "message allocation");
			if (nng_sendmsg(from, m, 0) != 0)
				nng_msg_free(m);
			for (;;) {
				if (nng_recvmsg(to, &m, 0) != 0)
					break;
				if (nng_msg_len(m) == 3 && memcmp(nng_msg_body(m), "ctl", 3) == 0)
					through = 1;
				nng_msg_free(m);
			}
		}
		if (!through)
			vs_fail("C20:wedged-after-failure",
			    "no message gets from one socket to the other any more (50 "
			    "attempts over 5 s), injected=%ld site %s",
			    va_failed, va_failed_site);
		va_choice = save;
	}
	if (ok && (x->kind == X_REQREP || x->kind == X_SURVEY)) {
		// the request/reply pairs: whatever was lost above, a fresh request is answered
		// within 5 virtual seconds with the allocator healthy
		int save = va_choice, through = 0;
		va_choice = 0;
		nng_socket_set_ms(a, NNG_OPT_RECVTIMEO, 100);
		nng_socket_set_ms(b, NNG_OPT_RECVTIMEO, 100);
		for (int t = 0; t < 25 && !through; t++) {
			nng_msg *m;
			if (nng_msg_alloc(&m, 0) != 0 || nng_msg_append(m, "rq2", 3) != 0)
				vs_fail("harness:burst", "message allocation");
			if (nng_sendmsg(b, m, 0) != 0) {
				nng_msg_free(m);
				continue;
			}
			if (nng_recvmsg(a, &m, 0) != 0)
				continue;
			int good = nng_msg_len(m) == 3 && memcmp(nng_msg_body(m), "rq2", 3) == 0;
			nng_msg_clear(m);
			if (!good || nng_msg_append(m, "rp2", 3) != 0 || nng_sendmsg(a, m, 0) != 0) {
				nng_msg_free(m);
				continue;
			}
			if (nng_recvmsg(b, &m, 0) != 0)
				continue;
			through = nng_msg_len(m) == 3 && memcmp(nng_msg_body(m), "rp2", 3) == 0;
			nng_msg_free(m);
		}
		if (!through)
			vs_fail("C20:wedged-after-failure",
			    "no request is answered any more (25 attempts over 5 s), injected=%ld "
			    "site %s",
			    va_failed, va_failed_site);
		va_choice = save;
	}
	vs_log("%s/%s allocs=%ld", XN[x->kind], TN[x->tran], va_count());
	LOCAL(nng_socket_close(a));
	LOCAL(nng_socket_close(b));
	lib_fini();
}

// ---- program: raw peer over socket:// (sockfd transport) ------------------------
static void
prog_sockfd(void *arg)
{
	(void) arg;
	lib_init();
	nng_socket   s = NNG_SOCKET_INITIALIZER;
	nng_listener l = NNG_LISTENER_INITIALIZER;
	LOCAL(nng_rep0_open(&s));
	LOCAL(nng_socket_set_ms(s, NNG_OPT_RECVTIMEO, 200));
	LOCAL(nng_listener_create(&l, s, "socket://"));
	LOCAL(nng_listener_start(l, 0));
	int fd = vp_attach_more(l);
	if (fd >= 0) {
		vs_settle();
		if (vp_handshake(fd, SP_REQ) >= 0) {
			uint8_t id[4] = { 0x80, 0, 0, 1 };
			vp_send(fd, id, 4, "hi", 2);
			vs_settle();
			int ok;
			recv1(s, "hi", &ok);
			if (ok) {
				send1(s, "yo", &ok);
				vs_settle();
			}
		}
		close(fd);
	} else if (!va_failed)
		vs_fail("harness:fault-free", "socket fd not accepted");
	vs_settle();
	LOCAL(nng_socket_close(s));
	lib_fini();
}

// ---- program: contexts --------------------------------------------------------------
static void
ctx_cb(void *arg)
{
	(void) arg;
}
static void
prog_ctx(void *arg)
{
	(void) arg;
	lib_init();
	nng_socket rep = NNG_SOCKET_INITIALIZER, req = NNG_SOCKET_INITIALIZER;
	nng_ctx    c1 = NNG_CTX_INITIALIZER, c2 = NNG_CTX_INITIALIZER;
	nng_aio   *a1 = NULL, *a2 = NULL;
	int        ok;
	LOCAL(nng_rep0_open(&rep));
	LOCAL(nng_req0_open(&req));
	LOCAL(nng_socket_set_ms(req, NNG_OPT_REQ_RESENDTIME, 50));
	LOCAL(nng_listen(rep, "inproc://c20ctx", NULL, 0));
	NET(nng_dial(req, "inproc://c20ctx", NULL, 0), ok);
	LOCAL(nng_ctx_open(&c1, req));
	LOCAL(nng_ctx_open(&c2, rep));
	LOCAL(nng_aio_alloc(&a1, ctx_cb, NULL));
	LOCAL(nng_aio_alloc(&a2, ctx_cb, NULL));
	nng_aio_set_timeout(a1, 300);
	nng_aio_set_timeout(a2, 300);
	nng_msg *m = NULL;
	if (nng_msg_alloc(&m, 4) == 0) {
		nng_aio_set_msg(a1, m);
		nng_ctx_send(c1, a1);
		nng_aio_wait(a1);
		if (nng_aio_result(a1) != 0)
			nng_msg_free(nng_aio_get_msg(a1));
		else {
			nng_ctx_recv(c2, a2);
			nng_aio_wait(a2);
			if (nng_aio_result(a2) == 0) {
				nng_aio_set_msg(a2, nng_aio_get_msg(a2));
				nng_ctx_send(c2, a2);
				nng_aio_wait(a2);
				if (nng_aio_result(a2) != 0)
					nng_msg_free(nng_aio_get_msg(a2));
				else {
					nng_ctx_recv(c1, a1);
					nng_aio_wait(a1);
					if (nng_aio_result(a1) == 0)
						nng_msg_free(nng_aio_get_msg(a1));
					else if (!va_failed)
						vs_fail("harness:fault-free",
						    "ctx reply recv -> %d",
						    nng_aio_result(a1));
				}
			} else if (!va_failed)
				vs_fail("harness:fault-free", "ctx recv -> %d",
				    nng_aio_result(a2));
		}
	}
	nng_aio_free(a1);
	nng_aio_free(a2);
	LOCAL(nng_ctx_close(c1));
	LOCAL(nng_ctx_close(c2));
	LOCAL(nng_socket_close(req));
	LOCAL(nng_socket_close(rep));
	lib_fini();
}

// ---- program: URL + stats -------------------------------------------------------------
static void
prog_url(void *arg)
{
	(void) arg;
	lib_init();
	static const char *U[] = { "http://www.example.com:8080/a/b?q#f",
		"tcp://[::1]:5555", "ipc:///tmp/some/path",
		"ws://host/0123456789012345678901234567890123456789012345678901234567890"
		"1234567890123456789012345678901234567890123456789012345678901234567890"
		"123456789" };
	for (int i = 0; i < 4; i++) {
		nng_url *u = NULL, *c = NULL;
		LOCAL(nng_url_parse(&u, U[i]));
		LOCAL(nng_url_clone(&c, u));
		char buf[400];
		nng_url_sprintf(buf, sizeof(buf), c);
		nng_url_free(u);
		nng_url_free(c);
	}
	nng_socket s = NNG_SOCKET_INITIALIZER;
	LOCAL(nng_pair0_open(&s));
	LOCAL(nng_listen(s, "inproc://c20stats", NULL, 0));
	nng_stat *st = NULL;
	LOCAL(nng_stats_get(&st));
	nng_stats_free(st);
	LOCAL(nng_socket_close(s));
	lib_fini();
}


// ---- program: nng_msg operations ----------------------------------------------------------------
// every growing operation of the message API with the allocation inside it failing: NNG_ENOMEM, the
// message unchanged (it is still the caller's and later calls use it), the retry succeeds and the
// final content is what the sequence of successful operations says
static unsigned char MB[200000], MH[80];
static size_t        MBL, MHL;

static void
msg_same(nng_msg *m, const char *when)
{
	if (nng_msg_len(m) != MBL || (MBL && memcmp(nng_msg_body(m), MB, MBL) != 0))
		vs_fail("C20:msg-changed-by-failed-call",
		    "%s: body is %zu bytes, model %zu (or content differs), site %s", when,
		    nng_msg_len(m), MBL, va_failed_site);
	if (nng_msg_header_len(m) != MHL || (MHL && memcmp(nng_msg_header(m), MH, MHL) != 0))
		vs_fail("C20:msg-changed-by-failed-call",
		    "%s: header is %zu bytes, model %zu (or content differs), site %s", when,
		    nng_msg_header_len(m), MHL, va_failed_site);
	if (nng_msg_capacity(m) < nng_msg_len(m))
		vs_fail("C20:msg-changed-by-failed-call", "%s: capacity %zu < length %zu", when,
		    nng_msg_capacity(m), nng_msg_len(m));
}

#define MSGOP(m, call, model)                                                        \
	do {                                                                         \
		long f0_ = va_failed;                                                \
		int  rv_ = (call);                                                   \
		if (rv_ == NNG_ENOMEM && va_failed > f0_) {                          \
			msg_same(m, "after NNG_ENOMEM from " #call);                 \
			rv_ = (call);                                                \
		}                                                                    \
		if (rv_ != 0)                                                        \
			vs_fail("C20:bad-error:nng_msg", "%s -> %d (%s), injected=%ld site %s", \
			    #call, rv_, nng_strerror(rv_), va_failed, va_failed_site); \
		model;                                                               \
		msg_same(m, "after " #call);                                         \
	} while (0)

static void
mb_append(const void *d, size_t n)
{
	memcpy(MB + MBL, d, n);
	MBL += n;
}
static void
mb_insert(const void *d, size_t n)
{
	memmove(MB + n, MB, MBL);
	memcpy(MB, d, n);
	MBL += n;
}

static void
prog_msg(void *arg)
{
	(void) arg;
	lib_init();
	static unsigned char pat[70000];
	for (size_t i = 0; i < sizeof(pat); i++)
		pat[i] = (unsigned char) (i * 7 + (i >> 8) + 1);
	nng_msg *m = NULL, *d = NULL, *d2 = NULL;
	MBL = MHL = 0;
	LOCAL(nng_msg_alloc(&m, 10));
	memset(MB, 0, 10);
	MBL = 10;
	memcpy(nng_msg_body(m), pat, 10);
	memcpy(MB, pat, 10);
	msg_same(m, "after alloc");
	MSGOP(m, nng_msg_append(m, pat + 10, 40), mb_append(pat + 10, 40));
	MSGOP(m, nng_msg_insert(m, pat + 100, 40), mb_insert(pat + 100, 40)); // beyond the head room
	MSGOP(m, nng_msg_header_append_u32(m, 0x80000001u), (memcpy(MH + MHL, "\x80\0\0\1", 4), MHL += 4));
	MSGOP(m, nng_msg_insert_u64(m, 0x0102030405060708ull),
	    mb_insert("\1\2\3\4\5\6\7\10", 8));
	LOCAL(nng_msg_dup(&d, m));
	if (nng_msg_len(d) != MBL || memcmp(nng_msg_body(d), MB, MBL) != 0 ||
	    nng_msg_header_len(d) != MHL || memcmp(nng_msg_header(d), MH, MHL) != 0)
		vs_fail("C20:corrupt-after-failure", "nng_msg_dup: copy differs from its original");
	msg_same(m, "after nng_msg_dup");
	MSGOP(m, nng_msg_realloc(m, 5000), (memset(MB + MBL, 0, 5000 - MBL), MBL = 5000));
	MSGOP(m, nng_msg_reserve(m, 20000), (void) 0);
	MSGOP(m, nng_msg_append(m, pat, 70000), mb_append(pat, 70000));
	MSGOP(m, nng_msg_trim(m, 4990), (memmove(MB, MB + 4990, MBL - 4990), MBL -= 4990));
	MSGOP(m, nng_msg_insert(m, pat + 7, 33), mb_insert(pat + 7, 33));
	MSGOP(m, nng_msg_insert(m, pat + 9, 5000), mb_insert(pat + 9, 5000));
	MSGOP(m, nng_msg_chop(m, 60000), MBL -= 60000);
	MSGOP(m, nng_msg_realloc(m, 3), MBL = 3);
	MSGOP(m, nng_msg_append_u16(m, 0xbeef), mb_append("\xbe\xef", 2));
	LOCAL(nng_msg_dup(&d2, m));
	nng_msg_clear(d2);
	msg_same(m, "after clearing a duplicate");
	// the first duplicate is independent of everything done to the original since
	if (nng_msg_len(d) != 98 || memcmp((char *) nng_msg_body(d) + 8, pat + 100, 40) != 0)
		vs_fail("C20:corrupt-after-failure", "first duplicate changed: %zu bytes", nng_msg_len(d));
	nng_msg_free(d);
	nng_msg_free(d2);
	nng_msg_free(m);
	lib_fini();
}

// ---- program: byte-stream API (tcp, ipc) -------------------------------------------------------
static int
aio_done_ok(nng_aio *a)
{
	nng_aio_wait(a);
	return nng_aio_result(a);
}

// one connection through dialer sd / listener sl; returns 0 and both streams, or the error
static int
stream_connect(nng_stream_dialer *sd, nng_stream_listener *sl, nng_aio *da, nng_aio *aa,
    nng_stream **c1, nng_stream **c2)
{
	*c1 = *c2 = NULL;
	nng_aio_set_timeout(da, 1000);
	nng_aio_set_timeout(aa, 1000);
	nng_stream_listener_accept(sl, aa);
	nng_stream_dialer_dial(sd, da);
	int r1 = aio_done_ok(da), r2 = aio_done_ok(aa);
	if (r1 == 0)
		*c1 = nng_aio_get_output(da, 0);
	if (r2 == 0)
		*c2 = nng_aio_get_output(aa, 0);
	if (r1 == 0 && r2 == 0)
		return 0;
	if (*c1) {
		nng_stream_close(*c1);
		nng_stream_free(*c1);
	}
	if (*c2) {
		nng_stream_close(*c2);
		nng_stream_free(*c2);
	}
	*c1 = *c2 = NULL;
	return r1 ? r1 : r2;
}

static int
stream_xfer(nng_stream *from, nng_stream *to, nng_aio *sa, nng_aio *ra, const char *txt)
{
	char    buf[32];
	size_t  n = strlen(txt), got = 0;
	nng_iov iov;
	iov.iov_buf = (void *) txt;
	iov.iov_len = n;
	nng_aio_set_timeout(sa, 1000);
	nng_aio_set_timeout(ra, 1000);
	if (nng_aio_set_iov(sa, 1, &iov) != 0)
		vs_fail("harness:stream", "set_iov");
	nng_stream_send(from, sa);
	int rv = aio_done_ok(sa);
	if (rv != 0)
		return rv;
	if (nng_aio_count(sa) != n)
		return -1; // short write of a few bytes on a fresh connection: not expected
	while (got < n) {
		iov.iov_buf = buf + got;
		iov.iov_len = n - got;
		nng_aio_set_iov(ra, 1, &iov);
		nng_stream_recv(to, ra);
		rv = aio_done_ok(ra);
		if (rv != 0)
			return rv;
		got += nng_aio_count(ra);
	}
	if (memcmp(buf, txt, n) != 0)
		vs_fail("C20:corrupt-after-failure", "byte stream delivered other bytes than were sent");
	return 0;
}

static void
prog_stream(void *arg)
{
	int  tran = (int) (intptr_t) arg; // T_TCP or T_IPC
	char url[256];
	if (tran == T_TCP)
		vs_tcp_grace_us = 1500;
	lib_init();
	nng_stream_listener *sl = NULL;
	nng_stream_dialer   *sd = NULL;
	nng_aio             *da = NULL, *aa = NULL, *sa = NULL, *ra = NULL;
	nng_stream          *c1, *c2;
	if (tran == T_TCP)
		snprintf(url, sizeof(url), "tcp://127.0.0.1:0");
	else
		snprintf(url, sizeof(url), "ipc://%s/c20s-%d.sock", vx_rundir(), (int) getpid());
	LOCAL(nng_stream_listener_alloc(&sl, url));
	LOCAL(nng_stream_listener_listen(sl));
	if (tran == T_TCP) {
		int port = 0;
		LOCAL(nng_stream_listener_get_int(sl, NNG_OPT_BOUND_PORT, &port));
		snprintf(url, sizeof(url), "tcp://127.0.0.1:%d", port);
	}
	LOCAL(nng_stream_dialer_alloc(&sd, url));
	LOCAL(nng_aio_alloc(&da, NULL, NULL));
	LOCAL(nng_aio_alloc(&aa, NULL, NULL));
	LOCAL(nng_aio_alloc(&sa, NULL, NULL));
	LOCAL(nng_aio_alloc(&ra, NULL, NULL));
	int rv = stream_connect(sd, sl, da, aa, &c1, &c2);
	if (rv != 0 && !va_failed)
		vs_fail("harness:fault-free", "stream connect -> %d (%s)", rv, nng_strerror(rv));
	if (rv == 0) {
		rv = stream_xfer(c1, c2, sa, ra, "hello");
		if (rv == 0)
			rv = stream_xfer(c2, c1, sa, ra, "world!");
		if (rv != 0 && !va_failed)
			vs_fail("harness:fault-free", "stream transfer -> %d", rv);
		nng_stream_close(c1);
		nng_stream_close(c2);
		nng_stream_free(c1);
		nng_stream_free(c2);
	}
	// later calls behave: with the allocator healthy the same dialer and listener connect again
	// (a connection left over from a failed accept may be consumed first) and carry data
	{
		int save = va_choice;
		va_choice = 0;
		rv        = -1;
		for (int t = 0; t < 5 && rv != 0; t++) {
			rv = stream_connect(sd, sl, da, aa, &c1, &c2);
			if (rv == 0) {
				rv = stream_xfer(c1, c2, sa, ra, "again");
				nng_stream_close(c1);
				nng_stream_close(c2);
				nng_stream_free(c1);
				nng_stream_free(c2);
			}
		}
		if (rv != 0)
			vs_fail("C20:wedged-after-failure",
			    "stream dialer/listener: five connect+transfer attempts with a healthy "
			    "allocator all failed (last %d %s), injected=%ld site %s",
			    rv, rv > 0 ? nng_strerror(rv) : "short", va_failed, va_failed_site);
		va_choice = save;
	}
	nng_aio_free(da);
	nng_aio_free(aa);
	nng_aio_free(sa);
	nng_aio_free(ra);
	nng_stream_dialer_close(sd);
	nng_stream_listener_close(sl);
	nng_stream_dialer_free(sd);
	nng_stream_listener_free(sl);
	lib_fini();
}

// ---- program: HTTP server and client objects ---------------------------------------------------
static void
c20_h_cb(nng_http *conn, void *arg, nng_aio *aio)
{
	(void) arg;
	nng_http_set_status(conn, NNG_HTTP_STATUS_OK, NULL);
	const char *tok = nng_http_get_header(conn, "X-Token");
	char        b[64];
	snprintf(b, sizeof(b), "dynamic%s%.40s", tok ? ":" : "", tok ? tok : "");
	int rv = nng_http_copy_body(conn, b, strlen(b));
	if (rv == 0)
		rv = nng_http_set_header(conn, "X-C20", "yes");
	nng_aio_finish(aio, rv);
}

// a client connection whose request is edited several times before it is sent: long URIs (beyond
// the connection's inline buffer) replaced by other long URIs, a header replaced and extended; an
// edit that fails with NNG_ENOMEM is retried, and the request that finally goes out is the one the
// successful edits describe
static int
http_edited_get(nng_http_client *cli, nng_aio *aio, int *st, char *body, size_t bsz)
{
	nng_http *conn;
	int       rv;
	char      l1[300], l2[320];
	memset(l1, 'a', sizeof(l1) - 1);
	memset(l2, 'b', sizeof(l2) - 1);
	l1[0] = l2[0] = '/';
	l1[sizeof(l1) - 1] = l2[sizeof(l2) - 1] = 0;
	nng_aio_set_timeout(aio, 1000);
	nng_http_client_connect(cli, aio);
	if ((rv = aio_done_ok(aio)) != 0)
		return rv;
	conn = nng_aio_get_output(aio, 0);
	LOCAL(nng_http_set_uri(conn, l1, NULL));
	LOCAL(nng_http_set_uri(conn, l2, "k=v"));
	LOCAL(nng_http_set_header(conn, "X-Token", "one"));
	LOCAL(nng_http_set_header(conn, "X-Token", "two"));
	LOCAL(nng_http_add_header(conn, "X-Token", "three"));
	LOCAL(nng_http_set_header(conn, "X-Other", "o"));
	nng_http_del_header(conn, "X-Other");
	LOCAL(nng_http_set_uri(conn, "/dyn", NULL));
	if (strcmp(nng_http_get_uri(conn), "/dyn") != 0)
		vs_fail("C20:misbehaves-after-failure", "request URI is \"%.40s\" after set_uri(\"/dyn\")",
		    nng_http_get_uri(conn));
	nng_aio_set_timeout(aio, 1000);
	nng_http_transact(conn, aio);
	if ((rv = aio_done_ok(aio)) == 0) {
		void  *b;
		size_t n;
		*st = (int) nng_http_get_status(conn);
		nng_http_get_body(conn, &b, &n);
		if (n >= bsz)
			n = bsz - 1;
		memcpy(body, b, n);
		body[n] = 0;
	}
	nng_http_close(conn);
	return rv;
}

// GET path over a fresh connection: 0 = transaction completed (status and body in *st, body),
// otherwise the error
static int
http_get(nng_http_client *cli, nng_aio *aio, const char *path, int *st, char *body, size_t bsz)
{
	nng_http *conn;
	int       rv;
	nng_aio_set_timeout(aio, 1000);
	nng_http_client_connect(cli, aio);
	if ((rv = aio_done_ok(aio)) != 0)
		return rv;
	conn = nng_aio_get_output(aio, 0);
	if ((rv = nng_http_set_uri(conn, path, NULL)) != 0) {
		nng_http_close(conn);
		return rv;
	}
	nng_aio_set_timeout(aio, 1000);
	nng_http_transact(conn, aio);
	if ((rv = aio_done_ok(aio)) == 0) {
		void  *b;
		size_t n;
		*st = (int) nng_http_get_status(conn);
		nng_http_get_body(conn, &b, &n);
		if (n >= bsz)
			n = bsz - 1;
		memcpy(body, b, n);
		body[n] = 0;
	}
	nng_http_close(conn);
	return rv;
}

static void
prog_http(void *arg)
{
	(void) arg;
	vs_tcp_grace_us = 1500;
	lib_init();
	nng_url          *u = NULL, *cu = NULL;
	nng_http_server  *srv = NULL;
	nng_http_handler *h = NULL, *hs = NULL, *hr = NULL;
	nng_http_client  *cli = NULL;
	nng_aio          *aio = NULL;
	int               port = 0, st = 0, rv;
	char              body[64], curl[64];
	LOCAL(nng_url_parse(&u, "http://127.0.0.1:0"));
	LOCAL(nng_http_server_hold(&srv, u));
	LOCAL(nng_http_handler_alloc(&h, "/dyn", c20_h_cb));
	LOCAL(nng_http_server_add_handler(srv, h));
	LOCAL(nng_http_handler_alloc_static(&hs, "/static", "static-body", 11, "text/plain"));
	LOCAL(nng_http_server_add_handler(srv, hs));
	LOCAL(nng_http_handler_alloc_redirect(&hr, "/old", 301, "/static"));
	LOCAL(nng_http_server_add_handler(srv, hr));
	LOCAL(nng_http_server_set_error_page(srv, NNG_HTTP_STATUS_NOT_FOUND, "<b>nope</b>"));
	LOCAL(nng_http_server_start(srv));
	LOCAL(nng_http_server_get_port(srv, &port));
	snprintf(curl, sizeof(curl), "http://127.0.0.1:%d", port);
	LOCAL(nng_url_parse(&cu, curl));
	LOCAL(nng_http_client_alloc(&cli, cu));
	LOCAL(nng_aio_alloc(&aio, NULL, NULL));
	static const struct {
		const char *path;
		int         st;
		const char *body;
	} G[] = { { "/dyn", 200, "dynamic" }, { "/static", 200, "static-body" },
		{ "/old", 301, NULL }, { "/missing", 404, "<b>nope</b>" },
		{ "(edited request)", 200, "dynamic:two, three" } };
	for (int pass = 0; pass < 2; pass++) {
		// pass 0 with the failing allocation somewhere, pass 1 with a healthy allocator: every
		// handler answers as configured ("does not leave the object in a state where later calls
		// misbehave")
		int save = va_choice;
		if (pass == 1)
			va_choice = 0;
		for (int i = 0; i < 5; i++) {
			long f0 = va_failed;
			rv      = i == 4 ? http_edited_get(cli, aio, &st, body, sizeof(body))
			                 : http_get(cli, aio, G[i].path, &st, body, sizeof(body));
			if (rv != 0) {
				if (pass == 0 && va_failed)
					continue; // best-effort loss of one connection
				// one connection attempt of the healthy pass may still meet what the failure
				// left in the accept queue
				if (pass == 1 && va_failed)
					rv = i == 4 ? http_edited_get(cli, aio, &st, body, sizeof(body))
					            : http_get(cli, aio, G[i].path, &st, body, sizeof(body));
				if (rv != 0)
					vs_fail(pass ? "C20:wedged-after-failure" : "harness:fault-free",
					    "GET %s -> %d (%s), injected=%ld site %s", G[i].path, rv,
					    nng_strerror(rv), va_failed, va_failed_site);
			}
			if (pass == 0 && va_failed > f0)
				continue; // the request that met the failure: an error status or a bare answer
				          // is the best-effort loss; what counts is the next pass
			if (st != G[i].st || (G[i].body && strcmp(body, G[i].body) != 0))
				vs_fail("C20:misbehaves-after-failure",
				    "GET %s answered %d \"%s\", configured %d \"%s\" (pass %d), injected=%ld "
				    "site %s",
				    G[i].path, st, body, G[i].st, G[i].body ? G[i].body : "", pass,
				    va_failed, va_failed_site);
		}
		va_choice = save;
	}
	nng_aio_free(aio);
	nng_http_client_free(cli);
	nng_http_server_stop(srv);
	nng_http_server_release(srv);
	nng_url_free(u);
	nng_url_free(cu);
	lib_fini();
}

// ---- program: string options and statistics of a connected pair -------------------------------------
static void
prog_wsopts(void *arg)
{
	(void) arg;
	vs_tcp_grace_us = 1500;
	lib_init();
	nng_socket   a = NNG_SOCKET_INITIALIZER, b = NNG_SOCKET_INITIALIZER;
	nng_listener l = NNG_LISTENER_INITIALIZER;
	nng_dialer   d = NNG_DIALER_INITIALIZER;
	char         url[80];
	int          port = 0, ok;
	LOCAL(nng_pair0_open(&a));
	LOCAL(nng_pair0_open(&b));
	LOCAL(nng_socket_set_ms(a, NNG_OPT_RECVTIMEO, 300));
	LOCAL(nng_socket_set_ms(b, NNG_OPT_RECVTIMEO, 300));
	LOCAL(nng_socket_set_ms(a, NNG_OPT_SENDTIMEO, 300));
	LOCAL(nng_socket_set_ms(b, NNG_OPT_SENDTIMEO, 300));
	LOCAL(nng_listener_create(&l, a, "ws://127.0.0.1:0/c20o"));
	LOCAL(nng_listener_set_string(l, NNG_OPT_WS_HEADER "X-Server", "srv-value"));
	LOCAL(nng_listener_set_string(l, NNG_OPT_WS_HEADER "X-Server2", "srv-two"));
	LOCAL(nng_listener_set_string(l, NNG_OPT_WS_HEADER "X-Server", "srv-again")); // replace
	LOCAL(nng_listener_start(l, 0));
	LOCAL(nng_listener_get_int(l, NNG_OPT_BOUND_PORT, &port));
	snprintf(url, sizeof(url), "ws://127.0.0.1:%d/c20o", port);
	LOCAL(nng_dialer_create(&d, b, url));
	LOCAL(nng_dialer_set_string(d, NNG_OPT_WS_HEADER "X-Client", "cli-value"));
	LOCAL(nng_dialer_set_string(d, NNG_OPT_WS_HEADER "X-Client", "cli-again"));
	NET(nng_dialer_start(d, 0), ok);
	vs_settle();
	if (!ok) {
		int save = va_choice, rv = -1;
		va_choice = 0;
		for (int t = 0; t < 50 && rv != 0; t++) {
			rv = nng_dialer_start(d, 0);
			if (rv == NNG_ESTATE) // the failed start left it started: it redials by itself
				rv = 0;
			if (rv != 0)
				vs_sleep(100);
		}
		if (rv != 0)
			vs_fail("C20:wedged-after-failure", "dialer never starts again: %s, site %s",
			    nng_strerror(rv), va_failed_site);
		vs_sleep(300);
		va_choice = save;
	}
	int s1 = 0, r1 = 0;
	send1(b, "ping", &s1);
	if (s1)
		recv1(a, "ping", &r1);
	if (r1) {
		// the headers configured above are what the peer saw
		nng_msg *m = NULL;
		send1(a, "pong", &s1);
		if (s1 && nng_recvmsg(b, &m, 0) == 0) {
			nng_pipe    p = nng_msg_get_pipe(m);
			const char *v = NULL;
			int         rv = nng_pipe_get_string(p, NNG_OPT_WS_HEADER "X-Server", &v);
			if (rv == 0 && strcmp(v, "srv-again") != 0)
				vs_fail("C20:misbehaves-after-failure",
				    "X-Server seen by the dialer is \"%s\", configured \"srv-again\"; site %s",
				    v, va_failed_site);
			if (rv != 0 && !va_failed)
				vs_fail("harness:fault-free", "pipe header X-Server -> %d", rv);
			rv = nng_pipe_get_string(p, NNG_OPT_WS_HEADER "X-Server2", &v);
			if (rv == 0 && strcmp(v, "srv-two") != 0)
				vs_fail("C20:misbehaves-after-failure",
				    "X-Server2 seen by the dialer is \"%s\", configured \"srv-two\"; site %s",
				    v, va_failed_site);
			if (rv != 0 && !va_failed)
				vs_fail("harness:fault-free", "pipe header X-Server2 -> %d", rv);
			nng_msg_free(m);
		}
	}
	// statistics of connected sockets (dialer, listener and pipe children)
	nng_stat *st = NULL;
	LOCAL(nng_stats_get(&st));
	if (nng_stat_find_socket(st, a) == NULL || nng_stat_find_listener(st, l) == NULL ||
	    nng_stat_find_dialer(st, d) == NULL)
		vs_fail("C20:misbehaves-after-failure", "statistics snapshot lacks a live socket / endpoint");
	nng_stats_free(st);
	LOCAL(nng_socket_close(a));
	LOCAL(nng_socket_close(b));
	lib_fini();
}


// ---- program: a further peer connects to a listener that already serves one ------------------------------
// PUB listener with subscriber B connected and receiving; subscriber C opens, subscribes and dials with the
// failing allocation somewhere on either side.  Whatever was lost to it (C's connection, one message), with a
// healthy allocator afterwards C connects (again) and both subscribers receive what is published
static int
sub_gets(nng_socket s, const char *want)
{
	for (int i = 0; i < 8; i++) { // older messages may still be queued
		nng_msg *m = NULL;
		if (nng_recvmsg(s, &m, 0) != 0)
			return 0;
		int ok = nng_msg_len(m) == strlen(want) && memcmp(nng_msg_body(m), want, strlen(want)) == 0;
		nng_msg_free(m);
		if (ok)
			return 1;
	}
	return 0;
}
static void
prog_second_peer(void *arg)
{
	int        tcp = (int) (intptr_t) arg;
	nng_socket a = NNG_SOCKET_INITIALIZER, b = NNG_SOCKET_INITIALIZER, c = NNG_SOCKET_INITIALIZER;
	nng_listener l;
	char       url[80];
	int        ok, s1;
	if (tcp)
		vs_tcp_grace_us = 1500;
	lib_init();
	{
		int save = va_choice; // the first subscriber is set up with a healthy allocator
		va_choice = 0;
		LOCAL(nng_pub0_open(&a));
		LOCAL(nng_sub0_open(&b));
		LOCAL(nng_sub0_socket_subscribe(b, "", 0));
		LOCAL(nng_socket_set_ms(b, NNG_OPT_RECVTIMEO, 100));
		LOCAL(nng_listen(a, tcp ? "tcp://127.0.0.1:0" : "inproc://c20second", &l, 0));
		if (tcp) {
			int port = 0;
			LOCAL(nng_listener_get_int(l, NNG_OPT_BOUND_PORT, &port));
			snprintf(url, sizeof(url), "tcp://127.0.0.1:%d", port);
		} else
			snprintf(url, sizeof(url), "inproc://c20second");
		LOCAL(nng_dial(b, url, NULL, 0));
		vs_settle();
		send1(a, "one", &s1);
		vs_settle();
		if (!s1 || !sub_gets(b, "one"))
			vs_fail("harness:fault-free", "first subscriber does not receive");
		va_choice = save;
	}
	LOCAL(nng_sub0_open(&c));
	LOCAL(nng_sub0_socket_subscribe(c, "", 0));
	LOCAL(nng_socket_set_ms(c, NNG_OPT_RECVTIMEO, 100));
	NET(nng_dial(c, url, NULL, 0), ok);
	vs_settle();
	send1(a, "two", &s1);
	vs_settle();
	if (s1 && !va_failed && (!sub_gets(b, "two") || !sub_gets(c, "two")))
		vs_fail("harness:fault-free", "message two not received by both");
	// healthy epilogue
	{
		int save = va_choice, rv = ok ? 0 : -1, got_b = 0, got_c = 0;
		va_choice = 0;
		for (int t = 0; t < 50 && rv != 0; t++) {
			rv = nng_dial(c, url, NULL, 0);
			if (rv != 0)
				vs_sleep(100);
		}
		if (rv != 0)
			vs_fail("C20:wedged-after-failure",
			    "a second subscriber whose first dial met the injected failure cannot connect in 5 s "
			    "(%s); site %s", nng_strerror(rv), va_failed_site);
		vs_settle();
		for (int t = 0; t < 50 && !(got_b && got_c); t++) {
			char tag[16];
			snprintf(tag, sizeof(tag), "late%02d", t);
			send1(a, tag, &s1);
			vs_settle();
			if (!got_b)
				got_b = sub_gets(b, tag);
			if (!got_c)
				got_c = sub_gets(c, tag);
			if (!(got_b && got_c))
				vs_sleep(100);
		}
		if (!got_b || !got_c)
			vs_fail("C20:wedged-after-failure",
			    "after the failure met while a second subscriber connected, the %s subscriber receives "
			    "nothing of 50 messages published over 5 s; site %s",
			    !got_b ? "FIRST (already connected)" : "second", va_failed_site);
		va_choice = save;
	}
	LOCAL(nng_socket_close(c));
	LOCAL(nng_socket_close(b));
	LOCAL(nng_socket_close(a));
	lib_fini();
}


// ---- program: endpoints of every stream transport created, started, closed and created again ---------------
// nng_listen / nng_dial (NNG_FLAG_NONBLOCK: nobody listens there) over ipc, tcp and websocket before any peer
// exists, closed one by one, then the same again on the same socket: a failure in the first round must not
// leave the socket, the address or the transport in a state in which the second round misbehaves
static void
prog_endpoints(void *arg)
{
	(void) arg;
	vs_tcp_grace_us = 1500;
	lib_init();
	nng_socket s = NNG_SOCKET_INITIALIZER;
	LOCAL(nng_pair0_open(&s));
	LOCAL(nng_socket_set_ms(s, NNG_OPT_RECONNMINT, 50));
	LOCAL(nng_socket_set_ms(s, NNG_OPT_RECONNMAXT, 50));
	char ipcurl[200], url[200];
	snprintf(ipcurl, sizeof(ipcurl), "ipc://%s/c20ep-%d.sock", vx_rundir(), (int) getpid());
	for (int round = 0; round < 2; round++) {
		static const char *LU[] = { NULL, "tcp://127.0.0.1:0", "ws://127.0.0.1:0/c20ep" };
		for (int t = 0; t < 3; t++) {
			nng_listener l = NNG_LISTENER_INITIALIZER;
			nng_dialer   d = NNG_DIALER_INITIALIZER;
			int          port = 0;
			LOCAL(nng_listen(s, t == 0 ? ipcurl : LU[t], &l, 0));
			if (t) {
				LOCAL(nng_listener_get_int(l, NNG_OPT_BOUND_PORT, &port));
				snprintf(url, sizeof(url), t == 1 ? "tcp://127.0.0.1:%d" : "ws://127.0.0.1:%d/c20ep", 1);
			} else
				snprintf(url, sizeof(url), "ipc://%s/c20ep-nobody-%d.sock", vx_rundir(), (int) getpid());
			(void) port;
			LOCAL(nng_dial(s, url, &d, NNG_FLAG_NONBLOCK)); // nobody there: it keeps redialling
			vs_settle();
			vs_sleep(60); // one redial
			vs_settle();
			LOCAL(nng_dialer_close(d));
			LOCAL(nng_listener_close(l));
			vs_settle();
		}
	}
	LOCAL(nng_socket_close(s));
	lib_fini();
}

// ---- program: device ---------------------------------------------------------------------
static void
prog_device(void *arg)
{
	(void) arg;
	lib_init();
	nng_socket f = NNG_SOCKET_INITIALIZER, b = NNG_SOCKET_INITIALIZER,
	           req = NNG_SOCKET_INITIALIZER, rep = NNG_SOCKET_INITIALIZER;
	nng_aio *da = NULL;
	int      ok, ok2;
	LOCAL(nng_rep0_open_raw(&f));
	LOCAL(nng_req0_open_raw(&b));
	LOCAL(nng_req0_open(&req));
	LOCAL(nng_rep0_open(&rep));
	LOCAL(nng_socket_set_ms(req, NNG_OPT_RECVTIMEO, 300));
	LOCAL(nng_socket_set_ms(req, NNG_OPT_SENDTIMEO, 300));
	LOCAL(nng_socket_set_ms(rep, NNG_OPT_RECVTIMEO, 300));
	LOCAL(nng_socket_set_ms(rep, NNG_OPT_SENDTIMEO, 300));
	LOCAL(nng_listen(f, "inproc://c20dev-f", NULL, 0));
	LOCAL(nng_listen(rep, "inproc://c20dev-b", NULL, 0));
	NET(nng_dial(b, "inproc://c20dev-b", NULL, 0), ok);
	NET(nng_dial(req, "inproc://c20dev-f", NULL, 0), ok2);
	LOCAL(nng_aio_alloc(&da, NULL, NULL));
	nng_device_aio(da, f, b);
	vs_settle();
	if (ok && ok2) {
		int s1, r1;
		send1(req, "ping", &s1);
		if (s1) {
			recv1(rep, "ping", &r1);
			if (r1) {
				send1(rep, "pong", &s1);
				if (s1)
					recv1(req, "pong", &r1);
			}
		}
	}
	nng_aio_cancel(da);
	nng_aio_wait(da);
	nng_aio_free(da);
	LOCAL(nng_socket_close(req));
	LOCAL(nng_socket_close(rep));
	(void) nng_socket_close(f); // a stopped device may have closed these
	(void) nng_socket_close(b);
	lib_fini();
}

// ---- program: init / fini only --------------------------------------------------------------
static void
prog_init(void *arg)
{
	(void) arg;
	lib_init();
	lib_fini();
}

static void
explore(const char *name, void (*fn)(void *), void *arg)
{
	if (vx_time_left() < 15)
		return;
	vx_cfg c;
	memset(&c, 0, sizeof(c));
	c.prop     = "C20";
	c.scenario = name;
	c.run      = fn;
	c.arg      = arg;
	for (int i = 0; i < VB_NB; i++)
		c.budget[i] = 0;
	c.budget[VB_ALLOC] = 1;
	c.budget[VB_ENV]   = -1;
	c.total            = 1;
	c.watchdog_s       = 15;
	vx_explore(&c, NULL);
}

int
main(int argc, char **argv)
{
	vx_init(argc, argv, "C20");
	int T = vx_is_thorough();
	explore("init-fini", prog_init, NULL);
	for (int i = 0; i < NPROTO; i++) {
		char name[40];
		snprintf(name, sizeof(name), "open-%s", PROTO[i].name);
		explore(strdup(name), prog_open, (void *) (intptr_t) i);
	}
	explore("contexts", prog_ctx, NULL);
	explore("url-stats", prog_url, NULL);
	explore("device", prog_device, NULL);
	explore("msg-ops", prog_msg, NULL);
	explore("endpoints-ipc-tcp-ws-twice", prog_endpoints, NULL);
	explore("second-peer-inproc", prog_second_peer, (void *) 0);
	explore("second-peer-tcp", prog_second_peer, (void *) 1);
	explore("stream-ipc", prog_stream, (void *) (intptr_t) T_IPC);
	explore("stream-tcp", prog_stream, (void *) (intptr_t) T_TCP);
	explore("http-server-client", prog_http, NULL);
	explore("ws-options-stats", prog_wsopts, NULL);
	explore("sockfd-raw", prog_sockfd, NULL);
	static xarg X[X_N * T_N];
	int         nx = 0;
	for (int k = 0; k < X_N; k++)
		for (int t = 0; t < T_N; t++) {
			if (!T && !(t == T_INPROC || k == X_REQREP || k == X_PUBSUB ||
			        (k == X_BUS && t == T_WS)))
				continue; // quick: inproc for all; req/rep and pub/sub
				          // over every transport
			if (t == T_UDP && (k == X_BUS))
				continue;
			xarg *x = &X[nx++];
			x->kind = k;
			x->tran = t;
			switch (t) {
			case T_INPROC:
				snprintf(x->url, sizeof(x->url), "inproc://c20-%s", XN[k]);
				break;
			case T_IPC:
				snprintf(x->url, sizeof(x->url), "ipc://%s/c20-%s.sock",
				    vx_rundir(), XN[k]);
				break;
			case T_TCP:
				snprintf(x->url, sizeof(x->url), "tcp://127.0.0.1:0");
				break;
			case T_WS:
				snprintf(x->url, sizeof(x->url), "ws://127.0.0.1:0/c20");
				break;
			default:
				snprintf(x->url, sizeof(x->url), "udp://127.0.0.1:0");
				break;
			}
			char name[60];
			snprintf(name, sizeof(name), "xchg-%s-%s", XN[k], TN[t]);
			explore(strdup(name), prog_xchg, x);
		}
	vx_note("corpus",
	    "init/fini; open+options+context+listener/dialer create+close per "
	    "protocol (%s); REQ/REP contexts with aio; URL parse/clone/sprintf + "
	    "stats snapshot; device; raw peer over socket://; request/reply or "
	    "one-way exchange for 7 protocol pairs over %s",
	    "all cooked and raw",
	    T ? "inproc, ipc, tcp, ws, udp"
	      : "inproc; req/rep and pub/sub also over ipc, tcp, ws, udp");
	return vx_finish();
}
