// C20 - a failed allocation yields a clean error, never a crash, hang or leak.
// Every allocation of every corpus program is an ALLOC choice point; with an
// ALLOC budget of 1 the explorer runs the fault-free program once (N
// allocations) and then once per k = 1..N with the k-th allocation failing.
// Oracle: no sanitizer report / panic / deadlock / hang (engine verdicts);
// local calls return 0 or NNG_ENOMEM and succeed when retried; afterwards
// closing everything and nng_fini succeed and the allocator balance is zero.
#define _GNU_SOURCE
#include "valloc.h"
#include "vpeer.h"
#include "vs.h"
#include <nng/http.h>
#include <stdio.h>
#include <stdlib.h>
#include <string.h>
#include <unistd.h>

static int inited;
static const char *cur_call = "";

static void
lib_init(void)
{
	nng_init_params p;
	memset(&p, 0, sizeof(p));
	p.num_task_threads     = 2;
	p.max_task_threads     = 2;
	p.num_expire_threads   = 1;
	p.max_expire_threads   = 1;
	p.num_poller_threads   = 1;
	p.max_poller_threads   = 1;
	p.num_resolver_threads = 1;
	va_install(&p);
	va_choice = 1;
	if (getenv("C20_LOG")) { // investigation aid: library log on stderr of a replay
		nng_log_set_logger(nng_stderr_logger);
		nng_log_set_level(NNG_LOG_DEBUG);
	}
	int rv    = nng_init(&p);
	if (rv == 0) {
		inited = 1;
		return;
	}
	if (!(rv == NNG_ENOMEM && va_failed))
		vs_fail("C20:bad-error:nng_init", "nng_init -> %d (%s), injected=%ld", rv,
		    nng_strerror(rv), va_failed);
	// a failed nng_init must leave nothing behind and a retry must work
	va_check_balance("after failed nng_init");
	rv = nng_init(&p);
	if (rv != 0)
		vs_fail("C20:retry-fails:nng_init", "second nng_init -> %d", rv);
	inited = 1;
}

static void
lib_fini(void)
{
	vs_settle();
	if (inited)
		nng_fini();
	va_check_balance("after nng_fini");
	vs_outcome("%s", va_failed ? "injected" : "clean");
}

// a purely local call: 0, or NNG_ENOMEM when a failure was injected, and then
// the retry must succeed
#define LOCAL(call)                                                          \
	do {                                                                 \
		cur_call = #call;                                            \
		long f0_ = va_failed;                                        \
		int  rv_ = (call);                                           \
		if (rv_ == NNG_ENOMEM && va_failed > f0_) {                  \
			rv_ = (call);                                        \
			if (rv_ != 0)                                        \
				vs_fail("C20:retry-fails", "%s -> %d on retry after " \
				    "NNG_ENOMEM (site %s)", #call, rv_,      \
				    va_failed_site);                         \
		} else if (rv_ != 0) {                                       \
			char c_[120];                                        \
			snprintf(c_, sizeof(c_), "C20:bad-error:%.60s", #call); \
			char *paren_ = strchr(c_ + 14, '(');                 \
			if (paren_)                                          \
				*paren_ = 0;                                 \
			vs_fail(c_, "%s -> %d (%s), injected=%ld site %s", #call, rv_, \
			    nng_strerror(rv_), va_failed, va_failed_site);   \
		}                                                            \
	} while (0)

// a call that depends on background activity: any error is acceptable once a
// failure was injected (best-effort loss of one message or connection); in
// the fault-free run it must succeed
#define NET(call, okflag)                                                    \
	do {                                                                 \
		cur_call = #call;                                            \
		int rv_  = (call);                                           \
		okflag   = (rv_ == 0);                                       \
		if (rv_ != 0 && !va_failed)                                  \
			vs_fail("harness:fault-free", "%s -> %d (%s) without any " \
			    "injected failure", #call, rv_, nng_strerror(rv_)); \
	} while (0)

typedef int (*open_fn)(nng_socket *);
static const struct {
	const char *name;
	open_fn     open;
	int         ctx;
} PROTO[] = { { "req", nng_req0_open, 1 }, { "rep", nng_rep0_open, 1 },
	{ "pub", nng_pub0_open, 0 }, { "sub", nng_sub0_open, 1 },
	{ "push", nng_push0_open, 0 }, { "pull", nng_pull0_open, 0 },
	{ "surveyor", nng_surveyor0_open, 1 },
	{ "respondent", nng_respondent0_open, 1 }, { "pair0", nng_pair0_open, 0 },
	{ "pair1", nng_pair1_open, 0 }, { "bus", nng_bus0_open, 0 },
	{ "xreq", nng_req0_open_raw, 0 }, { "xrep", nng_rep0_open_raw, 0 },
	{ "xpub", nng_pub0_open_raw, 0 }, { "xsub", nng_sub0_open_raw, 0 },
	{ "xpush", nng_push0_open_raw, 0 }, { "xpull", nng_pull0_open_raw, 0 },
	{ "xsurveyor", nng_surveyor0_open_raw, 0 },
	{ "xrespondent", nng_respondent0_open_raw, 0 },
	{ "xpair0", nng_pair0_open_raw, 0 }, { "xpair1", nng_pair1_open_raw, 0 },
	{ "xbus", nng_bus0_open_raw, 0 }, { "pair1poly", nng_pair1_open_poly, 0 } };
#define NPROTO ((int) (sizeof(PROTO) / sizeof(PROTO[0])))

// ---- program: open / option / context / close --------------------------------
static void
prog_open(void *arg)
{
	int i = (int) (intptr_t) arg;
	lib_init();
	nng_socket s = NNG_SOCKET_INITIALIZER;
	LOCAL(PROTO[i].open(&s));
	LOCAL(nng_socket_set_ms(s, NNG_OPT_RECVTIMEO, 100));
	LOCAL(nng_socket_set_ms(s, NNG_OPT_SENDTIMEO, 100));
	(void) nng_socket_set_int(s, NNG_OPT_RECVBUF, 4);
	(void) nng_socket_set_int(s, NNG_OPT_SENDBUF, 4);
	if (PROTO[i].ctx) {
		nng_ctx c = NNG_CTX_INITIALIZER;
		LOCAL(nng_ctx_open(&c, s));
		if (strcmp(PROTO[i].name, "sub") == 0)
			LOCAL(nng_sub0_ctx_subscribe(c, "ab", 2));
		LOCAL(nng_ctx_close(c));
	}
	if (strcmp(PROTO[i].name, "sub") == 0) {
		LOCAL(nng_sub0_socket_subscribe(s, "abc", 3));
		LOCAL(nng_sub0_socket_subscribe(s, "", 0));
		(void) nng_sub0_socket_unsubscribe(s, "abc", 3);
	}
	nng_listener l = NNG_LISTENER_INITIALIZER;
	LOCAL(nng_listener_create(&l, s, "inproc://c20open"));
	LOCAL(nng_listener_start(l, 0));
	nng_dialer d = NNG_DIALER_INITIALIZER;
	LOCAL(nng_dialer_create(&d, s, "inproc://c20nobody"));
	LOCAL(nng_socket_close(s));
	lib_fini();
}

// ---- program: exchange over a transport ----------------------------------------
enum { X_REQREP, X_PUBSUB, X_PIPELINE, X_SURVEY, X_PAIR0, X_PAIR1, X_BUS, X_N };
static const char *XN[] = { "reqrep", "pubsub", "pipeline", "survey", "pair0",
	"pair1", "bus" };
enum { T_INPROC, T_IPC, T_TCP, T_WS, T_UDP, T_N };
static const char *TN[] = { "inproc", "ipc", "tcp", "ws", "udp" };
typedef struct xarg {
	int  kind, tran;
	char url[200];
} xarg;

static void
send1(nng_socket s, const char *b, int *ok)
{
	nng_msg *m = NULL;
	int      rv;
	*ok = 0;
	rv  = nng_msg_alloc(&m, 0);
	if (rv != 0) {
		if (!(rv == NNG_ENOMEM && va_failed))
			vs_fail("C20:bad-error:nng_msg_alloc", "-> %d", rv);
		return;
	}
	rv = nng_msg_append(m, b, strlen(b));
	if (rv != 0) {
		nng_msg_free(m);
		if (!(rv == NNG_ENOMEM && va_failed))
			vs_fail("C20:bad-error:nng_msg_append", "-> %d", rv);
		return;
	}
	rv = nng_sendmsg(s, m, 0);
	if (rv != 0) {
		nng_msg_free(m); // failed send leaves the message with the caller
		if (!va_failed)
			vs_fail("harness:fault-free", "send -> %d", rv);
		return;
	}
	*ok = 1;
}

static void
recv1(nng_socket s, const char *want, int *ok)
{
	nng_msg *m = NULL;
	int      rv = nng_recvmsg(s, &m, 0);
	*ok         = 0;
	if (rv != 0) {
		if (!va_failed)
			vs_fail("harness:fault-free", "recv -> %d (%s)", rv,
			    nng_strerror(rv));
		return;
	}
	if (nng_msg_len(m) != strlen(want) ||
	    memcmp(nng_msg_body(m), want, strlen(want)) != 0)
		vs_fail("C20:corrupt-after-failure", "received %zu bytes, wanted '%s'",
		    nng_msg_len(m), want);
	nng_msg_free(m);
	*ok = 1;
}

static void
prog_xchg(void *arg)
{
	xarg      *x = arg;
	nng_socket a = NNG_SOCKET_INITIALIZER, b = NNG_SOCKET_INITIALIZER;
	int        ok;
	if (x->tran == T_TCP || x->tran == T_WS || x->tran == T_UDP)
		vs_tcp_grace_us = 1500;
	lib_init();
	switch (x->kind) {
	case X_REQREP:
		LOCAL(nng_rep0_open(&a));
		LOCAL(nng_req0_open(&b));
		break;
	case X_PUBSUB:
		LOCAL(nng_pub0_open(&a));
		LOCAL(nng_sub0_open(&b));
		LOCAL(nng_sub0_socket_subscribe(b, "", 0));
		break;
	case X_PIPELINE:
		LOCAL(nng_pull0_open(&a));
		LOCAL(nng_push0_open(&b));
		break;
	case X_SURVEY:
		LOCAL(nng_respondent0_open(&a));
		LOCAL(nng_surveyor0_open(&b));
		break;
	case X_PAIR0:
		LOCAL(nng_pair0_open(&a));
		LOCAL(nng_pair0_open(&b));
		break;
	case X_PAIR1:
		LOCAL(nng_pair1_open(&a));
		LOCAL(nng_pair1_open(&b));
		break;
	default:
		LOCAL(nng_bus0_open(&a));
		LOCAL(nng_bus0_open(&b));
		break;
	}
	LOCAL(nng_socket_set_ms(a, NNG_OPT_RECVTIMEO, 300));
	LOCAL(nng_socket_set_ms(a, NNG_OPT_SENDTIMEO, 300));
	LOCAL(nng_socket_set_ms(b, NNG_OPT_RECVTIMEO, 300));
	LOCAL(nng_socket_set_ms(b, NNG_OPT_SENDTIMEO, 300));
	nng_listener l = NNG_LISTENER_INITIALIZER;
	char         url[256];
	snprintf(url, sizeof(url), "%s", x->url);
	if (x->tran == T_IPC) // one path per execution (workers run in parallel)
		snprintf(url, sizeof(url), "ipc://%s/c20-%d.sock", vx_rundir(),
		    (int) getpid());
	LOCAL(nng_listen(a, url, &l, 0));
	if (x->tran == T_TCP || x->tran == T_WS || x->tran == T_UDP) {
		int port = 0;
		LOCAL(nng_listener_get_int(l, NNG_OPT_BOUND_PORT, &port));
		snprintf(url, sizeof(url), x->tran == T_WS ? "ws://127.0.0.1:%d/c20"
		        : x->tran == T_UDP                 ? "udp://127.0.0.1:%d"
		                                           : "tcp://127.0.0.1:%d",
		    port);
	}
	NET(nng_dial(b, url, NULL, 0), ok);
	vs_settle();
	if (!ok) {
		// the connection attempt was lost to the injected failure ("best-effort loss of one
		// connection").  Neither end may be left unable to connect: with the allocator
		// healthy again the same dial succeeds within 5 virtual seconds (one accept cool-down
		// or reconnect interval at most lies in between).
		int save = va_choice, rv = -1;
		va_choice = 0;
		for (int t = 0; t < 50 && rv != 0; t++) {
			rv = nng_dial(b, url, NULL, 0);
			if (rv != 0)
				vs_sleep(100);
		}
		if (rv != 0)
			vs_fail("C20:wedged-after-failure",
			    "after the dial that hit the injected failure, 50 further nng_dial calls "
			    "over 5 s all failed (last: %s): the listener no longer accepts or the "
			    "dialing socket cannot connect any more; injected=%ld site %s",
			    nng_strerror(rv), va_failed, va_failed_site);
		va_choice = save;
		ok        = 1;
		vs_settle();
	}
	if (ok) {
		int s1, r1;
		switch (x->kind) {
		case X_REQREP:
		case X_SURVEY:
			send1(b, "ping", &s1);
			if (s1) {
				recv1(a, "ping", &r1);
				if (r1) {
					send1(a, "pong", &s1);
					if (s1)
						recv1(b, "pong", &r1);
				}
			}
			break;
		case X_PUBSUB:
			send1(a, "ping", &s1);
			if (s1)
				recv1(b, "ping", &r1);
			break;
		case X_PIPELINE:
			send1(b, "ping", &s1);
			if (s1)
				recv1(a, "ping", &r1);
			break;
		default:
			send1(a, "ping", &s1);
			if (s1)
				recv1(b, "ping", &r1);
			send1(b, "pong", &s1);
			if (s1)
				recv1(a, "pong", &r1);
			break;
		}
	}
	// option calls on connected sockets (per-pipe queues are resized, contexts consulted):
	// a failure inside one of them must come back as NNG_ENOMEM with the socket still usable
	// - the very next call takes the same locks
	if (ok) {
		static const int BV[] = { 4, 1, 9 };
		for (int i = 0; i < 3; i++) {
			nng_socket so[2] = { a, b };
			for (int j = 0; j < 2; j++) {
				const char *on[2] = { NNG_OPT_SENDBUF, NNG_OPT_RECVBUF };
				for (int q = 0; q < 2; q++) {
					long f0 = va_failed;
					int  rv = nng_socket_set_int(so[j], on[q], BV[i]);
					if (rv == NNG_ENOMEM && va_failed > f0)
						rv = nng_socket_set_int(so[j], on[q], BV[i]);
					if (rv == NNG_ENOMEM)
						vs_fail("C20:retry-fails",
						    "nng_socket_set_int(%s) -> NNG_ENOMEM on retry (site %s)",
						    on[q], va_failed_site);
					int v = 0;
					(void) nng_socket_get_int(so[j], on[q], &v);
				}
			}
		}
	}
	// "later calls behave": whatever failed above (possibly inside a call that
	// still succeeded, leaving a fallback in place), a burst of numbered
	// messages sent before the receiver looks must come out in order, each at
	// most once and intact; the lossless pairs must deliver all of them
	if (ok && x->kind != X_REQREP && x->kind != X_SURVEY) {
		nng_socket from = (x->kind == X_PIPELINE) ? b : a;
		nng_socket to   = (x->kind == X_PIPELINE) ? a : b;
		// (SP/UDP drops the oldest datagram when its receive ring is full)
		int        lossless = x->tran != T_UDP &&
		    (x->kind == X_PIPELINE || x->kind == X_PAIR0 || x->kind == X_PAIR1);
		int  save = va_choice, nsent = 0, last = 0, ngot = 0;
		char tag[8];
		va_choice = 0;
		nng_socket_set_ms(to, NNG_OPT_RECVTIMEO, 100);
		for (int i = 1; i <= 6; i++) {
			nng_msg *m;
			snprintf(tag, sizeof(tag), "n%d", i);
			if (nng_msg_alloc(&m, 0) != 0 || nng_msg_append(m, tag, 2) != 0)
				vs_fail("harness:burst", "message allocation");
			if (nng_sendmsg(from, m, 0) != 0) {
				nng_msg_free(m);
				break;
			}
			nsent = i;
		}
		vs_settle();
		for (;;) {
			nng_msg *m = NULL;
			if (nng_recvmsg(to, &m, 0) != 0)
				break;
			char  *bd = nng_msg_body(m);
			size_t bl = nng_msg_len(m);
			if (bl == 4 && (memcmp(bd, "ping", 4) == 0 || memcmp(bd, "pong", 4) == 0)) {
				nng_msg_free(m); // a straggler of the exchange above
				continue;
			}
			int k = (bl == 2 && bd[0] == 'n') ? bd[1] - '0' : -1;
			if (k < 1 || k > nsent)
				vs_fail("C20:corrupt-after-failure",
				    "burst of %d after the exchange: received %zu bytes '%.8s'",
				    nsent, bl, bl ? bd : "");
			if (k <= last)
				vs_fail("C20:misbehaves-after-failure",
				    "burst n1..n%d: n%d delivered after n%d (duplicated or "
				    "reordered), injected=%ld site %s",
				    nsent, k, last, va_failed, va_failed_site);
			last = k;
			ngot++;
			nng_msg_free(m);
			if (ngot > 8)
				break;
		}
		if (lossless && ngot != nsent && !(va_failed && x->tran != T_INPROC))
			vs_fail("C20:misbehaves-after-failure",
			    "burst: %d of %d messages arrived on a lossless pair, "
			    "injected=%ld site %s",
			    ngot, nsent, va_failed, va_failed_site);
		// and the pair is not wedged: within 5 virtual seconds (reconnects
		// included) a fresh message gets through
		int through = 0;
		for (int t = 0; t < 50 && !through; t++) {
			nng_msg *m;
			if (nng_msg_alloc(&m, 0) != 0 || nng_msg_append(m, "ctl", 3) != 0)
				vs_fail("harness:burst", "message allocation");
			if (nng_sendmsg(from, m, 0) != 0)
				nng_msg_free(m);
			for (;;) {
				if (nng_recvmsg(to, &m, 0) != 0)
					break;
				if (nng_msg_len(m) == 3 && memcmp(nng_msg_body(m), "ctl", 3) == 0)
					through = 1;
				nng_msg_free(m);
			}
		}
		if (!through)
			vs_fail("C20:wedged-after-failure",
			    "no message gets from one socket to the other any more (50 "
			    "attempts over 5 s), injected=%ld site %s",
			    va_failed, va_failed_site);
		va_choice = save;
	}
	if (ok && (x->kind == X_REQREP || x->kind == X_SURVEY)) {
		// the request/reply pairs: whatever was lost above, a fresh request is answered
		// within 5 virtual seconds with the allocator healthy
		int save = va_choice, through = 0;
		va_choice = 0;
		nng_socket_set_ms(a, NNG_OPT_RECVTIMEO, 100);
		nng_socket_set_ms(b, NNG_OPT_RECVTIMEO, 100);
		for (int t = 0; t < 25 && !through; t++) {
			nng_msg *m;
			if (nng_msg_alloc(&m, 0) != 0 || nng_msg_append(m, "rq2", 3) != 0)
				vs_fail("harness:burst", "message allocation");
			if (nng_sendmsg(b, m, 0) != 0) {
				nng_msg_free(m);
				continue;
			}
			if (nng_recvmsg(a, &m, 0) != 0)
				continue;
			int good = nng_msg_len(m) == 3 && memcmp(nng_msg_body(m), "rq2", 3) == 0;
			nng_msg_clear(m);
			if (!good || nng_msg_append(m, "rp2", 3) != 0 || nng_sendmsg(a, m, 0) != 0) {
				nng_msg_free(m);
				continue;
			}
			if (nng_recvmsg(b, &m, 0) != 0)
				continue;
			through = nng_msg_len(m) == 3 && memcmp(nng_msg_body(m), "rp2", 3) == 0;
			nng_msg_free(m);
		}
		if (!through)
			vs_fail("C20:wedged-after-failure",
			    "no request is answered any more (25 attempts over 5 s), injected=%ld "
			    "site %s",
			    va_failed, va_failed_site);
		va_choice = save;
	}
	vs_log("%s/%s allocs=%ld", XN[x->kind], TN[x->tran], va_count());
	LOCAL(nng_socket_close(a));
	LOCAL(nng_socket_close(b));
	lib_fini();
}

// ---- program: raw peer over socket:// (sockfd transport) ------------------------
static void
prog_sockfd(void *arg)
{
	(void) arg;
	lib_init();
	nng_socket   s = NNG_SOCKET_INITIALIZER;
	nng_listener l = NNG_LISTENER_INITIALIZER;
	LOCAL(nng_rep0_open(&s));
	LOCAL(nng_socket_set_ms(s, NNG_OPT_RECVTIMEO, 200));
	LOCAL(nng_listener_create(&l, s, "socket://"));
	LOCAL(nng_listener_start(l, 0));
	int fd = vp_attach_more(l);
	if (fd >= 0) {
		vs_settle();
		if (vp_handshake(fd, SP_REQ) >= 0) {
			uint8_t id[4] = { 0x80, 0, 0, 1 };
			vp_send(fd, id, 4, "hi", 2);
			vs_settle();
			int ok;
			recv1(s, "hi", &ok);
			if (ok) {
				send1(s, "yo", &ok);
				vs_settle();
			}
		}
		close(fd);
	} else if (!va_failed)
		vs_fail("harness:fault-free", "socket fd not accepted");
	vs_settle();
	LOCAL(nng_socket_close(s));
	lib_fini();
}

// ---- program: contexts --------------------------------------------------------------
static void
ctx_cb(void *arg)
{
	(void) arg;
}
static void
prog_ctx(void *arg)
{
	(void) arg;
	lib_init();
	nng_socket rep = NNG_SOCKET_INITIALIZER, req = NNG_SOCKET_INITIALIZER;
	nng_ctx    c1 = NNG_CTX_INITIALIZER, c2 = NNG_CTX_INITIALIZER;
	nng_aio   *a1 = NULL, *a2 = NULL;
	int        ok;
	LOCAL(nng_rep0_open(&rep));
	LOCAL(nng_req0_open(&req));
	LOCAL(nng_socket_set_ms(req, NNG_OPT_REQ_RESENDTIME, 50));
	LOCAL(nng_listen(rep, "inproc://c20ctx", NULL, 0));
	NET(nng_dial(req, "inproc://c20ctx", NULL, 0), ok);
	LOCAL(nng_ctx_open(&c1, req));
	LOCAL(nng_ctx_open(&c2, rep));
	LOCAL(nng_aio_alloc(&a1, ctx_cb, NULL));
	LOCAL(nng_aio_alloc(&a2, ctx_cb, NULL));
	nng_aio_set_timeout(a1, 300);
	nng_aio_set_timeout(a2, 300);
	nng_msg *m = NULL;
	if (nng_msg_alloc(&m, 4) == 0) {
		nng_aio_set_msg(a1, m);
		nng_ctx_send(c1, a1);
		nng_aio_wait(a1);
		if (nng_aio_result(a1) != 0)
			nng_msg_free(nng_aio_get_msg(a1));
		else {
			nng_ctx_recv(c2, a2);
			nng_aio_wait(a2);
			if (nng_aio_result(a2) == 0) {
				nng_aio_set_msg(a2, nng_aio_get_msg(a2));
				nng_ctx_send(c2, a2);
				nng_aio_wait(a2);
				if (nng_aio_result(a2) != 0)
					nng_msg_free(nng_aio_get_msg(a2));
				else {
					nng_ctx_recv(c1, a1);
					nng_aio_wait(a1);
					if (nng_aio_result(a1) == 0)
						nng_msg_free(nng_aio_get_msg(a1));
					else if (!va_failed)
						vs_fail("harness:fault-free",
						    "ctx reply recv -> %d",
						    nng_aio_result(a1));
				}
			} else if (!va_failed)
				vs_fail("harness:fault-free", "ctx recv -> %d",
				    nng_aio_result(a2));
		}
	}
	nng_aio_free(a1);
	nng_aio_free(a2);
	LOCAL(nng_ctx_close(c1));
	LOCAL(nng_ctx_close(c2));
	LOCAL(nng_socket_close(req));
	LOCAL(nng_socket_close(rep));
	lib_fini();
}

// ---- program: URL + stats -------------------------------------------------------------
static void
prog_url(void *arg)
{
	(void) arg;
	lib_init();
	static const char *U[] = { "http://www.example.com:8080/a/b?q#f",
		"tcp://[::1]:5555", "ipc:///tmp/some/path",
		"ws://host/0123456789012345678901234567890123456789012345678901234567890"
		"1234567890123456789012345678901234567890123456789012345678901234567890"
		"123456789" };
	for (int i = 0; i < 4; i++) {
		nng_url *u = NULL, *c = NULL;
		LOCAL(nng_url_parse(&u, U[i]));
		LOCAL(nng_url_clone(&c, u));
		char buf[400];
		nng_url_sprintf(buf, sizeof(buf), c);
		nng_url_free(u);
		nng_url_free(c);
	}
	nng_socket s = NNG_SOCKET_INITIALIZER;
	LOCAL(nng_pair0_open(&s));
	LOCAL(nng_listen(s, "inproc://c20stats", NULL, 0));
	nng_stat *st = NULL;
	LOCAL(nng_stats_get(&st));
	nng_stats_free(st);
	LOCAL(nng_socket_close(s));
	lib_fini();
}

// ---- program: device ---------------------------------------------------------------------
static void
prog_device(void *arg)
{
	(void) arg;
	lib_init();
	nng_socket f = NNG_SOCKET_INITIALIZER, b = NNG_SOCKET_INITIALIZER,
	           req = NNG_SOCKET_INITIALIZER, rep = NNG_SOCKET_INITIALIZER;
	nng_aio *da = NULL;
	int      ok, ok2;
	LOCAL(nng_rep0_open_raw(&f));
	LOCAL(nng_req0_open_raw(&b));
	LOCAL(nng_req0_open(&req));
	LOCAL(nng_rep0_open(&rep));
	LOCAL(nng_socket_set_ms(req, NNG_OPT_RECVTIMEO, 300));
	LOCAL(nng_socket_set_ms(req, NNG_OPT_SENDTIMEO, 300));
	LOCAL(nng_socket_set_ms(rep, NNG_OPT_RECVTIMEO, 300));
	LOCAL(nng_socket_set_ms(rep, NNG_OPT_SENDTIMEO, 300));
	LOCAL(nng_listen(f, "inproc://c20dev-f", NULL, 0));
	LOCAL(nng_listen(rep, "inproc://c20dev-b", NULL, 0));
	NET(nng_dial(b, "inproc://c20dev-b", NULL, 0), ok);
	NET(nng_dial(req, "inproc://c20dev-f", NULL, 0), ok2);
	LOCAL(nng_aio_alloc(&da, NULL, NULL));
	nng_device_aio(da, f, b);
	vs_settle();
	if (ok && ok2) {
		int s1, r1;
		send1(req, "ping", &s1);
		if (s1) {
			recv1(rep, "ping", &r1);
			if (r1) {
				send1(rep, "pong", &s1);
				if (s1)
					recv1(req, "pong", &r1);
			}
		}
	}
	nng_aio_cancel(da);
	nng_aio_wait(da);
	nng_aio_free(da);
	LOCAL(nng_socket_close(req));
	LOCAL(nng_socket_close(rep));
	(void) nng_socket_close(f); // a stopped device may have closed these
	(void) nng_socket_close(b);
	lib_fini();
}

// ---- program: init / fini only --------------------------------------------------------------
static void
prog_init(void *arg)
{
	(void) arg;
	lib_init();
	lib_fini();
}

static void
explore(const char *name, void (*fn)(void *), void *arg)
{
	if (vx_time_left() < 15)
		return;
	vx_cfg c;
	memset(&c, 0, sizeof(c));
	c.prop     = "C20";
	c.scenario = name;
	c.run      = fn;
	c.arg      = arg;
	for (int i = 0; i < VB_NB; i++)
		c.budget[i] = 0;
	c.budget[VB_ALLOC] = 1;
	c.budget[VB_ENV]   = -1;
	c.total            = 1;
	c.watchdog_s       = 15;
	vx_explore(&c, NULL);
}

int
main(int argc, char **argv)
{
	vx_init(argc, argv, "C20");
	int T = vx_is_thorough();
	explore("init-fini", prog_init, NULL);
	for (int i = 0; i < NPROTO; i++) {
		char name[40];
		snprintf(name, sizeof(name), "open-%s", PROTO[i].name);
		explore(strdup(name), prog_open, (void *) (intptr_t) i);
	}
	explore("contexts", prog_ctx, NULL);
	explore("url-stats", prog_url, NULL);
	explore("device", prog_device, NULL);
	explore("sockfd-raw", prog_sockfd, NULL);
	static xarg X[X_N * T_N];
	int         nx = 0;
	for (int k = 0; k < X_N; k++)
		for (int t = 0; t < T_N; t++) {
			if (!T && !(t == T_INPROC || k == X_REQREP || k == X_PUBSUB ||
			        (k == X_BUS && t == T_WS)))
				continue; // quick: inproc for all; req/rep and pub/sub
				          // over every transport
			if (t == T_UDP && (k == X_BUS))
				continue;
			xarg *x = &X[nx++];
			x->kind = k;
			x->tran = t;
			switch (t) {
			case T_INPROC:
				snprintf(x->url, sizeof(x->url), "inproc://c20-%s", XN[k]);
				break;
			case T_IPC:
				snprintf(x->url, sizeof(x->url), "ipc://%s/c20-%s.sock",
				    vx_rundir(), XN[k]);
				break;
			case T_TCP:
				snprintf(x->url, sizeof(x->url), "tcp://127.0.0.1:0");
				break;
			case T_WS:
				snprintf(x->url, sizeof(x->url), "ws://127.0.0.1:0/c20");
				break;
			default:
				snprintf(x->url, sizeof(x->url), "udp://127.0.0.1:0");
				break;
			}
			char name[60];
			snprintf(name, sizeof(name), "xchg-%s-%s", XN[k], TN[t]);
			explore(strdup(name), prog_xchg, x);
		}
	vx_note("corpus",
	    "init/fini; open+options+context+listener/dialer create+close per "
	    "protocol (%s); REQ/REP contexts with aio; URL parse/clone/sprintf + "
	    "stats snapshot; device; raw peer over socket://; request/reply or "
	    "one-way exchange for 7 protocol pairs over %s",
	    "all cooked and raw",
	    T ? "inproc, ipc, tcp, ws, udp"
	      : "inproc; req/rep and pub/sub also over ipc, tcp, ws, udp");
	return vx_finish();
}
