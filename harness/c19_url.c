// C19 - URL parsing: strict acceptance, canonical and idempotent output.
// Exhaustive input enumeration over forced-collision alphabets against an
// independent reference (exact scheme table match, RFC 3629 UTF-8 table,
// canonical-form predicates, sprintf/parse round trip, clone independence).
#define _GNU_SOURCE
#include "venum.h"
#include "vs.h"
#include <ctype.h>
#include <nng/nng.h>
#include <stdio.h>
#include <stdlib.h>
#include <string.h>

// ---- reference pieces ---------------------------------------------------
static const char *REF_SCHEMES[] = { "http", "https", "tcp", "tcp4", "tcp6",
	"tls+tcp", "tls+tcp4", "tls+tcp6", "socket", "inproc", "ipc", "unix",
	"abstract", "ws", "ws4", "ws6", "wss", "wss4", "wss6", "udp", "udp4",
	"udp6", "dtls", "dtls4", "dtls6", "file", "mailto", "gopher", "ftp", "ssh",
	"git", "telnet", "irc", "imap", "imaps", NULL };
static const char *OPAQUE[] = { "ipc", "unix", "abstract", "inproc", "socket",
	NULL };

static int
in_list(const char *s, size_t n, const char **l)
{
	for (int i = 0; l[i]; i++)
		if (strlen(l[i]) == n && memcmp(l[i], s, n) == 0)
			return 1;
	return 0;
}

// RFC 3629 well-formedness (Unicode Table 3-7), bytes up to len
static int
ref_utf8_ok(const uint8_t *s, size_t n)
{
	size_t i = 0;
	while (i < n) {
		uint8_t b = s[i];
		if (b < 0x80) {
			i++;
			continue;
		}
		int     need;
		uint8_t lo = 0x80, hi = 0xbf;
		if (b >= 0xc2 && b <= 0xdf)
			need = 1;
		else if (b == 0xe0) {
			need = 2;
			lo   = 0xa0;
		} else if ((b >= 0xe1 && b <= 0xec) || b == 0xee || b == 0xef)
			need = 2;
		else if (b == 0xed) {
			need = 2;
			hi   = 0x9f;
		} else if (b == 0xf0) {
			need = 3;
			lo   = 0x90;
		} else if (b >= 0xf1 && b <= 0xf3)
			need = 3;
		else if (b == 0xf4) {
			need = 3;
			hi   = 0x8f;
		} else
			return 0;
		for (int k = 1; k <= need; k++) {
			if (i + (size_t) k >= n)
				return 0;
			uint8_t c = s[i + (size_t) k];
			if (k == 1) {
				if (c < lo || c > hi)
					return 0;
			} else if (c < 0x80 || c > 0xbf)
				return 0;
		}
		i += (size_t) need + 1;
	}
	return 1;
}

static int
hexv(int c)
{
	if (c >= '0' && c <= '9')
		return c - '0';
	if (c >= 'a' && c <= 'f')
		return c - 'a' + 10;
	if (c >= 'A' && c <= 'F')
		return c - 'A' + 10;
	return -1;
}

// decode all percent escapes; returns -1 on a malformed escape
static long
ref_decode(const char *in, uint8_t *out)
{
	long n = 0;
	while (*in) {
		if (*in == '%') {
			int a = hexv((unsigned char) in[1]);
			int b = a >= 0 ? hexv((unsigned char) in[2]) : -1;
			if (a < 0 || b < 0)
				return -1;
			out[n++] = (uint8_t) (a * 16 + b);
			in += 3;
		} else
			out[n++] = (uint8_t) *in++;
	}
	return n;
}

static int
unreserved(int c)
{
	return isalnum(c) || c == '.' || c == '~' || c == '_' || c == '-';
}

static const char *
show(const char *s)
{
	static char b[4][400];
	static int  r;
	char       *o = b[r++ & 3];
	size_t      j = 0;
	for (; *s && j < 380; s++) {
		unsigned char c = (unsigned char) *s;
		if (c >= 0x20 && c < 0x7f && c != '\\')
			o[j++] = (char) c;
		else
			j += (size_t) sprintf(o + j, "\\x%02x", c);
	}
	o[j] = 0;
	return o;
}

static int
streq(const char *a, const char *b)
{
	if (a == NULL || b == NULL)
		return a == b;
	return strcmp(a, b) == 0;
}

#define FAIL(sg, ...)                                   \
	do {                                            \
		snprintf(sig, sigsz, "%s", sg);         \
		snprintf(msg, msgsz, __VA_ARGS__);      \
		if (u)                                  \
			nng_url_free(u);                \
		return -1;                              \
	} while (0)

// The full oracle for one input string.
static int
check_input(const char *in, ve_res *res, char *sig, size_t sigsz, char *msg,
    size_t msgsz)
{
	nng_url *u  = NULL;
	int      rv = nng_url_parse(&u, in);
	res->calls++;
	if (rv != 0) {
		u = NULL;
		return 0; // rejection is always allowed by the statement
	}
	res->nontrivial = 1;
	// ---- acceptance only if ... ----
	const char *sep = strstr(in, "://");
	if (sep == NULL)
		FAIL("C19:accept:no-separator", "accepted %s without ://", show(in));
	// the scheme is everything before the FIRST ':'
	const char *colon = strchr(in, ':');
	if (colon != sep)
		FAIL("C19:accept:no-separator", "accepted %s: first ':' is not ://",
		    show(in));
	size_t sl = (size_t) (sep - in);
	if (!in_list(in, sl, REF_SCHEMES))
		FAIL("C19:accept:unknown-scheme",
		    "accepted %s: scheme \"%.*s\" is not a known scheme (reported as "
		    "%s)",
		    show(in), (int) sl, in, nng_url_scheme(u));
	if (strlen(nng_url_scheme(u)) != sl || memcmp(nng_url_scheme(u), in, sl))
		FAIL("C19:accept:scheme-mismatch", "%s parsed with scheme %s", show(in),
		    nng_url_scheme(u));
	int opaque = in_list(in, sl, OPAQUE);
	const char *rest = sep + 3;
	if (!opaque) {
		// authority ends at / ? # or end
		size_t al = strcspn(rest, "/?#");
		char   auth[600];
		if (al >= sizeof(auth))
			al = sizeof(auth) - 1;
		memcpy(auth, rest, al);
		auth[al] = 0;
		const char *tail = rest + strcspn(rest, "/?#");
		// one '@' at most
		const char *at = strchr(auth, '@');
		if (at && strchr(at + 1, '@'))
			FAIL("C19:accept:authority", "accepted %s: two '@'", show(in));
		const char *hp = at ? at + 1 : auth;
		const char *port = NULL;
		if (*hp == '[') {
			const char *cb = strchr(hp, ']');
			if (!cb)
				FAIL("C19:accept:authority", "accepted %s: unclosed '['",
				    show(in));
			if (cb[1] != 0 && cb[1] != ':')
				FAIL("C19:accept:authority",
				    "accepted %s: junk after ']'", show(in));
			if (cb[1] == ':')
				port = cb + 2;
		} else {
			const char *c = strchr(hp, ':');
			if (c)
				port = c + 1;
		}
		if (port) {
			if (*port == 0)
				FAIL("C19:accept:port", "accepted %s: empty port",
				    show(in));
			int alldig = 1;
			for (const char *p = port; *p; p++)
				if (!isdigit((unsigned char) *p))
					alldig = 0;
			if (alldig) {
				if (strlen(port) > 5 || atol(port) > 65535)
					FAIL("C19:accept:port",
					    "accepted %s: port out of range", show(in));
				if ((uint32_t) atol(port) != nng_url_port(u))
					FAIL("C19:accept:port", "%s parsed with port %u",
					    show(in), nng_url_port(u));
			} else if (isdigit((unsigned char) port[0])) {
				// digits followed by junk ("8x") is never a service name
				FAIL("C19:accept:port", "accepted %s: malformed port",
				    show(in));
			}
		}
		// escapes + UTF-8 of everything after the authority
		uint8_t dec[8300];
		if (strlen(tail) < 8200) {
			long dn = ref_decode(tail, dec);
			if (dn < 0)
				FAIL("C19:accept:escape",
				    "accepted %s: malformed percent escape", show(in));
			if (!ref_utf8_ok(dec, (size_t) dn))
				FAIL("C19:accept:utf8",
				    "accepted %s: decoded path is not valid UTF-8 (RFC 3629)",
				    show(in));
		}
		// ---- canonical form ----
		const char *host = nng_url_hostname(u);
		const char *path = nng_url_path(u);
		if (host == NULL || path == NULL)
			FAIL("C19:canon:null", "%s: NULL host/path", show(in));
		for (const char *p = host; *p; p++)
			if (isupper((unsigned char) *p))
				FAIL("C19:canon:host-case", "%s: host %s not lower case",
				    show(in), show(host));
		const char *parts[3] = { path, nng_url_query(u), nng_url_fragment(u) };
		for (int k = 0; k < 3; k++) {
			const char *p = parts[k];
			for (; p && *p; p++)
				if (*p == '%') {
					int a = hexv((unsigned char) p[1]);
					int b = a >= 0 ? hexv((unsigned char) p[2]) : -1;
					if (a < 0 || b < 0)
						FAIL("C19:canon:escape",
						    "%s: component %s keeps a malformed escape",
						    show(in), show(parts[k]));
					if (unreserved(a * 16 + b))
						FAIL("C19:canon:unreserved-escape",
						    "%s: component %s keeps an escaped "
						    "unreserved character",
						    show(in), show(parts[k]));
				}
		}
		if (strstr(path, "//"))
			FAIL("C19:canon:dup-slash", "%s: path %s keeps //", show(in),
			    show(path));
		for (const char *p = path; *p; p++)
			if (*p == '/') {
				const char *sgm = p + 1;
				size_t      l   = strcspn(sgm, "/");
				if ((l == 1 && sgm[0] == '.') ||
				    (l == 2 && sgm[0] == '.' && sgm[1] == '.'))
					FAIL("C19:canon:dot-segment",
					    "%s: path %s keeps a dot segment", show(in),
					    show(path));
			}
	}
	// ---- sprintf / parse round trip ----
	char  small[8];
	int   need = nng_url_sprintf(small, sizeof(small), u);
	char *buf  = malloc((size_t) need + 1);
	int   n2   = nng_url_sprintf(buf, (size_t) need + 1, u);
	res->calls += 2;
	if (n2 != need || (int) strlen(buf) != need) {
		free(buf);
		FAIL("C19:sprintf:length", "%s: sprintf reports %d then %d bytes",
		    show(in), need, n2);
	}
	nng_url *u2 = NULL;
	rv          = nng_url_parse(&u2, buf);
	res->calls++;
	if (rv != 0) {
		char t[400];
		snprintf(t, sizeof(t), "%s", show(buf));
		free(buf);
		FAIL("C19:roundtrip:reject", "%s formats as %s which is rejected (%d)",
		    show(in), t, rv);
	}
	if (!streq(nng_url_scheme(u), nng_url_scheme(u2)) ||
	    !streq(nng_url_hostname(u), nng_url_hostname(u2)) ||
	    nng_url_port(u) != nng_url_port(u2) ||
	    !streq(nng_url_path(u), nng_url_path(u2)) ||
	    !streq(nng_url_query(u), nng_url_query(u2)) ||
	    !streq(nng_url_fragment(u), nng_url_fragment(u2))) {
		char t[400];
		snprintf(t, sizeof(t), "%s", show(buf));
		free(buf);
		nng_url_free(u2);
		FAIL("C19:roundtrip:differs",
		    "%s formats as %s which parses to different components", show(in),
		    t);
	}
	nng_url_free(u2);
	free(buf);
	// ---- clone: equal and independent ----
	nng_url *c = NULL;
	rv         = nng_url_clone(&c, u);
	res->calls++;
	if (rv != 0)
		FAIL("C19:clone:fails", "clone of %s (length %zu) fails with %d",
		    show(in), strlen(in), rv);
	char *sv[5] = { NULL, NULL, NULL, NULL, NULL };
	const char *(*get[5])(const nng_url *) = { nng_url_hostname, nng_url_path,
		nng_url_query, nng_url_fragment, nng_url_userinfo };
	for (int k = 0; k < 5; k++)
		if (get[k](u))
			sv[k] = strdup(get[k](u));
	uint32_t    port   = nng_url_port(u);
	const char *scheme = nng_url_scheme(u);
	nng_url_free(u); // clone must survive its original
	u      = NULL;
	int ok = nng_url_port(c) == port && streq(nng_url_scheme(c), scheme);
	for (int k = 0; k < 5; k++)
		if (!streq(get[k](c), sv[k]))
			ok = 0;
	for (int k = 0; k < 5; k++)
		free(sv[k]);
	nng_url_free(c);
	if (!ok)
		FAIL("C19:clone:differs", "clone of %s differs from its original",
		    show(in));
	return 0;
}

// ---- input spaces -----------------------------------------------------------
typedef struct space {
	const char *name;
	int         kind;
	int         L;
	uint64_t    n;
} space;

static const char PA[] = "/a.%2eEf?#~";
#define NPA 11

static void
gen_path(const space *sp, uint64_t idx, char *out)
{
	static const char *pre[] = { "http://h", "tcp://H:5", "ws://[::1]" };
	uint64_t           per   = sp->n / 3;
	int                s     = (int) (idx / per);
	uint64_t           i     = idx % per;
	// idx -> (length, digits)
	int      len = 0;
	uint64_t cnt = 1;
	while (i >= cnt) {
		i -= cnt;
		cnt *= NPA;
		len++;
	}
	size_t o = (size_t) sprintf(out, "%s", pre[s]);
	for (int k = 0; k < len; k++) {
		out[o++] = PA[i % NPA];
		i /= NPA;
	}
	out[o] = 0;
}

static const uint8_t UB[] = { '/', 'a', 0x7f, 0x80, 0x8f, 0x90, 0x9f, 0xa0,
	0xbf, 0xc0, 0xff };
#define NUB 11
static const char *USUF[] = { "", "z", "\x80", "\xbf/" };
#define NSUF 4

// utf8 space: [enc(2)] x [suffix] x b1 (0x80..0xff) x b2 x b3 where b2,b3 come
// from a set (boundary set for quick, all 1..255 for thorough) plus "absent"
static int  u_nb; // size of the b2/b3 domain
static int  u_full;
static void
gen_utf8(const space *sp, uint64_t idx, char *out)
{
	(void) sp;
	int enc = (int) (idx % 2);
	idx /= 2;
	int suf = (int) (idx % NSUF);
	idx /= NSUF;
	int b1 = 0x80 + (int) (idx % 128);
	idx /= 128;
	int d  = u_nb + 1; // +1 = absent
	int i2 = (int) (idx % (uint64_t) d);
	idx /= (uint64_t) d;
	int     i3 = (int) (idx % (uint64_t) d);
	uint8_t seq[4];
	int     n = 0;
	seq[n++]  = (uint8_t) b1;
	if (i2 < u_nb) {
		seq[n++] = u_full ? (uint8_t) (i2 + 1) : UB[i2];
		if (i3 < u_nb)
			seq[n++] = u_full ? (uint8_t) (i3 + 1) : UB[i3];
	} else if (i3 < u_nb) {
		// (absent, present) duplicates (present, absent): map to a 4-byte
		// form F0..F4 lead with boundary continuation bytes instead
		static const uint8_t L4[] = { 0xf0, 0xf1, 0xf4, 0xf5 };
		static const uint8_t C4[] = { 0x80, 0x8f, 0x90, 0xbf };
		n        = 0;
		seq[n++] = L4[b1 & 3];
		seq[n++] = C4[(b1 >> 2) & 3];
		seq[n++] = C4[(b1 >> 4) & 3];
		seq[n++] = u_full ? (uint8_t) (i3 + 1) : UB[i3];
	}
	size_t o = (size_t) sprintf(out, "http://h/p");
	for (int k = 0; k < n; k++) {
		if (enc)
			o += (size_t) sprintf(out + o, "%%%02X", seq[k]);
		else
			out[o++] = (char) seq[k];
	}
	strcpy(out + o, USUF[suf]);
}

static char **S_in;
static uint64_t S_n;
static void
mk_scheme_space(void)
{
	static const char *rests[] = { "://h/p", "://", "://h:80/", ":/h", ":h", "",
		"//h", ":///x" };
	size_t cap = 8000;
	S_in       = calloc(cap, sizeof(char *));
	char cand[64];
	for (int i = 0; REF_SCHEMES[i]; i++) {
		const char *t  = REF_SCHEMES[i];
		size_t      tl = strlen(t);
		for (int v = 0; v < (int) tl + 8; v++) {
			if (v < (int) tl) { // proper prefixes (incl. empty)
				memcpy(cand, t, (size_t) v);
				cand[v] = 0;
			} else if (v == (int) tl) {
				strcpy(cand, t);
			} else if (v == (int) tl + 1) { // upper case
				for (size_t k = 0; k <= tl; k++)
					cand[k] = (char) toupper((unsigned char) t[k]);
			} else { // one-letter extensions
				static const char ext[] = "a46s+x";
				sprintf(cand, "%s%c", t, ext[v - (int) tl - 2]);
			}
			for (int r = 0; r < 8; r++) {
				if (S_n >= cap)
					break;
				char *s = malloc(strlen(cand) + 16);
				sprintf(s, "%s%s", cand, rests[r]);
				S_in[S_n++] = s;
			}
		}
	}
}

static char **A_in;
static uint64_t A_n;
static void
mk_auth_space(void)
{
	static const char *sch[]  = { "tcp", "http", "ws", "tls+tcp", "udp" };
	static const char *auth[] = { "", "h", "H.Example", "[::1]", "[::1",
		"[::1]x", "[::1]:80", "[::1]:", "u@h", "u@v@h", "@h", "u:p@h:1", "h:80",
		"h:0", "h:65535", "h:65536", "h:8x", "h:", "h:99999999999999999999",
		"h:-1", "h:http", "h: 80", "h:08", "[FE80::1]:5", "a@[::1]", "h:80:90",
		"127.0.0.1:1", "*:5", ":5", "[", "]", "[]" };
	static const char *tail[] = { "", "/", "/a", "?q", "#f", "/a?q#f" };
	A_in                      = calloc(5 * 40 * 6, sizeof(char *));
	for (int s = 0; s < 5; s++)
		for (size_t a = 0; a < sizeof(auth) / sizeof(auth[0]); a++)
			for (int t = 0; t < 6; t++) {
				char *x = malloc(200);
				sprintf(x, "%s://%s%s", sch[s], auth[a], tail[t]);
				A_in[A_n++] = x;
			}
}

static char **L_in;
static uint64_t L_n;
static void
mk_long_space(void)
{
	static const char *pre[] = { "http://h/", "tcp://host:80/", "ipc:///",
		"inproc://", "ws://[::1]:9/" };
	L_in                     = calloc(5 * 80 * 2, sizeof(char *));
	for (int p = 0; p < 5; p++) {
		for (int k = 100; k <= 170; k++) {
			for (int v = 0; v < 2; v++) {
				size_t pl = strlen(pre[p]);
				if ((size_t) k <= pl + 6)
					continue;
				char *x = malloc((size_t) k + 8);
				strcpy(x, pre[p]);
				size_t fill = (size_t) k - pl - (v ? 4 : 0);
				memset(x + pl, 'a', fill);
				x[pl + fill] = 0;
				if (v)
					strcat(x, "?q#f");
				L_in[L_n++] = x;
			}
		}
		static const int big[] = { 255, 256, 257, 1023, 4096 };
		for (int b = 0; b < 5; b++) {
			char *x = malloc((size_t) big[b] + 8);
			strcpy(x, pre[p]);
			size_t pl = strlen(pre[p]);
			memset(x + pl, 'b', (size_t) big[b] - pl);
			x[big[b]]   = 0;
			L_in[L_n++] = x;
		}
	}
}

enum { K_PATH, K_UTF8, K_SCHEME, K_AUTH, K_LONG };

static void
gen(void *ctx, uint64_t idx, char *out, size_t sz)
{
	space *sp = ctx;
	switch (sp->kind) {
	case K_PATH:
		gen_path(sp, idx, out);
		break;
	case K_UTF8:
		gen_utf8(sp, idx, out);
		break;
	case K_SCHEME:
		snprintf(out, sz, "%s", S_in[idx]);
		break;
	case K_AUTH:
		snprintf(out, sz, "%s", A_in[idx]);
		break;
	default:
		snprintf(out, sz, "%s", L_in[idx]);
		break;
	}
}

static int
test(void *ctx, uint64_t idx, ve_res *res, char *sig, size_t sigsz, char *msg,
    size_t msgsz)
{
	char in[4400];
	gen(ctx, idx, in, sizeof(in));
	return check_input(in, res, sig, sigsz, msg, msgsz);
}

static void
desc(void *ctx, uint64_t idx, char *out, size_t sz)
{
	char in[4400];
	gen(ctx, idx, in, sizeof(in));
	snprintf(out, sz, "%s", show(in));
}

int
main(int argc, char **argv)
{
	vx_init(argc, argv, "C19");
	int T = vx_is_thorough();
	mk_scheme_space();
	mk_auth_space();
	mk_long_space();
	space sp;
	// self-test of the reference validator on a few fixed points
	{
		static const struct {
			const char *s;
			int         ok;
		} tv[] = { { "\xc2\x80", 1 }, { "\xc1\xbf", 0 }, { "\xe0\x9f\xbf", 0 },
			{ "\xe0\xa0\x80", 1 }, { "\xed\xa0\x80", 0 }, { "\xed\x9f\xbf", 1 },
			{ "\xf4\x8f\xbf\xbf", 1 }, { "\xf4\x90\x80\x80", 0 },
			{ "\xf0\x8f\xbf\xbf", 0 }, { "\x80", 0 }, { "a\xe2\x82", 0 },
			{ "\xe2\x82\xac", 1 } };
		for (size_t i = 0; i < sizeof(tv) / sizeof(tv[0]); i++)
			if (ref_utf8_ok((const uint8_t *) tv[i].s, strlen(tv[i].s)) !=
			    tv[i].ok) {
				fprintf(stderr, "reference UTF-8 validator self-test %zu\n", i);
				return 2;
			}
	}
	sp = (space){ "schemes", K_SCHEME, 0, S_n };
	ve_run("schemes", &sp, sp.n, test, desc, 16);
	sp = (space){ "authority", K_AUTH, 0, A_n };
	ve_run("authority", &sp, sp.n, test, desc, 16);
	sp = (space){ "long", K_LONG, 0, L_n };
	ve_run("long", &sp, sp.n, test, desc, 16);
	int      L   = T ? 6 : 5;
	uint64_t per = 0, c = 1;
	for (int k = 0; k <= L; k++) {
		per += c;
		c *= NPA;
	}
	sp = (space){ "paths", K_PATH, L, per * 3 };
	ve_run("paths", &sp, sp.n, test, desc, 16);
	u_full = T;
	u_nb   = T ? 255 : NUB;
	sp     = (space){ "utf8", K_UTF8, 0,
		    (uint64_t) 2 * NSUF * 128 * (uint64_t) (u_nb + 1) *
		        (uint64_t) (u_nb + 1) };
	ve_run("utf8", &sp, sp.n, test, desc, 16);
	vx_note("alphabets",
	    "schemes: every table entry, every proper prefix, upper case, 6 one-"
	    "letter extensions x 8 separators; authority: 32 forms x 5 schemes x 6 "
	    "tails; long: lengths 100..170 and 255,256,257,1023,4096 x 5 prefixes; "
	    "paths: every string of length <= %d over '%s' after 3 prefixes; utf8: "
	    "every lead byte 0x80..0xff x {continuation domain of %d values or "
	    "absent}^2 plus 4-byte boundary forms, raw and percent-encoded, 4 "
	    "suffixes",
	    L, PA, u_nb);
	return vx_finish();
}
