// C02 - every asynchronous operation completes exactly once.
// Stateless model checking of the real aio core: each scenario is a small
// multi-threaded program over the public API; the explorer enumerates all
// schedules within the preemption/timer budgets and the ledger oracle (A.6)
// is evaluated on every execution.
#define _GNU_SOURCE
#include "valloc.h"
#include "vpeer.h"
#include "vs.h"
#include <nng/http.h>
#include <arpa/inet.h>
#include <errno.h>
#include <fcntl.h>
#include <netinet/in.h>
#include <pthread.h>
#include <stdlib.h>
#include <string.h>
#include <sys/socket.h>
#include <sys/un.h>
#include <unistd.h>

// ---- ledger ---------------------------------------------------------------
typedef struct op {
	nng_aio *aio;
	int      ncb;       // callbacks seen
	int      result;    // of the last callback
	int64_t  t_start;   // virtual submit time
	int64_t  t_cb;      // virtual callback time
	int      timeout;   // ms, -1 none
	int      in_cb;     // callback currently executing
	int      stopped;   // nng_aio_stop returned
	int      resubmit;  // times to resubmit from callback
	int      submitted; // number of submissions
	nng_msg *msg;
	int      slow_ms;   // the callback takes this long before it re-submits
} op;

static void
op_cb(void *arg)
{
	op *o = arg;
	if (o->stopped)
		vs_fail("C02:callback-after-stop",
		    "callback began after nng_aio_stop/free returned (result %d)",
		    nng_aio_result(o->aio));
	o->in_cb = 1;
	o->ncb++;
	o->result = nng_aio_result(o->aio);
	o->t_cb   = vs_now();
	if (o->ncb > o->submitted)
		vs_fail("C02:double-callback",
		    "callback #%d for %d submissions (result %s)", o->ncb,
		    o->submitted, nng_strerror(o->result));
	if (o->result == NNG_ETIMEDOUT && o->timeout >= 0 &&
	    o->t_cb < o->t_start + o->timeout)
		vs_fail("C02:early-timeout", "ETIMEDOUT at +%lld ms, timeout %d ms",
		    (long long) (o->t_cb - o->t_start), o->timeout);
	if (o->resubmit > 0 && o->result == 0) {
		if (o->slow_ms)
			nng_msleep(o->slow_ms);
		o->resubmit--;
		o->submitted++;
		o->t_start = vs_now();
		nng_sleep_aio(o->timeout >= 0 ? o->timeout : 5, o->aio);
	}
	o->in_cb = 0;
}

static void
allowed(op *o, const char *what, const int *set, int n)
{
	for (int i = 0; i < n; i++)
		if (o->result == set[i])
			return;
	vs_fail("C02:bad-result", "%s completed with unexpected result %d (%s)",
	    what, o->result, nng_strerror(o->result));
}

// ---- S1: sleep || cancel || expiry ------------------------------------------
static op S1;
static void *
s1_canceller(void *a)
{
	(void) a;
	nng_aio_cancel(S1.aio);
	return NULL;
}
static void
run_s1(void *arg)
{
	(void) arg;
	vh_init(0);
	memset(&S1, 0, sizeof(S1));
	VH_OK(nng_aio_alloc(&S1.aio, op_cb, &S1));
	vs_settle();
	pthread_t th;
	S1.timeout   = 10;
	S1.t_start   = vs_now();
	S1.submitted = 1;
	vs_window(1);
	nng_sleep_aio(10, S1.aio);
	pthread_create(&th, NULL, s1_canceller, NULL);
	nng_aio_wait(S1.aio);
	if (S1.ncb != 1 || S1.in_cb)
		vs_fail("C02:wait-before-callback",
		    "nng_aio_wait returned with %d callbacks (in_cb=%d)", S1.ncb,
		    S1.in_cb);
	pthread_join(th, NULL);
	vs_window(0);
	vs_settle();
	vs_sleep(30);
	if (S1.ncb != 1)
		vs_fail("C02:callback-count", "sleep aio: %d callbacks", S1.ncb);
	static const int ok[] = { 0, NNG_ECANCELED };
	allowed(&S1, "sleep", ok, 2);
	if (S1.result == 0 && S1.t_cb < S1.t_start + 10)
		vs_fail("C02:early-timeout", "sleep(10) finished after %lld ms",
		    (long long) (S1.t_cb - S1.t_start));
	vs_outcome("%s", S1.result == 0 ? "slept" : "cancelled");
	vs_log("result=%d t=+%lld", S1.result, (long long) (S1.t_cb - S1.t_start));
	nng_aio_free(S1.aio);
	vh_fini();
}

// ---- S2: sleep || stop+free -------------------------------------------------
static void *
s2_stopper(void *a)
{
	op *o = a;
	nng_aio_stop(o->aio);
	if (o->in_cb)
		vs_fail("C02:stop-returned-during-callback",
		    "nng_aio_stop returned while the callback was running");
	o->stopped = 1;
	return NULL;
}
// nng_aio_free without a prior stop: the same promise, and the aio's memory is gone afterwards
static void *
s2_freer(void *a)
{
	op *o = a;
	nng_aio_free(o->aio);
	if (o->in_cb)
		vs_fail("C02:stop-returned-during-callback",
		    "nng_aio_free returned while the callback was running");
	o->stopped = 1;
	return NULL;
}
static int s2_delay;
static void *
s2_late_freer(void *a)
{
	vs_sleep(s2_delay);
	return s2_freer(a);
}
static void *
s2_late_stopper(void *a)
{
	vs_sleep(s2_delay);
	return s2_stopper(a);
}
// S2g: the callback of a completed operation is busy (3 ms) and then re-arms the same aio, while
// nng_aio_free / nng_aio_stop is called at every instant around that: the re-armed operation must
// be refused (one more callback with NNG_ESTOPPED) - never accepted and left behind on an aio that
// is then released
static void
run_s2g(void *arg)
{
	int usefree = (int) (intptr_t) arg;
	vh_init(0);
	static op o;
	memset(&o, 0, sizeof(o));
	VH_OK(nng_aio_alloc(&o.aio, op_cb, &o));
	vs_settle();
	s2_delay    = 2 + vs_choose(VK_ENV, 10); // 2..11 ms: before, during and after the callback
	o.timeout   = 5;
	o.t_start   = vs_now();
	o.submitted = 1;
	o.resubmit  = 60; // (a timer that re-arms itself for ever, as far as this run is concerned)
	o.slow_ms   = 3;
	pthread_t th;
	nng_sleep_aio(5, o.aio);
	pthread_create(&th, NULL, usefree ? s2_late_freer : s2_late_stopper, &o);
	pthread_join(th, NULL);
	int ncb_at_stop = o.ncb;
	// the call was made s2_delay ms after the start; each round of the timer takes 8 ms: by the
	// time it returns at most the round in progress and one refused re-arm may have completed
	if (o.ncb > s2_delay / 8 + 3)
		vs_fail("C02:stop-does-not-stop",
		    "%s was called %d ms after the start and returned only after %d callbacks: "
		    "operations submitted by the callback while it was in progress were accepted",
		    usefree ? "nng_aio_free" : "nng_aio_stop", s2_delay, o.ncb);
	vs_settle();
	vs_sleep(50);
	if (o.ncb != ncb_at_stop)
		vs_fail("C02:callback-after-stop", "%d callbacks when %s returned, %d later",
		    ncb_at_stop, usefree ? "nng_aio_free" : "nng_aio_stop", o.ncb);
	if (o.ncb != o.submitted)
		vs_fail("C02:callback-count", "%d submissions, %d callbacks", o.submitted, o.ncb);
	vs_outcome("delay=%d ncb=%d last=%d", s2_delay, o.ncb, o.result);
	if (!usefree)
		nng_aio_free(o.aio);
	vh_fini();
}
static void
run_s2(void *arg)
{
	int resub   = (int) (intptr_t) arg & 0xff;
	int usefree = ((int) (intptr_t) arg >> 8) & 1;
	vh_init(0);
	static op o;
	memset(&o, 0, sizeof(o));
	VH_OK(nng_aio_alloc(&o.aio, op_cb, &o));
	vs_settle();
	pthread_t th;
	o.timeout   = 5;
	o.t_start   = vs_now();
	o.submitted = 1;
	o.resubmit  = resub;
	vs_window(1);
	nng_sleep_aio(5, o.aio);
	pthread_create(&th, NULL, usefree ? s2_freer : s2_stopper, &o);
	pthread_join(th, NULL);
	vs_window(0);
	int ncb_at_stop = o.ncb;
	vs_settle();
	vs_sleep(50);
	if (o.ncb != ncb_at_stop)
		vs_fail("C02:callback-after-stop",
		    "%d callbacks at stop return, %d later", ncb_at_stop, o.ncb);
	if (o.ncb != o.submitted)
		vs_fail("C02:callback-count", "%d submissions, %d callbacks",
		    o.submitted, o.ncb);
	static const int ok[] = { 0, NNG_ECANCELED, NNG_ESTOPPED };
	allowed(&o, "sleep", ok, 3);
	vs_outcome("ncb=%d last=%d", o.ncb, o.result);
	if (!usefree)
		nng_aio_free(o.aio);
	vh_fini();
}

// ---- S3: timed recv || arriving message || cancel ---------------------------
typedef struct s3arg {
	int arrive_at; // ms after start; -1 never
	int do_cancel;
	int proto; // index into S3P: which receive path
} s3arg;
// receive paths: every protocol's socket receive (cooked: own queues; raw: the core msgq)
static const struct {
	const char *name;
	int (*open_rx)(nng_socket *);
	int (*open_tx)(nng_socket *);
	int lossy; // best-effort delivery: the message may legitimately be dropped
} S3P[] = {
	{ "pair0", nng_pair0_open, nng_pair0_open, 0 },
	{ "pull", nng_pull0_open, nng_push0_open, 0 },
	{ "pair1", nng_pair1_open, nng_pair1_open, 0 },
	{ "sub", nng_sub0_open, nng_pub0_open, 1 },
	{ "bus", nng_bus0_open, nng_bus0_open, 1 },
	{ "rep", nng_rep0_open, nng_req0_open, 0 },
	{ "respondent", nng_respondent0_open, nng_surveyor0_open, 1 },
	{ "xsub", nng_sub0_open_raw, nng_pub0_open, 1 },
	{ "xrep", nng_rep0_open_raw, nng_req0_open, 0 },
	{ "xrespondent", nng_respondent0_open_raw, nng_surveyor0_open, 1 },
	{ "xpair1", nng_pair1_open_raw, nng_pair1_open, 0 },
	{ "xbus", nng_bus0_open_raw, nng_bus0_open, 1 },
};
#define NS3P ((int) (sizeof(S3P) / sizeof(S3P[0])))
static op         S3;
static nng_socket s3a, s3b;
static void *
s3_canceller(void *a)
{
	(void) a;
	nng_aio_cancel(S3.aio);
	return NULL;
}
static void *
s3_sender(void *a)
{
	s3arg *x = a;
	if (x->arrive_at > 0)
		vs_sleep(x->arrive_at);
	int rv = vh_send_nb(s3b, "m", 1);
	vs_log("send rv=%d", rv);
	return (void *) (intptr_t) rv;
}
static void
run_s3(void *arg)
{
	s3arg *x = arg;
	vh_init(0);
	memset(&S3, 0, sizeof(S3));
	VH_OK(S3P[x->proto].open_rx(&s3a));
	VH_OK(S3P[x->proto].open_tx(&s3b));
	if (!strcmp(S3P[x->proto].name, "sub"))
		VH_OK(nng_sub0_socket_subscribe(s3a, "", 0));
	VH_OK(nng_listen(s3a, "inproc://s3", NULL, 0));
	VH_OK(nng_dial(s3b, "inproc://s3", NULL, 0));
	vs_settle();
	VH_OK(nng_aio_alloc(&S3.aio, op_cb, &S3));
	nng_aio_set_timeout(S3.aio, 10);
	S3.timeout   = 10;
	S3.t_start   = vs_now();
	S3.submitted = 1;
	pthread_t ts, tc;
	vs_window(1);
	nng_socket_recv(s3a, S3.aio);
	pthread_create(&ts, NULL, s3_sender, x);
	if (x->do_cancel)
		pthread_create(&tc, NULL, s3_canceller, NULL);
	void *srv;
	pthread_join(ts, &srv);
	if (x->do_cancel)
		pthread_join(tc, NULL);
	nng_aio_wait(S3.aio);
	vs_window(0);
	vs_settle();
	vs_sleep(30);
	if (S3.ncb != 1)
		vs_fail("C02:callback-count", "recv aio: %d callbacks", S3.ncb);
	static const int ok[] = { 0, NNG_ECANCELED, NNG_ETIMEDOUT };
	allowed(&S3, "recv", ok, 3);
	// message conservation: delivered by this receive xor still receivable
	int      got = 0;
	nng_msg *m;
	if (S3.result == 0) {
		m = nng_aio_get_msg(S3.aio);
		if (m == NULL || nng_msg_len(m) != 1)
			vs_fail("C02:result-without-effect",
			    "%s recv result 0 but no message", S3P[x->proto].name);
		nng_msg_free(m);
		got++;
	}
	while (nng_recvmsg(s3a, &m, NNG_FLAG_NONBLOCK) == 0) {
		nng_msg_free(m);
		got++;
	}
	int sent = ((intptr_t) srv == 0) ? 1 : 0;
	if (got > sent || (got != sent && !S3P[x->proto].lossy))
		vs_fail("C02:message-conservation",
		    "%s: sent %d message(s), receive result %d, total receivable %d",
		    S3P[x->proto].name, sent, S3.result, got);
	vs_outcome("res=%d sent=%d got=%d", S3.result, sent, got);
	nng_aio_free(S3.aio);
	nng_socket_close(s3a);
	nng_socket_close(s3b);
	vh_fini();
}

// ---- S6: nng_dialer_start_aio with special aio states -----------------------
typedef struct s6arg {
	int mode; // 0 fresh, 1 zero timeout, 2 stopped aio, 3 cancel race
} s6arg;
static op S6;
static void *
s6_canceller(void *a)
{
	(void) a;
	nng_aio_cancel(S6.aio);
	return NULL;
}
static void
run_s6(void *arg)
{
	s6arg *x = arg;
	vh_init(0);
	memset(&S6, 0, sizeof(S6));
	nng_socket a, b;
	nng_dialer d;
	VH_OK(nng_pair0_open(&a));
	VH_OK(nng_pair0_open(&b));
	VH_OK(nng_listen(a, "inproc://s6", NULL, 0));
	VH_OK(nng_dialer_create(&d, b, "inproc://s6"));
	VH_OK(nng_aio_alloc(&S6.aio, op_cb, &S6));
	S6.timeout = -1;
	if (x->mode == 1) {
		nng_aio_set_timeout(S6.aio, 0);
	}
	if (x->mode == 2)
		nng_aio_stop(S6.aio);
	vs_settle();
	S6.t_start   = vs_now();
	S6.submitted = 1;
	pthread_t tc;
	vs_window(1);
	nng_dialer_start_aio(d, NNG_FLAG_NONBLOCK, S6.aio);
	if (x->mode == 3)
		pthread_create(&tc, NULL, s6_canceller, NULL);
	nng_aio_wait(S6.aio);
	if (x->mode == 3)
		pthread_join(tc, NULL);
	vs_window(0);
	vs_settle();
	vs_sleep(20);
	if (S6.ncb != 1)
		vs_fail("C02:callback-count",
		    "dialer_start_aio mode %d: %d callbacks (last result %s)",
		    x->mode, S6.ncb, nng_strerror(S6.result));
	static const int ok[] = { 0, NNG_ECANCELED, NNG_ETIMEDOUT, NNG_ESTOPPED,
		NNG_ECONNREFUSED, NNG_ESTATE, NNG_ECLOSED };
	allowed(&S6, "dialer_start_aio", ok, 7);
	if (x->mode == 2 && S6.result != NNG_ESTOPPED)
		vs_fail("C02:bad-result",
		    "stopped aio completed with %d, want ESTOPPED", S6.result);
	vs_outcome("mode=%d res=%d", x->mode, S6.result);
	nng_socket_close(a);
	nng_socket_close(b);
	nng_aio_free(S6.aio);
	vh_fini();
}

// ---- S9: pending recv || socket close ----------------------------------------
static op S9;
static nng_socket s9;
static void *
s9_closer(void *a)
{
	(void) a;
	nng_socket_close(s9);
	return NULL;
}
static void
run_s9(void *arg)
{
	int proto = (int) (intptr_t) arg;
	vh_init(0);
	memset(&S9, 0, sizeof(S9));
	switch (proto) {
	case 0:
		VH_OK(nng_pair0_open(&s9));
		break;
	case 1:
		VH_OK(nng_pull0_open(&s9));
		break;
	case 2:
		VH_OK(nng_rep0_open(&s9));
		break;
	default:
		VH_OK(nng_sub0_open(&s9));
		break;
	}
	VH_OK(nng_aio_alloc(&S9.aio, op_cb, &S9));
	vs_settle();
	S9.timeout   = -1;
	S9.t_start   = vs_now();
	S9.submitted = 1;
	pthread_t tc;
	vs_window(1);
	nng_socket_recv(s9, S9.aio);
	pthread_create(&tc, NULL, s9_closer, NULL);
	nng_aio_wait(S9.aio);
	pthread_join(tc, NULL);
	vs_window(0);
	vs_settle();
	if (S9.ncb != 1)
		vs_fail("C02:callback-count", "recv||close: %d callbacks", S9.ncb);
	static const int ok[] = { NNG_ECLOSED, NNG_ECANCELED };
	allowed(&S9, "recv||close", ok, 2);
	vs_outcome("proto=%d res=%d", proto, S9.result);
	nng_aio_free(S9.aio);
	vh_fini();
}

// ---- S4: REQ ctx recv || cancel || reply arriving ------------------------------
static op S4;
static void *
s4_canceller(void *a)
{
	(void) a;
	nng_aio_cancel(S4.aio);
	return NULL;
}
static void
run_s4(void *arg)
{
	int do_cancel = (int) (intptr_t) arg;
	vh_init(0);
	memset(&S4, 0, sizeof(S4));
	nng_socket req;
	nng_ctx    ctx;
	VH_OK(nng_req0_open(&req));
	VH_OK(nng_socket_set_ms(req, NNG_OPT_REQ_RESENDTIME, NNG_DURATION_INFINITE));
	VH_OK(nng_ctx_open(&ctx, req));
	int fd = vp_connect_raw(req, SP_REP, NULL);
	if (fd < 0)
		vs_fail("harness:setup", "raw replier");
	nng_msg *m;
	VH_OK(nng_msg_alloc(&m, 0));
	VH_OK(nng_msg_append(m, "q", 1));
	VH_OK(nng_ctx_sendmsg(ctx, m, 0));
	vs_settle();
	vp_rd         *rd = calloc(1, sizeof(*rd));
	const uint8_t *p;
	size_t         l;
	if (vp_next_frame(fd, rd, &p, &l) != 1 || l != 5)
		vs_fail("harness:setup", "request not on the wire");
	uint8_t id[4];
	memcpy(id, p, 4);
	VH_OK(nng_aio_alloc(&S4.aio, op_cb, &S4));
	S4.timeout   = -1;
	S4.t_start   = vs_now();
	S4.submitted = 1;
	pthread_t tc;
	vs_window(1);
	nng_ctx_recv(ctx, S4.aio);
	if (do_cancel)
		pthread_create(&tc, NULL, s4_canceller, NULL);
	vp_send(fd, id, 4, "a", 1); // the reply arrives while the cancel races
	if (do_cancel)
		pthread_join(tc, NULL);
	nng_aio_wait(S4.aio);
	vs_window(0);
	vs_settle();
	if (S4.ncb != 1)
		vs_fail("C02:callback-count", "ctx recv: %d callbacks", S4.ncb);
	static const int ok[] = { 0, NNG_ECANCELED };
	allowed(&S4, "ctx recv", ok, 2);
	if (S4.result == 0) {
		nng_msg *r = nng_aio_get_msg(S4.aio);
		if (r == NULL || nng_msg_len(r) != 1)
			vs_fail("C02:result-without-effect", "recv 0 without the reply");
		nng_msg_free(r);
	}
	vs_outcome("cancel=%d res=%d", do_cancel, S4.result);
	free(rd);
	nng_aio_free(S4.aio);
	close(fd);
	nng_ctx_close(ctx);
	nng_socket_close(req);
	vh_fini();
}

// ---- S7: device aio || cancel || traffic ---------------------------------------
static op S7;
static void *
s7_canceller(void *a)
{
	(void) a;
	nng_aio_cancel(S7.aio);
	return NULL;
}
static void
run_s7(void *arg)
{
	(void) arg;
	vh_init(0);
	memset(&S7, 0, sizeof(S7));
	nng_socket f, b, req, rep;
	VH_OK(nng_rep0_open_raw(&f));
	VH_OK(nng_req0_open_raw(&b));
	VH_OK(nng_req0_open(&req));
	VH_OK(nng_rep0_open(&rep));
	VH_OK(nng_listen(f, "inproc://s7f", NULL, 0));
	VH_OK(nng_listen(rep, "inproc://s7b", NULL, 0));
	VH_OK(nng_dial(b, "inproc://s7b", NULL, 0));
	VH_OK(nng_dial(req, "inproc://s7f", NULL, 0));
	VH_OK(nng_aio_alloc(&S7.aio, op_cb, &S7));
	vs_settle();
	S7.timeout   = -1;
	S7.submitted = 1;
	S7.t_start   = vs_now();
	pthread_t tc;
	nng_device_aio(S7.aio, f, b);
	vs_settle();
	(void) vh_send_nb(req, "ping", 4); // traffic in flight while we cancel
	vs_window(1);
	pthread_create(&tc, NULL, s7_canceller, NULL);
	nng_aio_wait(S7.aio);
	pthread_join(tc, NULL);
	vs_window(0);
	vs_settle();
	if (S7.ncb != 1)
		vs_fail("C02:callback-count", "device aio: %d callbacks", S7.ncb);
	static const int ok[] = { NNG_ECANCELED, NNG_ECLOSED, 0 };
	allowed(&S7, "device", ok, 3);
	vs_outcome("res=%d", S7.result);
	nng_aio_free(S7.aio);
	nng_socket_close(req);
	nng_socket_close(rep);
	nng_socket_close(f);
	nng_socket_close(b);
	vh_fini();
}

// ---- S7b: one-path device (raw SUB -> raw PUB) cancelled under traffic ------------
static void
run_s7b(void *arg)
{
	(void) arg;
	vh_init(0);
	memset(&S7, 0, sizeof(S7));
	nng_socket xs, xp, pub, sub;
	VH_OK(nng_sub0_open_raw(&xs));
	VH_OK(nng_pub0_open_raw(&xp));
	VH_OK(nng_pub0_open(&pub));
	VH_OK(nng_sub0_open(&sub));
	VH_OK(nng_sub0_socket_subscribe(sub, "", 0));
	VH_OK(nng_listen(pub, "inproc://s7b-up", NULL, 0));
	VH_OK(nng_dial(xs, "inproc://s7b-up", NULL, 0));
	VH_OK(nng_listen(xp, "inproc://s7b-down", NULL, 0));
	VH_OK(nng_dial(sub, "inproc://s7b-down", NULL, 0));
	VH_OK(nng_aio_alloc(&S7.aio, op_cb, &S7));
	vs_settle();
	S7.timeout   = -1;
	S7.submitted = 1;
	S7.t_start   = vs_now();
	nng_device_aio(S7.aio, xs, xp);
	vs_settle();
	pthread_t tc;
	// traffic in flight: the single forwarding aio is between operations
	// some of the time
	(void) vh_send_nb(pub, "m1", 2);
	(void) vh_send_nb(pub, "m2", 2);
	vs_window(1);
	pthread_create(&tc, NULL, s7_canceller, NULL);
	nng_aio_wait(S7.aio);
	pthread_join(tc, NULL);
	vs_window(0);
	vs_settle();
	if (S7.ncb != 1)
		vs_fail("C02:callback-count", "device aio: %d callbacks", S7.ncb);
	static const int ok[] = { NNG_ECANCELED, NNG_ECLOSED };
	allowed(&S7, "device", ok, 2);
	vs_outcome("res=%d", S7.result);
	nng_aio_free(S7.aio);
	nng_socket_close(pub);
	nng_socket_close(sub);
	nng_socket_close(xs);
	nng_socket_close(xp);
	vh_fini();
}

// ---- S7c: device between raw PAIR1 sockets (synchronous completions) ---------------
static void
run_s7c(void *arg)
{
	(void) arg;
	vh_init(0);
	memset(&S7, 0, sizeof(S7));
	nng_socket d1, d2, e1, e2;
	VH_OK(nng_pair1_open_raw(&d1));
	VH_OK(nng_pair1_open_raw(&d2));
	VH_OK(nng_pair1_open(&e1));
	VH_OK(nng_pair1_open(&e2));
	VH_OK(nng_listen(d1, "inproc://s7c-1", NULL, 0));
	VH_OK(nng_listen(d2, "inproc://s7c-2", NULL, 0));
	VH_OK(nng_dial(e1, "inproc://s7c-1", NULL, 0));
	VH_OK(nng_dial(e2, "inproc://s7c-2", NULL, 0));
	VH_OK(nng_aio_alloc(&S7.aio, op_cb, &S7));
	vs_settle();
	S7.timeout   = -1;
	S7.submitted = 1;
	S7.t_start   = vs_now();
	nng_device_aio(S7.aio, d1, d2);
	vs_settle();
	pthread_t tc;
	(void) vh_send_nb(e1, "m1", 2);
	(void) vh_send_nb(e2, "m2", 2);
	vs_window(1);
	pthread_create(&tc, NULL, s7_canceller, NULL);
	pthread_join(tc, NULL);
	// bounded wait (the dialers of e1/e2 keep redialing, so virtual time
	// never stops by itself)
	for (int i = 0; i < 40 && S7.ncb == 0; i++)
		vs_sleep(50);
	vs_window(0);
	if (S7.ncb == 0)
		vs_fail("C02:never-completes:S7c-pair1-device",
		    "device aio still pending 2 s after nng_aio_cancel returned");
	vs_settle();
	if (S7.ncb != 1)
		vs_fail("C02:callback-count", "device aio: %d callbacks", S7.ncb);
	static const int ok[] = { NNG_ECANCELED, NNG_ECLOSED };
	allowed(&S7, "device", ok, 2);
	vs_outcome("res=%d", S7.result);
	nng_aio_free(S7.aio);
	nng_socket_close(e1);
	nng_socket_close(e2);
	nng_socket_close(d1);
	nng_socket_close(d2);
	vh_fini();
}

// ---- S8: stream recv over a socketpair || cancel || peer write / close ---------
static op S8;
static void *
s8_canceller(void *a)
{
	(void) a;
	nng_aio_cancel(S8.aio);
	return NULL;
}
static void
run_s8(void *arg)
{
	int peer_action = (int) (intptr_t) arg; // 0 write, 1 close, 2 nothing
	vh_init(0);
	memset(&S8, 0, sizeof(S8));
	nng_stream_listener *sl;
	nng_aio             *acc;
	int                  sv[2];
	if (socketpair(AF_UNIX, SOCK_STREAM, 0, sv) != 0)
		vs_fail("harness:setup", "socketpair");
	VH_OK(nng_stream_listener_alloc(&sl, "socket://"));
	VH_OK(nng_stream_listener_listen(sl));
	VH_OK(nng_aio_alloc(&acc, NULL, NULL));
	nng_stream_listener_accept(sl, acc);
	VH_OK(nng_stream_listener_set_int(sl, NNG_OPT_SOCKET_FD, sv[0]));
	nng_aio_wait(acc);
	if (nng_aio_result(acc) != 0)
		vs_fail("harness:setup", "stream accept: %d", nng_aio_result(acc));
	nng_stream *st = nng_aio_get_output(acc, 0);
	VH_OK(nng_aio_alloc(&S8.aio, op_cb, &S8));
	static char buf[8];
	nng_iov     iov = { .iov_buf = buf, .iov_len = sizeof(buf) };
	nng_aio_set_iov(S8.aio, 1, &iov);
	nng_aio_set_timeout(S8.aio, 10);
	S8.timeout   = 10;
	S8.t_start   = vs_now();
	S8.submitted = 1;
	vs_settle();
	pthread_t tc;
	vs_window(1);
	nng_stream_recv(st, S8.aio);
	pthread_create(&tc, NULL, s8_canceller, NULL);
	if (peer_action == 0) {
		if (write(sv[1], "xyz", 3) != 3)
			vs_fail("harness:peer", "write");
	} else if (peer_action == 1)
		close(sv[1]);
	pthread_join(tc, NULL);
	nng_aio_wait(S8.aio);
	vs_window(0);
	vs_settle();
	vs_sleep(30);
	if (S8.ncb != 1)
		vs_fail("C02:callback-count", "stream recv: %d callbacks", S8.ncb);
	static const int ok[] = { 0, NNG_ECANCELED, NNG_ETIMEDOUT, NNG_ECONNSHUT,
		NNG_ECLOSED, NNG_ECONNRESET };
	allowed(&S8, "stream recv", ok, 6);
	int first = S8.result;
	if (S8.result == 0 &&
	    (nng_aio_count(S8.aio) != 3 || memcmp(buf, "xyz", 3) != 0))
		vs_fail("C02:result-without-effect", "stream recv 0 with %zu bytes",
		    nng_aio_count(S8.aio));
	if (S8.result != 0 && peer_action == 0) {
		// the bytes must still be readable: an error means no effect
		char b2[8];
		S8.submitted++;
		nng_iov iov2 = { .iov_buf = b2, .iov_len = sizeof(b2) };
		nng_aio_set_iov(S8.aio, 1, &iov2);
		nng_aio_set_timeout(S8.aio, 20);
		S8.t_start = vs_now();
		S8.timeout = 20;
		nng_stream_recv(st, S8.aio);
		nng_aio_wait(S8.aio);
		if (S8.result != 0 || nng_aio_count(S8.aio) != 3 ||
		    memcmp(b2, "xyz", 3) != 0)
			vs_fail("C02:message-conservation",
			    "stream recv failed (%d) and the 3 bytes are gone (second "
			    "read: %d, %zu bytes)",
			    S8.result, S8.result, nng_aio_count(S8.aio));
	}
	vs_outcome("peer=%d res=%d", peer_action, first);
	nng_aio_free(S8.aio);
	nng_aio_free(acc);
	nng_stream_close(st);
	nng_stream_free(st);
	nng_stream_listener_close(sl);
	nng_stream_listener_free(sl);
	if (peer_action != 1)
		close(sv[1]);
	vh_fini();
}

// ---- S16: a byte stream with writes queued behind a stalled one: close / peer loss / cancel -------
// nng_stream (socket://, ipc, tcp, ws) towards a raw peer that does not read.  Three sends larger
// than the kernel buffers and one receive are pending, so at least one send sits in the
// connection's write queue behind a partially written one.  Then the stream is closed, or the peer
// goes away, or a queued send is cancelled and the peer starts reading - optionally racing with a
// cancel of another operation.  Every one of the four operations must complete exactly once, with
// a result from the allowed set, within bounded virtual time.
enum { S16_SOCKFD, S16_IPC, S16_TCP, S16_WS };
static const char *S16N[] = { "socketfd", "ipc", "tcp", "ws" };
#define S16MAX 104
static op          S16[S16MAX];
static int         s16n;
static void *
s16_canceller(void *a)
{
	nng_aio_cancel(((op *) a)->aio);
	return NULL;
}
static void
run_s16(void *arg)
{
	int tran = (int) (intptr_t) arg;
	if (tran == S16_TCP || tran == S16_WS)
		vs_tcp_grace_us = 1500;
	vh_init(0);
	memset(S16, 0, sizeof(S16));
	nng_stream_listener *sl;
	nng_aio             *acc;
	int                  fd = -1, port = 0, sv[2];
	char                 path[160] = "", url[200];
	switch (tran) {
	case S16_SOCKFD:
		if (socketpair(AF_UNIX, SOCK_STREAM, 0, sv) != 0)
			vs_fail("harness:setup", "socketpair");
		VH_OK(nng_stream_listener_alloc(&sl, "socket://"));
		break;
	case S16_IPC:
		snprintf(path, sizeof(path), "%s/c02s16-%d", vx_rundir(), (int) getpid());
		snprintf(url, sizeof(url), "ipc://%s", path);
		VH_OK(nng_stream_listener_alloc(&sl, url));
		break;
	case S16_TCP:
		VH_OK(nng_stream_listener_alloc(&sl, "tcp://127.0.0.1:0"));
		break;
	default:
		VH_OK(nng_stream_listener_alloc(&sl, "ws://127.0.0.1:0/s16"));
		break;
	}
	VH_OK(nng_stream_listener_listen(sl));
	VH_OK(nng_aio_alloc(&acc, NULL, NULL));
	nng_stream_listener_accept(sl, acc);
	if (tran == S16_SOCKFD) {
		VH_OK(nng_stream_listener_set_int(sl, NNG_OPT_SOCKET_FD, sv[0]));
		fd = sv[1];
	} else if (tran == S16_IPC) {
		struct sockaddr_un sa;
		memset(&sa, 0, sizeof(sa));
		sa.sun_family = AF_UNIX;
		snprintf(sa.sun_path, sizeof(sa.sun_path), "%s", path);
		fd = socket(AF_UNIX, SOCK_STREAM, 0);
		if (connect(fd, (struct sockaddr *) &sa, sizeof(sa)) != 0)
			vs_fail("harness:peer", "ipc connect: %s", strerror(errno));
	} else {
		VH_OK(nng_stream_listener_get_int(sl, NNG_OPT_BOUND_PORT, &port));
		struct sockaddr_in sa;
		memset(&sa, 0, sizeof(sa));
		sa.sin_family      = AF_INET;
		sa.sin_port        = htons((uint16_t) port);
		sa.sin_addr.s_addr = htonl(INADDR_LOOPBACK);
		fd                 = socket(AF_INET, SOCK_STREAM, 0);
		int small          = 4096;
		setsockopt(fd, SOL_SOCKET, SO_RCVBUF, &small, sizeof(small));
		if (connect(fd, (struct sockaddr *) &sa, sizeof(sa)) != 0)
			vs_fail("harness:peer", "tcp connect: %s", strerror(errno));
	}
	fcntl(fd, F_SETFL, fcntl(fd, F_GETFL) | O_NONBLOCK);
	vs_settle();
	if (tran == S16_WS) {
		static const char req[] =
		    "GET /s16 HTTP/1.1\r\nHost: 127.0.0.1\r\nUpgrade: websocket\r\n"
		    "Connection: Upgrade\r\nSec-WebSocket-Key: dGhlIHNhbXBsZSBub25jZQ==\r\n"
		    "Sec-WebSocket-Version: 13\r\n\r\n";
		char resp[1024];
		vp_write_all(fd, req, sizeof(req) - 1);
		vs_settle();
		vs_sleep(2);
		if (vp_read_avail(fd, resp, sizeof(resp)) < 12 ||
		    memcmp(resp, "HTTP/1.1 101", 12) != 0)
			vs_fail("harness:peer", "ws upgrade");
	}
	nng_aio_wait(acc);
	if (nng_aio_result(acc) != 0)
		vs_fail("harness:setup", "stream accept: %d", nng_aio_result(acc));
	nng_stream *st = nng_aio_get_output(acc, 0);
	size_t       sz   = tran == S16_TCP ? (3u << 20) : (512u << 10);
	// (a websocket stream sends one frame of at most 64 KB per operation: 100 of them are
	// needed before one is stuck behind the peer's closed window)
	s16n = tran == S16_WS ? 101 : 4;
	if (tran == S16_WS)
		sz = 65536;
	uint8_t     *sbuf = malloc(sz);
	static char  rbuf[64];
	memset(sbuf, 0x6b, sz);
	for (int i = 0; i < s16n; i++) {
		VH_OK(nng_aio_alloc(&S16[i].aio, op_cb, &S16[i]));
		nng_iov iov = { .iov_buf = i ? (void *) sbuf : (void *) rbuf,
			.iov_len         = i ? sz : sizeof(rbuf) };
		nng_aio_set_iov(S16[i].aio, 1, &iov);
		nng_aio_set_timeout(S16[i].aio, 400);
		S16[i].timeout   = 400;
		S16[i].t_start   = vs_now();
		S16[i].submitted = 1;
		if (i == 0)
			nng_stream_recv(st, S16[i].aio);
		else
			nng_stream_send(st, S16[i].aio);
	}
	vs_settle();
	int pending0 = 0;
	for (int i = 0; i < s16n; i++)
		pending0 += S16[i].ncb == 0;
	int how    = vs_choose(VK_ENV, 4); // close / peer closes / cancel #3 then peer drains / stop
	int racer  = vs_choose(VK_ENV, 3); // nobody / cancel of the receive / cancel of send #2
	pthread_t tc;
	int64_t   t0 = vs_now();
	vs_window(1);
	if (racer)
		pthread_create(&tc, NULL, s16_canceller, &S16[racer == 1 ? 0 : s16n - 2]);
	switch (how) {
	case 0:
		nng_stream_close(st);
		break;
	case 1:
		close(fd);
		fd = -1;
		break;
	case 2:
		nng_aio_cancel(S16[s16n - 1].aio);
		break;
	default:
		nng_stream_stop(st);
		break;
	}
	if (racer)
		pthread_join(tc, NULL);
	vs_settle();
	vs_window(0);
	if (how == 2) {
		// the peer reads everything: the sends that were not cancelled go through
		static uint8_t junk[1 << 16];
		for (int idle = 0; idle < 3;) {
			ssize_t n = vp_read_avail(fd, junk, sizeof(junk));
			if (n < 0)
				break;
			if (n == 0) {
				idle++;
				vs_settle();
			} else
				idle = 0;
		}
	}
	// (a websocket stream closes gracefully: what is queued is failed when the closing
	// handshake has run its 100 ms)
	vs_sleep(tran == S16_WS ? 250 : 100);
	int done = 0;
	for (int i = 0; i < s16n; i++)
		done += S16[i].ncb == 1;
	// (after the application's own close / stop.  When the peer goes away the operation in
	// flight fails at once, but nothing in the statement says when the ones queued behind it
	// do - they have their timeouts, which are checked below.)
	if ((how == 0 || how == 3) && done != s16n) {
		int first = -1;
		for (int i = 0; i < s16n; i++)
			if (S16[i].ncb == 0 && first < 0)
				first = i;
		vs_fail("C02:never-completes:stream-teardown",
		    "%s stream, %s: 100 ms (ws: 250) later %d of the operations have completed; %s #%d "
		    "is still pending (%d were pending before)",
		    S16N[tran],
		    how == 0       ? "nng_stream_close"
		        : how == 1 ? "peer closed"
		                   : "nng_stream_stop",
		    done, first ? "send" : "recv", first, pending0);
	}
	vs_sleep(400); // every timeout has passed by now
	static const int ok[] = { 0, NNG_ECANCELED, NNG_ETIMEDOUT, NNG_ECONNSHUT,
		NNG_ECLOSED, NNG_ECONNRESET, NNG_ESTOPPED };
	// the stream object goes away too (a close timer, and the sweep of what is still queued
	// when the stream is released, complete operations as well)
	nng_stream_close(st);
	nng_stream_stop(st);
	nng_stream_free(st);
	st = NULL;
	vs_settle();
	vs_sleep(150);
	vs_settle();
	char oc[40] = "";
	for (int i = 0; i < s16n; i++) {
		if (S16[i].ncb != 1)
			vs_fail("C02:callback-count",
			    "%s stream: %s #%d had %d callbacks %lld ms after the event",
			    S16N[tran], i ? "send" : "recv", i, S16[i].ncb,
			    (long long) (vs_now() - t0));
		allowed(&S16[i], i ? "stream send" : "stream recv", ok, 7);
		if (S16[i].result == 0 && i && nng_aio_count(S16[i].aio) == 0)
			vs_fail("C02:result-without-effect", "stream send 0 with 0 bytes");
		if (i < 4 || i >= s16n - 2)
			snprintf(oc + strlen(oc), sizeof(oc) - strlen(oc), "%d,", S16[i].result);
	}
	vs_outcome("%s how=%d racer=%d %s", S16N[tran], how, racer, oc);
	for (int i = 0; i < s16n; i++)
		nng_aio_free(S16[i].aio);
	nng_aio_free(acc);
	nng_stream_listener_close(sl);
	nng_stream_listener_free(sl);
	if (fd >= 0)
		close(fd);
	if (path[0])
		unlink(path);
	free(sbuf);
	vh_fini();
}

// ---- S17: HTTP client transaction || cancel || the server's answer / silence / disconnect ------------
// nng_http_client_connect + nng_http_transact against a raw TCP server owned by the harness.  The
// server has read the request and then sends nothing, half of a response head, a complete response
// with a body, or closes - while another thread cancels the transaction (or nobody does and the
// timeout runs).  One callback, allowed result, a successful result carries the whole body, and
// the connection object can be closed and the client freed afterwards.
static op S17;
static void *
s17_canceller(void *a)
{
	(void) a;
	nng_aio_cancel(S17.aio);
	return NULL;
}
static void *
s17_closer(void *a)
{
	nng_http_close(a);
	return NULL;
}
static void
run_s17(void *arg)
{
	(void) arg;
	vs_tcp_grace_us = 1500;
	vh_init(0);
	memset(&S17, 0, sizeof(S17));
	struct sockaddr_in sa;
	socklen_t          sl = sizeof(sa);
	memset(&sa, 0, sizeof(sa));
	sa.sin_family      = AF_INET;
	sa.sin_addr.s_addr = htonl(INADDR_LOOPBACK);
	int lfd            = socket(AF_INET, SOCK_STREAM, 0);
	if (lfd < 0 || bind(lfd, (struct sockaddr *) &sa, sizeof(sa)) != 0 || listen(lfd, 4) != 0 ||
	    getsockname(lfd, (struct sockaddr *) &sa, &sl) != 0)
		vs_fail("harness:peer", "raw server socket");
	fcntl(lfd, F_SETFL, fcntl(lfd, F_GETFL) | O_NONBLOCK);
	char             url[64];
	nng_url         *u;
	nng_http_client *cli;
	nng_aio         *ca;
	snprintf(url, sizeof(url), "http://127.0.0.1:%d/s17", ntohs(sa.sin_port));
	VH_OK(nng_url_parse(&u, url));
	VH_OK(nng_http_client_alloc(&cli, u));
	VH_OK(nng_aio_alloc(&ca, NULL, NULL));
	nng_http_client_connect(cli, ca);
	int fd = -1;
	for (int t = 0; t < 20 && fd < 0; t++) {
		vs_settle();
		fd = accept(lfd, NULL, NULL);
		if (fd < 0)
			vs_sleep(2);
	}
	nng_aio_wait(ca);
	if (fd < 0 || nng_aio_result(ca) != 0)
		vs_fail("harness:peer", "http connect");
	fcntl(fd, F_SETFL, fcntl(fd, F_GETFL) | O_NONBLOCK);
	nng_http *conn = nng_aio_get_output(ca, 0);
	VH_OK(nng_http_set_uri(conn, "/s17", NULL));
	VH_OK(nng_aio_alloc(&S17.aio, op_cb, &S17));
	nng_aio_set_timeout(S17.aio, 30);
	S17.timeout   = 30;
	S17.t_start   = vs_now();
	S17.submitted = 1;
	int answer    = vs_choose(VK_ENV, 5); // silence / half head / head only / full / close
	int cancel    = vs_choose(VK_ENV, 3); // nobody / nng_aio_cancel / nng_http_close of the connection
	int closed    = 0;
	nng_http_transact(conn, S17.aio);
	vs_settle();
	char   req[1024];
	(void) vp_read_avail(fd, req, sizeof(req));
	static const char full[] = "HTTP/1.1 200 OK\r\nContent-Length: 5\r\n\r\nhello";
	pthread_t          tc;
	vs_window(1);
	if (cancel == 1)
		pthread_create(&tc, NULL, s17_canceller, NULL);
	else if (cancel == 2) {
		// the underlying object goes away while the transaction is in progress
		pthread_create(&tc, NULL, s17_closer, conn);
		closed = 1;
	}
	switch (answer) {
	case 1:
		vp_write_all(fd, full, 20);
		break;
	case 2:
		vp_write_all(fd, full, sizeof(full) - 1 - 5);
		break;
	case 3:
		vp_write_all(fd, full, sizeof(full) - 1);
		break;
	case 4:
		close(fd);
		fd = -1;
		break;
	default:
		break;
	}
	if (cancel)
		pthread_join(tc, NULL);
	vs_settle();
	vs_window(0);
	vs_sleep(60); // past the timeout
	vs_settle();
	if (S17.ncb != 1)
		vs_fail(S17.ncb ? "C02:callback-count" : "C02:never-completes:http-transact",
		    "http transaction (answer %d, cancel %d): %d callbacks 60 ms after a 30 ms timeout",
		    answer, cancel, S17.ncb);
	static const int ok[] = { 0, NNG_ECANCELED, NNG_ETIMEDOUT, NNG_ECONNSHUT, NNG_ECLOSED,
		NNG_ECONNRESET, NNG_EPROTO, NNG_ESTOPPED };
	allowed(&S17, "http transact", ok, 8);
	if (S17.result == 0 && !closed) {
		void  *body;
		size_t bl;
		nng_http_get_body(conn, &body, &bl);
		if (answer != 3 || nng_http_get_status(conn) != 200 || bl != 5 ||
		    memcmp(body, "hello", 5) != 0)
			vs_fail("C02:result-without-effect",
			    "http transaction reported success (answer kind %d) with status %d and a "
			    "%zu byte body",
			    answer, (int) nng_http_get_status(conn), bl);
	}
	vs_outcome("answer=%d cancel=%d res=%d", answer, cancel, S17.result);
	if (!closed)
		nng_http_close(conn);
	nng_aio_free(S17.aio);
	nng_aio_free(ca);
	nng_http_client_free(cli);
	nng_url_free(u);
	if (fd >= 0)
		close(fd);
	close(lfd);
	vh_fini();
}

// ---- S10: user-written provider: timeout || nng_aio_free || unrelated timer ----------------
// the provider's cancel function completes the operation and then keeps using the aio for a
// moment (cleanup); nng_aio_free called after the completion callback must not return - and the
// aio must not be released - before the timeout machinery has let go of it, whatever else wakes
// the expire queue meanwhile (another operation with an earlier deadline).
static op              S10, S10b;
static int             s10_in_cancel, s10_freed;
static pthread_mutex_t s10_mx = PTHREAD_MUTEX_INITIALIZER;
static void
s10_cancel(nng_aio *aio, void *arg, nng_err rv)
{
	(void) arg;
	s10_in_cancel = 1;
	nng_aio_finish(aio, rv);
	// cleanup that still refers to the aio (scheduling points inside)
	pthread_mutex_lock(&s10_mx);
	pthread_mutex_unlock(&s10_mx);
	pthread_mutex_lock(&s10_mx);
	pthread_mutex_unlock(&s10_mx);
	if (s10_freed)
		vs_fail("C02:free-returned-during-cancel",
		    "nng_aio_free returned while the timeout's cancel callback for that "
		    "aio was still running");
	(void) nng_aio_get_input(aio, 0);
	s10_in_cancel = 0;
}
static void *
s10_freer(void *a)
{
	(void) a;
	nng_aio_free(S10.aio);
	s10_freed = 1;
	return NULL;
}
static void *
s10_other(void *a)
{
	(void) a;
	S10b.timeout   = 3;
	S10b.t_start   = vs_now();
	S10b.submitted = 1;
	nng_sleep_aio(3, S10b.aio);
	return NULL;
}
static void
run_s10(void *arg)
{
	(void) arg;
	vh_init(0);
	memset(&S10, 0, sizeof(S10));
	memset(&S10b, 0, sizeof(S10b));
	s10_in_cancel = s10_freed = 0;
	VH_OK(nng_aio_alloc(&S10.aio, op_cb, &S10));
	VH_OK(nng_aio_alloc(&S10b.aio, op_cb, &S10b));
	nng_aio_set_timeout(S10.aio, 5);
	S10.timeout   = 5;
	S10.t_start   = vs_now();
	S10.submitted = 1;
	vs_settle();
	pthread_t tf, to;
	vs_window(1);
	nng_aio_reset(S10.aio);
	if (!nng_aio_start(S10.aio, s10_cancel, NULL))
		vs_fail("harness:s10", "nng_aio_start refused");
	// wait for the completion callback (timeout), then free || unrelated timer
	while (S10.ncb == 0)
		vs_sleep(0);
	pthread_create(&tf, NULL, s10_freer, NULL);
	pthread_create(&to, NULL, s10_other, NULL);
	pthread_join(tf, NULL);
	pthread_join(to, NULL);
	vs_window(0);
	vs_settle();
	vs_sleep(20);
	if (S10.ncb != 1 || S10.result != NNG_ETIMEDOUT)
		vs_fail("C02:callback-count", "provider op: %d callbacks, result %d", S10.ncb,
		    S10.result);
	if (S10b.ncb != 1)
		vs_fail("C02:callback-count", "unrelated sleep: %d callbacks", S10b.ncb);
	vs_outcome("cb=%d/%d", S10.ncb, S10b.ncb);
	nng_aio_free(S10b.aio);
	vh_fini();
}

// ---- S11: two operations expire in one batch, one of them completes and is restarted ------
// A and B have the same deadline.  While the expire thread is busy cancelling A, B completes on
// its own (its message arrives at the deadline) and its callback starts a new timed receive on
// the same aio: that new operation must get its full timeout.
static op         S11a, S11b;
static nng_socket s11a, s11b, s11c;
static void
s11b_cb(void *arg)
{
	op *o = arg;
	o->ncb++;
	o->result = nng_aio_result(o->aio);
	o->t_cb   = vs_now();
	if (o->ncb > o->submitted)
		vs_fail("C02:double-callback", "callback #%d for %d submissions", o->ncb,
		    o->submitted);
	if (o->result == NNG_ETIMEDOUT && o->t_cb < o->t_start + o->timeout)
		vs_fail("C02:early-timeout",
		    "receive #%d (timeout %d ms, started at +%lld) reported NNG_ETIMEDOUT "
		    "after %lld ms",
		    o->submitted, o->timeout, (long long) o->t_start,
		    (long long) (o->t_cb - o->t_start));
	if (o->result == 0) {
		nng_msg_free(nng_aio_get_msg(o->aio));
		if (o->submitted == 1) {
			o->submitted = 2;
			o->t_start   = vs_now();
			nng_socket_recv(s11b, o->aio);
		}
	}
}
static void *
s11_sender(void *a)
{
	int at = (int) (intptr_t) a;
	vs_sleep(at);
	vh_send_nb(s11c, "m", 1);
	return NULL;
}
static void
run_s11(void *arg)
{
	int at      = ((int) (intptr_t) arg) & 0xff;
	vh_init(0);
	memset(&S11a, 0, sizeof(S11a));
	memset(&S11b, 0, sizeof(S11b));
	VH_OK(nng_pair0_open(&s11a));
	VH_OK(nng_pair0_open(&s11b));
	VH_OK(nng_pair0_open(&s11c));
	VH_OK(nng_listen(s11b, "inproc://s11", NULL, 0));
	VH_OK(nng_dial(s11c, "inproc://s11", NULL, 0));
	vs_settle();
	VH_OK(nng_aio_alloc(&S11a.aio, op_cb, &S11a));
	VH_OK(nng_aio_alloc(&S11b.aio, s11b_cb, &S11b));
	nng_aio_set_timeout(S11a.aio, 10);
	nng_aio_set_timeout(S11b.aio, 10);
	S11a.timeout = S11b.timeout = 10;
	S11a.t_start = S11b.t_start = vs_now();
	S11a.submitted = S11b.submitted = 1;
	pthread_t ts;
	vs_window(1);
	nng_socket_recv(s11a, S11a.aio);
	nng_socket_recv(s11b, S11b.aio);
	pthread_create(&ts, NULL, s11_sender, (void *) (intptr_t) at);
	pthread_join(ts, NULL);
	nng_aio_wait(S11a.aio);
	vs_window(0);
	vs_settle();
	vs_sleep(40);
	vs_settle();
	if (S11a.ncb != 1 || S11b.ncb != S11b.submitted)
		vs_fail("C02:callback-count", "A: %d callbacks; B: %d callbacks for %d submissions",
		    S11a.ncb, S11b.ncb, S11b.submitted);
	vs_outcome("A=%d B=%d/%d last=%d", S11a.result, S11b.ncb, S11b.submitted, S11b.result);
	nng_aio_free(S11a.aio);
	nng_aio_free(S11b.aio);
	nng_socket_close(s11a);
	nng_socket_close(s11b);
	nng_socket_close(s11c);
	vh_fini();
}

// ---- S13: stream dialer: dial, cancel, dial again -------------------------------------------
// nng_stream_dialer_dial twice on the same dialer with its own aio each; the first is cancelled
// while it is still connecting, the second is started at once.  The cancellation belongs to the
// first operation only: the second must connect (or fail with a genuine connection error), never
// report NNG_ECANCELED, and both complete exactly once.
static op S13a, S13b;
static void
run_s13(void *arg)
{
	int tran = (int) (intptr_t) arg; // 0 tcp, 1 ipc
	vs_tcp_grace_us = 1500;
	vh_init(0);
	memset(&S13a, 0, sizeof(S13a));
	memset(&S13b, 0, sizeof(S13b));
	nng_stream_listener *sl;
	nng_stream_dialer   *sd;
	nng_aio             *acc;
	char                 url[160];
	if (tran == 0) {
		int port = 0;
		VH_OK(nng_stream_listener_alloc(&sl, "tcp://127.0.0.1:0"));
		VH_OK(nng_stream_listener_listen(sl));
		VH_OK(nng_stream_listener_get_int(sl, NNG_OPT_BOUND_PORT, &port));
		snprintf(url, sizeof(url), "tcp://127.0.0.1:%d", port);
	} else {
		snprintf(url, sizeof(url), "ipc://%s/c02s13-%d", vx_rundir(), (int) getpid());
		VH_OK(nng_stream_listener_alloc(&sl, url));
		VH_OK(nng_stream_listener_listen(sl));
	}
	VH_OK(nng_aio_alloc(&acc, NULL, NULL));
	nng_stream_listener_accept(sl, acc);
	VH_OK(nng_stream_dialer_alloc(&sd, url));
	VH_OK(nng_aio_alloc(&S13a.aio, op_cb, &S13a));
	VH_OK(nng_aio_alloc(&S13b.aio, op_cb, &S13b));
	S13a.timeout = S13b.timeout = -1;
	S13a.submitted = S13b.submitted = 1;
	vs_settle();
	int settle_between = vs_choose(VK_ENV, 2);
	vs_window(1);
	nng_stream_dialer_dial(sd, S13a.aio);
	nng_aio_cancel(S13a.aio);
	if (settle_between)
		vs_settle();
	nng_stream_dialer_dial(sd, S13b.aio);
	nng_aio_wait(S13a.aio);
	nng_aio_wait(S13b.aio);
	vs_window(0);
	vs_settle();
	vs_sleep(20);
	if (S13a.ncb != 1 || S13b.ncb != 1)
		vs_fail("C02:callback-count", "stream dial: %d and %d callbacks", S13a.ncb, S13b.ncb);
	static const int ok_a[] = { 0, NNG_ECANCELED };
	allowed(&S13a, "cancelled stream dial", ok_a, 2);
	if (S13b.result == NNG_ECANCELED)
		vs_fail("C02:stale-cancel",
		    "the second nng_stream_dialer_dial over %s, which nobody cancelled, completed with "
		    "NNG_ECANCELED (the first dial on the same dialer had just been cancelled, result %d)",
		    tran ? "ipc" : "tcp", S13a.result);
	static const int ok_b[] = { 0, NNG_ECONNREFUSED, NNG_ECONNRESET };
	allowed(&S13b, "second stream dial", ok_b, 3);
	vs_outcome("a=%d b=%d", S13a.result, S13b.result);
	for (int i = 0; i < 2; i++) {
		op *o = i ? &S13b : &S13a;
		if (o->result == 0) {
			nng_stream *st = nng_aio_get_output(o->aio, 0);
			nng_stream_close(st);
			nng_stream_stop(st);
			nng_stream_free(st);
		}
	}
	nng_stream_listener_close(sl);
	nng_aio_wait(acc);
	if (nng_aio_result(acc) == 0) {
		nng_stream *st = nng_aio_get_output(acc, 0);
		nng_stream_close(st);
		nng_stream_stop(st);
		nng_stream_free(st);
	}
	nng_stream_dialer_close(sd);
	nng_stream_dialer_stop(sd);
	nng_stream_dialer_free(sd);
	nng_stream_listener_stop(sl);
	nng_stream_listener_free(sl);
	nng_aio_free(acc);
	nng_aio_free(S13a.aio);
	nng_aio_free(S13b.aio);
	if (tran == 1)
		unlink(url + 6);
	vh_fini();
}

// ---- S14: websocket stream dial || cancel ---------------------------------------------------
// the dial goes through TCP connect, HTTP upgrade request and response; the cancel can land in any
// of those stages, also at the moment the upgrade completes.  Exactly one completion; result 0
// (with a usable stream) or NNG_ECANCELED.
static op S14;
static void *
s14_canceller(void *a)
{
	(void) a;
	nng_aio_cancel(S14.aio);
	return NULL;
}
static void
run_s14(void *arg)
{
	int when = (int) (intptr_t) arg; // 0: cancel at once, 1: after the connection had time to progress
	vs_tcp_grace_us = 1500;
	vh_init(0);
	memset(&S14, 0, sizeof(S14));
	nng_stream_listener *sl;
	nng_stream_dialer   *sd;
	nng_aio             *acc;
	char                 url[96];
	int                  port = 0;
	VH_OK(nng_stream_listener_alloc(&sl, "ws://127.0.0.1:0/s14"));
	VH_OK(nng_stream_listener_listen(sl));
	VH_OK(nng_stream_listener_get_int(sl, NNG_OPT_BOUND_PORT, &port));
	snprintf(url, sizeof(url), "ws://127.0.0.1:%d/s14", port);
	VH_OK(nng_aio_alloc(&acc, NULL, NULL));
	nng_stream_listener_accept(sl, acc);
	VH_OK(nng_stream_dialer_alloc(&sd, url));
	VH_OK(nng_aio_alloc(&S14.aio, op_cb, &S14));
	S14.timeout   = -1;
	S14.submitted = 1;
	vs_settle();
	pthread_t tc;
	vs_window(1);
	nng_stream_dialer_dial(sd, S14.aio);
	if (when == 1)
		vs_settle(); // TCP connected, upgrade request sent: the response is what races
	pthread_create(&tc, NULL, s14_canceller, NULL);
	pthread_join(tc, NULL);
	vs_log("cancelled; waiting for the dial");
	nng_aio_wait(S14.aio);
	vs_log("dial done %d", S14.result);
	vs_window(0);
	vs_settle();
	vs_sleep(20);
	vs_settle();
	if (S14.ncb != 1)
		vs_fail("C02:callback-count", "ws stream dial: %d callbacks", S14.ncb);
	// (NNG_ETIMEDOUT: the upgrade has its own 2 s limit, which a TIMER deviation lets expire)
	static const int ok[] = { 0, NNG_ECANCELED, NNG_ECONNRESET, NNG_ECLOSED, NNG_ECONNSHUT,
		NNG_ETIMEDOUT };
	allowed(&S14, "ws stream dial", ok, 6);
	vs_outcome("when=%d res=%d", when, S14.result);
	if (S14.result == 0) {
		nng_stream *st = nng_aio_get_output(S14.aio, 0);
		if (st == NULL)
			vs_fail("C02:result-without-effect", "ws dial result 0 without a stream");
		nng_stream_close(st);
		nng_stream_stop(st);
		nng_stream_free(st);
	}
	vs_log("closing");
	nng_stream_dialer_close(sd);
	nng_stream_listener_close(sl);
	vs_log("waiting for accept");
	nng_aio_wait(acc);
	vs_log("accept done");
	if (nng_aio_result(acc) == 0) {
		nng_stream *st = nng_aio_get_output(acc, 0);
		nng_stream_close(st);
		nng_stream_stop(st);
		nng_stream_free(st);
	}
	nng_stream_dialer_stop(sd);
	nng_stream_dialer_free(sd);
	nng_stream_listener_stop(sl);
	nng_stream_listener_free(sl);
	nng_aio_free(acc);
	nng_aio_free(S14.aio);
	vh_fini();
}

// ---- S18: one aio reused for operations that complete at submission ------------------------------
// One aio is used for a sequence of different operations on different objects, most of which
// complete inside the submitting call: sleep 0, receive with the message already queued and a zero
// timeout / an expiry in the past, receive with nothing queued and a zero timeout, send with room
// and a zero timeout, send on a closed socket, a sleep cut short by the aio's own timeout, and a
// timed receive racing a message and a cancel.  After every step: exactly one more callback, result
// from the step's set, NNG_ETIMEDOUT never before the configured time, and the effect matches the
// result (a failed receive leaves the message receivable, a failed send leaves it attached to the
// aio and never delivers it, a successful one delivers it exactly once).  In the racing variant a
// second thread calls nng_aio_cancel around every submission: a cancel that comes too late must not
// change the result of the completed operation nor leak into the next use of the aio (which is
// started without a cancel of its own... it has one too, so only its own step may report it).
enum { L_SLEEP0, L_RECV_READY0, L_RECV_EMPTY0, L_RECV_READY_EXPIRED, L_SEND_ROOM0, L_SEND_CLOSED,
	L_SLEEP_CUT, L_RECV_RACE, L_N };
static const char *S18N[] = { "sleep0", "recv-ready-t0", "recv-empty-t0", "recv-ready-expired",
	"send-room-t0", "send-closed", "sleep5-timeout3", "recv10-msg-cancel" };
static struct {
	op         o;
	nng_socket a, b, c;
	int        b2a_sent, b2a_got, a2b_sent, a2b_got; // numbered messages, each direction
	int        racing;
} S18;

static void *
s18_canceller(void *x)
{
	(void) x;
	nng_aio_cancel(S18.o.aio);
	return NULL;
}
static void *
s18_sender(void *x)
{
	(void) x;
	nng_msg *m;
	VH_OK(nng_msg_alloc(&m, 0));
	VH_OK(nng_msg_append_u32(m, (uint32_t) (S18.b2a_sent + 1)));
	if (nng_sendmsg(S18.b, m, NNG_FLAG_NONBLOCK) != 0)
		nng_msg_free(m);
	else
		S18.b2a_sent++;
	return NULL;
}
static void
s18_take_a(nng_msg *m, const char *how)
{
	uint32_t v = 0;
	if (m == NULL || nng_msg_len(m) != 4 || nng_msg_trim_u32(m, &v) != 0)
		vs_fail("C02:result-without-effect", "%s: success but no (or a wrong) message", how);
	if ((int) v != S18.b2a_got + 1)
		vs_fail("C02:message-conservation",
		    "%s: message %u delivered, expected %d (delivered twice, skipped or reordered)",
		    how, v, S18.b2a_got + 1);
	S18.b2a_got++;
	nng_msg_free(m);
}

static void
s18_step(int letter)
{
	op        *o = &S18.o;
	nng_msg   *m = NULL;
	pthread_t  tc, ts;
	int        have_c = 0, have_s = 0;
	int        pending = S18.b2a_sent - S18.b2a_got; // queued at (or on their way to) A
	int        ncb0    = o->ncb;
	if (letter == L_RECV_READY0 || letter == L_RECV_READY_EXPIRED) {
		s18_sender(NULL);
		vs_settle();
		pending = S18.b2a_sent - S18.b2a_got;
	}
	o->timeout = -1;
	o->submitted++;
	o->t_start = vs_now();
	vs_log("step %s (pending %d)", S18N[letter], pending);
	if (S18.racing)
		vs_window(1);
	switch (letter) {
	case L_SLEEP0:
		nng_aio_set_timeout(o->aio, NNG_DURATION_INFINITE);
		nng_sleep_aio(0, o->aio);
		break;
	case L_RECV_READY0:
	case L_RECV_EMPTY0:
		nng_aio_set_timeout(o->aio, NNG_DURATION_ZERO);
		o->timeout = 0;
		nng_socket_recv(S18.a, o->aio);
		break;
	case L_RECV_READY_EXPIRED:
		nng_aio_set_expire(o->aio, nng_clock() - 5);
		o->timeout = 0;
		nng_socket_recv(S18.a, o->aio);
		break;
	case L_SEND_ROOM0:
	case L_SEND_CLOSED:
		VH_OK(nng_msg_alloc(&m, 0));
		VH_OK(nng_msg_append_u32(m, (uint32_t) (S18.a2b_sent + 1)));
		nng_aio_set_msg(o->aio, m);
		nng_aio_set_timeout(o->aio, letter == L_SEND_ROOM0 ? NNG_DURATION_ZERO : NNG_DURATION_INFINITE);
		o->timeout = letter == L_SEND_ROOM0 ? 0 : -1;
		nng_socket_send(letter == L_SEND_ROOM0 ? S18.a : S18.c, o->aio);
		break;
	case L_SLEEP_CUT:
		nng_aio_set_timeout(o->aio, 3);
		o->timeout = 3;
		nng_sleep_aio(5, o->aio);
		break;
	default:
		nng_aio_set_timeout(o->aio, 10);
		o->timeout = 10;
		if (!S18.racing)
			vs_window(1);
		nng_socket_recv(S18.a, o->aio);
		pthread_create(&ts, NULL, s18_sender, NULL);
		have_s = 1;
		if (!S18.racing) {
			pthread_create(&tc, NULL, s18_canceller, NULL);
			have_c = 1;
		}
		break;
	}
	if (S18.racing) {
		pthread_create(&tc, NULL, s18_canceller, NULL);
		have_c = 1;
	}
	nng_aio_wait(o->aio);
	if (o->ncb != ncb0 + 1 || o->in_cb)
		vs_fail("C02:wait-before-callback",
		    "%s: nng_aio_wait returned with %d new callback(s) (in_cb=%d)", S18N[letter],
		    o->ncb - ncb0, o->in_cb);
	if (have_c)
		pthread_join(tc, NULL);
	if (have_s)
		pthread_join(ts, NULL);
	vs_window(0);
	vs_settle();
	if (o->ncb != o->submitted)
		vs_fail("C02:callback-count", "%s: %d submissions, %d callbacks", S18N[letter],
		    o->submitted, o->ncb);
	int r = o->result;
	int c = (have_c && r == NNG_ECANCELED); // only a step that had a canceller may report it
	switch (letter) {
	case L_SLEEP0:
		if (r != 0 && !c)
			vs_fail("C02:bad-result", "sleep(0) -> %s", nng_strerror(r));
		break;
	case L_RECV_READY0:
	case L_RECV_READY_EXPIRED:
	case L_RECV_EMPTY0:
	case L_RECV_RACE:
		if (r == 0)
			s18_take_a(nng_aio_get_msg(o->aio), S18N[letter]);
		else if (!(r == NNG_ETIMEDOUT || c))
			vs_fail("C02:bad-result", "%s -> %s", S18N[letter], nng_strerror(r));
		if (r == 0 && letter == L_RECV_EMPTY0 && pending == 0)
			vs_fail("C02:result-without-effect", "receive succeeded with nothing sent");
		break;
	case L_SEND_ROOM0:
	case L_SEND_CLOSED:
		if (r == 0) {
			if (letter == L_SEND_CLOSED)
				vs_fail("C02:bad-result", "send on a closed socket succeeded");
			S18.a2b_sent++;
		} else {
			if (letter == L_SEND_CLOSED ? (r != NNG_ECLOSED && !c) : (r != NNG_ETIMEDOUT && !c))
				vs_fail("C02:bad-result", "%s -> %s", S18N[letter], nng_strerror(r));
			if (nng_aio_get_msg(o->aio) != m)
				vs_fail("C02:result-without-effect",
				    "%s failed (%s) but the message is no longer attached to the aio",
				    S18N[letter], nng_strerror(r));
			nng_msg_free(m); // (a library that kept or freed it shows up under ASan)
			nng_aio_set_msg(o->aio, NULL);
		}
		break;
	case L_SLEEP_CUT:
		if (!(r == NNG_ETIMEDOUT || c || (r == 0 && o->t_cb >= o->t_start + 5)))
			vs_fail(r == 0 ? "C02:early-timeout" : "C02:bad-result",
			    "sleep(5) with an aio timeout of 3 -> %s after %lld ms", nng_strerror(r),
			    (long long) (o->t_cb - o->t_start));
		break;
	}
}

static void
run_s18(void *arg)
{
	int depth = (int) (intptr_t) arg & 0xf;
	vh_init(0);
	memset(&S18, 0, sizeof(S18));
	S18.racing = ((intptr_t) arg & 0x100) != 0;
	VH_OK(nng_pair0_open(&S18.a));
	VH_OK(nng_pair0_open(&S18.b));
	VH_OK(nng_pair0_open(&S18.c));
	VH_OK(nng_socket_close(S18.c));
	VH_OK(nng_socket_set_int(S18.a, NNG_OPT_RECVBUF, 4));
	VH_OK(nng_socket_set_int(S18.b, NNG_OPT_RECVBUF, 4));
	VH_OK(nng_listen(S18.a, "inproc://s18", NULL, 0));
	VH_OK(nng_dial(S18.b, "inproc://s18", NULL, 0));
	VH_OK(nng_aio_alloc(&S18.o.aio, op_cb, &S18.o));
	vs_settle();
	char hist[100] = "";
	for (int i = 0; i < depth; i++) {
		int l = vs_choose(VK_ENV, L_N);
		snprintf(hist + strlen(hist), sizeof(hist) - strlen(hist), "%s%d", i ? "," : "", l);
		s18_step(l);
	}
	vs_sleep(30);
	if (S18.o.ncb != S18.o.submitted)
		vs_fail("C02:callback-count", "%d submissions, %d callbacks at the end",
		    S18.o.submitted, S18.o.ncb);
	// conservation in both directions: everything accepted is still receivable, once, in order
	nng_msg *m;
	while (nng_recvmsg(S18.a, &m, NNG_FLAG_NONBLOCK) == 0)
		s18_take_a(m, "final drain");
	if (S18.b2a_got != S18.b2a_sent)
		vs_fail("C02:message-conservation",
		    "B sent %d messages, A's receives and the final drain produced %d", S18.b2a_sent,
		    S18.b2a_got);
	while (nng_recvmsg(S18.b, &m, NNG_FLAG_NONBLOCK) == 0) {
		uint32_t v = 0;
		if (nng_msg_len(m) != 4 || nng_msg_trim_u32(m, &v) != 0 || (int) v != S18.a2b_got + 1)
			vs_fail("C02:message-conservation",
			    "B received message %u, expected %d (a failed send was delivered, or a "
			    "successful one twice / not at all)", v, S18.a2b_got + 1);
		S18.a2b_got++;
		nng_msg_free(m);
	}
	if (S18.a2b_got != S18.a2b_sent)
		vs_fail("C02:message-conservation", "A's sends succeeded %d times, B received %d",
		    S18.a2b_sent, S18.a2b_got);
	vs_outcome("%s cb=%d in=%d/%d out=%d/%d last=%d", hist, S18.o.ncb, S18.b2a_got, S18.b2a_sent,
	    S18.a2b_got, S18.a2b_sent, S18.o.result);
	nng_aio_free(S18.o.aio);
	nng_socket_close(S18.a);
	nng_socket_close(S18.b);
	vh_fini();
}

// ---- S19: several receives on one SUB socket completed by one arrival (a batch of completions) ---------------
// the socket's own receive and three contexts' receives are pending; one published message completes all four
// in one batch.  Each callback re-submits its receive (variant) so that the batch is walked while its members
// are already in use again; a second message completes the second round.  A canceller aims at one of them.
static struct {
	nng_aio   *aio;
	nng_ctx    ctx;
	int        isock, ncb, nsub, nok, resub;
	nng_socket s;
} S19[4];
static void
s19_submit(int i)
{
	S19[i].nsub++;
	if (S19[i].isock)
		nng_socket_recv(S19[i].s, S19[i].aio);
	else
		nng_ctx_recv(S19[i].ctx, S19[i].aio);
}
static void
s19_cb(void *arg)
{
	int i = (int) (intptr_t) arg;
	S19[i].ncb++;
	if (S19[i].ncb > S19[i].nsub)
		vs_fail("C02:double-callback", "receive %d: callback #%d for %d submissions", i, S19[i].ncb,
		    S19[i].nsub);
	int rv = nng_aio_result(S19[i].aio);
	if (rv == 0) {
		nng_msg *m = nng_aio_get_msg(S19[i].aio);
		if (m == NULL || nng_msg_len(m) != 2 || ((char *) nng_msg_body(m))[0] != 'm')
			vs_fail("C02:result-without-effect", "receive %d succeeded without the message", i);
		if (((char *) nng_msg_body(m))[1] != '0' + S19[i].nok)
			vs_fail("C02:message-conservation", "receive %d got message %c, expected %d", i,
			    ((char *) nng_msg_body(m))[1], S19[i].nok);
		S19[i].nok++;
		nng_msg_free(m);
		if (S19[i].resub > 0) {
			S19[i].resub--;
			s19_submit(i);
		}
	}
}
// the same receives through the synchronous calls (the aio lives on the caller's stack and is gone as soon as
// the call returns - while the batch that completed it may still be walking its members)
static __attribute__((noinline)) void
s19_burn(void)
{
	volatile char scratch[4096];
	memset((void *) scratch, 0x5a, sizeof(scratch));
	__asm__ volatile("" ::"r"(scratch) : "memory");
}
static void *
s19_blocking(void *a)
{
	int      i = (int) (intptr_t) a;
	nng_msg *m = NULL;
	int      rv = S19[i].isock ? nng_recvmsg(S19[i].s, &m, 0) : nng_ctx_recvmsg(S19[i].ctx, &m, 0);
	S19[i].ncb++;
	if (rv == 0) {
		if (nng_msg_len(m) != 2 || ((char *) nng_msg_body(m))[1] != '0' + S19[i].nok)
			vs_fail("C02:message-conservation", "blocking receive %d got '%.2s', expected m%d", i,
			    (char *) nng_msg_body(m), S19[i].nok);
		S19[i].nok++;
		nng_msg_free(m);
		s19_burn(); // use the stack the call has just left
	}
	return NULL;
}
static void *
s19_canceller(void *a)
{
	nng_aio_cancel(S19[(intptr_t) a].aio);
	return NULL;
}
static void
run_s19(void *arg)
{
	(void) arg;
	int blocking = (int) (intptr_t) arg;
	int resub  = blocking ? 0 : vs_choose(VK_ENV, 2);
	int victim = blocking ? 4 : vs_choose(VK_ENV, 5); // 4 = nobody is cancelled
	vh_init(0);
	nng_socket pub, sub;
	VH_OK(nng_pub0_open(&pub));
	VH_OK(nng_sub0_open(&sub));
	VH_OK(nng_sub0_socket_subscribe(sub, "", 0));
	VH_OK(nng_listen(pub, "inproc://s19", NULL, 0));
	VH_OK(nng_dial(sub, "inproc://s19", NULL, 0));
	memset(S19, 0, sizeof(S19));
	for (int i = 0; i < 4; i++) {
		S19[i].isock = i == 0;
		S19[i].s     = sub;
		S19[i].resub = resub;
		if (i) {
			VH_OK(nng_ctx_open(&S19[i].ctx, sub));
			VH_OK(nng_sub0_ctx_subscribe(S19[i].ctx, "", 0));
		}
		VH_OK(nng_aio_alloc(&S19[i].aio, s19_cb, (void *) (intptr_t) i));
		nng_aio_set_timeout(S19[i].aio, 200);
	}
	vs_settle();
	pthread_t bt[4];
	if (blocking) {
		VH_OK(nng_socket_set_ms(sub, NNG_OPT_RECVTIMEO, 200));
		for (int i = 0; i < 4; i++) {
			S19[i].nsub = 1;
			pthread_create(&bt[i], NULL, s19_blocking, (void *) (intptr_t) i);
		}
	} else
		for (int i = 0; i < 4; i++)
			s19_submit(i);
	vs_settle();
	pthread_t th;
	vs_window(1);
	if (victim < 4)
		pthread_create(&th, NULL, s19_canceller, (void *) (intptr_t) victim);
	if (vh_send_nb(pub, "m0", 2) != 0)
		vs_fail("harness:s19", "publish refused");
	if (victim < 4)
		pthread_join(th, NULL);
	if (blocking)
		for (int i = 0; i < 4; i++)
			pthread_join(bt[i], NULL);
	vs_window(0);
	vs_settle();
	if (vh_send_nb(pub, "m1", 2) != 0)
		vs_fail("harness:s19", "publish refused");
	vs_settle();
	vs_sleep(300); // whatever is still pending times out
	vs_settle();
	char out[64] = "";
	for (int i = 0; i < 4; i++)
		vs_log("resub=%d victim=%d receive %d: sub %d cb %d ok %d last %d", resub, victim, i, S19[i].nsub,
		    S19[i].ncb, S19[i].nok, nng_aio_result(S19[i].aio));
	for (int i = 0; i < 4; i++) {
		if (S19[i].ncb != S19[i].nsub || nng_aio_busy(S19[i].aio))
			vs_fail("C02:callback-count",
			    "receive %d (%s): %d submissions, %d callbacks after both messages and the timeout "
			    "(resubmitting callbacks: %d, cancelled: %d)",
			    i, i ? "context" : "socket", S19[i].nsub, S19[i].ncb, resub, victim);
		// conservation: what the callbacks did not take (a receive that was cancelled, timed out first, or
		// was not re-submitted) is still there, in order - every receiver sees m0 then m1, each once
		int got = S19[i].nok;
		{
			nng_aio *da;
			VH_OK(nng_aio_alloc(&da, NULL, NULL));
			for (;;) {
				nng_aio_set_timeout(da, NNG_DURATION_ZERO);
				if (i)
					nng_ctx_recv(S19[i].ctx, da);
				else
					nng_socket_recv(sub, da);
				nng_aio_wait(da);
				if (nng_aio_result(da) != 0)
					break;
				nng_msg *m = nng_aio_get_msg(da);
				if (nng_msg_len(m) != 2 || ((char *) nng_msg_body(m))[1] != '0' + got)
					vs_fail("C02:message-conservation",
					    "receive %d (%s): after %d message(s) taken by callbacks the next queued one is "
					    "'%.2s'", i, i ? "context" : "socket", got, (char *) nng_msg_body(m));
				got++;
				nng_msg_free(m);
			}
			nng_aio_free(da);
		}
		if (got != 2)
			vs_fail("C02:message-conservation",
			    "receive %d (%s): callbacks took %d message(s), %d more were queued: 2 were published "
			    "(resubmitting callbacks: %d, cancelled: %d)",
			    i, i ? "context" : "socket", S19[i].nok, got - S19[i].nok, resub, victim);
		snprintf(out + strlen(out), sizeof(out) - strlen(out), "%d/%d ", S19[i].nok, S19[i].ncb);
	}
	vs_outcome("resub%d victim%d %s", resub, victim, out);
	for (int i = 0; i < 4; i++)
		nng_aio_free(S19[i].aio);
	nng_socket_close(sub);
	nng_socket_close(pub);
	vh_fini();
}

#include "sendrace.h"

static void
explore(const char *name, void (*fn)(void *), void *arg, int p, int t, int sw,
    int total)
{
	vx_cfg c;
	memset(&c, 0, sizeof(c));
	c.prop     = "C02";
	c.scenario = name;
	c.run      = fn;
	c.arg      = arg;
	for (int i = 0; i < VB_NB; i++)
		c.budget[i] = 0;
	c.budget[VB_PREEMPT] = p;
	c.budget[VB_TIMER]   = t;
	c.budget[VB_SWITCH]  = sw;
	c.budget[VB_WAKE1]   = 1;
	c.budget[VB_ENV]     = -1;
	c.total              = total;
	c.watchdog_s         = 20;
	vx_explore(&c, NULL);
}

int
main(int argc, char **argv)
{
	vx_init(argc, argv, "C02");
	int T = vx_is_thorough();
	int p = T ? 2 : 1, t = 1, sw = T ? 3 : 2, tot = T ? 3 : 2;
	explore("S1-sleep-cancel", run_s1, NULL, p, t, sw, tot);
	explore("S2-sleep-stop", run_s2, (void *) 0, p, t, sw, tot);
	explore("S2r-resubmit-stop", run_s2, (void *) 2, p, t, sw, tot);
	explore("S2f-sleep-free", run_s2, (void *) 0x100, p, t, sw, tot);
	explore("S2fr-resubmit-free", run_s2, (void *) 0x102, p, t, sw, tot);
	explore("S2g-busy-callback-rearms-stop", run_s2g, (void *) 0, 0, 0, 0, 0);
	explore("S2g-busy-callback-rearms-free", run_s2g, (void *) 1, 0, 0, 0, 0);
	static s3arg s3[] = { { 0, 0, 0 }, { 0, 1, 0 }, { 9, 1, 0 }, { 10, 0, 0 },
		{ 11, 0, 0 } };
	static const char *s3n[] = { "S3-recv-msg", "S3-recv-msg-cancel",
		"S3-recv-msg@9-cancel", "S3-recv-msg@10", "S3-recv-msg@11" };
	for (int i = 0; i < 5; i++)
		explore(s3n[i], run_s3, &s3[i], p, t, sw, tot);
	// the same races on every other protocol's receive path (quick: message vs
	// cancel and message vs expiry; thorough: all five timings)
	static s3arg s3x[5 * 16];
	int          n3x = 0;
	for (int pr = 1; pr < NS3P; pr++)
		for (int i = 0; i < 5; i++) {
			if (!T && i != 1 && i != 3)
				continue;
			s3x[n3x]       = s3[i];
			s3x[n3x].proto = pr;
			char nm[64];
			snprintf(nm, sizeof(nm), "%s-%s", s3n[i], S3P[pr].name);
			// (two deviations in both tiers: the third level is explored
			// on the pair0 path above, 12 x that does not fit the tier)
			explore(strdup(nm), run_s3, &s3x[n3x], 1, 1, 1, T ? 2 : 1);
			n3x++;
		}
	static s6arg s6[] = { { 0 }, { 1 }, { 2 }, { 3 } };
	static const char *s6n[] = { "S6-dial-fresh", "S6-dial-zero-timeout",
		"S6-dial-stopped-aio", "S6-dial-cancel" };
	for (int i = 0; i < 4; i++)
		explore(s6n[i], run_s6, &s6[i], p, t, sw, tot);
	static const char *s9n[] = { "S9-close-pair0", "S9-close-pull",
		"S9-close-rep", "S9-close-sub" };
	for (int i = 0; i < 4; i++)
		explore(s9n[i], run_s9, (void *) (intptr_t) i, p, t, sw, tot);
	explore("S10-provider-timeout-free", run_s10, NULL, p, t, sw, tot);
	// without preemptions (switches at blocking points and timers only): a restart while the
	// expire thread is busy with another member of its batch
	explore("S11-batch-expiry-restart@10", run_s11, (void *) (intptr_t) 10, 0, t, sw, tot);
	explore("S11-batch-expiry-restart@11", run_s11, (void *) (intptr_t) 11, 0, t, sw, tot);
	// with preemptions: a restart between the expire thread's decision and its cancel call
	explore("S12-expiry-restart-preempt@10", run_s11, (void *) (intptr_t) (0x100 | 10), p, t, sw, tot);
	explore("S12-expiry-restart-preempt@11", run_s11, (void *) (intptr_t) (0x100 | 11), p, t, sw, tot);
	explore("S13-streamdial-cancel-redial-tcp", run_s13, (void *) 0, 1, 1, 2, 2);
	explore("S13-streamdial-cancel-redial-ipc", run_s13, (void *) 1, 1, 1, 2, 2);
	// (about 250 choice points per execution: one deviation quick, two thorough)
	for (int pr = 0; pr < NS15P; pr++)
		sr_explore("C02", pr, T);
	explore("S14-wsdial-cancel", run_s14, (void *) 0, 1, 1, 1, T ? 2 : 1);
	explore("S14-wsdial-progress-cancel", run_s14, (void *) 1, 1, 1, 1, T ? 2 : 1);
	explore("S4-ctxrecv-reply", run_s4, (void *) 0, p, t, sw, tot);
	explore("S4-ctxrecv-reply-cancel", run_s4, (void *) 1, p, t, sw, tot);
	explore("S7-device-cancel", run_s7, NULL, 1, 1, 1, 1); // teardown has ~300 points: 1 deviation
	explore("S7b-onepath-device-cancel", run_s7b, NULL, 1, 1, 1, 1);
	explore("S7c-pair1-device-cancel", run_s7c, NULL, 1, 1, 1, 1); // teardown has ~300 points: 1 deviation
	explore("S8-stream-write-cancel", run_s8, (void *) 0, p, t, sw, tot);
	explore("S8-stream-close-cancel", run_s8, (void *) 1, p, t, sw, tot);
	explore("S8-stream-idle-cancel", run_s8, (void *) 2, p, t, sw, tot);
	explore("S17-http-transact-cancel", run_s17, NULL, 1, 1, 1, T ? 2 : 1);
	explore("S19-batch-completion-sub", run_s19, NULL, 1, 1, 1, T ? 2 : 1);
	explore("S19b-batch-completion-sub-blocking-calls", run_s19, (void *) 1, 1, 1, 1, T ? 2 : 1);
	explore("S18-reuse-immediate", run_s18, (void *) (intptr_t) (T ? 3 : 2), 1, 1, 1, 1);
	explore("S18-reuse-immediate-cancel-everywhere", run_s18, (void *) (intptr_t) (0x100 | 2), 1, 1, 1,
	    T ? 2 : 1);
	for (int tr = 0; tr < 4; tr++) {
		char nm[64];
		snprintf(nm, sizeof(nm), "S16-stream-queued-writes-%s", S16N[tr]);
		// (ws: 101 operations per execution; quick runs the 12 combinations under the
		// default schedule, thorough adds one deviation)
		if (tr == S16_WS)
			explore(strdup(nm), run_s16, (void *) (intptr_t) tr, T ? 1 : 0, 0, T ? 1 : 0,
			    T ? 1 : 0);
		else
			explore(strdup(nm), run_s16, (void *) (intptr_t) tr, 1, 0, 1, T ? 2 : 1);
	}
	return vx_finish();
}
