// C11 - hostile or broken peers cannot crash, wedge or bypass size limits.
// Bounded-exhaustive (not fuzzing): for the stream transports (socket://, ipc,
// tcp) and a valid transcript W = handshake + 2 frames:
//   A  truncation at EVERY byte offset, then disconnect;
//   B  EVERY byte value at every offset of the 8-byte handshake;
//   C  EVERY byte value at every offset of the first frame's length field,
//      with NNG_OPT_RECVMAXSZ in {0, 16, default};
//   D  length boundary values x RECVMAXSZ;
//   E  protocol header shapes for every receive path (rep, respondent: 0..20
//      backtrace words with/without terminating id; pair1 hop words; req /
//      surveyor / bus short frames);
//   U  SP/UDP datagrams: every opcode x field boundaries x every truncation.
//   W  websocket listener: the upgrade request truncated at every offset and
//      with each header line removed/mangled.
// Oracle: no sanitizer report / panic / hang / spin (engine verdicts within a
// virtual horizon), the offender sees EOF where the statement says the
// connection is dropped, oversize / malformed messages are never delivered,
// and afterwards a well-behaved control connection still round-trips and the
// listener still accepts.
#define _GNU_SOURCE
#include "vpeer.h"
#include "vs.h"
#include <arpa/inet.h>
#include <errno.h>
#include <fcntl.h>
#include <netinet/in.h>
#include <stdlib.h>
#include <string.h>
#include <sys/socket.h>
#include <sys/un.h>
#include <unistd.h>

enum { TR_SOCKFD, TR_IPC, TR_TCP };
static const char *TRN[] = { "socketfd", "ipc", "tcp" };

typedef struct seat {
	int          tran;
	nng_socket   s;
	nng_listener l;
	char         path[108];
	int          port;
} seat;

static void
seat_open(seat *st, int tran, nng_socket s)
{
	st->tran = tran;
	st->s    = s;
	if (tran == TR_SOCKFD) {
		VH_OK(nng_listener_create(&st->l, s, "socket://"));
		VH_OK(nng_listener_start(st->l, 0));
	} else if (tran == TR_IPC) {
		char url[160];
		snprintf(st->path, sizeof(st->path), "%s/c11-%d.sock", vx_rundir(),
		    (int) getpid());
		snprintf(url, sizeof(url), "ipc://%s", st->path);
		VH_OK(nng_listen(s, url, &st->l, 0));
	} else {
		VH_OK(nng_listen(s, "tcp://127.0.0.1:0", &st->l, 0));
		VH_OK(nng_listener_get_int(st->l, NNG_OPT_BOUND_PORT, &st->port));
	}
}

static int
seat_connect(seat *st)
{
	int fd;
	if (st->tran == TR_SOCKFD) {
		fd = vp_attach_more(st->l);
	} else if (st->tran == TR_IPC) {
		struct sockaddr_un sa;
		memset(&sa, 0, sizeof(sa));
		sa.sun_family = AF_UNIX;
		snprintf(sa.sun_path, sizeof(sa.sun_path), "%s", st->path);
		fd = socket(AF_UNIX, SOCK_STREAM, 0);
		if (connect(fd, (struct sockaddr *) &sa, sizeof(sa)) != 0)
			vs_fail("harness:peer", "ipc connect: %s", strerror(errno));
		fcntl(fd, F_SETFL, fcntl(fd, F_GETFL) | O_NONBLOCK);
	} else {
		struct sockaddr_in sa;
		memset(&sa, 0, sizeof(sa));
		sa.sin_family      = AF_INET;
		sa.sin_port        = htons((uint16_t) st->port);
		sa.sin_addr.s_addr = htonl(INADDR_LOOPBACK);
		fd                 = socket(AF_INET, SOCK_STREAM, 0);
		if (connect(fd, (struct sockaddr *) &sa, sizeof(sa)) != 0)
			vs_fail("harness:peer", "tcp connect: %s", strerror(errno));
		fcntl(fd, F_SETFL, fcntl(fd, F_GETFL) | O_NONBLOCK);
	}
	vs_settle();
	return fd;
}

static int
wait_eof(int fd, int ms)
{
	uint8_t junk[256];
	for (int t = 0; t <= ms; t += 50) {
		for (;;) {
			ssize_t n = vp_read_avail(fd, junk, sizeof(junk));
			if (n < 0)
				return 1;
			if (n == 0)
				break;
		}
		if (t < ms)
			vs_sleep(50);
	}
	return 0;
}

// frame for transport (ipc has the extra 0x01 type byte)
static size_t
mkframe(seat *st, uint8_t *out, const void *hdr, size_t hl, const void *body,
    size_t bl)
{
	return vp_frame(out, hdr, hl, body, bl, st->tran == TR_IPC);
}

// drain the application side; every delivered body is checked by `ok`
typedef int (*deliv_fn)(const uint8_t *body, size_t len, const uint8_t *hdr,
    size_t hl, void *ctx);
static int
drain(nng_socket s, deliv_fn fn, void *ctx, int reply)
{
	int n = 0;
	for (;;) {
		nng_msg *m  = NULL;
		int      rv = nng_recvmsg(s, &m, 0); // RECVTIMEO is 2 ms (virtual)
		if (rv != 0)
			break;
		n++;
		fn(nng_msg_body(m), nng_msg_len(m), nng_msg_header(m),
		    nng_msg_header_len(m), ctx);
		if (reply) {
			if (nng_sendmsg(s, m, NNG_FLAG_NONBLOCK) != 0)
				nng_msg_free(m);
			vs_settle();
		} else
			nng_msg_free(m);
	}
	return n;
}

// ---- control round trip ------------------------------------------------------------
static int ctl_seen;
static int
ctl_deliv(const uint8_t *b, size_t l, const uint8_t *h, size_t hl, void *ctx)
{
	(void) h;
	(void) hl;
	(void) ctx;
	if (l == 7 && memcmp(b, "control", 7) == 0)
		ctl_seen++;
	return 0;
}

static void
control(seat *st, uint16_t peerproto, int isrep, const char *after)
{
	int fd = seat_connect(st);
	int hs = fd < 0 ? -1 : vp_handshake(fd, peerproto);
	if (fd >= 0 && hs < 0) {
		// accept loop cooling down: the handshake completes a bit later
		uint8_t r[8];
		vs_sleep(250);
		if (vp_read_avail(fd, r, 8) == 8 && r[1] == 'S')
			hs = 0;
	}
	if (fd < 0 || hs < 0)
		vs_fail("C11:control:connect",
		    "%s: a well-behaved peer cannot connect after %s", TRN[st->tran],
		    after);
	uint8_t f[64], hdr[4] = { 0x80, 0, 0x12, 0x34 };
	if (!isrep)
		vp_put32(hdr, 1); // pair1 hop count
	size_t n = mkframe(st, f, hdr, 4, "control", 7);
	vp_write_all(fd, f, n);
	vs_settle();
	ctl_seen = 0;
	drain(st->s, ctl_deliv, NULL, isrep);
	if (!ctl_seen) {
		// the accept loop may cool down for 100 ms after a failed peer
		vs_sleep(250);
		drain(st->s, ctl_deliv, NULL, isrep);
	}
	if (!ctl_seen)
		vs_fail("C11:control:delivery",
		    "%s: message of a well-behaved peer not delivered after %s",
		    TRN[st->tran], after);
	if (isrep) {
		vp_rd         *rd = calloc(1, sizeof(*rd));
		const uint8_t *p;
		size_t         l;
		rd->ipc = st->tran == TR_IPC;
		vs_settle();
		if (vp_next_frame(fd, rd, &p, &l) != 1 || l != 11 ||
		    memcmp(p, hdr, 4) != 0)
			vs_fail("C11:control:reply",
			    "%s: reply to a well-behaved peer missing after %s",
			    TRN[st->tran], after);
		free(rd);
	}
	close(fd);
	vs_settle();
}

// ---- peers that go away before or during the handshake, abruptly ------------------------------------
// For every stream transport: k connections (1 or 3 back to back) each of which connects and then
// disappears in one of six ways - orderly close or reset (SO_LINGER 0), before the library has
// looked at the connection (no settle in between) or just after, with 0..8 bytes of the handshake
// written - so that the library's FIRST read or write on the new connection already fails.  The
// error codes of that first operation differ (EPIPE, ECONNRESET, EOF) and must all leave the
// listener accepting: afterwards a well-behaved peer connects and is served.
enum { ED_CLOSE_NOW, ED_RESET_NOW, ED_CLOSE_LATER, ED_RESET_LATER, ED_PART_CLOSE, ED_FULL_RESET, ED_N };
static const char *EDN[] = { "close-at-once", "reset-at-once", "close-after-accept",
	"reset-after-accept", "partial-handshake-close", "handshake-then-reset" };
static int
ed_connect(seat *st)
{
	// like seat_connect but WITHOUT letting the library run
	int fd;
	if (st->tran == TR_SOCKFD) {
		fd = vp_attach_more(st->l);
	} else if (st->tran == TR_IPC) {
		struct sockaddr_un sa;
		memset(&sa, 0, sizeof(sa));
		sa.sun_family = AF_UNIX;
		snprintf(sa.sun_path, sizeof(sa.sun_path), "%s", st->path);
		fd = socket(AF_UNIX, SOCK_STREAM, 0);
		if (connect(fd, (struct sockaddr *) &sa, sizeof(sa)) != 0)
			vs_fail("harness:peer", "ipc connect: %s", strerror(errno));
	} else {
		struct sockaddr_in sa;
		memset(&sa, 0, sizeof(sa));
		sa.sin_family      = AF_INET;
		sa.sin_port        = htons((uint16_t) st->port);
		sa.sin_addr.s_addr = htonl(INADDR_LOOPBACK);
		fd                 = socket(AF_INET, SOCK_STREAM, 0);
		if (connect(fd, (struct sockaddr *) &sa, sizeof(sa)) != 0)
			vs_fail("harness:peer", "tcp connect: %s", strerror(errno));
	}
	return fd;
}
static void
ed_reset(int fd)
{
	struct linger lg = { .l_onoff = 1, .l_linger = 0 };
	setsockopt(fd, SOL_SOCKET, SO_LINGER, &lg, sizeof(lg));
	close(fd);
}
static void
run_early(void *arg)
{
	int tran = (int) (intptr_t) arg & 3, isrep = ((int) (intptr_t) arg >> 2) & 1;
	if (tran == TR_TCP)
		vs_tcp_grace_us = 1500;
	vh_init(0);
	nng_socket s;
	uint16_t   peer;
	if (isrep) {
		VH_OK(nng_rep0_open(&s));
		peer = SP_REQ;
	} else {
		VH_OK(nng_pair1_open_poly(&s));
		peer = SP_PAIR1;
	}
	VH_OK(nng_socket_set_ms(s, NNG_OPT_RECVTIMEO, 2));
	seat st;
	seat_open(&st, tran, s);
	vs_settle();
	// a first, good connection: the listener is known to work and has a pipe
	int warm = vs_choose(VK_ENV, 2);
	if (warm)
		control(&st, peer, isrep, "start");
	int mode = vs_choose(VK_ENV, ED_N);
	int k    = vs_choose(VK_ENV, 2) ? 3 : 1;
	int nb   = mode == ED_PART_CLOSE ? 1 + vs_choose(VK_ENV, 7) : 0;
	vs_log("%s %s x%d partial=%d warm=%d", TRN[tran], EDN[mode], k, nb, warm);
	for (int i = 0; i < k; i++) {
		int     fd   = ed_connect(&st);
		uint8_t h[8] = { 0, 'S', 'P', 0, (uint8_t) (peer >> 8), (uint8_t) peer, 0, 0 };
		switch (mode) {
		case ED_CLOSE_NOW:
			close(fd);
			break;
		case ED_RESET_NOW:
			ed_reset(fd);
			break;
		case ED_CLOSE_LATER:
			vs_settle();
			close(fd);
			break;
		case ED_RESET_LATER:
			vs_settle();
			ed_reset(fd);
			break;
		case ED_PART_CLOSE:
			if (write(fd, h, (size_t) nb) != nb)
				vs_fail("harness:peer", "write");
			close(fd);
			break;
		default:
			if (write(fd, h, 8) != 8)
				vs_fail("harness:peer", "write");
			ed_reset(fd);
			break;
		}
		vs_case();
		vs_nontrivial();
	}
	vs_settle();
	char after[80];
	snprintf(after, sizeof(after), "%d peer(s) that %s", k, EDN[mode]);
	control(&st, peer, isrep, after);
	control(&st, peer, isrep, after); // and it keeps working
	vs_outcome("%s x%d", EDN[mode], k);
	nng_socket_close(s);
	if (st.path[0])
		unlink(st.path);
	vh_fini();
}

// ---- stream cases ------------------------------------------------------------------------
typedef struct sarg {
	int tran;
	int isrep;     // 0 pair0 socket, 1 rep socket
	int family;    // 'A','B','C','D','S'
	size_t recvmax; // 0 unlimited, 16, or (size_t)-1 = default
	int nbatch, per;
} sarg;

static int bad_delivery;
static char bad_what[160];
static int cur_case, cur_maxframes;
static int
tagged_deliv(const uint8_t *b, size_t l, const uint8_t *h, size_t hl, void *ctx)
{
	(void) h;
	(void) hl;
	sarg *a = ctx;
	// bodies of hostile cases: [case lo][case hi][frame idx][...]
	if (l == 7 && memcmp(b, "control", 7) == 0)
		return 0;
	if (l < 3) {
		bad_delivery = 1;
		snprintf(bad_what, sizeof(bad_what),
		    "a %zu-byte message no peer sent in that form", l);
		return 0;
	}
	int cs = b[0] | (b[1] << 8), fi = b[2];
	if (cs != cur_case || fi >= cur_maxframes) {
		bad_delivery = 1;
		snprintf(bad_what, sizeof(bad_what),
		    "frame %d of case %d delivered although at most %d complete "
		    "valid frame(s) of case %d were sent",
		    fi, cs, cur_maxframes, cur_case);
	}
	(void) a;
	return 0;
}

static void
run_stream(void *arg)
{
	sarg *a = arg;
	if (a->tran == TR_TCP)
		vs_tcp_grace_us = 1500;
	vh_init(0);
	nng_socket s;
	uint16_t   peer;
	if (a->isrep) {
		VH_OK(nng_rep0_open(&s));
		peer = SP_REQ;
	} else {
		VH_OK(nng_pair1_open_poly(&s)); // accepts many peers at once
		peer = SP_PAIR1;
	}
	if (a->recvmax != (size_t) -1)
		VH_OK(nng_socket_set_size(s, NNG_OPT_RECVMAXSZ, a->recvmax));
	VH_OK(nng_socket_set_int(s, NNG_OPT_RECVBUF, 64));
	VH_OK(nng_socket_set_ms(s, NNG_OPT_RECVTIMEO, 2));
	seat st;
	seat_open(&st, a->tran, s);
	vs_settle();
	int batch = vs_choose(VK_ENV, a->nbatch);
	// the valid transcript
	uint8_t hs[8] = { 0, 'S', 'P', 0, (uint8_t) (peer >> 8), (uint8_t) peer, 0,
		0 };
	uint8_t phdr[8];
	size_t  phl;
	if (a->isrep) {
		vp_put32(phdr, 0x80000001u);
		phl = 4;
	} else {
		vp_put32(phdr, 1);
		phl = 4;
	}
	size_t recvmax_eff = a->recvmax == (size_t) -1 ? ((size_t) 1 << 30)
	                                               : a->recvmax;
	for (int k = 0; k < a->per; k++) {
		int     cs = batch * a->per + k;
		uint8_t W[200], body1[9], body2[5];
		body1[0] = (uint8_t) cs;
		body1[1] = (uint8_t) (cs >> 8);
		body1[2] = 0;
		memset(body1 + 3, 0xA1, 6);
		body2[0] = (uint8_t) cs;
		body2[1] = (uint8_t) (cs >> 8);
		body2[2] = 1;
		memset(body2 + 3, 0xB2, 2);
		size_t o = 0, f1, f2;
		memcpy(W, hs, 8);
		o  = 8;
		f1 = o + mkframe(&st, W + o, phdr, phl, body1, 9);
		f2 = f1 + mkframe(&st, W + f1, phdr, phl, body2, 5);
		size_t lenoff = 8 + (a->tran == TR_IPC ? 1 : 0); // first length byte
		int    expect_eof = 0, send_len = (int) f2, cut1 = -1, cut2 = -1, must_deliver = -1;
		char   what[120];
		cur_case      = cs;
		cur_maxframes = 2;
		if (a->family == 'A') {
			if (cs >= (int) f2)
				break;
			send_len      = cs; // truncate at offset cs
			cur_maxframes = cs >= (int) f2 ? 2 : cs >= (int) f1 ? 1 : 0;
			snprintf(what, sizeof(what), "truncation at offset %d", cs);
		} else if (a->family == 'B') {
			int off = cs / 255, v = cs % 255;
			if (off >= 8)
				break;
			uint8_t nv = (uint8_t) v;
			if (nv >= hs[off])
				nv++; // every value except the valid one
			W[off]        = nv;
			expect_eof    = 1;
			cur_maxframes = 0;
			snprintf(what, sizeof(what), "handshake byte %d = 0x%02x", off, nv);
		} else if (a->family == 'S') {
			// the 8-byte SP header arrives in pieces (a slow or partial sender): a valid one is
			// accepted whatever the pieces are, and c bytes of garbage followed by the first 8-c
			// bytes of a valid header is not a header, in whatever pieces it arrives
			int variant = cs / 7, c = cs % 7 + 1;
			if (variant >= 4)
				break;
			cut1 = c;
			if (variant == 1) {
				uint8_t g[8];
				memset(g, 0x5a, sizeof(g));
				memcpy(g + c, hs, (size_t) (8 - c));
				memcpy(W, g, 8);
				expect_eof    = 1;
				cur_maxframes = 0;
			} else if (variant == 2) {
				cut2 = c + 1 < 8 ? c + 1 : -1;
			} else if (variant == 3) {
				cut1 = -2; // byte by byte up to offset c, the rest in one piece
				cut2 = c;
			}
			must_deliver = variant == 1 ? 0 : 2;
			snprintf(what, sizeof(what), "%s header in pieces (variant %d, cut %d)",
			    variant == 1 ? "shifted" : "valid", variant, c);
		} else if (a->family == 'C') {
			int off = cs / 256, v = cs % 256;
			if (off >= 8)
				break;
			W[lenoff + (size_t) off] = (uint8_t) v;
			uint64_t L               = 0;
			for (int i = 0; i < 8; i++)
				L = (L << 8) | W[lenoff + (size_t) i];
			snprintf(what, sizeof(what), "length byte %d = 0x%02x (L=%llu)",
			    off, v, (unsigned long long) L);
			// (64 KiB .. 256 MiB within the limit would legitimately be allocated and
			// waited for: skipped.  Larger ones cannot be allocated - the sanitizer
			// refuses, see engine/vs.c - or are not valid lengths at all: kept.)
			if ((recvmax_eff == 0 || L <= recvmax_eff) && L > (1u << 16) &&
			    L <= (256ull << 20))
				continue;
			if (L == phl + 9) {
				cur_maxframes = 2; // the valid value
			} else {
				// frame boundaries are now the peer's lie; only the limit
				// clause is asserted
				cur_maxframes = -1;
				if (recvmax_eff != 0 && L > recvmax_eff)
					expect_eof = 1;
			}
		} else { // 'D' boundary lengths with a body of exactly min(L,64)
			static const uint64_t LV[] = { 0, 1, 3, 4, 5, 15, 16, 17, 18,
				0x7fffffffull, 0x80000000ull, 0x80000001ull, 0xffffffffull,
				0x100000000ull, 0x100000001ull, 0x8000000000000000ull,
				0xffffffffffffffffull, 0x3fffffffull, 0x40000000ull,
				0x40000001ull,
				// lengths whose sum with the library's own head room wraps
				0xffffffffffffffe0ull, 0xffffffffffffffdfull, 0xfffffffffffffff8ull,
				0xffffffffffffffc0ull, 0x1000000000000000ull, 0x0fffffffffffffffull };
			if (cs >= (int) (sizeof(LV) / sizeof(LV[0])))
				break;
			uint64_t L = LV[cs];
			if ((recvmax_eff == 0 || L <= recvmax_eff) && L > (1u << 16) &&
			    L <= (256ull << 20))
				continue; // would legitimately be allocated and waited for: skipped
			o = 8;
			if (a->tran == TR_IPC)
				W[o++] = 1;
			for (int i = 7; i >= 0; i--)
				W[o++] = (uint8_t) (L >> (8 * i));
			size_t bl = L > 64 ? 64 : (size_t) L;
			// payload = protocol header + tagged body, as far as it fits
			uint8_t pay[80];
			memset(pay, 0xC3, sizeof(pay));
			memcpy(pay, phdr, phl);
			pay[phl]     = (uint8_t) cs;
			pay[phl + 1] = (uint8_t) (cs >> 8);
			pay[phl + 2] = 0;
			memcpy(W + o, pay, bl);
			o += bl;
			send_len = (int) o;
			snprintf(what, sizeof(what), "length %llu, recvmax %zu",
			    (unsigned long long) L, a->recvmax);
			if (recvmax_eff != 0 && L > recvmax_eff) {
				expect_eof    = 1;
				cur_maxframes = 0;
			} else if (L <= 64 && L >= phl + 3) {
				cur_maxframes = 1; // complete and within the limit
			} else {
				cur_maxframes = -1; // incomplete or too short for a tag
			}
		}
		int fd = seat_connect(&st);
		if (fd < 0)
			vs_fail("C11:listener:accept", "%s: connection refused before %s",
			    TRN[a->tran], what);
		if (cut1 == -2) {
			for (int i = 0; i < cut2; i++) {
				vp_write_all(fd, W + i, 1);
				vs_settle();
			}
			vp_write_all(fd, W + cut2, (size_t) (send_len - cut2));
		} else if (cut1 > 0) {
			vp_write_all(fd, W, (size_t) cut1);
			vs_settle();
			if (cut2 > cut1) {
				vp_write_all(fd, W + cut1, (size_t) (cut2 - cut1));
				vs_settle();
				vp_write_all(fd, W + cut2, (size_t) (send_len - cut2));
			} else
				vp_write_all(fd, W + cut1, (size_t) (send_len - cut1));
		} else
			vp_write_all(fd, W, (size_t) send_len);
		vs_settle();
		vs_case();
		vs_nontrivial();
		bad_delivery = 0;
		if (cur_maxframes >= 0) {
			int nd = drain(s, tagged_deliv, a, a->isrep);
			if (must_deliver >= 0 && nd != must_deliver && !bad_delivery)
				vs_fail(must_deliver ? "C11:valid-peer-dropped" : "C11:delivered-invalid",
				    "%s/%s: after %s: %d message(s) delivered, %d expected%s", TRN[a->tran],
				    a->isrep ? "rep" : "pair1poly", what, nd, must_deliver,
				    must_deliver ? " (a conforming peer that sends its header slowly)" : "");
			if (bad_delivery)
				vs_fail("C11:delivered-invalid", "%s/%s: after %s: %s",
				    TRN[a->tran], a->isrep ? "rep" : "pair1poly", what,
				    bad_what);
		} else {
			// lengths are a lie: only make sure oversize is not delivered
			for (;;) {
				nng_msg *m = NULL;
				if (nng_recvmsg(s, &m, 0) != 0)
					break;
				if (recvmax_eff != 0 && nng_msg_len(m) > recvmax_eff)
					vs_fail("C11:oversize-delivered",
					    "%s: %zu-byte message delivered with "
					    "RECVMAXSZ %zu (%s)",
					    TRN[a->tran], nng_msg_len(m), recvmax_eff,
					    what);
				nng_msg_free(m);
			}
		}
		if (expect_eof && !wait_eof(fd, a->family == 'B' ? 0 : 0))
			vs_fail(a->family == 'B' ? "C11:bad-handshake-not-dropped"
			                         : "C11:oversize-not-dropped",
			    "%s/%s: connection still open after %s", TRN[a->tran],
			    a->isrep ? "rep" : "pair1poly", what);
		close(fd);
		vs_settle();
	}
	char after[60];
	snprintf(after, sizeof(after), "family %c batch %d", a->family, batch);
	control(&st, peer, a->isrep, after);
	// a half-open handshake must be timed out by the library (10 s)
	// (socket:// deliberately has no negotiation timeout: the fd comes from
	// the application itself)
	if (a->family == 'A' && batch == 0 && a->tran != TR_SOCKFD) {
		int fd = seat_connect(&st);
		vp_write_all(fd, hs, 5);
		vs_sleep(10200);
		if (!wait_eof(fd, 0))
			vs_fail("C11:handshake-timeout",
			    "%s: a connection that sent 5 of 8 handshake bytes is still "
			    "open after 10.2 s",
			    TRN[a->tran]);
		close(fd);
		control(&st, peer, a->isrep, "handshake timeout");
	}
	vs_outcome("%c ok", a->family);
	nng_socket_close(s);
	vh_fini();
}

// ---- E: protocol header shapes ---------------------------------------------------------------
typedef struct earg {
	int kind; // 0 rep, 1 respondent, 2 pair1, 3 req (reply side), 4 surveyor, 5 bus, 6 xrep
	int ttl;
} earg;
static int e_seen_marker, e_seen_bad;
static int
e_deliv(const uint8_t *b, size_t l, const uint8_t *h, size_t hl, void *ctx)
{
	(void) h;
	(void) hl;
	(void) ctx;
	if (l == 4 && memcmp(b, "good", 4) == 0)
		e_seen_marker++;
	else if (l == 3 && memcmp(b, "BAD", 3) == 0)
		e_seen_bad++;
	return 0;
}

static void
run_hdr(void *arg)
{
	earg *e = arg;
	vh_init(0);
	nng_socket s;
	uint16_t   peer;
	int        isrep = 0;
	switch (e->kind) {
	case 0:
		VH_OK(nng_rep0_open(&s));
		peer  = SP_REQ;
		isrep = 1;
		break;
	case 1:
		VH_OK(nng_respondent0_open(&s));
		peer  = SP_SURVEYOR;
		isrep = 1;
		break;
	case 2:
		VH_OK(nng_pair1_open_poly(&s));
		peer = SP_PAIR1;
		break;
	case 3:
		VH_OK(nng_req0_open(&s));
		peer = SP_REP;
		break;
	case 4:
		VH_OK(nng_surveyor0_open(&s));
		peer = SP_RESPONDENT;
		break;
	case 5:
		VH_OK(nng_bus0_open(&s));
		peer = SP_BUS;
		break;
	default:
		VH_OK(nng_rep0_open_raw(&s));
		peer = SP_REQ;
		break;
	}
	if (e->kind <= 2 || e->kind == 6)
		VH_OK(nng_socket_set_int(s, NNG_OPT_MAXTTL, e->ttl));
	seat st;
	VH_OK(nng_socket_set_ms(s, NNG_OPT_RECVTIMEO, 2));
	seat_open(&st, TR_SOCKFD, s);
	if (e->kind == 3 || e->kind == 4) {
		// an outstanding request / survey so that replies are expected
		int cfd = seat_connect(&st);
		if (vp_handshake(cfd, peer) < 0)
			vs_fail("harness:setup", "handshake");
		nng_msg *m;
		VH_OK(nng_msg_alloc(&m, 0));
		VH_OK(nng_msg_append(m, "q", 1));
		if (nng_sendmsg(s, m, NNG_FLAG_NONBLOCK) != 0)
			nng_msg_free(m);
		vs_settle();
		(void) cfd; // stays open as the legitimate peer
	}
	// shapes: n hop words (no end bit) then optionally the terminating id,
	// then body "BAD" / "good"; plus short frames of 0..3 bytes
	for (int n = 0; n <= 20; n++)
		for (int term = 0; term < 2; term++) {
			uint8_t pay[120];
			size_t  pl = 0;
			if (e->kind == 2) {
				// pair1: a single hop word with value n (and big values)
				uint32_t hop = term ? (uint32_t) n
				                    : (n == 0 ? 0xffffffffu
				                              : (uint32_t) (0x100u << (n % 20)));
				vp_put32(pay, hop);
				pl = 4;
			} else {
				for (int w = 0; w < n; w++) {
					vp_put32(pay + pl, 0x00000100u + (unsigned) w);
					pl += 4;
				}
				if (term) {
					vp_put32(pay + pl, 0x80000000u | 0x7777u);
					pl += 4;
				}
			}
			// classification by the STATEMENT
			int must_not_deliver = 0, must_deliver = 0;
			if (e->kind == 0 || e->kind == 1 || e->kind == 6) {
				if (!term)
					must_not_deliver = 1; // no terminating id
				else if (n > e->ttl)
					must_not_deliver = 1; // crossed more hops than ttl
				else if (n < e->ttl)
					must_deliver = 1;
			} else if (e->kind == 2) {
				uint32_t hop = vp_get32(pay);
				if (hop > 0xff || hop > (uint32_t) e->ttl)
					must_not_deliver = 1;
				else if (hop >= 1 && hop < (uint32_t) e->ttl)
					must_deliver = 1;
			} else if (e->kind == 3 || e->kind == 4) {
				must_not_deliver = 1; // never an answer to the live request
			} else
				continue; // bus: no header on the wire (cooked)
			memcpy(pay + pl, must_deliver ? "good" : "BAD", must_deliver ? 4 : 3);
			pl += must_deliver ? 4 : 3;
			int fd = seat_connect(&st);
			if (vp_handshake(fd, peer) < 0)
				vs_fail("C11:listener:accept",
				    "peer could not connect before shape n=%d term=%d", n,
				    term);
			uint8_t f[160];
			size_t  fl = mkframe(&st, f, NULL, 0, pay, pl);
			vp_write_all(fd, f, fl);
			vs_settle();
			vs_case();
			vs_nontrivial();
			e_seen_bad = e_seen_marker = 0;
			drain(s, e_deliv, NULL, isrep);
			if (must_not_deliver && e_seen_bad)
				vs_fail("C11:malformed-header-delivered",
				    "kind %d ttl %d: frame with %d hop words, %s terminating "
				    "id was delivered",
				    e->kind, e->ttl, n, term ? "with" : "without");
			if (must_deliver && !e_seen_marker)
				vs_fail("C11:valid-header-dropped",
				    "kind %d ttl %d: well-formed frame with %d hop words "
				    "was not delivered",
				    e->kind, e->ttl, n);
			close(fd);
			vs_settle();
		}
	for (int shortlen = 0; shortlen < 4; shortlen++) {
		if (e->kind == 5)
			break;
		int     fd = seat_connect(&st);
		uint8_t f[32], junk[3] = { 0x80, 0, 1 };
		if (vp_handshake(fd, peer) < 0)
			vs_fail("C11:listener:accept", "connect before short frame");
		size_t fl = mkframe(&st, f, NULL, 0, junk, (size_t) shortlen);
		vp_write_all(fd, f, fl);
		vs_settle();
		nng_msg *m = NULL;
		if (nng_recvmsg(s, &m, 0) == 0)
			vs_fail("C11:malformed-header-delivered",
			    "kind %d: a %d-byte frame (shorter than the protocol header) "
			    "was delivered",
			    e->kind, shortlen);
		close(fd);
		vs_settle();
	}
	if (e->kind <= 2 || e->kind == 6) {
		uint8_t  hdr[4];
		uint16_t pp = peer;
		// control: well-formed single-hop message
		int fd = seat_connect(&st);
		if (vp_handshake(fd, pp) < 0)
			vs_fail("C11:control:connect", "after header shapes");
		if (e->kind == 2)
			vp_put32(hdr, 1);
		else
			vp_put32(hdr, 0x80000042u);
		uint8_t f[64];
		size_t  fl = mkframe(&st, f, hdr, 4, "good", 4);
		vp_write_all(fd, f, fl);
		vs_settle();
		e_seen_marker = 0;
		drain(s, e_deliv, NULL, isrep);
		if (!e_seen_marker)
			vs_fail("C11:control:delivery",
			    "kind %d: well-behaved peer not served after header shapes",
			    e->kind);
		close(fd);
	}
	vs_outcome("hdr ok");
	nng_socket_close(s);
	vh_fini();
}

// ---- U: SP/UDP datagrams ------------------------------------------------------------------------
static void
run_udp(void *arg)
{
	(void) arg;
	vs_tcp_grace_us = 1500;
	vh_init(0);
	nng_socket   s, c;
	nng_listener l;
	int          port = 0;
	VH_OK(nng_pair0_open(&s));
	VH_OK(nng_listen(s, "udp://127.0.0.1:0", &l, 0));
	VH_OK(nng_listener_get_int(l, NNG_OPT_BOUND_PORT, &port));
	int fd = socket(AF_INET, SOCK_DGRAM, 0);
	struct sockaddr_in sa;
	memset(&sa, 0, sizeof(sa));
	sa.sin_family      = AF_INET;
	sa.sin_port        = htons((uint16_t) port);
	sa.sin_addr.s_addr = htonl(INADDR_LOOPBACK);
	int batch = vs_choose(VK_ENV, 16);
	static const uint16_t BV[] = { 0, 1, 0x10, 0x11, 0x7fff, 0x8000, 0xffff,
		65000 };
	int sent = 0;
	for (int op = batch * 16; op < batch * 16 + 16; op++)
		for (int ver = 0; ver < 3; ver++)
			for (int ti = 0; ti < 8; ti += 7)
				for (int p0 = 0; p0 < 8; p0++)
					for (int p1 = 0; p1 < 8; p1 += 3)
						for (int len = 0; len <= 12; len += (len < 8 ? 1 : 4)) {
							uint8_t d[16];
							memset(d, 0x5a, sizeof(d));
							d[0] = (uint8_t) ver;
							d[1] = (uint8_t) op;
							d[2] = (uint8_t) (BV[ti] >> 8);
							d[3] = (uint8_t) BV[ti];
							d[4] = (uint8_t) (BV[p0] >> 8);
							d[5] = (uint8_t) BV[p0];
							d[6] = (uint8_t) (BV[p1] >> 8);
							d[7] = (uint8_t) BV[p1];
							sendto(fd, d, (size_t) len, 0,
							    (struct sockaddr *) &sa, sizeof(sa));
							vs_case();
							vs_nontrivial();
							if ((++sent & 63) == 0) {
								uint8_t junk[2048];
								vs_settle();
								while (recv(fd, junk, sizeof(junk),
								           MSG_DONTWAIT) > 0)
									;
							}
						}
	vs_settle();
	nng_msg *m = NULL;
	if (nng_recvmsg(s, &m, NNG_FLAG_NONBLOCK) == 0)
		vs_fail("C11:udp:delivered-garbage",
		    "a %zu-byte message was delivered from raw datagrams that never "
		    "completed a connection",
		    nng_msg_len(m));
	// control: a real nng UDP dialer still connects and exchanges a message
	char url[64];
	snprintf(url, sizeof(url), "udp://127.0.0.1:%d", port);
	VH_OK(nng_pair0_open(&c));
	VH_OK(nng_socket_set_ms(c, NNG_OPT_SENDTIMEO, 2000));
	VH_OK(nng_socket_set_ms(s, NNG_OPT_RECVTIMEO, 2000));
	int rv = nng_dial(c, url, NULL, 0);
	if (rv != 0)
		vs_fail("C11:control:connect", "udp dial after hostile datagrams: %s",
		    nng_strerror(rv));
	VH_OK(nng_msg_alloc(&m, 0));
	VH_OK(nng_msg_append(m, "control", 7));
	if (nng_sendmsg(c, m, 0) != 0)
		vs_fail("C11:control:delivery", "udp control send failed");
	rv = nng_recvmsg(s, &m, 0);
	if (rv != 0 || nng_msg_len(m) != 7)
		vs_fail("C11:control:delivery", "udp control message not delivered: %s",
		    nng_strerror(rv));
	nng_msg_free(m);
	vs_outcome("udp ok");
	close(fd);
	nng_socket_close(c);
	nng_socket_close(s);
	vh_fini();
}

// ---- W: websocket upgrade request ---------------------------------------------------------------
static void
run_ws(void *arg)
{
	int mode = (int) (intptr_t) arg; // 0 truncations, 1 line mutations
	vs_tcp_grace_us = 1500;
	vh_init(0);
	nng_socket   s, c;
	nng_listener l;
	int          port = 0;
	VH_OK(nng_pair0_open(&s));
	VH_OK(nng_listen(s, "ws://127.0.0.1:0/c11", &l, 0));
	VH_OK(nng_listener_get_int(l, NNG_OPT_BOUND_PORT, &port));
	static const char *LINES[] = { "GET /c11 HTTP/1.1\r\n",
		"Host: 127.0.0.1\r\n", "Upgrade: websocket\r\n",
		"Connection: Upgrade\r\n",
		"Sec-WebSocket-Key: dGhlIHNhbXBsZSBub25jZQ==\r\n",
		"Sec-WebSocket-Version: 13\r\n",
		"Sec-WebSocket-Protocol: pair.sp.nanomsg.org\r\n", "\r\n" };
	char req[600] = "";
	for (int i = 0; i < 8; i++)
		strcat(req, LINES[i]);
	int total = (int) strlen(req);
	int batch = vs_choose(VK_ENV, mode == 0 ? 8 : 4);
	seat st;
	st.tran = TR_TCP;
	st.port = port;
	st.s    = s;
	int lo, hi;
	if (mode == 0) {
		lo = batch * ((total + 7) / 8);
		hi = lo + (total + 7) / 8;
		if (hi > total)
			hi = total;
	} else {
		lo = batch * 6;
		hi = lo + 6;
	}
	for (int k = lo; k < hi; k++) {
		char  buf[700];
		int   n;
		if (mode == 0) {
			memcpy(buf, req, (size_t) k);
			n = k;
		} else {
			// k = line * 3 + variant: drop the line / garble its value /
			// replace CRLF by LF.. (only header lines 0..7)
			int line = k / 3, var = k % 3;
			if (line >= 8)
				break;
			buf[0] = 0;
			for (int i = 0; i < 8; i++) {
				if (i != line) {
					strcat(buf, LINES[i]);
					continue;
				}
				if (var == 0)
					continue;
				if (var == 1) {
					char t[100];
					snprintf(t, sizeof(t), "%s", LINES[i]);
					for (char *q = t; *q; q++)
						if (*q >= 'a' && *q <= 'z')
							*q = 'x';
					strcat(buf, t);
				} else {
					char t[100];
					snprintf(t, sizeof(t), "%s", LINES[i]);
					t[strlen(t) - 2] = '\n';
					t[strlen(t) - 1] = 0;
					strcat(buf, t);
				}
			}
			n = (int) strlen(buf);
		}
		int fd = seat_connect(&st);
		vp_write_all(fd, buf, (size_t) n);
		vs_settle();
		vs_sleep(5);
		vs_case();
		vs_nontrivial();
		// whatever the server answers, it must not deliver anything
		nng_msg *m = NULL;
		if (nng_recvmsg(s, &m, NNG_FLAG_NONBLOCK) == 0)
			vs_fail("C11:ws:delivered-garbage",
			    "a message was delivered from a broken upgrade (case %d)", k);
		close(fd);
		vs_settle();
	}
	// control: a real nng ws dialer still works
	char url[64];
	snprintf(url, sizeof(url), "ws://127.0.0.1:%d/c11", port);
	VH_OK(nng_pair0_open(&c));
	VH_OK(nng_socket_set_ms(c, NNG_OPT_SENDTIMEO, 2000));
	VH_OK(nng_socket_set_ms(s, NNG_OPT_RECVTIMEO, 2000));
	int rv = nng_dial(c, url, NULL, 0);
	if (rv != 0)
		vs_fail("C11:control:connect", "ws dial after broken upgrades: %s",
		    nng_strerror(rv));
	nng_msg *m;
	VH_OK(nng_msg_alloc(&m, 0));
	VH_OK(nng_msg_append(m, "control", 7));
	if (nng_sendmsg(c, m, 0) != 0)
		vs_fail("C11:control:delivery", "ws control send failed");
	rv = nng_recvmsg(s, &m, 0);
	if (rv != 0 || nng_msg_len(m) != 7)
		vs_fail("C11:control:delivery", "ws control message not delivered: %s",
		    nng_strerror(rv));
	nng_msg_free(m);
	vs_outcome("ws ok");
	nng_socket_close(c);
	nng_socket_close(s);
	vh_fini();
}

// ---- WF: websocket message limit across fragments --------------------------------------------------
// a raw websocket client completes the upgrade and sends one binary message split into 1..3 masked
// fragments; the message is delivered (exactly) iff its total size is within RECVMAXSZ, otherwise
// nothing is delivered and that connection is closed; a conforming client still works afterwards.
static size_t
ws_cframe(uint8_t *out, int op, int fin, const uint8_t *pl, size_t n)
{
	static const uint8_t key[4] = { 0x37, 0xfa, 0x21, 0x3d };
	size_t               o      = 0;
	out[o++]                    = (uint8_t) ((fin ? 0x80 : 0) | op);
	out[o++]                    = (uint8_t) (0x80 | n); // n < 126 here
	memcpy(out + o, key, 4);
	o += 4;
	for (size_t i = 0; i < n; i++)
		out[o++] = pl[i] ^ key[i & 3];
	return o;
}

static void
run_wsmax(void *arg)
{
	(void) arg;
	enum { R = 100 };
	static const int LENS[] = { 0, 1, 50, 99, 100, 101 };
	vs_tcp_grace_us = 1500;
	vh_init(0);
	nng_socket   s, c;
	nng_listener l;
	int          port = 0;
	VH_OK(nng_pair0_open(&s));
	VH_OK(nng_socket_set_size(s, NNG_OPT_RECVMAXSZ, R));
	VH_OK(nng_socket_set_ms(s, NNG_OPT_RECVTIMEO, 300));
	VH_OK(nng_listen(s, "ws://127.0.0.1:0/c11", &l, 0));
	VH_OK(nng_listener_get_int(l, NNG_OPT_BOUND_PORT, &port));
	static const char req[] = "GET /c11 HTTP/1.1\r\nHost: 127.0.0.1\r\n"
	                          "Upgrade: websocket\r\nConnection: Upgrade\r\n"
	                          "Sec-WebSocket-Key: dGhlIHNhbXBsZSBub25jZQ==\r\n"
	                          "Sec-WebSocket-Version: 13\r\n"
	                          "Sec-WebSocket-Protocol: pair.sp.nanomsg.org\r\n\r\n";
	seat st;
	st.tran = TR_TCP;
	st.port = port;
	st.s    = s;
	int first = vs_choose(VK_ENV, 6);
	// shapes: nf fragments (1..3), first of LENS[first], the others over LENS
	for (int shape = 0; shape < 1 + 6 + 36; shape++) {
		int nf, ln[3];
		ln[0] = LENS[first];
		if (shape == 0)
			nf = 1;
		else if (shape < 7) {
			nf    = 2;
			ln[1] = LENS[shape - 1];
		} else {
			nf    = 3;
			ln[1] = LENS[(shape - 7) / 6];
			ln[2] = LENS[(shape - 7) % 6];
		}
		int total = 0;
		for (int i = 0; i < nf; i++)
			total += ln[i];
		uint8_t pay[320], wire[400];
		for (int i = 0; i < total; i++)
			pay[i] = (uint8_t) (0x41 + (i * 7 + shape) % 53);
		size_t wl = 0;
		int    at = 0;
		for (int i = 0; i < nf; i++) {
			wl += ws_cframe(wire + wl, i == 0 ? 2 : 0, i == nf - 1,
			    pay + at, (size_t) ln[i]);
			at += ln[i];
		}
		int fd = seat_connect(&st);
		vp_write_all(fd, req, sizeof(req) - 1);
		vs_settle();
		vs_sleep(5);
		char    resp[600];
		ssize_t rn = vp_read_avail(fd, resp, sizeof(resp) - 1);
		if (rn < 12 || memcmp(resp, "HTTP/1.1 101", 12) != 0)
			vs_fail("harness:ws-upgrade", "upgrade refused (%zd bytes)", rn);
		vp_write_all(fd, wire, wl);
		vs_settle();
		vs_sleep(5);
		vs_case();
		vs_nontrivial();
		nng_msg *m  = NULL;
		int      rv = nng_recvmsg(s, &m, 0);
		char     what[80];
		snprintf(what, sizeof(what), "fragments %d/%d/%d total %d limit %d", ln[0],
		    nf > 1 ? ln[1] : -1, nf > 2 ? ln[2] : -1, total, R);
		if (total <= R) {
			if (rv != 0)
				vs_fail("C11:ws:within-limit-dropped", "[%s] not delivered: %s",
				    what, nng_strerror(rv));
			if (nng_msg_len(m) != (size_t) total ||
			    memcmp(nng_msg_body(m), pay, (size_t) total) != 0)
				vs_fail("C11:ws:corrupted", "[%s] delivered %zu bytes %s", what,
				    nng_msg_len(m),
				    vh_hex(nng_msg_body(m),
				        nng_msg_len(m) > 12 ? 12 : nng_msg_len(m)));
			nng_msg_free(m);
		} else {
			if (rv == 0)
				vs_fail("C11:recvmax:delivered",
				    "[%s] a %zu byte message was delivered over ws", what,
				    nng_msg_len(m));
			if (!wait_eof(fd, 1000))
				vs_fail("C11:recvmax:not-closed",
				    "[%s] the offending ws connection was not closed", what);
		}
		close(fd);
		vs_settle();
	}
	char url[64];
	snprintf(url, sizeof(url), "ws://127.0.0.1:%d/c11", port);
	VH_OK(nng_pair0_open(&c));
	VH_OK(nng_socket_set_ms(c, NNG_OPT_SENDTIMEO, 2000));
	VH_OK(nng_socket_set_ms(s, NNG_OPT_RECVTIMEO, 2000));
	int rv = nng_dial(c, url, NULL, 0);
	if (rv != 0)
		vs_fail("C11:control:connect", "ws dial after oversize messages: %s",
		    nng_strerror(rv));
	nng_msg *m;
	VH_OK(nng_msg_alloc(&m, 0));
	VH_OK(nng_msg_append(m, "control", 7));
	if (nng_sendmsg(c, m, 0) != 0)
		vs_fail("C11:control:delivery", "ws control send failed");
	rv = nng_recvmsg(s, &m, 0);
	if (rv != 0 || nng_msg_len(m) != 7)
		vs_fail("C11:control:delivery", "ws control message not delivered: %s",
		    nng_strerror(rv));
	nng_msg_free(m);
	vs_outcome("wsmax ok");
	nng_socket_close(c);
	nng_socket_close(s);
	vh_fini();
}

// ---- R: RECVMAXSZ in both roles against a conforming nng sender ---------------------------------------
// the limited socket is the listener or the dialer; messages within the limit arrive exactly, one above
// it is never delivered and costs that connection, and traffic resumes on the next connection.
static int g_rem_post;
static void
roles_pipe_cb(nng_pipe p, nng_pipe_ev ev, void *arg)
{
	(void) p;
	(void) arg;
	if (ev == NNG_PIPE_EV_REM_POST)
		g_rem_post++;
}

static void
run_roles(void *arg)
{
	int tran    = ((int) (intptr_t) arg) >> 1; // 0 tcp 1 ipc 2 ws 3 udp
	int limdial = ((int) (intptr_t) arg) & 1;  // the limit is on the dialing socket
	enum { R = 100 };
	static const int OK_LEN[]  = { 0, 1, 99, 100 };
	static const int BAD_LEN[] = { 101, 256, 5000 };
	vs_tcp_grace_us = 1500;
	vh_init(0);
	g_rem_post = 0;
	nng_socket   ls, ds;
	nng_listener l;
	char         url[128];
	VH_OK(nng_pair0_open(&ls));
	VH_OK(nng_pair0_open(&ds));
	nng_socket X = limdial ? ds : ls, Y = limdial ? ls : ds;
	VH_OK(nng_socket_set_size(X, NNG_OPT_RECVMAXSZ, R));
	VH_OK(nng_socket_set_size(Y, NNG_OPT_RECVMAXSZ, 0));
	VH_OK(nng_socket_set_ms(X, NNG_OPT_RECVTIMEO, 300));
	VH_OK(nng_socket_set_ms(Y, NNG_OPT_SENDTIMEO, 3000));
	VH_OK(nng_socket_set_ms(ds, NNG_OPT_RECONNMINT, 20));
	VH_OK(nng_socket_set_ms(ds, NNG_OPT_RECONNMAXT, 20));
	VH_OK(nng_pipe_notify(X, NNG_PIPE_EV_REM_POST, roles_pipe_cb, NULL));
	if (tran == 1) {
		snprintf(url, sizeof(url), "ipc:///tmp/c11_roles_%d.sock", (int) getpid());
		VH_OK(nng_listen(ls, url, &l, 0));
	} else {
		int port = 0;
		VH_OK(nng_listen(ls,
		    tran == 0       ? "tcp://127.0.0.1:0"
		        : tran == 2 ? "ws://127.0.0.1:0/roles"
		                    : "udp://127.0.0.1:0",
		    &l, 0));
		VH_OK(nng_listener_get_int(l, NNG_OPT_BOUND_PORT, &port));
		snprintf(url, sizeof(url),
		    tran == 0       ? "tcp://127.0.0.1:%d"
		        : tran == 2 ? "ws://127.0.0.1:%d/roles"
		                    : "udp://127.0.0.1:%d",
		    port);
	}
	VH_OK(nng_dial(ds, url, NULL, 0));
	vs_settle();
	int      ch  = vs_choose(VK_ENV, 12);
	int      okl = OK_LEN[ch % 4], badl = BAD_LEN[ch / 4];
	uint8_t *buf = malloc(6000);
	for (int i = 0; i < 6000; i++)
		buf[i] = (uint8_t) (i * 13 + 5);
	char what[96];
	snprintf(what, sizeof(what), "%s limit %d on the %s, sizes %d then %d", url, R,
	    limdial ? "dialer" : "listener", okl, badl);
	// within the limit
	nng_msg *m;
	VH_OK(nng_msg_alloc(&m, 0));
	VH_OK(nng_msg_append(m, buf, (size_t) okl));
	int rv = nng_sendmsg(Y, m, 0);
	if (rv != 0)
		vs_fail("C11:roles:send", "[%s] first send: %s", what, nng_strerror(rv));
	rv = nng_recvmsg(X, &m, 0);
	if (rv != 0)
		vs_fail("C11:recvmax:within-limit-dropped", "[%s] %d byte message not delivered: %s",
		    what, okl, nng_strerror(rv));
	if (nng_msg_len(m) != (size_t) okl || memcmp(nng_msg_body(m), buf, (size_t) okl) != 0)
		vs_fail("C11:roles:corrupted", "[%s] delivered %zu bytes", what, nng_msg_len(m));
	nng_msg_free(m);
	vs_case();
	// above the limit
	int before = g_rem_post;
	VH_OK(nng_msg_alloc(&m, 0));
	VH_OK(nng_msg_append(m, buf, (size_t) badl));
	rv = nng_sendmsg(Y, m, 0);
	if (rv != 0)
		vs_fail("C11:roles:send", "[%s] oversize send: %s", what, nng_strerror(rv));
	rv = nng_recvmsg(X, &m, 0);
	if (rv == 0)
		vs_fail("C11:recvmax:delivered", "[%s] a %zu byte message was delivered", what,
		    nng_msg_len(m));
	vs_settle();
	// (a conforming SP/UDP sender drops a message above the limit the peer
	// advertised instead of sending it: nothing crosses the wire, no closure)
	if (g_rem_post == before && tran != 3)
		vs_fail("C11:recvmax:not-closed",
		    "[%s] the connection that carried the oversize message was not closed", what);
	vs_case();
	vs_nontrivial();
	// control on the next connection
	VH_OK(nng_socket_set_ms(X, NNG_OPT_RECVTIMEO, 3000));
	int got = 0;
	for (int attempt = 0; attempt < 5 && !got; attempt++) {
		VH_OK(nng_msg_alloc(&m, 0));
		VH_OK(nng_msg_append(m, "control", 7));
		rv = nng_sendmsg(Y, m, 0);
		if (rv != 0) {
			nng_msg_free(m);
			continue;
		}
		rv = nng_recvmsg(X, &m, 0);
		if (rv == 0) {
			if (nng_msg_len(m) != 7 || memcmp(nng_msg_body(m), "control", 7) != 0)
				vs_fail("C11:roles:corrupted", "[%s] control corrupted", what);
			nng_msg_free(m);
			got = 1;
		}
	}
	if (!got)
		vs_fail("C11:control:delivery", "[%s] no traffic after the oversize message", what);
	free(buf);
	vs_outcome("roles ok");
	nng_socket_close(ds);
	nng_socket_close(ls);
	if (tran == 1)
		unlink(url + 6);
	vh_fini();
}

// ---- US: SP/UDP data datagrams on an established connection ----------------------------------------------
// a raw UDP peer connects (CREQ/CACK) to a PULL listener with RECVMAXSZ 16 and sends one DATA datagram
// whose declared length L and actual payload n are enumerated: the first L bytes are delivered iff
// L <= n and L <= RECVMAXSZ; otherwise nothing is delivered and the peer is disconnected (DISC).
static void
udp_hdr(uint8_t *d, int op, unsigned type, unsigned p0, unsigned p1)
{
	d[0] = 1;
	d[1] = (uint8_t) op;
	d[2] = (uint8_t) type;
	d[3] = (uint8_t) (type >> 8);
	d[4] = (uint8_t) p0;
	d[5] = (uint8_t) (p0 >> 8);
	d[6] = (uint8_t) p1;
	d[7] = (uint8_t) (p1 >> 8);
}

static void
run_udpsess(void *arg)
{
	(void) arg;
	enum { R = 16 };
	static const unsigned DL[] = { 0, 1, 15, 16, 17, 64, 65535 };
	static const unsigned AL[] = { 0, 1, 15, 16, 17, 64 };
	vs_tcp_grace_us = 1500;
	vh_init(0);
	nng_socket   s, c;
	nng_listener l;
	int          port = 0;
	VH_OK(nng_pull0_open(&s));
	VH_OK(nng_socket_set_size(s, NNG_OPT_RECVMAXSZ, R));
	VH_OK(nng_socket_set_ms(s, NNG_OPT_RECVTIMEO, 200));
	VH_OK(nng_listen(s, "udp://127.0.0.1:0", &l, 0));
	VH_OK(nng_listener_get_int(l, NNG_OPT_BOUND_PORT, &port));
	struct sockaddr_in sa;
	memset(&sa, 0, sizeof(sa));
	sa.sin_family      = AF_INET;
	sa.sin_port        = htons((uint16_t) port);
	sa.sin_addr.s_addr = htonl(INADDR_LOOPBACK);
	int di = vs_choose(VK_ENV, 7);
	for (int ai = 0; ai < 6; ai++) {
		unsigned L = DL[di], n = AL[ai];
		int      fd = socket(AF_INET, SOCK_DGRAM, 0);
		uint8_t  d[128], in[256];
		udp_hdr(d, 1 /*CREQ*/, SP_PUSH, 65000, 5);
		sendto(fd, d, 8, 0, (struct sockaddr *) &sa, sizeof(sa));
		vs_settle();
		vs_sleep(5);
		ssize_t rn = recv(fd, in, sizeof(in), MSG_DONTWAIT);
		if (rn != 8 || in[1] != 2)
			vs_fail("harness:udp-connect", "no CACK (%zd bytes, op %d)", rn,
			    rn > 1 ? in[1] : -1);
		udp_hdr(d, 0 /*DATA*/, SP_PUSH, L, 0);
		for (unsigned i = 0; i < n; i++)
			d[8 + i] = (uint8_t) (0x61 + i % 26);
		sendto(fd, d, 8 + n, 0, (struct sockaddr *) &sa, sizeof(sa));
		vs_settle();
		vs_sleep(5);
		vs_case();
		vs_nontrivial();
		char what[64];
		snprintf(what, sizeof(what), "declared %u actual %u limit %d", L, n, R);
		nng_msg *m  = NULL;
		int      rv = nng_recvmsg(s, &m, 0);
		if (L <= n && L <= R) {
			if (rv != 0)
				vs_fail("C11:udp:within-limit-dropped", "[%s] not delivered: %s",
				    what, nng_strerror(rv));
			if (nng_msg_len(m) != L || memcmp(nng_msg_body(m), d + 8, L) != 0)
				vs_fail("C11:udp:corrupted", "[%s] delivered %zu bytes %s", what,
				    nng_msg_len(m),
				    vh_hex(nng_msg_body(m),
				        nng_msg_len(m) > 12 ? 12 : nng_msg_len(m)));
			nng_msg_free(m);
		} else {
			if (rv == 0)
				vs_fail(L > R ? "C11:recvmax:delivered" : "C11:udp:truncated-delivered",
				    "[%s] a %zu byte message was delivered", what, nng_msg_len(m));
			rn = recv(fd, in, sizeof(in), MSG_DONTWAIT);
			if (rn != 8 || in[1] != 3)
				vs_fail("C11:recvmax:not-closed",
				    "[%s] the offending UDP peer was not disconnected (%zd bytes, op %d)",
				    what, rn, rn > 1 ? in[1] : -1);
		}
		// leave politely
		udp_hdr(d, 3 /*DISC*/, SP_PUSH, 0, 0);
		sendto(fd, d, 8, 0, (struct sockaddr *) &sa, sizeof(sa));
		vs_settle();
		close(fd);
	}
	char url[64];
	snprintf(url, sizeof(url), "udp://127.0.0.1:%d", port);
	VH_OK(nng_push0_open(&c));
	VH_OK(nng_socket_set_ms(c, NNG_OPT_SENDTIMEO, 2000));
	VH_OK(nng_socket_set_ms(s, NNG_OPT_RECVTIMEO, 2000));
	int rv = nng_dial(c, url, NULL, 0);
	if (rv != 0)
		vs_fail("C11:control:connect", "udp dial after hostile data: %s",
		    nng_strerror(rv));
	nng_msg *m;
	VH_OK(nng_msg_alloc(&m, 0));
	VH_OK(nng_msg_append(m, "control", 7));
	if (nng_sendmsg(c, m, 0) != 0)
		vs_fail("C11:control:delivery", "udp control send failed");
	rv = nng_recvmsg(s, &m, 0);
	if (rv != 0 || nng_msg_len(m) != 7)
		vs_fail("C11:control:delivery", "udp control message not delivered: %s",
		    nng_strerror(rv));
	nng_msg_free(m);
	vs_outcome("udp session ok");
	nng_socket_close(c);
	nng_socket_close(s);
	vh_fini();
}

static void
explore(const char *name, void (*fn)(void *), void *arg)
{
	if (vx_time_left() < 15)
		return;
	vx_cfg c;
	memset(&c, 0, sizeof(c));
	c.prop     = "C11";
	c.scenario = name;
	c.run      = fn;
	c.arg      = arg;
	for (int i = 0; i < VB_NB; i++)
		c.budget[i] = 0;
	c.budget[VB_ENV] = -1;
	c.total          = 0;
	c.watchdog_s     = 40;
	vx_explore(&c, NULL);
}

int
main(int argc, char **argv)
{
	vx_init(argc, argv, "C11");
	int T = vx_is_thorough();
	static sarg S[200];
	int         ns = 0;
	for (int tran = 0; tran < 3; tran++)
		for (int isrep = 0; isrep < 2; isrep++) {
			if (!T && tran != TR_SOCKFD && isrep)
				continue;
			static const struct {
				int    fam;
				size_t rmax;
				int    total, per;
			} F[] = { { 'S', (size_t) -1, 28, 7 }, { 'A', (size_t) -1, 48, 12 },
				{ 'B', (size_t) -1, 8 * 255, 60 }, { 'C', 16, 8 * 256, 64 },
				{ 'C', 0, 8 * 256, 64 }, { 'C', (size_t) -1, 8 * 256, 64 },
				{ 'D', 16, 26, 26 }, { 'D', 0, 26, 26 },
				{ 'D', (size_t) -1, 26, 26 } };
			for (int f = 0; f < 9; f++) {
				if (!T && tran != TR_SOCKFD &&
				    (F[f].fam == 'B' || (F[f].fam == 'C' && F[f].rmax != 16)))
					continue;
				sarg *a    = &S[ns++];
				a->tran    = tran;
				a->isrep   = isrep;
				a->family  = F[f].fam;
				a->recvmax = F[f].rmax;
				a->per     = F[f].per;
				a->nbatch  = (F[f].total + F[f].per - 1) / F[f].per;
				char name[64];
				snprintf(name, sizeof(name), "%s-%s-%c-max%ld", TRN[tran],
				    isrep ? "rep" : "pair1poly", F[f].fam,
				    F[f].rmax == (size_t) -1 ? -1L : (long) F[f].rmax);
				explore(strdup(name), run_stream, a);
			}
		}
	static earg E[32];
	int         ne = 0;
	for (int kind = 0; kind <= 6; kind++) {
		static const int TT[] = { 8, 1, 15 };
		int              nt   = (kind <= 2 || kind == 6) ? (T ? 3 : 2) : 1;
		for (int t = 0; t < nt; t++) {
			earg *e = &E[ne++];
			e->kind = kind;
			e->ttl  = TT[t];
			char name[40];
			snprintf(name, sizeof(name), "hdr-kind%d-ttl%d", kind, TT[t]);
			explore(strdup(name), run_hdr, e);
		}
	}
	for (int tran = 0; tran < 3; tran++)
		for (int isrep = 0; isrep < 2; isrep++) {
			char name[64];
			snprintf(name, sizeof(name), "early-disconnect-%s-%s", TRN[tran],
			    isrep ? "rep" : "pair1poly");
			explore(strdup(name), run_early, (void *) (intptr_t) (tran | (isrep << 2)));
		}
	explore("udp-datagrams", run_udp, NULL);
	explore("udp-session-data", run_udpsess, NULL);
	explore("ws-upgrade-truncated", run_ws, (void *) 0);
	explore("ws-upgrade-mangled", run_ws, (void *) 1);
	explore("ws-recvmax-fragments", run_wsmax, NULL);
	{
		static const char *RN[] = { "tcp", "ipc", "ws", "udp" };
		for (int a = 0; a < 8; a++) {
			char name[48];
			snprintf(name, sizeof(name), "recvmax-%s-%s", RN[a >> 1],
			    (a & 1) ? "dialer" : "listener");
			explore(strdup(name), run_roles, (void *) (intptr_t) a);
		}
	}
	vx_note("space",
	    "stream transports socket://, ipc, tcp x {pair1-poly, rep}: truncation "
	    "at every offset of handshake+2 frames; every value of every handshake "
	    "byte; every value of every length byte x RECVMAXSZ {16,0,default}; 20 "
	    "boundary lengths; header shapes 0..20 hop words with/without id x ttl "
	    "for rep/respondent/pair1/xrep and short frames for req/surveyor; "
	    "SP/UDP: every opcode x 3 versions x type/param boundary values x "
	    "lengths 0..12; ws upgrade truncated at every offset and each line "
	    "dropped/garbled/LF-only. Coverage-guided mutation is sampling and is "
	    "not done.");
	return vx_finish();
}
