// C07 - SURVEY: only responses to the current survey, only before its deadline;
// RESPONDENT: the response goes to the surveyor whose survey was received last.
//
// Scenario "surv-*": a real SURVEYOR socket (master) + one context, both with
// NNG_OPT_SURVEYOR_SURVEYTIME = 100 ms on the virtual clock, attached to two
// raw respondents.  All letter sequences to depth d (from the initial state
// and from seeded states) against the reference model of DESIGN A.4.
// Scenario "resp-*": a real RESPONDENT socket with two contexts and two raw
// surveyors; the response must appear only on the fd of the surveyor whose
// survey that context received last, with that survey's backtrace.
#define _GNU_SOURCE
#include "vpeer.h"
#include "vs.h"
#include <pthread.h>
#include <stdlib.h>
#include <string.h>
#include <unistd.h>

#define SURVEYTIME 100
// survey time of the socket [0] and of the context [1]; they differ in the surv-*199 / *50 scenarios
static int ST[2] = { SURVEYTIME, SURVEYTIME };

static int        g_depth;
static const int *g_prefix;
static int        g_prefix_len;

// =============================================================================
// Scenario 1: SURVEYOR side
// =============================================================================
enum { K_CURM, K_CURC, K_STALE, K_GARBAGE, K_CLEARED, K_NKIND };
enum {
	L_SURVEY0 = 0, // +c
	L_RECV0   = 2, // +c   synchronous non-blocking receive
	L_RECVP0  = 4, // +c   aio receive that is left pending
	L_RESP0   = 6, // + peer * K_NKIND + kind
	L_ADV99   = L_RESP0 + 2 * K_NKIND, // virtual clock +99
	L_ADV1,                            // virtual clock +1
	L_NSURV
};

typedef struct resp { // one response frame written by a raw respondent
	uint32_t id;
	int64_t  t; // virtual instant of the write
	int      peer;
	int      delivered[2];
} resp;

typedef struct sctx { // reference model of one surveyor context
	int      has; // a survey was sent (it may have expired since)
	uint32_t id;
	int64_t  D; // its deadline
	int      pending; // an aio receive is outstanding
	int64_t  tp;      // ... since
	int      resurveyed; // a new survey was sent while it was outstanding
	uint32_t ids[16];
	int      nids;
} sctx;

typedef struct raio { // harness side of one aio receive
	nng_aio *aio;
	int      done;
	int      res;
	int64_t  tcb;
	nng_msg *msg;
} raio;

static nng_socket S_sock;
static nng_ctx    S_ctx;
static int        S_fd[2];
static vp_rd     *S_rd[2];
static resp       R[32];
static int        NR;
static sctx       M[2];
static raio       A[2];
static uint32_t   S_stale; // most recently superseded survey id (0 = none)
static uint32_t   S_allids[32];
static int        S_nall;
static char       seq[600];
static int        st_deliv[2], st_estate, st_tmo, st_abort, st_blocked, st_eagain;

static const char *CN[2] = { "sock", "ctx" };

static void
raio_cb(void *arg)
{
	raio *a = arg;
	a->res  = (int) nng_aio_result(a->aio);
	a->tcb  = vs_now();
	a->msg  = a->res == 0 ? nng_aio_get_msg(a->aio) : NULL;
	a->done = 1;
}

static const char *
surv_lname(int l)
{
	static char        b[4][40];
	static int         r;
	static const char *KN[] = { "curM", "curC", "stale", "garbage", "nohibit" };
	char              *o = b[r++ & 3];
	if (l < L_RECV0)
		snprintf(o, 40, "survey(%s)", CN[l - L_SURVEY0]);
	else if (l < L_RECVP0)
		snprintf(o, 40, "recv(%s)", CN[l - L_RECV0]);
	else if (l < L_RESP0)
		snprintf(o, 40, "recvaio(%s)", CN[l - L_RECVP0]);
	else if (l < L_ADV99)
		snprintf(o, 40, "respond(p%d,%s)", (l - L_RESP0) / K_NKIND,
		    KN[(l - L_RESP0) % K_NKIND]);
	else
		snprintf(o, 40, "%s", l == L_ADV99 ? "adv(+99)" : "adv(+1)");
	return o;
}

static int
in_ids(const sctx *m, uint32_t id)
{
	for (int i = 0; i < m->nids; i++)
		if (m->ids[i] == id)
			return 1;
	return 0;
}

// response r is (still) owed to context c: it answers c's current survey and
// was written no later than the deadline
static int
owed(int c, const resp *r)
{
	return M[c].has && r->id == M[c].id && !r->delivered[c] && r->t <= M[c].D;
}
static int
n_definite(int c)
{
	int n = 0;
	for (int i = 0; i < NR; i++)
		if (owed(c, &R[i]) && R[i].t < M[c].D)
			n++;
	return n;
}

// context c was handed a message at virtual time `when` by a receive that
// was issued at t_issue
static void
on_deliver(int c, nng_msg *msg, int64_t t_issue)
{
	const uint8_t *b = nng_msg_body(msg);
	size_t         n = nng_msg_len(msg);
	if (n != 4 || b[0] != 'r' || b[1] >= NR || b[3] != 0x5a ||
	    b[2] != R[b[1]].peer)
		vs_fail("C07:corrupt", "[%s] %s received body %s, not a response "
		                       "any respondent wrote",
		    seq, CN[c], vh_hex(b, n));
	resp *r = &R[b[1]];
	if (r->delivered[c])
		vs_fail("C07:duplicate", "[%s] %s received response #%d twice", seq,
		    CN[c], b[1]);
	if (!M[c].has || r->id != M[c].id) {
		if (in_ids(&M[c], r->id))
			vs_fail("C07:stale-delivered",
			    "[%s] %s received response #%d carrying id %08x of an "
			    "EARLIER survey of the same context (current %08x)",
			    seq, CN[c], b[1], r->id, M[c].has ? M[c].id : 0);
		if (in_ids(&M[1 - c], r->id))
			vs_fail("C07:foreign-delivered",
			    "[%s] %s received response #%d carrying id %08x that "
			    "belongs to a survey of %s",
			    seq, CN[c], b[1], r->id, CN[1 - c]);
		vs_fail("C07:foreign-delivered",
		    "[%s] %s received response #%d carrying id %08x that no "
		    "survey of it ever had (current %08x)",
		    seq, CN[c], b[1], r->id, M[c].has ? M[c].id : 0);
	}
	if (r->t > M[c].D || t_issue > M[c].D)
		vs_fail("C07:late-delivered",
		    "[%s] %s: response #%d written at D%+lld was delivered to a "
		    "receive issued at D%+lld",
		    seq, CN[c], b[1], (long long) (r->t - M[c].D),
		    (long long) (t_issue - M[c].D));
	// per connection arrival order: no earlier owed response of that peer
	for (int i = 0; i < b[1]; i++)
		if (R[i].peer == r->peer && owed(c, &R[i]) && R[i].t < M[c].D)
			vs_fail("C07:lost-response",
			    "[%s] %s received response #%d of p%d while the "
			    "earlier response #%d of the same respondent is "
			    "still undelivered",
			    seq, CN[c], b[1], r->peer, i);
	r->delivered[c] = 1;
	st_deliv[c]++;
}

// judge the outcome of a receive on c issued at t0; rv: 0 (msg), NNG_ESTATE,
// NNG_EAGAIN (= "nothing there": EAGAIN of the synchronous form or "still
// pending" of the aio form), anything else
static void
judge_recv(int c, int rv, nng_msg *msg, int64_t t0, int64_t t1, const char *form)
{
	sctx *m    = &M[c];
	int   live = m->has && t0 <= m->D; // t0 == D: either verdict accepted
	int   dead = !m->has || t0 >= m->D;
	if (rv == 0) {
		on_deliver(c, msg, t0);
		return;
	}
	if (rv == NNG_ESTATE) {
		st_estate++;
		if (!dead)
			vs_fail(n_definite(c) ? "C07:lost-response" : "C07:estate",
			    "[%s] %s(%s) failed NNG_ESTATE at D%+lld although its "
			    "survey is live (%d response(s) owed)",
			    seq, form, CN[c], (long long) (t0 - m->D),
			    n_definite(c));
		return;
	}
	if (rv == NNG_EAGAIN) {
		st_eagain++;
		if (!live)
			vs_fail("C07:estate",
			    "[%s] %s(%s) with no live survey (%s) did not fail "
			    "NNG_ESTATE (got %s)",
			    seq, form, CN[c],
			    m->has ? "deadline passed" : "never surveyed",
			    t1 == t0 ? "EAGAIN/pending" : "EAGAIN after blocking");
		if (n_definite(c))
			vs_fail("C07:lost-response",
			    "[%s] %s(%s) found nothing at D%+lld although %d "
			    "response(s) to the current survey arrived before the "
			    "deadline",
			    seq, form, CN[c], (long long) (t0 - m->D),
			    n_definite(c));
		if (t1 != t0) {
			// the "non-blocking" receive waited; it then is a receive
			// that was pending at the deadline
			st_blocked = 1;
			if (t1 < m->D)
				vs_fail("C07:early-timeout",
				    "[%s] %s(%s) gave up at D%+lld", seq, form,
				    CN[c], (long long) (t1 - m->D));
		}
		return;
	}
	vs_fail("C07:recv-result", "[%s] %s(%s) -> unexpected %d (%s)", seq, form,
	    CN[c], rv, nng_strerror(rv));
}

// look at the outstanding aio receive of c (library is quiescent)
static void
check_pending(int c)
{
	sctx *m = &M[c];
	raio *a = &A[c];
	if (!m->pending)
		return;
	if (!a->done) {
		if (vs_now() > m->D + 1)
			vs_fail("C07:no-timeout",
			    "[%s] receive on %s still pending at D%+lld", seq,
			    CN[c], (long long) (vs_now() - m->D));
		for (int i = 0; i < NR; i++)
			if (owed(c, &R[i]) && R[i].t < m->D && R[i].t >= m->tp)
				vs_fail("C07:lost-response",
				    "[%s] response #%d to the current survey of %s "
				    "arrived at D%+lld but the pending receive did "
				    "not complete",
				    seq, i, CN[c], (long long) (R[i].t - m->D));
		return;
	}
	m->pending = 0;
	if (a->res == 0) {
		on_deliver(c, a->msg, m->tp);
		nng_msg_free(a->msg);
		a->msg = NULL;
		return;
	}
	if (m->resurveyed) { // aborted by a newer survey: any terminal error
		st_abort++;
		return;
	}
	if (a->res == NNG_ETIMEDOUT) {
		st_tmo++;
		if (a->tcb < m->D)
			vs_fail("C07:early-timeout",
			    "[%s] pending receive on %s timed out at D%+lld", seq,
			    CN[c], (long long) (a->tcb - m->D));
		for (int i = 0; i < NR; i++)
			if (owed(c, &R[i]) && R[i].t < m->D && R[i].t >= m->tp)
				vs_fail("C07:lost-response",
				    "[%s] pending receive on %s timed out although "
				    "response #%d arrived at D%+lld",
				    seq, CN[c], i, (long long) (R[i].t - m->D));
		return;
	}
	vs_fail("C07:pending-result",
	    "[%s] pending receive on %s completed with %d (%s) at D%+lld without "
	    "a new survey",
	    seq, CN[c], a->res, nng_strerror(a->res), (long long) (a->tcb - m->D));
}

static void
do_recv_nb(int c)
{
	nng_msg *msg = NULL;
	int64_t  t0  = vs_now();
	int rv = c ? nng_ctx_recvmsg(S_ctx, &msg, NNG_FLAG_NONBLOCK)
	           : nng_recvmsg(S_sock, &msg, NNG_FLAG_NONBLOCK);
	int64_t t1 = vs_now();
	vs_settle();
	judge_recv(c, rv, msg, t0, t1, "recv");
	if (msg)
		nng_msg_free(msg);
}

// aio receive; stays outstanding when nothing is there
static void
do_recv_aio(int c)
{
	if (M[c].pending)
		return;
	raio   *a  = &A[c];
	int64_t t0 = vs_now();
	a->done    = 0;
	a->msg     = NULL;
	// the socket's receive waits without a limit of its own, the context's with one equal to
	// the survey time: issued at or after the survey it can never end before the deadline
	// (tp + SURVEYTIME >= D), so the reference model is the same for both - but the receive
	// has to be cut at the deadline, not at its own, later, limit
	nng_aio_set_timeout(a->aio, c ? ST[1] : NNG_DURATION_INFINITE);
	if (c)
		nng_ctx_recv(S_ctx, a->aio);
	else
		nng_socket_recv(S_sock, a->aio);
	vs_settle();
	if (a->done && a->res == NNG_ETIMEDOUT) {
		// a receive that was pending at the deadline
		st_tmo++;
		if (!M[c].has || a->tcb < M[c].D)
			vs_fail("C07:early-timeout",
			    "[%s] recvaio(%s) timed out at once", seq, CN[c]);
	} else if (a->done) {
		judge_recv(c, a->res, a->msg, t0, a->tcb, "recvaio");
		if (a->msg)
			nng_msg_free(a->msg);
		a->msg = NULL;
	} else {
		judge_recv(c, NNG_EAGAIN, NULL, t0, t0, "recvaio");
		M[c].pending    = 1;
		M[c].tp         = t0;
		M[c].resurveyed = 0;
	}
}

static void
do_survey(int c, int step)
{
	nng_msg *m;
	uint8_t  tag[4] = { 'q', (uint8_t) step, (uint8_t) c, 0xa5 };
	VH_OK(nng_msg_alloc(&m, 0));
	VH_OK(nng_msg_append(m, tag, 4));
	int64_t t0 = vs_now();
	int rv = c ? nng_ctx_sendmsg(S_ctx, m, NNG_FLAG_NONBLOCK)
	           : nng_sendmsg(S_sock, m, NNG_FLAG_NONBLOCK);
	if (rv != 0) {
		nng_msg_free(m);
		vs_fail("C07:survey-send", "[%s] survey(%s) -> %d (%s)", seq, CN[c],
		    rv, nng_strerror(rv));
	}
	vs_settle();
	if (vs_now() != t0)
		vs_fail("C07:survey-send", "[%s] survey(%s) took virtual time", seq,
		    CN[c]);
	// both respondents see the same frame: fresh id with bit 31, then body
	uint32_t id = 0;
	for (int j = 0; j < 2; j++) {
		const uint8_t *p;
		size_t         len;
		int            k = vp_next_frame(S_fd[j], S_rd[j], &p, &len);
		if (k != 1 || len != 8 || memcmp(p + 4, tag, 4) != 0 ||
		    !(p[0] & 0x80))
			vs_fail("C07:wire",
			    "[%s] survey(%s): respondent p%d saw %s", seq, CN[c], j,
			    k == 1 ? vh_hex(p, len) : "no frame");
		if (j == 0)
			id = vp_get32(p);
		else if (vp_get32(p) != id)
			vs_fail("C07:wire",
			    "[%s] survey(%s): ids differ between respondents "
			    "(%08x / %08x)",
			    seq, CN[c], id, vp_get32(p));
		if (vp_next_frame(S_fd[j], S_rd[j], &p, &len) != 0)
			vs_fail("C07:wire", "[%s] survey(%s): extra frame at p%d",
			    seq, CN[c], j);
	}
	for (int i = 0; i < S_nall; i++)
		if (S_allids[i] == id)
			vs_fail("C07:survey-id",
			    "[%s] survey(%s) reuses id %08x of an earlier survey",
			    seq, CN[c], id);
	S_allids[S_nall++] = id;
	// an outstanding receive of the superseded survey
	sctx *mc = &M[c];
	if (mc->pending) {
		mc->resurveyed = 1;
		if (A[c].done && A[c].res == 0)
			vs_fail("C07:stale-delivered",
			    "[%s] survey(%s) completed the outstanding receive "
			    "with a message",
			    seq, CN[c]);
		check_pending(c);
	}
	if (mc->has)
		S_stale = mc->id;
	mc->has            = 1;
	mc->id             = id;
	mc->D              = t0 + ST[c];
	mc->ids[mc->nids++] = id;
}

static uint32_t
pick_id(int kind)
{
	uint32_t base = M[0].has ? M[0].id : (M[1].has ? M[1].id : 0x80001234u);
	uint32_t x;
	switch (kind) {
	case K_CURM:
		return M[0].has ? M[0].id : 0x80000001u;
	case K_CURC:
		return M[1].has ? M[1].id : 0x80000002u;
	case K_STALE:
		return S_stale ? S_stale : 0x80000003u;
	case K_CLEARED:
		return base & 0x7fffffffu;
	default:
		// differs from a live id in one bit, never issued
		x = base ^ 0x100u;
		for (int i = 0; i < S_nall; i++)
			if (S_allids[i] == x)
				x = base ^ 0x10000u;
		return x;
	}
}

static void
do_respond(int j, int kind)
{
	uint8_t  hdr[4];
	uint8_t  body[4] = { 'r', (uint8_t) NR, (uint8_t) j, 0x5a };
	uint32_t id      = pick_id(kind);
	vp_put32(hdr, id);
	R[NR] = (resp){ .id = id, .t = vs_now(), .peer = j };
	NR++;
	if (vp_send(S_fd[j], hdr, 4, body, 4) != 0)
		vs_fail("harness:peer", "[%s] raw write failed", seq);
	vs_settle();
}

static void
run_surv(void *arg)
{
	(void) arg;
	vh_init(0);
	memset(R, 0, sizeof(R));
	memset(M, 0, sizeof(M));
	memset(A, 0, sizeof(A));
	NR = S_nall = 0;
	S_stale     = 0;
	seq[0]      = 0;
	VH_OK(nng_surveyor0_open(&S_sock));
	VH_OK(nng_socket_set_ms(S_sock, NNG_OPT_SURVEYOR_SURVEYTIME, ST[0]));
	VH_OK(nng_ctx_open(&S_ctx, S_sock));
	VH_OK(nng_ctx_set_ms(S_ctx, NNG_OPT_SURVEYOR_SURVEYTIME, ST[1]));
	nng_listener l;
	S_fd[0] = vp_connect_raw(S_sock, SP_RESPONDENT, &l);
	if (S_fd[0] < 0)
		vs_fail("harness:setup", "raw respondent 0 could not connect");
	S_fd[1] = vp_attach_more(l);
	vs_settle();
	if (S_fd[1] < 0 || vp_handshake(S_fd[1], SP_RESPONDENT) < 0)
		vs_fail("harness:setup", "raw respondent 1 could not connect");
	vs_settle();
	for (int c = 0; c < 2; c++) {
		S_rd[c] = calloc(1, sizeof(vp_rd));
		VH_OK(nng_aio_alloc(&A[c].aio, raio_cb, &A[c]));
	}
	int total = g_prefix_len + g_depth;
	for (int step = 0; step < total; step++) {
		int l = step < g_prefix_len ? g_prefix[step]
		                            : vs_choose(VK_ENV, L_NSURV);
		snprintf(seq + strlen(seq), sizeof(seq) - strlen(seq), "%s%s",
		    step ? " " : "", surv_lname(l));
		if (l < L_RECV0) {
			do_survey(l - L_SURVEY0, step);
		} else if (l < L_RECVP0) {
			do_recv_nb(l - L_RECV0);
		} else if (l < L_RESP0) {
			do_recv_aio(l - L_RECVP0);
		} else if (l < L_ADV99) {
			do_respond((l - L_RESP0) / K_NKIND, (l - L_RESP0) % K_NKIND);
		} else {
			// vs_sleep(n) returns at now+n+1
			vs_sleep(l == L_ADV99 ? 98 : 0);
			vs_settle();
		}
		check_pending(0);
		check_pending(1);
	}
	// final drain: every response still owed must come out before the deadline
	for (int c = 0; c < 2; c++)
		while (M[c].has && vs_now() < M[c].D && !M[c].pending &&
		    n_definite(c) > 0)
			do_recv_nb(c);
	// a live survey with nothing owed: one more receive must find nothing
	// (anything queued now is stale / foreign / late) and, left pending,
	// must end with NNG_ETIMEDOUT no earlier than the deadline
	for (int c = 0; c < 2; c++)
		if (M[c].has && vs_now() < M[c].D && !M[c].pending) {
			do_recv_aio(c);
			check_pending(c);
		}
	// every outstanding receive ends, and afterwards no survey is live
	vs_sleep(2 * (ST[0] > ST[1] ? ST[0] : ST[1]) + 50);
	vs_settle();
	for (int c = 0; c < 2; c++) {
		check_pending(c);
		if (M[c].pending)
			vs_fail("C07:no-timeout",
			    "[%s] receive on %s never completed", seq, CN[c]);
		do_recv_nb(c);
	}
	vs_log("%s", seq);
	vs_outcome("dM=%d dC=%d es=%d ea=%d to=%d ab=%d blk=%d", st_deliv[0],
	    st_deliv[1], st_estate > 3 ? 3 : st_estate, st_eagain > 2 ? 2 : st_eagain,
	    st_tmo, st_abort, st_blocked);
	for (int c = 0; c < 2; c++) {
		nng_aio_free(A[c].aio);
		close(S_fd[c]);
		free(S_rd[c]);
	}
	nng_ctx_close(S_ctx);
	nng_socket_close(S_sock);
	vh_fini();
}

// =============================================================================
// Scenario 2: RESPONDENT side
// =============================================================================
enum {
	Q_SURVEY0 = 0, // + peer*2 + extra hop words (0..1)
	Q_RECV0   = 4, // + ctx
	Q_SEND0   = 6, // + ctx
	Q_DROP0   = 8, // surveyor 0 disconnects, a new one takes its place
	Q_N       = 9
};

typedef struct surv { // a survey frame written by a raw surveyor
	int     peer;
	uint8_t bt[8];
	int     btlen;
	int     delivered;
} surv;
typedef struct rctx {
	int     has; // a received survey is unanswered
	int     peer;
	uint8_t bt[8];
	int     btlen;
	int     pending; // aio receive outstanding
	int     gone;    // the surveyor whose survey we hold has disconnected
} rctx;

static int g_resp_nb; // responses are sent with NNG_FLAG_NONBLOCK

static nng_socket Q_sock;
static nng_listener Q_listener;
static nng_ctx    Q_ctx[2];
static int        Q_fd[2];
static vp_rd     *Q_rd[2];
static surv       SV[16];
static int        NSV;
static rctx       C[2];
static raio       QA[2], QS[2];
static int        q_ok, q_estate, q_recv, q_eagain;

static const char *
resp_lname(int l)
{
	static char b[4][40];
	static int  r;
	char       *o = b[r++ & 3];
	if (l == Q_DROP0)
		snprintf(o, 40, "p0.reconnect");
	else if (l < Q_RECV0)
		snprintf(o, 40, "p%d.survey(hops%d)", l / 2, 1 + l % 2);
	else if (l < Q_SEND0)
		snprintf(o, 40, "ctx%d.recv", l - Q_RECV0);
	else
		snprintf(o, 40, "ctx%d.send", l - Q_SEND0);
	return o;
}

static int
undelivered(void)
{
	int n = 0;
	for (int i = 0; i < NSV; i++)
		n += (SV[i].delivered == 0);
	return n;
}

static void
on_survey(int i, nng_msg *msg)
{
	const uint8_t *b = nng_msg_body(msg);
	size_t         n = nng_msg_len(msg);
	if (n != 4 || b[0] != 's' || b[1] >= NSV || b[3] != 0xa5 ||
	    b[2] != SV[b[1]].peer)
		vs_fail("C07:resp:survey-body",
		    "[%s] ctx%d received body %s, not the body of a survey any "
		    "surveyor wrote",
		    seq, i, vh_hex(b, n));
	surv *s = &SV[b[1]];
	if (s->delivered == 1)
		vs_fail("C07:resp:duplicate-survey",
		    "[%s] survey #%d was delivered twice", seq, b[1]);
	C[i].gone    = s->delivered == 2; // its surveyor already left
	s->delivered = 1;
	C[i].has     = 1;
	C[i].peer    = s->peer;
	C[i].btlen   = s->btlen;
	memcpy(C[i].bt, s->bt, sizeof(s->bt));
	q_recv++;
}

static void
resp_check_pending(void)
{
	for (int i = 0; i < 2; i++) {
		if (!C[i].pending || !QA[i].done)
			continue;
		C[i].pending = 0;
		if (QA[i].res != 0)
			vs_fail("C07:resp:recv-result",
			    "[%s] pending receive on ctx%d failed %d (%s)", seq, i,
			    QA[i].res, nng_strerror(QA[i].res));
		on_survey(i, QA[i].msg);
		nng_msg_free(QA[i].msg);
		QA[i].msg = NULL;
	}
	if ((C[0].pending || C[1].pending) && undelivered())
		vs_fail("C07:resp:survey-lost",
		    "[%s] a receive is pending although %d survey(s) were "
		    "written and not delivered",
		    seq, undelivered());
}

// read both raw surveyors: want_peer = fd that must carry exactly one frame
// with payload exp[0..el), or -1 for "nothing anywhere"
static void
resp_expect_wire(const char *what, int want_peer, const uint8_t *exp, size_t el)
{
	int seen[2] = { 0, 0 };
	for (int j = 0; j < 2; j++) {
		const uint8_t *p;
		size_t         len;
		int            k;
		while ((k = vp_next_frame(Q_fd[j], Q_rd[j], &p, &len)) == 1) {
			seen[j]++;
			if (j != want_peer)
				vs_fail("C07:resp:wrong-peer",
				    "[%s] %s: frame %s appeared at surveyor p%d, %s",
				    seq, what, vh_hex(p, len), j,
				    want_peer < 0 ? "but no response was sent for a "
				                    "pending survey"
				                  : "but the survey came from the "
				                    "other surveyor");
			if (seen[j] > 1)
				vs_fail("C07:resp:wrong-peer",
				    "[%s] %s: more than one frame at p%d", seq, what,
				    j);
			if (len != el || memcmp(p, exp, el) != 0)
				vs_fail("C07:resp:backtrace",
				    "[%s] %s: surveyor p%d got %s, want "
				    "backtrace+body %s",
				    seq, what, j, vh_hex(p, len), vh_hex(exp, el));
		}
		if (k < 0)
			vs_fail("C07:resp:wrong-peer",
			    "[%s] %s: connection to surveyor p%d was closed", seq,
			    what, j);
	}
	if (want_peer >= 0 && !seen[want_peer])
		vs_fail("C07:resp:wrong-peer",
		    "[%s] %s reported success but nothing reached surveyor p%d",
		    seq, what, want_peer);
}

static void
run_resp(void *arg)
{
	(void) arg;
	vh_init(0);
	memset(SV, 0, sizeof(SV));
	memset(C, 0, sizeof(C));
	memset(QA, 0, sizeof(QA));
	memset(QS, 0, sizeof(QS));
	NSV    = 0;
	seq[0] = 0;
	VH_OK(nng_respondent0_open(&Q_sock));
	nng_listener l;
	Q_fd[0] = vp_connect_raw(Q_sock, SP_SURVEYOR, &l);
	if (Q_fd[0] < 0)
		vs_fail("harness:setup", "raw surveyor 0 could not connect");
	Q_listener = l;
	Q_fd[1] = vp_attach_more(l);
	vs_settle();
	if (Q_fd[1] < 0 || vp_handshake(Q_fd[1], SP_SURVEYOR) < 0)
		vs_fail("harness:setup", "raw surveyor 1 could not connect");
	vs_settle();
	for (int i = 0; i < 2; i++) {
		VH_OK(nng_ctx_open(&Q_ctx[i], Q_sock));
		Q_rd[i] = calloc(1, sizeof(vp_rd));
		VH_OK(nng_aio_alloc(&QA[i].aio, raio_cb, &QA[i]));
		VH_OK(nng_aio_alloc(&QS[i].aio, raio_cb, &QS[i]));
	}
	// epilogue: every context answers (or tries to) twice - the second
	// send never has a pending survey and must fail NNG_ESTATE
	static const int EPI[4] = { Q_SEND0, Q_SEND0, Q_SEND0 + 1, Q_SEND0 + 1 };
	int total = g_prefix_len + g_depth + 4;
	for (int step = 0; step < total; step++) {
		int l2 = step < g_prefix_len ? g_prefix[step]
		    : step < g_prefix_len + g_depth
		    ? vs_choose(VK_ENV, Q_N)
		    : EPI[step - g_prefix_len - g_depth];
		snprintf(seq + strlen(seq), sizeof(seq) - strlen(seq), "%s%s",
		    step ? " " : "", resp_lname(l2));
		if (l2 == Q_DROP0) {
			close(Q_fd[0]);
			vs_settle();
			for (int k = 0; k < NSV; k++)
				if (SV[k].peer == 0 && SV[k].delivered == 0)
					SV[k].delivered = 2; // may or may not come up
			for (int k = 0; k < 2; k++)
				if (C[k].has && C[k].peer == 0)
					C[k].gone = 1;
			Q_fd[0] = vp_attach_more(Q_listener);
			vs_settle();
			if (Q_fd[0] < 0 || vp_handshake(Q_fd[0], SP_SURVEYOR) < 0)
				vs_fail("C07:resp:wrong-peer",
				    "[%s] a new surveyor could not connect after the old "
				    "one left",
				    seq);
			memset(Q_rd[0], 0, sizeof(vp_rd));
			vs_settle();
		} else if (l2 < Q_RECV0) {
			int   j = l2 / 2, extra = l2 % 2;
			surv *s = &SV[NSV];
			s->peer = j;
			// ids of different surveys differ in one bit from each
			// other; both surveyors draw from the same id space
			if (extra) {
				vp_put32(s->bt, 0x00000100u | (uint32_t) NSV);
				vp_put32(s->bt + 4, 0x80000040u | (uint32_t) NSV);
				s->btlen = 8;
			} else {
				vp_put32(s->bt, 0x80000040u | (uint32_t) NSV);
				s->btlen = 4;
			}
			uint8_t body[4] = { 's', (uint8_t) NSV, (uint8_t) j, 0xa5 };
			NSV++;
			if (vp_send(Q_fd[j], s->bt, (size_t) s->btlen, body, 4) != 0)
				vs_fail("harness:peer", "[%s] raw write failed", seq);
			vs_settle();
		} else if (l2 < Q_SEND0) {
			int i = l2 - Q_RECV0;
			if (!C[i].pending) {
				QA[i].done = 0;
				QA[i].msg  = NULL;
				nng_aio_set_timeout(QA[i].aio, NNG_DURATION_INFINITE);
				int und = undelivered();
				nng_ctx_recv(Q_ctx[i], QA[i].aio);
				vs_settle();
				if (!QA[i].done && und)
					vs_fail("C07:resp:survey-lost",
					    "[%s] ctx%d.recv found nothing although "
					    "%d survey(s) were written and not "
					    "delivered",
					    seq, i, und);
				C[i].pending = 1; // resolved by resp_check_pending
			}
		} else {
			int      i = l2 - Q_SEND0;
			nng_msg *m;
			uint8_t  body[4] = { 'a', (uint8_t) step, (uint8_t) i, 0x3c };
			VH_OK(nng_msg_alloc(&m, 0));
			VH_OK(nng_msg_append(m, body, 4));
			int     rv;
			int64_t t0 = vs_now();
			if (g_resp_nb) {
				rv = nng_ctx_sendmsg(Q_ctx[i], m, NNG_FLAG_NONBLOCK);
				if (rv != 0)
					nng_msg_free(m);
				vs_settle();
			} else {
				QS[i].done = 0;
				nng_aio_set_timeout(QS[i].aio, 1000);
				nng_aio_set_msg(QS[i].aio, m);
				nng_ctx_send(Q_ctx[i], QS[i].aio);
				vs_settle();
				if (!QS[i].done) {
					nng_aio_wait(QS[i].aio);
					vs_settle();
				}
				rv = QS[i].res;
				if (rv != 0)
					nng_msg_free(nng_aio_get_msg(QS[i].aio));
			}
			if (C[i].has && C[i].gone) {
				// the surveyor has left: the response may be discarded
				// (any result) but must not reach anybody, and the
				// survey is consumed all the same
				C[i].has  = 0;
				C[i].gone = 0;
				resp_expect_wire(resp_lname(l2), -1, NULL, 0);
			} else if (!C[i].has) {
				if (g_resp_nb && rv == NNG_EAGAIN)
					// known finding (see known_findings.json): keep
					// exploring behind it
					vs_soft_fail("C07:resp:estate:nonblock-eagain",
					    "[%s] ctx%d.send (NNG_FLAG_NONBLOCK) with no "
					    "pending survey -> NNG_EAGAIN, want NNG_ESTATE",
					    seq, i);
				else if (rv != NNG_ESTATE)
					vs_fail("C07:resp:estate",
					    "[%s] ctx%d.send (%s) with no pending survey "
					    "-> %d (%s), want NNG_ESTATE",
					    seq, i, g_resp_nb ? "NNG_FLAG_NONBLOCK" : "aio",
					    rv, nng_strerror(rv));
				q_estate++;
				resp_expect_wire(resp_lname(l2), -1, NULL, 0);
			} else if (g_resp_nb && rv == NNG_EAGAIN && vs_now() == t0) {
				// not sent, message still ours, survey still pending
				// (whether EAGAIN is justified is C15's subject)
				q_eagain++;
				resp_expect_wire(resp_lname(l2), -1, NULL, 0);
			} else {
				if (rv != 0)
					vs_fail("C07:resp:send-result",
					    "[%s] ctx%d.send with a pending survey from "
					    "p%d -> %d (%s)",
					    seq, i, C[i].peer, rv, nng_strerror(rv));
				uint8_t exp[16];
				memcpy(exp, C[i].bt, (size_t) C[i].btlen);
				memcpy(exp + C[i].btlen, body, 4);
				resp_expect_wire(resp_lname(l2), C[i].peer, exp,
				    (size_t) C[i].btlen + 4);
				C[i].has = 0;
				q_ok++;
			}
		}
		resp_check_pending();
		if (l2 < Q_SEND0 || l2 == Q_DROP0)
			resp_expect_wire(resp_lname(l2), -1, NULL, 0); // nothing unsolicited
	}
	vs_log("%s", seq);
	vs_outcome("sent=%d estate=%d eagain=%d recv=%d pend=%d%d", q_ok, q_estate,
	    q_eagain, q_recv, C[0].pending, C[1].pending);
	for (int i = 0; i < 2; i++) {
		nng_ctx_close(Q_ctx[i]);
	}
	vs_settle();
	for (int i = 0; i < 2; i++) {
		if (QA[i].done && QA[i].msg)
			nng_msg_free(QA[i].msg);
		nng_aio_free(QA[i].aio);
		nng_aio_free(QS[i].aio);
		close(Q_fd[i]);
		free(Q_rd[i]);
	}
	nng_socket_close(Q_sock);
	vh_fini();
}

// =============================================================================
static long   g_exec;
static double g_wall;

// ---- schedules: a new survey racing with a response / a receive -----------------------------------------
// (a) the response to survey N is being processed by the library while another thread sends survey N+1 on
//     the same socket: once N+1 has been sent, nothing that answers N may be delivered.
// (b) an abandoned survey with a long deadline, then a shorter SURVEYTIME: a receive entered while the new
//     survey is being sent gets NNG_ESTATE (it came first) or the NEW deadline - a response that arrives
//     after the new deadline is never delivered.
static nng_socket sr_sock;
static int        sr_rv_send, sr_rv_recv;
static char       sr_got[8];
static int64_t    sr_t_recv_done;
static void *
sr_sender(void *a)
{
	(void) a;
	nng_msg *m;
	if (nng_msg_alloc(&m, 0) != 0 || nng_msg_append(m, "S2", 2) != 0)
		vs_fail("harness:sr", "msg alloc");
	sr_rv_send = nng_sendmsg(sr_sock, m, 0);
	if (sr_rv_send != 0)
		nng_msg_free(m);
	return NULL;
}
static void *
sr_receiver(void *a)
{
	(void) a;
	nng_msg *m = NULL;
	sr_rv_recv = nng_recvmsg(sr_sock, &m, 0);
	sr_t_recv_done = vs_now();
	if (sr_rv_recv == 0) {
		size_t n = nng_msg_len(m) < 7 ? nng_msg_len(m) : 7;
		memcpy(sr_got, nng_msg_body(m), n);
		sr_got[n] = 0;
		nng_msg_free(m);
	}
	return NULL;
}
static int
sr_read_survey(int fd, vp_rd *rd, uint8_t id[4], const char *want)
{
	const uint8_t *p;
	size_t         len;
	if (vp_next_frame(fd, rd, &p, &len) != 1 || len != 4 + strlen(want) ||
	    memcmp(p + 4, want, strlen(want)) != 0)
		return -1;
	memcpy(id, p, 4);
	return 0;
}
static void
run_survrace(void *arg)
{
	int kind = (int) (intptr_t) arg;
	vh_init(0);
	VH_OK(nng_surveyor0_open(&sr_sock));
	VH_OK(nng_socket_set_ms(sr_sock, NNG_OPT_SURVEYOR_SURVEYTIME, kind == 0 ? 1000 : 2000));
	int fd = vp_connect_raw(sr_sock, SP_RESPONDENT, NULL);
	if (fd < 0)
		vs_fail("harness:setup", "raw respondent");
	vp_rd  *rd = calloc(1, sizeof(*rd));
	uint8_t id1[4], id2[4];
	nng_msg *m;
	VH_OK(nng_msg_alloc(&m, 0));
	VH_OK(nng_msg_append(m, "S1", 2));
	VH_OK(nng_sendmsg(sr_sock, m, 0));
	vs_settle();
	if (sr_read_survey(fd, rd, id1, "S1") != 0)
		vs_fail("harness:sr", "survey 1 not on the wire");
	pthread_t t1, t2;
	sr_got[0] = 0;
	if (kind == 0) {
		vs_window(1);
		if (vp_send(fd, id1, 4, "R1", 2) != 0) // the response to survey 1 ...
			vs_fail("harness:peer", "raw write");
		pthread_create(&t1, NULL, sr_sender, NULL); // ... races with survey 2
		pthread_join(t1, NULL);
		vs_settle();
		vs_window(0);
		if (sr_rv_send != 0)
			vs_fail("C07:send", "survey 2: %s", nng_strerror(sr_rv_send));
		vs_nontrivial();
		if (nng_recvmsg(sr_sock, &m, NNG_FLAG_NONBLOCK) == 0) {
			char b[8] = "";
			memcpy(b, nng_msg_body(m), nng_msg_len(m) < 7 ? nng_msg_len(m) : 7);
			nng_msg_free(m);
			vs_fail("C07:stale-delivered",
			    "survey 2 had been sent, nobody answered it yet; the receive delivered "
			    "\"%s\" (the response to survey 1, which the new survey supersedes)",
			    b);
		}
		// and survey 2 is answerable
		if (sr_read_survey(fd, rd, id2, "S2") != 0)
			vs_fail("C07:send", "survey 2 not on the wire");
		if (vp_send(fd, id2, 4, "R2", 2) != 0)
			vs_fail("harness:peer", "raw write");
		vs_settle();
		if (nng_recvmsg(sr_sock, &m, NNG_FLAG_NONBLOCK) != 0)
			vs_fail("C07:lost", "response to the current survey not delivered");
		if (nng_msg_len(m) != 2 || memcmp(nng_msg_body(m), "R2", 2) != 0)
			vs_fail("C07:stale-delivered", "receive after survey 2 delivered '%.2s'",
			    (char *) nng_msg_body(m));
		nng_msg_free(m);
		vs_outcome("superseded ok");
	} else {
		// abandon survey 1: a short receive timeout
		VH_OK(nng_socket_set_ms(sr_sock, NNG_OPT_RECVTIMEO, 5));
		if (nng_recvmsg(sr_sock, &m, 0) == 0)
			nng_msg_free(m);
		VH_OK(nng_socket_set_ms(sr_sock, NNG_OPT_RECVTIMEO, NNG_DURATION_INFINITE));
		VH_OK(nng_socket_set_ms(sr_sock, NNG_OPT_SURVEYOR_SURVEYTIME, 50));
		int64_t t0 = vs_now();
		vs_window(1);
		pthread_create(&t2, NULL, sr_receiver, NULL);
		pthread_create(&t1, NULL, sr_sender, NULL);
		pthread_join(t1, NULL);
		vs_window(0);
		if (sr_rv_send != 0)
			vs_fail("C07:send", "survey 2: %s", nng_strerror(sr_rv_send));
		vs_settle();
		if (sr_read_survey(fd, rd, id2, "S2") != 0)
			vs_fail("C07:send", "survey 2 not on the wire");
		vs_sleep(150); // the respondent answers late: 150 ms > SURVEYTIME 50
		if (vp_send(fd, id2, 4, "R2", 2) != 0)
			vs_fail("harness:peer", "raw write");
		vs_settle();
		vs_sleep(10);
		// the receive must be over by now: ESTATE (it preceded the survey), or timed out
		// at the new deadline
		nng_socket_set_ms(sr_sock, NNG_OPT_RECVTIMEO, 1);
		vs_settle();
		vs_sleep(3000);
		pthread_join(t2, NULL);
		vs_nontrivial();
		if (sr_rv_recv == 0)
			vs_fail("C07:late-delivered",
			    "SURVEYTIME 50 ms: the response sent 150 ms after the survey was delivered "
			    "(\"%s\") %lld ms after the survey",
			    sr_got, (long long) (sr_t_recv_done - t0));
		if (sr_rv_recv == NNG_ETIMEDOUT && sr_t_recv_done - t0 > 50 + 5)
			vs_fail("C07:deadline",
			    "SURVEYTIME 50 ms: the receive entered while the survey was sent timed out "
			    "only %lld ms after the survey",
			    (long long) (sr_t_recv_done - t0));
		if (sr_rv_recv != NNG_ETIMEDOUT && sr_rv_recv != NNG_ESTATE)
			vs_fail("C07:recv-result", "receive racing with the survey -> %s",
			    nng_strerror(sr_rv_recv));
		vs_outcome("deadline rv=%d dt=%lld", sr_rv_recv, (long long) (sr_t_recv_done - t0));
	}
	close(fd);
	free(rd);
	nng_socket_close(sr_sock);
	vh_fini();
}

static void
explore(const char *name, void (*fn)(void *), const int *prefix, int plen,
    int depth)
{
	vx_cfg c;
	memset(&c, 0, sizeof(c));
	c.prop     = "C07";
	c.scenario = name;
	c.run      = fn;
	c.arg      = NULL;
	for (int i = 0; i < VB_NB; i++)
		c.budget[i] = 0;
	c.budget[VB_ENV] = -1;
	c.total          = 0;
	g_prefix         = prefix;
	g_prefix_len     = plen;
	g_depth          = depth;
	vx_stats st;
	memset(&st, 0, sizeof(st));
	vx_explore(&c, &st);
	g_exec += st.executions;
	g_wall += st.wall_s;
}

// enough time left today for n more executions (measured rate, 2x margin)?
static int
affordable(double n)
{
	double rate = g_wall > 1 ? (double) g_exec / g_wall : 300.0;
	return 2.0 * n / rate + 60 < vx_time_left();
}

#define RESP(j, k) (L_RESP0 + (j) * K_NKIND + (k))

int
main(int argc, char **argv)
{
	vx_init(argc, argv, "C07");
	int T = vx_is_thorough();
	// seeded start states of the surveyor
	static const int P1[] = { L_SURVEY0, L_SURVEY0 + 1, L_ADV99 };
	//   both surveys live, one ms before their common deadline
	static const int P2[] = { L_SURVEY0, L_SURVEY0, L_ADV99, L_SURVEY0 + 1 };
	//   sock: a superseded id exists, deadline in 1 ms; ctx: fresh survey
	static const int P3[] = { L_SURVEY0, L_RECVP0, L_SURVEY0 + 1, L_RECVP0 + 1,
		L_ADV99 };
	//   both have a receive pending one ms before the deadline
	static const int P4[] = { L_SURVEY0 + 1, RESP(0, K_CURC), RESP(1, K_CURC),
		L_SURVEY0, L_ADV99, L_SURVEY0 + 1 };
	//   ctx: two queued responses discarded by a re-survey; sock at D-1
	static const int P5[] = { L_SURVEY0, L_RECVP0, L_ADV99, L_ADV1, L_ADV1, L_SURVEY0 };
	static const int P6[] = { L_SURVEY0 + 1, L_RECVP0 + 1, L_ADV99, L_ADV1, L_ADV1,
		L_SURVEY0 + 1 };
	//   a receive was still pending when its survey expired (it ended with
	//   ETIMEDOUT), then a new survey: the expired id is the "stale" one
	struct {
		const char *name;
		const int  *p;
		int         pl, dq, dt, dx; // depth quick / thorough / thorough extra
	} SC[] = {
		{ "surv-P0", NULL, 0, 3, 4, 0 },
		{ "surv-P1", P1, 3, 3, 4, 0 },
		{ "surv-P2", P2, 4, 2, 3, 4 },
		{ "surv-P3", P3, 5, 2, 3, 4 },
		{ "surv-P4", P4, 6, 2, 3, 0 },
		{ "surv-P5", P5, 6, 2, 3, 0 },
		{ "surv-P6", P6, 6, 2, 3, 0 },
	};
	char     name[40];
	unsigned nsc = sizeof(SC) / sizeof(SC[0]);
	// cheap scenarios first (thorough: the depth-4 ones follow below)
	for (unsigned i = 0; i < nsc; i++) {
		int d = T ? SC[i].dt : SC[i].dq;
		snprintf(name, sizeof(name), "%s-d%d", SC[i].name, d);
		if ((T && d > 3) || vx_time_left() < 15)
			continue;
		explore(name, run_surv, SC[i].p, SC[i].pl, d);
	}
	// socket and context with different survey times: the deadline of a survey is that of the object it
	// was sent on.  Start states: both surveys out and the clock between the two deadlines.
	{
		static const int Pa[] = { L_SURVEY0 + 1, L_SURVEY0, L_ADV99, L_ADV1 }; // t = 100
		static const int Pb[] = { L_SURVEY0 + 1, L_SURVEY0, L_ADV99 };         // t = 99
		static const struct {
			const char *name;
			int         st0, st1;
			const int  *p;
			int         pl;
		} DV[] = { { "surv-ctx199-sock100", 100, 199, Pa, 4 }, { "surv-ctx50-sock100", 100, 50, Pb, 3 },
			{ "surv-ctx100-sock199", 199, 100, Pa, 4 }, { "surv-ctx100-sock50", 50, 100, Pb, 3 } };
		for (int i = 0; i < 4 && vx_time_left() > 15; i++) {
			int d = T ? 3 : 2;
			snprintf(name, sizeof(name), "%s-d%d", DV[i].name, d);
			ST[0] = DV[i].st0;
			ST[1] = DV[i].st1;
			explore(strdup(name), run_surv, DV[i].p, DV[i].pl, d);
		}
		ST[0] = ST[1] = SURVEYTIME;
	}
	// respondent side
	{
		int d     = T ? 5 : 4;
		g_resp_nb = 0;
		snprintf(name, sizeof(name), "resp-aio-d%d", d);
		if (vx_time_left() > (T ? 100 : 10))
			explore(name, run_resp, NULL, 0, d);
		g_resp_nb = 1;
		d         = T ? 4 : 3;
		snprintf(name, sizeof(name), "resp-nonblock-d%d", d);
		if (vx_time_left() > 10)
			explore(name, run_resp, NULL, 0, d);
	}
	for (unsigned i = 0; T && i < nsc; i++) {
		int d = SC[i].dt;
		snprintf(name, sizeof(name), "%s-d%d", SC[i].name, d);
		if (d <= 3 || !affordable(104976))
			continue;
		explore(name, run_surv, SC[i].p, SC[i].pl, d);
	}
	// deeper runs only when the machine is fast enough today
	for (unsigned i = 0; T && i < nsc; i++) {
		if (!SC[i].dx || !affordable(104976))
			continue;
		snprintf(name, sizeof(name), "%s-d%d", SC[i].name, SC[i].dx);
		explore(name, run_surv, SC[i].p, SC[i].pl, SC[i].dx);
	}
	if (T && affordable(262144)) {
		g_resp_nb = 0;
		snprintf(name, sizeof(name), "resp-aio-d6");
		explore(name, run_resp, NULL, 0, 6);
	}
	vx_note("alphabet-surveyor",
	    "%d letters: survey(sock|ctx) recv(sock|ctx, non-blocking) "
	    "recvaio(sock|ctx, left pending) respond(p0|p1, id in {current sock, "
	    "current ctx, last superseded, one-bit-off unknown, high bit "
	    "cleared}) adv(+99) adv(+1); SURVEYTIME=%d virtual ms; 7 start "
	    "states (initial + 6 seeded prefixes)",
	    L_NSURV, SURVEYTIME);
	vx_note("alphabet-respondent",
	    "%d letters: p0|p1.survey(1|2 backtrace words) ctx0|ctx1.recv (aio, "
	    "may stay pending) ctx0|ctx1.send; send via aio and via "
	    "NNG_FLAG_NONBLOCK",
	    Q_N);
	for (int k = 0; k < 2; k++) {
		vx_cfg c2;
		memset(&c2, 0, sizeof(c2));
		c2.prop     = "C07";
		c2.scenario = k ? "race-recv-new-survey-deadline" : "race-response-new-survey";
		c2.run      = run_survrace;
		c2.arg      = (void *) (intptr_t) k;
		c2.budget[VB_PREEMPT] = vx_is_thorough() ? 2 : 1;
		c2.budget[VB_SWITCH]  = 2;
		c2.budget[VB_ENV]     = -1;
		c2.total              = 2;
		vx_explore(&c2, NULL);
	}
	return vx_finish();
}
