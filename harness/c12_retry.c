// C12 - REQ keeps retrying until answered; no hang when retry is disabled.
//
// A real REQ socket (the socket itself, or two contexts) with RESENDTIME 100 ms
// and RESENDTICK 10 ms (virtual time) talks to raw repliers that the harness
// creates on demand over socket://.  Every sequence of <= d faults over the
// alphabet below is enumerated (ENV choices), followed by a fair suffix: every
// live raw connection answers every request frame it reads.  The oracle is the
// set of invariants the statement promises (see the clause comments).
#define _GNU_SOURCE
#include "vpeer.h"
#include "vs.h"
#include <errno.h>
#include <pthread.h>
#include <stdlib.h>
#include <string.h>
#include <sys/ioctl.h>
#include <sys/socket.h>
#include <unistd.h>

#define RESEND 100
#define TICK 10
#define SLACK 15
// a retransmission caused by RESENDTIME must be visible within this many ms
#define RESEND_BOUND (RESEND + 2 * TICK + SLACK)
// a retransmission caused by connection loss must not wait for the resend timer
#define PROMPT_BOUND (RESEND / 2)

// ---- fault alphabet ---------------------------------------------------------
enum {
	F_END = 0,
	F1_READ_CLOSE_ALL, // repliers read everything, all connections die, restart
	F1_READ_CLOSE_HOLDER, // only the connection that carries request A dies
	F2_CLOSE_UNREAD,      // all connections die before reading, restart
	F3_READ_SILENT,       // replier reads, never answers (reply lost)
	F3_READ_SILENT_ADD,   // ... and a second replier appears
	F4_WRONG_UNKNOWN,     // reads, answers with an id nobody has
	F4_WRONG_STALE,       // reads, answers with the id of the previous request
	F4_WRONG_NOBIT,       // reads, answers with the id without bit 31
	F4_GARBAGE,           // reads, answers with a 2 byte frame
	F5_DELAY50,           // 50 ms pass (repliers read, stay silent)
	F5_DELAY150,
	F5_STALL150, // 150 ms pass, repliers do not even read
	F6_NOBODY150, // all repliers gone for 150 ms, then a new one
	F3_ANSWER_A,  // repliers read; only request A is answered (B's reply is lost)
	F3_ANSWER_B,  // ... only request B
	F3_ANSWER_A_EARLY, // a replier answers A as soon as it has read it and reads no further
	F_NLETTER
};
static const char *FN[] = { "end", "F1all", "F1holder", "F2unread", "F3silent",
	"F3silent+conn", "F4unknown", "F4stale", "F4nobit", "F4garbage", "D50",
	"D150", "stall150", "F6nobody150", "F3answerA", "F3answerB", "F3answerA-early" };

typedef struct scn {
	const char *name;
	int         nreq;      // 1 = socket, 2 = two contexts
	int         retry[2];  // RESEND or -1 (infinite)
	int         big;       // request bodies of BIGBODY bytes
	int         sockdflt;  // the socket keeps its default resend time (60 s); only the contexts are set
	const int  *prefix;    // fault letters applied before the enumerated ones (a seeded start state)
	int         nprefix;
} scn;
#define BIGBODY 120000
static int        g_depth;
static const int *g_map; // letters in use (g_map[0] == F_END)
static int        g_nmap;

// ---- state of one execution ---------------------------------------------------
#define MAXC 16
typedef struct conn {
	int     fd;
	vp_rd  *rd;
	int     live;
	int64_t drained_at; // last time the harness emptied this connection
} conn;

typedef struct rq {
	const char *tag;
	size_t      taglen;
	const char *body; // what goes on the wire (tag, or tag + filler)
	size_t      bodylen;
	int         finite;
	nng_aio    *saio, *raio;
	int         s_ncb, s_res;
	int         ncb, res;
	int64_t     t_start, t_cb;
	int         tmo;
	char        rbody[40];
	size_t      rlen;
	// wire view
	int      nwire;
	int64_t  last_seen;
	int      last_conn;
	uint32_t last_id;
	int      ambiguous; // seen on two connections in one pump
	int      pump_conn; // scratch: connection of the sighting in this pump
	// obligations
	int     loss_pending;
	int64_t loss_time;
	int     expect_reset;
	int     answered; // fair replies sent
} rq;

static conn       C[MAXC];
static int        NC;
static rq         R[3]; // 0 = A, 1 = B, 2 = warm-up
static int        NR;
static nng_socket S;
static nng_ctx    CX[2];
static nng_listener L;
static int        g_fair;
static int        g_answer_mask; // bit i: request i is answered although the suffix is not fair yet
static int        g_stop_after_answer, g_stop_now;
static int64_t    g_live_since; // -1 = no live connection
static int64_t    g_tfair;
static uint32_t   g_stale_id;
static uint32_t   g_id0; // first id seen (log ids relative to it)
static char       g_seq[256];

static int
nlive(void)
{
	int n = 0;
	for (int i = 0; i < NC; i++)
		n += C[i].live;
	return n;
}

static void
live_changed(void)
{
	if (nlive() == 0)
		g_live_since = -1;
	else if (g_live_since < 0)
		g_live_since = vs_now();
}

static int
outstanding(rq *r)
{
	return r->saio != NULL && r->ncb == 0;
}

static void
recv_cb(void *arg)
{
	rq *r = arg;
	r->ncb++;
	r->res  = (int) nng_aio_result(r->raio);
	r->t_cb = vs_now();
	if (r->ncb > 1)
		vs_fail("C12:receive-completed-twice",
		    "[%s] receive of %s completed %d times (last result %d)", g_seq,
		    r->tag, r->ncb, r->res);
	if (r->res == 0) {
		nng_msg *m = nng_aio_get_msg(r->raio);
		r->rlen    = m ? nng_msg_len(m) : 0;
		if (m) {
			size_t n = r->rlen < sizeof(r->rbody) ? r->rlen : sizeof(r->rbody);
			memcpy(r->rbody, nng_msg_body(m), n);
			nng_msg_free(m);
		}
	}
}

static void
send_cb(void *arg)
{
	rq *r = arg;
	r->s_ncb++;
	r->s_res = (int) nng_aio_result(r->saio);
	if (r->s_res != 0) {
		nng_msg *m = nng_aio_get_msg(r->saio);
		if (m)
			nng_msg_free(m);
	}
}

static int
attach_conn(void)
{
	if (NC >= MAXC)
		vs_fail("harness:setup", "too many raw connections");
	conn *c = &C[NC];
	if (NC == 0) {
		c->fd = vp_connect_raw(S, SP_REP, &L);
	} else {
		c->fd = vp_attach_more(L);
		if (c->fd >= 0) {
			vs_settle();
			if (vp_handshake(c->fd, SP_REP) < 0) {
				close(c->fd);
				c->fd = -1;
			}
		}
	}
	if (c->fd < 0)
		vs_fail("harness:setup", "[%s] raw replier %d could not connect", g_seq,
		    NC);
	c->rd         = calloc(1, sizeof(vp_rd));
	c->live       = 1;
	c->drained_at = vs_now();
	NC++;
	vs_settle();
	live_changed();
	return NC - 1;
}

// one request frame observed on connection ci (read or peeked)
static void
sighting(int ci, const uint8_t *p, size_t len, int reply)
{
	if (len < 4)
		vs_fail("C12:malformed-request-frame", "[%s] %zu byte frame from REQ",
		    g_seq, len);
	uint32_t id = vp_get32(p);
	if (!(id & 0x80000000u))
		vs_fail("C12:malformed-request-frame",
		    "[%s] request id %08x without bit 31", g_seq, id);
	if (g_id0 == 0)
		g_id0 = id;
	rq *r = NULL;
	for (int i = 0; i < 3; i++)
		if (R[i].tag && len - 4 == R[i].bodylen &&
		    memcmp(p + 4, R[i].body, R[i].bodylen) == 0)
			r = &R[i];
	if (r == NULL)
		vs_fail("C12:corrupt-request", "[%s] unknown request body (%zu bytes) %s",
		    g_seq, len - 4, vh_hex(p + 4, len - 4 > 32 ? 32 : len - 4));
	int64_t now = vs_now();
	// a frame written after the reply had been delivered
	if (r->ncb > 0 && r->res == 0 && C[ci].drained_at > r->t_cb)
		vs_fail("C12:retransmit-after-reply",
		    "[%s] %s seen on the wire at %lld although its reply was "
		    "delivered at %lld",
		    g_seq, r->tag, (long long) now, (long long) r->t_cb);
	if (!reply && (g_answer_mask & (1 << (int) (r - R))) && outstanding(r)) {
		reply = 1;
		if (g_stop_after_answer)
			g_stop_now = 1;
	}
	r->nwire++;
	vs_log("t=%lld conn%d: %s id+%u (#%d)%s", (long long) now, ci, r->tag,
	    id - g_id0, r->nwire, reply ? " -> answered" : "");
	if (!r->finite && r->nwire > 1)
		vs_fail("C12:infinite:retransmitted",
		    "[%s] resend disabled but %s was put on the wire %d times", g_seq,
		    r->tag, r->nwire);
	if (r->pump_conn >= 0 && r->pump_conn != ci)
		r->ambiguous = 1;
	else if (r->pump_conn < 0)
		r->ambiguous = 0;
	r->pump_conn    = ci;
	r->last_seen    = now;
	r->last_conn    = ci;
	r->last_id      = id;
	r->loss_pending = 0;
	if (reply) {
		uint8_t h[4];
		char    body[48];
		vp_put32(h, id);
		int bl = snprintf(body, sizeof(body), "ok:%s", r->tag);
		// the very first answer is duplicated by the network
		int copies = r->answered == 0 ? 2 : 1;
		for (int k = 0; k < copies; k++)
			if (vp_send(C[ci].fd, h, 4, body, (size_t) bl) != 0)
				break; // peer closed: noticed by the next read
		r->answered++;
	}
}

static void
obligations(void)
{
	int64_t now = vs_now();
	for (int i = 0; i < NR; i++) {
		rq *r = &R[i];
		if (!outstanding(r) || g_live_since < 0)
			continue;
		if (r->loss_pending) {
			int64_t ref =
			    r->loss_time > g_live_since ? r->loss_time : g_live_since;
			if (r->finite && now - ref > PROMPT_BOUND)
				vs_fail(r->nwire ? "C12:no-retransmit-after-loss"
				                 : "C12:never-sent",
				    "[%s] %s: connection lost at %lld, a replier is "
				    "reachable since %lld, nothing on the wire by %lld",
				    g_seq, r->tag, (long long) r->loss_time,
				    (long long) g_live_since, (long long) now);
		}
		if (r->finite) {
			int64_t ref = r->nwire ? r->last_seen : r->t_start;
			if (g_live_since > ref)
				ref = g_live_since;
			if (now - ref > RESEND_BOUND)
				vs_fail("C12:no-retransmit-after-resendtime",
				    "[%s] %s last seen at %lld (replier reachable since "
				    "%lld), no retransmission by %lld",
				    g_seq, r->tag, (long long) r->last_seen,
				    (long long) g_live_since, (long long) now);
		}
	}
}

// connection ci is gone (closed by the harness or by the library): the
// requests whose latest transmission went over it have lost their connection
static void
lost(int ci)
{
	for (int i = 0; i < NR; i++) {
		rq *r = &R[i];
		// (a connection dropped by the library is noticed by the harness
		// only after the ECONNRESET completion it caused)
		int open_ = outstanding(r) ||
		    (r->saio != NULL && !r->finite && r->res == NNG_ECONNRESET);
		if (!open_ || r->nwire == 0 || r->last_conn != ci || r->ambiguous)
			continue;
		if (r->finite) {
			if (!r->loss_pending)
				r->loss_time = vs_now();
			r->loss_pending = 1;
		} else {
			r->expect_reset = 1;
			r->loss_time    = vs_now();
		}
		vs_nontrivial();
	}
}

// read everything that is readable; fair repliers answer
static void
pump(void)
{
	vs_settle();
	for (int round = 0; round < 8; round++) {
		int activity = 0;
		for (int i = 0; i < 3; i++)
			R[i].pump_conn = -1;
		// connections the library has dropped (nothing left to read)
		for (int ci = 0; ci < NC; ci++)
			if (C[ci].live && C[ci].rd->len == 0 && vp_is_eof(C[ci].fd)) {
				close(C[ci].fd);
				C[ci].live = 0;
				lost(ci);
				live_changed();
			}
		for (int ci = 0; ci < NC; ci++) {
			conn *c = &C[ci];
			if (!c->live)
				continue;
			for (;;) {
				const uint8_t *p;
				size_t         len;
				size_t         before = c->rd->len;
				int            k = vp_next_frame(c->fd, c->rd, &p, &len);
				if (k == 0) {
					// bytes of an incomplete frame arrived: the sender may be
					// able to go on writing now, look again after a settle
					if (c->rd->len != before)
						activity = 1;
					break;
				}
				if (k < 0) {
					close(c->fd);
					c->live = 0;
					lost(ci);
					live_changed();
					activity = 1;
					break;
				}
				activity = 1;
				sighting(ci, p, len, g_fair);
				if (g_stop_now)
					break;
			}
			if (g_stop_now)
				break;
			if (c->live)
				c->drained_at = vs_now();
		}
		if (!activity || g_stop_now)
			break;
		vs_settle();
	}
	if (g_stop_now) {
		g_stop_now = 0;
		vs_settle();
		return; // (the connection was deliberately not drained: no obligations yet)
	}
	obligations();
}

// look at unread bytes without consuming them (the replier never reads them)
static void
peek(int ci)
{
	static uint8_t buf[(1 << 17) + (1 << 16)];
	conn          *c = &C[ci];
	// bytes the harness took off the socket earlier without looking at them (a replier that
	// stopped reading in the middle) come first, then what is still in the kernel
	size_t pre = c->rd->len;
	memcpy(buf, c->rd->buf, pre);
	c->rd->len = 0;
	ssize_t n = recv(c->fd, buf + pre, sizeof(buf) - pre, MSG_PEEK);
	n         = (n > 0 ? n : 0) + (ssize_t) pre;
	size_t o  = 0;
	int            unread = 0;
	ioctl(c->fd, FIONREAD, &unread);
	vs_log("t=%lld conn%d: closing with %d unread bytes", (long long) vs_now(), ci,
	    unread);
	for (int i = 0; i < 3; i++)
		R[i].pump_conn = -1;
	while (n > 0 && o + 8 <= (size_t) n) {
		uint64_t len = 0;
		for (int i = 0; i < 8; i++)
			len = (len << 8) | buf[o + i];
		if (o + 8 + len > (size_t) n)
			break;
		sighting(ci, buf + o + 8, (size_t) len, 0);
		o += 8 + (size_t) len;
	}
}

static void
close_conn(int ci)
{
	conn *c = &C[ci];
	if (!c->live)
		return;
	close(c->fd);
	c->live = 0;
}

static void
close_all(int read_first)
{
	if (read_first)
		pump();
	else
		for (int ci = 0; ci < NC; ci++)
			if (C[ci].live)
				peek(ci);
	for (int ci = 0; ci < NC; ci++)
		if (C[ci].live) {
			lost(ci);
			close_conn(ci);
		}
	// every connection is gone, so whatever carried an outstanding request is
	// gone too (also if the harness could not tell which one it was); requests
	// that were never transmitted are owed to the next replier as well
	for (int i = 0; i < NR; i++) {
		rq *r = &R[i];
		if (!outstanding(r))
			continue;
		if (r->finite) {
			if (!r->loss_pending)
				r->loss_time = vs_now();
			r->loss_pending = 1;
		} else if (r->nwire > 0 && !r->expect_reset) {
			r->expect_reset = 1;
			r->loss_time    = vs_now();
		}
	}
	live_changed();
	vs_settle();
}

static void
run_for(int ms, int do_pump)
{
	int64_t end = vs_now() + ms;
	while (vs_now() < end) {
		int64_t left = end - vs_now();
		vs_sleep(left < 10 ? (int) left : 10);
		if (do_pump)
			pump();
	}
}

static void
wrong_reply(int kind)
{
	pump();
	int sent = 0;
	for (int i = 0; i < NR; i++) {
		rq *r = &R[i];
		if (!outstanding(r) || r->nwire == 0 || !C[r->last_conn].live)
			continue;
		uint8_t  h[4];
		uint32_t id = 0;
		switch (kind) {
		case F4_WRONG_UNKNOWN:
			id = (r->last_id + 0x100u) | 0x80000000u;
			break;
		case F4_WRONG_STALE:
			id = g_stale_id;
			break;
		case F4_WRONG_NOBIT:
			id = r->last_id & 0x7fffffffu;
			break;
		default:
			break;
		}
		vp_put32(h, id);
		if (kind == F4_GARBAGE)
			vp_send(C[r->last_conn].fd, "\x80\x01", 2, NULL, 0);
		else
			vp_send(C[r->last_conn].fd, h, 4, "BAD", 3);
		sent = 1;
	}
	if (sent) {
		vs_settle();
		pump();
	}
	if (nlive() == 0)
		attach_conn();
}

static void
do_fault(int f)
{
	switch (f) {
	case F1_READ_CLOSE_ALL:
		close_all(1);
		attach_conn();
		break;
	case F1_READ_CLOSE_HOLDER: {
		pump();
		rq *r = &R[0];
		if (outstanding(r) && r->nwire > 0 && !r->ambiguous &&
		    C[r->last_conn].live && nlive() > 1) {
			int ci = r->last_conn;
			lost(ci);
			close_conn(ci);
			live_changed();
			vs_settle();
		} else {
			close_all(1);
			attach_conn();
		}
	} break;
	case F2_CLOSE_UNREAD:
		close_all(0);
		attach_conn();
		break;
	case F3_READ_SILENT:
		pump();
		break;
	case F3_READ_SILENT_ADD:
		pump();
		attach_conn();
		break;
	case F4_WRONG_UNKNOWN:
	case F4_WRONG_STALE:
	case F4_WRONG_NOBIT:
	case F4_GARBAGE:
		wrong_reply(f);
		break;
	case F5_DELAY50:
		run_for(50, 1);
		break;
	case F5_DELAY150:
		run_for(150, 1);
		break;
	case F5_STALL150:
		run_for(150, 0);
		break;
	case F6_NOBODY150:
		close_all(1);
		run_for(150, 0);
		attach_conn();
		break;
	case F3_ANSWER_A:
	case F3_ANSWER_B:
		g_answer_mask = f == F3_ANSWER_A ? 1 : 2;
		pump();
		g_answer_mask = 0;
		break;
	case F3_ANSWER_A_EARLY:
		g_answer_mask       = 1;
		g_stop_after_answer = 1;
		pump();
		g_answer_mask = g_stop_after_answer = 0;
		break;
	default:
		break;
	}
}

static void
submit(rq *r, int idx, int nreq, int tmo)
{
	nng_msg *m;
	VH_OK(nng_msg_alloc(&m, 0));
	VH_OK(nng_msg_append(m, r->body, r->bodylen));
	if (r->saio == NULL) {
		VH_OK(nng_aio_alloc(&r->saio, send_cb, r));
		VH_OK(nng_aio_alloc(&r->raio, recv_cb, r));
	}
	nng_aio_set_msg(r->saio, m);
	nng_aio_set_timeout(r->raio, tmo < 0 ? NNG_DURATION_INFINITE : tmo);
	r->tmo     = tmo;
	r->t_start = vs_now();
	if (nreq == 1) {
		nng_socket_send(S, r->saio);
		nng_socket_recv(S, r->raio);
	} else {
		nng_ctx_send(CX[idx], r->saio);
		nng_ctx_recv(CX[idx], r->raio);
	}
	vs_settle();
}

static void
run_retry(void *arg)
{
	const scn *sc = arg;
	static const int TMO[] = { -1, 2000, 250 };
	memset(C, 0, sizeof(C));
	memset(R, 0, sizeof(R));
	NC = 0;
	g_id0 = 0;
	g_fair = 0;
	g_live_since = -1;
	g_seq[0] = 0;
	int var       = vs_choose(VK_ENV, 12);
	int pre       = var >= 6; // an earlier, cancelled request + an idle period
	var %= 6;
	int tmo       = TMO[var % 3];
	int init_conn = var < 3;
	NR            = sc->nreq;
	snprintf(g_seq, sizeof(g_seq), "%s tmo=%d %s:", sc->name, tmo,
	    init_conn ? "connected" : "unconnected");

	vh_init(0);
	VH_OK(nng_req0_open(&S));
	VH_OK(nng_socket_set_ms(S, NNG_OPT_REQ_RESENDTICK, TICK));
	if (!sc->sockdflt)
		VH_OK(nng_socket_set_ms(S, NNG_OPT_REQ_RESENDTIME,
		    sc->retry[0] < 0 ? NNG_DURATION_INFINITE : sc->retry[0]));
	if (sc->nreq == 2)
		for (int i = 0; i < 2; i++) {
			VH_OK(nng_ctx_open(&CX[i], S));
			VH_OK(nng_ctx_set_ms(CX[i], NNG_OPT_REQ_RESENDTIME,
			    sc->retry[i] < 0 ? NNG_DURATION_INFINITE : sc->retry[i]));
		}
	attach_conn();

	// warm-up round trip on the socket / context A: yields a stale id
	rq *w     = &R[2];
	w->tag    = "warm";
	w->taglen = 4;
	w->body    = w->tag;
	w->bodylen = 4;
	w->finite = sc->retry[0] > 0;
	submit(w, 0, sc->nreq, -1);
	pump();
	if (w->nwire != 1 || w->s_ncb != 1 || w->s_res != 0)
		vs_fail("harness:setup", "warm-up request not on the wire");
	{
		uint8_t h[4];
		vp_put32(h, w->last_id);
		vp_send(C[0].fd, h, 4, "ok:warm", 7);
		vs_settle();
	}
	if (w->ncb != 1 || w->res != 0 || w->rlen != 7 ||
	    memcmp(w->rbody, "ok:warm", 7) != 0)
		vs_fail("C12:receive-never-completes",
		    "warm-up reply was not delivered (ncb %d res %d)", w->ncb, w->res);
	g_stale_id = w->last_id;
	nng_aio_free(w->saio);
	nng_aio_free(w->raio);
	w->saio = w->raio = NULL;
	if (pre) {
		// a request that leaves the retry machinery through a cancel, then
		// the socket sits idle for a few ticks: the resend timer must come
		// back to life for the requests that follow
		memset(w, 0, sizeof(*w));
		w->tag     = "pre_";
		w->taglen  = 4;
		w->body    = w->tag;
		w->bodylen = 4;
		w->finite  = sc->retry[0] > 0;
		submit(w, 0, sc->nreq, -1);
		pump();
		nng_aio_cancel(w->raio);
		vs_settle();
		vs_sleep(3 * TICK);
		pump();
		nng_aio_free(w->saio);
		nng_aio_free(w->raio);
		w->saio = w->raio = NULL;
		strcat(g_seq, " (after a cancelled request)");
	}
	if (!init_conn) {
		pump();
		close_conn(0);
		live_changed();
		vs_settle();
	}

	static const char *TAG[] = { "REQ-A", "REQ-B" };
	for (int i = 0; i < sc->nreq; i++) {
		rq *r     = &R[i];
		r->tag    = TAG[i];
		r->taglen = 5;
		r->body    = r->tag;
		r->bodylen = 5;
		if (sc->big) {
			// a body larger than what the kernel buffers: the second request
			// stays partly written while the replier does not read
			static char bigbody[2][BIGBODY];
			memset(bigbody[i], 'a' + i, BIGBODY);
			memcpy(bigbody[i], TAG[i], 5);
			r->body    = bigbody[i];
			r->bodylen = BIGBODY;
		}
		r->finite = sc->retry[i] > 0;
		submit(r, i, sc->nreq, tmo);
	}

	// ---- the fault sequence ---------------------------------------------------
	for (int step = 0; step < sc->nprefix + g_depth; step++) {
		int f = step < sc->nprefix ? sc->prefix[step] : g_map[vs_choose(VK_ENV, g_nmap)];
		if (f == F_END)
			break;
		snprintf(g_seq + strlen(g_seq), sizeof(g_seq) - strlen(g_seq), " %s",
		    FN[f]);
		do_fault(f);
	}

	// ---- fair suffix ------------------------------------------------------------
	if (nlive() == 0)
		attach_conn();
	g_tfair = vs_now();
	// resend disabled: a slow replier finally answers what it had read
	for (int i = 0; i < NR; i++) {
		rq *r = &R[i];
		if (r->finite || !outstanding(r) || r->nwire == 0 ||
		    !C[r->last_conn].live || r->expect_reset)
			continue;
		uint8_t h[4];
		char    body[48];
		vp_put32(h, r->last_id);
		int bl = snprintf(body, sizeof(body), "ok:%s", r->tag);
		vp_send(C[r->last_conn].fd, h, 4, body, (size_t) bl);
		vp_send(C[r->last_conn].fd, h, 4, body, (size_t) bl);
		r->answered++;
	}
	g_fair = 1;
	pump();
	int64_t horizon = g_tfair + RESEND_BOUND + 60;
	int64_t all_done_at = -1;
	while (vs_now() < horizon) {
		int pending = 0;
		for (int i = 0; i < NR; i++)
			pending += outstanding(&R[i]);
		if (!pending && all_done_at < 0)
			all_done_at = vs_now();
		// keep answering for a while: duplicates and stragglers
		if (all_done_at >= 0 && vs_now() > all_done_at + 3 * TICK + 5)
			break;
		vs_sleep(10);
		pump();
	}

	// ---- verdicts ----------------------------------------------------------------
	char out[120] = "";
	for (int i = 0; i < NR; i++) {
		rq  *r = &R[i];
		char want[16];
		snprintf(want, sizeof(want), "ok:%s", r->tag);
		vs_log("%s: nwire=%d ncb=%d res=%d t_cb=+%lld tfair=+%lld send=%d/%d", r->tag,
		    r->nwire, r->ncb, r->res, (long long) (r->t_cb - r->t_start),
		    (long long) (g_tfair - r->t_start), r->s_ncb, r->s_res);
		if (r->ncb == 0) {
			if (!r->finite && r->expect_reset)
				vs_fail("C12:infinite:no-econnreset",
				    "[%s] %s: resend disabled, its connection was lost at "
				    "%lld but the receive is still pending at %lld",
				    g_seq, r->tag, (long long) r->loss_time,
				    (long long) vs_now());
			vs_fail("C12:receive-never-completes",
			    "[%s] %s: fair replier since %lld, receive still pending at "
			    "%lld (seen %d times on the wire, %d answers sent)",
			    g_seq, r->tag, (long long) g_tfair, (long long) vs_now(),
			    r->nwire, r->answered);
		}
		if (r->res == 0) {
			if (r->rlen != strlen(want) || memcmp(r->rbody, want, r->rlen) != 0)
				vs_fail("C12:wrong-reply",
				    "[%s] %s received reply body %s", g_seq, r->tag,
				    vh_hex(r->rbody, r->rlen < 40 ? r->rlen : 40));
			if (r->answered == 0)
				vs_fail("C12:wrong-reply",
				    "[%s] %s completed without any reply sent", g_seq, r->tag);
			if (r->t_cb > g_tfair + RESEND_BOUND)
				vs_fail("C12:receive-never-completes",
				    "[%s] %s: fair replier since %lld, reply only at %lld "
				    "(bound %d ms)",
				    g_seq, r->tag, (long long) g_tfair, (long long) r->t_cb,
				    RESEND_BOUND);
		} else if (r->res == NNG_ETIMEDOUT) {
			if (r->tmo < 0 || r->t_cb < r->t_start + r->tmo)
				vs_fail("C12:early-timeout",
				    "[%s] %s timed out at +%lld ms (timeout %d)", g_seq, r->tag,
				    (long long) (r->t_cb - r->t_start), r->tmo);
			if (g_tfair + RESEND_BOUND < r->t_start + r->tmo)
				vs_fail("C12:receive-never-completes",
				    "[%s] %s timed out although a fair replier was reachable "
				    "from +%lld ms",
				    g_seq, r->tag, (long long) (g_tfair - r->t_start));
		} else if (r->res == NNG_ECONNRESET) {
			if (r->finite)
				vs_fail("C12:receive-failed",
				    "[%s] %s (resend enabled) failed with ECONNRESET", g_seq,
				    r->tag);
			if (!r->expect_reset)
				vs_fail("C12:infinite:spurious-econnreset",
				    "[%s] %s failed with ECONNRESET but the connection it was "
				    "sent on was not lost",
				    g_seq, r->tag);
		} else {
			vs_fail("C12:receive-failed", "[%s] %s failed with %d (%s)", g_seq,
			    r->tag, r->res, nng_strerror(r->res));
		}
		if (!r->finite && r->expect_reset && r->res != NNG_ECONNRESET &&
		    !(r->t_cb <= r->loss_time))
			vs_fail("C12:infinite:no-econnreset",
			    "[%s] %s: resend disabled, connection lost at %lld, receive "
			    "completed at %lld with %d",
			    g_seq, r->tag, (long long) r->loss_time, (long long) r->t_cb,
			    r->res);
		// the send side
		if (r->s_ncb > 1)
			vs_fail("C12:send-completed-twice", "[%s] %s", g_seq, r->tag);
		if (r->s_ncb == 1 && r->s_res != 0 &&
		    !(r->res == NNG_ETIMEDOUT && r->s_res == NNG_ECANCELED))
			vs_fail("C12:send-failed", "[%s] %s send result %d", g_seq, r->tag,
			    r->s_res);
		if (r->s_ncb == 0)
			vs_fail("C12:send-never-completes", "[%s] %s", g_seq, r->tag);
		// no second delivery of the (duplicated) reply
		nng_msg *m  = NULL;
		int      rv = sc->nreq == 1 ? nng_recvmsg(S, &m, NNG_FLAG_NONBLOCK)
		                            : nng_ctx_recvmsg(CX[i], &m, NNG_FLAG_NONBLOCK);
		if (rv == 0) {
			nng_msg_free(m);
			vs_fail("C12:reply-delivered-twice",
			    "[%s] %s: a second receive returned another reply", g_seq,
			    r->tag);
		}
		snprintf(out + strlen(out), sizeof(out) - strlen(out), "%s%s:%d/w%d",
		    i ? " " : "", r->finite ? "fin" : "inf", r->res,
		    r->nwire > 3 ? 3 : r->nwire);
	}
	vs_log("%s", g_seq);
	vs_outcome("%s", out);

	for (int ci = 0; ci < NC; ci++) {
		close_conn(ci);
		free(C[ci].rd);
	}
	for (int i = 0; i < NR; i++) {
		nng_aio_free(R[i].saio);
		nng_aio_free(R[i].raio);
	}
	if (sc->nreq == 2)
		for (int i = 0; i < 2; i++)
			nng_ctx_close(CX[i]);
	nng_socket_close(S);
	vh_fini();
}

// ---- schedules: retransmission machinery racing with its triggers -----------------------------------------
// (a) the connection is closed (nng_pipe_close) at the moment a request's send completes: the request must
//     be retransmitted on the replacement connection at once (not after RESENDTIME = 60 s), or with
//     resending disabled the receive fails with NNG_ECONNRESET.
// (b) the retry timer ticks on an empty queue (the context that armed it was closed) while another context
//     sends; the first copy is lost: that request is still retransmitted after RESENDTIME.
static nng_socket rr_s;
static nng_pipe   rr_pipe;
static int        rr_have_pipe;
static void
rr_pipe_cb(nng_pipe p, nng_pipe_ev ev, void *arg)
{
	(void) arg;
	if (ev == NNG_PIPE_EV_ADD_POST) {
		rr_pipe      = p;
		rr_have_pipe = 1;
	}
}
static int rr_rv_send;
static void *
rr_sender(void *a)
{
	nng_ctx *cx = a;
	nng_msg *m;
	if (nng_msg_alloc(&m, 0) != 0 || nng_msg_append(m, "REQ", 3) != 0)
		vs_fail("harness:rr", "msg alloc");
	// (non-blocking: a REQ send waits for a connection, and the replacement only comes later)
	rr_rv_send = cx ? nng_ctx_sendmsg(*cx, m, NNG_FLAG_NONBLOCK)
	                : nng_sendmsg(rr_s, m, NNG_FLAG_NONBLOCK);
	if (rr_rv_send != 0)
		nng_msg_free(m);
	return NULL;
}
static void *
rr_closer(void *a)
{
	(void) a;
	nng_pipe_close(rr_pipe);
	return NULL;
}
// returns 1 and the request id if a request frame "REQ" is waiting on fd
static int
rr_next_req(int fd, vp_rd *rd, uint8_t id[4])
{
	const uint8_t *p;
	size_t         len;
	for (;;) {
		int k = vp_next_frame(fd, rd, &p, &len);
		if (k != 1)
			return 0;
		if (len == 7 && memcmp(p + 4, "REQ", 3) == 0) {
			memcpy(id, p, 4);
			return 1;
		}
	}
}
static void
run_retryrace(void *arg)
{
	int          kind = (int) (intptr_t) arg;
	nng_listener l;
	vh_init(0);
	VH_OK(nng_req0_open(&rr_s));
	VH_OK(nng_socket_set_ms(rr_s, NNG_OPT_REQ_RESENDTICK, 10));
	VH_OK(nng_socket_set_ms(rr_s, NNG_OPT_REQ_RESENDTIME, kind == 0 ? 60000 : 100));
	VH_OK(nng_pipe_notify(rr_s, NNG_PIPE_EV_ADD_POST, rr_pipe_cb, NULL));
	rr_have_pipe = 0;
	int fd = vp_connect_raw(rr_s, SP_REP, &l);
	if (fd < 0 || !rr_have_pipe)
		vs_fail("harness:setup", "raw replier");
	vp_rd    *rd = calloc(1, sizeof(*rd));
	uint8_t   id[4];
	pthread_t t1, t2;
	if (kind == 0) {
		vs_window(1);
		pthread_create(&t1, NULL, rr_sender, NULL);
		pthread_create(&t2, NULL, rr_closer, NULL);
		pthread_join(t1, NULL);
		pthread_join(t2, NULL);
		vs_window(0);
		vs_settle();
		if (rr_rv_send == NNG_EAGAIN) { // the close won: nothing was accepted, nothing to resend
			vs_outcome("loss-before-send");
			close(fd);
			free(rd);
			nng_socket_close(rr_s);
			vh_fini();
			return;
		}
		if (rr_rv_send != 0)
			vs_fail("C12:send", "request: %s", nng_strerror(rr_rv_send));
		int on_old = rr_next_req(fd, rd, id); // may or may not have made it out
		close(fd);
		// the replacement connection
		int64_t t0  = vs_now();
		int     fd2 = vp_attach_more(l);
		if (fd2 < 0 || vp_handshake(fd2, SP_REP) < 0)
			vs_fail("harness:rr", "replacement connection");
		memset(rd, 0, sizeof(*rd));
		int seen = 0;
		for (int t = 0; t < 12 && !seen; t++) {
			vs_settle();
			seen = rr_next_req(fd2, rd, id);
			if (!seen)
				vs_sleep(5);
		}
		vs_nontrivial();
		if (!seen)
			vs_fail("C12:no-retransmit-after-loss",
			    "the connection was closed as the request's send completed (%s on the old "
			    "connection); a replacement connection was up for %lld ms and the request "
			    "was not retransmitted on it (RESENDTIME 60 s)",
			    on_old ? "seen" : "not seen", (long long) (vs_now() - t0));
		if (vp_send(fd2, id, 4, "REP", 3) != 0)
			vs_fail("harness:peer", "raw write");
		vs_settle();
		nng_msg *m;
		VH_OK(nng_socket_set_ms(rr_s, NNG_OPT_RECVTIMEO, 200));
		int rv = nng_recvmsg(rr_s, &m, 0);
		if (rv != 0)
			vs_fail("C12:no-reply", "reply on the replacement connection: %s", nng_strerror(rv));
		nng_msg_free(m);
		vs_outcome("loss-at-completion old=%d", on_old);
		close(fd2);
	} else {
		nng_ctx a, b;
		VH_OK(nng_ctx_open(&a, rr_s));
		VH_OK(nng_ctx_open(&b, rr_s));
		// context a arms the retry timer and goes away: the next tick finds an empty queue
		nng_msg *m;
		VH_OK(nng_msg_alloc(&m, 0));
		VH_OK(nng_msg_append(m, "AAA", 3));
		VH_OK(nng_ctx_sendmsg(a, m, 0));
		vs_settle();
		VH_OK(nng_ctx_close(a));
		vs_settle();
		// b sends exactly when that tick fires
		vs_window(1);
		vs_sleep(9);
		pthread_create(&t1, NULL, rr_sender, &b);
		pthread_join(t1, NULL);
		vs_settle();
		vs_window(0);
		if (rr_rv_send != 0)
			vs_fail("C12:send", "request: %s", nng_strerror(rr_rv_send));
		int64_t t0 = vs_now();
		if (!rr_next_req(fd, rd, id))
			vs_fail("C12:never-sent", "the request never reached the replier");
		// the first copy is ignored; a second one must come after RESENDTIME
		int seen = 0;
		for (int t = 0; t < 40 && !seen; t++) {
			vs_sleep(5);
			vs_settle();
			seen = rr_next_req(fd, rd, id);
		}
		vs_nontrivial();
		if (!seen)
			vs_fail("C12:no-retransmit-after-resendtime",
			    "a request sent while the retry timer ticked on an empty queue was written "
			    "once and never again within %lld ms (RESENDTIME 100, tick 10)",
			    (long long) (vs_now() - t0));
		vs_outcome("tick-race resend after %lld", (long long) (vs_now() - t0));
		nng_ctx_close(b);
		close(fd);
	}
	free(rd);
	nng_socket_close(rr_s);
	vh_fini();
}

static void
explore(const scn *sc)
{
	vx_cfg c;
	memset(&c, 0, sizeof(c));
	c.prop     = "C12";
	c.scenario = sc->name;
	c.run      = run_retry;
	c.arg      = (void *) sc;
	for (int i = 0; i < VB_NB; i++)
		c.budget[i] = 0;
	c.budget[VB_ENV] = -1;
	c.total          = 0;
	c.watchdog_s     = 30;
	vx_explore(&c, NULL);
}

int
main(int argc, char **argv)
{
	vx_init(argc, argv, "C12");
	int        T    = vx_is_thorough();
	static const int P_MOVED[] = { F3_READ_SILENT_ADD, F1_READ_CLOSE_HOLDER };
	static scn SC[] = {
		{ "sock-resend100", 1, { RESEND, 0 } },
		{ "2ctx-resend100", 2, { RESEND, RESEND } },
		{ "sock-infinite", 1, { -1, 0 } },
		{ "2ctx-100+infinite", 2, { RESEND, -1 } },
		{ "2ctx-infinite", 2, { -1, -1 } },
		{ "2ctx-infinite+100", 2, { -1, RESEND } },
		{ "2ctx-resend100-big", 2, { RESEND, RESEND }, 1 },
		{ "2ctx-resend100-sock60s", 2, { RESEND, RESEND }, 0, 1 },
		// seeded: a second replier appeared and the connection that carried request A was lost, so
		// A has already moved to the second connection once when the enumerated faults begin
		{ "sock-resend100-moved-once", 1, { RESEND, 0 }, 0, 0, P_MOVED, 2 },
		{ "2ctx-resend100-moved-once", 2, { RESEND, RESEND }, 0, 0, P_MOVED, 2 },
	};
	static int full[F_NLETTER];
	for (int i = 0; i < F_NLETTER; i++)
		full[i] = i;
	g_map   = full;
	g_nmap  = F_NLETTER;
	g_depth = T ? 3 : 2;
	for (int i = 0; i < (int) (sizeof(SC) / sizeof(SC[0])); i++) {
		if (vx_time_left() < 30)
			break;
		explore(&SC[i]);
	}
	if (T) {
		// one fault more over the connection-loss / silence core of the alphabet
		static const int core[] = { F_END, F1_READ_CLOSE_ALL,
			F1_READ_CLOSE_HOLDER, F2_CLOSE_UNREAD, F3_READ_SILENT_ADD,
			F4_GARBAGE, F5_DELAY50, F5_DELAY150 };
		static scn D4[] = {
			{ "d4core-2ctx-resend100", 2, { RESEND, RESEND } },
			{ "d4core-2ctx-100+infinite", 2, { RESEND, -1 } },
		};
		g_map   = core;
		g_nmap  = 8;
		g_depth = 4;
		for (int i = 0; i < 2; i++)
			if (vx_time_left() > 500)
				explore(&D4[i]);
		vx_note("depth4", "7 letter core alphabet (F1all F1holder F2 F3+conn "
		                  "F4garbage D50 D150), all sequences of <= 4 faults");
		g_depth = 3;
	}
	vx_note("alphabet",
	    "%d fault letters (F1 read+close all/holder, F2 close unread, F3 silent "
	    "(+2nd replier), F4 wrong id unknown/stale/no-bit/garbage, D50, D150, "
	    "stall150, F6 nobody150) + end; all sequences of <= %d faults x "
	    "{recv timeout inf,2000,250} x {connected,unconnected at send}; fair "
	    "suffix; RESENDTIME %d tick %d; bounds: resend %d ms, after-loss %d ms",
	    F_NLETTER - 1, g_depth, RESEND, TICK, RESEND_BOUND, PROMPT_BOUND);
	for (int k = 0; k < 2; k++) {
		vx_cfg c2;
		memset(&c2, 0, sizeof(c2));
		c2.prop     = "C12";
		c2.scenario = k ? "race-tick-empty-queue-send" : "race-loss-at-send-completion";
		c2.run      = run_retryrace;
		c2.arg      = (void *) (intptr_t) k;
		c2.budget[VB_PREEMPT] = vx_is_thorough() ? 2 : 1;
		c2.budget[VB_SWITCH]  = 2;
		c2.budget[VB_TIMER]   = 1;
		c2.budget[VB_ENV]     = -1;
		c2.total              = 2;
		vx_explore(&c2, NULL);
	}
	return vx_finish();
}
