// C10 - close always terminates, completes everything, invalidates handles.
// Preemption-bounded exploration of close racing with pending / concurrently
// issued operations, for every protocol.  Deadlock (no enabled thread),
// livelock and hangs are engine verdicts; the harness checks that every
// pending operation returned, that close returned, and that the closed handle
// and every derived handle are dead afterwards.  The accounting allocator
// checks that teardown returned all memory.
#define _GNU_SOURCE
#include "valloc.h"
#include "vpeer.h"
#include "vs.h"
#include <arpa/inet.h>
#include <errno.h>
#include <fcntl.h>
#include <netinet/in.h>
#include <pthread.h>
#include <sys/socket.h>
#include <sys/un.h>
#include <stdlib.h>
#include <string.h>
#include <unistd.h>

typedef int (*open_fn)(nng_socket *);
static const struct {
	const char *name;
	open_fn     open, peer;
	int         can_recv, can_send, ctx;
	uint16_t    rawpeer;
} P[] = {
	{ "pair0", nng_pair0_open, nng_pair0_open, 1, 1, 0, SP_PAIR0 },
	{ "pair1", nng_pair1_open, nng_pair1_open, 1, 1, 0, SP_PAIR1 },
	{ "push", nng_push0_open, nng_pull0_open, 0, 1, 0, SP_PULL },
	{ "pull", nng_pull0_open, nng_push0_open, 1, 0, 0, SP_PUSH },
	{ "pub", nng_pub0_open, nng_sub0_open, 0, 1, 0, SP_SUB },
	{ "sub", nng_sub0_open, nng_pub0_open, 1, 0, 1, SP_PUB },
	{ "req", nng_req0_open, nng_rep0_open, 1, 1, 1, SP_REP },
	{ "rep", nng_rep0_open, nng_req0_open, 1, 1, 1, SP_REQ },
	{ "surveyor", nng_surveyor0_open, nng_respondent0_open, 1, 1, 1,
	    SP_RESPONDENT },
	{ "respondent", nng_respondent0_open, nng_surveyor0_open, 1, 1, 1,
	    SP_SURVEYOR },
	{ "bus", nng_bus0_open, nng_bus0_open, 1, 1, 0, SP_BUS },
	{ "xreq", nng_req0_open_raw, nng_rep0_open, 1, 1, 0, SP_REP },
	{ "xrep", nng_rep0_open_raw, nng_req0_open, 1, 1, 0, SP_REQ },
};
#define NP ((int) (sizeof(P) / sizeof(P[0])))

enum {
	W_SOCK_CLOSE,   // close(S) vs pending ops
	W_SOCK_CLOSE2,  // two concurrent close(S)
	W_CTX_CLOSE,    // ctx close vs pending ctx recv
	W_PIPE_CLOSE,   // nng_pipe_close vs pending recv
	W_EP_CLOSE,     // dialer/listener close vs pending ops
	W_ISSUE,        // ops ISSUED concurrently with close (not yet pending)
	W_NEGO,         // raw peer connected but silent (negotiating pipe)
	W_CTXOP,        // short ctx calls (transient references) racing close
	W_N
};
static const char *WN[] = { "sockclose", "sockclose2", "ctxclose", "pipeclose",
	"epclose", "issue", "nego", "ctxop" };

typedef struct carg {
	int proto, what;
	int tran; // 0 inproc, 1 ipc, 2 tcp, 3 ws: the peer is connected over this transport
} carg;
static const char *CTN[] = { "inproc", "ipc", "tcp", "ws" };

static nng_socket S, PEER;
static nng_ctx    CTX;
static nng_pipe   PIPE;
static int        have_pipe;
static int        rv_recv, rv_send, rv_close1, rv_close2, rv_ctx;
static int        done_recv, done_send, done_ctx, done_close, seqno;

static void
pipe_cb(nng_pipe p, nng_pipe_ev ev, void *arg)
{
	(void) arg;
	if (ev == NNG_PIPE_EV_ADD_POST && !have_pipe) {
		PIPE      = p;
		have_pipe = 1;
	}
}

static void *
t_recv(void *a)
{
	(void) a;
	nng_msg *m = NULL;
	rv_recv    = nng_recvmsg(S, &m, 0);
	if (rv_recv == 0)
		nng_msg_free(m);
	done_recv = ++seqno;
	return NULL;
}
static void *
t_send(void *a)
{
	(void) a;
	nng_msg *m = NULL;
	if (nng_msg_alloc(&m, 4) != 0)
		vs_fail("harness:setup", "msg alloc");
	rv_send = nng_sendmsg(S, m, 0);
	if (rv_send != 0)
		nng_msg_free(m);
	done_send = ++seqno;
	return NULL;
}
static void *
t_ctxrecv(void *a)
{
	(void) a;
	nng_msg *m = NULL;
	rv_ctx     = nng_ctx_recvmsg(CTX, &m, 0);
	if (rv_ctx == 0)
		nng_msg_free(m);
	done_ctx = ++seqno;
	return NULL;
}
static int rv_ctxop;
static void *
t_ctxop(void *a)
{
	(void) a;
	// short context calls: each holds a transient reference on the context
	nng_duration d;
	for (int i = 0; i < 2; i++) {
		rv_ctxop = nng_ctx_get_ms(CTX, NNG_OPT_RECVTIMEO, &d);
		if (rv_ctxop != 0)
			break;
	}
	return NULL;
}
// opening (and closing) a further context: the new context must either be refused or be fully
// owned by the caller - never left behind on a socket that is being closed
static void *
t_ctxopen(void *a)
{
	(void) a;
	nng_ctx c2;
	rv_ctxop = nng_ctx_open(&c2, S);
	if (rv_ctxop == 0) {
		int rv = nng_ctx_close(c2);
		if (rv != 0 && rv != NNG_ECLOSED && rv != NNG_ENOENT)
			vs_fail("C10:close-result", "nng_ctx_close of a fresh context -> %d", rv);
	}
	return NULL;
}
static void *
t_close(void *a)
{
	int *rv = a;
	*rv     = nng_socket_close(S);
	if (!done_close)
		done_close = ++seqno;
	return NULL;
}
static void *
t_ctxclose(void *a)
{
	int *rv = a;
	*rv     = nng_ctx_close(CTX);
	return NULL;
}
static void *
t_pipeclose(void *a)
{
	int *rv = a;
	*rv     = nng_pipe_close(PIPE);
	return NULL;
}
static nng_dialer   DL;
static nng_listener LS;
static void *
t_epclose(void *a)
{
	int *rv = a;
	*rv     = nng_listener_close(LS);
	return NULL;
}

static void
dead(const char *what, int rv)
{
	if (rv != NNG_ECLOSED && rv != NNG_ENOENT)
		vs_fail("C10:handle-alive",
		    "%s after close returned %d (%s), want ECLOSED/ENOENT", what, rv,
		    nng_strerror(rv));
}

static void
run_close(void *arg)
{
	carg *c = arg;
	int   p = c->proto;
	vh_init(1);
	have_pipe = 0;
	done_recv = done_send = done_ctx = done_close = seqno = 0;
	rv_recv = rv_send = rv_ctx = rv_close1 = rv_close2 = -1;
	VH_OK(P[p].open(&S));
	VH_OK(nng_pipe_notify(S, NNG_PIPE_EV_ADD_POST, pipe_cb, NULL));
	// W_CTXOP runs on a bare socket (no pipe): close then never has to wait
	// for the reaper, which is what lets it overtake a releasing thread
	int with_peer = (c->what != W_NEGO && c->what != W_CTXOP);
	int rawfd     = -1;
	char url[200], path[160] = "";
	if (c->tran >= 2)
		vs_tcp_grace_us = 1500;
	if (c->tran == 0) {
		snprintf(url, sizeof(url), "inproc://c10-%s", P[p].name);
		VH_OK(nng_listen(S, url, &LS, 0));
	} else if (c->tran == 1) {
		snprintf(path, sizeof(path), "%s/c10-%d", vx_rundir(), (int) getpid());
		snprintf(url, sizeof(url), "ipc://%s", path);
		VH_OK(nng_listen(S, url, &LS, 0));
	} else {
		int port = 0;
		VH_OK(nng_listen(S, c->tran == 2 ? "tcp://127.0.0.1:0" : "ws://127.0.0.1:0/c10", &LS, 0));
		VH_OK(nng_listener_get_int(LS, NNG_OPT_BOUND_PORT, &port));
		snprintf(url, sizeof(url), c->tran == 2 ? "tcp://127.0.0.1:%d" : "ws://127.0.0.1:%d/c10",
		    port);
	}
	if (with_peer) {
		VH_OK(P[p].peer(&PEER));
		VH_OK(nng_dial(PEER, url, &DL, 0));
	} else if (c->what == W_NEGO) {
		nng_listener l2;
		rawfd = vp_attach(S, &l2); // connected, but never says a word
	}
	if (P[p].ctx)
		VH_OK(nng_ctx_open(&CTX, S));
	if (strcmp(P[p].name, "sub") == 0)
		VH_OK(nng_sub0_socket_subscribe(S, "", 0));
	vs_settle();
	if (with_peer && !have_pipe)
		vs_fail("harness:setup", "%s: no pipe after dial", P[p].name);

	pthread_t tr, ts, tc, tk1, tk2, to;
	int       use_ctxop = 0;
	int       use_recv = P[p].can_recv, use_send = 0, use_ctx = 0;
	// a blocking send is only interesting where it can block
	if (P[p].can_send &&
	    (!strcmp(P[p].name, "push") || !strncmp(P[p].name, "pair", 4)))
		use_send = 1;
	if (P[p].ctx && (c->what == W_CTX_CLOSE || c->what == W_SOCK_CLOSE))
		use_ctx = strcmp(P[p].name, "req") != 0 &&
		    strcmp(P[p].name, "surveyor") != 0; // those need a send first
	if (c->what == W_CTX_CLOSE && !use_ctx) {
		vs_outcome("n/a");
		goto out;
	}
	if (c->what == W_CTXOP) {
		if (!P[p].ctx) {
			vs_outcome("n/a");
			goto out;
		}
		use_recv = use_send = use_ctx = 0;
		use_ctxop           = 1;
		int opener          = vs_choose(VK_ENV, 2);
		vs_window(1);
		pthread_create(&to, NULL, opener ? t_ctxopen : t_ctxop, NULL);
		pthread_create(&tk1, NULL, t_close, &rv_close1);
	} else if (c->what == W_ISSUE) {
		// operations are issued inside the window, racing with close
		vs_window(1);
		if (use_recv)
			pthread_create(&tr, NULL, t_recv, NULL);
		if (use_send)
			pthread_create(&ts, NULL, t_send, NULL);
		if (P[p].ctx) {
			use_ctxop = 1;
			pthread_create(&to, NULL, t_ctxop, NULL);
		}
		pthread_create(&tk1, NULL, t_close, &rv_close1);
	} else {
		if (use_recv)
			pthread_create(&tr, NULL, t_recv, NULL);
		if (use_send)
			pthread_create(&ts, NULL, t_send, NULL);
		if (use_ctx)
			pthread_create(&tc, NULL, t_ctxrecv, NULL);
		vs_settle(); // operations are now pending (or completed)
		vs_window(1);
		switch (c->what) {
		case W_CTX_CLOSE:
			pthread_create(&tk1, NULL, t_ctxclose, &rv_close1);
			break;
		case W_PIPE_CLOSE:
			pthread_create(&tk1, NULL, t_pipeclose, &rv_close1);
			break;
		case W_EP_CLOSE:
			pthread_create(&tk1, NULL, t_epclose, &rv_close1);
			break;
		case W_SOCK_CLOSE2:
			pthread_create(&tk1, NULL, t_close, &rv_close1);
			pthread_create(&tk2, NULL, t_close, &rv_close2);
			break;
		default:
			pthread_create(&tk1, NULL, t_close, &rv_close1);
			break;
		}
	}
	pthread_join(tk1, NULL);
	if (c->what == W_SOCK_CLOSE2)
		pthread_join(tk2, NULL);
	vs_window(0);
	if (c->what == W_CTX_CLOSE || c->what == W_PIPE_CLOSE ||
	    c->what == W_EP_CLOSE) {
		// the socket itself is still open: these closes must not strand the
		// socket-level waiters for ever; closing the socket now must still
		// release them
		if (rv_close1 != 0)
			vs_fail("C10:close-result", "%s/%s: close returned %d",
			    P[p].name, WN[c->what], rv_close1);
		if (c->what == W_CTX_CLOSE) {
			pthread_join(tc, NULL);
			use_ctx = 0;
			if (rv_ctx != NNG_ECLOSED && rv_ctx != 0)
				vs_fail("C10:pending-result",
				    "%s: ctx recv finished with %d after ctx close",
				    P[p].name, rv_ctx);
			nng_msg *m = NULL;
			dead("nng_ctx_recvmsg", nng_ctx_recvmsg(CTX, &m, NNG_FLAG_NONBLOCK));
			dead("nng_ctx_close", nng_ctx_close(CTX));
		}
		if (c->what == W_EP_CLOSE)
			dead("nng_listener_close", nng_listener_close(LS));
		if (c->what == W_PIPE_CLOSE) {
			vs_settle();
			int rv = nng_pipe_close(PIPE);
			if (rv != 0 && rv != NNG_ENOENT && rv != NNG_ECLOSED)
				vs_fail("C10:handle-alive", "pipe close #2 -> %d", rv);
		}
		rv_close1 = nng_socket_close(S);
	}
	if (use_recv)
		pthread_join(tr, NULL);
	if (use_send)
		pthread_join(ts, NULL);
	if (use_ctx)
		pthread_join(tc, NULL);
	if (use_ctxop) {
		pthread_join(to, NULL);
		if (rv_ctxop != 0 && rv_ctxop != NNG_ECLOSED && rv_ctxop != NNG_ENOENT)
			vs_fail("C10:pending-result", "%s: ctx option call -> %d",
			    P[p].name, rv_ctxop);
	}
	// ---- oracle ----
	if (rv_close1 != 0 && !(c->what == W_SOCK_CLOSE2 && rv_close1 == NNG_ECLOSED))
		vs_fail("C10:close-result", "%s/%s: socket close returned %d",
		    P[p].name, WN[c->what], rv_close1);
	if (c->what == W_SOCK_CLOSE2) {
		if (rv_close2 != 0 && rv_close2 != NNG_ECLOSED)
			vs_fail("C10:close-result", "second close returned %d",
			    rv_close2);
		if (rv_close1 != 0 && rv_close2 != 0)
			vs_fail("C10:close-result", "both closes failed (%d,%d)",
			    rv_close1, rv_close2);
	}
	if (use_recv && rv_recv != NNG_ECLOSED && rv_recv != 0 &&
	    rv_recv != NNG_ECONNRESET && rv_recv != NNG_ESTATE &&
	    rv_recv != NNG_ECANCELED)
		vs_fail("C10:pending-result", "%s: pending recv finished with %d (%s)",
		    P[p].name, rv_recv, nng_strerror(rv_recv));
	if (use_send && rv_send != NNG_ECLOSED && rv_send != 0 &&
	    rv_send != NNG_ECANCELED)
		vs_fail("C10:pending-result", "%s: pending send finished with %d (%s)",
		    P[p].name, rv_send, nng_strerror(rv_send));
	// the closed socket and everything derived from it are dead
	{
		nng_msg *m = NULL;
		int      v;
		dead("nng_recvmsg", nng_recvmsg(S, &m, NNG_FLAG_NONBLOCK));
		dead("nng_socket_get_int", nng_socket_get_int(S, NNG_OPT_RECVBUF, &v));
		dead("nng_socket_close", nng_socket_close(S));
		if (c->what != W_EP_CLOSE)
			dead("nng_listener_close", nng_listener_close(LS));
		if (P[p].ctx && c->what != W_CTX_CLOSE) {
			dead("nng_ctx_recvmsg",
			    nng_ctx_recvmsg(CTX, &m, NNG_FLAG_NONBLOCK));
			dead("nng_ctx_close", nng_ctx_close(CTX));
		}
		if (have_pipe) {
			vs_settle();
			dead("nng_pipe_close", nng_pipe_close(PIPE));
		}
		nng_listener l3;
		dead("nng_listen", nng_listen(S, "inproc://c10-again", &l3, 0));
	}
	vs_outcome("%s r=%d s=%d c=%d k=%d/%d order r%d s%d c%d k%d", WN[c->what],
	    rv_recv, rv_send, rv_ctx, rv_close1, rv_close2, done_recv, done_send,
	    done_ctx, done_close);
out:
	if (c->what == W_CTX_CLOSE && !(P[p].ctx && 1))
		;
	if (rawfd >= 0)
		close(rawfd);
	if (with_peer)
		nng_socket_close(PEER);
	(void) nng_socket_close(S);
	if (path[0])
		unlink(path);
	vh_fini();
}

// ---- the same derived handle closed by two threads at once --------------------------------------
// S listens (LS), PEER dials (DL), a context is open on S where the protocol has them, one pipe is
// up.  Two threads call the close function of the SAME handle (context / listener / dialer / pipe)
// concurrently - one of them may also be a short option call that takes a transient reference.
// Both calls must return, at least one with 0, the other with 0, NNG_ECLOSED or NNG_ENOENT; the
// handle is dead afterwards; and the owning socket can still be closed (a reference leaked by the
// losing closer would hang that close: deadlock verdict) with all memory returned.
enum { D_CTX, D_LISTENER, D_DIALER, D_PIPE, D_N };
static const char *DN[] = { "ctx", "listener", "dialer", "pipe" };
static int         d_obj;
static void *
t_dclose(void *a)
{
	int *rv = a;
	switch (d_obj) {
	case D_CTX:
		*rv = nng_ctx_close(CTX);
		break;
	case D_LISTENER:
		*rv = nng_listener_close(LS);
		break;
	case D_DIALER:
		*rv = nng_dialer_close(DL);
		break;
	default:
		*rv = nng_pipe_close(PIPE);
		break;
	}
	return NULL;
}
static void *
t_dtouch(void *a)
{
	int         *rv = a;
	nng_duration d;
	const nng_url *u;
	const char    *sch;
	switch (d_obj) {
	case D_CTX:
		*rv = nng_ctx_get_ms(CTX, NNG_OPT_RECVTIMEO, &d);
		break;
	case D_LISTENER:
		*rv = nng_listener_get_url(LS, &u);
		break;
	case D_DIALER:
		*rv = nng_dialer_get_ms(DL, NNG_OPT_RECONNMINT, &d);
		break;
	default:
		*rv = nng_pipe_get_scheme(PIPE, &sch);
		break;
	}
	return NULL;
}
static void *
t_downer(void *a)
{
	int *rv = a;
	*rv     = nng_socket_close(d_obj == D_DIALER ? PEER : S);
	return NULL;
}
static void
run_double(void *arg)
{
	int p = (int) (intptr_t) arg;
	vh_init(1);
	have_pipe = 0;
	VH_OK(P[p].open(&S));
	VH_OK(nng_pipe_notify(S, NNG_PIPE_EV_ADD_POST, pipe_cb, NULL));
	char url[64];
	snprintf(url, sizeof(url), "inproc://c10d-%s", P[p].name);
	VH_OK(nng_listen(S, url, &LS, 0));
	VH_OK(P[p].peer(&PEER));
	VH_OK(nng_dial(PEER, url, &DL, 0));
	if (P[p].ctx)
		VH_OK(nng_ctx_open(&CTX, S));
	vs_settle();
	if (!have_pipe)
		vs_fail("harness:setup", "%s: no pipe after dial", P[p].name);
	d_obj = vs_choose(VK_ENV, D_N);
	if (d_obj == D_CTX && !P[p].ctx) {
		vs_outcome("n/a");
		nng_socket_close(PEER);
		nng_socket_close(S);
		vh_fini();
		return;
	}
	int second = vs_choose(VK_ENV, 3); // 0: a second close, 1: a short call on the handle, 2: the owning socket is closed
	int r1 = -1, r2 = -1;
	pthread_t t1, t2;
	vs_window(1);
	pthread_create(&t1, NULL, t_dclose, &r1);
	pthread_create(&t2, NULL, second == 2 ? t_downer : second ? t_dtouch : t_dclose, &r2);
	pthread_join(t1, NULL);
	pthread_join(t2, NULL);
	vs_window(0);
	vs_settle();
	int ok1 = r1 == 0 || r1 == NNG_ECLOSED || r1 == NNG_ENOENT;
	int ok2 = r2 == 0 || r2 == NNG_ECLOSED || r2 == NNG_ENOENT;
	if (second == 2) {
		// the socket's close must succeed; the handle's own close may have lost the race
		if (r2 != 0 || !ok1)
			vs_fail("C10:close-result",
			    "%s: %s close racing the close of its socket: results %d (handle) and %d "
			    "(socket)",
			    P[p].name, DN[d_obj], r1, r2);
	} else if (!ok1 || !ok2 || (r1 != 0 && (second || r2 != 0)))
		vs_fail("C10:close-result",
		    "%s: %s closed by two threads at once: results %d and %d (%s)",
		    P[p].name, DN[d_obj], r1, r2, second ? "close + option call" : "two closes");
	int r3 = -1;
	t_dclose(&r3);
	dead(DN[d_obj], r3);
	vs_outcome("%s %s r=%d/%d", DN[d_obj], second == 2 ? "owner" : second ? "touch" : "close", r1, r2);
	// a leaked reference shows here: the owner's close waits for the object for ever
	int rp = nng_socket_close(PEER);
	int rs = nng_socket_close(S);
	if (second == 2) { // one of them is closed already
		if (d_obj == D_DIALER)
			rp = rp == NNG_ECLOSED ? 0 : (rp ? rp : -1);
		else
			rs = rs == NNG_ECLOSED ? 0 : (rs ? rs : -1);
	}
	if (rp != 0 || rs != 0)
		vs_fail("C10:close-result", "%s: socket closes after a double %s close -> %d, %d",
		    P[p].name, DN[d_obj], rp, rs);
	vh_fini();
}

// ---- an endpoint is closed while its connection is still being negotiated -------------------------------
// listener side: a raw peer has connected (ipc / tcp / socket://) and says nothing, or has sent half
// of its handshake: the pipe sits in the transport's negotiation.  dialer side: the socket's own
// dialer has connected to a raw listener of the harness that accepts and stays silent.  Then the
// endpoint - not the socket - is closed (every schedule within the budget), optionally while the
// peer sends the rest of its handshake at that very moment; the close returns, the handle is dead,
// no pipe event appears afterwards, and the socket closes with all memory returned.
static int en_events;
static void
en_cb(nng_pipe p, nng_pipe_ev ev, void *arg)
{
	(void) p;
	(void) ev;
	(void) arg;
	en_events++;
}
static int       en_rv;
static int       en_side;
static int       en_start, en_start_rv;
static pthread_t en_thr;
static nng_aio  *en_aio;
static void *
t_enstart(void *a)
{
	(void) a;
	en_start_rv = nng_dialer_start(DL, 0);
	return NULL;
}
static void *
t_enclose(void *a)
{
	(void) a;
	en_rv = en_side ? nng_dialer_close(DL) : nng_listener_close(LS);
	return NULL;
}
static void
run_epnego(void *arg)
{
	int tran = (int) (intptr_t) arg & 3; // 0 socket://, 1 ipc, 2 tcp, 3 ws (dialer side only)
	en_side  = ((int) (intptr_t) arg >> 2) & 1; // 0 listener, 1 dialer
	en_start = 0;
	en_aio   = NULL;
	if (tran >= 2)
		vs_tcp_grace_us = 1500;
	vh_init(1);
	en_events = 0;
	VH_OK(nng_pair0_open(&S));
	for (int ev = NNG_PIPE_EV_ADD_PRE; ev <= NNG_PIPE_EV_REM_POST; ev++)
		VH_OK(nng_pipe_notify(S, ev, en_cb, NULL));
	char path[160] = "", url[200];
	int  fd = -1, lfd = -1, port = 0;
	snprintf(path, sizeof(path), "%s/c10en-%d", vx_rundir(), (int) getpid());
	if (!en_side) {
		if (tran == 0) {
			fd = vp_attach(S, &LS);
		} else if (tran == 1) {
			snprintf(url, sizeof(url), "ipc://%s", path);
			VH_OK(nng_listen(S, url, &LS, 0));
			struct sockaddr_un sa;
			memset(&sa, 0, sizeof(sa));
			sa.sun_family = AF_UNIX;
			snprintf(sa.sun_path, sizeof(sa.sun_path), "%s", path);
			fd = socket(AF_UNIX, SOCK_STREAM, 0);
			if (connect(fd, (struct sockaddr *) &sa, sizeof(sa)) != 0)
				vs_fail("harness:peer", "ipc connect");
		} else {
			VH_OK(nng_listen(S, "tcp://127.0.0.1:0", &LS, 0));
			VH_OK(nng_listener_get_int(LS, NNG_OPT_BOUND_PORT, &port));
			struct sockaddr_in sa;
			memset(&sa, 0, sizeof(sa));
			sa.sin_family      = AF_INET;
			sa.sin_port        = htons((uint16_t) port);
			sa.sin_addr.s_addr = htonl(INADDR_LOOPBACK);
			fd                 = socket(AF_INET, SOCK_STREAM, 0);
			if (connect(fd, (struct sockaddr *) &sa, sizeof(sa)) != 0)
				vs_fail("harness:peer", "tcp connect");
		}
	} else {
		// a raw listener of the harness; the socket's dialer connects in the background
		if (tran == 1) {
			struct sockaddr_un sa;
			memset(&sa, 0, sizeof(sa));
			sa.sun_family = AF_UNIX;
			snprintf(sa.sun_path, sizeof(sa.sun_path), "%s", path);
			lfd = socket(AF_UNIX, SOCK_STREAM, 0);
			if (bind(lfd, (struct sockaddr *) &sa, sizeof(sa)) != 0 || listen(lfd, 4) != 0)
				vs_fail("harness:peer", "raw ipc listener");
			snprintf(url, sizeof(url), "ipc://%s", path);
		} else {
			struct sockaddr_in sa;
			socklen_t          sl = sizeof(sa);
			memset(&sa, 0, sizeof(sa));
			sa.sin_family      = AF_INET;
			sa.sin_addr.s_addr = htonl(INADDR_LOOPBACK);
			lfd                = socket(AF_INET, SOCK_STREAM, 0);
			if (bind(lfd, (struct sockaddr *) &sa, sizeof(sa)) != 0 || listen(lfd, 4) != 0 ||
			    getsockname(lfd, (struct sockaddr *) &sa, &sl) != 0)
				vs_fail("harness:peer", "raw tcp listener");
			snprintf(url, sizeof(url), tran == 3 ? "ws://127.0.0.1:%d/c10" : "tcp://127.0.0.1:%d",
			    ntohs(sa.sin_port));
		}
		fcntl(lfd, F_SETFL, fcntl(lfd, F_GETFL) | O_NONBLOCK);
		// how the dial was started: in the background, by a thread blocked in
		// nng_dialer_start, or through nng_dialer_start_aio - the last two must be
		// released by the close
		en_start = vs_choose(VK_ENV, 3);
		VH_OK(nng_dialer_create(&DL, S, url));
		if (en_start == 0)
			VH_OK(nng_dialer_start(DL, NNG_FLAG_NONBLOCK));
		else if (en_start == 1)
			pthread_create(&en_thr, NULL, t_enstart, NULL);
		else {
			VH_OK(nng_aio_alloc(&en_aio, NULL, NULL));
			nng_dialer_start_aio(DL, NNG_FLAG_NONBLOCK, en_aio);
		}
		for (int t = 0; t < 20 && fd < 0; t++) {
			vs_settle();
			fd = accept(lfd, NULL, NULL);
			if (fd < 0)
				vs_sleep(1);
		}
		if (fd < 0)
			vs_fail("harness:peer", "the dialer never connected");
	}
	fcntl(fd, F_SETFL, fcntl(fd, F_GETFL) | O_NONBLOCK);
	vs_settle();
	int half = tran == 3 ? 0 : vs_choose(VK_ENV, 3); // nothing sent / 4 bytes sent before / the rest arrives during the close
	static const uint8_t hs[8] = { 0, 'S', 'P', 0, 0, 0x10, 0, 0 };
	if (tran == 3) {
		// the websocket upgrade request has arrived and stays unanswered
		char req[1024];
		vs_sleep(1);
		(void) vp_read_avail(fd, req, sizeof(req));
	}
	if (half)
		(void) write(fd, hs, 4);
	vs_settle();
	pthread_t t;
	vs_window(1);
	pthread_create(&t, NULL, t_enclose, NULL);
	if (half == 2)
		(void) write(fd, hs + 4, 4);
	pthread_join(t, NULL);
	vs_settle();
	vs_window(0);
	if (en_rv != 0)
		vs_fail("C10:close-result", "%s close during negotiation -> %d",
		    en_side ? "dialer" : "listener", en_rv);
	if (en_side && en_start == 1) {
		pthread_join(en_thr, NULL); // (never released = deadlock verdict of the engine)
	}
	if (en_side && en_start == 2) {
		vs_sleep(20);
		vs_settle();
		if (nng_aio_busy(en_aio))
			vs_fail("C10:pending-after-close",
			    "nng_dialer_start_aio still pending 20 ms after nng_dialer_close returned");
		nng_aio_free(en_aio);
	}
	dead(en_side ? "nng_dialer_close" : "nng_listener_close",
	    en_side ? nng_dialer_close(DL) : nng_listener_close(LS));
	int before = en_events;
	vs_sleep(50);
	vs_settle();
	// a connection that completed its handshake in the same instant may have become a pipe
	// (then its events are ADD_PRE, ADD_POST in order); what may not happen is a pipe
	// appearing on a closed endpoint later on
	if (en_events != before)
		vs_fail("C10:handle-alive",
		    "%d pipe event(s) arrived more than a settle after the %s had been closed",
		    en_events - before, en_side ? "dialer" : "listener");
	vs_outcome("side=%d tran=%d half=%d events=%d", en_side, tran, half, en_events);
	close(fd);
	if (lfd >= 0)
		close(lfd);
	int rv = nng_socket_close(S);
	if (rv != 0)
		vs_fail("C10:close-result", "socket close -> %d", rv);
	unlink(path);
	vh_fini();
}

// ---- sets of aio operations pending at close (no threads) -------------------------
typedef struct pa {
	nng_aio *aio;
	int      ncb, res;
	const char *what;
} pa;
static void
pa_cb(void *arg)
{
	pa *x = arg;
	x->ncb++;
	x->res = nng_aio_result(x->aio);
}
static void
run_aioset(void *arg)
{
	int p = (int) (intptr_t) arg;
	vh_init(1);
	VH_OK(P[p].open(&S));
	int with_peer = vs_choose(VK_ENV, 2); // 0: no peer (sends wait), 1: peer
	char url[64];
	snprintf(url, sizeof(url), "inproc://c10a-%s", P[p].name);
	VH_OK(nng_listen(S, url, &LS, 0));
	if (with_peer) {
		VH_OK(P[p].peer(&PEER));
		VH_OK(nng_dial(PEER, url, &DL, 0));
	}
	if (P[p].ctx)
		VH_OK(nng_ctx_open(&CTX, S));
	vs_settle();
	pa  A[4];
	int na = 0;
	memset(A, 0, sizeof(A));
	// which operations, in which order (send before recv: REQ/SURVEYOR allow
	// a receive to be queued behind a send that has not completed yet)
	int ops = vs_choose(VK_ENV, 4); // bit0: socket-level ops, bit1: ctx-level ops
	if (!P[p].ctx)
		ops &= 1;
	for (int lvl = 0; lvl < 2; lvl++) {
		if (!(ops & (1 << lvl)))
			continue;
		for (int dir = 0; dir < 2; dir++) { // 0 send, 1 recv
			if ((dir == 0 && !P[p].can_send) || (dir == 1 && !P[p].can_recv))
				continue;
			pa *x   = &A[na++];
			x->what = lvl ? (dir ? "ctx recv" : "ctx send")
			              : (dir ? "socket recv" : "socket send");
			VH_OK(nng_aio_alloc(&x->aio, pa_cb, x));
			if (dir == 0) {
				nng_msg *m;
				VH_OK(nng_msg_alloc(&m, 3));
				nng_aio_set_msg(x->aio, m);
				if (lvl)
					nng_ctx_send(CTX, x->aio);
				else
					nng_socket_send(S, x->aio);
			} else {
				if (lvl)
					nng_ctx_recv(CTX, x->aio);
				else
					nng_socket_recv(S, x->aio);
			}
		}
	}
	vs_settle();
	int pending = 0;
	for (int i = 0; i < na; i++)
		if (A[i].ncb == 0)
			pending++;
	int how = vs_choose(VK_ENV, P[p].ctx ? 2 : 1); // 0 socket close, 1 ctx close first
	if (how == 1) {
		int rv = nng_ctx_close(CTX);
		if (rv != 0)
			vs_fail("C10:close-result", "%s: ctx close -> %d", P[p].name, rv);
		vs_settle();
		vs_sleep(5);
		for (int i = 0; i < na; i++)
			if (A[i].what[0] == 'c' && A[i].ncb == 0)
				vs_fail("C10:pending-after-close",
				    "%s (%s peer): %s still pending after nng_ctx_close "
				    "returned",
				    P[p].name, with_peer ? "with" : "no", A[i].what);
	}
	int rv = nng_socket_close(S);
	if (rv != 0)
		vs_fail("C10:close-result", "%s: socket close -> %d", P[p].name, rv);
	vs_settle();
	vs_sleep(5);
	for (int i = 0; i < na; i++) {
		if (A[i].ncb == 0)
			vs_fail("C10:pending-after-close",
			    "%s (%s peer): %s still pending after nng_socket_close "
			    "returned",
			    P[p].name, with_peer ? "with" : "no", A[i].what);
		if (A[i].ncb > 1)
			vs_fail("C10:double-completion", "%s: %s completed %d times",
			    P[p].name, A[i].what, A[i].ncb);
		if (A[i].res != 0 && A[i].what[strlen(A[i].what) - 4] == 's' &&
		    nng_aio_get_msg(A[i].aio) != NULL)
			nng_msg_free(nng_aio_get_msg(A[i].aio)); // failed send: ours
		if (A[i].res == 0 && A[i].what[strlen(A[i].what) - 4] == 'r' &&
		    nng_aio_get_msg(A[i].aio) != NULL)
			nng_msg_free(nng_aio_get_msg(A[i].aio));
		nng_aio_free(A[i].aio);
	}
	vs_outcome("peer=%d ops=%d how=%d pending=%d", with_peer, ops, how, pending);
	if (with_peer)
		nng_socket_close(PEER);
	vh_fini();
}

// ---- a context with a send AND a receive pending at the moment it (or its socket) is closed ------------------
// REP / RESPONDENT socket with two contexts and a raw peer that never reads: context 1 answers with 2 MB (the
// connection stays busy writing it), context 2's answer waits behind it, context 2 also enters its next
// receive.  Then context 2, or the whole socket, is closed (by the harness thread or racing a second thread
// that cancels nothing but looks at the handles): both operations of context 2 complete, once each.
static struct {
	nng_aio *aio;
	int      ncb, res;
} CB[4];
static void
cb_cb(void *arg)
{
	int i = (int) (intptr_t) arg;
	CB[i].ncb++;
	CB[i].res = nng_aio_result(CB[i].aio);
}
static nng_ctx    cb_ctx[2];
static nng_socket cb_sock;
static void *
t_cb_closer(void *a)
{
	if ((intptr_t) a == 0)
		nng_ctx_close(cb_ctx[1]);
	else
		nng_socket_close(cb_sock);
	return NULL;
}
static void
run_ctxboth(void *arg)
{
	int resp = (int) (intptr_t) arg & 1;
	int what = vs_choose(VK_ENV, 2); // 0 close the context, 1 close the socket
	vh_init(1);
	nng_listener l;
	VH_OK(resp ? nng_respondent0_open(&cb_sock) : nng_rep0_open(&cb_sock));
	int fd = vp_connect_raw(cb_sock, resp ? SP_SURVEYOR : SP_REQ, &l);
	if (fd < 0)
		vs_fail("harness:setup", "raw peer could not connect");
	for (int i = 0; i < 2; i++)
		VH_OK(nng_ctx_open(&cb_ctx[i], cb_sock));
	memset(CB, 0, sizeof(CB));
	for (int i = 0; i < 4; i++)
		VH_OK(nng_aio_alloc(&CB[i].aio, cb_cb, (void *) (intptr_t) i));
	uint8_t h1[4], h2[4];
	vp_put32(h1, 0x80000001u);
	vp_put32(h2, 0x80000002u);
	// request 1 -> context 1, which answers with 2 MB that the peer does not read
	nng_ctx_recv(cb_ctx[0], CB[0].aio);
	vp_send(fd, h1, 4, "q1", 2);
	vs_settle();
	if (CB[0].ncb != 1 || CB[0].res != 0)
		vs_fail("harness:setup", "context 1 did not get request 1");
	nng_msg *m = nng_aio_get_msg(CB[0].aio);
	nng_msg_clear(m);
	VH_OK(nng_msg_realloc(m, 2u << 20));
	nng_aio_set_msg(CB[0].aio, m);
	nng_ctx_send(cb_ctx[0], CB[0].aio);
	vs_settle();
	// request 2 -> context 2, whose answer has to wait
	nng_ctx_recv(cb_ctx[1], CB[1].aio);
	vp_send(fd, h2, 4, "q2", 2);
	vs_settle();
	if (CB[1].ncb != 1 || CB[1].res != 0)
		vs_fail("harness:setup", "context 2 did not get request 2");
	m = nng_aio_get_msg(CB[1].aio);
	nng_aio_set_msg(CB[2].aio, m);
	nng_ctx_send(cb_ctx[1], CB[2].aio);
	vs_settle();
	nng_ctx_recv(cb_ctx[1], CB[3].aio);
	vs_settle();
	int both = nng_aio_busy(CB[2].aio) && nng_aio_busy(CB[3].aio);
	int sendp = nng_aio_busy(CB[2].aio), recvp = nng_aio_busy(CB[3].aio);
	pthread_t th;
	vs_window(1);
	pthread_create(&th, NULL, t_cb_closer, (void *) (intptr_t) what);
	pthread_join(th, NULL);
	vs_window(0);
	vs_settle();
	vs_sleep(100);
	vs_settle();
	static const char *ON[] = { "", "", "send", "receive" };
	for (int i = 2; i < 4; i++) {
		if ((i == 2 ? sendp : recvp) && (nng_aio_busy(CB[i].aio) || CB[i].ncb == 0))
			vs_fail("C10:pending-after-close",
			    "%s context with a waiting send and a pending receive: 100 ms after %s returned its %s "
			    "is still pending",
			    resp ? "RESPONDENT" : "REP", what ? "nng_socket_close" : "nng_ctx_close", ON[i]);
		if (CB[i].ncb > 1)
			vs_fail("C10:double-completion", "%s of the closed context completed %d times", ON[i],
			    CB[i].ncb);
		if ((i == 2 ? sendp : recvp) && CB[i].res == 0 && i == 3)
			vs_fail("C10:pending-after-close", "receive on the closed context completed with success");
	}
	if (CB[2].res != 0 && nng_aio_get_msg(CB[2].aio) != NULL) {
		nng_msg_free(nng_aio_get_msg(CB[2].aio)); // a failed send leaves the message with the caller
		nng_aio_set_msg(CB[2].aio, NULL);
	}
	vs_outcome("%s %s both=%d send=%d recv=%d", resp ? "resp" : "rep", what ? "sock" : "ctx", both, CB[2].res,
	    CB[3].res);
	if (!what) { // the closed context is dead, its sibling still works as a handle
		nng_duration dur;
		int          rv = nng_ctx_get_ms(cb_ctx[1], NNG_OPT_RECVTIMEO, &dur);
		if (rv != NNG_ECLOSED && rv != NNG_ENOENT)
			vs_fail("C10:handle-alive", "option call on the closed context -> %d (%s)", rv, nng_strerror(rv));
	}
	close(fd);
	if (!what)
		nng_socket_close(cb_sock);
	for (int i = 0; i < 4; i++)
		nng_aio_free(CB[i].aio);
	vh_fini();
}

int
main(int argc, char **argv)
{
	vx_init(argc, argv, "C10");
	int T = vx_is_thorough();
	static carg A[NP * W_N];
	int         na = 0;
	for (int w = 0; w < W_N; w++)
		for (int p = 0; p < NP; p++) {
			if ((w == W_CTX_CLOSE || w == W_CTXOP) && !P[p].ctx)
				continue;
			if (!T) {
				// quick: every protocol for plain close; the other
				// closers on a representative subset
				if (w != W_SOCK_CLOSE && !(p == 0 || p == 3 || p == 5 ||
				        p == 7 || p == 10 || p == 12))
					continue;
				if (w == W_CTXOP && p != 7)
					continue;
			}
			if (vx_time_left() < 15)
				break;
			carg *a  = &A[na++];
			a->proto = p;
			a->what  = w;
			char name[48];
			snprintf(name, sizeof(name), "%s-%s", WN[w], P[p].name);
			vx_cfg c;
			memset(&c, 0, sizeof(c));
			c.prop     = "C10";
			c.scenario = strdup(name);
			c.run      = run_close;
			c.arg      = a;
			for (int i = 0; i < VB_NB; i++)
				c.budget[i] = 0;
			c.budget[VB_PREEMPT] = (w == W_CTXOP || T) ? 2 : 1;
			c.budget[VB_SWITCH]  = (T || w == W_CTXOP) ? 2 : 1;
			c.budget[VB_WAKE1]   = 1;
			c.budget[VB_ENV]     = -1;
			c.total              = w == W_CTXOP ? 3 : T ? 2 : 1;
			c.deadline_s         = T ? (w == W_CTXOP ? 240 : 150) : (w == W_CTXOP ? 30 : 6);
			vx_explore(&c, NULL);
		}
	for (int v = 0; v < 8; v++) {
		int tr = v & 3, side = v >> 2;
		if ((tr == 3 && !side) || (side && tr == 0))
			continue;
		if (vx_time_left() < 15)
			break;
		static const char *EN[] = { "socketfd", "ipc", "tcp", "ws" };
		char name[64];
		snprintf(name, sizeof(name), "epnego-%s-%s", side ? "dialer" : "listener", EN[tr]);
		vx_cfg c;
		memset(&c, 0, sizeof(c));
		c.prop               = "C10";
		c.scenario           = strdup(name);
		c.run                = run_epnego;
		c.arg                = (void *) (intptr_t) v;
		c.budget[VB_PREEMPT] = T ? 2 : 1;
		c.budget[VB_SWITCH]  = T ? 2 : 1;
		c.budget[VB_ENV]     = -1;
		c.total              = T ? 2 : 1;
		c.deadline_s         = T ? 60 : 8;
		vx_explore(&c, NULL);
	}
	// the same closers with the peer connected over a stream transport (pipes with real
	// descriptors, pollers, negotiation and transport-level queues in the teardown)
	{
		static carg TA[64];
		int         nta = 0;
		static const int TW[] = { W_SOCK_CLOSE, W_PIPE_CLOSE, W_EP_CLOSE, W_ISSUE };
		static const int TP[] = { 0, 7, 2 }; // pair0, rep, push
		for (int tr = 1; tr <= 3; tr++)
			for (int wi = 0; wi < 4; wi++)
				for (int pi = 0; pi < 3; pi++) {
					if (!T && tr == 3)
						continue; // quick: ipc and tcp
					if (vx_time_left() < 15)
						break;
					carg *a  = &TA[nta++];
					a->proto = TP[pi];
					a->what  = TW[wi];
					a->tran  = tr;
					char name[64];
					snprintf(name, sizeof(name), "%s-%s-%s", WN[a->what], P[a->proto].name,
					    CTN[tr]);
					vx_cfg c;
					memset(&c, 0, sizeof(c));
					c.prop               = "C10";
					c.scenario           = strdup(name);
					c.run                = run_close;
					c.arg                = a;
					c.budget[VB_PREEMPT] = T ? 2 : 1;
					c.budget[VB_SWITCH]  = T ? 2 : 1;
					c.budget[VB_WAKE1]   = 1;
					c.budget[VB_ENV]     = -1;
					c.total              = T ? 2 : 1;
					c.deadline_s         = T ? 60 : 6;
					vx_explore(&c, NULL);
				}
	}
	for (int r = 0; r < 2; r++) {
		vx_cfg c;
		memset(&c, 0, sizeof(c));
		c.prop               = "C10";
		c.scenario           = r ? "ctxboth-respondent" : "ctxboth-rep";
		c.run                = run_ctxboth;
		c.arg                = (void *) (intptr_t) r;
		c.budget[VB_PREEMPT] = T ? 2 : 1;
		c.budget[VB_SWITCH]  = T ? 2 : 1;
		c.budget[VB_WAKE1]   = 1;
		c.budget[VB_ENV]     = -1;
		c.total              = T ? 2 : 1;
		c.deadline_s         = T ? 120 : 20;
		vx_explore(&c, NULL);
	}
	for (int p = 0; p < NP; p++) {
		if (vx_time_left() < 15)
			break;
		if (!T && !(p == 0 || p == 7)) // quick: pair0 (no contexts) and rep (contexts)
			continue;
		char name[48];
		snprintf(name, sizeof(name), "double-%s", P[p].name);
		vx_cfg c;
		memset(&c, 0, sizeof(c));
		c.prop     = "C10";
		c.scenario = strdup(name);
		c.run      = run_double;
		c.arg      = (void *) (intptr_t) p;
		c.budget[VB_PREEMPT] = T ? 2 : 1;
		c.budget[VB_SWITCH]  = T ? 2 : 1;
		c.budget[VB_WAKE1]   = 1;
		c.budget[VB_ENV]     = -1;
		c.total              = T ? 2 : 1;
		c.deadline_s         = T ? 150 : 20;
		vx_explore(&c, NULL);
	}
	for (int p = 0; p < NP; p++) {
		if (vx_time_left() < 15)
			break;
		char name[48];
		snprintf(name, sizeof(name), "aioset-%s", P[p].name);
		vx_cfg c;
		memset(&c, 0, sizeof(c));
		c.prop     = "C10";
		c.scenario = strdup(name);
		c.run      = run_aioset;
		c.arg      = (void *) (intptr_t) p;
		for (int i = 0; i < VB_NB; i++)
			c.budget[i] = 0;
		c.budget[VB_ENV] = -1;
		c.total          = 0;
		vx_explore(&c, NULL);
	}
	vx_note("scenarios",
	    "closer kinds %d x protocols %d; pending blocking recv/send/ctx-recv on "
	    "harness threads; budgets preempt %d, switch %d, wake1 1, total %d",
	    W_N, NP, T ? 2 : 1, T ? 2 : 1, T ? 2 : 1);
	return vx_finish();
}
