// C04 - REQ/REP matching.
//
// REQ side: a real REQ socket with two participants (two contexts, or the
// socket itself + one context) attached to ONE raw replier.  All letter
// sequences to depth d (from the initial state and from seeded non-initial
// states) are run against the reference state machine of DESIGN A.1:
//   a reply is delivered to participant c iff c has an outstanding request
//   with exactly that id that has not been answered yet; at most once; every
//   other reply (stale, superseded, cancelled, unknown, duplicate, malformed)
//   changes nothing for anybody; recv without request/reply and a second
//   concurrent recv fail with NNG_ESTATE.
// The harness reads the wire after every letter, so it always knows the ids
// the library really used ("peer.read" is folded into every letter: it has no
// effect on the library, a separate letter would only repeat states).
//
// REP side: a real REP socket with two participants and TWO raw requesters
// using identical request ids and hop words (forced collisions), backtraces
// of 0..2 extra hops; oracle of A.2: the reply appears exactly once, only on
// the connection of the request the participant received last, carrying that
// request's backtrace; send before recv and a second concurrent recv fail
// with NNG_ESTATE.
//
// A third, small schedule-exploration scenario races "reply for a request
// that is still queued behind a busy pipe" against the send completion.
#ifndef _GNU_SOURCE
#define _GNU_SOURCE
#endif
#include "vpeer.h"
#include "vs.h"
#include <pthread.h>
#include <stdlib.h>
#include <string.h>
#include <unistd.h>

// ---- aio slots (ledger of submissions / callbacks) ---------------------------
typedef struct slot {
	nng_aio *aio;
	int      sub;  // submissions
	int      ncb;  // callbacks
	int      seen; // callbacks already consumed by the oracle
	int      res;  // result of the last callback
	nng_msg *msg;  // message left in the aio by the last callback
} slot;

static void
slot_cb(void *arg)
{
	slot *s = arg;
	s->ncb++;
	s->res = (int) nng_aio_result(s->aio);
	if (s->msg != NULL)
		nng_msg_free(s->msg);
	s->msg = nng_aio_get_msg(s->aio);
	nng_aio_set_msg(s->aio, NULL);
}

static int
fresh(slot *s)
{
	return s->ncb > s->seen;
}
static void
consume(slot *s)
{
	s->seen = s->ncb;
	if (s->msg != NULL) {
		nng_msg_free(s->msg);
		s->msg = NULL;
	}
}

typedef struct part {
	int        is_sock;
	nng_socket s;
	nng_ctx    c;
	slot       snd, rcv, rcv2;
} part;
static part       PT[2];
static nng_socket SOCK;
static char       seq[700];
static int        g_eof; // a raw connection was closed by the library

static void
parts_open(nng_socket s, int variant)
{
	memset(PT, 0, sizeof(PT));
	SOCK = s;
	for (int c = 0; c < 2; c++) {
		part *p    = &PT[c];
		p->s       = s;
		p->is_sock = (variant == 1 && c == 0);
		if (!p->is_sock)
			VH_OK(nng_ctx_open(&p->c, s));
		VH_OK(nng_aio_alloc(&p->snd.aio, slot_cb, &p->snd));
		VH_OK(nng_aio_alloc(&p->rcv.aio, slot_cb, &p->rcv));
		VH_OK(nng_aio_alloc(&p->rcv2.aio, slot_cb, &p->rcv2));
	}
}

static void
parts_close(void)
{
	for (int c = 0; c < 2; c++)
		if (!PT[c].is_sock)
			nng_ctx_close(PT[c].c);
	nng_socket_close(SOCK);
	for (int c = 0; c < 2; c++) {
		slot *sl[3] = { &PT[c].snd, &PT[c].rcv, &PT[c].rcv2 };
		for (int i = 0; i < 3; i++) {
			nng_aio_free(sl[i]->aio);
			if (sl[i]->msg != NULL)
				nng_msg_free(sl[i]->msg);
			sl[i]->msg = NULL;
		}
	}
}

static void
part_send(part *p, nng_aio *a)
{
	if (p->is_sock)
		nng_socket_send(p->s, a);
	else
		nng_ctx_send(p->c, a);
}
static void
part_recv(part *p, nng_aio *a)
{
	if (p->is_sock)
		nng_socket_recv(p->s, a);
	else
		nng_ctx_recv(p->c, a);
}

static nng_msg *
mkmsg(const uint8_t *b, size_t n)
{
	nng_msg *m;
	VH_OK(nng_msg_alloc(&m, 0));
	VH_OK(nng_msg_append(m, b, n));
	return m;
}

static void
seq_add(const char *name)
{
	size_t l = strlen(seq);
	snprintf(seq + l, sizeof(seq) - l, "%s%s", l ? " " : "", name);
}

// =============================================================================
// REQ side
// =============================================================================
enum {
	Q_SEND0,
	Q_SEND1,
	Q_RECV0,
	Q_RECV1,
	Q_CANCEL0,
	Q_CANCEL1,
	Q_RCUR0,  // reply carrying the newest id seen from participant 0
	Q_RCUR1,  // ... participant 1
	Q_RPREV0, // the id before that (stale / superseded)
	Q_RNEXT,  // the id the library will allocate next (unknown now)
	Q_RLOW0,  // newest id of participant 0 with bit 31 cleared
	Q_RJUNK,  // 3-byte frame
	Q_NLETTER
};
static const char *QN[Q_NLETTER] = { "send0", "send1", "recv0", "recv1",
	"cancel0", "cancel1", "reply(cur0)", "reply(cur1)", "reply(prev0)",
	"reply(next)", "reply(cur0&~msb)", "reply(junk3)" };

typedef struct rqcfg {
	char name[48];
	int  variant; // 0: two contexts, 1: socket + context
	int  resend;  // NNG_OPT_REQ_RESENDTIME
	int  nal;     // letters in use (Q_NLETTER or Q_NLETTER-1)
	int  depth;
	int  plen;
	int  pfx[8];
} rqcfg;

typedef struct rq {
	int      outstanding; // request sent and neither answered nor abandoned
	uint32_t id;
	int      has_rep; // reply stored, not yet received
	int      rep_serial;
	int      pending; // primary recv aio in flight
	uint32_t ids[40]; // every id this participant put on the wire
	int      nids;
} rq;
static rq       M[2];
static int      q_fd;
static vp_rd   *q_rd;
static int      q_qserial, q_rserial;
static uint32_t q_rid[128];      // id carried by reply #serial
static int      q_delivered[128]; // reply #serial was handed to the application
static uint32_t q_answered[64];  // ids for which a reply was accepted
static int      q_nanswered;
static uint32_t q_last; // newest id seen on the wire
static int      q_have_last;
static int      n_dlv, n_disc, n_est, n_can, n_store;

static const char *
qwho(int c)
{
	return PT[c].is_sock ? (c ? "sock1" : "sock0") : (c ? "ctx1" : "ctx0");
}

// a receive completed successfully although the model does not allow it
static void __attribute__((noreturn))
q_bad_delivery(int c, slot *s, const char *why)
{
	char got[64] = "(no message)";
	int  dup     = 0;
	if (s->msg != NULL) {
		const uint8_t *b = nng_msg_body(s->msg);
		size_t         n = nng_msg_len(s->msg);
		snprintf(got, sizeof(got), "%s", vh_hex(b, n));
		if (n == 2 && b[0] == 'R' && b[1] < 128) {
			uint32_t id = q_rid[b[1]];
			if (q_delivered[b[1]])
				dup = 1;
			for (int i = 0; i < q_nanswered; i++)
				if (q_answered[i] == id)
					dup = 1;
		}
	}
	vs_fail(dup ? "C04:req:duplicate-delivery" : "C04:req:wrong-delivery",
	    "[%s] %s received body %s: %s", seq, qwho(c), got, why);
}

// nothing else may have completed
static void
q_quiet(void)
{
	for (int c = 0; c < 2; c++) {
		slot *sl[3] = { &PT[c].rcv, &PT[c].rcv2, &PT[c].snd };
		for (int i = 0; i < 3; i++) {
			slot *s = sl[i];
			if (s->ncb > s->sub)
				vs_fail("C04:req:duplicate-delivery",
				    "[%s] %s: %d callbacks for %d submissions", seq,
				    qwho(c), s->ncb, s->sub);
			if (!fresh(s))
				continue;
			if (i < 2 && s->res == 0)
				q_bad_delivery(c, s,
				    "no reply was due for this participant");
			if (g_eof) { // connection loss may fail pending operations
				if (i == 0)
					M[c].pending = 0;
				consume(s);
				continue;
			}
			vs_fail("C04:req:disturbed",
			    "[%s] %s: a pending %s completed with %s although "
			    "nothing concerned it",
			    seq, qwho(c), i == 2 ? "send" : "receive",
			    nng_strerror(s->res));
		}
	}
}

// read everything the library wrote; `from` >= 0: exactly one request frame
// with body `tag` is expected from that participant
static void
q_wire(int from, const uint8_t *tag)
{
	int got = 0;
	for (;;) {
		const uint8_t *p;
		size_t         len;
		int            k = vp_next_frame(q_fd, q_rd, &p, &len);
		if (k == 0)
			break;
		if (k < 0) {
			g_eof = 1;
			break;
		}
		if (from < 0 || got > 0)
			vs_fail("C04:req:unexpected-frame",
			    "[%s] the socket wrote an extra frame %s", seq,
			    vh_hex(p, len));
		if (len != 7 || memcmp(p + 4, tag, 3) != 0)
			vs_fail("C04:req:wire-format",
			    "[%s] request frame %s, expected id + body %s", seq,
			    vh_hex(p, len), vh_hex(tag, 3));
		uint32_t id = vp_get32(p);
		if (!(id & 0x80000000u))
			vs_fail("C04:req:wire-format",
			    "[%s] request id %08x lacks bit 31", seq, id);
		for (int c = 0; c < 2; c++)
			for (int i = 0; i < M[c].nids; i++)
				if (M[c].ids[i] == id)
					vs_fail("C04:req:wire-format",
					    "[%s] request id %08x reused", seq, id);
		rq *m = &M[from];
		m->id = id;
		if (m->nids < 40)
			m->ids[m->nids++] = id;
		q_last      = id;
		q_have_last = 1;
		got++;
	}
	if (from >= 0 && got == 0 && !g_eof)
		vs_fail("C04:req:request-not-sent",
		    "[%s] %s: send completed but no frame reached the peer", seq,
		    qwho(from));
}

static void
q_send(int c)
{
	part   *p    = &PT[c];
	rq     *m    = &M[c];
	uint8_t b[3] = { 'Q', (uint8_t) ('0' + c), (uint8_t) ++q_qserial };
	nng_aio_set_msg(p->snd.aio, mkmsg(b, 3));
	p->snd.sub++;
	part_send(p, p->snd.aio);
	vs_settle();
	if (p->snd.ncb != p->snd.sub)
		vs_fail("C04:req:send",
		    "[%s] %s: send did not complete with an idle connected peer",
		    seq, qwho(c));
	if (p->snd.res != 0)
		vs_fail("C04:req:send", "[%s] %s: send failed: %s", seq, qwho(c),
		    nng_strerror(p->snd.res));
	consume(&p->snd);
	if (m->pending && fresh(&p->rcv)) {
		// the superseded request's receive ends (the statement does not
		// say how); it must not produce a reply
		if (p->rcv.res == 0)
			q_bad_delivery(c, &p->rcv,
			    "a new send completed the old receive successfully");
		consume(&p->rcv);
		m->pending = 0;
		n_can++;
	}
	m->outstanding = 1;
	m->id          = 0;
	m->has_rep     = 0;
	q_wire(c, b);
	q_quiet();
}

static void
q_recv(int c)
{
	part *p = &PT[c];
	rq   *m = &M[c];
	if (m->pending) {
		// second concurrent receive
		slot *s = &p->rcv2;
		s->sub++;
		part_recv(p, s->aio);
		vs_settle();
		if (s->ncb != s->sub) {
			nng_aio_cancel(s->aio);
			vs_settle();
			vs_fail("C04:req:estate",
			    "[%s] %s: a second concurrent receive was accepted", seq,
			    qwho(c));
		}
		if (s->res == 0)
			q_bad_delivery(c, s, "second concurrent receive succeeded");
		if (s->res != NNG_ESTATE)
			vs_fail("C04:req:estate",
			    "[%s] %s: second concurrent receive -> %s, want ESTATE",
			    seq, qwho(c), nng_strerror(s->res));
		consume(s);
		n_est++;
	} else {
		slot *s = &p->rcv;
		s->sub++;
		part_recv(p, s->aio);
		vs_settle();
		int done = (s->ncb == s->sub);
		if (m->has_rep) {
			uint8_t want[2] = { 'R', (uint8_t) m->rep_serial };
			if (!done || s->res != 0)
				vs_fail("C04:req:lost-reply",
				    "[%s] %s: a reply to the outstanding request had "
				    "arrived but receive %s",
				    seq, qwho(c),
				    done ? nng_strerror(s->res) : "stays pending");
			if (s->msg == NULL || nng_msg_len(s->msg) != 2 ||
			    memcmp(nng_msg_body(s->msg), want, 2) != 0)
				q_bad_delivery(c, s, "not the stored reply");
			q_delivered[m->rep_serial] = 1;
			m->has_rep                 = 0;
			consume(s);
			n_dlv++;
		} else if (m->outstanding) {
			if (done && s->res == 0)
				q_bad_delivery(c, s, "no reply had been sent");
			if (done)
				vs_fail("C04:req:estate",
				    "[%s] %s: receive for an outstanding request "
				    "rejected with %s",
				    seq, qwho(c), nng_strerror(s->res));
			m->pending = 1;
		} else {
			if (done && s->res == 0)
				q_bad_delivery(c, s, "there is no outstanding request");
			if (!done) {
				nng_aio_cancel(s->aio);
				vs_settle();
				vs_fail("C04:req:estate",
				    "[%s] %s: receive without an outstanding request "
				    "was accepted",
				    seq, qwho(c));
			}
			if (s->res != NNG_ESTATE)
				vs_fail("C04:req:estate",
				    "[%s] %s: receive without an outstanding request "
				    "-> %s, want ESTATE",
				    seq, qwho(c), nng_strerror(s->res));
			consume(s);
			n_est++;
		}
	}
	q_wire(-1, NULL);
	q_quiet();
}

static void
q_cancel(int c)
{
	part *p = &PT[c];
	rq   *m = &M[c];
	nng_aio_cancel(p->rcv.aio);
	vs_settle();
	if (m->pending) {
		slot *s = &p->rcv;
		if (s->ncb != s->sub)
			vs_fail("C04:req:cancel",
			    "[%s] %s: cancelled receive did not complete", seq,
			    qwho(c));
		if (s->res == 0)
			q_bad_delivery(c, s, "cancelled receive succeeded");
		consume(s);
		m->pending     = 0;
		m->outstanding = 0; // the request is abandoned with it
		m->has_rep     = 0;
		n_can++;
	}
	q_wire(-1, NULL);
	q_quiet();
}

static uint32_t
q_unknown(void)
{
	uint32_t id = 0xdeadbee0u;
	for (;;) {
		int clash = 0;
		for (int c = 0; c < 2; c++)
			for (int i = 0; i < M[c].nids; i++)
				if (M[c].ids[i] == id)
					clash = 1;
		if (!clash)
			return id;
		id++;
	}
}

// write a reply frame with the given id (or a malformed frame) and compare
static void
q_reply_raw(uint32_t id, int wellformed, int junk)
{
	int     serial = ++q_rserial;
	uint8_t hdr[4], body[2] = { 'R', (uint8_t) serial };
	if (serial >= 128)
		vs_fail("harness:bounds", "too many replies");
	q_rid[serial] = id;
	vp_put32(hdr, id);
	int rv = junk ? vp_send(q_fd, NULL, 0, "\x80\x00\x01", 3)
	              : vp_send(q_fd, hdr, 4, body, 2);
	if (rv != 0)
		vs_fail("harness:peer", "[%s] raw write failed", seq);
	vs_settle();
	q_wire(-1, NULL);
	if (g_eof && wellformed)
		vs_fail("C04:req:disturbed",
		    "[%s] a well-formed reply (id %08x) made the socket drop the "
		    "connection",
		    seq, id);
	int target = -1;
	if (wellformed && !g_eof)
		for (int c = 0; c < 2; c++)
			if (M[c].outstanding && M[c].id == id && !M[c].has_rep)
				target = c;
	if (target >= 0) {
		rq   *m = &M[target];
		part *p = &PT[target];
		m->outstanding = 0;
		if (q_nanswered < 64)
			q_answered[q_nanswered++] = id;
		if (m->pending) {
			slot *s = &p->rcv;
			if (s->ncb != s->sub || s->res != 0)
				vs_fail("C04:req:lost-reply",
				    "[%s] %s waits for the reply to its outstanding "
				    "request; the reply arrived but receive %s",
				    seq, qwho(target),
				    s->ncb != s->sub ? "stays pending"
				                     : nng_strerror(s->res));
			if (s->msg == NULL || nng_msg_len(s->msg) != 2 ||
			    memcmp(nng_msg_body(s->msg), body, 2) != 0)
				q_bad_delivery(target, s, "not the reply just sent");
			q_delivered[serial] = 1;
			consume(s);
			m->pending = 0;
			n_dlv++;
		} else {
			m->has_rep    = 1;
			m->rep_serial = serial;
			n_store++;
		}
	} else {
		n_disc++;
	}
	q_quiet();
}

static void
q_reply(int x)
{
	uint32_t cur0 = M[0].nids ? M[0].ids[M[0].nids - 1] : q_unknown();
	switch (x) {
	case Q_RCUR0:
		q_reply_raw(cur0, 1, 0);
		break;
	case Q_RCUR1:
		q_reply_raw(M[1].nids ? M[1].ids[M[1].nids - 1] : q_unknown(), 1, 0);
		break;
	case Q_RPREV0:
		q_reply_raw(M[0].nids >= 2 ? M[0].ids[M[0].nids - 2] : q_unknown(),
		    1, 0);
		break;
	case Q_RNEXT: {
		uint32_t id = q_have_last ? q_last + 1 : 0x80000001u;
		if (id < 0x80000000u)
			id = 0x80000000u;
		q_reply_raw(id, 1, 0);
	} break;
	case Q_RLOW0:
		q_reply_raw(cur0 & 0x7fffffffu, 0, 0);
		break;
	default:
		q_reply_raw(0, 0, 1);
		break;
	}
}

static void
q_letter(int l)
{
	seq_add(QN[l]);
	switch (l) {
	case Q_SEND0:
	case Q_SEND1:
		q_send(l - Q_SEND0);
		break;
	case Q_RECV0:
	case Q_RECV1:
		q_recv(l - Q_RECV0);
		break;
	case Q_CANCEL0:
	case Q_CANCEL1:
		q_cancel(l - Q_CANCEL0);
		break;
	default:
		q_reply(l);
		break;
	}
}

static void
run_req(void *arg)
{
	const rqcfg *C = arg;
	vh_init(0);
	nng_socket s;
	VH_OK(nng_req0_open(&s));
	VH_OK(nng_socket_set_ms(s, NNG_OPT_REQ_RESENDTIME, C->resend));
	parts_open(s, C->variant);
	q_fd = vp_connect_raw(s, SP_REP, NULL);
	if (q_fd < 0)
		vs_fail("harness:setup", "raw replier could not connect");
	q_rd = calloc(1, sizeof(*q_rd));
	memset(M, 0, sizeof(M));
	int64_t t0    = vs_now();
	int     total = C->plen + C->depth;
	for (int step = 0; step < total && !g_eof; step++) {
		int l = step < C->plen ? C->pfx[step] : vs_choose(VK_ENV, C->nal);
		q_letter(l);
	}
	int o_dlv = n_dlv, o_store = n_store, o_disc = n_disc, o_est = n_est,
	    o_can = n_can;
	if (!g_eof) {
		// closing phase: every request still outstanding is answerable,
		// every stored reply is receivable, every old id is dead, and
		// both participants still work
		seq_add("|");
		for (int c = 0; c < 2; c++)
			if (M[c].outstanding) {
				seq_add(c ? "answer1" : "answer0");
				q_reply_raw(M[c].id, 1, 0);
			}
		for (int c = 0; c < 2; c++)
			if (M[c].has_rep)
				q_letter(Q_RECV0 + c);
		seq_add("stale*");
		for (int c = 0; c < 2; c++)
			for (int i = 0; i < M[c].nids; i++)
				q_reply_raw(M[c].ids[i], 1, 0);
		q_letter(Q_RECV0);
		q_letter(Q_RECV1);
		q_letter(Q_SEND0);
		q_letter(Q_SEND1);
		q_letter(Q_RECV0);
		q_letter(Q_RCUR1);
		q_letter(Q_RCUR0);
		q_letter(Q_RECV1);
		if (M[0].outstanding || M[1].outstanding || M[0].pending ||
		    M[1].pending || M[0].has_rep || M[1].has_rep)
			vs_fail("harness:model", "[%s] closing phase left work", seq);
	}
	if (vs_now() != t0)
		vs_fail("harness:time", "[%s] virtual time moved", seq);
	vs_log("%s", seq);
#define CAP2(x) ((x) > 2 ? 2 : (x))
	vs_outcome("req dlv=%d store=%d disc=%d est=%d can=%d%s", CAP2(o_dlv),
	    CAP2(o_store), CAP2(o_disc), CAP2(o_est), CAP2(o_can),
	    g_eof ? " eof" : "");
	close(q_fd);
	parts_close();
	free(q_rd);
	vh_fini();
}

// ---- REQ races (schedule exploration) ---------------------------------------
// mode 0: reply for a request that is still queued behind the busy pipe
//         (send(ctx0); send(ctx1); raw reply carrying ctx1's predictable id;
//         one settle) - the statement allows "discarded" (unsolicited) and
//         "delivered" (it does answer the outstanding request), but at most
//         one reply may ever be delivered and ctx0 must be unaffected.
// mode 1: reply || cancel of the pending receive
// mode 2: reply || superseding send
// ctx1 (modes 1, 2) is a bystander with a pending receive of its own.
static void
race_rawreply(uint32_t id, int serial)
{
	uint8_t hdr[4], body[2] = { 'R', (uint8_t) serial };
	vp_put32(hdr, id);
	q_rid[serial] = id;
	if (vp_send(q_fd, hdr, 4, body, 2) != 0)
		vs_fail("harness:peer", "[%s] raw write failed", seq);
}

static int
race_body_serial(slot *s)
{
	if (s->msg == NULL || nng_msg_len(s->msg) != 2 ||
	    ((uint8_t *) nng_msg_body(s->msg))[0] != 'R')
		return -1;
	return ((uint8_t *) nng_msg_body(s->msg))[1];
}

static void
run_race(void *arg)
{
	int mode = (int) (intptr_t) arg;
	vh_init(0);
	nng_socket s;
	VH_OK(nng_req0_open(&s));
	VH_OK(nng_socket_set_ms(s, NNG_OPT_REQ_RESENDTIME, 60000));
	parts_open(s, 0);
	q_fd = vp_connect_raw(s, SP_REP, NULL);
	if (q_fd < 0)
		vs_fail("harness:setup", "raw replier could not connect");
	q_rd = calloc(1, sizeof(*q_rd));
	memset(M, 0, sizeof(M));
	const char *won = "?";
	if (mode == 0) {
		// warm-up round trip: learn the id counter
		q_letter(Q_SEND0);
		q_letter(Q_RCUR0);
		q_letter(Q_RECV0);
		uint32_t early = q_last + 2;
		uint8_t  t0[3] = { 'Q', '0', (uint8_t) ++q_qserial };
		uint8_t  t1[3] = { 'Q', '1', (uint8_t) ++q_qserial };
		int      r1    = ++q_rserial;
		seq_add("{send0 send1 reply(predicted id1)}");
		nng_aio_set_msg(PT[0].snd.aio, mkmsg(t0, 3));
		nng_aio_set_msg(PT[1].snd.aio, mkmsg(t1, 3));
		PT[0].snd.sub++;
		PT[1].snd.sub++;
		vs_io_maxclamp = 1;
		vs_io_eagain   = 1;
		vs_window(1);
		vs_io_points = 1;
		part_send(&PT[0], PT[0].snd.aio);
		part_send(&PT[1], PT[1].snd.aio);
		vs_io_points = 0;
		race_rawreply(early, r1);
		vs_settle();
		vs_window(0);
		for (int c = 0; c < 2; c++) {
			slot *sn = &PT[c].snd;
			if (sn->ncb != sn->sub || sn->res != 0)
				vs_fail("C04:req:send", "[%s] ctx%d: send %s", seq, c,
				    sn->ncb != sn->sub ? "did not complete"
				                       : nng_strerror(sn->res));
			consume(sn);
		}
		// both requests must be on the wire now, once each
		int seen[2] = { 0, 0 };
		for (;;) {
			const uint8_t *p;
			size_t         len;
			int            k = vp_next_frame(q_fd, q_rd, &p, &len);
			if (k == 0)
				break;
			if (k < 0)
				vs_fail("C04:req:disturbed",
				    "[%s] connection dropped", seq);
			int c = (len == 7 && memcmp(p + 4, t0, 3) == 0)   ? 0
			    : (len == 7 && memcmp(p + 4, t1, 3) == 0) ? 1
			                                              : -1;
			if (c < 0 || seen[c])
				vs_fail("C04:req:unexpected-frame",
				    "[%s] frame %s", seq, vh_hex(p, len));
			seen[c]          = 1;
			M[c].id          = vp_get32(p);
			M[c].ids[M[c].nids++] = M[c].id;
			M[c].outstanding = 1;
			M[c].has_rep     = 0;
			q_last           = M[c].id;
		}
		if (!seen[0] || !seen[1])
			vs_fail("C04:req:request-not-sent",
			    "[%s] request of ctx%d never reached the peer", seq,
			    seen[0] ? 1 : 0);
		q_quiet();
		// second (regular) answer to ctx1, then ctx0's answer
		int r2 = ++q_rserial;
		seq_add("reply(id1)");
		race_rawreply(M[1].id, r2);
		vs_settle();
		q_quiet();
		seq_add("reply(id0)");
		q_reply_raw(M[0].id, 1, 0); // stored for ctx0
		seq_add("recv1");
		slot *rc = &PT[1].rcv;
		rc->sub++;
		part_recv(&PT[1], rc->aio);
		vs_settle();
		if (rc->ncb != rc->sub || rc->res != 0)
			vs_fail("C04:req:lost-reply",
			    "[%s] ctx1 was answered (twice) but receive %s", seq,
			    rc->ncb != rc->sub ? "stays pending" : nng_strerror(rc->res));
		int got = race_body_serial(rc);
		if (!(got == r2 || (got == r1 && early == M[1].id)))
			q_bad_delivery(1, rc, "not a reply to ctx1's request");
		won                  = got == r1 ? "early-accepted" : "early-discarded";
		q_delivered[got]     = 1;
		q_answered[q_nanswered++] = M[1].id;
		consume(rc);
		M[1].outstanding = 0;
		q_quiet();
		q_letter(Q_RECV1); // at most once: ESTATE now
		q_letter(Q_RECV0); // ctx0 gets its own stored reply
		q_letter(Q_RECV0); // ESTATE
	} else {
		q_letter(Q_SEND1);
		q_letter(Q_RECV1);
		q_letter(Q_SEND0);
		q_letter(Q_RECV0);
		uint32_t x  = M[0].id;
		int      r1 = ++q_rserial;
		slot    *rc = &PT[0].rcv;
		uint8_t  t0[3] = { 'Q', '0', (uint8_t) (q_qserial + 1) };
		vs_window(1);
		race_rawreply(x, r1);
		if (mode == 1) {
			seq_add("{reply(cur0) || cancel0}");
			nng_aio_cancel(rc->aio);
		} else {
			seq_add("{reply(cur0) || send0}");
			q_qserial++;
			nng_aio_set_msg(PT[0].snd.aio, mkmsg(t0, 3));
			PT[0].snd.sub++;
			part_send(&PT[0], PT[0].snd.aio);
		}
		vs_settle();
		vs_window(0);
		int done = rc->ncb == rc->sub;
		if (mode == 1 && !done)
			vs_fail("C04:req:cancel",
			    "[%s] cancelled receive did not complete", seq);
		if (done && rc->res == 0) {
			if (race_body_serial(rc) != r1)
				q_bad_delivery(0, rc, "not the reply that was sent");
			q_delivered[r1]           = 1;
			q_answered[q_nanswered++] = x;
			won                       = "reply-won";
		} else {
			won = done ? "reply-lost" : "recv-kept";
		}
		if (done)
			consume(rc);
		M[0].pending     = !done;
		M[0].outstanding = 0;
		M[0].has_rep     = 0;
		if (mode == 2) {
			slot *sn = &PT[0].snd;
			if (sn->ncb != sn->sub || sn->res != 0)
				vs_fail("C04:req:send", "[%s] ctx0: send %s", seq,
				    sn->ncb != sn->sub ? "did not complete"
				                       : nng_strerror(sn->res));
			consume(sn);
			M[0].outstanding = 1;
			q_wire(0, t0);
		} else {
			q_wire(-1, NULL);
		}
		q_quiet();
		if (mode == 1) {
			q_letter(Q_RECV0); // ESTATE either way
			q_letter(Q_RCUR0); // duplicate / cancelled: discarded
		} else {
			if (!M[0].pending)
				q_letter(Q_RECV0); // waits for the NEW request
			q_letter(Q_RPREV0);        // x again: superseded, discarded
			q_letter(Q_RCUR0);         // delivered
		}
		q_letter(Q_RCUR1); // the bystander gets exactly its own reply
		q_letter(Q_SEND0);
		q_letter(Q_RCUR0);
		q_letter(Q_RECV0);
		q_letter(Q_RECV1); // ESTATE
	}
	vs_log("%s -> %s", seq, won);
	vs_outcome("race%d %s", mode, won);
	close(q_fd);
	parts_close();
	free(q_rd);
	vh_fini();
}

// =============================================================================
// REP side
// =============================================================================
enum { P_Q0H0, P_Q0H2, P_Q1H1, P_Q1H2, P_RECV0, P_RECV1, P_SEND0, P_SEND1, P_DROP0, P_NLETTER };
static const char *PN[P_NLETTER] = { "p0.req(h0)", "p0.req(h2)", "p1.req(h1)",
	"p1.req(h2)", "recv0", "recv1", "send0", "send1", "p0.reconnect" };
static const uint32_t HOPW[2] = { 0x00000001u, 0x7f000002u };

typedef struct rpcfg {
	char name[48];
	int  variant;
	int  depth;
	int  plen;
	int  pfx[8];
} rpcfg;

typedef struct rreq {
	int      peer;
	int      nw; // words incl. the request id
	uint32_t w[3];
	uint8_t  body[3];
	int      delivered; // 0 waiting, 1 delivered, 2 optional (its peer left)
	int      gone;      // its connection was closed after it was written
} rreq;
static rreq   RQ[48];
static int    nrq;
static int    p_cur[2];     // request index the participant received last
static int    p_pending[2]; // primary recv aio in flight
static int    p_fd[2];
static nng_listener p_listener;
static vp_rd *p_rd[2];
static int    p_cnt[2]; // requests written per peer
static int    p_sserial;
static uint8_t p_seen[64][24]; // reply frames seen so far
static size_t  p_seenlen[64];
static int     p_nseen;
static int     n_req, n_rcv, n_rep, n_rest;

static int
p_undelivered(void)
{
	int n = 0;
	for (int i = 0; i < nrq; i++)
		n += (RQ[i].delivered == 0);
	return n;
}

// frames on the raw fds.  If expect_peer >= 0 exactly one frame
// (words ++ body) is due there; everything else is a violation.
static void
p_wire(int expect_peer, const rreq *r, const uint8_t *body, int c)
{
	for (int j = 0; j < 2; j++) {
		int got = 0;
		for (;;) {
			const uint8_t *p;
			size_t         len;
			int            k = vp_next_frame(p_fd[j], p_rd[j], &p, &len);
			if (k == 0)
				break;
			if (k < 0)
				vs_fail("C04:rep:disconnect",
				    "[%s] the socket dropped requester %d", seq, j);
			int dup = 0;
			for (int i = 0; i < p_nseen; i++)
				if (p_seenlen[i] == len && memcmp(p_seen[i], p, len) == 0)
					dup = 1;
			if (expect_peer < 0)
				vs_fail(dup ? "C04:rep:duplicate-reply"
				            : "C04:rep:unsolicited-reply",
				    "[%s] frame %s appeared on requester %d although "
				    "no reply was sent",
				    seq, vh_hex(p, len), j);
			if (j != expect_peer)
				vs_fail("C04:rep:wrong-peer",
				    "[%s] %s replied to a request of requester %d but "
				    "frame %s appeared on requester %d",
				    seq, c ? "participant1" : "participant0",
				    expect_peer, vh_hex(p, len), j);
			if (got > 0)
				vs_fail("C04:rep:duplicate-reply",
				    "[%s] a second reply frame %s appeared on "
				    "requester %d",
				    seq, vh_hex(p, len), j);
			size_t hl = 4 * (size_t) r->nw;
			uint8_t want[12];
			for (int i = 0; i < r->nw; i++)
				vp_put32(want + 4 * i, r->w[i]);
			if (len != hl + 3 || memcmp(p, want, hl) != 0)
				vs_fail("C04:rep:backtrace",
				    "[%s] reply frame %s does not start with the "
				    "request's backtrace %s (+3 byte body)",
				    seq, vh_hex(p, len), vh_hex(want, hl));
			if (memcmp(p + hl, body, 3) != 0)
				vs_fail("C04:rep:body", "[%s] reply frame %s, body %s sent",
				    seq, vh_hex(p, len), vh_hex(body, 3));
			if (p_nseen < 64 && len <= 24) {
				memcpy(p_seen[p_nseen], p, len);
				p_seenlen[p_nseen++] = len;
			}
			got++;
		}
		if (j == expect_peer && got == 0)
			vs_fail("C04:rep:lost-reply",
			    "[%s] send succeeded but no reply frame reached "
			    "requester %d",
			    seq, j);
	}
}

// a receive of participant c completed successfully: which request is it?
static void
p_got_request(int c, slot *s)
{
	int idx = -1;
	if (s->msg != NULL && nng_msg_len(s->msg) == 3)
		for (int i = 0; i < nrq; i++)
			if (memcmp(RQ[i].body, nng_msg_body(s->msg), 3) == 0)
				idx = i;
	if (idx < 0 || RQ[idx].delivered == 1)
		vs_fail("C04:rep:request-delivery",
		    "[%s] participant%d received %s, which is %s", seq, c,
		    s->msg ? vh_hex(nng_msg_body(s->msg), nng_msg_len(s->msg))
		           : "(no message)",
		    idx < 0 ? "not a request that was sent"
		            : "a request already delivered");
	RQ[idx].delivered = 1;
	p_cur[c]          = idx;
	p_pending[c]      = 0;
	consume(s);
	n_rcv++;
}

static void
p_quiet(void)
{
	for (int c = 0; c < 2; c++) {
		slot *sl[3] = { &PT[c].rcv, &PT[c].rcv2, &PT[c].snd };
		for (int i = 0; i < 3; i++) {
			slot *s = sl[i];
			if (s->ncb > s->sub)
				vs_fail("C04:rep:double-callback",
				    "[%s] participant%d: %d callbacks for %d submissions",
				    seq, c, s->ncb, s->sub);
			if (fresh(s))
				vs_fail("C04:rep:disturbed",
				    "[%s] participant%d: a pending %s completed (%s) "
				    "although nothing concerned it",
				    seq, c, i == 2 ? "send" : "receive",
				    nng_strerror(s->res));
		}
	}
	if (p_undelivered() > 0 && (p_pending[0] || p_pending[1]))
		vs_fail("C04:rep:recv-stalled",
		    "[%s] a receive stays pending although %d request(s) wait", seq,
		    p_undelivered());
}

static void
p_request(int j, int hops)
{
	rreq *r = &RQ[nrq];
	if (nrq >= 47)
		vs_fail("harness:bounds", "too many requests");
	memset(r, 0, sizeof(*r));
	r->peer = j;
	r->nw   = hops + 1;
	for (int i = 0; i < hops; i++)
		r->w[i] = HOPW[i];
	r->w[hops] = 0x80000000u | (uint32_t) (++p_cnt[j]); // same ids on both peers
	r->body[0] = 'q';
	r->body[1] = (uint8_t) ('0' + j);
	r->body[2] = (uint8_t) (nrq + 1);
	uint8_t hdr[12];
	for (int i = 0; i < r->nw; i++)
		vp_put32(hdr + 4 * i, r->w[i]);
	nrq++;
	n_req++;
	if (vp_send(p_fd[j], hdr, 4 * (size_t) r->nw, r->body, 3) != 0)
		vs_fail("harness:peer", "[%s] raw write failed", seq);
	vs_settle();
	// pending receives may complete, each with a distinct waiting request
	for (int c = 0; c < 2; c++) {
		slot *s = &PT[c].rcv;
		if (p_pending[c] && fresh(s)) {
			if (s->res != 0)
				vs_fail("C04:rep:recv-error",
				    "[%s] participant%d: pending receive failed: %s",
				    seq, c, nng_strerror(s->res));
			p_got_request(c, s);
		}
	}
	p_wire(-1, NULL, NULL, 0);
	p_quiet();
}

static void
p_recv(int c)
{
	part *p = &PT[c];
	if (p_pending[c]) {
		slot *s = &p->rcv2;
		s->sub++;
		part_recv(p, s->aio);
		vs_settle();
		if (s->ncb != s->sub) {
			nng_aio_cancel(s->aio);
			vs_settle();
			vs_fail("C04:rep:estate",
			    "[%s] participant%d: a second concurrent receive was "
			    "accepted",
			    seq, c);
		}
		if (s->res != NNG_ESTATE)
			vs_fail("C04:rep:estate",
			    "[%s] participant%d: second concurrent receive -> %s, "
			    "want ESTATE",
			    seq, c, s->res ? nng_strerror(s->res) : "success");
		consume(s);
		n_rest++;
	} else {
		slot *s = &p->rcv;
		s->sub++;
		part_recv(p, s->aio);
		vs_settle();
		if (s->ncb == s->sub) {
			if (s->res != 0)
				vs_fail("C04:rep:recv-error",
				    "[%s] participant%d: receive failed: %s", seq, c,
				    nng_strerror(s->res));
			p_got_request(c, s);
		} else {
			p_pending[c] = 1;
		}
	}
	p_wire(-1, NULL, NULL, 0);
	p_quiet();
}

static void
p_send(int c)
{
	part   *p    = &PT[c];
	slot   *s    = &p->snd;
	uint8_t b[3] = { 'r', (uint8_t) ('0' + c), (uint8_t) ++p_sserial };
	nng_aio_set_msg(s->aio, mkmsg(b, 3));
	s->sub++;
	part_send(p, s->aio);
	vs_settle();
	if (s->ncb != s->sub) {
		nng_aio_cancel(s->aio);
		vs_settle();
		vs_fail(p_cur[c] < 0 ? "C04:rep:estate" : "C04:rep:send-stalled",
		    "[%s] participant%d: send did not complete", seq, c);
	}
	if (p_cur[c] < 0) {
		if (s->res != NNG_ESTATE)
			vs_fail("C04:rep:estate",
			    "[%s] participant%d: send without a received request "
			    "-> %s, want ESTATE",
			    seq, c, s->res ? nng_strerror(s->res) : "success");
		consume(s);
		n_rest++;
		p_wire(-1, NULL, NULL, c);
	} else if (RQ[p_cur[c]].gone) {
		// the requester's connection is gone: the reply may be discarded
		// (any result), it must not appear on ANY connection, and the
		// request is consumed all the same
		consume(s);
		p_cur[c] = -1;
		p_wire(-1, NULL, NULL, c);
	} else {
		if (s->res != 0)
			vs_fail("C04:rep:send-error",
			    "[%s] participant%d: reply to a received request "
			    "failed: %s",
			    seq, c, nng_strerror(s->res));
		consume(s);
		const rreq *r = &RQ[p_cur[c]];
		p_cur[c]      = -1;
		n_rep++;
		p_wire(r->peer, r, b, c);
	}
	p_quiet();
}

static void
p_letter(int l)
{
	seq_add(PN[l]);
	switch (l) {
	case P_Q0H0:
		p_request(0, 0);
		break;
	case P_Q0H2:
		p_request(0, 2);
		break;
	case P_Q1H1:
		p_request(1, 1);
		break;
	case P_Q1H2:
		p_request(1, 2);
		break;
	case P_RECV0:
	case P_RECV1:
		p_recv(l - P_RECV0);
		break;
	case P_DROP0:
		// requester 0 disconnects; a new requester takes its place
		close(p_fd[0]);
		vs_settle();
		for (int i = 0; i < nrq; i++)
			if (RQ[i].peer == 0 && !RQ[i].gone) {
				RQ[i].gone = 1;
				if (RQ[i].delivered == 0)
					RQ[i].delivered = 2; // may or may not come up
			}
		p_fd[0] = vp_attach_more(p_listener);
		if (p_fd[0] < 0)
			vs_fail("harness:setup", "re-attach of requester 0 failed");
		vs_settle();
		if (vp_handshake(p_fd[0], SP_REQ) < 0)
			vs_fail("C04:rep:disconnect",
			    "[%s] a new requester could not connect after the old "
			    "one left",
			    seq);
		memset(p_rd[0], 0, sizeof(vp_rd));
		p_wire(-1, NULL, NULL, 0);
		// pending receives must not complete because of the disconnect
		for (int c = 0; c < 2; c++)
			if (p_pending[c] && fresh(&PT[c].rcv)) {
				if (PT[c].rcv.res != 0)
					vs_fail("C04:rep:disturbed",
					    "[%s] participant%d: pending receive failed "
					    "(%s) when a requester left",
					    seq, c, nng_strerror(PT[c].rcv.res));
				p_got_request(c, &PT[c].rcv);
			}
		break;
	default:
		p_send(l - P_SEND0);
		break;
	}
}

static void
run_rep(void *arg)
{
	const rpcfg *C = arg;
	vh_init(0);
	nng_socket   s;
	nng_listener l;
	VH_OK(nng_rep0_open(&s));
	parts_open(s, C->variant);
	p_fd[0] = vp_connect_raw(s, SP_REQ, &l);
	if (p_fd[0] < 0)
		vs_fail("harness:setup", "raw requester 0 could not connect");
	p_listener = l;
	p_fd[1] = vp_attach_more(l);
	if (p_fd[1] < 0)
		vs_fail("harness:setup", "raw requester 1 could not attach");
	vs_settle();
	if (vp_handshake(p_fd[1], SP_REQ) < 0)
		vs_fail("harness:setup", "raw requester 1: handshake failed");
	p_rd[0]  = calloc(1, sizeof(vp_rd));
	p_rd[1]  = calloc(1, sizeof(vp_rd));
	p_cur[0] = p_cur[1] = -1;
	int64_t t0    = vs_now();
	int     total = C->plen + C->depth;
	for (int step = 0; step < total; step++) {
		int l2 = step < C->plen ? C->pfx[step] : vs_choose(VK_ENV, P_NLETTER);
		p_letter(l2);
	}
	int o_req = n_req, o_rcv = n_rcv, o_rep = n_rep, o_est = n_rest,
	    o_p0 = p_pending[0], o_p1 = p_pending[1];
	// closing phase: answer what is held, drain and answer every waiting
	// request, then both participants must be back in "no request" state
	seq_add("|");
	for (int c = 0; c < 2; c++)
		if (p_cur[c] >= 0)
			p_letter(P_SEND0 + c);
	for (int guard = 0; guard < 48 && p_undelivered() > 0; guard++)
		for (int c = 0; c < 2; c++)
			if (p_undelivered() > 0) {
				p_letter(P_RECV0 + c);
				p_letter(P_SEND0 + c);
			}
	// a fresh round trip through each participant, crossing the peers
	p_letter(P_Q1H2);
	p_letter(P_Q0H0);
	p_letter(P_RECV0); // gets one of them
	p_letter(P_RECV1);
	p_letter(P_SEND1);
	p_letter(P_SEND0);
	p_letter(P_SEND0); // ESTATE
	p_letter(P_SEND1); // ESTATE
	if (vs_now() != t0)
		vs_fail("harness:time", "[%s] virtual time moved", seq);
	vs_log("%s", seq);
	// pending receives at the end are cancelled by close
	vs_outcome("rep req=%d rcv=%d rep=%d est=%d pend=%d%d", CAP2(o_req),
	    CAP2(o_rcv), CAP2(o_rep), CAP2(o_est), o_p0, o_p1);
	close(p_fd[0]);
	close(p_fd[1]);
	parts_close();
	free(p_rd[0]);
	free(p_rd[1]);
	vh_fini();
}

// =============================================================================
static double g_exec, g_wall;
// ---- two threads answer the same request -----------------------------------------------------
// after ONE received request two application threads send a reply on the same REP socket (or the
// same context) at the same time: the state machine accepts exactly one of them, the other fails
// with NNG_ESTATE, and exactly one reply frame reaches the requester.
static nng_socket r2_sock;
static nng_ctx    r2_ctx;
static int        r2_usectx, r2_rv[2];
static void *
r2_sender(void *a)
{
	int      i = (int) (intptr_t) a;
	nng_msg *m;
	if (nng_msg_alloc(&m, 0) != 0 || nng_msg_append(m, i ? "B" : "A", 1) != 0)
		vs_fail("harness:r2", "msg alloc");
	r2_rv[i] = r2_usectx ? nng_ctx_sendmsg(r2_ctx, m, 0) : nng_sendmsg(r2_sock, m, 0);
	if (r2_rv[i] != 0)
		nng_msg_free(m);
	return NULL;
}
static void
run_rep2send(void *arg)
{
	(void) arg;
	vh_init(0);
	VH_OK(nng_rep0_open(&r2_sock));
	VH_OK(nng_socket_set_ms(r2_sock, NNG_OPT_SENDTIMEO, 100));
	r2_usectx = vs_choose(VK_ENV, 2);
	if (r2_usectx)
		VH_OK(nng_ctx_open(&r2_ctx, r2_sock));
	int fd = vp_connect_raw(r2_sock, SP_REQ, NULL);
	if (fd < 0)
		vs_fail("harness:setup", "raw requester could not connect");
	vp_rd  *rd = calloc(1, sizeof(*rd));
	uint8_t id[4] = { 0x80, 0, 0, 7 };
	if (vp_send(fd, id, 4, "q", 1) != 0)
		vs_fail("harness:peer", "raw write");
	vs_settle();
	nng_msg *m;
	int      rv = r2_usectx ? nng_ctx_recvmsg(r2_ctx, &m, NNG_FLAG_NONBLOCK)
	                        : nng_recvmsg(r2_sock, &m, NNG_FLAG_NONBLOCK);
	if (rv != 0)
		vs_fail("harness:r2", "request not received: %s", nng_strerror(rv));
	nng_msg_free(m);
	pthread_t t[2];
	vs_window(1);
	pthread_create(&t[0], NULL, r2_sender, (void *) 0);
	pthread_create(&t[1], NULL, r2_sender, (void *) 1);
	pthread_join(t[0], NULL);
	pthread_join(t[1], NULL);
	vs_window(0);
	vs_settle();
	int nok = (r2_rv[0] == 0) + (r2_rv[1] == 0);
	int nst = (r2_rv[0] == NNG_ESTATE) + (r2_rv[1] == NNG_ESTATE);
	int nframes = 0;
	for (;;) {
		const uint8_t *p;
		size_t         len;
		int            k = vp_next_frame(fd, rd, &p, &len);
		if (k != 1)
			break;
		nframes++;
		if (len != 5 || memcmp(p, id, 4) != 0 || (p[4] != 'A' && p[4] != 'B'))
			vs_fail("C04:rep:wire", "reply frame %s", vh_hex(p, len));
	}
	vs_nontrivial();
	if (nok != 1 || nst != 1)
		vs_fail("C04:rep:estate",
		    "[one request received, two concurrent %s sends] results %s / %s: exactly one "
		    "must succeed and the other fail with NNG_ESTATE",
		    r2_usectx ? "context" : "socket", r2_rv[0] ? nng_strerror(r2_rv[0]) : "success",
		    r2_rv[1] ? nng_strerror(r2_rv[1]) : "success");
	if (nframes != 1)
		vs_fail("C04:rep:duplicate-reply",
		    "[one request received, two concurrent sends] the requester got %d replies",
		    nframes);
	vs_outcome("ctx=%d rv=%d/%d", r2_usectx, r2_rv[0], r2_rv[1]);
	close(fd);
	free(rd);
	if (r2_usectx)
		nng_ctx_close(r2_ctx);
	nng_socket_close(r2_sock);
	vh_fini();
}

static void
explore(const char *name, void (*fn)(void *), void *arg)
{
	vx_cfg c;
	memset(&c, 0, sizeof(c));
	c.prop     = "C04";
	c.scenario = name;
	c.run      = fn;
	c.arg      = arg;
	for (int i = 0; i < VB_NB; i++)
		c.budget[i] = 0;
	c.budget[VB_ENV] = -1;
	c.total          = 0;
	vx_stats st;
	memset(&st, 0, sizeof(st));
	vx_explore(&c, &st);
	g_exec += st.executions;
	g_wall += st.wall_s;
}

// enough time left for `need` executions at the rate measured so far?
static int
affordable(double need)
{
	double rate = (g_exec > 2000 && g_wall > 1) ? g_exec / g_wall : 600;
	// thorough: stay ~5 min inside the global deadline (target <= 20 min)
	double reserve = vx_is_thorough() ? 330 : 30;
	return vx_time_left() > reserve + 1.4 * need / rate;
}

static void
explore_race(const char *name, int mode, int p, int sw, int io, int total)
{
	vx_cfg c;
	memset(&c, 0, sizeof(c));
	c.prop     = "C04";
	c.scenario = name;
	c.run      = run_race;
	c.arg      = (void *) (intptr_t) mode;
	for (int i = 0; i < VB_NB; i++)
		c.budget[i] = 0;
	c.budget[VB_PREEMPT] = p;
	c.budget[VB_SWITCH]  = sw;
	c.budget[VB_IO]      = io;
	c.budget[VB_WAKE1]   = 1;
	c.budget[VB_ENV]     = -1;
	c.total              = total;
	vx_stats st;
	memset(&st, 0, sizeof(st));
	vx_explore(&c, &st);
	g_exec += st.executions;
	g_wall += st.wall_s;
}

// ordered plan: most valuable scenarios first, the tail is skipped when the
// (load dependent) measured rate says it cannot finish before the deadline
typedef struct plan {
	int   is_rep;
	rqcfg q;
	rpcfg p;
} plan;
static plan PL[40];
static int  npl;

static void
add_req(const char *tag, int variant, int resend, int nal, int depth, int plen,
    const int *pfx)
{
	rqcfg *c = &PL[npl].q;
	PL[npl++].is_rep = 0;
	snprintf(c->name, sizeof(c->name), "req-%s-%s%s-a%d-d%d", tag,
	    variant ? "sock+ctx" : "2ctx", resend < 0 ? "-noresend" : "", nal,
	    depth);
	c->variant = variant;
	c->resend  = resend;
	c->nal     = nal;
	c->depth   = depth;
	c->plen    = plen;
	for (int i = 0; i < plen; i++)
		c->pfx[i] = pfx[i];
}

static void
add_rep(const char *tag, int variant, int depth, int plen, const int *pfx)
{
	rpcfg *c = &PL[npl].p;
	PL[npl++].is_rep = 1;
	snprintf(c->name, sizeof(c->name), "rep-%s-%s-d%d", tag,
	    variant ? "sock+ctx" : "2ctx", depth);
	c->variant = variant;
	c->depth   = depth;
	c->plen    = plen;
	for (int i = 0; i < plen; i++)
		c->pfx[i] = pfx[i];
}

// =============================================================================
// REQ side: a request abandoned while it is still queued (never on the wire)
// =============================================================================
// No replier is connected when context 0 submits request A; A is abandoned in one of three ways
// (the send aio is cancelled, the send times out, a second request supersedes it).  Then a raw
// replier connects, the context's current request B goes out, and the replier first answers with
// an identifier next to B's (request identifiers are handed out in sequence, so B-1 / B-2 are the
// ones A had) and only then with B's own.  Only the second reply may be delivered.
static void
run_reqabandon(void *arg)
{
	(void) arg;
	vh_init(0);
	nng_socket s;
	VH_OK(nng_req0_open(&s));
	VH_OK(nng_socket_set_ms(s, NNG_OPT_REQ_RESENDTIME, 60000));
	int variant = vs_choose(VK_ENV, 2);
	parts_open(s, variant);
	seq[0]  = 0;
	int how = vs_choose(VK_ENV, 3); // cancel / timeout / supersede
	int off = vs_choose(VK_ENV, 4); // forged id: B-1, B-2, B-3, B+1
	part *p = &PT[0];
	static const char *HN[] = { "cancel", "timeout", "supersede" };
	// request A, with nobody to send it to
	nng_aio_set_msg(p->snd.aio, mkmsg((const uint8_t *) "A", 1));
	nng_aio_set_timeout(p->snd.aio, how == 1 ? 5 : NNG_DURATION_INFINITE);
	p->snd.sub++;
	part_send(p, p->snd.aio);
	vs_settle();
	if (how == 0)
		nng_aio_cancel(p->snd.aio);
	else if (how == 1)
		vs_sleep(10);
	vs_settle();
	if (how != 2 && p->snd.ncb != 1)
		vs_fail("harness:setup", "the queued send was not abandoned (%s)", HN[how]);
	// the replier appears; request B (for "supersede" it replaces A on the same context,
	// through a second aio)
	nng_listener l;
	int          fd = vp_connect_raw(s, SP_REP, &l);
	if (fd < 0)
		vs_fail("harness:setup", "raw replier");
	nng_aio *sb;
	VH_OK(nng_aio_alloc(&sb, NULL, NULL));
	nng_aio_set_msg(sb, mkmsg((const uint8_t *) "B", 1));
	part_send(p, sb);
	vs_settle();
	nng_aio_wait(sb);
	if (nng_aio_result(sb) != 0)
		vs_fail("C04:req:send", "[%s] request B: %s", HN[how], nng_strerror(nng_aio_result(sb)));
	nng_aio_free(sb);
	p->rcv.sub++;
	part_recv(p, p->rcv.aio);
	vs_settle();
	vp_rd         *rd = calloc(1, sizeof(*rd));
	const uint8_t *pl;
	size_t         len;
	uint32_t       idB = 0;
	int            nB = 0;
	while (vp_next_frame(fd, rd, &pl, &len) == 1) {
		if (len == 5 && pl[4] == 'B') {
			idB = vp_get32(pl);
			nB++;
		} else if (len == 5 && pl[4] == 'A') {
			if (how != 2) // (a superseded A may or may not have left; an abandoned one not)
				vs_fail("C04:req:abandoned-sent",
				    "[%s] request A was %sed while queued and still reached the replier",
				    HN[how], HN[how]);
		}
	}
	if (nB != 1)
		vs_fail("C04:req:send", "[%s] request B seen %d times on the wire", HN[how], nB);
	static const int OFF[] = { -1, -2, -3, 1 };
	uint8_t  h[4];
	uint32_t forged = (idB + (uint32_t) OFF[off]) | 0x80000000u;
	vp_put32(h, forged);
	vp_send(fd, h, 4, "STALE", 5);
	vs_settle();
	if (p->rcv.ncb != 0) {
		char got[16] = "";
		if (p->rcv.msg)
			snprintf(got, sizeof(got), "%.*s", (int) nng_msg_len(p->rcv.msg),
			    (char *) nng_msg_body(p->rcv.msg));
		vs_fail("C04:req:foreign-reply",
		    "[request A %s while queued; request B has id %08x] a reply with id %08x "
		    "completed the receive (result %d, body '%s')",
		    HN[how], idB, forged, p->rcv.res, got);
	}
	vp_put32(h, idB);
	vp_send(fd, h, 4, "GOOD", 4);
	vs_settle();
	if (p->rcv.ncb != 1 || p->rcv.res != 0 || p->rcv.msg == NULL ||
	    nng_msg_len(p->rcv.msg) != 4 || memcmp(nng_msg_body(p->rcv.msg), "GOOD", 4) != 0)
		vs_fail("C04:req:lost-reply",
		    "[request A %s while queued] the reply to request B was not delivered (callbacks "
		    "%d, result %d)",
		    HN[how], p->rcv.ncb, p->rcv.res);
	vs_outcome("%s off=%d", HN[how], OFF[off]);
	free(rd);
	close(fd);
	parts_close();
	vh_fini();
}

int
main(int argc, char **argv)
{
	vx_init(argc, argv, "C04");
	int T = vx_is_thorough();
	{
		vx_cfg c0;
		memset(&c0, 0, sizeof(c0));
		c0.prop           = "C04";
		c0.scenario       = "req-abandoned-while-queued";
		c0.run            = run_reqabandon;
		c0.budget[VB_ENV] = -1;
		vx_explore(&c0, NULL);
	}

	// seeded non-initial REQ states
	static const int QP1[] = { Q_SEND0, Q_SEND1 }; // both outstanding
	static const int QP2[] = { Q_SEND0, Q_SEND0, Q_SEND1 }; // stale id exists
	static const int QP3[] = { Q_SEND0, Q_RECV0, Q_SEND1, Q_RECV1 }; // both wait
	static const int QP4[] = { Q_SEND0, Q_RCUR0, Q_SEND1 }; // stored reply
	static const int QP5[] = { Q_SEND0, Q_RECV0, Q_CANCEL0, Q_SEND1,
		Q_RECV1 }; // cancelled id, other ctx waits
	static const int RESEND = 60000, INF = NNG_DURATION_INFINITE;
	// seeded non-initial REP states
	static const int PP1[] = { P_Q0H2, P_Q1H1, P_RECV0,
		P_RECV1 }; // both hold a request, different peers / lengths
	static const int PP2[] = { P_RECV0, P_RECV1 }; // both wait
	static const int PP3[] = { P_Q0H2, P_RECV0, P_SEND0,
		P_Q1H1 }; // answered once, next request from the other peer waits
	const int A = Q_NLETTER;
	int       dq, ds, dp, dps;
	if (!T) {
		dq = 4, ds = 3, dp = 4, dps = 3;
		// the two malformed-frame letters only from the seeded states
		add_req("P0", 0, RESEND, A - 2, 4, 0, NULL);
		add_rep("P0", 0, 4, 0, NULL);
		add_rep("P0", 1, 4, 0, NULL);
		add_req("P3", 0, RESEND, A, 3, 4, QP3);
		add_req("P2", 0, RESEND, A, 3, 3, QP2);
		add_rep("P1", 0, 3, 4, PP1);
		add_req("P4", 0, INF, A, 3, 3, QP4);
		add_rep("P3", 1, 3, 4, PP3);
		add_req("P0", 1, INF, A, 3, 0, NULL);
		add_rep("P2", 0, 3, 2, PP2);
	} else {
		dq = 5, ds = 4, dp = 6, dps = 5;
		add_req("P0", 0, RESEND, A, 5, 0, NULL);
		add_rep("P0", 0, 5, 0, NULL);
		add_rep("P0", 1, 5, 0, NULL);
		add_req("P3", 0, RESEND, A, 4, 4, QP3);
		add_req("P2", 0, RESEND, A, 4, 3, QP2);
		add_req("P4", 0, INF, A, 4, 3, QP4);
		add_req("P0", 1, INF, A, 4, 0, NULL);
		add_req("P5", 0, RESEND, A, 4, 5, QP5);
		add_rep("P1", 0, 5, 4, PP1);
		add_rep("P3", 1, 5, 4, PP3);
		add_rep("P2", 0, 4, 2, PP2);
		add_rep("P1", 1, 4, 4, PP1);
		add_rep("P0", 0, 6, 0, NULL);
		add_req("P0", 1, RESEND, A - 2, 5, 0, NULL);
		add_req("P1", 0, INF, A, 4, 2, QP1);
		add_req("P2", 1, RESEND, A, 4, 3, QP2);
		add_rep("P0", 1, 6, 0, NULL);
	}

	int skipped = 0;
	for (int i = 0; i < npl; i++) {
		if (i == 3) {
			// schedule exploration of the three races: quick <= 2
			// deviations, thorough <= 3 (4 for the small reply||cancel
			// tree); scheduled after the three main enumerations
			if (affordable(T ? 12000 : 1500)) {
				explore_race("race-queued-reply", 0, 1, T ? 2 : 1, 1,
				    T ? 3 : 2);
				// (the small reply||cancel tree affords three deviations in the
				// quick tier too: "completion clears its state after the unlock"
				// slips need the canceller held back across two other threads)
				explore_race("race-reply-cancel", 1, 2, 2, 0, T ? 4 : 3);
				{
					vx_cfg c2;
					memset(&c2, 0, sizeof(c2));
					c2.prop     = "C04";
					c2.scenario = "race-rep-two-senders";
					c2.run      = run_rep2send;
					c2.budget[VB_PREEMPT] = T ? 2 : 1;
					c2.budget[VB_SWITCH]  = 1;
					c2.budget[VB_ENV]     = -1;
					c2.total              = T ? 2 : 1;
					vx_explore(&c2, NULL);
				}
				explore_race("race-reply-send", 2, T ? 2 : 1, T ? 2 : 1,
				    0, T ? 3 : 2);
			} else
				skipped += 3;
		}
		double need = 1;
		int    d    = PL[i].is_rep ? PL[i].p.depth : PL[i].q.depth;
		for (int k = 0; k < d; k++)
			need *= PL[i].is_rep ? P_NLETTER : PL[i].q.nal;
		if (!affordable(need))
			skipped++;
		else if (PL[i].is_rep)
			explore(PL[i].p.name, run_rep, &PL[i].p);
		else
			explore(PL[i].q.name, run_req, &PL[i].q);
	}
	vx_note("alphabet_req",
	    "%d letters: send/recv(aio)/cancel x 2 participants, reply(x) x in "
	    "{cur0,cur1,prev0,next-unallocated,cur0 without bit31,3-byte junk}; "
	    "wire read after every letter; closing phase answers, drains, "
	    "replays every old id, fresh round trip",
	    Q_NLETTER);
	vx_note("alphabet_rep",
	    "%d letters: 2 raw requesters x backtraces of 0-2 hops with identical "
	    "ids/hop words, recv(aio)/send x 2 participants; closing phase "
	    "answers and drains every request",
	    P_NLETTER);
	vx_note("bounds", "req depth %d (seeded %d), rep depth %d (seeded %d), "
	                  "scenarios skipped for time: %d of %d",
	    dq, ds, dp, dps, skipped, npl + 3);
	return vx_finish();
}
