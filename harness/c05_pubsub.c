// C05 - PUB/SUB: delivery iff a current subscription prefixes the body.
// All letter sequences to depth d (from the initial state and from seeded
// non-initial states) on a real SUB socket (master + one context) fed by a
// raw publisher over socket://, against the reference model of DESIGN A.3.
#define _GNU_SOURCE
#include "vpeer.h"
#include "vs.h"
#include "orderrace.h"
#include <pthread.h>
#include <stdlib.h>
#include <string.h>
#include <unistd.h>

enum { L_SUB, L_UNSUB, L_RECV, L_PUB, L_RECVBUF, L_PREFNEW };
typedef struct letter {
	int         kind, c; // c: 0 = socket (master), 1 = context
	const char *s;
	int         n; // string length / buffer size / bool
} letter;
static letter AL[64];
static int    NAL;
static int    g_depth;
static const int *g_prefix;
static int        g_prefix_len;

static int
add(int kind, int c, const char *s, int n)
{
	AL[NAL] = (letter){ kind, c, s, n };
	return NAL++;
}

static void
mk_alphabet(int full)
{
	static const char *TQ[] = { "", "a", "ab" };
	static const char *TF[] = { "", "a", "ab", "b", "\0" };
	static const int   TFL[] = { 0, 1, 2, 1, 1 };
	static const char *BQ[] = { "", "a", "ab", "b" };
	static const char *BF[] = { "", "a", "ab", "abc", "b", "ba" };
	for (int c = 0; c < 2; c++) {
		int nt = full ? 5 : 3;
		for (int i = 0; i < nt; i++)
			add(L_SUB, c, full ? TF[i] : TQ[i],
			    full ? TFL[i] : (int) strlen(TQ[i]));
		for (int i = 0; i < nt; i++)
			add(L_UNSUB, c, full ? TF[i] : TQ[i],
			    full ? TFL[i] : (int) strlen(TQ[i]));
		add(L_RECV, c, NULL, 0);
		add(L_RECVBUF, c, NULL, 1);
		if (full) {
			add(L_RECVBUF, c, NULL, 2);
			add(L_RECVBUF, c, NULL, 4);
		}
		add(L_PREFNEW, c, NULL, 0);
		add(L_PREFNEW, c, NULL, 1);
	}
	int nb = full ? 6 : 4;
	for (int i = 0; i < nb; i++)
		add(L_PUB, 0, full ? BF[i] : BQ[i],
		    (int) strlen(full ? BF[i] : BQ[i]));
}

static int
find(int kind, int c, const char *s, int n)
{
	for (int i = 0; i < NAL; i++)
		if (AL[i].kind == kind && AL[i].c == c && AL[i].n == n &&
		    (s == NULL || (AL[i].s && memcmp(AL[i].s, s, (size_t) n) == 0)))
			return i;
	abort();
}

// ---- model ------------------------------------------------------------------
typedef struct qcand {
	int  len;
	char m[8][4];
	int  ml[8];
} qcand;
typedef struct mctx {
	char  topic[8][4];
	int   tl[8];
	int   nt;
	int   cap;
	int   prefnew;
	qcand cand[4]; // possible queue contents (resize may keep either end)
	int   nc;
} mctx;

static int
m_match(mctx *c, const char *b, int bl)
{
	for (int i = 0; i < c->nt; i++)
		if (c->tl[i] <= bl && memcmp(c->topic[i], b, (size_t) c->tl[i]) == 0)
			return 1;
	return 0;
}

static const char *
lname(int l)
{
	static char b[4][48];
	static int  r;
	char       *o = b[r++ & 3];
	letter     *x = &AL[l];
	const char *w = x->c ? "ctx" : "sock";
	switch (x->kind) {
	case L_SUB:
		snprintf(o, 48, "sub(%s,%s)", w, vh_hex(x->s, (size_t) x->n));
		break;
	case L_UNSUB:
		snprintf(o, 48, "unsub(%s,%s)", w, vh_hex(x->s, (size_t) x->n));
		break;
	case L_RECV:
		snprintf(o, 48, "recv(%s)", w);
		break;
	case L_PUB:
		snprintf(o, 48, "pub(%s)", vh_hex(x->s, (size_t) x->n));
		break;
	case L_RECVBUF:
		snprintf(o, 48, "recvbuf(%s,%d)", w, x->n);
		break;
	default:
		snprintf(o, 48, "prefnew(%s,%d)", w, x->n);
		break;
	}
	return o;
}

static void
run_sub(void *arg)
{
	(void) arg;
	vh_init(0);
	nng_socket s;
	nng_ctx    cx;
	VH_OK(nng_sub0_open(&s));
	VH_OK(nng_socket_set_int(s, NNG_OPT_RECVBUF, 2));
	VH_OK(nng_ctx_open(&cx, s));
	int fd = vp_connect_raw(s, SP_PUB, NULL);
	if (fd < 0)
		vs_fail("harness:setup", "raw publisher could not connect");
	mctx M[2];
	memset(M, 0, sizeof(M));
	for (int c = 0; c < 2; c++) {
		M[c].cap     = 2;
		M[c].prefnew = 1;
		M[c].nc      = 1;
	}
	char seq[400] = "";
	int  total    = g_prefix_len + g_depth;
	for (int step = 0; step < total; step++) {
		int l = step < g_prefix_len ? g_prefix[step] : vs_choose(VK_ENV, NAL);
		letter *x = &AL[l];
		mctx   *m = &M[x->c];
		snprintf(seq + strlen(seq), sizeof(seq) - strlen(seq), "%s%s",
		    step ? " " : "", lname(l));
		int rv;
		switch (x->kind) {
		case L_SUB:
			rv = x->c ? nng_sub0_ctx_subscribe(cx, x->s, (size_t) x->n)
			          : nng_sub0_socket_subscribe(s, x->s, (size_t) x->n);
			if (rv != 0)
				vs_fail("C05:subscribe", "[%s] -> %d", seq, rv);
			{
				int have = 0;
				for (int i = 0; i < m->nt; i++)
					if (m->tl[i] == x->n &&
					    memcmp(m->topic[i], x->s, (size_t) x->n) == 0)
						have = 1;
				if (!have) {
					memcpy(m->topic[m->nt], x->s, (size_t) x->n);
					m->tl[m->nt++] = x->n;
				}
			}
			break;
		case L_UNSUB: {
			rv = x->c ? nng_sub0_ctx_unsubscribe(cx, x->s, (size_t) x->n)
			          : nng_sub0_socket_unsubscribe(s, x->s, (size_t) x->n);
			int at = -1;
			for (int i = 0; i < m->nt; i++)
				if (m->tl[i] == x->n &&
				    memcmp(m->topic[i], x->s, (size_t) x->n) == 0)
					at = i;
			if (rv != (at >= 0 ? 0 : NNG_ENOENT))
				vs_fail("C05:unsubscribe",
				    "[%s] -> %d, subscription was %s", seq, rv,
				    at >= 0 ? "present" : "absent");
			if (at >= 0) {
				m->nt--;
				memcpy(m->topic[at], m->topic[m->nt], 4);
				m->tl[at] = m->tl[m->nt];
				// queued messages that no longer match go away
				for (int k = 0; k < m->nc; k++) {
					qcand *q = &m->cand[k];
					int    w = 0;
					for (int i = 0; i < q->len; i++)
						if (m_match(m, q->m[i], q->ml[i])) {
							memcpy(q->m[w], q->m[i], 4);
							q->ml[w++] = q->ml[i];
						}
					q->len = w;
				}
			}
		} break;
		case L_RECV: {
			nng_msg *msg = NULL;
			int64_t  t0  = vs_now();
			rv = x->c ? nng_ctx_recvmsg(cx, &msg, NNG_FLAG_NONBLOCK)
			          : nng_recvmsg(s, &msg, NNG_FLAG_NONBLOCK);
			if (vs_now() != t0)
				vs_fail("C05:recv-blocked", "[%s] non-blocking recv took time",
				    seq);
			// must agree with at least one candidate queue
			int nk = 0;
			for (int k = 0; k < m->nc; k++) {
				qcand *q  = &m->cand[k];
				int    ok = 0;
				if (q->len == 0)
					ok = (rv == NNG_EAGAIN);
				else
					ok = (rv == 0 &&
					    (int) nng_msg_len(msg) == q->ml[0] &&
					    memcmp(nng_msg_body(msg), q->m[0],
					        (size_t) q->ml[0]) == 0);
				if (ok) {
					if (q->len) {
						memmove(q->m[0], q->m[1], 4 * 7);
						memmove(&q->ml[0], &q->ml[1], sizeof(int) * 7);
						q->len--;
					}
					m->cand[nk++] = *q;
				}
			}
			if (nk == 0) {
				qcand *q = &m->cand[0];
				char   got[40];
				if (rv == 0)
					snprintf(got, sizeof(got), "message %s",
					    vh_hex(nng_msg_body(msg), nng_msg_len(msg)));
				else
					snprintf(got, sizeof(got), "error %d", rv);
				vs_fail(rv == 0 && q->len == 0 ? "C05:phantom-delivery"
				        : rv != 0              ? "C05:lost-delivery"
				                               : "C05:wrong-message",
				    "[%s] recv(%s) gave %s; model queue holds %d message(s)%s%s",
				    seq, x->c ? "ctx" : "sock", got, q->len,
				    q->len ? ", head " : "",
				    q->len ? vh_hex(q->m[0], (size_t) q->ml[0]) : "");
			}
			m->nc = nk;
			if (msg)
				nng_msg_free(msg);
		} break;
		case L_PUB:
			if (vp_send(fd, NULL, 0, x->s, (size_t) x->n) != 0)
				vs_fail("harness:peer", "[%s] raw write failed", seq);
			vs_settle();
			for (int c = 0; c < 2; c++) {
				mctx *mc = &M[c];
				if (!m_match(mc, x->s, x->n))
					continue;
				for (int k = 0; k < mc->nc; k++) {
					qcand *q = &mc->cand[k];
					if (q->len >= mc->cap) {
						if (!mc->prefnew)
							continue;
						memmove(q->m[0], q->m[1], 4 * 7);
						memmove(&q->ml[0], &q->ml[1], sizeof(int) * 7);
						q->len--;
					}
					memcpy(q->m[q->len], x->s, (size_t) x->n);
					q->ml[q->len++] = x->n;
				}
			}
			break;
		case L_RECVBUF:
			rv = x->c ? nng_ctx_set_int(cx, NNG_OPT_RECVBUF, x->n)
			          : nng_socket_set_int(s, NNG_OPT_RECVBUF, x->n);
			if (rv != 0)
				vs_fail("C05:recvbuf", "[%s] -> %d", seq, rv);
			m->cap = x->n;
			{
				// survivors: a contiguous run at either end
				int nk = m->nc;
				for (int k = 0; k < m->nc && nk < 4; k++) {
					qcand *q = &m->cand[k];
					if (q->len > x->n) {
						qcand t    = *q;
						int   drop = q->len - x->n;
						memmove(t.m[0], t.m[drop], 4 * (size_t) x->n);
						memmove(&t.ml[0], &t.ml[drop],
						    sizeof(int) * (size_t) x->n);
						t.len         = x->n;
						q->len        = x->n;
						m->cand[nk++] = t;
					}
				}
				m->nc = nk;
			}
			break;
		case L_PREFNEW:
			rv = x->c ? nng_ctx_set_bool(cx, NNG_OPT_SUB_PREFNEW, x->n != 0)
			          : nng_socket_set_bool(s, NNG_OPT_SUB_PREFNEW, x->n != 0);
			if (rv != 0)
				vs_fail("C05:prefnew", "[%s] -> %d", seq, rv);
			m->prefnew = x->n;
			break;
		}
	}
	// final drain: everything the model still holds must come out, in order
	for (int c = 0; c < 2; c++) {
		for (int guard = 0; guard < 10; guard++) {
			nng_msg *msg = NULL;
			int rv = c ? nng_ctx_recvmsg(cx, &msg, NNG_FLAG_NONBLOCK)
			           : nng_recvmsg(s, &msg, NNG_FLAG_NONBLOCK);
			mctx *m = &M[c];
			int   nk = 0;
			for (int k = 0; k < m->nc; k++) {
				qcand *q  = &m->cand[k];
				int    ok = q->len == 0
				       ? rv == NNG_EAGAIN
				       : (rv == 0 && (int) nng_msg_len(msg) == q->ml[0] &&
                                             memcmp(nng_msg_body(msg), q->m[0],
                                                 (size_t) q->ml[0]) == 0);
				if (ok) {
					if (q->len) {
						memmove(q->m[0], q->m[1], 4 * 7);
						memmove(&q->ml[0], &q->ml[1], sizeof(int) * 7);
						q->len--;
					}
					m->cand[nk++] = *q;
				}
			}
			if (nk == 0)
				vs_fail("C05:drain",
				    "[%s] final drain of %s disagrees with the model (rv %d, "
				    "model holds %d)",
				    seq, c ? "ctx" : "sock", rv, m->cand[0].len);
			m->nc = nk;
			if (msg)
				nng_msg_free(msg);
			if (rv != 0)
				break;
		}
	}
	vs_log("%s", seq);
	vs_outcome("q0=%d q1=%d t0=%d t1=%d", M[0].cand[0].len, M[1].cand[0].len,
	    M[0].nt, M[1].nt);
	close(fd);
	nng_ctx_close(cx);
	nng_socket_close(s);
	vh_fini();
}

// ---- PUB never blocks ---------------------------------------------------------
static void
run_pub(void *arg)
{
	int sendbuf = (int) (intptr_t) arg;
	vh_init(0);
	nng_socket s;
	VH_OK(nng_pub0_open(&s));
	VH_OK(nng_socket_set_int(s, NNG_OPT_SENDBUF, sendbuf));
	VH_OK(nng_socket_set_ms(s, NNG_OPT_SENDTIMEO, 1000));
	int fd = vp_connect_raw(s, SP_SUB, NULL);
	if (fd < 0)
		vs_fail("harness:setup", "raw subscriber could not connect");
	int64_t t0 = vs_now();
	char    body[600];
	memset(body, 'x', sizeof(body));
	int N = sendbuf * 3 + 700; // far beyond any buffer incl. the kernel's
	for (int i = 0; i < N; i++) {
		nng_msg *m;
		VH_OK(nng_msg_alloc(&m, 0));
		VH_OK(nng_msg_append(m, body, sizeof(body)));
		int mode = (i & 1);
		int rv   = nng_sendmsg(s, m, mode ? NNG_FLAG_NONBLOCK : 0);
		if (rv != 0) {
			nng_msg_free(m);
			vs_fail("C05:pub-send", "PUB send #%d (%s) -> %d", i,
			    mode ? "nonblock" : "blocking", rv);
		}
		if (vs_now() != t0)
			vs_fail("C05:pub-blocked",
			    "PUB send #%d blocked for %lld virtual ms", i,
			    (long long) (vs_now() - t0));
	}
	// the subscriber sees a prefix-consistent stream of whole frames
	vp_rd *r = calloc(1, sizeof(*r));
	int    got = 0;
	for (;;) {
		const uint8_t *p;
		size_t         len;
		vs_settle();
		int k = vp_next_frame(fd, r, &p, &len);
		if (k <= 0)
			break;
		if (len != sizeof(body) || memcmp(p, body, len) != 0)
			vs_fail("C05:pub-corrupt", "frame %d has length %zu", got, len);
		got++;
	}
	free(r);
	if (got == 0 || got > N)
		vs_fail("C05:pub-delivery", "subscriber saw %d of %d frames", got, N);
	vs_outcome("sendbuf=%d delivered=%s", sendbuf, got == N ? "all" : "some");
	vs_log("sendbuf=%d sent=%d delivered=%d", sendbuf, N, got);
	close(fd);
	nng_socket_close(s);
	vh_fini();
}

// ---- schedules: subscription changes racing with each other and with delivery --------------------
// (a) two threads subscribe the SAME topic at the same time; afterwards ONE unsubscribe removes the
//     subscription: a second unsubscribe fails with NNG_ENOENT and a matching message is not
//     delivered (delivery iff a current subscription prefixes the body).
// (b) a context is opened and subscribed while a matching message is being delivered to the socket:
//     socket and context receive independent copies - modifying one does not alter the other and
//     both can be freed.
static nng_socket rs_sub, rs_pub;
static int        rs_rv[2];
static void *
rs_subscriber(void *a)
{
	rs_rv[(int) (intptr_t) a] = nng_sub0_socket_subscribe(rs_sub, "ab", 2);
	return NULL;
}
static nng_ctx rs_ctx;
static int     rs_ctx_open;
static void *
rs_opener(void *a)
{
	(void) a;
	if (nng_ctx_open(&rs_ctx, rs_sub) == 0) {
		rs_ctx_open = 1;
		if (nng_sub0_ctx_subscribe(rs_ctx, "", 0) != 0)
			vs_fail("harness:rs", "ctx subscribe");
	}
	return NULL;
}
static void *
rs_publisher(void *a)
{
	(void) a;
	vh_send_nb(rs_pub, "abXYZ", 5);
	return NULL;
}
static void
run_subrace(void *arg)
{
	int kind = (int) (intptr_t) arg;
	vh_init(0);
	VH_OK(nng_sub0_open(&rs_sub));
	VH_OK(nng_pub0_open(&rs_pub));
	VH_OK(nng_socket_set_ms(rs_sub, NNG_OPT_RECVTIMEO, 20));
	VH_OK(nng_listen(rs_pub, "inproc://c05race", NULL, 0));
	VH_OK(nng_dial(rs_sub, "inproc://c05race", NULL, 0));
	vs_settle();
	pthread_t t[2];
	if (kind == 0) {
		vs_window(1);
		pthread_create(&t[0], NULL, rs_subscriber, (void *) 0);
		pthread_create(&t[1], NULL, rs_subscriber, (void *) 1);
		pthread_join(t[0], NULL);
		pthread_join(t[1], NULL);
		vs_window(0);
		if (rs_rv[0] != 0 || rs_rv[1] != 0)
			vs_fail("C05:subscribe-result", "concurrent subscribes -> %d / %d", rs_rv[0],
			    rs_rv[1]);
		// the topic is subscribed: a matching message arrives
		vh_send_nb(rs_pub, "ab1", 3);
		vs_settle();
		nng_msg *m;
		if (nng_recvmsg(rs_sub, &m, NNG_FLAG_NONBLOCK) != 0)
			vs_fail("C05:missed", "subscribed twice to 'ab', message 'ab1' not delivered");
		nng_msg_free(m);
		int u1 = nng_sub0_socket_unsubscribe(rs_sub, "ab", 2);
		int u2 = nng_sub0_socket_unsubscribe(rs_sub, "ab", 2);
		if (u1 != 0)
			vs_fail("C05:unsubscribe-result", "first unsubscribe -> %s", nng_strerror(u1));
		vh_send_nb(rs_pub, "ab2", 3);
		vs_settle();
		if (nng_recvmsg(rs_sub, &m, NNG_FLAG_NONBLOCK) == 0) {
			nng_msg_free(m);
			vs_fail("C05:delivered-without-subscription",
			    "topic 'ab' was subscribed by two threads at once and then unsubscribed "
			    "(result 0): 'ab2' was still delivered (second unsubscribe -> %s)",
			    u2 ? nng_strerror(u2) : "success");
		}
		if (u2 != NNG_ENOENT)
			vs_fail("C05:unsubscribe-result",
			    "second unsubscribe of 'ab' -> %s, want NNG_ENOENT",
			    u2 ? nng_strerror(u2) : "success");
		vs_outcome("subsub");
	} else {
		VH_OK(nng_sub0_socket_subscribe(rs_sub, "", 0));
		rs_ctx_open = 0;
		vs_window(1);
		pthread_create(&t[0], NULL, rs_opener, NULL);
		pthread_create(&t[1], NULL, rs_publisher, NULL);
		pthread_join(t[0], NULL);
		pthread_join(t[1], NULL);
		vs_settle();
		vs_window(0);
		nng_msg *ms = NULL, *mc = NULL;
		int      r1 = nng_recvmsg(rs_sub, &ms, NNG_FLAG_NONBLOCK);
		int      r2 = rs_ctx_open ? nng_ctx_recvmsg(rs_ctx, &mc, NNG_FLAG_NONBLOCK) : -1;
		if (r1 != 0)
			vs_fail("C05:missed", "socket subscribed to everything did not get the message");
		if (r2 == 0) {
			if (ms == mc)
				vs_fail("C05:shared-message",
				    "socket and context were handed the same message object");
			// independent copies: scribbling over one leaves the other intact
			memset(nng_msg_body(ms), 'z', nng_msg_len(ms));
			if (nng_msg_len(mc) != 5 || memcmp(nng_msg_body(mc), "abXYZ", 5) != 0)
				vs_fail("C05:altered", "context's copy changed when the socket's was modified");
			nng_msg_free(mc);
		}
		nng_msg_free(ms);
		vs_outcome("ctxopen ctxgot=%d", r2 == 0);
		if (rs_ctx_open)
			nng_ctx_close(rs_ctx);
	}
	vs_nontrivial();
	nng_socket_close(rs_sub);
	nng_socket_close(rs_pub);
	vh_fini();
}

// ---- raw XSUB: overflow, then business as usual -----------------------------------------------------------------
// two publishers feed one raw SUB socket (no filtering in raw mode: everything is delivered) whose receive
// buffer holds rb messages.  Publisher A overruns it by `over` messages while nobody reads (exactly one
// message is dropped per arrival that finds the buffer full - here the new one), the application drains,
// and then BOTH publishers are heard again: a dropped arrival must not cost anything but itself.
static void
xs_pub(nng_socket s, char who, int k)
{
	char b[4] = { who, (char) ('0' + k / 10), (char) ('0' + k % 10), 0 };
	int  rv   = vh_send_nb(s, b, 3);
	if (rv != 0)
		vs_fail("C05:pub-blocked", "publisher %c: non-blocking send %d -> %s", who, k, nng_strerror(rv));
	vs_settle();
}
static int
xs_drain(nng_socket x, char *out, int max)
{
	int n = 0;
	for (;;) {
		nng_msg *m = NULL;
		if (nng_recvmsg(x, &m, NNG_FLAG_NONBLOCK) != 0)
			break;
		if (nng_msg_len(m) != 3)
			vs_fail("C05:altered", "raw SUB delivered %zu bytes, 3 were published", nng_msg_len(m));
		if (n < max) {
			memcpy(out + 3 * n, nng_msg_body(m), 3);
			n++;
		}
		nng_msg_free(m);
		vs_settle();
	}
	out[3 * n] = 0;
	return n;
}
static void
run_xsub(void *arg)
{
	(void) arg;
	static const int RB[] = { 1, 2, 4 };
	vh_init(0);
	nng_socket x, a, b;
	int        rb   = RB[vs_choose(VK_ENV, 3)];
	int        over = vs_choose(VK_ENV, 4);      // arrivals beyond the capacity: 0 .. 3
	int        fromb = vs_choose(VK_ENV, 2);     // the last overflowing arrival comes from B
	VH_OK(nng_sub0_open_raw(&x));
	VH_OK(nng_socket_set_int(x, NNG_OPT_RECVBUF, rb));
	VH_OK(nng_pub0_open(&a));
	VH_OK(nng_pub0_open(&b));
	VH_OK(nng_listen(x, "inproc://c05xsub", NULL, 0));
	VH_OK(nng_dial(a, "inproc://c05xsub", NULL, 0));
	VH_OK(nng_dial(b, "inproc://c05xsub", NULL, 0));
	vs_settle();
	char want[3 * 16 + 1] = "", got[3 * 16 + 1];
	int  nw = 0;
	for (int k = 0; k < rb + over; k++) {
		char who = (fromb && k == rb + over - 1) ? 'B' : 'A';
		xs_pub(who == 'A' ? a : b, who, k);
		if (k < rb) { // (the rest finds the buffer full)
			char t[4] = { who, (char) ('0' + k / 10), (char) ('0' + k % 10), 0 };
			memcpy(want + 3 * nw++, t, 4);
		}
	}
	int n = xs_drain(x, got, 16);
	if (n != nw || strcmp(got, want) != 0)
		vs_fail("C05:overflow",
		    "raw SUB, recvbuf %d, %d arrivals with nobody reading: delivered [%s], want the first %d "
		    "[%s] (one drop per arrival that finds the buffer full)",
		    rb, rb + over, got, nw, want);
	// room again: every further message of both publishers arrives, in order
	want[0] = 0;
	nw      = 0;
	for (int k = 20; k < 24; k++) {
		char who = (k & 1) ? 'B' : 'A';
		char t[8];
		xs_pub(who == 'A' ? a : b, who, k);
		snprintf(t, sizeof(t), "%c%02d", who, k);
		n = xs_drain(x, got, 16);
		if (strcmp(got, t) != 0)
			vs_fail("C05:lost-after-overflow",
			    "raw SUB, recvbuf %d, after %d overflowing arrival(s)%s and a drain: %c published "
			    "one message into the empty buffer, delivered [%s] (want [%s])",
			    rb, over, fromb ? " (last one from B)" : "", who, got, t);
	}
	vs_nontrivial();
	vs_outcome("rb=%d over=%d", rb, over);
	nng_socket_close(a);
	nng_socket_close(b);
	nng_socket_close(x);
	vh_fini();
}

static void
explore(const char *name, void (*fn)(void *), void *arg)
{
	vx_cfg c;
	memset(&c, 0, sizeof(c));
	c.prop     = "C05";
	c.scenario = name;
	c.run      = fn;
	c.arg      = arg;
	for (int i = 0; i < VB_NB; i++)
		c.budget[i] = 0;
	c.budget[VB_ENV] = -1;
	c.total          = 0;
	vx_explore(&c, NULL);
}

int
main(int argc, char **argv)
{
	vx_init(argc, argv, "C05");
	int T = vx_is_thorough();
	mk_alphabet(T);
	g_depth = T ? 4 : 3;
	// seeded non-initial states (forced prefixes)
	int  P[8][8];
	int  PL[8];
	int  np = 0;
	PL[np++] = 0;
	// P1: both queues full
	P[np][0] = find(L_SUB, 0, "", 0);
	P[np][1] = find(L_SUB, 1, "a", 1);
	P[np][2] = find(L_PUB, 0, "a", 1);
	P[np][3] = find(L_PUB, 0, "ab", 2);
	PL[np++] = 4;
	// P2: overlapping subscriptions, different queue contents
	P[np][0] = find(L_SUB, 0, "a", 1);
	P[np][1] = find(L_SUB, 0, "ab", 2);
	P[np][2] = find(L_SUB, 1, "", 0);
	P[np][3] = find(L_PUB, 0, "ab", 2);
	P[np][4] = find(L_PUB, 0, "b", 1);
	PL[np++] = 5;
	// P3: full queues, drop-new policy on the socket
	P[np][0] = find(L_SUB, 0, "", 0);
	P[np][1] = find(L_PREFNEW, 0, NULL, 0);
	P[np][2] = find(L_PUB, 0, "a", 1);
	P[np][3] = find(L_PUB, 0, "b", 1);
	PL[np++] = 4;
	// P4: a queued message that a later unsubscribe orphans
	P[np][0] = find(L_SUB, 0, "ab", 2);
	P[np][1] = find(L_SUB, 0, "a", 1);
	P[np][2] = find(L_PUB, 0, "a", 1);
	P[np][3] = find(L_PUB, 0, "ab", 2);
	PL[np++] = 4;
	// P5: depth-1 buffer on the context
	P[np][0] = find(L_RECVBUF, 1, NULL, 1);
	P[np][1] = find(L_SUB, 1, "", 0);
	P[np][2] = find(L_PUB, 0, "a", 1);
	PL[np++] = 3;
	// schedule scenarios first (bounded size), then the sequence enumerations, deepest last
	for (int k = 0; k < 2; k++) {
		vx_cfg c2;
		memset(&c2, 0, sizeof(c2));
		c2.prop     = "C05";
		c2.scenario = k ? "race-ctxopen-delivery" : "race-subscribe-subscribe";
		c2.run      = run_subrace;
		c2.arg      = (void *) (intptr_t) k;
		c2.budget[VB_PREEMPT] = vx_is_thorough() ? 2 : 1;
		c2.budget[VB_SWITCH]  = 2;
		c2.budget[VB_ENV]     = -1;
		c2.total              = 2;
		vx_explore(&c2, NULL);
	}
	{
		static const orc_arg OR[] = { { "C05", "pubsub", nng_pub0_open, nng_sub0_open, 1 }, { "C05", "xpub-xsub", nng_pub0_open_raw, nng_sub0_open_raw, 0 } };
		for (int i = 0; i < 2; i++)
			if (i == 0 || vx_is_thorough())
				orc_explore_tiers(&OR[i]);
	}
	for (int i = 0; i < np; i++) {
		char name[40];
		// quick: full depth from the initial state, depth-1 from seeded ones
		// thorough: depth 4 from the initial state (about 2 M executions, last), 3 from the seeded ones
		if (T && i == 0)
			continue;
		g_depth = T ? 3 : (i == 0 ? 3 : 2);
		snprintf(name, sizeof(name), "sub-P%d-d%d", i, g_depth);
		g_prefix     = P[i];
		g_prefix_len = PL[i];
		if (vx_time_left() < 20)
			break;
		explore(name, run_sub, NULL);
	}
	explore("xsub-overflow-then-resume", run_xsub, NULL);
	explore("pub-sendbuf1", run_pub, (void *) 1);
	explore("pub-sendbuf8", run_pub, (void *) 8);
	if (T) {
		g_depth      = 4;
		g_prefix     = P[0];
		g_prefix_len = 0;
		explore("sub-P0-d4", run_sub, NULL);
	}
	vx_note("alphabet", "%d letters: sub/unsub(sock|ctx, topic) recv recvbuf "
	                    "prefnew pub(body); depth %d; 6 seeded start states",
	    NAL, g_depth);
	return vx_finish();
}
