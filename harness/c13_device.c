// C13 - devices route replies back correctly and hop limits kill loops.
//
// Scenario 1 (chains): requesters -> k x nng_device_aio(xrep,xreq) -> REP (and
//   the SURVEYOR/RESPONDENT equivalent), every (k, TTL vector) of a table;
//   tagged bodies, exact routing oracle, hop-limit oracle that is strict on
//   both sides of the boundary and accepts both outcomes at the boundary.
// Scenario 2 (loops): devices wired in a cycle (optionally through a raw tap
//   owned by the harness that counts the frames going round); must go quiet.
// Scenario 3 (crafted backtraces): raw peers feed REP / XREP / RESPONDENT /
//   XRESPONDENT / XREQ / XSURVEYOR with backtraces of 0..20 words with and
//   without a terminating id.
#define _GNU_SOURCE
#include "vpeer.h"
#include "vs.h"
#include <pthread.h>
#include <stdlib.h>
#include <string.h>
#include <unistd.h>

// ---- protocol families ----------------------------------------------------------
typedef struct fam {
	const char *name;
	int (*front)(nng_socket *);   // REQ / SURVEYOR (cooked)
	int (*back)(nng_socket *);    // REP / RESPONDENT (cooked)
	int (*dev_in)(nng_socket *);  // raw REP / raw RESPONDENT (faces the front)
	int (*dev_out)(nng_socket *); // raw REQ / raw SURVEYOR (faces the back)
	uint16_t front_proto, back_proto;
} fam;
static const fam FAM[2] = {
	{ "reqrep", nng_req0_open, nng_rep0_open, nng_rep0_open_raw,
	    nng_req0_open_raw, SP_REQ, SP_REP },
	{ "survey", nng_surveyor0_open, nng_respondent0_open,
	    nng_respondent0_open_raw, nng_surveyor0_open_raw, SP_SURVEYOR,
	    SP_RESPONDENT },
};

#define MAXDEV 18
typedef struct dev {
	nng_socket in, out;
	nng_aio   *aio;
	int        done, result;
} dev;
static dev D[MAXDEV];
static int g_teardown;

static void
dev_cb(void *arg)
{
	dev *d    = arg;
	d->done   = 1;
	d->result = (int) nng_aio_result(d->aio);
	if (!g_teardown)
		vs_fail("C13:device-stopped", "nng_device_aio finished with %d (%s)",
		    d->result, nng_strerror(d->result));
}

static void
dev_start(dev *d, const fam *f, int ttl)
{
	VH_OK(f->dev_in(&d->in));
	VH_OK(f->dev_out(&d->out));
	if (ttl > 0) { // (0: the option is set later, when the connections exist)
		VH_OK(nng_socket_set_int(d->in, NNG_OPT_MAXTTL, ttl));
		VH_OK(nng_socket_set_int(d->out, NNG_OPT_MAXTTL, ttl));
	}
	VH_OK(nng_aio_alloc(&d->aio, dev_cb, d));
	d->done = 0;
}

// a running device owns its two sockets (nng_socket_close on them reports
// NNG_EBUSY); cancelling the device aio is the way to shut it down
static void
dev_stop(dev *d)
{
	nng_aio_cancel(d->aio);
	nng_aio_wait(d->aio);
	nng_aio_free(d->aio);
	nng_socket_close(d->in);
	nng_socket_close(d->out);
}

// ---- requester / surveyor side ------------------------------------------------------
typedef struct rq {
	const char *tag;
	size_t      taglen;
	nng_aio    *saio, *raio;
	int         s_ncb, s_res, ncb, res;
	int64_t     t_start, t_cb;
	uint8_t     rbody[400];
	size_t      rlen;
	int         arrived; // times seen by the replier
} rq;

static void
rq_recv_cb(void *arg)
{
	rq *r = arg;
	r->ncb++;
	r->res  = (int) nng_aio_result(r->raio);
	r->t_cb = vs_now();
	if (r->ncb > 1)
		vs_fail("C13:chain:duplicate", "receive completed twice");
	if (r->res == 0) {
		nng_msg *m = nng_aio_get_msg(r->raio);
		r->rlen    = nng_msg_len(m);
		memcpy(r->rbody, nng_msg_body(m),
		    r->rlen < sizeof(r->rbody) ? r->rlen : sizeof(r->rbody));
		nng_msg_free(m);
	}
}
static void
rq_send_cb(void *arg)
{
	rq *r = arg;
	r->s_ncb++;
	r->s_res = (int) nng_aio_result(r->saio);
	if (r->s_res != 0) {
		nng_msg *m = nng_aio_get_msg(r->saio);
		if (m)
			nng_msg_free(m);
	}
}

// ---- scenario 1: chains --------------------------------------------------------------
typedef struct ccfg {
	int k;               // devices
	int ttl[MAXDEV + 1]; // ttl[i-1] for the i-th receiving socket, i = 1..k+1
	int ctxs;            // 0: two front sockets, 1: one socket with two contexts
} ccfg;
static ccfg *CC[2];
static int   NCC[2];
// configurations of the schedule exploration (window around the submission and
// forwarding of both requests and around each reply)
static ccfg CS[] = {
	{ 1, { 8, 8 }, 0 },
	{ 1, { 8, 8 }, 1 },
	{ 2, { 2, 2, 2 }, 0 },
};
static int NCS = 3;

#define RECV_TMO 200

static void
run_chain(void *arg)
{
	int        fi    = (int) (intptr_t) arg & 1;
	int        sched = ((int) (intptr_t) arg >> 4) & 1;
	const fam *f     = &FAM[fi];
	ccfg      *c;
	if (sched) {
		c = &CS[vs_choose(VK_ENV, NCS)];
	} else {
		c = &CC[fi][vs_choose(VK_ENV, NCC[fi])];
	}
	int        k  = c->k;
	char       url[40], desc[160];
	int        o = snprintf(desc, sizeof(desc), "%s k=%d %s ttl=", f->name, k,
	           c->ctxs ? "2ctx" : "2sock");
	for (int i = 0; i <= k && o < 150; i++)
		o += snprintf(desc + o, sizeof(desc) - (size_t) o, "%s%d", i ? "," : "",
		    c->ttl[i]);
	// what the statement requires: the i-th receiving socket sees a message that
	// came over i links / through i-1 devices
	int must_deliver = 1, must_drop = 0;
	// ("a message that has already crossed more hops than the receiving socket's MAXTTL is
	// discarded": arriving at the i-th socket it has crossed i hops, so i > ttl means discard)
	for (int i = 1; i <= k + 1; i++) {
		if (i > c->ttl[i - 1]) {
			must_deliver = 0;
			must_drop    = 1;
		}
	}
	g_teardown = 0;
	vh_init(0);
	nng_socket back, front[2];
	nng_ctx    cx[2];
	// the hop limits are configured before anything is connected, or (late) when the whole
	// topology is wired up, just before the devices start: the limit in force is the
	// socket's current one either way
	int late = sched ? 0 : vs_choose(VK_ENV, 2);
	VH_OK(f->back(&back));
	if (!late)
		VH_OK(nng_socket_set_int(back, NNG_OPT_MAXTTL, c->ttl[k]));
	snprintf(url, sizeof(url), "inproc://c13-%d", k);
	VH_OK(nng_listen(back, url, NULL, 0));
	for (int i = k; i >= 1; i--) {
		dev_start(&D[i], f, late ? 0 : c->ttl[i - 1]);
		snprintf(url, sizeof(url), "inproc://c13-%d", i - 1);
		VH_OK(nng_listen(D[i].in, url, NULL, 0));
		snprintf(url, sizeof(url), "inproc://c13-%d", i);
		VH_OK(nng_dial(D[i].out, url, NULL, 0));
		if (!late)
			nng_device_aio(D[i].aio, D[i].in, D[i].out);
	}
	vs_settle();
	int nfront = c->ctxs ? 1 : 2;
	for (int j = 0; j < nfront; j++) {
		VH_OK(f->front(&front[j]));
		if (fi == 0)
			VH_OK(nng_socket_set_ms(
			    front[j], NNG_OPT_REQ_RESENDTIME, NNG_DURATION_INFINITE));
		else
			VH_OK(nng_socket_set_ms(
			    front[j], NNG_OPT_SURVEYOR_SURVEYTIME, RECV_TMO));
		VH_OK(nng_dial(front[j], "inproc://c13-0", NULL, 0));
	}
	if (c->ctxs)
		for (int j = 0; j < 2; j++) {
			VH_OK(nng_ctx_open(&cx[j], front[0]));
			if (fi == 1)
				VH_OK(nng_ctx_set_ms(
				    cx[j], NNG_OPT_SURVEYOR_SURVEYTIME, RECV_TMO));
		}
	vs_settle();
	if (late) {
		VH_OK(nng_socket_set_int(back, NNG_OPT_MAXTTL, c->ttl[k]));
		for (int i = k; i >= 1; i--) {
			VH_OK(nng_socket_set_int(D[i].in, NNG_OPT_MAXTTL, c->ttl[i - 1]));
			VH_OK(nng_socket_set_int(D[i].out, NNG_OPT_MAXTTL, c->ttl[i - 1]));
			nng_device_aio(D[i].aio, D[i].in, D[i].out);
		}
		vs_settle();
	}

	// round 1: bodies that look like backtrace words at their start;
	// round 2: a 300 byte body and an empty one
	static rq      R[2];
	static uint8_t big[300];
	for (size_t i = 0; i < sizeof(big); i++)
		big[i] = (uint8_t) (0xff - (i * 7) % 251);
	memset(R, 0, sizeof(R));
	for (int j = 0; j < 2; j++) {
		VH_OK(nng_aio_alloc(&R[j].saio, rq_send_cb, &R[j]));
		VH_OK(nng_aio_alloc(&R[j].raio, rq_recv_cb, &R[j]));
	}
	char out[120];
	int  oo = snprintf(out, sizeof(out), "%s %s:", f->name,
	     must_deliver ? "within" : must_drop ? "beyond" : "boundary");
	int  rounds   = sched ? 1 : 2;
	char order[3] = "--"; // arrival order at the back socket (round 1)
	for (int rd = 0; rd < rounds; rd++) {
		for (int j = 0; j < 2; j++) {
			rq *r  = &R[j];
			r->ncb = r->s_ncb = r->arrived = 0;
			r->res = r->s_res = -1;
			r->rlen           = 0;
		}
		if (rd == 0) {
			R[0].tag    = "\x81\x00\x00\x01"
			              "A-body";
			R[0].taglen = 10;
			R[1].tag    = "\x00\x00\x00\x02"
			              "B";
			R[1].taglen = 5;
		} else {
			R[0].tag    = (const char *) big;
			R[0].taglen = sizeof(big);
			R[1].tag    = "";
			R[1].taglen = 0;
		}
		if (sched) {
			vs_window(1);
		}
		for (int j = 0; j < 2; j++) {
			rq      *r = &R[j];
			nng_msg *m;
			VH_OK(nng_msg_alloc(&m, 0));
			VH_OK(nng_msg_append(m, r->tag, r->taglen));
			nng_aio_set_msg(r->saio, m);
			nng_aio_set_timeout(r->raio, RECV_TMO);
			r->t_start = vs_now();
			if (c->ctxs) {
				nng_ctx_send(cx[j], r->saio);
				if (!sched)
					vs_settle();
				nng_ctx_recv(cx[j], r->raio);
			} else {
				nng_socket_send(front[j], r->saio);
				if (!sched)
					vs_settle();
				nng_socket_recv(front[j], r->raio);
			}
			if (!sched)
				vs_settle();
		}
		// (schedule exploration: the forwarding through the devices runs
		// inside the window)
		if (sched) {
			vs_settle();
			vs_window(0);
		}
		// the replier / respondent
		int served = 0;
		for (int round = 0; round < 12 && served < 2; round++) {
			nng_msg *m  = NULL;
			int      rv = nng_recvmsg(back, &m, NNG_FLAG_NONBLOCK);
			if (rv == NNG_EAGAIN) {
				vs_sleep(5);
				vs_settle();
				continue;
			}
			if (rv != 0)
				vs_fail("harness:back-recv", "[%s] recv -> %d", desc, rv);
			rq *r = NULL;
			for (int j = 0; j < 2; j++)
				if (nng_msg_len(m) == R[j].taglen &&
				    memcmp(nng_msg_body(m), R[j].tag, R[j].taglen) == 0)
					r = &R[j];
			if (r == NULL)
				vs_fail("C13:chain:body-changed",
				    "[%s] round %d: request arrived with body %s", desc, rd,
				    vh_hex(nng_msg_body(m), nng_msg_len(m)));
			if (rd == 0 && served < 2)
				order[served] = (char) ('A' + (r - R));
			if (r->arrived++)
				vs_fail("C13:chain:duplicate",
				    "[%s] round %d: request %d arrived twice", desc, rd,
				    (int) (r - R));
			if (must_drop)
				vs_fail("C13:chain:ttl-exceeded-delivered",
				    "[%s] a request that crossed %d devices was delivered", desc,
				    k);
			VH_OK(nng_msg_append(m, "-re", 3));
			if (sched)
				vs_window(1);
			rv = nng_sendmsg(back, m, 0);
			if (rv != 0)
				vs_fail("harness:back-send", "[%s] reply send -> %d", desc, rv);
			vs_settle();
			vs_window(0);
			served++;
		}
		vs_window(0);
		vs_settle();
		// let the timed receives expire (or stop early when all is answered)
		while (vs_now() < R[0].t_start + RECV_TMO + 30 &&
		    !(R[0].ncb && R[1].ncb)) {
			vs_sleep(10);
			vs_settle();
		}
		// a late extra delivery at the back?
		{
			nng_msg *m = NULL;
			if (nng_recvmsg(back, &m, NNG_FLAG_NONBLOCK) == 0) {
				nng_msg_free(m);
				vs_fail("C13:chain:duplicate", "[%s] round %d: a third message "
				                               "arrived", desc, rd);
			}
		}
		for (int j = 0; j < 2; j++) {
			rq *r = &R[j];
			if (r->s_ncb != 1 || r->s_res != 0)
				vs_fail("harness:front-send", "[%s] send %d: ncb %d res %d", desc,
				    j, r->s_ncb, r->s_res);
			if (r->ncb != 1)
				vs_fail("C13:chain:receive-pending",
				    "[%s] round %d: receive %d completed %d times within %d ms",
				    desc, rd, j, r->ncb, RECV_TMO + 30);
			if (must_deliver && !r->arrived)
				vs_fail("C13:chain:ttl-within-dropped",
				    "[%s] round %d: request %d never reached the back socket",
				    desc, rd, j);
			if (r->res == 0) {
				// whose reply is it?
				int whose = -1;
				for (int q = 0; q < 2; q++)
					if (r->rlen == R[q].taglen + 3 &&
					    memcmp(r->rbody, R[q].tag, R[q].taglen) == 0 &&
					    memcmp(r->rbody + R[q].taglen, "-re", 3) == 0)
						whose = q;
				if (whose < 0)
					vs_fail("C13:chain:body-changed",
					    "[%s] round %d: requester %d received body %s", desc, rd,
					    j, vh_hex(r->rbody, r->rlen < 64 ? r->rlen : 64));
				if (whose != j)
					vs_fail("C13:chain:wrong-requester",
					    "[%s] round %d: requester %d received the reply for "
					    "requester %d",
					    desc, rd, j, whose);
				if (!r->arrived)
					vs_fail("C13:chain:wrong-requester",
					    "[%s] requester %d got a reply nobody sent", desc, j);
			} else if (r->res == NNG_ETIMEDOUT) {
				if (r->arrived)
					vs_fail("C13:chain:lost",
					    "[%s] round %d: request %d was answered but the reply "
					    "never came back",
					    desc, rd, j);
				if (r->t_cb < r->t_start + RECV_TMO)
					vs_fail("C13:chain:early-timeout", "[%s] timeout at +%lld",
					    desc, (long long) (r->t_cb - r->t_start));
			} else {
				vs_fail("C13:chain:bad-result", "[%s] receive %d -> %d (%s)",
				    desc, j, r->res, nng_strerror(r->res));
			}
			oo += snprintf(out + oo, sizeof(out) - (size_t) oo, " %s",
			    r->res == 0 ? "reply" : "timeout");
		}
	}
	vs_log("%s -> %s (arrival %s)", desc, out, order);
	if (sched)
		vs_outcome("%s %s", out, order);
	else
		vs_outcome("%s", out);
	g_teardown = 1;
	for (int j = 0; j < 2; j++) {
		nng_aio_free(R[j].saio);
		nng_aio_free(R[j].raio);
	}
	if (c->ctxs)
		for (int j = 0; j < 2; j++)
			nng_ctx_close(cx[j]);
	for (int j = 0; j < nfront; j++)
		nng_socket_close(front[j]);
	for (int i = 1; i <= k; i++)
		dev_stop(&D[i]);
	nng_socket_close(back);
	vh_fini();
}

static void
add_chain(int fi, int k, const int *ttl, int ctxs)
{
	ccfg *c = &CC[fi][NCC[fi]++];
	c->k    = k;
	c->ctxs = ctxs;
	memcpy(c->ttl, ttl, sizeof(int) * (size_t) (k + 1));
}

static void
mk_chains(int T)
{
	static const int TQ[] = { 1, 2, 8 }, TT[] = { 1, 2, 3, 8, 15 };
	const int       *ts   = T ? TT : TQ;
	int              nt   = T ? 5 : 3;
	for (int fi = 0; fi < 2; fi++) {
		CC[fi] = calloc(2000, sizeof(ccfg));
		for (int t = 0; t < nt; t++) {
			int kmax = ts[t] + 2;
			if (fi == 1 && kmax > (T ? 5 : 3))
				kmax = T ? 5 : 3;
			for (int k = 0; k <= kmax; k++)
				for (int cx = 0; cx < 2; cx++) {
					int ttl[MAXDEV + 1];
					for (int i = 0; i <= k; i++)
						ttl[i] = ts[t];
					add_chain(fi, k, ttl, cx);
				}
		}
		// one receiving socket with its own limit, every other one permissive:
		// isolates the hop check of each socket type at each position
		int pk = T ? 5 : 4, pv = T ? 15 : 6;
		for (int k = 0; k <= pk; k++)
			for (int p = 0; p <= k; p++)
				for (int v = 1; v <= pv; v++) {
					int ttl[MAXDEV + 1];
					for (int i = 0; i <= k; i++)
						ttl[i] = 15;
					ttl[p] = v;
					add_chain(fi, k, ttl, (k + p + v) & 1);
				}
		if (!T)
			continue;
		// ... and with all others at the default 8
		for (int k = 0; k <= 3; k++)
			for (int p = 0; p <= k; p++)
				for (int v = 1; v <= 15; v++) {
					int ttl[MAXDEV + 1];
					for (int i = 0; i <= k; i++)
						ttl[i] = 8;
					ttl[p] = v;
					add_chain(fi, k, ttl, (k + p + v) & 1);
				}
	}
}

// ---- scenario 2: loops -----------------------------------------------------------------
// topologies: 0 two devices, tap on the closing link; 1 two devices, all inproc;
//             2 one device dialing itself, tap; 3 one device dialing itself, inproc
static int LTTL[15] = { 1, 2, 3, 8, 15 };
static int NLTTL  = 5;

static void
run_loop(void *arg)
{
	int        fi   = (int) (intptr_t) arg;
	const fam *f    = &FAM[fi];
	int        pick = vs_choose(VK_ENV, 4 * NLTTL);
	int        topo = pick / NLTTL, ttl = LTTL[pick % NLTTL];
	int        ndev = topo < 2 ? 2 : 1, tap = (topo == 0 || topo == 2);
	char       desc[80];
	snprintf(desc, sizeof(desc), "%s loop topo=%d ttl=%d", f->name, topo, ttl);
	g_teardown = 0;
	vh_init(0);
	dev *A = &D[0], *B = &D[1];
	dev_start(A, f, ttl);
	VH_OK(nng_listen(A->in, "inproc://loop-a", NULL, 0));
	if (ndev == 2) {
		dev_start(B, f, ttl);
		VH_OK(nng_listen(B->in, "inproc://loop-b", NULL, 0));
		VH_OK(nng_dial(A->out, "inproc://loop-b", NULL, 0));
	}
	dev *last = ndev == 2 ? B : A; // its out side closes the cycle into A->in
	int  fd_out = -1, fd_in = -1;
	if (tap) {
		fd_out = vp_connect_raw(last->out, f->back_proto, NULL);
		fd_in  = vp_connect_raw(A->in, f->front_proto, NULL);
		if (fd_out < 0 || fd_in < 0)
			vs_fail("harness:setup", "[%s] tap could not connect", desc);
	} else {
		VH_OK(nng_dial(last->out, "inproc://loop-a", NULL, 0));
	}
	nng_device_aio(A->aio, A->in, A->out);
	if (ndev == 2)
		nng_device_aio(B->aio, B->in, B->out);
	vs_settle();
	nng_socket front;
	VH_OK(f->front(&front));
	if (fi == 0)
		VH_OK(nng_socket_set_ms(
		    front, NNG_OPT_REQ_RESENDTIME, NNG_DURATION_INFINITE));
	else
		VH_OK(nng_socket_set_ms(front, NNG_OPT_SURVEYOR_SURVEYTIME, 300));
	VH_OK(nng_dial(front, "inproc://loop-a", NULL, 0));
	vs_settle();
	static rq R;
	memset(&R, 0, sizeof(R));
	static const char body[] = "\x80loop-body";
	nng_msg          *m;
	VH_OK(nng_aio_alloc(&R.saio, rq_send_cb, &R));
	VH_OK(nng_aio_alloc(&R.raio, rq_recv_cb, &R));
	VH_OK(nng_msg_alloc(&m, 0));
	VH_OK(nng_msg_append(m, body, sizeof(body) - 1));
	nng_aio_set_msg(R.saio, m);
	nng_aio_set_timeout(R.raio, 300);
	R.t_start = vs_now();
	nng_socket_send(front, R.saio);
	vs_settle();
	nng_socket_recv(front, R.raio);
	vs_settle();

	// run 500 virtual ms; relay whatever reaches the tap
	vp_rd  *ro = tap ? calloc(1, sizeof(vp_rd)) : NULL;
	vp_rd  *ri = tap ? calloc(1, sizeof(vp_rd)) : NULL;
	int     laps = 0, back = 0, prev_words = 0;
	int64_t last_frame = vs_now();
	int64_t t0         = vs_now();
	while (vs_now() < t0 + 500) {
		for (int guard = 0; tap && guard < 100; guard++) {
			const uint8_t *p;
			size_t         len;
			int            act = 0;
			while (vp_next_frame(fd_out, ro, &p, &len) == 1) {
				// a request on its way round: words up to the one with bit 31
				size_t w = 0;
				while ((w + 1) * 4 <= len && !(p[w * 4] & 0x80))
					w++;
				int words = (int) w + 1;
				if ((w + 1) * 4 > len || len - (w + 1) * 4 != sizeof(body) - 1 ||
				    memcmp(p + (w + 1) * 4, body, sizeof(body) - 1) != 0)
					vs_fail("C13:loop:body-changed",
					    "[%s] frame at the tap: %s", desc, vh_hex(p, len));
				if (words <= prev_words)
					vs_fail("C13:loop:backtrace-not-growing",
					    "[%s] lap %d carries %d words, previous lap %d", desc,
					    laps + 1, words, prev_words);
				prev_words = words;
				laps++;
				last_frame = vs_now();
				vs_log("tap: lap %d, %d words", laps, words);
				// a message that crossed more devices than ttl must be gone:
				// the frame was accepted by the socket in front of the tap
				// with words-1 words, i.e. after words-2 devices
				if (words - 2 > ttl)
					vs_fail("C13:loop:not-quiescent",
					    "[%s] lap %d: a message that had crossed %d devices "
					    "was forwarded again (ttl %d)",
					    desc, laps, words - 2, ttl);
				vp_send(fd_in, p, len, NULL, 0);
				act = 1;
			}
			while (vp_next_frame(fd_in, ri, &p, &len) == 1) {
				back++;
				vp_send(fd_out, p, len, NULL, 0);
				act = 1;
			}
			if (!act)
				break;
			vs_settle();
			if (guard == 99)
				vs_fail("C13:loop:not-quiescent",
				    "[%s] still forwarding after %d laps at one instant", desc,
				    laps);
		}
		vs_sleep(10);
		vs_settle();
	}
	if (tap && vs_now() - last_frame < 300)
		vs_fail("C13:loop:not-quiescent",
		    "[%s] frames still circulating at +%lld ms (%d laps)", desc,
		    (long long) (last_frame - t0), laps);
	if (R.ncb != 1 || R.res != NNG_ETIMEDOUT)
		vs_fail("C13:loop:phantom-reply",
		    "[%s] nobody answers, yet the receive gave ncb=%d res=%d", desc,
		    R.ncb, R.res);
	if (back)
		vs_fail("C13:loop:phantom-reply", "[%s] %d frames travelled backwards",
		    desc, back);
	vs_log("%s: laps=%d", desc, laps);
	vs_outcome("%s topo=%d laps=%d", f->name, topo, laps);
	g_teardown = 1;
	free(ro);
	free(ri);
	nng_aio_free(R.saio);
	nng_aio_free(R.raio);
	nng_socket_close(front);
	if (tap) {
		close(fd_out);
		close(fd_in);
	}
	dev_stop(A);
	if (ndev == 2)
		dev_stop(B);
	vh_fini();
}

// ---- scenario 3: crafted backtraces --------------------------------------------------------
enum { T_REP, T_XREP, T_RESP, T_XRESP, T_XREQ, T_XSURV, T_DEV_REP, T_DEV_RESP, T_N };
static const char *TN[] = { "rep", "xrep", "respondent", "xrespondent", "xreq",
	"xsurveyor", "device+rep", "device+respondent" };
static int         BTTL[15] = { 1, 8, 15 };
static int         NBTTL   = 3;
static const char *BODY[] = { "", "hi", "body-6", "\x80\x01\x02" };

static int
new_raw(nng_socket s, uint16_t proto, nng_listener *l, int *first)
{
	int fd;
	if (*first) {
		fd     = vp_connect_raw(s, proto, l);
		*first = 0;
		return fd;
	}
	fd = vp_attach_more(*l);
	if (fd < 0)
		return -1;
	vs_settle();
	if (vp_handshake(fd, proto) < 0) {
		close(fd);
		return -1;
	}
	vs_settle();
	return fd;
}

// "is a message deliverable now?" on the target: an aio receive that is
// cancelled when it did not complete at this instant (works for raw sockets
// too); returns 1 and header/body copies
static nng_aio *t_aio;
static int      t_done;
static void
t_cb(void *arg)
{
	(void) arg;
	t_done++;
}
static int
t_recv(nng_socket s, uint8_t *hdr, size_t *hl, uint8_t *body, size_t *bl,
    nng_msg **keep)
{
	t_done = 0;
	nng_aio_set_timeout(t_aio, NNG_DURATION_INFINITE);
	nng_socket_recv(s, t_aio);
	vs_settle();
	if (!t_done) {
		nng_aio_cancel(t_aio);
		nng_aio_wait(t_aio);
	}
	if (t_done != 1)
		vs_fail("harness:recv-aio", "receive aio completed %d times", t_done);
	if (nng_aio_result(t_aio) != 0)
		return 0;
	nng_msg *m = nng_aio_get_msg(t_aio);
	*hl = nng_msg_header_len(m);
	*bl = nng_msg_len(m);
	memcpy(hdr, nng_msg_header(m), *hl < 128 ? *hl : 128);
	memcpy(body, nng_msg_body(m), *bl < 128 ? *bl : 128);
	if (keep)
		*keep = m;
	else
		nng_msg_free(m);
	return 1;
}

static void
run_bt(void *arg)
{
	(void) arg;
	int pick = vs_choose(VK_ENV, T_N * NBTTL * 2 * 4);
	int tgt  = pick % T_N;
	pick /= T_N;
	int ttl = BTTL[pick % NBTTL];
	pick /= NBTTL;
	int term = pick % 2;
	pick /= 2;
	const char *bd  = BODY[pick];
	size_t      bdl = strlen(bd);
	int  raw = (tgt == T_XREP || tgt == T_XRESP || tgt == T_XREQ || tgt == T_XSURV);
	int  has_pipe_word = (tgt == T_XREP || tgt == T_XRESP);
	int  viadev        = (tgt == T_DEV_REP || tgt == T_DEV_RESP);
	int  ttl_applies   = tgt <= T_XRESP || viadev;
	int  can_reply     = tgt <= T_XRESP || viadev;
	uint16_t peer = (tgt == T_REP || tgt == T_XREP || tgt == T_DEV_REP) ? SP_REQ
	    : (tgt == T_RESP || tgt == T_XRESP || tgt == T_DEV_RESP)        ? SP_SURVEYOR
	    : tgt == T_XREQ                                                  ? SP_REP
	                                                 : SP_RESPONDENT;
	char desc[100];
	snprintf(desc, sizeof(desc), "%s ttl=%d %s body=%zu", TN[tgt], ttl,
	    term ? "terminated" : "unterminated", bdl);
	g_teardown = 0;
	vh_init(0);
	nng_socket   s;  // where the messages come out (application side)
	nng_socket   ws; // where the raw peers connect
	nng_listener L;
	int          first = 1;
	switch (tgt) {
	case T_DEV_REP:
	case T_DEV_RESP: {
		// raw peer -> device(raw rep, raw req) -> cooked REP
		const fam *f = &FAM[tgt == T_DEV_REP ? 0 : 1];
		VH_OK(f->back(&s));
		VH_OK(nng_listen(s, "inproc://bt-back", NULL, 0));
		dev_start(&D[0], f, ttl);
		VH_OK(nng_dial(D[0].out, "inproc://bt-back", NULL, 0));
		// the device will own its sockets: create the raw seat first
		VH_OK(nng_listener_create(&L, D[0].in, "socket://"));
		VH_OK(nng_listener_start(L, 0));
		first = 0;
		nng_device_aio(D[0].aio, D[0].in, D[0].out);
		vs_settle();
	} break;
	case T_REP:
		VH_OK(nng_rep0_open(&s));
		break;
	case T_XREP:
		VH_OK(nng_rep0_open_raw(&s));
		break;
	case T_RESP:
		VH_OK(nng_respondent0_open(&s));
		break;
	case T_XRESP:
		VH_OK(nng_respondent0_open_raw(&s));
		break;
	case T_XREQ:
		VH_OK(nng_req0_open_raw(&s));
		break;
	default:
		VH_OK(nng_surveyor0_open_raw(&s));
		break;
	}
	VH_OK(nng_socket_set_int(s, NNG_OPT_MAXTTL, ttl));
	ws = viadev ? D[0].in : s;
	VH_OK(nng_aio_alloc(&t_aio, t_cb, NULL));
	int  delivered = 0, dropped = 0, kicked = 0, boundary_deliv = 0;
	// an idle, well-behaved connection that must never see anything
	int by = new_raw(ws, peer, &L, &first);
	if (by < 0)
		vs_fail("harness:setup", "[%s] bystander could not connect", desc);
	for (int n = 0; n <= 21; n++) {
		// n == 21 is the well-behaved control connection
		int control = (n == 21);
		int fd      = new_raw(ws, peer, &L, &first);
		if (fd < 0)
			vs_fail(control ? "C13:bt:control-connection-broken"
			                : "harness:setup",
			    "[%s] raw connection %d could not be established", desc, n);
		uint8_t frame[160], hdr[128], body[128];
		size_t  fl = 0, hl, bl;
		int     nw = control ? 0 : n, tm = control ? 1 : term;
		for (int i = 0; i < nw; i++, fl += 4)
			vp_put32(frame + fl, 0x00000100u + (uint32_t) i);
		if (tm) {
			vp_put32(frame + fl, 0x80001000u + (uint32_t) n);
			fl += 4;
		}
		size_t words_len = fl;
		const char *b    = control ? "ctrl" : bd;
		size_t      blen = control ? 4 : bdl;
		memcpy(frame + fl, b, blen);
		fl += blen;
		int m = tm ? nw + 1 : 0; // words up to and including the terminator
		// classification from the statement
		int must_not, must;
		if (!tm) {
			must_not = 1;
			must     = 0;
		} else if (viadev) {
			// the device's socket sees m words, the cooked one m + 1
			must     = m + 1 <= ttl;
			must_not = m >= ttl + 1;
		} else if (ttl_applies) {
			must     = m <= ttl;
			must_not = m >= ttl + 2;
		} else {
			must     = m <= ttl;
			must_not = m > 16; // does not fit the 64 byte header
		}
		vp_send(fd, frame, fl, NULL, 0);
		vs_settle();
		nng_msg *keep = NULL;
		int      got  = t_recv(s, hdr, &hl, body, &bl, raw ? &keep : NULL);
		if (got && must_not) {
			vs_fail(!tm || !ttl_applies ? "C13:bt:delivered-malformed"
			                            : "C13:bt:ttl-exceeded-delivered",
			    "[%s] frame with %d words (%s) of %zu bytes was delivered: "
			    "header %s body %s",
			    desc, nw + tm, tm ? "terminated" : "no terminating id", fl,
			    vh_hex(hdr, hl), vh_hex(body, bl));
		}
		if (!got && must)
			vs_fail(control ? "C13:bt:control-connection-broken"
			                : "C13:bt:wellformed-dropped",
			    "[%s] frame with %d backtrace words + id was not delivered",
			    desc, nw);
		if (got) {
			delivered++;
			if (!must)
				boundary_deliv++;
			if (bl != blen || memcmp(body, b, blen) != 0)
				vs_fail("C13:bt:body-changed",
				    "[%s] n=%d delivered body %s, sent %s", desc, n,
				    vh_hex(body, bl), vh_hex(b, blen));
			if (raw) {
				size_t off = has_pipe_word ? 4 : 0;
				if (hl != off + words_len ||
				    memcmp(hdr + off, frame, words_len) != 0)
					vs_fail("C13:bt:header-changed",
					    "[%s] n=%d raw header %s, wire backtrace %s", desc, n,
					    vh_hex(hdr, hl), vh_hex(frame, words_len));
				if (has_pipe_word &&
				    vp_get32(hdr) != (uint32_t) nng_pipe_id(nng_msg_get_pipe(keep)))
					vs_fail("C13:bt:header-changed",
					    "[%s] first header word is not the pipe id", desc);
			}
			if (can_reply) {
				// the answer must unwind to exactly this backtrace on this fd
				nng_msg *r;
				if (raw) {
					r    = keep;
					keep = NULL;
					VH_OK(nng_msg_append(r, "!", 1));
				} else {
					VH_OK(nng_msg_alloc(&r, 0));
					VH_OK(nng_msg_append(r, b, blen));
					VH_OK(nng_msg_append(r, "!", 1));
				}
				int rv = nng_sendmsg(s, r, 0);
				if (rv != 0)
					vs_fail("C13:bt:reply-failed", "[%s] n=%d send -> %d", desc,
					    n, rv);
				vs_settle();
				vp_rd         *rd = calloc(1, sizeof(vp_rd));
				const uint8_t *p;
				size_t         len;
				int            k = vp_next_frame(fd, rd, &p, &len);
				if (k != 1 || len != words_len + blen + 1 ||
				    memcmp(p, frame, words_len + blen) != 0 ||
				    p[len - 1] != '!')
					vs_fail(control ? "C13:bt:control-connection-broken"
					                : "C13:bt:reply-backtrace",
					    "[%s] n=%d reply on the wire: %s (k=%d), expected %s+'!'",
					    desc, n, k == 1 ? vh_hex(p, len) : "-", k,
					    vh_hex(frame, fl));
				free(rd);
			}
			if (keep)
				nng_msg_free(keep);
		} else if (!control) {
			// dropped or disconnected; both are fine, but nothing in between
			vs_settle();
			if (vp_is_eof(fd)) {
				kicked++;
			} else {
				dropped++;
				uint8_t g[12];
				vp_put32(g, 0x80002000u + (uint32_t) n);
				memcpy(g + 4, "good", 4);
				vp_send(fd, g, 8, NULL, 0);
				vs_settle();
				if (!t_recv(s, hdr, &hl, body, &bl, NULL)) {
					// (behind a device with TTL 1 even a plain request is at
					// the hop boundary and may be discarded)
					if (!vp_is_eof(fd) && !(viadev && ttl < 2))
						vs_fail("C13:bt:connection-wedged",
						    "[%s] n=%d: the bad frame was dropped, the "
						    "connection stayed open, but a good request "
						    "after it is not delivered",
						    desc, n);
				} else if (bl != 4 || memcmp(body, "good", 4) != 0) {
					vs_fail("C13:bt:body-changed",
					    "[%s] n=%d follow-up request delivered as %s", desc, n,
					    vh_hex(body, bl));
				}
			}
		}
		// nothing else may be pending
		if (t_recv(s, hdr, &hl, body, &bl, NULL))
			vs_fail("C13:bt:delivered-malformed",
			    "[%s] n=%d produced an extra message: header %s body %s", desc,
			    n, vh_hex(hdr, hl), vh_hex(body, bl));
		close(fd);
		vs_settle();
	}
	if (has_pipe_word) {
		// application-side headers naming dead / unknown pipes, or none at all
		static const uint32_t ids[] = { 0x7fffffffu, 1u, 0u };
		for (int i = 0; i < 4; i++) {
			nng_msg *r;
			VH_OK(nng_msg_alloc(&r, 0));
			if (i < 3) {
				VH_OK(nng_msg_header_append_u32(r, ids[i]));
				VH_OK(nng_msg_header_append_u32(r, 0x80000001u));
			}
			VH_OK(nng_msg_append(r, "x", 1));
			if (nng_sendmsg(s, r, 0) != 0)
				nng_msg_free(r);
			vs_settle();
		}
	}
	{
		vp_rd         *rd = calloc(1, sizeof(vp_rd));
		const uint8_t *p;
		size_t         len;
		vs_settle();
		int k = vp_next_frame(by, rd, &p, &len);
		if (k == 1)
			vs_fail("C13:bt:misrouted",
			    "[%s] an idle connection received the frame %s", desc,
			    vh_hex(p, len));
		if (k < 0)
			vs_fail("C13:bt:bystander-disconnected",
			    "[%s] an idle well-behaved connection was closed", desc);
		free(rd);
		close(by);
	}
	vs_log("%s: delivered=%d (at boundary %d) dropped=%d disconnected=%d", desc,
	    delivered, boundary_deliv, dropped, kicked);
	vs_outcome("%s t%d %s b%zu: d%d b%d drop%d kick%d", TN[tgt], ttl,
	    term ? "T" : "U", bdl, delivered, boundary_deliv, dropped, kicked);
	nng_aio_free(t_aio);
	g_teardown = 1;
	if (viadev)
		dev_stop(&D[0]);
	nng_socket_close(s);
	vh_fini();
}

// ---- schedules on the raw endpoints that devices are made of ------------------------------------------------
// (a) a surveyor connects to a raw RESPONDENT and sends at once: whatever the order in which the new pipe's
//     start and its first receive completion run, the survey carries the pipe's id as its first hop, so the
//     echoed response finds its way back.
// (b) two replies arrive back to back on one raw REQ pipe (what a device serving two requesters sees): both
//     reach the application intact and in order.
static nng_socket rw_x, rw_s;
static int        rw_rv;
static void *
rw_dial_send(void *a)
{
	(void) a;
	rw_rv = nng_dial(rw_s, "inproc://c13rw", NULL, 0);
	if (rw_rv == 0) {
		nng_msg *m;
		if (nng_msg_alloc(&m, 0) != 0 || nng_msg_append(m, "SV", 2) != 0)
			vs_fail("harness:rw", "msg alloc");
		rw_rv = nng_sendmsg(rw_s, m, 0);
		if (rw_rv != 0)
			nng_msg_free(m);
	}
	return NULL;
}
static void
run_rawrace(void *arg)
{
	int kind = (int) (intptr_t) arg;
	vh_init(0);
	if (kind == 0) {
		VH_OK(nng_respondent0_open_raw(&rw_x));
		VH_OK(nng_surveyor0_open(&rw_s));
		VH_OK(nng_socket_set_ms(rw_s, NNG_OPT_SURVEYOR_SURVEYTIME, 1000));
		VH_OK(nng_listen(rw_x, "inproc://c13rw", NULL, 0));
		vs_settle();
		pthread_t t;
		vs_window(1);
		pthread_create(&t, NULL, rw_dial_send, NULL);
		pthread_join(t, NULL);
		vs_settle();
		vs_window(0);
		if (rw_rv != 0)
			vs_fail("harness:rw", "dial/send: %s", nng_strerror(rw_rv));
		nng_msg *m = NULL;
		if (nng_recvmsg(rw_x, &m, NNG_FLAG_NONBLOCK) != 0)
			vs_fail("C13:survey-lost", "the survey sent right after connecting never reached "
			                           "the raw respondent");
		if (nng_msg_header_len(m) != 8)
			vs_fail("C13:bt:header", "raw respondent got a %zu byte header",
			    nng_msg_header_len(m));
		uint32_t hop = vp_get32(nng_msg_header(m));
		// echo it: the header routes it back
		if (nng_sendmsg(rw_x, m, NNG_FLAG_NONBLOCK) != 0) {
			nng_msg_free(m);
			vs_fail("C13:response-lost", "raw respondent could not send the response");
		}
		vs_settle();
		vs_nontrivial();
		if (nng_recvmsg(rw_s, &m, NNG_FLAG_NONBLOCK) != 0)
			vs_fail("C13:response-lost",
			    "a survey sent immediately after connecting was forwarded with first hop "
			    "0x%08x; the echoed response never got back to the surveyor",
			    hop);
		if (nng_msg_len(m) != 2 || memcmp(nng_msg_body(m), "SV", 2) != 0)
			vs_fail("C13:response-lost", "response body altered");
		nng_msg_free(m);
		vs_outcome("first-survey hop=%s", hop ? "pipe" : "zero");
		nng_socket_close(rw_s);
		nng_socket_close(rw_x);
	} else {
		VH_OK(nng_req0_open_raw(&rw_x));
		int fd = vp_connect_raw(rw_x, SP_REP, NULL);
		if (fd < 0)
			vs_fail("harness:setup", "raw replier");
		// two replies in one segment
		uint8_t  wire[64];
		uint8_t  id1[4] = { 0x80, 0, 0, 1 }, id2[4] = { 0x80, 0, 0, 2 };
		size_t   n      = vp_frame(wire, id1, 4, "r1", 2, 0);
		n += vp_frame(wire + n, id2, 4, "r2", 2, 0);
		vs_window(1);
		if (vp_write_all(fd, wire, n) != 0)
			vs_fail("harness:peer", "raw write");
		vs_settle();
		vs_window(0);
		vs_nontrivial();
		for (int i = 0; i < 2; i++) {
			nng_msg *m = NULL;
			if (nng_recvmsg(rw_x, &m, NNG_FLAG_NONBLOCK) != 0)
				vs_fail("C13:reply-lost",
				    "two replies arrived back to back on one raw REQ pipe; reply %d never "
				    "reached the socket",
				    i + 1);
			if (nng_msg_len(m) != 2 || ((char *) nng_msg_body(m))[0] != 'r' ||
			    ((char *) nng_msg_body(m))[1] != '1' + i || nng_msg_header_len(m) != 4 ||
			    memcmp(nng_msg_header(m), i ? id2 : id1, 4) != 0)
				vs_fail("C13:reply-altered", "reply %d came up as %zu+%zu bytes '%.2s'", i + 1,
				    nng_msg_header_len(m), nng_msg_len(m), (char *) nng_msg_body(m));
			nng_msg_free(m);
			vs_settle();
		}
		vs_outcome("two-replies ok");
		close(fd);
		nng_socket_close(rw_x);
	}
	vh_fini();
}

// ---- plain devices: PAIR, BUS, PUB/SUB, PUSH/PULL ------------------------------------------------------------------
// "forwards each message it accepts with an unchanged body": one device between two raw sockets of every
// family without a backtrace, BOTH argument orders of nng_device_aio (for the one-way families the
// sending-only socket first or second), blocking call or aio, bodies of 0..70000 bytes, both directions
// where the family has two.
typedef struct pfam {
	const char *name;
	int (*dev1)(nng_socket *); // raw socket facing F
	int (*dev2)(nng_socket *); // raw socket facing B
	int (*f)(nng_socket *);
	int (*b)(nng_socket *);
	int twoway, sub;
} pfam;
static const pfam PF[] = {
	{ "pair0", nng_pair0_open_raw, nng_pair0_open_raw, nng_pair0_open, nng_pair0_open, 1, 0 },
	{ "pair1", nng_pair1_open_raw, nng_pair1_open_raw, nng_pair1_open, nng_pair1_open, 1, 0 },
	{ "bus", nng_bus0_open_raw, nng_bus0_open_raw, nng_bus0_open, nng_bus0_open, 1, 0 },
	{ "pushpull", nng_pull0_open_raw, nng_push0_open_raw, nng_push0_open, nng_pull0_open, 0, 0 },
	{ "pubsub", nng_sub0_open_raw, nng_pub0_open_raw, nng_pub0_open, nng_sub0_open, 0, 1 },
};
#define NPF ((int) (sizeof(PF) / sizeof(PF[0])))
static const size_t PSZ[] = { 5, 0, 1, 300, 70000, 4 };
static nng_socket pd_s1, pd_s2;
static int        pd_rv, pd_done;
static void
pd_cb(void *a)
{
	pd_rv = (int) nng_aio_result((nng_aio *) *(nng_aio **) a);
	if (pd_done == 0)
		pd_done = 1;
}
static void
pd_xfer(const pfam *f, nng_socket from, nng_socket to, int dir, int k)
{
	size_t   n = PSZ[k];
	nng_msg *m;
	VH_OK(nng_msg_alloc(&m, n));
	uint8_t *b = nng_msg_body(m);
	for (size_t i = 0; i < n; i++)
		b[i] = (uint8_t) (i * 7 + (size_t) k * 31 + (size_t) dir);
	int rv = nng_sendmsg(from, m, NNG_FLAG_NONBLOCK);
	if (rv != 0)
		vs_fail("C13:plain-device", "%s device, direction %d: send %d -> %s", f->name, dir, k,
		    nng_strerror(rv));
	vs_settle();
	if (pd_done > 0)
		vs_fail("C13:device-stopped", "%s device ended by itself with %s while forwarding", f->name,
		    nng_strerror(pd_rv));
	nng_msg *r = NULL;
	rv         = nng_recvmsg(to, &r, NNG_FLAG_NONBLOCK);
	if (rv != 0)
		vs_fail("C13:plain-device",
		    "%s device, direction %d: message %d (%zu bytes) was accepted and not forwarded (%s)",
		    f->name, dir, k, n, nng_strerror(rv));
	if (nng_msg_len(r) != n)
		vs_fail("C13:device-body", "%s device, direction %d: %zu bytes sent, %zu forwarded",
		    f->name, dir, n, nng_msg_len(r));
	b = nng_msg_body(r);
	for (size_t i = 0; i < n; i++)
		if (b[i] != (uint8_t) (i * 7 + (size_t) k * 31 + (size_t) dir))
			vs_fail("C13:device-body", "%s device, direction %d: body of %zu bytes differs at %zu",
			    f->name, dir, n, i);
	nng_msg_free(r);
	rv = nng_recvmsg(to, &r, NNG_FLAG_NONBLOCK);
	if (rv == 0)
		vs_fail("C13:device-body", "%s device: a second copy of message %d arrived", f->name, k);
}
static void
run_plain(void *arg)
{
	const pfam *f = &PF[(int) (intptr_t) arg];
	vh_init(0);
	nng_socket d1, d2, F, B;
	nng_aio   *aio = NULL;
	int        order = vs_choose(VK_ENV, 2); // 1: nng_device_aio(aio, d2, d1)
	VH_OK(f->dev1(&d1));
	VH_OK(f->dev2(&d2));
	VH_OK(f->f(&F));
	VH_OK(f->b(&B));
	if (f->sub)
		VH_OK(nng_sub0_socket_subscribe(B, "", 0));
	VH_OK(nng_listen(d1, "inproc://c13-plain-1", NULL, 0));
	VH_OK(nng_listen(d2, "inproc://c13-plain-2", NULL, 0));
	VH_OK(nng_dial(F, "inproc://c13-plain-1", NULL, 0));
	VH_OK(nng_dial(B, "inproc://c13-plain-2", NULL, 0));
	pd_done = 0;
	pd_s1   = order ? d2 : d1;
	pd_s2   = order ? d1 : d2;
	VH_OK(nng_aio_alloc(&aio, pd_cb, &aio));
	nng_device_aio(aio, pd_s1, pd_s2);
	vs_settle();
	if (pd_done > 0)
		vs_fail("C13:device-stopped", "%s device (%s socket first) ended at once with %s", f->name,
		    order ? "B-side" : "F-side", nng_strerror(pd_rv));
	for (int k = 0; k < (int) (sizeof(PSZ) / sizeof(PSZ[0])); k++) {
		pd_xfer(f, F, B, 0, k);
		if (f->twoway)
			pd_xfer(f, B, F, 1, k);
	}
	vs_nontrivial();
	vs_outcome("%s order=%d", f->name, order);
	nng_socket_close(F);
	nng_socket_close(B);
	pd_done = -1; // (stopping it now is ours)
	nng_aio_cancel(aio);
	nng_aio_wait(aio);
	nng_aio_free(aio);
	(void) nng_socket_close(d1); // (the device has closed them already)
	(void) nng_socket_close(d2);
	vh_fini();
}

// BUS reflector: nng_device_aio(aio, s, s) on ONE raw BUS socket with three cooked peers.  A burst from one
// peer (so that all but the first message wait in the raw socket's receive queue) reaches each of the
// other peers once, in order, unchanged - and never comes back to its sender.
static void
run_reflector(void *arg)
{
	(void) arg;
	vh_init(0);
	nng_socket d, P[3];
	nng_aio   *aio = NULL;
	int        nb  = 1 + vs_choose(VK_ENV, 4); // burst of 1..4
	int        who = vs_choose(VK_ENV, 3);
	VH_OK(nng_bus0_open_raw(&d));
	VH_OK(nng_listen(d, "inproc://c13-reflector", NULL, 0));
	for (int i = 0; i < 3; i++) {
		VH_OK(nng_bus0_open(&P[i]));
		VH_OK(nng_dial(P[i], "inproc://c13-reflector", NULL, 0));
	}
	pd_done = 0;
	VH_OK(nng_aio_alloc(&aio, pd_cb, &aio));
	nng_device_aio(aio, d, d);
	vs_settle();
	if (pd_done > 0)
		vs_fail("C13:device-stopped", "bus reflector device ended at once with %s", nng_strerror(pd_rv));
	for (int round = 0; round < 2; round++) {
		// (schedules: whether the device has re-posted its receive when the next message of the
		// burst arrives decides between the direct hand-over and the receive queue)
		if (round == 0)
			vs_window(1);
		for (int k = 0; k < nb; k++) {
			char b[8];
			snprintf(b, sizeof(b), "r%d-%d", round, k);
			if (vh_send_nb(P[who], b, 4) != 0)
				vs_fail("C13:plain-device", "bus peer cannot send");
		}
		vs_settle();
		if (round == 0)
			vs_window(0);
		for (int i = 0; i < 3; i++) {
			for (int k = 0;; k++) {
				uint8_t buf[16];
				size_t  n  = 0;
				int     rv = vh_recv_nb(P[i], buf, sizeof(buf), &n);
				char    b[8];
				snprintf(b, sizeof(b), "r%d-%d", round, k);
				if (rv != 0) {
					if (i != who && k != nb)
						vs_fail("C13:plain-device",
						    "bus reflector, burst of %d from peer %d: peer %d received %d "
						    "of them",
						    nb, who, i, k);
					break;
				}
				if (i == who)
					vs_fail("C13:reflector-echo",
					    "bus reflector, burst of %d: message \"%.*s\" came back to the peer "
					    "that sent it",
					    nb, (int) n, (char *) buf);
				if (k >= nb || n != 4 || memcmp(buf, b, 4) != 0)
					vs_fail("C13:device-body",
					    "bus reflector: peer %d received \"%.*s\" as message %d of the burst "
					    "(want \"%s\")",
					    i, (int) n, (char *) buf, k, b);
			}
		}
	}
	vs_nontrivial();
	vs_outcome("nb=%d who=%d", nb, who);
	for (int i = 0; i < 3; i++)
		nng_socket_close(P[i]);
	pd_done = -1;
	nng_aio_cancel(aio);
	nng_aio_wait(aio);
	nng_aio_free(aio);
	(void) nng_socket_close(d);
	vh_fini();
}


// ---- a requester that is gone when its answer comes back -------------------------------------------------------
// front clients -> [device ->] replier.  n clients in turn send a request and leave before it is answered
// (the answer finds no connection and is discarded); then a client that stays must still get its own answer,
// body unchanged - through a device, and with the harness itself as the application of a raw REP / raw
// RESPONDENT socket (receive, remember the message, send it back later)
static void
run_departed(void *arg)
{
	const fam *f      = &FAM[(intptr_t) arg & 1];
	int        direct = ((intptr_t) arg & 2) != 0; // no device: the harness serves a raw socket
	int        ngone  = 1 + vs_choose(VK_ENV, 3);
	int        order  = vs_choose(VK_ENV, 2);      // answers to the departed before / after the live request arrives
	vh_init(0);
	g_teardown = 0;
	nng_socket back;
	dev        d;
	memset(&d, 0, sizeof(d));
	if (direct) {
		VH_OK(f->dev_in(&back));
		VH_OK(nng_listen(back, "inproc://c13dp-front", NULL, 0));
	} else {
		VH_OK(f->back(&back));
		VH_OK(nng_listen(back, "inproc://c13dp-back", NULL, 0));
		dev_start(&d, f, 8);
		VH_OK(nng_listen(d.in, "inproc://c13dp-front", NULL, 0));
		VH_OK(nng_dial(d.out, "inproc://c13dp-back", NULL, 0));
		nng_device_aio(d.aio, d.in, d.out);
	}
	VH_OK(nng_socket_set_ms(back, NNG_OPT_RECVTIMEO, 100));
	VH_OK(nng_socket_set_ms(back, NNG_OPT_SENDTIMEO, 100));
	vs_settle();
	nng_msg *held[4];
	int      nheld = 0;
	for (int i = 0; i < ngone; i++) {
		nng_socket c;
		nng_msg   *m;
		char       tag[8];
		VH_OK(f->front(&c));
		VH_OK(nng_dial(c, "inproc://c13dp-front", NULL, 0));
		vs_settle();
		snprintf(tag, sizeof(tag), "gone%d", i);
		VH_OK(nng_msg_alloc(&m, 0));
		VH_OK(nng_msg_append(m, tag, 5));
		if (nng_sendmsg(c, m, NNG_FLAG_NONBLOCK) != 0)
			vs_fail("harness:departed", "request of client %d refused", i);
		vs_settle();
		if (nng_recvmsg(back, &held[nheld], 0) != 0)
			vs_fail("C13:chain:lost", "%s: request of client %d did not reach the replier", f->name, i);
		if (nng_msg_len(held[nheld]) != 5 || memcmp(nng_msg_body(held[nheld]), tag, 5) != 0)
			vs_fail("C13:chain:body", "%s: request body altered on the way", f->name);
		nheld++;
		nng_socket_close(c); // leaves before the answer
		vs_settle();
		if (!direct && !order) { // a cooked replier answers one request at a time
			if (nng_sendmsg(back, held[--nheld], 0) != 0)
				nng_msg_free(held[nheld]);
			vs_settle();
		}
	}
	nng_socket live;
	nng_msg   *m, *rq2 = NULL;
	VH_OK(f->front(&live));
	VH_OK(nng_socket_set_ms(live, NNG_OPT_RECVTIMEO, 300));
	VH_OK(nng_dial(live, "inproc://c13dp-front", NULL, 0));
	vs_settle();
	if (direct && !order)
		while (nheld > 0) {
			if (nng_sendmsg(back, held[--nheld], 0) != 0)
				nng_msg_free(held[nheld]);
			vs_settle();
		}
	VH_OK(nng_msg_alloc(&m, 0));
	VH_OK(nng_msg_append(m, "alive", 5));
	if (nng_sendmsg(live, m, NNG_FLAG_NONBLOCK) != 0)
		vs_fail("harness:departed", "request of the live client refused");
	vs_settle();
	if (direct) {
		// the raw socket's application: the live request is read first, then all answers go out,
		// those to departed clients before the live one
		if (nng_recvmsg(back, &rq2, 0) != 0)
			vs_fail("C13:chain:lost", "%s: request of the live client did not arrive", f->name);
		while (nheld > 0) {
			if (nng_sendmsg(back, held[--nheld], 0) != 0)
				nng_msg_free(held[nheld]);
			vs_settle();
		}
	} else {
		while (nheld > 0) // (cooked replier, order 1: the unanswered requests were superseded)
			nng_msg_free(held[--nheld]);
		if (nng_recvmsg(back, &rq2, 0) != 0)
			vs_fail("C13:chain:lost", "%s: request of the live client did not arrive", f->name);
	}
	if (nng_msg_len(rq2) != 5 || memcmp(nng_msg_body(rq2), "alive", 5) != 0)
		vs_fail("C13:chain:body", "%s: live request body altered", f->name);
	nng_msg_clear(rq2);
	VH_OK(nng_msg_append(rq2, "ALIVE-answer", 12));
	int srv = nng_sendmsg(back, rq2, 0);
	if (srv != 0) {
		nng_msg_free(rq2);
		vs_fail("C13:chain:reply-lost",
		    "%s%s: after %d answer(s) to clients that had left, the replier cannot send the live client's "
		    "answer: %s",
		    f->name, direct ? " (raw socket)" : " (device)", ngone, nng_strerror(srv));
	}
	vs_settle();
	nng_msg *ans = NULL;
	int      rv  = nng_recvmsg(live, &ans, 0);
	if (rv != 0)
		vs_fail("C13:chain:reply-lost",
		    "%s%s: %d client(s) left before their answers came back; the next client's answer never "
		    "arrives (%s)",
		    f->name, direct ? " (raw socket)" : " (device)", ngone, nng_strerror(rv));
	if (nng_msg_len(ans) != 12 || memcmp(nng_msg_body(ans), "ALIVE-answer", 12) != 0)
		vs_fail("C13:chain:body", "%s: answer body altered (%zu bytes)", f->name, nng_msg_len(ans));
	nng_msg_free(ans);
	vs_outcome("%s %s gone%d order%d", f->name, direct ? "raw" : "dev", ngone, order);
	g_teardown = 1;
	nng_socket_close(live);
	if (!direct)
		dev_stop(&d);
	nng_socket_close(back);
	vh_fini();
}

static void
explore_b(const char *name, void (*fn)(void *), void *arg, int preempt, int sw,
    int total, double deadline)
{
	vx_cfg c;
	memset(&c, 0, sizeof(c));
	c.prop     = "C13";
	c.scenario = name;
	c.run      = fn;
	c.arg      = arg;
	for (int i = 0; i < VB_NB; i++)
		c.budget[i] = 0;
	c.budget[VB_PREEMPT] = preempt;
	c.budget[VB_SWITCH]  = sw;
	c.budget[VB_ENV]     = -1;
	c.total              = total;
	c.watchdog_s         = 40;
	c.deadline_s         = deadline;
	vx_explore(&c, NULL);
}
static void
explore(const char *name, void (*fn)(void *), void *arg)
{
	explore_b(name, fn, arg, 0, 0, 0, 0);
}

int
main(int argc, char **argv)
{
	vx_init(argc, argv, "C13");
	int T = vx_is_thorough();
	mk_chains(T);
	if (T) {
		NBTTL = NLTTL = 15;
		for (int i = 0; i < 15; i++)
			BTTL[i] = LTTL[i] = i + 1;
	}
	explore("chain-reqrep", run_chain, (void *) 0);
	explore("chain-survey", run_chain, (void *) 1);
	explore("loop-reqrep", run_loop, (void *) 0);
	explore("loop-survey", run_loop, (void *) 1);
	explore("backtrace", run_bt, NULL);
	explore("departed-requester-device-reqrep", run_departed, (void *) 0);
	explore("departed-requester-device-survey", run_departed, (void *) 1);
	explore("departed-requester-raw-reqrep", run_departed, (void *) 2);
	explore("departed-requester-raw-survey", run_departed, (void *) 3);
	for (int i = 0; i < NPF; i++) {
		char nm[40];
		snprintf(nm, sizeof(nm), "plain-device-%s", PF[i].name);
		explore(strdup(nm), run_plain, (void *) (intptr_t) i);
	}
	explore_b("plain-device-bus-reflector", run_reflector, NULL, 1, T ? 2 : 1, T ? 2 : 1, 60);
	vx_note("plain-devices", "pair0 pair1 bus pushpull pubsub: one device between two raw sockets, both "
	                         "argument orders, bodies {5,0,1,300,70000,4} bytes, both "
	                         "directions where there are two; each body arrives once, unchanged; bus reflector (one raw socket, three "
	                         "peers, bursts of 1..4): every other peer once and in order, never back to the sender");
	// thread interleavings of two concurrent requests through one/two devices
	{
		// budgets: preemptions, switches at blocking points, total deviations
		int sp = 1, ssw = T ? 3 : 1, st = T ? 3 : 1;
		explore_b("chain-reqrep-sched", run_chain, (void *) (intptr_t) 0x10, sp,
		    ssw, st, T ? 300 : 30);
		explore_b("chain-survey-sched", run_chain, (void *) (intptr_t) 0x11, sp,
		    ssw, st, T ? 300 : 30);
		vx_note("schedules", "window around submission+forwarding of both "
		                     "requests and around each reply; preempt<=%d switch<=%d total<=%d",
		    sp, ssw, st);
	}
	explore_b("race-first-survey-after-connect", run_rawrace, (void *) 0, 1, 2, T ? 3 : 2, 60);
	explore_b("race-two-replies-one-pipe", run_rawrace, (void *) 1, T ? 2 : 1, 2, 2, 60);
	vx_note("chains",
	    "reqrep %d, survey %d configurations: k in 0..TTL+2 (survey <= %d) x TTL "
	    "%s x {2 sockets, 2 contexts} + one socket with its own TTL at every "
	    "position%s; must-deliver iff every i-th receiving "
	    "socket has TTL >= i, must-drop iff some has TTL <= i-2, else both accepted",
	    NCC[0], NCC[1], T ? 5 : 3, T ? "{1,2,3,8,15}" : "{1,2,8}",
	    T ? " (TTL 1..15, chains k<=5, others 15 or 8)"
	      : " (TTL 1..6, chains k<=4, others 15)");
	vx_note("loops", "4 topologies (2-cycle / self-loop, raw tap / inproc) x TTL "
	                 "%s x 2 families; 500 virtual ms", T ? "1..15" : "{1,2,3,8,15}");
	vx_note("backtraces", "8 targets (rep xrep respondent xrespondent xreq xsurveyor device+rep device+respondent) x TTL %s x {terminated,unterminated} x body "
	                      "{0,2,6 bytes, 3 bytes starting 0x80}, each n = 0..20 "
	                      "words on a fresh raw connection + control connection",
	    T ? "1..15" : "{1,8,15}");
	return vx_finish();
}
