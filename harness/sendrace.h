// sendrace.h - shared scheduled scenario (used by C02, C06, C08): a timed send that waits on
// back-pressure while the peer makes room and the timeout expires / a cancel arrives.
#ifndef SENDRACE_H
#define SENDRACE_H
#include "vpeer.h"
#include "vs.h"
#include <pthread.h>
#include <string.h>
static const char *SR_PROP = "C02"; // clause prefix of the including harness
static char        sr_clause[4][64];
static const char *
sr_c(int i, const char *what)
{
	snprintf(sr_clause[i], sizeof(sr_clause[i]), "%s:%s", SR_PROP, what);
	return sr_clause[i];
}
typedef struct sr_op {
	nng_aio *aio;
	int      ncb, result;
} sr_op;
static void
sr_cb(void *arg)
{
	sr_op *o = arg;
	o->ncb++;
	o->result = nng_aio_result(o->aio);
	if (o->ncb > 1)
		vs_fail(sr_c(0, "double-callback"), "send aio: callback #%d for 1 submission (result %s)",
		    o->ncb, nng_strerror(o->result));
}
// ---- S15: timed send blocked on back-pressure || the peer making room || cancel ---------------
// the mirror image of S3 on the send side: the sender's pipe is saturated, a further send with a
// timeout waits in the protocol; the peer then receives (which lets the waiting send proceed) while
// the timeout expires / a cancel arrives.  Exactly one completion; result 0 iff the message was
// taken (it is then delivered exactly once and the aio no longer holds it); any error leaves the
// message with the aio and it is never delivered.
typedef struct s15arg {
	int proto;     // index into S15P
	int do_cancel; // cancel thread instead of relying on the timeout
	int recv_at;   // virtual ms at which the peer starts receiving
} s15arg;
static const struct {
	const char *name;
	int (*open_tx)(nng_socket *);
	int (*open_rx)(nng_socket *);
} S15P[] = {
	{ "pair0", nng_pair0_open, nng_pair0_open },
	{ "pair1", nng_pair1_open, nng_pair1_open },
	{ "push", nng_push0_open, nng_pull0_open },
};
#define NS15P ((int) (sizeof(S15P) / sizeof(S15P[0])))
static sr_op      S15;
static nng_socket s15tx, s15rx;
static int        s15_seen[16], s15_nrx;
static void *
s15_canceller(void *a)
{
	(void) a;
	nng_aio_cancel(S15.aio);
	return NULL;
}
static void
s15_take(nng_msg *m)
{
	uint8_t *b = nng_msg_body(m);
	if (nng_msg_len(m) != 2 || b[0] != 'k' || b[1] >= 16)
		vs_fail(sr_c(1, "result-without-effect"), "received %zu unexpected bytes", nng_msg_len(m));
	if (s15_seen[b[1]]++)
		vs_fail(sr_c(2, "message-conservation"), "message k%d delivered twice", b[1]);
	s15_nrx++;
	nng_msg_free(m);
}
static void *
s15_receiver(void *a)
{
	s15arg *x = a;
	if (x->recv_at > 0)
		vs_sleep(x->recv_at);
	nng_msg *m;
	while (nng_recvmsg(s15rx, &m, NNG_FLAG_NONBLOCK) == 0)
		s15_take(m);
	return NULL;
}
static void
run_s15(void *arg)
{
	s15arg *x = arg;
	vh_init(0);
	memset(&S15, 0, sizeof(S15));
	memset(s15_seen, 0, sizeof(s15_seen));
	s15_nrx = 0;
	VH_OK(S15P[x->proto].open_tx(&s15tx));
	VH_OK(S15P[x->proto].open_rx(&s15rx));
	nng_socket_set_int(s15tx, NNG_OPT_SENDBUF, 0);
	nng_socket_set_int(s15rx, NNG_OPT_RECVBUF, 0);
	VH_OK(nng_listen(s15rx, "inproc://s15", NULL, 0));
	VH_OK(nng_dial(s15tx, "inproc://s15", NULL, 0));
	vs_settle();
	// saturate: non-blocking sends until one is refused
	int nacc = 0;
	for (int i = 0; i < 12; i++) {
		nng_msg *m;
		VH_OK(nng_msg_alloc(&m, 0));
		uint8_t b[2] = { 'k', (uint8_t) i };
		VH_OK(nng_msg_append(m, b, 2));
		if (nng_sendmsg(s15tx, m, NNG_FLAG_NONBLOCK) != 0) {
			nng_msg_free(m);
			break;
		}
		nacc = i + 1;
		vs_settle();
	}
	if (nacc == 0 || nacc >= 12)
		vs_fail("harness:s15", "%s: saturation took %d messages", S15P[x->proto].name, nacc);
	int      tag = nacc; // the contested message
	nng_msg *m;
	VH_OK(nng_msg_alloc(&m, 0));
	uint8_t b[2] = { 'k', (uint8_t) tag };
	VH_OK(nng_msg_append(m, b, 2));
	VH_OK(nng_aio_alloc(&S15.aio, sr_cb, &S15));
	nng_aio_set_msg(S15.aio, m);
	nng_aio_set_timeout(S15.aio, 10);
	int64_t sr_t0 = vs_now();
	pthread_t tr, tc;
	vs_window(1);
	nng_socket_send(s15tx, S15.aio);
	pthread_create(&tr, NULL, s15_receiver, x);
	if (x->do_cancel)
		pthread_create(&tc, NULL, s15_canceller, NULL);
	pthread_join(tr, NULL);
	if (x->do_cancel)
		pthread_join(tc, NULL);
	nng_aio_wait(S15.aio);
	vs_window(0);
	vs_settle();
	vs_sleep(30);
	if (S15.ncb != 1)
		vs_fail(sr_c(3, "callback-count"), "%s send aio: %d callbacks", S15P[x->proto].name, S15.ncb);
	if (S15.result != 0 && S15.result != NNG_ECANCELED && S15.result != NNG_ETIMEDOUT)
		vs_fail(sr_c(1, "bad-result"), "%s: send completed with %s", S15P[x->proto].name,
		    nng_strerror(S15.result));
	if (S15.result == NNG_ETIMEDOUT && vs_now() < sr_t0 + 10)
		vs_fail(sr_c(1, "early-timeout"), "%s: send timed out before 10 ms", S15P[x->proto].name);
	nng_msg *left = nng_aio_get_msg(S15.aio);
	if (S15.result == 0 && left != NULL)
		vs_fail(sr_c(1, "result-without-effect"), "%s: send result 0 but the aio still holds the message",
		    S15P[x->proto].name);
	if (S15.result != 0 && left == NULL)
		vs_fail(sr_c(2, "message-conservation"),
		    "%s: send failed (%s) but the message was taken from the aio", S15P[x->proto].name,
		    nng_strerror(S15.result));
	if (left != NULL)
		nng_msg_free(left);
	// drain everything
	for (int i = 0, idle = 0; i < 40 && idle < 2; i++) {
		int n = 0;
		vs_settle();
		while (nng_recvmsg(s15rx, &m, NNG_FLAG_NONBLOCK) == 0) {
			s15_take(m);
			n++;
			vs_settle();
		}
		idle = n ? 0 : idle + 1;
		vs_sleep(2);
	}
	if (S15.result == 0 && !s15_seen[tag])
		vs_fail(sr_c(2, "message-conservation"), "%s: send completed with 0 but k%d never arrived",
		    S15P[x->proto].name, tag);
	if (S15.result != 0 && s15_seen[tag])
		vs_fail(sr_c(2, "message-conservation"),
		    "%s: send reported %s but the message was delivered to the peer", S15P[x->proto].name,
		    nng_strerror(S15.result));
	for (int i = 0; i < nacc; i++)
		if (!s15_seen[i])
			vs_fail(sr_c(2, "message-conservation"), "%s: accepted message k%d was lost",
			    S15P[x->proto].name, i);
	vs_outcome("res=%d nacc=%d", S15.result, nacc);
	nng_aio_free(S15.aio);
	nng_socket_close(s15tx);
	nng_socket_close(s15rx);
	vh_fini();
}


static s15arg sr_args[16];
static int    sr_nargs;
// explore the three timings for protocol pr (index into S15P)
static void
sr_explore(const char *prop, int pr, int T)
{
	static const int CA[] = { 1, 0, 0 }, AT[] = { 0, 10, 11 };
	for (int v = 0; v < 3; v++) {
		if (!T && v == 2)
			continue;
		s15arg *a    = &sr_args[sr_nargs++ & 15];
		a->proto     = pr;
		a->do_cancel = CA[v];
		a->recv_at   = AT[v];
		char nm[64];
		snprintf(nm, sizeof(nm), "send-race-%s-%s",
		    v == 0 ? "room-cancel" : v == 1 ? "room@10" : "room@11", S15P[pr].name);
		vx_cfg c;
		memset(&c, 0, sizeof(c));
		c.prop     = prop;
		c.scenario = strdup(nm);
		c.run      = run_s15;
		c.arg      = a;
		c.budget[VB_PREEMPT] = 1;
		c.budget[VB_SWITCH]  = 1;
		c.budget[VB_TIMER]   = 1;
		c.budget[VB_ENV]     = -1;
		// (two deviations: park the canceller behind its unlocked check, then let the
		// completion in; the cancel variant has 14x the executions and gets one in quick)
		c.total              = (T || v == 1) ? 2 : 1;
		c.watchdog_s         = 20;
		vx_explore(&c, NULL);
	}
}
#endif
