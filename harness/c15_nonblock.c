// C15 - NNG_FLAG_NONBLOCK never blocks; the poll descriptors mirror it.
// For every protocol pairing (cooked and raw) two real sockets X (listener)
// and Y (dialer) are connected over inproc.  All letter sequences to depth d
// (from the initial state and from seeded non-initial states) are enumerated:
// non-blocking send/recv on either side, link down/up, buffer resizes,
// subscribe/unsubscribe.  Immediately before every non-blocking letter the
// library is quiescent (vs_settle) and the matching poll descriptor is polled
// with the real poll(2); the oracle is DESIGN A.5 and nothing else:
//   (i)   the call returns with zero virtual time elapsed         ":blocked"
//   (ii)  R == 0      =>  descriptor polled readable  ":success-without-readable"
//   (iii) readable    =>  R != NNG_EAGAIN             ":readable-but-eagain"
//   (iv)  R != 0      =>  message still the caller's (freed here; ASan sees a
//                         double free if the library freed it too)
//   (v)   a received body is a tag the peer really sent and that was accepted
//                                                                 ":phantom"
#define _GNU_SOURCE
#include "vpeer.h"
#include "vs.h"
#include <poll.h>
#include <pthread.h>
#include <stdlib.h>
#include <unistd.h>
#include <string.h>

enum { H_NONE, H_ID, H_ROUTE, H_HOPS };
// H_ID:    raw REQ / SURVEYOR: 4-byte id with bit 31 set
// H_ROUTE: raw REP / RESPONDENT: header of the last received message
//          (pipe id + backtrace); a made-up one before anything was received
// H_HOPS:  raw PAIR1: 32-bit hop count

typedef struct variant {
	const char *scen;
	const char *name[2]; // protocol name of X, Y (for signatures)
	int (*open[2])(nng_socket *);
	int snd[2], rcv[2]; // direction has a poll descriptor
	int hdr[2];
	int sub; // Y is a cooked SUB socket (subscribe/unsubscribe letter)
	// side has a protocol-level NNG_OPT_SENDBUF/RECVBUF (cooked REQ, REP,
	// SURVEYOR, RESPONDENT and PULL have none: the generic socket option
	// is accepted but resizes a queue the protocol never uses, so resize
	// letters would be no-ops there)
	int buf[2];
} variant;

static const variant V[] = {
	{ "req-rep", { "req", "rep" }, { nng_req0_open, nng_rep0_open }, { 1, 1 },
	    { 1, 1 }, { H_NONE, H_NONE }, 0, { 0, 0 } },
	{ "pub-sub", { "pub", "sub" }, { nng_pub0_open, nng_sub0_open }, { 1, 0 },
	    { 0, 1 }, { H_NONE, H_NONE }, 1, { 1, 1 } },
	{ "push-pull", { "push", "pull" }, { nng_push0_open, nng_pull0_open },
	    { 1, 0 }, { 0, 1 }, { H_NONE, H_NONE }, 0, { 1, 0 } },
	{ "surveyor-respondent", { "surveyor", "respondent" },
	    { nng_surveyor0_open, nng_respondent0_open }, { 1, 1 }, { 1, 1 },
	    { H_NONE, H_NONE }, 0, { 0, 0 } },
	{ "pair0", { "pair0", "pair0" }, { nng_pair0_open, nng_pair0_open },
	    { 1, 1 }, { 1, 1 }, { H_NONE, H_NONE }, 0, { 1, 1 } },
	{ "pair1", { "pair1", "pair1" }, { nng_pair1_open, nng_pair1_open },
	    { 1, 1 }, { 1, 1 }, { H_NONE, H_NONE }, 0, { 1, 1 } },
	{ "bus", { "bus", "bus" }, { nng_bus0_open, nng_bus0_open }, { 1, 1 },
	    { 1, 1 }, { H_NONE, H_NONE }, 0, { 1, 1 } },
	{ "xreq-xrep", { "xreq", "xrep" }, { nng_req0_open_raw, nng_rep0_open_raw },
	    { 1, 1 }, { 1, 1 }, { H_ID, H_ROUTE }, 0, { 1, 1 } },
	{ "xpub-xsub", { "xpub", "xsub" }, { nng_pub0_open_raw, nng_sub0_open_raw },
	    { 1, 0 }, { 0, 1 }, { H_NONE, H_NONE }, 0, { 1, 1 } },
	{ "xpush-xpull", { "xpush", "xpull" },
	    { nng_push0_open_raw, nng_pull0_open_raw }, { 1, 0 }, { 0, 1 },
	    { H_NONE, H_NONE }, 0, { 1, 0 } },
	{ "xsurveyor-xrespondent", { "xsurveyor", "xrespondent" },
	    { nng_surveyor0_open_raw, nng_respondent0_open_raw }, { 1, 1 },
	    { 1, 1 }, { H_ID, H_ROUTE }, 0, { 1, 1 } },
	{ "xpair0", { "xpair0", "xpair0" },
	    { nng_pair0_open_raw, nng_pair0_open_raw }, { 1, 1 }, { 1, 1 },
	    { H_NONE, H_NONE }, 0, { 1, 1 } },
	{ "xpair1", { "xpair1", "xpair1" },
	    { nng_pair1_open_raw, nng_pair1_open_raw }, { 1, 1 }, { 1, 1 },
	    { H_HOPS, H_HOPS }, 0, { 1, 1 } },
	{ "xbus", { "xbus", "xbus" }, { nng_bus0_open_raw, nng_bus0_open_raw },
	    { 1, 1 }, { 1, 1 }, { H_NONE, H_NONE }, 0, { 1, 1 } },
};
#define NV ((int) (sizeof(V) / sizeof(V[0])))

// ---- letters -----------------------------------------------------------------
enum { L_SEND, L_RECV, L_LINK, L_BUF, L_SUBTOG, L_CTXSEND, L_CTXRECV, L_CTXCYCLE };
typedef struct letter {
	int kind;
	int side; // 0 = X, 1 = Y, 2 = both (L_BUF)
	int n;    // buffer size
} letter;

// one scenario = one protocol variant; the first choice picks the start state
// (seed 0 = freshly connected, others = forced letter prefix)
typedef struct scen {
	const variant *v;
	int            peer2;   // a second socket of Y's kind is connected to X as well (letters recvZ, linkZ)
	int            withctx; // a second context on every side that has contexts; its operations
	                        // have no descriptor of their own but must not disturb the socket's
	letter         al[20];
	int            nal;
	int            nseed;
	int            prefix[3][8];
	int            npre[3];
	int            depth[3];
} scen;

// investigation aid (default off = strict): signatures listed in the
// environment variable C15_TOLERATE are logged instead of ending the
// execution, so that histories behind an already known defect get explored
// recorded in known_findings.json (cannot be repaired without breaking the
// pinned test test_resp_ctx_send_nonblock): reported, but exploration goes on
#define KNOWN_SOFT "C15:respondent:send:readable-but-eagain"
static const char *g_tolerate;
static int
tolerated(const char *sig)
{
	return g_tolerate != NULL && strstr(g_tolerate, sig) != NULL;
}
#define VIOL(sig, ...)                                   \
	do {                                             \
		const char *sig_ = (sig);                \
		if (tolerated(sig_))                     \
			vs_log("TOLERATED %s", sig_);    \
		else if (!strcmp(sig_, KNOWN_SOFT))      \
			vs_soft_fail(sig_, __VA_ARGS__); \
		else                                     \
			vs_fail(sig_, __VA_ARGS__);      \
	} while (0)

static int
has_ctx(const char *proto)
{
	return !strcmp(proto, "req") || !strcmp(proto, "rep") || !strcmp(proto, "surveyor") ||
	    !strcmp(proto, "respondent") || !strcmp(proto, "sub");
}

static void
mk_alphabet(scen *sc, const variant *v)
{
	sc->v   = v;
	sc->nal = 0;
	for (int s = 0; s < 2; s++) {
		if (v->snd[s])
			sc->al[sc->nal++] = (letter){ L_SEND, s, 0 };
		if (v->rcv[s])
			sc->al[sc->nal++] = (letter){ L_RECV, s, 0 };
	}
	sc->al[sc->nal++] = (letter){ L_LINK, 0, 0 };
	if (v->buf[0] || v->buf[1]) {
		sc->al[sc->nal++] = (letter){ L_BUF, 2, 0 };
		sc->al[sc->nal++] = (letter){ L_BUF, 2, 2 };
	}
	if (v->sub)
		sc->al[sc->nal++] = (letter){ L_SUBTOG, 1, 0 };
	if (sc->peer2) {
		if (v->rcv[1])
			sc->al[sc->nal++] = (letter){ L_RECV, 2, 0 };
		if (v->snd[1])
			sc->al[sc->nal++] = (letter){ L_SEND, 2, 0 };
		sc->al[sc->nal++] = (letter){ L_LINK, 2, 0 };
	}
	if (sc->withctx)
		for (int s = 0; s < 2; s++) {
			if (!has_ctx(v->name[s]))
				continue;
			if (v->snd[s])
				sc->al[sc->nal++] = (letter){ L_CTXSEND, s, 0 };
			if (v->rcv[s])
				sc->al[sc->nal++] = (letter){ L_CTXRECV, s, 0 };
			sc->al[sc->nal++] = (letter){ L_CTXCYCLE, s, 0 };
		}
}

static int
find_letter(const scen *sc, int kind, int side)
{
	for (int i = 0; i < sc->nal; i++)
		if (sc->al[i].kind == kind && sc->al[i].side == side)
			return i;
	return -1;
}

static const char *
ename(int rv)
{
	static char b[4][16];
	static int  r;
	switch (rv) {
	case 0:
		return "ok";
	case NNG_EAGAIN:
		return "EAGAIN";
	case NNG_ESTATE:
		return "ESTATE";
	case NNG_ECLOSED:
		return "ECLOSED";
	case NNG_ENOTSUP:
		return "ENOTSUP";
	case NNG_ETIMEDOUT:
		return "ETIMEDOUT";
	case NNG_EPROTO:
		return "EPROTO";
	default: {
		char *o = b[r++ & 3];
		snprintf(o, 16, "E%d", rv);
		return o;
	}
	}
}

static int
readable(int fd)
{
	struct pollfd p = { .fd = fd, .events = POLLIN };
	int           n = poll(&p, 1, 0);
	if (n < 0)
		vs_fail("harness:poll", "poll on a library descriptor failed");
	return n > 0 && (p.revents & POLLIN) != 0;
}

static void
set_buf(nng_socket s, int n)
{
	// errors (option absent for this direction) are ignored; protocols
	// whose minimum is 1 get 1 instead of 0
	if (nng_socket_set_int(s, NNG_OPT_RECVBUF, n) == NNG_EINVAL && n == 0)
		(void) nng_socket_set_int(s, NNG_OPT_RECVBUF, 1);
	if (nng_socket_set_int(s, NNG_OPT_SENDBUF, n) == NNG_EINVAL && n == 0)
		(void) nng_socket_set_int(s, NNG_OPT_SENDBUF, 1);
}

#define SIG(buf, proto, op, clause) \
	(snprintf(buf, sizeof(buf), "C15:%s:%s:%s", proto, op, clause), buf)

static void
run(void *arg)
{
	const scen    *sc = arg;
	const variant *v  = sc->v;
	nng_socket     s[3];
	nng_dialer     d, d2;
	int            sfd[3] = { -1, -1, -1 }, rfd[3] = { -1, -1, -1 };
	int            up = 1, up2 = 1, subscribed = 0;
	int            nsent[3]        = { 0, 0, 0 }; // tags handed to nng_sendmsg
	uint8_t        accepted[3][16] = { { 0 } };
	uint8_t        route[3][64]; // last received header per side
	size_t         routelen[3] = { 0, 0, 0 };
	const int      ns = sc->peer2 ? 3 : 2;
#define VI(k) ((k) == 2 ? 1 : (k)) // side 2 is a second socket of Y's kind
	static const char SIDE[] = "XYZ";
	int            n_ok = 0, n_again = 0, n_other = 0, n_rd = 0;
	char           hist[600] = "";
	char           sig[96];

	vh_init(0);
	for (int i = 0; i < ns; i++) {
		VH_OK(v->open[VI(i)](&s[i]));
		set_buf(s[i], 1);
	}
	if (v->sub) {
		VH_OK(nng_sub0_socket_subscribe(s[1], "", 0));
		if (ns == 3)
			VH_OK(nng_sub0_socket_subscribe(s[2], "", 0));
		subscribed = 1;
	}
	for (int i = 0; i < ns; i++) {
		int rv = nng_socket_get_send_poll_fd(s[i], &sfd[i]);
		if (rv != (v->snd[VI(i)] ? 0 : NNG_ENOTSUP))
			vs_fail("harness:fd-support", "%s send poll fd -> %s",
			    v->name[VI(i)], ename(rv));
		rv = nng_socket_get_recv_poll_fd(s[i], &rfd[i]);
		if (rv != (v->rcv[VI(i)] ? 0 : NNG_ENOTSUP))
			vs_fail("harness:fd-support", "%s recv poll fd -> %s",
			    v->name[VI(i)], ename(rv));
	}
	VH_OK(nng_listen(s[0], "inproc://c15", NULL, 0));
	VH_OK(nng_dial(s[1], "inproc://c15", &d, 0));
	if (ns == 3)
		VH_OK(nng_dial(s[2], "inproc://c15", &d2, 0));
	nng_ctx cx[2];
	int     hascx[2] = { 0, 0 };
	for (int i = 0; i < 2 && sc->withctx; i++)
		if (has_ctx(v->name[i])) {
			VH_OK(nng_ctx_open(&cx[i], s[i]));
			hascx[i] = 1;
			if (!strcmp(v->name[i], "sub"))
				VH_OK(nng_sub0_ctx_subscribe(cx[i], "", 0));
		}
	vs_settle();

	int seed  = sc->nseed > 1 ? vs_choose(VK_ENV, sc->nseed) : 0;
	int npre  = sc->npre[seed];
	int total = npre + sc->depth[seed];
	for (int step = 0; step < total; step++) {
		int l = step < npre ? sc->prefix[seed][step]
		                    : vs_choose(VK_ENV, sc->nal);
		const letter *x  = &sc->al[l];
		size_t        hl = strlen(hist);
		char         *h  = hist + hl;
		size_t        hr = sizeof(hist) - hl;
		const char   *sp = step ? " " : "";
		vs_settle();
		switch (x->kind) {
		case L_SEND: {
			int         k    = x->side;
			const char *pn   = v->name[VI(k)];
			int         P    = readable(sfd[k]);
			int         seq  = nsent[k]++;
			uint8_t     body[2] = { (uint8_t) SIDE[k], (uint8_t) seq };
			nng_msg    *m;
			if (seq >= 16)
				vs_fail("harness:tags", "more than 16 sends per side");
			VH_OK(nng_msg_alloc(&m, 0));
			VH_OK(nng_msg_append(m, body, 2));
			switch (v->hdr[VI(k)]) {
			case H_ID:
				VH_OK(nng_msg_header_append_u32(
				    m, 0x80000001u + (uint32_t) seq));
				break;
			case H_ROUTE:
				if (routelen[k])
					VH_OK(nng_msg_header_append(
					    m, route[k], routelen[k]));
				else {
					VH_OK(nng_msg_header_append_u32(m, 0x7ffffff1u));
					VH_OK(nng_msg_header_append_u32(m, 0x80000001u));
				}
				break;
			case H_HOPS:
				VH_OK(nng_msg_header_append_u32(m, 0));
				break;
			default:
				break;
			}
			int64_t t0 = vs_now();
			int     R  = nng_sendmsg(s[k], m, NNG_FLAG_NONBLOCK);
			int64_t dt = vs_now() - t0;
			snprintf(h, hr, "%ssend%c[P%d]=%s", sp, SIDE[k], P,
			    ename(R));
			if (R != 0)
				nng_msg_free(m); // (iv) still ours
			else
				accepted[k][seq] = 1;
			if (dt != 0)
				VIOL(SIG(sig, pn, "send", "blocked"),
				    "[%s] non-blocking send took %lld virtual ms",
				    hist, (long long) dt);
			if (R == 0 && !P)
				VIOL(SIG(sig, pn, "send", "success-without-readable"),
				    "[%s] send succeeded although the send descriptor "
				    "did not poll readable at the quiescent point "
				    "just before",
				    hist);
			if (P && R == NNG_EAGAIN) {
				VIOL(SIG(sig, pn, "send", "readable-but-eagain"),
				    "[%s] send descriptor polled readable but the "
				    "non-blocking send returned NNG_EAGAIN",
				    hist);
				// only reached for the recorded RESPONDENT finding (soft): the states
				// behind it are still explored - the same message goes out through
				// the blocking form, which works
				VH_OK(nng_msg_alloc(&m, 0));
				VH_OK(nng_msg_append(m, body, 2));
				VH_OK(nng_socket_set_ms(s[k], NNG_OPT_SENDTIMEO, 50));
				if (nng_sendmsg(s[k], m, 0) != 0)
					nng_msg_free(m);
				else
					accepted[k][seq] = 1;
			}
			if (R == 0)
				n_ok++;
			else if (R == NNG_EAGAIN)
				n_again++;
			else
				n_other++;
			n_rd += P;
		} break;
		case L_RECV: {
			int         k  = x->side;
			const char *pn = v->name[VI(k)];
			int         P  = readable(rfd[k]);
			nng_msg    *m  = NULL;
			int64_t     t0 = vs_now();
			int         R  = nng_recvmsg(s[k], &m, NNG_FLAG_NONBLOCK);
			int64_t     dt = vs_now() - t0;
			snprintf(h, hr, "%srecv%c[P%d]=%s", sp, SIDE[k], P,
			    ename(R));
			if (dt != 0)
				VIOL(SIG(sig, pn, "recv", "blocked"),
				    "[%s] non-blocking recv took %lld virtual ms",
				    hist, (long long) dt);
			if (R == 0 && !P)
				VIOL(SIG(sig, pn, "recv", "success-without-readable"),
				    "[%s] recv delivered a message although the recv "
				    "descriptor did not poll readable at the "
				    "quiescent point just before",
				    hist);
			if (P && R == NNG_EAGAIN)
				VIOL(SIG(sig, pn, "recv", "readable-but-eagain"),
				    "[%s] recv descriptor polled readable but the "
				    "non-blocking recv returned NNG_EAGAIN",
				    hist);
			if (R == 0) {
				const uint8_t *b  = nng_msg_body(m);
				size_t         bl = nng_msg_len(m);
				// X hears from Y (or Z); Y and Z hear from X
				int            pk = k == 0 ? ((bl == 2 && b[0] == 'Z' && ns == 3) ? 2 : 1) : 0;
				if (bl != 2 || b[0] != (uint8_t) SIDE[pk] ||
				    b[1] >= nsent[pk] || !accepted[pk][b[1]]) {
					snprintf(h + strlen(h), hr - strlen(h), "(%s)",
					    vh_hex(b, bl > 8 ? 8 : bl));
					VIOL(SIG(sig, pn, "recv", "phantom"),
					    "[%s] received a body that the peer never "
					    "had accepted",
					    hist);
				}
				snprintf(h + strlen(h), hr - strlen(h), "(%c%d)", b[0],
				    b[1]);
				if (v->hdr[VI(k)] == H_ROUTE) {
					routelen[k] = nng_msg_header_len(m);
					if (routelen[k] > sizeof(route[k]))
						routelen[k] = sizeof(route[k]);
					memcpy(route[k], nng_msg_header(m), routelen[k]);
				}
				nng_msg_free(m);
				n_ok++;
			} else if (R == NNG_EAGAIN)
				n_again++;
			else
				n_other++;
			n_rd += P;
		} break;
		case L_CTXSEND: {
			int      k       = x->side;
			int      seq     = nsent[k]++;
			uint8_t  body[2] = { (uint8_t) (k ? 'Y' : 'X'), (uint8_t) seq };
			nng_msg *m;
			if (seq >= 16)
				vs_fail("harness:tags", "more than 16 sends per side");
			VH_OK(nng_msg_alloc(&m, 0));
			VH_OK(nng_msg_append(m, body, 2));
			int64_t t0 = vs_now();
			int     R  = nng_ctx_sendmsg(cx[k], m, NNG_FLAG_NONBLOCK);
			int64_t dt = vs_now() - t0;
			snprintf(h, hr, "%sctxsend%c=%s", sp, k ? 'Y' : 'X', ename(R));
			if (R != 0)
				nng_msg_free(m);
			else
				accepted[k][seq] = 1;
			if (dt != 0)
				VIOL(SIG(sig, v->name[k], "ctxsend", "blocked"),
				    "[%s] non-blocking context send took %lld virtual ms", hist,
				    (long long) dt);
		} break;
		case L_CTXRECV: {
			int      k  = x->side;
			nng_msg *m  = NULL;
			int64_t  t0 = vs_now();
			int      R  = nng_ctx_recvmsg(cx[k], &m, NNG_FLAG_NONBLOCK);
			int64_t  dt = vs_now() - t0;
			snprintf(h, hr, "%sctxrecv%c=%s", sp, k ? 'Y' : 'X', ename(R));
			if (dt != 0)
				VIOL(SIG(sig, v->name[k], "ctxrecv", "blocked"),
				    "[%s] non-blocking context recv took %lld virtual ms", hist,
				    (long long) dt);
			if (R == 0) {
				const uint8_t *b  = nng_msg_body(m);
				size_t         bl = nng_msg_len(m);
				int            pk = !k;
				if (bl != 2 || b[0] != (pk ? 'Y' : 'X') || b[1] >= nsent[pk] ||
				    !accepted[pk][b[1]])
					VIOL(SIG(sig, v->name[k], "ctxrecv", "phantom"),
					    "[%s] a context received a body that the peer never had "
					    "accepted",
					    hist);
				snprintf(h + strlen(h), hr - strlen(h), "(%c%d)", b[0], b[1]);
				nng_msg_free(m);
			}
		} break;
		case L_CTXCYCLE: {
			int k = x->side;
			VH_OK(nng_ctx_close(cx[k]));
			VH_OK(nng_ctx_open(&cx[k], s[k]));
			if (!strcmp(v->name[k], "sub"))
				VH_OK(nng_sub0_ctx_subscribe(cx[k], "", 0));
			snprintf(h, hr, "%sctxcycle%c", sp, k ? 'Y' : 'X');
		} break;
		case L_LINK:
			if (x->side == 2) {
				if (up2) {
					VH_OK(nng_dialer_close(d2));
					snprintf(h, hr, "%sdownZ", sp);
				} else {
					if (nng_dial(s[2], "inproc://c15", &d2, 0) != 0)
						vs_fail("harness:redial", "[%s] dial Z", hist);
					snprintf(h, hr, "%supZ", sp);
				}
				up2 = !up2;
				break;
			}
			if (up) {
				VH_OK(nng_dialer_close(d));
				up = 0;
				snprintf(h, hr, "%sdown", sp);
			} else {
				int rv = nng_dial(s[1], "inproc://c15", &d, 0);
				if (rv != 0)
					vs_fail("harness:redial", "[%s] dial -> %s", hist,
					    ename(rv));
				up = 1;
				snprintf(h, hr, "%sup", sp);
			}
			break;
		case L_BUF:
			for (int k = 0; k < ns; k++)
				if (v->buf[VI(k)])
					set_buf(s[k], x->n);
			snprintf(h, hr, "%sbuf=%d", sp, x->n);
			break;
		case L_SUBTOG:
			if (subscribed) {
				VH_OK(nng_sub0_socket_unsubscribe(s[1], "", 0));
				snprintf(h, hr, "%sunsub", sp);
			} else {
				VH_OK(nng_sub0_socket_subscribe(s[1], "", 0));
				snprintf(h, hr, "%ssub", sp);
			}
			subscribed = !subscribed;
			break;
		}
		vs_settle();
	}
	vs_log("%s", hist);
	(void) hascx;
	vs_outcome("s%d o%d a%d x%d p%d u%d", seed, n_ok, n_again, n_other, n_rd,
	    up);
	if (ns == 3)
		nng_socket_close(s[2]);
	nng_socket_close(s[1]);
	nng_socket_close(s[0]);
	vh_fini();
#undef VI
}

// ---- driver --------------------------------------------------------------------
// ---- schedules: poll descriptors after concurrent traffic ------------------------------------------------
// (a) X sends two messages while a thread on Y does non-blocking receives; every schedule within the
//     budget; afterwards the library is quiescent and the oracle of the sequence part is applied until Y
//     is drained: descriptor readable => receive does not say EAGAIN, receive succeeds => descriptor was
//     readable.  (b) REP with two requests outstanding on one pipe: the second request is received while
//     the send completion of the first reply runs; afterwards the send descriptor must say "writable" iff
//     the non-blocking send succeeds.
static nng_socket pr_s[2];
static const variant *pr_v;
static void *
pr_sender(void *a)
{
	(void) a;
	for (int i = 0; i < 2; i++) {
		nng_msg *m;
		uint8_t  b[2] = { 'X', (uint8_t) i };
		if (nng_msg_alloc(&m, 0) != 0 || nng_msg_append(m, b, 2) != 0)
			vs_fail("harness:pr", "msg alloc");
		if (nng_sendmsg(pr_s[0], m, NNG_FLAG_NONBLOCK) != 0)
			nng_msg_free(m);
	}
	return NULL;
}
static void *
pr_receiver(void *a)
{
	(void) a;
	for (int i = 0; i < 2; i++) {
		nng_msg *m;
		if (nng_recvmsg(pr_s[1], &m, NNG_FLAG_NONBLOCK) == 0)
			nng_msg_free(m);
	}
	return NULL;
}
static void *
pr_getter(void *a)
{
	VH_OK(nng_socket_get_recv_poll_fd(pr_s[1], (int *) a));
	return NULL;
}
static void
pr_drain_check(nng_socket s, int fd, const char *pn, const char *what)
{
	char sig[96];
	for (int i = 0; i < 6; i++) {
		vs_settle();
		int      P = readable(fd);
		nng_msg *m = NULL;
		int      R = nng_recvmsg(s, &m, NNG_FLAG_NONBLOCK);
		if (R == 0)
			nng_msg_free(m);
		if (P && R == NNG_EAGAIN)
			VIOL(SIG(sig, pn, "recv", "readable-but-eagain"),
			    "[%s] after the race the recv descriptor polls readable but the "
			    "non-blocking recv returns NNG_EAGAIN",
			    what);
		if (!P && R == 0)
			VIOL(SIG(sig, pn, "recv", "success-without-readable"),
			    "[%s] after the race recv delivered a message although the recv "
			    "descriptor did not poll readable",
			    what);
		if (R != 0)
			break;
	}
}
static void
run_pollrace(void *arg)
{
	const variant *v = arg;
	pr_v             = v;
	int fd           = -1;
	vh_init(0);
	for (int i = 0; i < 2; i++) {
		VH_OK(v->open[i](&pr_s[i]));
		set_buf(pr_s[i], 2);
	}
	if (v->sub)
		VH_OK(nng_sub0_socket_subscribe(pr_s[1], "", 0));
	// the descriptor exists before the race, is created after it, or (2) is created by a
	// third thread during it (then the pollable's atomics are scheduling points too)
	int early = vs_choose(VK_ENV, 3);
	if (early == 1)
		VH_OK(nng_socket_get_recv_poll_fd(pr_s[1], &fd));
	VH_OK(nng_listen(pr_s[0], "inproc://c15pr", NULL, 0));
	VH_OK(nng_dial(pr_s[1], "inproc://c15pr", NULL, 0));
	vs_settle();
	pthread_t ts, tr, tg;
	vs_atomic_points = early == 2;
	vs_window(1);
	pthread_create(&ts, NULL, pr_sender, NULL);
	if (early == 2) // (created before the receiver: default order sender, getter, receiver)
		pthread_create(&tg, NULL, pr_getter, &fd);
	pthread_create(&tr, NULL, pr_receiver, NULL);
	pthread_join(ts, NULL);
	pthread_join(tr, NULL);
	if (early == 2)
		pthread_join(tg, NULL);
	vs_window(0);
	vs_atomic_points = 0;
	vs_settle();
	if (early == 0)
		VH_OK(nng_socket_get_recv_poll_fd(pr_s[1], &fd));
	vs_nontrivial();
	pr_drain_check(pr_s[1], fd, v->name[1], "sendX sendX || recvY recvY");
	vs_outcome("%s early=%d", v->scen, early);
	nng_socket_close(pr_s[1]);
	nng_socket_close(pr_s[0]);
	vh_fini();
}

static nng_socket rr_rep;
static void *
rr_recv2(void *a)
{
	(void) a;
	nng_msg *m;
	for (int i = 0; i < 3; i++)
		if (nng_recvmsg(rr_rep, &m, NNG_FLAG_NONBLOCK) == 0) {
			nng_msg_free(m);
			return (void *) 1;
		}
	return NULL;
}
static void
run_reprace(void *arg)
{
	(void) arg;
	char sig[96];
	vh_init(0);
	VH_OK(nng_rep0_open(&rr_rep));
	int sfd = -1, rfd = -1;
	VH_OK(nng_socket_get_send_poll_fd(rr_rep, &sfd));
	VH_OK(nng_socket_get_recv_poll_fd(rr_rep, &rfd));
	int fd = vp_connect_raw(rr_rep, SP_REQ, NULL);
	if (fd < 0)
		vs_fail("harness:setup", "raw requester");
	uint8_t id1[4] = { 0x80, 0, 0, 1 }, id2[4] = { 0x80, 0, 0, 2 };
	if (vp_send(fd, id1, 4, "q1", 2) != 0 || vp_send(fd, id2, 4, "q2", 2) != 0)
		vs_fail("harness:peer", "raw write");
	vs_settle();
	nng_msg *m;
	if (nng_recvmsg(rr_rep, &m, NNG_FLAG_NONBLOCK) != 0)
		vs_fail("harness:rr", "first request not received");
	nng_msg_free(m);
	VH_OK(nng_msg_alloc(&m, 0));
	VH_OK(nng_msg_append(m, "r1", 2));
	// reply 1 is sent and request 2 is received while that send completes
	pthread_t t;
	void     *got2 = NULL;
	vs_window(1);
	if (nng_sendmsg(rr_rep, m, NNG_FLAG_NONBLOCK) != 0)
		vs_fail("harness:rr", "first reply refused");
	pthread_create(&t, NULL, rr_recv2, NULL);
	pthread_join(t, &got2);
	vs_window(0);
	vs_settle();
	if (!got2) {
		if (nng_recvmsg(rr_rep, &m, NNG_FLAG_NONBLOCK) != 0)
			vs_fail("C15:rep:recv:missed", "second request never became receivable");
		nng_msg_free(m);
		vs_settle();
	}
	vs_nontrivial();
	// request 2 is received, reply 1 is out: a reply can be sent now
	int P = readable(sfd);
	VH_OK(nng_msg_alloc(&m, 0));
	VH_OK(nng_msg_append(m, "r2", 2));
	int R = nng_sendmsg(rr_rep, m, NNG_FLAG_NONBLOCK);
	if (R != 0)
		nng_msg_free(m);
	if (R == 0 && !P)
		VIOL(SIG(sig, "rep", "send", "success-without-writable"),
		    "[two requests on one pipe; reply 1 sent; request 2 received while that send "
		    "completed] the non-blocking send of reply 2 succeeded although the send "
		    "descriptor did not poll readable (a poll-driven server would never send it)");
	if (R == NNG_EAGAIN && P)
		VIOL(SIG(sig, "rep", "send", "readable-but-eagain"),
		    "[two requests on one pipe] send descriptor readable but send says NNG_EAGAIN");
	vs_outcome("reprace got2=%d P=%d R=%d", got2 != NULL, P, R);
	close(fd);
	nng_socket_close(rr_rep);
	vh_fini();
}

static int
depth_for(int nal, long cap, int maxd)
{
	int  d = 1;
	long n = nal;
	while (d < maxd && n * nal <= cap) {
		n *= nal;
		d++;
	}
	return d;
}

int
main(int argc, char **argv)
{
	vx_init(argc, argv, "C15");
	g_tolerate   = getenv("C15_TOLERATE");
	int    T     = vx_is_thorough();
	long   cap0   = T ? 50000 : 3200; // executions from the initial state
	long   capsd0 = T ? 8000 : 400;   // executions per seeded state
	long   cap = cap0, capsd = capsd0;
	int    maxd  = T ? 6 : 5;
	double need  = T ? 90 : 6;
	int    dmin = 99, dmax = 0, sdmin = 99, sdmax = 0, skipped = 0;
	static scen SC[3 * NV];
	for (int ii = 0; ii < 3 * NV; ii++) {
		int   i  = ii % NV;
		scen *sc = &SC[ii];
		sc->withctx = ii >= NV && ii < 2 * NV;
		sc->peer2   = ii >= 2 * NV;
		if (sc->withctx && !has_ctx(V[i].name[0]) && !has_ctx(V[i].name[1]))
			continue;
		// a second peer: the one-to-many protocols (two pullers, two subscribers, two
		// respondents, three bus nodes), cooked and raw push
		if (sc->peer2 && strcmp(V[i].scen, "push-pull") && strcmp(V[i].scen, "pub-sub") &&
		    strcmp(V[i].scen, "surveyor-respondent") && strcmp(V[i].scen, "bus") &&
		    strcmp(V[i].scen, "xpush-xpull") && strcmp(V[i].scen, "req-rep") &&
		    strcmp(V[i].scen, "xreq-xrep") && strcmp(V[i].scen, "xsurveyor-xrespondent") &&
		    strcmp(V[i].scen, "xbus") && strcmp(V[i].scen, "xpub-xsub"))
			continue;
		mk_alphabet(sc, &V[i]);
		// seed 0: the initial (connected, empty) state
		// (the context scenarios have 10-11 letters: depth 3 from every start state)
		long cap = (sc->withctx || sc->peer2) ? (T ? 170000 : 1500) : cap0;
		long capsd = (sc->withctx || sc->peer2) ? (T ? 15000 : 1500) : capsd0;
		sc->npre[0]  = 0;
		sc->depth[0] = depth_for(sc->nal, cap, maxd);
		sc->nseed    = 1;
		// seed 1 "full": three sends in every sending direction
		int k       = sc->nseed++;
		sc->npre[k] = 0;
		for (int s = 0; s < 2; s++) {
			int l = find_letter(sc, L_SEND, s);
			for (int r = 0; r < 3 && l >= 0; r++)
				sc->prefix[k][sc->npre[k]++] = l;
		}
		sc->depth[k] = depth_for(sc->nal, capsd, maxd);
		// seed 2 "rt": sendX recvY (request/survey delivered, reply possible)
		int a = find_letter(sc, L_SEND, 0);
		int b = find_letter(sc, L_RECV, 1);
		if (a >= 0 && b >= 0 && V[i].snd[1]) {
			k                = sc->nseed++;
			sc->prefix[k][0] = a;
			sc->prefix[k][1] = b;
			sc->npre[k]      = 2;
			sc->depth[k]     = depth_for(sc->nal, capsd, maxd);
		}
		if (vx_time_left() < need) {
			skipped++;
			continue;
		}
		if (sc->depth[0] < dmin)
			dmin = sc->depth[0];
		if (sc->depth[0] > dmax)
			dmax = sc->depth[0];
		if (sc->depth[1] < sdmin)
			sdmin = sc->depth[1];
		if (sc->depth[1] > sdmax)
			sdmax = sc->depth[1];
		vx_cfg c;
		memset(&c, 0, sizeof(c));
		c.prop     = "C15";
		c.scenario = V[i].scen;
		if (sc->withctx || sc->peer2) {
			char nm[64];
			snprintf(nm, sizeof(nm), "%s-%s", V[i].scen, sc->peer2 ? "2peers" : "ctx");
			c.scenario = strdup(nm);
		}
		c.run      = run;
		c.arg      = sc;
		for (int j = 0; j < VB_NB; j++)
			c.budget[j] = 0;
		c.budget[VB_ENV] = -1;
		c.total          = 0;
		vx_explore(&c, NULL);
	}
	// schedule scenarios: variants in which X can send to Y without a header or a prior request
	for (int i = 0; i < NV; i++) {
		if (V[i].hdr[0] != H_NONE || !V[i].snd[0] || !V[i].rcv[1])
			continue;
		if (!T && i >= 7 && strcmp(V[i].scen, "xpub-xsub") != 0)
			continue; // quick: the cooked ones and raw SUB
		char nm[64];
		snprintf(nm, sizeof(nm), "pollrace-%s", V[i].scen);
		vx_cfg c;
		memset(&c, 0, sizeof(c));
		c.prop     = "C15";
		c.scenario = strdup(nm);
		c.run      = run_pollrace;
		c.arg      = (void *) &V[i];
		c.budget[VB_PREEMPT] = 1;
		c.budget[VB_SWITCH]  = 1;
		c.budget[VB_ENV]     = -1;
		c.total              = T ? 2 : 1;
		vx_explore(&c, NULL);
	}
	{
		vx_cfg c;
		memset(&c, 0, sizeof(c));
		c.prop     = "C15";
		c.scenario = "pollrace-rep-two-requests";
		c.run      = run_reprace;
		c.budget[VB_PREEMPT] = T ? 2 : 1;
		c.budget[VB_SWITCH]  = 2;
		c.budget[VB_ENV]     = -1;
		c.total              = 2;
		vx_explore(&c, NULL);
	}
	vx_note("alphabet",
	    "per variant: non-blocking send/recv for every direction that has a "
	    "poll descriptor (tagged 2-byte bodies), link (dialer close / dial "
	    "again), buf=0 / buf=2 (RECVBUF+SENDBUF of every socket that has a "
	    "protocol-level buffer; initial 1), sub/unsub \"\" for SUB; 5..7 "
	    "letters");
	vx_note("bounds",
	    "%d protocol variants (7 cooked pairings + their raw forms); per "
	    "variant all letter sequences of depth %d..%d from the freshly "
	    "connected state (largest d with letters^d <= %ld) and of depth "
	    "%d..%d from the seeded states full (3 sends per direction) and rt "
	    "(sendX recvY) (letters^d <= %ld); %d variants skipped for time",
	    NV, dmin, dmax, cap, sdmin, sdmax, capsd, skipped);
	vx_note("oracle",
	    "at every quiescent point before a non-blocking letter: P = poll(fd, "
	    "POLLIN, 0); dt == 0; R == 0 => P; P => R != EAGAIN; R != 0 => message "
	    "freed by the caller (ASan); received body was accepted from the peer");
	if (g_tolerate)
		vx_note("tolerated", "%s", g_tolerate);
	return vx_finish();
}
