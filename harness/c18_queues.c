// C18 - socket buffers are bounded FIFOs; identifiers unique and in range.
// Part A: explicit-state BFS over the real lmq.c (put/get/resize/flush).
// Part B: explicit-state BFS over the real idhash.c (alloc/set/remove + get/
//         visit observers) with tiny wrapping ranges and colliding keys.
// Part C: (scheduler) op sequences over the real msgqueue.c and public-API
//         handle identifiers.
// The real source files are compiled into this translation unit so that the
// complete structural state can be used as the dedup key.
#define _GNU_SOURCE
#include "core/nng_impl.h"

#include "core/idhash.c"
#include "core/lmq.c"
#include "core/msgqueue.c"

#include "vbfs.h"
#include "vpeer.h"
#include "vs.h"
#include <stdio.h>
#include <stdlib.h>
#include <string.h>

static uint64_t
fnv(uint64_t h, const void *p, size_t n)
{
	const uint8_t *b = p;
	for (size_t i = 0; i < n; i++)
		h = (h ^ b[i]) * 0x100000001b3ull;
	return h;
}

#define HT (1u << 22)
static uint64_t *seen;
static void
seen_reset(void)
{
	memset(seen, 0, sizeof(uint64_t) * HT);
}
static int
seen_add(uint64_t k)
{
	if (k == 0)
		k = 1;
	uint64_t h = (k * 0x9E3779B97F4A7C15ull) >> 42;
	for (;;) {
		if (seen[h] == k)
			return 0;
		if (seen[h] == 0) {
			seen[h] = k;
			return 1;
		}
		h = (h + 1) & (HT - 1);
	}
}

#define MAXH 24
typedef struct hist {
	uint8_t n;
	uint8_t op[MAXH];
} hist;

static long g_states, g_trans;
static int  g_timecut;

// ============================================================================
// Part A: lmq
// ============================================================================
enum { L_PUT, L_GET, L_FLUSH, L_RESIZE0 }; // L_RESIZE0 + n = resize(n)
#define L_NOPS (L_RESIZE0 + 10)

typedef struct lmodel {
	int      cap;
	int      len;
	nng_msg *q[32];
	nng_msg *all[MAXH + 2]; // every message created in this history
	int      nall;
} lmodel;

static char *
l_hist(int initcap, const hist *h)
{
	static char b[400];
	size_t      o = (size_t) snprintf(b, sizeof(b), "init(%d)", initcap);
	for (int i = 0; i < h->n && o + 20 < sizeof(b); i++) {
		int op = h->op[i];
		if (op == L_PUT)
			o += (size_t) snprintf(b + o, sizeof(b) - o, " put");
		else if (op == L_GET)
			o += (size_t) snprintf(b + o, sizeof(b) - o, " get");
		else if (op == L_FLUSH)
			o += (size_t) snprintf(b + o, sizeof(b) - o, " flush");
		else
			o += (size_t) snprintf(
			    b + o, sizeof(b) - o, " resize(%d)", op - L_RESIZE0);
	}
	return b;
}

static char lerr[400];

// observer checks after every transition
static int
l_check(nni_lmq *q, lmodel *M)
{
	if ((int) nni_lmq_len(q) != M->len) {
		snprintf(lerr, sizeof(lerr), "len %zu, model %d", nni_lmq_len(q),
		    M->len);
		return -1;
	}
	if ((int) nni_lmq_cap(q) != M->cap) {
		snprintf(lerr, sizeof(lerr), "cap %zu, model %d", nni_lmq_cap(q),
		    M->cap);
		return -1;
	}
	if (nni_lmq_empty(q) != (M->len == 0) ||
	    nni_lmq_full(q) != (M->len >= M->cap)) {
		snprintf(lerr, sizeof(lerr), "empty/full flags wrong at len %d cap %d",
		    M->len, M->cap);
		return -1;
	}
	if (M->len > M->cap) {
		snprintf(lerr, sizeof(lerr), "holds %d > depth %d", M->len, M->cap);
		return -1;
	}
	// ownership: queued <=> the queue still holds its reference
	for (int i = 0; i < M->nall; i++) {
		int inq = 0;
		for (int j = 0; j < M->len; j++)
			if (M->q[j] == M->all[i])
				inq = 1;
		if (nni_msg_shared(M->all[i]) != (bool) inq) {
			snprintf(lerr, sizeof(lerr),
			    "message #%d %s but queue reference %s", i,
			    inq ? "queued" : "not queued",
			    inq ? "was dropped" : "still held");
			return -1;
		}
	}
	// content: drain a structural copy and compare order
	nni_lmq   c  = *q;
	nng_msg **cp = NULL;
	if (q->lmq_msgs == q->lmq_buf) {
		c.lmq_msgs = c.lmq_buf;
	} else {
		cp = malloc(sizeof(nng_msg *) * q->lmq_alloc);
		memcpy(cp, q->lmq_msgs, sizeof(nng_msg *) * q->lmq_alloc);
		c.lmq_msgs = cp;
	}
	for (int i = 0; i < M->len; i++) {
		nng_msg *m = NULL;
		if (nni_lmq_get(&c, &m) != 0 || m != M->q[i]) {
			snprintf(lerr, sizeof(lerr),
			    "position %d holds the wrong message (order/dup/loss)", i);
			free(cp);
			return -1;
		}
	}
	free(cp);
	return 0;
}

static int
l_apply(nni_lmq *q, lmodel *M, int op)
{
	nng_msg *m;
	int      rv;
	if (op == L_PUT) {
		if (nng_msg_alloc(&m, 4) != 0)
			abort();
		nni_msg_clone(m); // harness keeps one reference for ever
		M->all[M->nall++] = m;
		rv                = nni_lmq_put(q, m);
		if (M->len >= M->cap) {
			if (rv != NNG_EAGAIN) {
				snprintf(lerr, sizeof(lerr),
				    "put on full queue (len %d cap %d) -> %d", M->len,
				    M->cap, rv);
				return -1;
			}
			nni_msg_free(m); // rejected: caller still owns it
		} else {
			if (rv != 0) {
				snprintf(lerr, sizeof(lerr),
				    "put with room (len %d cap %d) -> %d", M->len,
				    M->cap, rv);
				return -1;
			}
			M->q[M->len++] = m;
		}
	} else if (op == L_GET) {
		m  = NULL;
		rv = nni_lmq_get(q, &m);
		if (M->len == 0) {
			if (rv != NNG_EAGAIN) {
				snprintf(lerr, sizeof(lerr), "get on empty -> %d", rv);
				return -1;
			}
		} else {
			if (rv != 0 || m != M->q[0]) {
				snprintf(lerr, sizeof(lerr),
				    "get returned %s (rv %d), expected the oldest message",
				    m == NULL ? "nothing" : "another message", rv);
				return -1;
			}
			memmove(M->q, M->q + 1, sizeof(M->q[0]) * (size_t) (M->len - 1));
			M->len--;
			nni_msg_free(m); // consume the queue's reference
		}
	} else if (op == L_FLUSH) {
		nni_lmq_flush(q);
		M->len = 0;
	} else {
		int n = op - L_RESIZE0;
		rv    = nni_lmq_resize(q, (size_t) n);
		if (rv != 0) {
			snprintf(lerr, sizeof(lerr), "resize(%d) -> %d", n, rv);
			return -1;
		}
		M->cap   = n;
		int keep = M->len < n ? M->len : n;
		// survivors must be a contiguous run at one end; find which end
		// the implementation kept by looking at the reference flags
		int head_ok = 1, tail_ok = 1;
		for (int i = 0; i < M->len; i++) {
			bool held = nni_msg_shared(M->q[i]);
			if (held != (i < keep))
				head_ok = 0;
			if (held != (i >= M->len - keep))
				tail_ok = 0;
		}
		if (!head_ok && !tail_ok) {
			snprintf(lerr, sizeof(lerr),
			    "resize(%d) with %d queued did not keep a contiguous run of "
			    "%d messages at one end",
			    n, M->len, keep);
			return -1;
		}
		if (!head_ok)
			memmove(M->q, M->q + (M->len - keep),
			    sizeof(M->q[0]) * (size_t) keep);
		M->len = keep;
	}
	return l_check(q, M);
}

static void
l_teardown(nni_lmq *q, lmodel *M)
{
	nni_lmq_fini(q);
	for (int i = 0; i < M->nall; i++)
		nni_msg_free(M->all[i]);
}

static uint64_t
l_key(nni_lmq *q)
{
	uint64_t v[6] = { q->lmq_cap, q->lmq_alloc, q->lmq_mask, q->lmq_len,
		q->lmq_get, q->lmq_put };
	return fnv(0xcbf29ce484222325ull ^ (q->lmq_msgs == q->lmq_buf), v,
	    sizeof(v));
}

// returns 0, or -1 with lerr set; *qp/M hold the state reached
static int
l_rebuild(int initcap, const hist *h, nni_lmq *q, lmodel *M)
{
	memset(M, 0, sizeof(*M));
	nni_lmq_init(q, (size_t) initcap);
	M->cap = initcap;
	if (l_check(q, M) != 0)
		return -1;
	for (int i = 0; i < h->n; i++)
		if (l_apply(q, M, h->op[i]) != 0)
			return -1;
	return 0;
}

typedef struct lctx {
	int initcap;
} lctx;
static int
l_step(void *ctx, const vb_hist *h, int op, uint64_t *key, char *sig,
    size_t sigsz, char *err, size_t errsz)
{
	lctx   *c = ctx;
	nni_lmq q;
	lmodel  M;
	hist    hh;
	hh.n = h->n;
	memcpy(hh.op, h->op, h->n);
	if (l_rebuild(c->initcap, &hh, &q, &M) != 0) {
		snprintf(sig, sigsz, "C18:lmq:replay");
		snprintf(err, errsz, "validated prefix failed on replay: %s", lerr);
		return -1;
	}
	if (l_apply(&q, &M, op) != 0) {
		snprintf(sig, sigsz, "C18:lmq:%s",
		    op == L_PUT         ? "put"
		        : op == L_GET   ? "get"
		        : op == L_FLUSH ? "flush"
		                        : "resize");
		snprintf(err, errsz, "%s", lerr);
		return -1; // state may be corrupt: leak it rather than crash
	}
	*key = l_key(&q);
	l_teardown(&q, &M);
	return 0;
}
static int
l_nops(void *ctx, const vb_hist *h)
{
	(void) ctx;
	(void) h;
	return L_NOPS;
}
static void
l_desc(void *ctx, const vb_hist *h, char *out, size_t sz)
{
	lctx *c = ctx;
	hist  hh;
	hh.n = h->n;
	memcpy(hh.op, h->op, h->n);
	snprintf(out, sz, "lmq %s", l_hist(c->initcap, &hh));
}

static void
part_lmq(int maxdepth)
{
	for (int initcap = 0; initcap <= 8; initcap++) {
		lctx c = { initcap };
		char name[40];
		snprintf(name, sizeof(name), "lmq-init%d", initcap);
		vb_run(name, &c, l_step, l_nops, l_desc, maxdepth, 20, 1u << 20, 20);
	}
}

// ============================================================================
// Part B: idhash
// ============================================================================
typedef struct imodel {
	uint64_t key[64];
	void    *val[64];
	int      n;
	uint64_t last; // last dynamically allocated id, 0 = none
	uint64_t lo, hi;
} imodel;

static const uint64_t IK_Q[] = { 1, 9, 17, 2, 10, 3 };
static const uint64_t IK_T[] = { 1, 9, 17, 33, 2, 10, 3, 8 };
static const uint64_t *IK;
static int             NIK;

// ops: 0 = alloc; 1..NIK = set(IK[i]); NIK+1.. = remove(k) for k in
// IK then lo..hi
static int  i_nops(const imodel *M) { return 1 + NIK + NIK + (int) (M->hi - M->lo + 1); }
static char ierr[400];

static int
im_find(imodel *M, uint64_t k)
{
	for (int i = 0; i < M->n; i++)
		if (M->key[i] == k)
			return i;
	return -1;
}

static char *
i_opname(const imodel *M, int op)
{
	static char b[4][40];
	static int  r;
	char       *o = b[r++ & 3];
	if (op == 0)
		snprintf(o, 40, "alloc");
	else if (op <= NIK)
		snprintf(o, 40, "set(%llu)", (unsigned long long) IK[op - 1]);
	else if (op <= 2 * NIK)
		snprintf(o, 40, "remove(%llu)", (unsigned long long) IK[op - 1 - NIK]);
	else
		snprintf(o, 40, "remove(%llu)",
		    (unsigned long long) (M->lo + (uint64_t) (op - 1 - 2 * NIK)));
	return o;
}

static char *
i_hist(const imodel *M, int rnd, const hist *h)
{
	static char b[500];
	size_t      o = (size_t) snprintf(b, sizeof(b), "map[%llu..%llu%s]",
	         (unsigned long long) M->lo, (unsigned long long) M->hi,
	         rnd ? ",random" : "");
	for (int i = 0; i < h->n && o + 24 < sizeof(b); i++)
		o += (size_t) snprintf(b + o, sizeof(b) - o, " %s",
		    i_opname(M, h->op[i]));
	return b;
}

static int
i_check(nni_id_map *m, imodel *M)
{
	if ((int) nni_id_count(m) != M->n) {
		snprintf(ierr, sizeof(ierr), "count %u, model %d", nni_id_count(m),
		    M->n);
		return -1;
	}
	// get on every key of interest
	for (uint64_t k = 0; k <= 40; k++) {
		int   i = im_find(M, k);
		void *v = nni_id_get(m, k);
		if (v != (i >= 0 ? M->val[i] : NULL)) {
			snprintf(ierr, sizeof(ierr), "get(%llu) = %p, model %p",
			    (unsigned long long) k, v, i >= 0 ? M->val[i] : NULL);
			return -1;
		}
	}
	// visit: exactly the model's set, each once
	uint32_t cur = 0;
	uint64_t k;
	void    *v;
	int      nv = 0;
	uint64_t vis[80];
	while (nni_id_visit(m, &k, &v, &cur)) {
		if (nv >= 70) {
			snprintf(ierr, sizeof(ierr), "visit does not terminate");
			return -1;
		}
		int i = im_find(M, k);
		if (i < 0 || M->val[i] != v) {
			snprintf(ierr, sizeof(ierr), "visit yields (%llu,%p) not in model",
			    (unsigned long long) k, v);
			return -1;
		}
		for (int j = 0; j < nv; j++)
			if (vis[j] == k) {
				snprintf(ierr, sizeof(ierr), "visit yields %llu twice",
				    (unsigned long long) k);
				return -1;
			}
		vis[nv++] = k;
	}
	if (nv != M->n) {
		snprintf(ierr, sizeof(ierr), "visit yields %d entries, model %d", nv,
		    M->n);
		return -1;
	}
	return 0;
}

static int
i_apply(nni_id_map *m, imodel *M, int op, int step)
{
	int   rv;
	void *val = (void *) (uintptr_t) (0x1000 + step * 16 + op);
	if (op == 0) {
		uint64_t id   = 0;
		int      full = 1;
		for (uint64_t k = M->lo; k <= M->hi; k++)
			if (im_find(M, k) < 0)
				full = 0;
		// the documented precondition for ENOMEM is "table filled to max"
		// in terms of count; only predict when the range itself is full
		rv = nni_id_alloc(m, &id, val);
		if (full) {
			if (rv == 0) {
				snprintf(ierr, sizeof(ierr),
				    "alloc with every id of the range live returned id %llu",
				    (unsigned long long) id);
				return -1;
			}
			return i_check(m, M);
		}
		if (rv != 0) {
			// count > range width although a free id exists (ids set
			// outside the range count too): allowed by the implementation
			// note "table filled to max"; accept only in that case
			if ((uint64_t) M->n > M->hi - M->lo)
				return i_check(m, M);
			snprintf(ierr, sizeof(ierr), "alloc -> %d with free ids", rv);
			return -1;
		}
		if (id < M->lo || id > M->hi) {
			snprintf(ierr, sizeof(ierr), "alloc returned %llu outside [%llu,%llu]",
			    (unsigned long long) id, (unsigned long long) M->lo,
			    (unsigned long long) M->hi);
			return -1;
		}
		if (im_find(M, id) >= 0) {
			snprintf(ierr, sizeof(ierr), "alloc returned live id %llu",
			    (unsigned long long) id);
			return -1;
		}
		if (M->last != 0 && id <= M->last) {
			// wrapped: legitimate only if nothing free remained ahead
			for (uint64_t k = M->last + 1; k <= M->hi; k++)
				if (im_find(M, k) < 0) {
					snprintf(ierr, sizeof(ierr),
					    "alloc reissued/wrapped to %llu after %llu while "
					    "%llu was still unused ahead",
					    (unsigned long long) id,
					    (unsigned long long) M->last,
					    (unsigned long long) k);
					return -1;
				}
		}
		M->last        = id;
		M->key[M->n]   = id;
		M->val[M->n++] = val;
	} else if (op <= NIK) {
		uint64_t k = IK[op - 1];
		rv         = nni_id_set(m, k, val);
		if (rv != 0) {
			snprintf(ierr, sizeof(ierr), "set(%llu) -> %d",
			    (unsigned long long) k, rv);
			return -1;
		}
		int i = im_find(M, k);
		if (i >= 0)
			M->val[i] = val;
		else {
			M->key[M->n]   = k;
			M->val[M->n++] = val;
		}
	} else {
		uint64_t k = op <= 2 * NIK ? IK[op - 1 - NIK]
		                           : M->lo + (uint64_t) (op - 1 - 2 * NIK);
		int      i = im_find(M, k);
		rv         = nni_id_remove(m, k);
		if (rv != (i >= 0 ? 0 : NNG_ENOENT)) {
			snprintf(ierr, sizeof(ierr), "remove(%llu) -> %d, model %s",
			    (unsigned long long) k, rv, i >= 0 ? "present" : "absent");
			return -1;
		}
		if (i >= 0) {
			M->key[i] = M->key[M->n - 1];
			M->val[i] = M->val[M->n - 1];
			M->n--;
		}
	}
	return i_check(m, M);
}

static uint64_t
i_key(nni_id_map *m, imodel *M)
{
	uint64_t h = 0xcbf29ce484222325ull;
	uint64_t v[7] = { m->id_cap, m->id_count, m->id_load, m->id_min_load,
		m->id_max_load, m->id_dyn_val, M->last };
	h = fnv(h, v, sizeof(v));
	for (uint32_t i = 0; i < m->id_cap; i++) {
		uint64_t e[3] = { m->id_entries[i].key, m->id_entries[i].skips,
			m->id_entries[i].val != NULL };
		h = fnv(h, e, sizeof(e));
	}
	return h;
}

static int
i_rebuild(uint64_t lo, uint64_t hi, int rnd, const hist *h, nni_id_map *m,
    imodel *M)
{
	extern uint32_t vs_random_seed;
	vs_random_seed = 0x12345678 + (uint32_t) rnd;
	memset(M, 0, sizeof(*M));
	M->lo = lo;
	M->hi = hi;
	nni_id_map_init(m, lo, hi, rnd != 0);
	for (int i = 0; i < h->n; i++)
		if (i_apply(m, M, h->op[i], i) != 0)
			return -1;
	return 0;
}

typedef struct ictx {
	uint64_t lo, hi;
	int      rnd;
} ictx;
static int
i_step(void *ctx, const vb_hist *h, int op, uint64_t *key, char *sig,
    size_t sigsz, char *err, size_t errsz)
{
	ictx      *c = ctx;
	imodel     M;
	nni_id_map m;
	hist       hh;
	hh.n = h->n;
	memcpy(hh.op, h->op, h->n);
	if (i_rebuild(c->lo, c->hi, c->rnd, &hh, &m, &M) != 0) {
		snprintf(sig, sigsz, "C18:idhash:replay");
		snprintf(err, errsz, "validated prefix failed on replay: %s", ierr);
		return -1;
	}
	if (i_apply(&m, &M, op, h->n) != 0) {
		snprintf(sig, sigsz, "C18:idhash:%s",
		    op == 0 ? "alloc" : op <= NIK ? "set" : "remove");
		snprintf(err, errsz, "%s", ierr);
		nni_id_map_fini(&m);
		return -1;
	}
	*key = i_key(&m, &M);
	nni_id_map_fini(&m);
	return 0;
}
static int
i_nopsf(void *ctx, const vb_hist *h)
{
	ictx  *c = ctx;
	imodel M;
	(void) h;
	M.lo = c->lo;
	M.hi = c->hi;
	return i_nops(&M);
}
static void
i_desc(void *ctx, const vb_hist *h, char *out, size_t sz)
{
	ictx  *c = ctx;
	imodel M;
	hist   hh;
	hh.n = h->n;
	memcpy(hh.op, h->op, h->n);
	M.lo = c->lo;
	M.hi = c->hi;
	snprintf(out, sz, "idhash %s", i_hist(&M, c->rnd, &hh));
}

static void
part_idhash(int maxdepth)
{
	static const uint64_t R[][2] = { { 1, 2 }, { 1, 3 }, { 7, 10 }, { 1, 5 },
		{ 15, 17 } };
	for (int r = 0; r < 5; r++)
		for (int rnd = 0; rnd < 3; rnd++) {
			ictx c = { R[r][0], R[r][1], rnd };
			char name[60];
			snprintf(name, sizeof(name), "idhash-%llu-%llu-r%d",
			    (unsigned long long) c.lo, (unsigned long long) c.hi, rnd);
			vb_run(name, &c, i_step, i_nopsf, i_desc, maxdepth, 22, 4u << 20,
			    20);
		}
}

// ============================================================================
// Part C: msgqueue.c op sequences under the scheduler (needs the aio core)
// ============================================================================
// letters: tryput, aio_put, aio_get, resize(0..3), cancel oldest put,
// cancel oldest get
enum { Q_TRYPUT, Q_APUT, Q_AGET, Q_RS0, Q_RS1, Q_RS2, Q_RS3, Q_NL };
static int mq_depth, mq_initcap, mq_rot;

typedef struct mop {
	nni_aio  aio;
	int      done, result, kind; // kind 0 put 1 get
	nni_msg *msg;                // put: the message offered
	nni_msg *got;
	int      idx;
} mop;
static void
mop_cb(void *arg)
{
	mop *o = arg;
	o->done++;
	o->result = nni_aio_result(&o->aio);
	if (o->kind == 1 && o->result == 0)
		o->got = nni_aio_get_msg(&o->aio);
}

// Event-driven oracle (no assumption about WHEN a blocked putter is promoted
// into the buffer): accepted messages (completed puts) form a FIFO `q`;
//  - every completed get returns the head of q, or - if q is empty - the
//    message of a put that completes in the same step (rendezvous);
//  - puts complete in submission order; a put is accepted into the buffer only
//    while |q| < depth; |q| never exceeds depth (+1 in-flight slot after a
//    shrink);
//  - a get never stays pending while q is non-empty or a putter is blocked;
//    tryput succeeds iff a getter waits or there is room.
static void
run_msgq(void *arg)
{
	(void) arg;
	vh_init(0);
	nni_msgq *mq;
	int       cap = mq_initcap;
	if (nni_msgq_init(&mq, (unsigned) cap) != 0)
		vs_fail("harness:setup", "msgq_init");
	int  q[64], ql = 0;
	mop *ops[48];
	int  nops = 0, seen_done[48] = { 0 };
	int  nexttag = 1;
	char seq[240] = "";
	static const char *LN[] = { "tryput", "aput", "aget", "rs0", "rs1", "rs2",
		"rs3" };
	// forced prefix: rotate the ring offset by mq_rot (non-initial states)
	int total = mq_depth + 2 * mq_rot;
	for (int step = 0; step <= total; step++) {
		int      drain = (step == total);
		int      l     = drain ? Q_AGET
		    : step < 2 * mq_rot ? ((step & 1) ? Q_AGET : Q_TRYPUT)
		                        : vs_choose(VK_ENV, Q_NL);
		int      try_ok = 0, try_tag = 0;
		nni_msg *try_msg = NULL;
		if (drain && ql == 0)
			break;
		if (drain)
			step--; // keep draining until empty
		snprintf(seq + strlen(seq), sizeof(seq) - strlen(seq), "%s%s",
		    seq[0] ? " " : "", LN[l]);
		int getters_waiting = 0, putters_blocked = 0;
		for (int i = 0; i < nops; i++)
			if (!ops[i]->done) {
				if (ops[i]->kind == 1)
					getters_waiting++;
				else
					putters_blocked++;
			}
		if (l == Q_TRYPUT || l == Q_APUT) {
			nni_msg *m;
			if (nni_msg_alloc(&m, 4) != 0)
				vs_fail("harness:setup", "msg_alloc");
			int tag = nexttag++;
			memcpy(nni_msg_body(m), &tag, 4);
			if (l == Q_TRYPUT) {
				int rv = nni_msgq_tryput(mq, m);
				int should = getters_waiting > 0 || ql < cap;
				if (rv != 0 && rv != NNG_EAGAIN)
					vs_fail("C18:msgq:tryput", "[%s] tryput -> %d", seq, rv);
				if ((rv == 0) != should)
					vs_fail(should ? "C18:msgq:tryput-refused"
					               : "C18:msgq:bound",
					    "[%s] tryput -> %d with %d queued, depth %d, %d "
					    "getters waiting",
					    seq, rv, ql, cap, getters_waiting);
				if (rv != 0)
					nni_msg_free(m);
				else {
					try_ok  = 1;
					try_tag = tag;
					try_msg = m;
				}
			} else {
				mop *o = calloc(1, sizeof(*o));
				nni_aio_init(&o->aio, mop_cb, o);
				o->kind = 0;
				o->msg  = m;
				o->idx  = tag;
				nni_aio_set_msg(&o->aio, m);
				ops[nops++] = o;
				nni_msgq_aio_put(mq, &o->aio);
			}
		} else if (l == Q_AGET) {
			mop *o = calloc(1, sizeof(*o));
			nni_aio_init(&o->aio, mop_cb, o);
			o->kind     = 1;
			ops[nops++] = o;
			nni_msgq_aio_get(mq, &o->aio);
		} else {
			int n  = l - Q_RS0;
			int rv = nni_msgq_resize(mq, n);
			if (rv != 0)
				vs_fail("C18:msgq:resize", "[%s] resize(%d) -> %d", seq, n,
				    rv);
			if (nni_msgq_cap(mq) != n)
				vs_fail("C18:msgq:resize", "[%s] cap %d after resize(%d)",
				    seq, nni_msgq_cap(mq), n);
			cap      = n;
			int keep = ql > n + 1 ? n + 1 : ql;
			int drop = ql - keep;
			// (blocked writers may move into room that the resize created;
			// they are accounted for below as completed puts)
			if ((int) mq->mq_len < keep)
				vs_fail("C18:msgq:resize",
				    "[%s] resize(%d) with %d queued kept %u messages, "
				    "expected %d (only as many as no longer fit may go)",
				    seq, n, ql, mq->mq_len, keep);
			if (drop > 0 && keep > 0) {
				int      first = 0;
				nni_msg *m0    = mq->mq_msgs[mq->mq_get % mq->mq_alloc];
				memcpy(&first, nni_msg_body(m0), 4);
				if (first == q[drop])
					memmove(q, q + drop, sizeof(int) * (size_t) keep);
				else if (first != q[0])
					vs_fail("C18:msgq:resize",
					    "[%s] survivors are not a contiguous run at one "
					    "end",
					    seq);
			}
			ql = keep;
		}
		vs_settle();
		// ---- collect completions of this step, in submission order ----
		int pd[48], npd = 0, gd[48], ngd = 0;
		for (int i = 0; i < nops; i++) {
			if (ops[i]->done > 1)
				vs_fail("C18:msgq:double-completion",
				    "[%s] op %d completed %d times", seq, i, ops[i]->done);
			if (ops[i]->done && !seen_done[i]) {
				seen_done[i] = 1;
				if (ops[i]->result != 0)
					vs_fail("C18:msgq:result",
					    "[%s] op %d failed with %d", seq, i,
					    ops[i]->result);
				if (ops[i]->kind == 0)
					pd[npd++] = i;
				else
					gd[ngd++] = i;
			}
		}
		// puts complete in submission order: no earlier putter still blocked
		for (int k = 0; k < npd; k++)
			for (int i = 0; i < pd[k]; i++)
				if (ops[i]->kind == 0 && !ops[i]->done)
					vs_fail("C18:msgq:put-order",
					    "[%s] put %d completed while earlier put %d is "
					    "still blocked",
					    seq, pd[k], i);
		int pc = 0; // consumed puts
		// a successful tryput acts at call time, before triggered completions
		int try_pending = try_ok;
		for (int k = 0; k < ngd; k++) {
			mop *g   = ops[gd[k]];
			int  tag = 0;
			if (g->got == NULL)
				vs_fail("C18:msgq:get", "[%s] get completed w/o message",
				    seq);
			memcpy(&tag, nni_msg_body(g->got), 4);
			if (ql > 0) {
				if (tag != q[0])
					vs_fail("C18:msgq:order",
					    "[%s] get returned message %d, FIFO order says "
					    "%d",
					    seq, tag, q[0]);
				memmove(q, q + 1, sizeof(int) * (size_t) --ql);
			} else if (try_pending) {
				if (tag != try_tag)
					vs_fail("C18:msgq:handoff",
					    "[%s] waiting getter got %d, tryput offered %d",
					    seq, tag, try_tag);
				try_pending = 0;
			} else if (pc < npd) {
				if (tag != ops[pd[pc]]->idx)
					vs_fail("C18:msgq:handoff",
					    "[%s] getter got %d, rendezvous put offered %d",
					    seq, tag, ops[pd[pc]]->idx);
				pc++;
			} else {
				vs_fail("C18:msgq:phantom",
				    "[%s] get returned message %d that was never accepted "
				    "or was already delivered/dropped",
				    seq, tag);
			}
			nni_msg_free(g->got);
			g->got = NULL;
		}
		if (try_pending) {
			if (ql >= cap)
				vs_fail("C18:msgq:bound",
				    "[%s] tryput accepted with %d queued, depth %d", seq,
				    ql, cap);
			q[ql++] = try_tag;
		}
		for (; pc < npd; pc++) {
			if (ql >= cap)
				vs_fail("C18:msgq:bound",
				    "[%s] put accepted with %d already queued, depth %d",
				    seq, ql, cap);
			q[ql++] = ops[pd[pc]]->idx;
		}
		if ((int) mq->mq_len != ql)
			vs_fail("C18:msgq:len", "[%s] queue holds %u, model %d", seq,
			    mq->mq_len, ql);
		if (ql > cap + 1)
			vs_fail("C18:msgq:bound", "[%s] %d queued, depth %d", seq, ql,
			    cap);
		// nothing may wait needlessly
		getters_waiting = putters_blocked = 0;
		for (int i = 0; i < nops; i++)
			if (!ops[i]->done) {
				if (ops[i]->kind == 1)
					getters_waiting++;
				else
					putters_blocked++;
			}
		if (getters_waiting && (ql > 0 || putters_blocked))
			vs_fail("C18:msgq:stuck-get",
			    "[%s] a get is pending although %d messages are queued and "
			    "%d putters blocked",
			    seq, ql, putters_blocked);
		(void) try_msg;
	}
	vs_log("%s", seq);
	int pw = 0, gw = 0;
	for (int i = 0; i < nops; i++)
		if (!ops[i]->done) {
			if (ops[i]->kind)
				gw++;
			else
				pw++;
		}
	vs_outcome("len=%d putw=%d getw=%d", ql, pw, gw);
	nni_msgq_close(mq);
	vs_settle();
	for (int i = 0; i < nops; i++) {
		if (!ops[i]->done)
			vs_fail("C18:msgq:close", "[%s] op %d still pending after close",
			    seq, i);
		if (ops[i]->kind == 0 && ops[i]->result != 0)
			nni_msg_free(ops[i]->msg); // failed put: caller owns it
		nni_aio_stop(&ops[i]->aio);
		nni_aio_fini(&ops[i]->aio);
		free(ops[i]);
	}
	nni_msgq_fini(mq);
	vh_fini();
}

static void
part_msgq(int depth)
{
	for (mq_initcap = 0; mq_initcap <= 2; mq_initcap++)
	    for (mq_rot = 0; mq_rot < mq_initcap + 2; mq_rot++) {
		if (mq_initcap == 0 && mq_rot > 0)
			continue; // tryput needs room to rotate
		vx_cfg c;
		memset(&c, 0, sizeof(c));
		char name[40];
		snprintf(name, sizeof(name), "msgq-cap%d-rot%d-d%d", mq_initcap,
		    mq_rot, depth);
		c.prop     = "C18";
		c.scenario = name;
		c.run      = run_msgq;
		mq_depth   = depth;
		for (int i = 0; i < VB_NB; i++)
			c.budget[i] = 0;
		c.budget[VB_ENV] = -1;
		c.total          = 0;
		vx_explore(&c, NULL);
	}
}

// ---- Part D: identifiers of public objects (sockets, contexts, listeners, dialers, pipes) -------------
// All sequences of open / close letters to the depth bound over up to three sockets, with contexts,
// listeners, dialers (each dial makes a pipe on both ends) coming and going.  Every identifier the
// library hands out must be in 1..0x7fffffff, differ from every live identifier of its kind and
// never repeat an identifier issued earlier in the run (the range cannot wrap in a few steps);
// a closed handle must not resolve any more.
#define HMAX 64
typedef struct hset {
	uint32_t ever[HMAX];
	int      n;
} hset;
static hset H_sock, H_ctx, H_lst, H_dlr, H_pipe;
static char h_seq[200];
static void
h_issue(hset *h, const char *kind, int64_t id)
{
	if (id < 1 || id > 0x7fffffff)
		vs_fail("C18:handle:range", "[%s] %s identifier %lld outside 1..0x7fffffff", h_seq,
		    kind, (long long) id);
	for (int i = 0; i < h->n; i++)
		if (h->ever[i] == (uint32_t) id)
			vs_fail("C18:handle:reissued",
			    "[%s] %s identifier %lld was issued before in this run (the range has "
			    "not wrapped)",
			    h_seq, kind, (long long) id);
	if (h->n < HMAX)
		h->ever[h->n++] = (uint32_t) id;
}
static void
h_pipe_cb(nng_pipe p, nng_pipe_ev ev, void *arg)
{
	(void) arg;
	if (ev == NNG_PIPE_EV_ADD_PRE)
		h_issue(&H_pipe, "pipe", nng_pipe_id(p));
}
static void
run_handles(void *arg)
{
	int depth = (int) (intptr_t) arg;
	vh_init(0);
	memset(&H_sock, 0, sizeof(H_sock));
	memset(&H_ctx, 0, sizeof(H_ctx));
	memset(&H_lst, 0, sizeof(H_lst));
	memset(&H_dlr, 0, sizeof(H_dlr));
	memset(&H_pipe, 0, sizeof(H_pipe));
	h_seq[0] = 0;
	nng_socket   S[3];
	int          so[3] = { 0, 0, 0 };
	nng_ctx      C[4];
	int          nc = 0;
	nng_listener L[3];
	int          lo[3] = { 0, 0, 0 };
	nng_dialer   D[4];
	int          nd = 0;
	// start state (forced prefix 0,5 or 0,5,6): a REP socket with a listener, maybe a peer
	int pre  = 2 + vs_choose(VK_ENV, 2);
	static const int PRE[] = { 0, 5, 6 };
	for (int step = 0; step < pre + depth; step++) {
		int l = step < pre ? PRE[step] : vs_choose(VK_ENV, 8);
		snprintf(h_seq + strlen(h_seq), sizeof(h_seq) - strlen(h_seq), "%s%d", step ? "," : "", l);
		int k = -1;
		switch (l) {
		case 0: // open a socket (REP: has contexts) in the first free slot
			for (int i = 0; i < 3 && k < 0; i++)
				if (!so[i])
					k = i;
			if (k >= 0) {
				VH_OK(nng_rep0_open(&S[k]));
				so[k] = 1;
				h_issue(&H_sock, "socket", nng_socket_id(S[k]));
				VH_OK(nng_pipe_notify(S[k], NNG_PIPE_EV_ADD_PRE, h_pipe_cb, NULL));
			}
			break;
		case 1: // close the lowest open socket
		case 2: // close the highest open socket
			for (int i = 0; i < 3; i++)
				if (so[i] && (k < 0 || l == 2))
					k = i;
			if (k >= 0) {
				VH_OK(nng_socket_close(S[k]));
				so[k] = lo[k] = 0;
				nng_socket x;
				(void) x;
				int v;
				if (nng_socket_get_int(S[k], NNG_OPT_RECVBUF, &v) == 0)
					vs_fail("C18:handle:alive", "[%s] closed socket id still resolves",
					    h_seq);
			}
			break;
		case 3: // open a context on the lowest open socket
			for (int i = 0; i < 3 && k < 0; i++)
				if (so[i])
					k = i;
			if (k >= 0 && nc < 4) {
				VH_OK(nng_ctx_open(&C[nc], S[k]));
				h_issue(&H_ctx, "context", nng_ctx_id(C[nc]));
				nc++;
			}
			break;
		case 4: // close the newest context
			if (nc > 0) {
				nc--;
				(void) nng_ctx_close(C[nc]); // (its socket may be gone already)
			}
			break;
		case 5: // a listener on the lowest open socket that has none
			for (int i = 0; i < 3 && k < 0; i++)
				if (so[i] && !lo[i])
					k = i;
			if (k >= 0) {
				char url[40];
				snprintf(url, sizeof(url), "inproc://c18h-%d", k);
				VH_OK(nng_listen(S[k], url, &L[k], 0));
				lo[k] = 1;
				h_issue(&H_lst, "listener", nng_listener_id(L[k]));
			}
			break;
		case 6: { // a REQ socket dials the lowest listener (a pipe on each end), kept open
			for (int i = 0; i < 3 && k < 0; i++)
				if (so[i] && lo[i])
					k = i;
			int free_slot = -1;
			for (int i = 0; i < 3 && free_slot < 0; i++)
				if (!so[i])
					free_slot = i;
			if (k >= 0 && free_slot >= 0 && nd < 4) {
				char url[40];
				snprintf(url, sizeof(url), "inproc://c18h-%d", k);
				VH_OK(nng_req0_open(&S[free_slot]));
				so[free_slot] = 1;
				h_issue(&H_sock, "socket", nng_socket_id(S[free_slot]));
				VH_OK(nng_pipe_notify(S[free_slot], NNG_PIPE_EV_ADD_PRE, h_pipe_cb, NULL));
				VH_OK(nng_dial(S[free_slot], url, &D[nd], 0));
				h_issue(&H_dlr, "dialer", nng_dialer_id(D[nd]));
				nd++;
			}
		} break;
		default: // close the newest dialer (its pipe goes; the socket stays)
			if (nd > 0) {
				nd--;
				(void) nng_dialer_close(D[nd]);
			}
			break;
		}
		vs_settle();
	}
	vs_outcome("s%d c%d l%d d%d p%d", H_sock.n, H_ctx.n, H_lst.n, H_dlr.n, H_pipe.n);
	for (int i = 0; i < 3; i++)
		if (so[i])
			nng_socket_close(S[i]);
	vh_fini();
}

int
main(int argc, char **argv)
{
	vx_init(argc, argv, "C18");
	int T = vx_is_thorough();
	IK    = T ? IK_T : IK_Q;
	NIK   = T ? 8 : 6;
	part_lmq(T ? 14 : 9);
	part_idhash(T ? 9 : 5);
	vx_note("bounds",
	    "lmq: init caps 0..8, ops put/get/flush/resize(0..9), BFS depth %d with "
	    "full structural dedup; idhash: ranges "
	    "[1,2],[1,3],[7,10],[1,5],[15,17] x {sequential, 2 random seeds}, keys "
	    "colliding mod 8/16, depth %d; msgq: all sequences of depth "
	    "%d over 7 letters, caps 0..2",
	    T ? 14 : 9, T ? 9 : 5, T ? 6 : 4);
	part_msgq(T ? 6 : 4);
	{
		vx_cfg c;
		memset(&c, 0, sizeof(c));
		char name[40];
		int  d = T ? 6 : 4;
		snprintf(name, sizeof(name), "handles-d%d", d);
		c.prop           = "C18";
		c.scenario       = name;
		c.run            = run_handles;
		c.arg            = (void *) (intptr_t) d;
		c.budget[VB_ENV] = -1;
		vx_explore(&c, NULL);
		vx_note("handles", "public object identifiers: all sequences of depth %d over 8 open/close "
		    "letters (sockets, contexts, listeners, dialers + pipes)", d);
	}
	return vx_finish();
}
