// C14 - pipe events are ordered; dialers redial, listeners keep accepting.
//
// S1  event order under schedules: blocking dial || {socket close, pipe close,
//     dialer close, listener close}, preemption-bounded DFS, 3 protocol pairs.
// S2  reject inside ADD_PRE (first k pipes): no message is ever delivered on a
//     rejected pipe, the dialer redials and a later pipe works.
// S3  redial timing in virtual time against a raw AF_UNIX listener owned by the
//     harness (ipc://): every loss / failed background dial is followed by a new
//     connection attempt within max(RECONNMINT, RECONNMAXT); none after close.
// S4  listener keeps accepting: hostile / broken / rejected raw connections on a
//     socket:// listener, then an honest one which must always work.
//
// The event ledger (notify callback) is shared by all scenarios and checks
// order / at-most-once / no-POST-or-REM-without-PRE / <=1 live pipe per dialer
// online, and "ADD_POST => REM_POST before nng_socket_close returns" at the end.
#define _GNU_SOURCE
#include "vpeer.h"
#include "vs.h"
#include <arpa/inet.h>
#include <errno.h>
#include <fcntl.h>
#include <netinet/in.h>
#include <pthread.h>
#include <stdlib.h>
#include <string.h>
#include <sys/socket.h>
#include <sys/un.h>
#include <unistd.h>

// ---- event ledger -----------------------------------------------------------
#define MAXEV 1024
#define MAXPI 128
#define B_PRE (1 << NNG_PIPE_EV_ADD_PRE)
#define B_POST (1 << NNG_PIPE_EV_ADD_POST)
#define B_REM (1 << NNG_PIPE_EV_REM_POST)

typedef struct evrec {
	int      sock;
	uint32_t pipe;
	int      ev;
} evrec;
typedef struct pinfo {
	int      sock;
	uint32_t id;
	int      mask;
	int      at[NNG_PIPE_EV_NUM]; // index in EV of each event
	int      dialer;              // dialer id (>0) or 0
	int      rejected;            // closed by the harness inside ADD_PRE
	int      msgs;                // application messages delivered with this pipe id
} pinfo;

static evrec      EV[MAXEV];
static int        NEV;
static pinfo      PI[MAXPI];
static int        NPI;
static nng_socket SK[2];
static int        closed_at[2]; // NEV when nng_socket_close returned, -1 open
static int        reject_left[2]; // ADD_PRE callbacks that still reject
static int        close_in_post[2]; // ADD_POST callbacks that still close the pipe
static int        n_rejected[2];
static int        cb_close_at; // close every pipe seen so far inside the n-th callback
static struct {
	int id, live, maxlive;
} DL[8];
static int NDL;
static uint32_t seen_mask; // bit i: message "m<i>" was delivered (S2)

static const char *
evname(int ev)
{
	return ev == NNG_PIPE_EV_ADD_PRE ? "ADD_PRE"
	    : ev == NNG_PIPE_EV_ADD_POST ? "ADD_POST"
	    : ev == NNG_PIPE_EV_REM_POST ? "REM_POST"
	                                 : "?";
}

static pinfo *
pi_find(int sock, uint32_t id, int add)
{
	for (int i = 0; i < NPI; i++)
		if (PI[i].sock == sock && PI[i].id == id)
			return &PI[i];
	if (!add)
		return NULL;
	if (NPI >= MAXPI)
		vs_fail("harness:ledger", "too many pipes");
	pinfo *p = &PI[NPI++];
	memset(p, 0, sizeof(*p));
	p->sock = sock;
	p->id   = id;
	for (int i = 0; i < NNG_PIPE_EV_NUM; i++)
		p->at[i] = -1;
	return p;
}

// ordinal of a pipe on its socket (first-seen order) - for stable messages
static int
pi_ord(pinfo *p)
{
	int n = 0;
	for (pinfo *q = PI; q < p; q++)
		if (q->sock == p->sock)
			n++;
	return n;
}

static const char *
pi_hist(pinfo *p)
{
	static char b[4][8];
	static int  r;
	char       *o = b[r++ & 3];
	int         k = 0;
	// letters in the order the events were delivered
	for (int i = 0; i < NEV; i++)
		if (EV[i].sock == p->sock && EV[i].pipe == p->id && k < 6)
			o[k++] = "?pPR"[EV[i].ev & 3];
	o[k] = 0;
	return o;
}

static void
notify(nng_pipe p, nng_pipe_ev ev, void *arg)
{
	int    si = (int) (intptr_t) arg;
	pinfo *pi = pi_find(si, p.id, 1);
	int    bit;

	if (ev != NNG_PIPE_EV_ADD_PRE && ev != NNG_PIPE_EV_ADD_POST &&
	    ev != NNG_PIPE_EV_REM_POST)
		vs_fail("C14:order", "callback with unknown event %d", (int) ev);
	bit = 1 << ev;
	if (NEV >= MAXEV)
		vs_fail("harness:ledger", "too many events");
	if (pi->mask & bit)
		vs_fail("C14:duplicate-event",
		    "socket %c pipe #%d: %s delivered twice (history %s)", 'A' + si,
		    pi_ord(pi), evname(ev), pi_hist(pi));
	if (ev != NNG_PIPE_EV_ADD_PRE && !(pi->mask & B_PRE))
		vs_fail("C14:post-without-pre",
		    "socket %c pipe #%d: %s without a preceding ADD_PRE (history %s)",
		    'A' + si, pi_ord(pi), evname(ev), pi_hist(pi));
	if (pi->mask >= bit)
		vs_fail("C14:order",
		    "socket %c pipe #%d: %s delivered after a later event (history %s)",
		    'A' + si, pi_ord(pi), evname(ev), pi_hist(pi));
	EV[NEV].sock = si;
	EV[NEV].pipe = p.id;
	EV[NEV].ev   = ev;
	pi->at[ev]   = NEV;
	pi->mask |= bit;
	NEV++;

	if (ev == NNG_PIPE_EV_ADD_PRE) {
		int did = nng_dialer_id(nng_pipe_dialer(p));
		pi->dialer = did > 0 ? did : 0;
	}
	if (pi->dialer > 0) {
		int k;
		for (k = 0; k < NDL; k++)
			if (DL[k].id == pi->dialer)
				break;
		if (k == NDL) {
			if (NDL >= 8)
				vs_fail("harness:ledger", "too many dialers");
			DL[NDL].id   = pi->dialer;
			DL[NDL].live = DL[NDL].maxlive = 0;
			NDL++;
		}
		if (ev == NNG_PIPE_EV_ADD_POST) {
			DL[k].live++;
			if (DL[k].live > DL[k].maxlive)
				DL[k].maxlive = DL[k].live;
			if (DL[k].live > 1)
				vs_fail("C14:two-pipes-per-dialer",
				    "socket %c: dialer has %d pipes between ADD_POST and "
				    "REM_POST at the same time (newest pipe #%d)",
				    'A' + si, DL[k].live, pi_ord(pi));
		}
		if (ev == NNG_PIPE_EV_REM_POST && (pi->mask & B_POST))
			DL[k].live--;
	}
	if (ev == NNG_PIPE_EV_ADD_PRE && reject_left[si] > 0) {
		reject_left[si]--;
		n_rejected[si]++;
		pi->rejected = 1;
		nng_pipe_close(p);
	}
	if (ev == NNG_PIPE_EV_ADD_POST && close_in_post[si] > 0) {
		close_in_post[si]--;
		nng_pipe_close(p);
	}
	if (cb_close_at > 0 && NEV == cb_close_at) {
		// (closing the pipe whose ADD_PRE is being delivered is a rejection)
		if (ev == NNG_PIPE_EV_ADD_PRE) {
			pi->rejected = 1;
			n_rejected[si]++;
		}
		for (int i = 0; i < NPI; i++) {
			nng_pipe q = NNG_PIPE_INITIALIZER;
			q.id       = PI[i].id;
			nng_pipe_close(q);
		}
	}
}

static void
ledger_reset(void)
{
	NEV = NPI = NDL = 0;
	seen_mask       = 0;
	cb_close_at     = 0;
	for (int i = 0; i < 2; i++) {
		closed_at[i]     = -1;
		reject_left[i]   = 0;
		close_in_post[i] = 0;
		n_rejected[i]    = 0;
	}
}

static void
watch(int si, nng_socket s)
{
	SK[si] = s;
	VH_OK(nng_pipe_notify(s, NNG_PIPE_EV_ADD_PRE, notify, (void *) (intptr_t) si));
	VH_OK(nng_pipe_notify(s, NNG_PIPE_EV_ADD_POST, notify, (void *) (intptr_t) si));
	VH_OK(nng_pipe_notify(s, NNG_PIPE_EV_REM_POST, notify, (void *) (intptr_t) si));
}

// close socket si; the ledger position at the moment the call returned is the
// deadline for REM_POST of all its pipes (no scheduling point in between)
static int
close_sock(int si)
{
	int rv = nng_socket_close(SK[si]);
	if (rv == 0 && closed_at[si] < 0)
		closed_at[si] = NEV;
	return rv;
}

// socket slot si is reused for a new socket: the pipes of the old one have been judged against
// its close already (ledger_final looks at closed_at of the slot), so do that part now
static void ledger_final(void);
static void
ledger_socket_reopened(int si)
{
	for (int i = 0; i < NPI; i++)
		if (PI[i].sock == si && (PI[i].mask & B_POST) &&
		    (!(PI[i].mask & B_REM) || PI[i].at[NNG_PIPE_EV_REM_POST] >= closed_at[si]))
			vs_fail("C14:missing-rem-post",
			    "socket %c pipe #%d got ADD_POST but no REM_POST before nng_socket_close "
			    "returned (history %s)",
			    'A' + si, pi_ord(&PI[i]), pi_hist(&PI[i]));
	// forget them: the slot's close position will be overwritten
	for (int i = 0; i < NPI; i++)
		if (PI[i].sock == si)
			PI[i].sock = 9;
	closed_at[si] = -1;
}

// after all sockets are closed and the library is quiescent
static void
ledger_final(void)
{
	for (int i = 0; i < NPI; i++) {
		pinfo *p = &PI[i];
		if (p->sock == 9)
			continue; // judged when its socket slot was reused
		if (closed_at[p->sock] < 0)
			vs_fail("harness:ledger", "socket %c was never closed",
			    'A' + p->sock);
		if ((p->mask & B_POST) &&
		    (!(p->mask & B_REM) ||
		        p->at[NNG_PIPE_EV_REM_POST] >= closed_at[p->sock]))
			vs_fail("C14:missing-rem-post",
			    "socket %c pipe #%d got ADD_POST but REM_POST %s "
			    "nng_socket_close returned (history %s)",
			    'A' + p->sock, pi_ord(p),
			    (p->mask & B_REM) ? "was delivered only after"
			                      : "was never delivered although",
			    pi_hist(p));
		if (p->rejected && (p->mask & B_POST))
			vs_fail("C14:rejected-pipe-add-post",
			    "socket %c pipe #%d was closed inside ADD_PRE but still "
			    "got ADD_POST",
			    'A' + p->sock, pi_ord(p));
		if (p->rejected && p->msgs)
			vs_fail("C14:rejected-pipe-carried-message",
			    "socket %c pipe #%d was closed inside ADD_PRE but "
			    "delivered %d message(s)",
			    'A' + p->sock, pi_ord(p), p->msgs);
	}
}

// per-socket history string "pPR,pR,..." in first-seen pipe order
static void
ledger_summary(int si, char *out, size_t sz)
{
	size_t o = 0;
	out[0]   = 0;
	for (int i = 0; i < NPI && o + 8 < sz; i++)
		if (PI[i].sock == si)
			o += (size_t) snprintf(out + o, sz - o, "%s%s", o ? "," : "",
			    pi_hist(&PI[i]));
}

static int
count_ev(int si, int ev)
{
	int n = 0;
	for (int i = 0; i < NEV; i++)
		if (EV[i].sock == si && EV[i].ev == ev)
			n++;
	return n;
}

// drain socket si (non-blocking); attribute each message to its pipe;
// returns number of messages, last body in buf
static int
drain(int si, char *last, size_t cap)
{
	int      n = 0;
	nng_msg *m;
	while (nng_recvmsg(SK[si], &m, NNG_FLAG_NONBLOCK) == 0) {
		nng_pipe p  = nng_msg_get_pipe(m);
		pinfo   *pi = pi_find(si, p.id, 0);
		size_t   l  = nng_msg_len(m);
		if (l >= 2 && ((char *) nng_msg_body(m))[0] == 'm') {
			int k = atoi((char *) nng_msg_body(m) + 1);
			if (k >= 0 && k < 32) {
				if (seen_mask & (1u << k))
					vs_fail("harness:s2", "message m%d delivered twice", k);
				seen_mask |= 1u << k;
			}
		}
		if (last && cap) {
			if (l >= cap)
				l = cap - 1;
			memcpy(last, nng_msg_body(m), l);
			last[l] = 0;
		}
		if (pi == NULL || !(pi->mask & B_PRE))
			vs_fail("C14:post-without-pre",
			    "socket %c delivered a message from a pipe that never had "
			    "ADD_PRE",
			    'A' + si);
		pi->msgs++;
		if (pi->rejected)
			vs_fail("C14:rejected-pipe-carried-message",
			    "socket %c received message \"%.20s\" on pipe #%d which "
			    "was closed inside ADD_PRE",
			    'A' + si, (char *) nng_msg_body(m), pi_ord(pi));
		nng_msg_free(m);
		n++;
	}
	return n;
}

static void
open_pair(int proto, nng_socket *a, nng_socket *b)
{
	switch (proto) {
	case 0:
		VH_OK(nng_pair0_open(a));
		VH_OK(nng_pair0_open(b));
		break;
	case 1:
		VH_OK(nng_pull0_open(a));
		VH_OK(nng_push0_open(b));
		break;
	default:
		VH_OK(nng_rep0_open(a));
		VH_OK(nng_req0_open(b));
		break;
	}
}

// ---- S1: event order under schedules ----------------------------------------
enum {
	OP_CLOSE_A,
	OP_CLOSE_B,
	OP_PIPE_CLOSE,
	OP_DIALER_CLOSE,
	OP_LISTENER_CLOSE,
	OP_REJECT_A_CLOSE_B, // A rejects in ADD_PRE while B is being closed
	OP_POSTCLOSE_B_CLOSE_A, // B closes its pipe inside ADD_POST while A is closed
	OP_CB_CLOSE2, // every pipe seen so far is closed inside the 2nd callback,
	OP_CB_CLOSE3, // ... the 3rd,
	OP_CB_CLOSE4, // ... the 4th; the other thread closes all pipes it can see
	OP_TWO_DIALERS, // B already has a connected dialer; a second one is started
	                // while the other thread closes every pipe it can see
	OP_N
};
static const char *OPN[] = { "closeA", "closeB", "pipeclose", "dialerclose",
	"listenerclose", "rejectA-closeB", "postcloseB-closeA", "cbclose2", "cbclose3",
	"cbclose4", "twodialers" };
static const char *PRN[] = { "pair0", "pushpull", "reqrep" };

typedef struct s1arg {
	int proto, op;
	int ipc; // nng <-> nng over ipc:// instead of inproc://
} s1arg;
static nng_dialer   s1_d;
static nng_listener s1_l;
static int          s1_dialrv;
static int          s1_use_dialer;
static char         S1_URL[200];

static void *
s1_dial(void *a)
{
	(void) a;
	if (s1_use_dialer)
		s1_dialrv = nng_dialer_start(s1_d, 0);
	else
		s1_dialrv = nng_dial(SK[1], S1_URL, NULL, 0);
	return NULL;
}

static void *
s1_other(void *a)
{
	s1arg *x = a;
	switch (x->op) {
	case OP_CLOSE_A:
	case OP_POSTCLOSE_B_CLOSE_A:
		close_sock(0);
		break;
	case OP_CLOSE_B:
	case OP_REJECT_A_CLOSE_B:
		close_sock(1);
		break;
	case OP_PIPE_CLOSE:
		if (NEV > 0) {
			nng_pipe p = NNG_PIPE_INITIALIZER;
			p.id       = EV[0].pipe;
			nng_pipe_close(p);
		}
		break;
	case OP_CB_CLOSE2:
	case OP_CB_CLOSE3:
	case OP_CB_CLOSE4:
	case OP_TWO_DIALERS:
		for (int i = 0; i < NPI; i++) {
			nng_pipe p = NNG_PIPE_INITIALIZER;
			p.id       = PI[i].id;
			nng_pipe_close(p);
		}
		break;
	case OP_DIALER_CLOSE:
		nng_dialer_close(s1_d);
		break;
	case OP_LISTENER_CLOSE:
		nng_listener_close(s1_l);
		break;
	}
	return NULL;
}

static void
run_s1(void *arg)
{
	s1arg     *x = arg;
	nng_socket a, b;
	pthread_t  t1, t2;

	vh_init(0);
	ledger_reset();
	if (x->ipc)
		snprintf(S1_URL, sizeof(S1_URL), "ipc://%s/c14s1-%d", vx_rundir(),
		    (int) getpid());
	else
		snprintf(S1_URL, sizeof(S1_URL), "inproc://c14");
	open_pair(x->proto, &a, &b);
	watch(0, a);
	watch(1, b);
	VH_OK(nng_socket_set_ms(b, NNG_OPT_RECONNMINT, 10));
	VH_OK(nng_socket_set_ms(b, NNG_OPT_RECONNMAXT, 10));
	VH_OK(nng_listener_create(&s1_l, a, S1_URL));
	VH_OK(nng_listener_start(s1_l, 0));
	// nng_dial() (create + start) only where the creation itself races with
	// something (socket B being closed); otherwise the dialer exists already
	// so that the window holds only the connect path
	s1_use_dialer = (x->op != OP_CLOSE_B && x->op != OP_REJECT_A_CLOSE_B);
	if (s1_use_dialer)
		VH_OK(nng_dialer_create(&s1_d, b, S1_URL));
	if (x->op == OP_REJECT_A_CLOSE_B)
		reject_left[0] = 1;
	if (x->op == OP_POSTCLOSE_B_CLOSE_A)
		close_in_post[1] = 1;
	if (x->op >= OP_CB_CLOSE2 && x->op <= OP_CB_CLOSE4)
		cb_close_at = 2 + (x->op - OP_CB_CLOSE2);
	if (x->op == OP_TWO_DIALERS) {
		VH_OK(nng_dial(b, S1_URL, NULL, NNG_FLAG_NONBLOCK));
		vs_settle();
	}
	vs_settle();

	vs_window(1);
	pthread_create(&t1, NULL, s1_dial, NULL);
	pthread_create(&t2, NULL, s1_other, x);
	pthread_join(t1, NULL);
	pthread_join(t2, NULL);
	vs_window(0);

	int nev_join = NEV;
	close_sock(1);
	close_sock(0);
	vs_settle();
	vs_sleep(30); // any straggling redial timer / reaper work
	vs_settle();
	ledger_final();
	char ha[80], hb[80];
	ledger_summary(0, ha, sizeof(ha));
	ledger_summary(1, hb, sizeof(hb));
	vs_outcome("A[%s] B[%s] dial=%d", ha, hb, s1_dialrv);
	vs_log("%s/%s%s events=%d (at join %d) A[%s] B[%s] dial=%s", PRN[x->proto],
	    OPN[x->op], x->ipc ? "/ipc" : "", NEV, nev_join, ha, hb,
	    nng_strerror(s1_dialrv));
	if (x->ipc)
		unlink(S1_URL + 6);
	vh_fini();
}

// ---- S2: reject inside ADD_PRE ----------------------------------------------
typedef struct s2arg {
	int proto; // 0 pair0, 1 push->pull
	int k;     // pipes to reject
	int side;  // 0: the listening socket rejects, 1: the dialing socket rejects
} s2arg;

static void
run_s2(void *arg)
{
	s2arg     *x = arg;
	nng_socket a, b;
	char       url[] = "inproc://c14s2";

	vh_init(0);
	ledger_reset();
	open_pair(x->proto, &a, &b);
	watch(0, a);
	watch(1, b);
	VH_OK(nng_socket_set_ms(b, NNG_OPT_RECONNMINT, 5));
	VH_OK(nng_socket_set_ms(b, NNG_OPT_RECONNMAXT, 5));
	VH_OK(nng_listen(a, url, NULL, 0));
	reject_left[x->side] = x->k;
	vs_settle();

	int  sent = 0, got = 0, eagain = 0;
	char tag[16], last[32] = "";
	// first message right after the dial returns (pipe still up from the
	// dialer's point of view) or after the rejection has propagated
	int late = vs_choose(VK_ENV, 2);
	// the first connection and the first message race with the rejection
	vs_window(1);
	int drv = nng_dial(b, url, NULL, 0);
	if (late)
		vs_settle();
	snprintf(tag, sizeof(tag), "m%d", sent);
	if (vh_send_nb(b, tag, strlen(tag) + 1) == 0)
		sent++;
	else
		eagain++;
	vs_settle();
	vs_window(0);
	int sent0 = sent;
	if (drv != 0)
		vs_fail("harness:setup", "inproc dial failed: %s", nng_strerror(drv));
	got += drain(0, last, sizeof(last));

	int64_t t0 = vs_now();
	int     good_at = -1; // number of messages received on an accepted pipe
	for (int round = 0; round < 200; round++) {
		snprintf(tag, sizeof(tag), "m%d", sent);
		if (vh_send_nb(b, tag, strlen(tag) + 1) == 0)
			sent++;
		else
			eagain++;
		vs_settle();
		got += drain(0, last, sizeof(last));
		if (got >= 2 && count_ev(x->side, NNG_PIPE_EV_ADD_POST) >= 1) {
			good_at = round;
			break;
		}
		vs_sleep(0); // 1 virtual ms
		vs_settle();
	}
	int64_t dt   = vs_now() - t0;
	int     npre = count_ev(x->side, NNG_PIPE_EV_ADD_PRE);
	if (npre < x->k + 1)
		vs_fail("C14:redial-missing",
		    "%s side saw %d connection(s) in %lld ms; the dialer "
		    "(reconnect 5 ms) should have redialled after each of the %d "
		    "pipes rejected by the %s socket",
		    x->side ? "dialer" : "listener", npre, (long long) dt, x->k,
		    x->side ? "dialing" : "listening");
	if (count_ev(x->side, NNG_PIPE_EV_ADD_POST) < 1 || good_at < 0)
		vs_fail("C14:listener-stopped-accepting",
		    "after %d rejected pipe(s) no later connection was accepted and "
		    "carried messages (ADD_PRE %d, ADD_POST %d, sent %d, received %d)",
		    x->k, npre, count_ev(0, NNG_PIPE_EV_ADD_POST), sent, got);
	if (n_rejected[x->side] != x->k)
		vs_fail("harness:s2", "rejected %d of %d", n_rejected[x->side], x->k);
	if (x->side == 1) {
		// inproc connections are made one after the other: the i-th pipe of
		// the listener is the peer of the i-th pipe of the dialer, so a
		// message that arrived on the peer of a rejected pipe was carried by it
		pinfo *pa[MAXPI], *pb[MAXPI];
		int    na = 0, nb = 0;
		for (int i = 0; i < NPI; i++)
			if (PI[i].sock == 0)
				pa[na++] = &PI[i];
			else
				pb[nb++] = &PI[i];
		for (int i = 0; i < na && i < nb; i++)
			if (pb[i]->rejected && pa[i]->msgs)
				vs_fail("C14:rejected-pipe-carried-message",
				    "dialing socket closed its pipe #%d inside ADD_PRE but "
				    "%d message(s) sent on it reached the peer",
				    i, pa[i]->msgs);
	}

	close_sock(1);
	close_sock(0);
	vs_settle();
	vs_sleep(20);
	vs_settle();
	ledger_final();
	char ha[80], hb[80];
	ledger_summary(0, ha, sizeof(ha));
	ledger_summary(1, hb, sizeof(hb));
	vs_outcome("A[%s] B[%s] m0=%s", ha, hb,
	    sent0 == 0           ? "refused"
	        : (seen_mask & 1) ? "delivered"
	                          : "lost");
	vs_log("%s k=%d sent=%d got=%d eagain=%d dt=%lld A[%s] B[%s] seen=%x",
	    PRN[x->proto], x->k, sent, got, eagain, (long long) dt, ha, hb, seen_mask);
	vh_fini();
}


// ---- S11: a background dial whose name lookup fails is tried again -------------------------------------------
// tcp / ws dialer towards a host name that does not resolve for the first k lookups (the engine answers
// "*.invalid" itself) and then resolves to the listener: every failed attempt is followed by another one
// within the larger reconnect time, and once the name resolves the connection comes up.
static void
run_s11(void *arg)
{
	int ws    = (int) (intptr_t) arg;
	int nfail = 1 + vs_choose(VK_ENV, 4); // 1..4 failed lookups
	int M     = vs_choose(VK_ENV, 2) ? 20 : 7;
	vs_tcp_grace_us = 1500;
	vh_init(0);
	ledger_reset();
	nng_socket   a, b;
	nng_listener l;
	nng_dialer   d;
	int          port = 0;
	char         url[120];
	VH_OK(nng_pair0_open(&a));
	VH_OK(nng_pair0_open(&b));
	watch(0, b);
	VH_OK(nng_listen(a, ws ? "ws://127.0.0.1:0/s11" : "tcp://127.0.0.1:0", &l, 0));
	VH_OK(nng_listener_get_int(l, NNG_OPT_BOUND_PORT, &port));
	snprintf(url, sizeof(url), ws ? "ws://flaky.s11.invalid:%d/s11" : "tcp://flaky.s11.invalid:%d", port);
	VH_OK(nng_socket_set_ms(b, NNG_OPT_RECONNMINT, M));
	VH_OK(nng_socket_set_ms(b, NNG_OPT_RECONNMAXT, M));
	vs_gai_fail_left = nfail;
	vs_gai_calls     = 0;
	int64_t t0 = vs_now(), t_last = t0;
	int     seen = 0;
	VH_OK(nng_dial(b, url, &d, NNG_FLAG_NONBLOCK));
	vs_settle();
	int connected = 0;
	for (int step = 0; step < (nfail + 2) * (M + 3) + 50 && !connected; step++) {
		if (vs_gai_calls > seen) {
			if (seen > 0 && vs_now() - t_last > M + 2)
				vs_fail("C14:redial-late",
				    "lookup %d of the unresolvable name came %lld ms after the previous one failed; the "
				    "larger reconnect time is %d ms",
				    vs_gai_calls, (long long) (vs_now() - t_last), M);
			seen   = vs_gai_calls;
			t_last = vs_now();
		}
		if (count_ev(0, NNG_PIPE_EV_ADD_POST) > 0)
			connected = 1;
		else {
			vs_sleep(0);
			vs_settle();
		}
	}
	if (!connected)
		vs_fail("C14:redial-missing",
		    "%s dialer, name unresolvable for the first %d lookup(s): %d lookup(s) were made in %lld ms "
		    "(reconnect time %d ms) and no connection came up - a failed background dial was not tried again",
		    ws ? "ws" : "tcp", nfail, vs_gai_calls, (long long) (vs_now() - t0), M);
	if (vs_gai_calls < nfail + 1)
		vs_fail("harness:s11", "connected after %d lookups, %d had to fail", vs_gai_calls, nfail);
	vs_outcome("fail%d M%d lookups%d t%lld", nfail, M, vs_gai_calls, (long long) ((vs_now() - t0) / 8));
	nng_socket_close(b);
	nng_socket_close(a);
	vs_settle();
	vh_fini();
}

// ---- S3: redial timing against a raw AF_UNIX listener --------------------------
typedef struct s3arg {
	int m, M;      // RECONNMINT, RECONNMAXT
	int at_dialer; // set the options on the dialer instead of the socket
	int outage;    // > 0: every loss is a refusing period of this many ms (dozens of failed dials in a row)
} s3arg;

static char s3_path[108];
static int
s3_listen(void)
{
	struct sockaddr_un sa;
	int ls = socket(AF_UNIX, SOCK_STREAM | SOCK_NONBLOCK | SOCK_CLOEXEC, 0);
	if (ls < 0)
		vs_fail("harness:setup", "socket: %s", strerror(errno));
	memset(&sa, 0, sizeof(sa));
	sa.sun_family = AF_UNIX;
	snprintf(sa.sun_path, sizeof(sa.sun_path), "%s", s3_path);
	unlink(s3_path);
	if (bind(ls, (struct sockaddr *) &sa, sizeof(sa)) != 0 || listen(ls, 16) != 0)
		vs_fail("harness:setup", "bind/listen %s: %s", s3_path, strerror(errno));
	return ls;
}

static int
s3_accept(int ls)
{
	int fd = accept4(ls, NULL, NULL, SOCK_NONBLOCK | SOCK_CLOEXEC);
	if (fd < 0 && errno != EAGAIN && errno != EWOULDBLOCK)
		vs_fail("harness:setup", "accept: %s", strerror(errno));
	return fd;
}

// wait (1 ms virtual steps) for the next connection attempt; t_loss is the
// instant the previous pipe / dial attempt was lost
static int
s3_await(int ls, int64_t t_loss, int bound, const char *what, int *dtp)
{
	int limit = 5 * bound + 50;
	for (;;) {
		int fd = s3_accept(ls);
		int dt = (int) (vs_now() - t_loss);
		if (fd >= 0) {
			if (dt > bound + 2)
				vs_fail("C14:redial-late",
				    "%s: next connection attempt arrived %d ms later; "
				    "the larger reconnect time is %d ms",
				    what, dt, bound);
			*dtp = dt;
			return fd;
		}
		if (dt > limit)
			vs_fail("C14:redial-missing",
			    "%s: no new connection attempt within %d ms (larger "
			    "reconnect time %d ms)",
			    what, dt, bound);
		vs_sleep(0);
		vs_settle();
	}
}

enum { LM_BEFORE_HS, LM_AFTER_HS, LM_AFTER_MSG, LM_REFUSED, LM_N };
static const char *LMN[] = { "no-handshake", "after-handshake", "after-message",
	"refused" };

static void
run_s3(void *arg)
{
	s3arg                *x = arg;
	static const uint32_t seeds[] = { 0x12345678u, 1u, 0xdeadbeefu, 0x0badf00du };
	int                   nseed = vx_is_thorough() ? 4 : 3;
	int                   seed  = vs_choose(VK_ENV, nseed);
	int                   bound = x->m > x->M ? x->m : x->M;
	int                   nloss = vx_is_thorough() ? 4 : 3;
	int                   mode[4] = { 0, 0, 0, 0 };
	if (x->outage)
		nloss = 2;
	for (int i = 0; i < nloss; i++)
		mode[i] = x->outage ? LM_REFUSED : vs_choose(VK_ENV, LM_N);
	int endmode = vs_choose(VK_ENV, 3); // dialer close: connected / back-off / sock close
	vs_random_seed = seeds[seed];

	vh_init(0);
	ledger_reset();
	snprintf(s3_path, sizeof(s3_path), "%s/c14-%d", vx_rundir(), (int) getpid());
	int  ls = s3_listen();
	char url[160];
	snprintf(url, sizeof(url), "ipc://%s", s3_path);

	nng_socket s;
	nng_dialer d;
	VH_OK(nng_pair0_open(&s));
	watch(0, s);
	if (x->at_dialer) {
		VH_OK(nng_dialer_create(&d, s, url));
		VH_OK(nng_dialer_set_ms(d, NNG_OPT_RECONNMINT, x->m));
		VH_OK(nng_dialer_set_ms(d, NNG_OPT_RECONNMAXT, x->M));
		VH_OK(nng_dialer_start(d, NNG_FLAG_NONBLOCK));
	} else {
		VH_OK(nng_socket_set_ms(s, NNG_OPT_RECONNMINT, x->m));
		VH_OK(nng_socket_set_ms(s, NNG_OPT_RECONNMAXT, x->M));
		VH_OK(nng_dial(s, url, &d, NNG_FLAG_NONBLOCK));
	}
	vs_settle();
	int fd = s3_accept(ls);
	if (fd < 0)
		vs_fail("harness:setup", "initial non-blocking dial did not connect");

	int     maxdt = 0, dt = 0;
	vp_rd  *rd = calloc(1, sizeof(*rd));
	char    what[64];
	for (int i = 0; i < nloss; i++) {
		int64_t t_loss;
		snprintf(what, sizeof(what), "loss %d (%s) m=%d M=%d", i + 1,
		    LMN[mode[i]], x->m, x->M);
		if (mode[i] == LM_AFTER_HS || mode[i] == LM_AFTER_MSG) {
			int nposts = count_ev(0, NNG_PIPE_EV_ADD_POST);
			int pp     = vp_handshake(fd, SP_PAIR0);
			if (pp != SP_PAIR0)
				vs_fail("harness:s3", "%s: handshake gave %d", what, pp);
			vs_settle();
			if (count_ev(0, NNG_PIPE_EV_ADD_POST) != nposts + 1)
				vs_fail("harness:s3", "%s: no ADD_POST after handshake",
				    what);
		}
		if (mode[i] == LM_AFTER_MSG) {
			const uint8_t *pl;
			size_t         len;
			uint8_t        fr[32];
			memset(rd, 0, sizeof(*rd));
			rd->ipc = 1;
			if (vh_send_nb(s, "ping", 5) != 0)
				vs_fail("harness:s3", "%s: send failed", what);
			vs_settle();
			if (vp_next_frame(fd, rd, &pl, &len) != 1 || len != 5 ||
			    memcmp(pl, "ping", 5) != 0)
				vs_fail("harness:s3", "%s: message not on the wire", what);
			size_t n = vp_frame(fr, NULL, 0, "pong", 5, 1);
			if (vp_write_all(fd, fr, n) != 0)
				vs_fail("harness:s3", "%s: raw write failed", what);
			vs_settle();
			char body[16] = "";
			if (drain(0, body, sizeof(body)) != 1 || strcmp(body, "pong") != 0)
				vs_fail("harness:s3", "%s: reply not delivered", what);
		}
		if (mode[i] == LM_REFUSED) {
			// drop the connection AND stop listening for a while: every
			// background dial in that period is refused.  Attempts are
			// at most `bound` apart, so one must arrive within `bound`
			// of the moment the harness listens again.
			close(ls);
			close(fd);
			vs_settle();
			for (int k = 0; k < (x->outage ? x->outage : 3 * bound + 7); k++) {
				vs_sleep(0);
				vs_settle();
			}
			ls     = s3_listen();
			t_loss = vs_now();
		} else {
			t_loss = vs_now();
			close(fd);
			vs_settle();
		}
		fd = s3_await(ls, t_loss, bound, what, &dt);
		if (dt > maxdt)
			maxdt = dt;
	}
	// fd is a fresh, not yet negotiated connection
	int64_t t_close;
	switch (endmode) {
	case 0: // close the dialer while its pipe is up
		if (vp_handshake(fd, SP_PAIR0) != SP_PAIR0)
			vs_fail("harness:s3", "final handshake failed");
		vs_settle();
		VH_OK(nng_dialer_close(d));
		vs_settle();
		close(fd);
		break;
	case 1: // close the dialer while it waits to redial
		close(fd);
		vs_settle();
		VH_OK(nng_dialer_close(d));
		vs_settle();
		break;
	default: // close the whole socket while the pipe is up
		if (vp_handshake(fd, SP_PAIR0) != SP_PAIR0)
			vs_fail("harness:s3", "final handshake failed");
		vs_settle();
		close_sock(0);
		vs_settle();
		close(fd);
		break;
	}
	t_close = vs_now();
	vs_settle();
	// an attempt made before the close may still sit in the backlog
	while ((fd = s3_accept(ls)) >= 0) {
		if (endmode != 1)
			vs_fail("C14:redial-after-close",
			    "connection attempt pending right after %s returned",
			    endmode == 0 ? "nng_dialer_close" : "nng_socket_close");
		close(fd);
	}
	while (vs_now() - t_close <= 5 * bound + 10) {
		vs_sleep(0);
		vs_settle();
		if ((fd = s3_accept(ls)) >= 0)
			vs_fail("C14:redial-after-close",
			    "connection attempt %lld ms after the dialer was closed "
			    "(m=%d M=%d)",
			    (long long) (vs_now() - t_close), x->m, x->M);
	}
	if (endmode != 2)
		close_sock(0);
	vs_settle();
	ledger_final();
	for (int k = 0; k < NDL; k++)
		if (DL[k].maxlive > 1)
			vs_fail("C14:two-pipes-per-dialer", "max live %d", DL[k].maxlive);
	// outcome: coarse bucket of the largest observed delay (coverage of the
	// random stream), not the exact number
	int bucket = bound ? (maxdt * 4) / (bound + 1) : 0;
	vs_outcome("m=%d M=%d maxdelay-quartile=%d end=%d", x->m, x->M, bucket, endmode);
	vs_log("m=%d M=%d seed=%d modes=%s,%s,%s%s%s end=%d maxdt=%d pipes=%d", x->m,
	    x->M, seed, LMN[mode[0]], LMN[mode[1]], LMN[mode[2]], nloss > 3 ? "," : "",
	    nloss > 3 ? LMN[mode[3]] : "", endmode, maxdt, NPI);
	free(rd);
	close(ls);
	unlink(s3_path);
	vh_fini();
}

// ---- S4: a listener keeps accepting --------------------------------------------
enum {
	FM_BAD_HS,     // 8 wrong handshake bytes
	FM_PART_HS,    // half a handshake, then close
	FM_CLOSE,      // close without a byte
	FM_REJECT,     // good handshake (+ pipelined message), rejected in ADD_PRE
	FM_WRONG_PEER, // good handshake of a protocol that is not the peer
	FM_LOST,       // accepted, one message delivered, then the peer vanishes
	FM_LINGER,     // half a handshake, connection stays open (never completes)
	FM_NONE,
	FM_N
};
static const char *FMN[] = { "bad-handshake", "partial-handshake", "close",
	"reject-in-pre", "wrong-peer", "lost-after-msg", "linger", "none" };

typedef struct s4arg {
	int proto; // 0 pair0, 1 pull (raw PUSH peer), 2 rep (raw REQ peer)
} s4arg;
static const uint16_t s4_peer[] = { SP_PAIR0, SP_PUSH, SP_REQ };
static const uint16_t s4_self[] = { SP_PAIR0, SP_PULL, SP_REP };

static size_t
s4_frame(int proto, uint8_t *out, const char *body, uint32_t reqid)
{
	uint8_t hdr[4];
	if (proto == 2) {
		vp_put32(hdr, 0x80000000u | reqid);
		return vp_frame(out, hdr, 4, body, strlen(body) + 1, 0);
	}
	return vp_frame(out, NULL, 0, body, strlen(body) + 1, 0);
}

// expects exactly the message `body` (or none if body == NULL) on socket A
static void
s4_expect(const char *ctx, const char *body)
{
	char got[32] = "";
	int  n       = drain(0, got, sizeof(got));
	if (body == NULL) {
		if (n != 0)
			vs_fail(strncmp(got, "F-rej", 5) == 0
			        ? "C14:rejected-pipe-carried-message"
			        : "harness:s4",
			    "%s: unexpected message \"%s\" delivered", ctx, got);
		return;
	}
	if (n != 1 || strcmp(got, body) != 0)
		vs_fail("C14:listener-stopped-accepting",
		    "%s: message \"%s\" sent by the raw peer was not delivered (got %d "
		    "message(s), last \"%s\")",
		    ctx, body, n, got);
}

static int s4_keep[4], s4_nkeep;

static void
s4_fail_conn(int proto, int fd, int fm, int idx)
{
	uint8_t buf[64];
	char    ctx[48];
	snprintf(ctx, sizeof(ctx), "conn %d (%s)", idx, FMN[fm]);
	switch (fm) {
	case FM_BAD_HS: {
		static const uint8_t bad[8] = { 0, 'S', 'Q', 0, 0, 0x10, 0, 0 };
		vp_write_all(fd, bad, 8);
		vs_settle();
		close(fd);
		break;
	}
	case FM_PART_HS: {
		static const uint8_t half[4] = { 0, 'S', 'P', 0 };
		vp_write_all(fd, half, 4);
		vs_settle();
		close(fd);
		break;
	}
	case FM_LINGER: {
		static const uint8_t half[4] = { 0, 'S', 'P', 0 };
		vp_write_all(fd, half, 4);
		vs_settle();
		s4_keep[s4_nkeep++] = fd;
		break;
	}
	case FM_CLOSE:
		close(fd);
		break;
	case FM_REJECT: {
		// handshake and a message in one write: the message is on the
		// wire of a pipe that the application rejects
		uint8_t h[8] = { 0, 'S', 'P', 0, (uint8_t) (s4_peer[proto] >> 8),
			(uint8_t) s4_peer[proto], 0, 0 };
		size_t  n = 8;
		memcpy(buf, h, 8);
		n += s4_frame(proto, buf + 8, "F-rej", 7);
		reject_left[0] = 1;
		int nrej       = n_rejected[0];
		vp_write_all(fd, buf, n);
		vs_settle();
		// a pending accept cool-down may delay the ADD_PRE
		for (int k = 0; k < 300 && n_rejected[0] == nrej; k++) {
			vs_sleep(0);
			vs_settle();
		}
		if (n_rejected[0] != nrej + 1)
			vs_fail("C14:listener-stopped-accepting",
			    "%s: a well-formed connection never reached ADD_PRE", ctx);
		s4_expect(ctx, NULL);
		close(fd);
		break;
	}
	case FM_WRONG_PEER: {
		int npre = count_ev(0, NNG_PIPE_EV_ADD_PRE);
		int pp   = vp_handshake(fd, SP_BUS);
		(void) pp;
		vs_settle();
		size_t n = s4_frame(proto, buf, "F-wrong", 8);
		vp_write_all(fd, buf, n); // may fail with EPIPE: fine
		for (int k = 0;
		     k < 300 && count_ev(0, NNG_PIPE_EV_ADD_PRE) == npre; k++) {
			vs_sleep(0);
			vs_settle();
		}
		vs_settle();
		close(fd);
		break;
	}
	case FM_LOST: {
		int nposts = count_ev(0, NNG_PIPE_EV_ADD_POST);
		int pp     = vp_handshake(fd, s4_peer[proto]);
		if (pp != s4_self[proto])
			vs_fail("C14:listener-stopped-accepting",
			    "%s: handshake failed (%d)", ctx, pp);
		for (int k = 0;
		     k < 300 && count_ev(0, NNG_PIPE_EV_ADD_POST) == nposts; k++) {
			vs_sleep(0);
			vs_settle();
		}
		if (count_ev(0, NNG_PIPE_EV_ADD_POST) != nposts + 1)
			vs_fail("C14:listener-stopped-accepting",
			    "%s: connection was negotiated but never reached ADD_POST",
			    ctx);
		size_t n = s4_frame(proto, buf, "F-lost", 9);
		vp_write_all(fd, buf, n);
		vs_settle();
		s4_expect(ctx, "F-lost");
		close(fd);
		break;
	}
	default:
		break;
	}
	vs_settle();
}

static void
run_s4(void *arg)
{
	s4arg       *x  = arg;
	int          f1 = vs_choose(VK_ENV, FM_NONE); // first connection always fails
	int          f2 = vs_choose(VK_ENV, FM_N);
	int          overlap = vs_choose(VK_ENV, 2);
	nng_socket   a;
	nng_listener l;
	int          good = -1;

	vh_init(0);
	ledger_reset();
	s4_nkeep = 0;
	switch (x->proto) {
	case 0:
		VH_OK(nng_pair0_open(&a));
		break;
	case 1:
		VH_OK(nng_pull0_open(&a));
		break;
	default:
		VH_OK(nng_rep0_open(&a));
		break;
	}
	watch(0, a);
	int fd1 = vp_attach(a, &l);
	if (fd1 < 0)
		vs_fail("harness:setup", "attach");
	vs_settle();
	if (overlap) {
		// the honest connection is already pending while the others fail
		good = vp_attach_more(l);
		vs_settle();
	}
	s4_fail_conn(x->proto, fd1, f1, 1);
	if (f2 != FM_NONE) {
		int fd2 = vp_attach_more(l);
		if (fd2 < 0)
			vs_fail("C14:listener-stopped-accepting",
			    "listener refused a second connection fd after %s", FMN[f1]);
		vs_settle();
		s4_fail_conn(x->proto, fd2, f2, 2);
	}
	if (!overlap) {
		good = vp_attach_more(l);
		vs_settle();
	}
	if (good < 0)
		vs_fail("C14:listener-stopped-accepting",
		    "listener refused a further connection fd after %s,%s", FMN[f1],
		    FMN[f2]);
	char ctx[64];
	snprintf(ctx, sizeof(ctx), "honest connection after %s,%s%s", FMN[f1], FMN[f2],
	    overlap ? " (overlapping)" : "");
	int nposts = count_ev(0, NNG_PIPE_EV_ADD_POST);
	int pp     = vp_handshake(good, s4_peer[x->proto]);
	if (pp != s4_self[x->proto])
		vs_fail("C14:listener-stopped-accepting", "%s: handshake failed (%d)",
		    ctx, pp);
	int64_t t0 = vs_now();
	for (int k = 0; k < 500 && count_ev(0, NNG_PIPE_EV_ADD_POST) == nposts; k++) {
		vs_sleep(0);
		vs_settle();
	}
	int wait = (int) (vs_now() - t0);
	if (count_ev(0, NNG_PIPE_EV_ADD_POST) != nposts + 1)
		vs_fail("C14:listener-stopped-accepting",
		    "%s: negotiated but no ADD_POST within %d virtual ms", ctx, wait);
	uint8_t buf[64];
	size_t  n = s4_frame(x->proto, buf, "G-hello", 42);
	if (vp_write_all(good, buf, n) != 0)
		vs_fail("C14:listener-stopped-accepting", "%s: raw write failed", ctx);
	vs_settle();
	s4_expect(ctx, "G-hello");
	if (x->proto != 1) {
		// and the other direction
		nng_msg *m;
		VH_OK(nng_msg_alloc(&m, 0));
		VH_OK(nng_msg_append(m, "G-back", 7));
		int rv = nng_sendmsg(a, m, NNG_FLAG_NONBLOCK);
		if (rv != 0)
			vs_fail("C14:listener-stopped-accepting",
			    "%s: send on the accepted pipe failed: %s", ctx,
			    nng_strerror(rv));
		vs_settle();
		vp_rd         *rd = calloc(1, sizeof(*rd));
		const uint8_t *pl;
		size_t         len;
		size_t         off = x->proto == 2 ? 4 : 0;
		if (vp_next_frame(good, rd, &pl, &len) != 1 || len != off + 7 ||
		    memcmp(pl + off, "G-back", 7) != 0)
			vs_fail("C14:listener-stopped-accepting",
			    "%s: message from the socket did not reach the raw peer",
			    ctx);
		free(rd);
	}
	close(good);
	for (int i = 0; i < s4_nkeep; i++)
		close(s4_keep[i]);
	vs_settle();
	close_sock(0);
	vs_settle();
	ledger_final();
	char ha[80];
	ledger_summary(0, ha, sizeof(ha));
	vs_outcome("A[%s] wait=%s", ha, wait == 0 ? "0" : wait <= 102 ? "cooldown" : "long");
	vs_log("proto=%d %s wait=%d A[%s]", x->proto, ctx, wait, ha);
	vh_fini();
}

// ---- S5: the peer closes while the receiver is not reading ---------------------------
// a receive-only socket (PULL / SUB / PAIR0 used one way) holds an unread message, so no
// transport receive is outstanding, when the peer closes the connection.  Once the
// application reads on, the loss must be noticed: REM_POST, a redial within the reconnect
// time, and messages flow on the new pipe.
typedef struct s5arg {
	int proto; // 0 pair0, 1 push->pull, 3 pub->sub
	int tran;  // 0 ws, 1 tcp, 2 ipc, 3 inproc
} s5arg;
static const char *S5T[] = { "ws", "tcp", "ipc", "inproc" };

static void
run_s5(void *arg)
{
	s5arg     *x = arg;
	nng_socket a, b; // a sends and listens, b receives and dials
	char       url[200];
	vs_tcp_grace_us = 1500;
	vh_init(0);
	ledger_reset();
	if (x->proto == 3) {
		VH_OK(nng_sub0_open(&b));
		VH_OK(nng_pub0_open(&a));
		VH_OK(nng_sub0_socket_subscribe(b, "", 0));
	} else if (x->proto == 1) {
		VH_OK(nng_pull0_open(&b));
		VH_OK(nng_push0_open(&a));
	} else {
		VH_OK(nng_pair0_open(&b));
		VH_OK(nng_pair0_open(&a));
	}
	watch(0, a);
	watch(1, b);
	VH_OK(nng_socket_set_ms(b, NNG_OPT_RECONNMINT, 10));
	VH_OK(nng_socket_set_ms(b, NNG_OPT_RECONNMAXT, 10));
	VH_OK(nng_socket_set_ms(b, NNG_OPT_RECVTIMEO, 100));
	VH_OK(nng_socket_set_ms(a, NNG_OPT_SENDTIMEO, 100));
	VH_OK(nng_socket_set_int(b, NNG_OPT_RECVBUF, 1));
	nng_listener l;
	if (x->tran <= 1) {
		int port = 0;
		VH_OK(nng_listen(a, x->tran == 0 ? "ws://127.0.0.1:0/s5" : "tcp://127.0.0.1:0",
		    &l, 0));
		VH_OK(nng_listener_get_int(l, NNG_OPT_BOUND_PORT, &port));
		snprintf(url, sizeof(url),
		    x->tran == 0 ? "ws://127.0.0.1:%d/s5" : "tcp://127.0.0.1:%d", port);
	} else {
		if (x->tran == 2)
			snprintf(url, sizeof(url), "ipc://%s/c14s5-%d", vx_rundir(),
			    (int) getpid());
		else
			snprintf(url, sizeof(url), "inproc://c14s5");
		VH_OK(nng_listen(a, url, &l, 0));
	}
	VH_OK(nng_dial(b, url, NULL, 0));
	vs_settle();
	// nsend unread messages: 1 parks in the protocol, more also fill the transport
	int nsend = 1 + vs_choose(VK_ENV, 3);
	int how   = vs_choose(VK_ENV, 2); // 0: a closes its pipe, 1: a closes its listener too
	for (int i = 0; i < nsend; i++) {
		char t[8];
		snprintf(t, sizeof(t), "u%d", i);
		if (vh_send_nb(a, t, 3) != 0)
			nsend = i;
	}
	vs_settle();
	vs_sleep(5);
	if (count_ev(0, NNG_PIPE_EV_ADD_POST) != 1)
		vs_fail("harness:s5", "setup: %d pipes on the sender",
		    count_ev(0, NNG_PIPE_EV_ADD_POST));
	nng_pipe pa = NNG_PIPE_INITIALIZER;
	for (int i = 0; i < NPI; i++)
		if (PI[i].sock == 0)
			pa.id = PI[i].id;
	if (how == 1) {
		VH_OK(nng_listener_close(l));
		VH_OK(nng_listen(a, url, &l, 0));
	} else
		nng_pipe_close(pa);
	vs_settle();
	vs_sleep(50);
	vs_settle();
	// the application reads on: the unread messages may or may not survive the
	// close (those still inside the transport), then nothing more comes
	int got = 0, last5 = 0;
	for (int i = 0; i < nsend + 2; i++) {
		nng_msg *m;
		if (nng_recvmsg(b, &m, 0) != 0)
			break;
		// (SUB drops the oldest unread message when its buffer is full)
		int k = (nng_msg_len(m) == 3 && ((char *) nng_msg_body(m))[0] == 'u')
		    ? ((char *) nng_msg_body(m))[1] - '0'
		    : -1;
		if (k < last5 || k >= nsend || (x->proto != 3 && k != got))
			vs_fail("C14:s5:content", "unread message %d came out as '%.3s'", got,
			    (char *) nng_msg_body(m));
		last5 = k + 1;
		got++;
		nng_msg_free(m);
	}
	vs_nontrivial();
	// by now (>= 100 ms after the last read attempt) the lost pipe must have been
	// removed and a new one made
	vs_sleep(50);
	vs_settle();
	char ha[80], hb[80];
	ledger_summary(0, ha, sizeof(ha));
	ledger_summary(1, hb, sizeof(hb));
	if (count_ev(1, NNG_PIPE_EV_REM_POST) < 1)
		vs_fail("C14:loss-not-noticed",
		    "%s over %s: the peer closed the connection while %d message(s) were "
		    "unread; the receiver read %d of them and kept reading for 150 ms but "
		    "its pipe was never removed (receiver events %s)",
		    PRN[x->proto == 3 ? 1 : x->proto], S5T[x->tran], nsend, got, hb);
	if (count_ev(1, NNG_PIPE_EV_ADD_POST) < 2)
		vs_fail("C14:redial-missing",
		    "%s over %s: after the peer closed the connection (with %d unread "
		    "message(s)) the dialer made no new connection within 150 ms "
		    "(reconnect time 10 ms; receiver events %s, sender events %s)",
		    PRN[x->proto == 3 ? 1 : x->proto], S5T[x->tran], nsend, hb, ha);
	// and traffic flows again
	int through = 0;
	for (int t = 0; t < 10 && !through; t++) {
		nng_msg *m;
		vh_send_nb(a, "new", 4);
		vs_settle();
		while (nng_recvmsg(b, &m, 0) == 0) {
			if (nng_msg_len(m) == 4 && memcmp(nng_msg_body(m), "new", 4) == 0)
				through = 1;
			nng_msg_free(m);
		}
	}
	if (!through)
		vs_fail("C14:redial-missing", "%s over %s: no traffic on the new connection",
		    PRN[x->proto == 3 ? 1 : x->proto], S5T[x->tran]);
	close_sock(1);
	close_sock(0);
	vs_settle();
	vs_sleep(20);
	vs_settle();
	ledger_final();
	vs_outcome("unread=%d got=%d how=%d", nsend, got, how);
	if (x->tran == 2)
		unlink(url + 6);
	vh_fini();
}

// ---- S6: reject while the reaper is busy ----------------------------------------------
// notification callbacks run on the reaper thread and may take their time.  The ADD_PRE
// callback of a new pipe P closes an older pipe Q and rejects P; Q's REM_POST callback then
// keeps the reaper busy (virtual 100 ms), so P's teardown waits.  The peer behind P has a
// message ready the moment it connects: it must not come out of the rejected pipe.
static int      s6_slow_ms;
static uint32_t s6_q_id;
static int      s6_armed;
static void
s6_notify(nng_pipe p, nng_pipe_ev ev, void *arg)
{
	if (ev == NNG_PIPE_EV_ADD_PRE && s6_armed && p.id != s6_q_id) {
		nng_pipe q = NNG_PIPE_INITIALIZER;
		q.id       = s6_q_id;
		s6_armed   = 0;
		nng_pipe_close(q);
		reject_left[0] = 1; // the ledger callback below rejects P
	}
	notify(p, ev, arg);
	if (ev == NNG_PIPE_EV_REM_POST && p.id == s6_q_id && s6_slow_ms > 0)
		nng_msleep(s6_slow_ms);
}

static void
run_s6(void *arg)
{
	int        proto = (int) (intptr_t) arg; // 1 push->pull, 2 req->rep
	nng_socket a, b1, b2;
	char       url[] = "inproc://c14s6";
	vh_init(0);
	ledger_reset();
	s6_armed = 0;
	if (proto == 1) {
		VH_OK(nng_pull0_open(&a));
		VH_OK(nng_push0_open(&b1));
		VH_OK(nng_push0_open(&b2));
	} else {
		VH_OK(nng_rep0_open(&a));
		VH_OK(nng_req0_open(&b1));
		VH_OK(nng_req0_open(&b2));
	}
	SK[0] = a;
	for (int ev = NNG_PIPE_EV_ADD_PRE; ev <= NNG_PIPE_EV_REM_POST; ev++)
		VH_OK(nng_pipe_notify(a, ev, s6_notify, (void *) (intptr_t) 0));
	watch(1, b2);
	VH_OK(nng_socket_set_ms(b1, NNG_OPT_RECONNMINT, 1000));
	VH_OK(nng_socket_set_ms(b1, NNG_OPT_RECONNMAXT, 1000));
	VH_OK(nng_socket_set_ms(b2, NNG_OPT_RECONNMINT, 1000));
	VH_OK(nng_socket_set_ms(b2, NNG_OPT_RECONNMAXT, 1000));
	VH_OK(nng_socket_set_int(b2, NNG_OPT_SENDBUF, 2));
	VH_OK(nng_listen(a, url, NULL, 0));
	VH_OK(nng_dial(b1, url, NULL, 0));
	vs_settle();
	if (NPI < 1)
		vs_fail("harness:s6", "no first pipe");
	s6_q_id    = PI[0].id;
	s6_slow_ms = vs_choose(VK_ENV, 2) ? 100 : 0;
	int early  = vs_choose(VK_ENV, 2); // message queued before / sent right after the dial
	if (early)
		vh_send_nb(b2, "m0", 3);
	s6_armed = 1;
	vs_window(1);
	int drv = nng_dial(b2, url, NULL, 0);
	if (!early)
		vh_send_nb(b2, "m0", 3);
	vs_window(0);
	if (drv != 0)
		vs_fail("harness:s6", "dial: %s", nng_strerror(drv));
	// the application keeps receiving for 80 ms
	for (int t = 0; t < 8; t++) {
		vs_settle();
		drain(0, NULL, 0);
		vs_sleep(10);
	}
	vs_nontrivial();
	vs_sleep(100);
	vs_settle();
	drain(0, NULL, 0);
	if (n_rejected[0] != 1)
		vs_fail("harness:s6", "rejected %d pipes", n_rejected[0]);
	close_sock(1);
	closed_at[0] = -1;
	nng_socket_close(b1);
	close_sock(0);
	vs_settle();
	vs_sleep(120);
	vs_settle();
	ledger_final();
	char ha[80];
	ledger_summary(0, ha, sizeof(ha));
	vs_outcome("A[%s] slow=%d early=%d m0=%s", ha, s6_slow_ms, early,
	    (seen_mask & 1) ? "delivered-later" : "not-delivered");
	vh_fini();
}

// ---- S7: connections that finish while the listener is busy ---------------------------
// the listening socket's ADD_PRE callback for the first connection takes its time (30 virtual
// ms); n more peers connect meanwhile, so their negotiation finishes while no accept is pending.
// Every one of them must still be accepted (ADD_POST) and carry messages.
typedef struct s7arg {
	int tran; // index into S5T: 0 ws 1 tcp 2 ipc 3 inproc
	int n;    // peers
} s7arg;
static int s7_slow_left;
static void
s7_notify(nng_pipe p, nng_pipe_ev ev, void *arg)
{
	notify(p, ev, arg);
	if (ev == NNG_PIPE_EV_ADD_PRE && s7_slow_left > 0) {
		s7_slow_left--;
		nng_msleep(30);
	}
}
static void
run_s7(void *arg)
{
	s7arg       *x = arg;
	nng_socket   a, b[4];
	nng_listener l;
	char         url[200];
	vs_tcp_grace_us = 1500;
	vh_init(0);
	ledger_reset();
	VH_OK(nng_pull0_open(&a));
	SK[0] = a;
	for (int ev = NNG_PIPE_EV_ADD_PRE; ev <= NNG_PIPE_EV_REM_POST; ev++)
		VH_OK(nng_pipe_notify(a, ev, s7_notify, (void *) (intptr_t) 0));
	VH_OK(nng_socket_set_ms(a, NNG_OPT_RECVTIMEO, 100));
	if (x->tran <= 1) {
		int port = 0;
		VH_OK(nng_listen(a, x->tran == 1 ? "tcp://127.0.0.1:0" : "ws://127.0.0.1:0/s7",
		    &l, 0));
		VH_OK(nng_listener_get_int(l, NNG_OPT_BOUND_PORT, &port));
		snprintf(url, sizeof(url),
		    x->tran == 1 ? "tcp://127.0.0.1:%d" : "ws://127.0.0.1:%d/s7", port);
	} else {
		if (x->tran == 2)
			snprintf(url, sizeof(url), "ipc://%s/c14s7-%d", vx_rundir(),
			    (int) getpid());
		else
			snprintf(url, sizeof(url), "inproc://c14s7");
		VH_OK(nng_listen(a, url, &l, 0));
	}
	s7_slow_left = 1 + vs_choose(VK_ENV, 2); // the first one or two callbacks are slow
	for (int i = 0; i < x->n; i++) {
		VH_OK(nng_push0_open(&b[i]));
		VH_OK(nng_socket_set_ms(b[i], NNG_OPT_SENDTIMEO, 100));
		VH_OK(nng_dial(b[i], url, NULL, NNG_FLAG_NONBLOCK));
		if (vs_choose(VK_ENV, 2))
			vs_settle(); // peers arrive one after the other / all at once
	}
	vs_settle();
	vs_sleep(100);
	vs_settle();
	vs_nontrivial();
	int nposts = count_ev(0, NNG_PIPE_EV_ADD_POST);
	char ha[80];
	ledger_summary(0, ha, sizeof(ha));
	if (nposts != x->n)
		vs_fail("C14:listener-stopped-accepting",
		    "%d peers connected over %s while the first ADD_PRE callback(s) slept 30 ms; "
		    "100 ms later the listening socket has accepted %d of them (events %s)",
		    x->n, S5T[x->tran], nposts, ha);
	// every peer's message arrives
	int seen[4] = { 0, 0, 0, 0 };
	for (int i = 0; i < x->n; i++) {
		char t[4] = { 'p', (char) ('0' + i), 0, 0 };
		if (vh_send_nb(b[i], t, 3) != 0)
			vs_fail("C14:listener-stopped-accepting", "peer %d cannot send over %s", i,
			    S5T[x->tran]);
	}
	for (int k = 0; k < 2 * x->n; k++) {
		nng_msg *m;
		if (nng_recvmsg(a, &m, 0) != 0)
			break;
		if (nng_msg_len(m) == 3 && ((char *) nng_msg_body(m))[0] == 'p')
			seen[(((char *) nng_msg_body(m))[1] - '0') & 3]++;
		nng_msg_free(m);
	}
	for (int i = 0; i < x->n; i++)
		if (seen[i] != 1)
			vs_fail("C14:listener-stopped-accepting",
			    "message of peer %d (of %d, %s) was received %d times", i, x->n,
			    S5T[x->tran], seen[i]);
	for (int i = 0; i < x->n; i++)
		nng_socket_close(b[i]);
	close_sock(0);
	vs_settle();
	vs_sleep(20);
	vs_settle();
	ledger_final();
	vs_outcome("accepted=%d", nposts);
	if (x->tran == 2)
		unlink(url + 6);
	vh_fini();
}

// ---- S8: connections that die before the listener has done anything with them ------------------
// tcp / ipc listener (PULL or REP); k raw connections each connect and vanish - orderly or with a
// reset (SO_LINGER 0), before the library has run at all or right after it accepted, with none,
// part or all of the handshake written - so the library's first operation on the new connection
// fails with whatever the platform reports for that (EPIPE, ECONNRESET, end of file).  Whatever the
// code: the listener keeps accepting - an honest nng peer that dials afterwards reaches ADD_POST,
// its message is delivered, and the pipe gets its REM_POST at close.
enum { EL_CLOSE_NOW, EL_RESET_NOW, EL_CLOSE_LATER, EL_RESET_LATER, EL_PART_CLOSE, EL_FULL_RESET, EL_N };
static const char *ELN[] = { "close-at-once", "reset-at-once", "close-after-accept",
	"reset-after-accept", "partial-handshake-close", "handshake-then-reset" };
static void
run_s8(void *arg)
{
	int          tran = (int) (intptr_t) arg & 1; // 0 tcp, 1 ipc
	int          rep  = ((int) (intptr_t) arg >> 1) & 1;
	nng_socket   a, b;
	nng_listener l;
	char         url[200], path[160] = "";
	int          port = 0;
	vs_tcp_grace_us = 1500;
	vh_init(0);
	ledger_reset();
	if (rep)
		VH_OK(nng_rep0_open(&a));
	else
		VH_OK(nng_pull0_open(&a));
	watch(0, a);
	VH_OK(nng_socket_set_ms(a, NNG_OPT_RECVTIMEO, 100));
	if (tran == 0) {
		VH_OK(nng_listen(a, "tcp://127.0.0.1:0", &l, 0));
		VH_OK(nng_listener_get_int(l, NNG_OPT_BOUND_PORT, &port));
		snprintf(url, sizeof(url), "tcp://127.0.0.1:%d", port);
	} else {
		snprintf(path, sizeof(path), "%s/c14s8-%d", vx_rundir(), (int) getpid());
		snprintf(url, sizeof(url), "ipc://%s", path);
		VH_OK(nng_listen(a, url, &l, 0));
	}
	vs_settle();
	int mode = vs_choose(VK_ENV, EL_N);
	int k    = vs_choose(VK_ENV, 2) ? 3 : 1;
	int nb   = mode == EL_PART_CLOSE ? 1 + vs_choose(VK_ENV, 7) : 0;
	uint16_t pp = rep ? SP_REQ : SP_PUSH;
	for (int i = 0; i < k; i++) {
		int fd;
		if (tran == 0) {
			struct sockaddr_in sa;
			memset(&sa, 0, sizeof(sa));
			sa.sin_family      = AF_INET;
			sa.sin_port        = htons((uint16_t) port);
			sa.sin_addr.s_addr = htonl(INADDR_LOOPBACK);
			fd                 = socket(AF_INET, SOCK_STREAM, 0);
			if (connect(fd, (struct sockaddr *) &sa, sizeof(sa)) != 0)
				vs_fail("harness:peer", "tcp connect: %s", strerror(errno));
		} else {
			struct sockaddr_un sa;
			memset(&sa, 0, sizeof(sa));
			sa.sun_family = AF_UNIX;
			snprintf(sa.sun_path, sizeof(sa.sun_path), "%s", path);
			fd = socket(AF_UNIX, SOCK_STREAM, 0);
			if (connect(fd, (struct sockaddr *) &sa, sizeof(sa)) != 0)
				vs_fail("harness:peer", "ipc connect: %s", strerror(errno));
		}
		uint8_t       h[8] = { 0, 'S', 'P', 0, (uint8_t) (pp >> 8), (uint8_t) pp, 0, 0 };
		struct linger lg   = { .l_onoff = 1, .l_linger = 0 };
		if (mode == EL_CLOSE_LATER || mode == EL_RESET_LATER)
			vs_settle();
		if (mode == EL_PART_CLOSE && write(fd, h, (size_t) nb) != nb)
			vs_fail("harness:peer", "write");
		if (mode == EL_FULL_RESET && write(fd, h, 8) != 8)
			vs_fail("harness:peer", "write");
		if (mode == EL_RESET_NOW || mode == EL_RESET_LATER || mode == EL_FULL_RESET)
			setsockopt(fd, SOL_SOCKET, SO_LINGER, &lg, sizeof(lg));
		close(fd);
	}
	vs_settle();
	vs_nontrivial();
	int nposts = count_ev(0, NNG_PIPE_EV_ADD_POST);
	// the honest peer
	if (rep)
		VH_OK(nng_req0_open(&b));
	else
		VH_OK(nng_push0_open(&b));
	VH_OK(nng_socket_set_ms(b, NNG_OPT_SENDTIMEO, 100));
	VH_OK(nng_socket_set_ms(b, NNG_OPT_RECONNMINT, 10));
	VH_OK(nng_socket_set_ms(b, NNG_OPT_RECONNMAXT, 10));
	VH_OK(nng_dial(b, url, NULL, NNG_FLAG_NONBLOCK));
	vs_settle();
	vs_sleep(250); // one accept cool-down (100 ms) is allowed
	vs_settle();
	char ha[80];
	ledger_summary(0, ha, sizeof(ha));
	if (count_ev(0, NNG_PIPE_EV_ADD_POST) != nposts + 1)
		vs_fail("C14:listener-stopped-accepting",
		    "%s %s listener: after %d connection(s) that %s%s an honest peer dialed; 250 ms "
		    "later the listening socket has no new ADD_POST (events %s)",
		    tran ? "ipc" : "tcp", rep ? "REP" : "PULL", k, ELN[mode],
		    nb ? " (partial)" : "", ha);
	if (vh_send_nb(b, "honest", 6) != 0)
		vs_fail("C14:listener-stopped-accepting", "the honest peer cannot send");
	vs_settle();
	nng_msg *m  = NULL;
	int      rv = nng_recvmsg(a, &m, 0);
	if (rv != 0 || nng_msg_len(m) != 6)
		vs_fail("C14:listener-stopped-accepting",
		    "%s listener after %d x %s: the honest peer's message was not delivered (%s)",
		    tran ? "ipc" : "tcp", k, ELN[mode], nng_strerror(rv));
	nng_msg_free(m);
	nng_socket_close(b);
	close_sock(0);
	vs_settle();
	vs_sleep(20);
	vs_settle();
	ledger_final();
	vs_outcome("%s x%d", ELN[mode], k);
	if (path[0])
		unlink(path);
	vh_fini();
}

// ---- S9: the connection of a dialer is lost, on every transport: it dials again ---------------------
// PUSH dialer (B) -> PULL listener (A), nng on both sides, over inproc / ipc / tcp / ws / udp.  The
// connection is ended in one of four ways (the listening side closes the pipe, the dialing side
// closes the pipe, the listening socket goes away and a new one listens on the same address, the
// listener alone is closed and re-created), k times in a row.  After each loss the dialer must be
// connected again (ADD_POST on its socket) no later than the larger reconnect time plus the
// connection set-up itself, and a message must get through; event order / at-most-once / REM_POST
// at close are checked by the ledger as everywhere.
static const char *S9T[] = { "inproc", "ipc", "tcp", "ws", "udp" };
enum { S9_PIPE_A, S9_PIPE_B, S9_SOCK_A, S9_LISTENER_A, S9_N };
static const char *S9W[] = { "listener-side pipe close", "dialer-side pipe close",
	"listening socket replaced", "listener replaced" };
static void
run_s9(void *arg)
{
	int          tran = (int) (intptr_t) arg;
	nng_socket   a, b;
	nng_listener l;
	char         url[200], path[160] = "";
	if (tran >= 2)
		vs_tcp_grace_us = 1500;
	vh_init(0);
	ledger_reset();
	VH_OK(nng_pull0_open(&a));
	VH_OK(nng_push0_open(&b));
	watch(0, a);
	watch(1, b);
	VH_OK(nng_socket_set_ms(a, NNG_OPT_RECVTIMEO, 50));
	VH_OK(nng_socket_set_ms(b, NNG_OPT_SENDTIMEO, 50));
	int M = vs_choose(VK_ENV, 2) ? 40 : 10;
	VH_OK(nng_socket_set_ms(b, NNG_OPT_RECONNMINT, 10));
	VH_OK(nng_socket_set_ms(b, NNG_OPT_RECONNMAXT, M));
	switch (tran) {
	case 0:
		snprintf(url, sizeof(url), "inproc://c14s9");
		VH_OK(nng_listen(a, url, &l, 0));
		break;
	case 1:
		snprintf(path, sizeof(path), "%s/c14s9-%d", vx_rundir(), (int) getpid());
		snprintf(url, sizeof(url), "ipc://%s", path);
		VH_OK(nng_listen(a, url, &l, 0));
		break;
	default: {
		static const char *F[] = { "tcp://127.0.0.1:%d", "ws://127.0.0.1:%d/s9",
			"udp://127.0.0.1:%d" };
		int                port = 0;
		snprintf(url, sizeof(url), F[tran - 2], 0);
		VH_OK(nng_listen(a, url, &l, 0));
		VH_OK(nng_listener_get_int(l, NNG_OPT_BOUND_PORT, &port));
		snprintf(url, sizeof(url), F[tran - 2], port);
	} break;
	}
	VH_OK(nng_dial(b, url, NULL, 0));
	vs_settle();
	if (count_ev(1, NNG_PIPE_EV_ADD_POST) != 1 || count_ev(0, NNG_PIPE_EV_ADD_POST) != 1)
		vs_fail("harness:setup", "no connection over %s", S9T[tran]);
	int rounds = 1 + vs_choose(VK_ENV, 2);
	char hist[120] = "";
	for (int r = 0; r < rounds; r++) {
		int how = vs_choose(VK_ENV, S9_N);
		snprintf(hist + strlen(hist), sizeof(hist) - strlen(hist), "%s%s", r ? ", " : "",
		    S9W[how]);
		int      postsB = count_ev(1, NNG_PIPE_EV_ADD_POST);
		nng_pipe p      = NNG_PIPE_INITIALIZER;
		// the live pipe of the side in question: the last one with ADD_POST and no REM_POST
		for (int i = 0; i < NPI; i++)
			if (PI[i].sock == (how == S9_PIPE_B ? 1 : 0) && (PI[i].mask & B_POST) &&
			    !(PI[i].mask & B_REM))
				p.id = PI[i].id;
		int64_t t0 = vs_now();
		switch (how) {
		case S9_PIPE_A:
		case S9_PIPE_B:
			if (nng_pipe_close(p) != 0)
				vs_fail("harness:setup", "pipe close");
			break;
		case S9_SOCK_A:
			close_sock(0);
			vs_settle();
			ledger_socket_reopened(0);
			VH_OK(nng_pull0_open(&a));
			watch(0, a);
			VH_OK(nng_socket_set_ms(a, NNG_OPT_RECVTIMEO, 50));
			if (path[0])
				unlink(path);
			VH_OK(nng_listen(a, url, &l, 0));
			break;
		default:
			VH_OK(nng_listener_close(l));
			vs_settle();
			if (path[0])
				unlink(path);
			VH_OK(nng_listen(a, url, &l, 0));
			break;
		}
		vs_settle();
		// the dialer learns of the loss at once on these transports (close is announced);
		// then at most M ms until it dials, and the handshake takes no virtual time
		// (SP/UDP has no connection to break: when the listening end goes away without a
		// word the dialer notices by inactivity - five missed refresh intervals - and that,
		// not the reconnect time, bounds the wait)
		// (SP/UDP has no connection to break: when the listening end goes away without a
		// word and comes back, the dialer's next keep-alive simply creates the association
		// again on the new listener - its own pipe may live on.  What must hold there is
		// that traffic resumes within the keep-alive horizon.)
		int got    = 0;
		int bound  = M + 30;
		int silent = tran == 4 && (how == S9_SOCK_A || how == S9_LISTENER_A);
		for (int t = 0; t <= bound && !got && !silent; t += 5) {
			got = count_ev(1, NNG_PIPE_EV_ADD_POST) > postsB;
			if (!got) {
				vs_sleep(5);
				vs_settle();
			}
		}
		for (int t = 0; t < 160 && silent && !got; t++) {
			// 40 virtual seconds in steps of 250 ms
			if (vh_send_nb(b, "s9", 2) == 0) {
				vs_settle();
				nng_msg *m = NULL;
				if (nng_recvmsg(a, &m, 0) == 0) {
					got = 1;
					nng_msg_free(m);
				}
			}
			if (!got)
				vs_sleep(250);
		}
		char hb[80];
		ledger_summary(1, hb, sizeof(hb));
		if (!got)
			vs_fail("C14:redial-missing",
			    "%s: after %s the dialer has no new connection %lld ms later "
			    "(reconnect times 10/%d ms; its pipe events: %s)",
			    S9T[tran], hist, (long long) (vs_now() - t0), M, hb);
		// and it works
		int through = 0;
		for (int t = 0; t < 4 && !through; t++) {
			if (vh_send_nb(b, "s9", 2) != 0) {
				vs_sleep(5);
				continue;
			}
			vs_settle();
			nng_msg *m = NULL;
			if (nng_recvmsg(a, &m, 0) == 0) {
				through = 1;
				nng_msg_free(m);
			}
		}
		if (!through)
			vs_fail("C14:redial-missing",
			    "%s: after %s the dialer reports a new connection but no message gets "
			    "through",
			    S9T[tran], hist);
	}
	vs_nontrivial();
	close_sock(1);
	close_sock(0);
	vs_settle();
	vs_sleep(20);
	vs_settle();
	ledger_final();
	vs_outcome("%s %s", S9T[tran], hist);
	if (path[0])
		unlink(path);
	vh_fini();
}

// ---- driver --------------------------------------------------------------------
// ---- S10: one notification is un-registered, the others stay ------------------------------------------------
// nng_pipe_notify(s, ev, NULL, NULL) removes ONE callback.  For every event u that is removed, at every
// moment (before any pipe / while a pipe is attached / between two pipes), and for every order in which the
// three were registered: the callbacks that are still registered keep firing for old and new pipes (every
// ADD_POST gets its REM_POST by the time close returns), the removed one stays silent.
static int s10_cnt[4][8]; // [event][pipe ordinal]
static uint32_t s10_ids[8];
static int      s10_np;
static void
s10_cb(nng_pipe p, nng_pipe_ev ev, void *arg)
{
	(void) arg;
	int k;
	for (k = 0; k < s10_np; k++)
		if (s10_ids[k] == (uint32_t) p.id)
			break;
	if (k == s10_np) {
		if (s10_np >= 8)
			vs_fail("harness:ledger", "too many pipes");
		s10_ids[s10_np++] = (uint32_t) p.id;
	}
	if ((int) ev < 0 || (int) ev > 3)
		vs_fail("C14:order", "callback with unknown event %d", (int) ev);
	s10_cnt[ev][k]++;
}
static void
run_s10(void *arg)
{
	(void) arg;
	static const nng_pipe_ev E3[3] = { NNG_PIPE_EV_ADD_PRE, NNG_PIPE_EV_ADD_POST,
		NNG_PIPE_EV_REM_POST };
	static const int ORD[3][3] = { { 0, 1, 2 }, { 2, 1, 0 }, { 1, 2, 0 } };
	vh_init(0);
	memset(s10_cnt, 0, sizeof(s10_cnt));
	s10_np = 0;
	nng_socket a, b1, b2;
	int        u    = vs_choose(VK_ENV, 3); // which one is removed
	int        when = vs_choose(VK_ENV, 3); // 0 before any pipe, 1 with pipe #1 attached, 2 after pipe #1 left
	int        ord  = vs_choose(VK_ENV, 3);
	int        again = vs_choose(VK_ENV, 2); // the removed one is registered again before pipe #2
	VH_OK(nng_pull0_open(&a));
	for (int i = 0; i < 3; i++)
		VH_OK(nng_pipe_notify(a, E3[ORD[ord][i]], s10_cb, NULL));
	VH_OK(nng_listen(a, "inproc://c14s10", NULL, 0));
	if (when == 0)
		VH_OK(nng_pipe_notify(a, E3[u], NULL, NULL));
	VH_OK(nng_push0_open(&b1));
	VH_OK(nng_dial(b1, "inproc://c14s10", NULL, 0));
	vs_settle();
	if (when == 1)
		VH_OK(nng_pipe_notify(a, E3[u], NULL, NULL));
	nng_socket_close(b1);
	vs_settle();
	if (when == 2)
		VH_OK(nng_pipe_notify(a, E3[u], NULL, NULL));
	if (again)
		VH_OK(nng_pipe_notify(a, E3[u], s10_cb, NULL));
	VH_OK(nng_push0_open(&b2));
	VH_OK(nng_dial(b2, "inproc://c14s10", NULL, 0));
	vs_settle();
	nng_socket_close(a);
	// judged at the return of close (no scheduling point since)
	int cnt[4][2];
	for (int e = 1; e <= 3; e++)
		for (int k = 0; k < 2; k++)
			cnt[e][k] = s10_cnt[e][k];
	nng_socket_close(b2);
	vs_nontrivial();
	if (s10_np > 2)
		vs_fail("C14:order", "events for %d pipes, two connected", s10_np);
	for (int k = 0; k < 2; k++)
		for (int i = 0; i < 3; i++) {
			int e = (int) E3[i];
			// is e registered while pipe k goes through it?
			int reg = 1;
			if (i == u) {
				if (k == 0)
					reg = when == 0 ? 0 : (i == 2 && when == 1) ? 0 : 1;
				else
					reg = again;
			}
			if (cnt[e][k] != reg)
				vs_fail(reg ? "C14:event-missing-after-unregister" : "C14:unregistered-callback-ran",
				    "pipe #%d: %s delivered %d time(s), expected %d (callbacks registered in order "
				    "%d; %s removed %s%s)",
				    k + 1, evname(E3[i]), cnt[e][k], reg, ord, evname(E3[u]),
				    when == 0       ? "before any pipe"
				        : when == 1 ? "while pipe #1 was attached"
				                    : "after pipe #1 left",
				    again ? ", registered again before pipe #2" : "");
		}
	vs_outcome("u=%d when=%d again=%d", u, when, again);
	vh_fini();
}

static void
explore(const char *name, void (*fn)(void *), void *arg, int p, int sw, int t,
    int total)
{
	vx_cfg c;
	memset(&c, 0, sizeof(c));
	c.prop     = "C14";
	c.scenario = name;
	c.run      = fn;
	c.arg      = arg;
	for (int i = 0; i < VB_NB; i++)
		c.budget[i] = 0;
	c.budget[VB_PREEMPT] = p;
	c.budget[VB_SWITCH]  = sw;
	c.budget[VB_TIMER]   = t;
	c.budget[VB_ENV]     = -1;
	c.total              = total;
	c.watchdog_s         = 20;
	vx_explore(&c, NULL);
}

int
main(int argc, char **argv)
{
	vx_init(argc, argv, "C14");
	int  T = vx_is_thorough();
	char name[64];
	(void) vx_rundir();

	// S3 / S4 / S2-sequential first: cheap and independent of the budgets
	static s3arg s3[] = { { 10, 10, 0 }, { 10, 40, 1 }, { 50, 0, 0 }, { 40, 10, 1 },
		{ 3, 3, 0 }, { 7, 100, 1 } };
	// (a reconnect time of 1 ms makes every delay "random % 1" = 0: with a
	// refusing peer the dialer then redials in a loop that never lets the
	// virtual clock advance, so 3 ms is the smallest configuration used)
	int          ns3 = T ? 6 : 4;
	for (int i = 0; i < ns3; i++) {
		snprintf(name, sizeof(name), "S3-redial-m%d-M%d-%s", s3[i].m, s3[i].M,
		    s3[i].at_dialer ? "dialeropt" : "sockopt");
		explore(name, run_s3, &s3[i], 0, 0, 0, 0);
	}
	explore("S11-unresolvable-name-redial-tcp", run_s11, (void *) 0, 0, 0, 0, 0);
	explore("S11-unresolvable-name-redial-ws", run_s11, (void *) 1, 0, 0, 0, 0);
	// long outages: the peer refuses for 300 / 1000 ms (50 .. 300 failed dials in a row, the back-off grown
	// to its ceiling long before), then listens again: the next attempt still comes within the larger time
	{
		static s3arg s3o[] = { { 3, 6, 1, 300 }, { 3, 6, 0, 300 }, { 5, 20, 1, 1000 }, { 4, 0, 0, 300 } };
		for (int i = 0; i < (T ? 4 : 2); i++) {
			snprintf(name, sizeof(name), "S3o-outage%d-m%d-M%d-%s", s3o[i].outage, s3o[i].m, s3o[i].M,
			    s3o[i].at_dialer ? "dialeropt" : "sockopt");
			explore(strdup(name), run_s3, &s3o[i], 0, 0, 0, 0);
		}
	}
	{
		static s5arg s5[12];
		static const int PR5[] = { 1, 0, 3 };
		int n5 = 0;
		for (int pr = 0; pr < 3; pr++)
			for (int tr = 0; tr < 4; tr++) {
				if (!T && pr > 0 && tr > 0)
					continue;
				s5[n5].proto = PR5[pr];
				s5[n5].tran  = tr;
				snprintf(name, sizeof(name), "S5-peer-close-unread-%s-%s",
				    PR5[pr] == 3 ? "pubsub" : PRN[PR5[pr]], S5T[tr]);
				explore(strdup(name), run_s5, &s5[n5], 0, 0, 0, 0);
				n5++;
			}
	}
	explore("S6-reject-busy-reaper-pushpull", run_s6, (void *) (intptr_t) 1, 1, 1, 0, 1);
	explore("S6-reject-busy-reaper-reqrep", run_s6, (void *) (intptr_t) 2, 1, 1, 0, 1);
	{
		static s7arg s7[8];
		int          n7 = 0;
		for (int tr = 0; tr < 4; tr++)
			for (int n = 2; n <= 3; n++) {
				if (!T && n == 3 && tr != 1)
					continue;
				s7[n7].tran = tr;
				s7[n7].n    = n;
				snprintf(name, sizeof(name), "S7-accept-burst-%s-n%d", S5T[tr], n);
				explore(strdup(name), run_s7, &s7[n7], 0, 0, 0, 0);
				n7++;
			}
	}
	for (int tr = 0; tr < 5; tr++) {
		snprintf(name, sizeof(name), "S9-loss-redial-%s", S9T[tr]);
		explore(strdup(name), run_s9, (void *) (intptr_t) tr, 0, 0, 0, 0);
	}
	for (int v = 0; v < 4; v++) {
		snprintf(name, sizeof(name), "S8-early-loss-%s-%s", (v & 1) ? "ipc" : "tcp",
		    (v & 2) ? "rep" : "pull");
		explore(strdup(name), run_s8, (void *) (intptr_t) v, 0, 0, 0, 0);
	}
	explore("S10-unregister-one", run_s10, NULL, 0, 0, 0, 0);
	static s4arg s4[] = { { 0 }, { 1 }, { 2 } };
	static const char *s4n[] = { "S4-accept-pair0", "S4-accept-pull",
		"S4-accept-rep" };
	for (int i = 0; i < 3; i++)
		explore(s4n[i], run_s4, &s4[i], 0, 0, 0, 0);

	// Budget classes.  The connect path over inproc has 100-200 choice points
	// per execution, so a third deviation level is out of reach (> 500 k
	// executions per scenario); everything is bounded by two deviations:
	//   1 "lite"  one deviation (preempt | switch | timer)
	//   2 "p1"    two deviations, at most one of them a preemption
	//   3 "p2"    two deviations, both may be preemptions
	static const int BP[4] = { 0, 1, 1, 2 }, BT[4] = { 0, 1, 2, 2 };
	static s2arg s2[]  = { { 0, 1, 0 }, { 1, 1, 0 }, { 0, 2, 0 }, { 1, 2, 0 },
		 { 0, 1, 1 }, { 1, 2, 1 } };
	static const int s2q[] = { 2, 1, 1, 1, 1, 1 }, s2t[] = { 3, 2, 2, 2, 2, 2 };
	for (int i = 0; i < 6; i++) {
		int c = T ? s2t[i] : s2q[i];
		snprintf(name, sizeof(name), "S2-reject%s-%s-k%d",
		    s2[i].side ? "-by-dialer" : "", PRN[s2[i].proto], s2[i].k);
		if (vx_time_left() < 30)
			break;
		explore(name, run_s2, &s2[i], BP[c], 2, 1, BT[c]);
	}
	// S1: class per operation for pair0 {quick, thorough} and for the other
	// protocol pairs {quick, thorough}
	static const int cls[OP_N][4] = {
		[OP_CLOSE_A]             = { 1, 3, 1, 2 },
		[OP_CLOSE_B]             = { 1, 3, 1, 2 },
		[OP_PIPE_CLOSE]          = { 2, 3, 1, 2 },
		[OP_DIALER_CLOSE]        = { 1, 3, 1, 2 },
		[OP_LISTENER_CLOSE]      = { 1, 3, 1, 2 },
		[OP_REJECT_A_CLOSE_B]    = { 1, 2, 1, 1 },
		[OP_POSTCLOSE_B_CLOSE_A] = { 1, 2, 1, 1 },
		[OP_CB_CLOSE2]           = { 1, 2, 1, 1 },
		[OP_CB_CLOSE3]           = { 2, 3, 1, 2 },
		[OP_CB_CLOSE4]           = { 1, 2, 1, 1 },
		[OP_TWO_DIALERS]         = { 1, 2, 1, 2 },
	};
	static s1arg s1[3 * OP_N + 8];
	int          n1 = 0, skipped = 0;
	for (int pr = 0; pr < 3; pr++)
		for (int op = 0; op < OP_N; op++)
			s1[n1++] = (s1arg){ pr, op, 0 };
	// the same race over a real stream transport (nng <-> nng over ipc://)
	static const int ipcops[] = { OP_CLOSE_A, OP_CLOSE_B, OP_PIPE_CLOSE,
		OP_CB_CLOSE3 };
	for (int k = 0; k < 4; k++)
		s1[n1++] = (s1arg){ 0, ipcops[k], 1 };
	for (int i = 0; i < n1; i++) {
		int c = cls[s1[i].op][(s1[i].proto ? 2 : 0) + (T ? 1 : 0)];
		if (s1[i].ipc) // ~330 choice points per execution
			c = (T && (s1[i].op == OP_PIPE_CLOSE || s1[i].op == OP_CB_CLOSE3))
			    ? 2
			    : 1;
		snprintf(name, sizeof(name), "S1-%s%s-%s", s1[i].ipc ? "ipc-" : "",
		    PRN[s1[i].proto], OPN[s1[i].op]);
		if (vx_time_left() < (T ? 150 : 15)) {
			skipped++;
			continue;
		}
		explore(name, run_s1, &s1[i], BP[c], 2, 1, BT[c]);
	}
	vx_note("bounds",
	    "budget classes lite/p1/p2 = (preempt,total) (1,1)/(1,2)/(2,2), switch 2, "
	    "timer 1; S1 = 3 protocol pairs x %d racing operations over inproc + 4 "
	    "over ipc (%d skipped for time); S2 k=1,2 x pair0,push/pull x send-timing; S3 %d (min,max) "
	    "configs x 3/4 seeds x 4^3 (4^4 thorough) loss modes x 3 end modes; S4 3 "
	    "protocols x 7 x 8 failure modes x overlap",
	    OP_N, skipped, ns3);
	return vx_finish();
}
